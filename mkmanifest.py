#!/usr/bin/env python3
# Generates MANIFEST.json from the table below (kept in one place so the file is always schema-valid).
import json
HOOK_COMMITS=["e35c55d"]
checks = {
 "C01": dict(cat="fault_enumeration", tech="adversarial-execution monitor: real Groth16 Setup/Prove/Verify against enumerated proof edits, replayed inputs, surplus-commitment forgery, dishonest prover via PostSolve hook, byte flips",
   text="Every single-element edit of genuine proofs is enumerated and the real verifier's answer observed, on generated circuits with 0..3 commitments over 3 (quick) / 7 (thorough) curves; plus replay, commitment-list, dishonest-prover and byte-level families. Says: none of the implemented adversaries is accepted on the executions observed; nothing about adversaries not implemented.",
   note="trusted: big.Int reference evaluator (ceval), gnark-crypto group arithmetic used to build edits, the PostSolve hook; soundness error 2^-250 treated as never", ref="§3 C01"),

 "C02": dict(cat="fault_enumeration", tech="adversarial-execution monitor (enumerated proof edits, replay, option mismatch, dishonest prover via PostSolve hook editing L,R,O, byte flips) + reference-model key audit after Setup",
   text="Every single-leaf edit of genuine PLONK proofs is enumerated against the real verifier on generated sparse systems with 0..2 BSB22 commitments over 3/7 curves; the dishonest prover violates exactly a gate, only a copy constraint, or a public row (classified independently by ceval); the key audit recomputes selector columns, the wiring permutation's cycle structure and all vk commitments from the exported gates. Says what the observed executions did, nothing about unimplemented adversaries.",
   note="trusted: ceval, gnark-crypto kzg.Commit/fft used by the audit, unsafekzg SRS; soundness error 2^-250 treated as never", ref="§3 C02"),

 "C08": dict(cat="exploration", tech="hostile-input monitor in child processes: truncations, length-prefix rewrites, bit flips, shape edits, witness header/payload disagreement through ReadFrom -> Public() -> Verify; crash/abort of the child is the violation event",
   text="Runs the real decoders and verifiers of both back-ends on ~10^5 (quick) hostile byte strings and objects per run derived from genuine triples, one child process per (curve, back-end) with each input logged before use; observes panics (recovered or fatal), process death, and structurally inconsistent inputs that no stage reports. Held-on-what-was-observed only.",
   note="declared slice lengths above 2^16 excluded (allocation happens inside gnark-crypto before reading); keys are trusted inputs", ref="§3 C08"),

 "C07": dict(cat="exploration", tech="reference-model monitor: run-time generated circuit struct types (reflect.StructOf shape trees + static catalogue) against an independent walk of the shape tree; witness vector, Public()/PublicOnly, binary and JSON round trips, in-circuit binding on both builders with swap-rejection",
   text="~19k (quick) / ~400k (thorough) (shape, field) cases over 6/10 fields: the harness's own implementation of the documented ordering/visibility/naming rule predicts the witness vector, the public prefix, the byte layout and the input wire names; Define asserts each leaf equals its constant and a swapped assignment must be rejected. Observed executions only.",
   note="trusted: math/big for expected values, the harness's shape-tree walker as statement of the documented rule; JSON checked inside the documented domain (no embedded/pointer/any fields)", ref="§3 C07"),

 "C10": dict(cat="exploration", tech="history monitor at the client boundary under the race detector: concurrent Solve / Groth16.Prove / PLONK.Prove on shared system, keys and option value vs the same calls alone; PRNG delays at the solver's Yield hook points; child processes with SIGQUIT watchdog for crash/deadlock; race logs parsed",
   text="Every concurrent call's outcome (error class, SHA-256 of the solution with commitments replaced by a hash and the mask fixed, or verification result of the produced proof) is compared with the same call executed alone before and after; -race build, reports de-duplicated by the top gnark frames of both accesses; evidence counts overlapping call pairs and distinct orders of reset events. Sampled interleavings only.",
   note="hash.Hash option objects are not shared between calls; interleavings sampled, not enumerated; watchdog expiry without deadlock evidence is inconclusive", ref="§3 C10"),
 "C11": dict(cat="exploration", tech="history monitor: repeated / interleaved / parallel / fresh-process compilations of a circuit catalogue, SHA-256 of WriteTo bytes compared; keys reused across recompilations",
   text="Each of ~27 circuit x builder variants (hints, commitments, lookups, range checks, emulated arithmetic, multicommit, Defer-in-Defer, the wire-to-constraint query interface with addMissing, hashes, a GKR sub-circuit) is compiled 10-60 times in one process, in parallel goroutines and in 2-6 fresh processes (fresh map seeds); all serializations of a variant must be byte-identical. Map iteration orders and schedules are sampled.",
   note="determinism observed over the runs made", ref="§3 C11"),
 "C13": dict(cat="exploration", tech="differential monitor (accept iff 0<=v<2^n, lookup==table[i]) on both builders incl. exhaustive tinyfield + adversarial-execution monitor (lying DecomposeHint / countHint, proxy lookup blueprint, two-pass prover solving the log-derivative equation, challenge-dependence of multicommit), commitment = hash",
   text="~200k (quick) solves: range checks for n in 1..70,100..250, field bits-2..+3 over commit and plain strategies, tables of size 1..300 with constant/witness entries and all query patterns; every implemented lie must make Solve fail, a sample goes through the real Groth16/PLONK provers. Built by a sub-agent and validated against 13 mutants (12 caught, 1 equivalent).",
   note="log-derivative strategy not run over tinyfield (non-negligible soundness error by design); native Rangechecker strategy never occurs (no builder implements it)", ref="§3 C13"),

 "C14": dict(cat="exploration", tech="differential monitor against a direct integer implementation of the documented domains (exhaustive over tinyfield, edge grids on bn254/bls12-377, both builders) + adversarial-execution monitor (~70 lying-hint strategies via OverrideHint, each wrong output asserted in turn, at most one accepted output per input)",
   text="~540k cases (quick): generic and bounded comparators (three documented regimes, undefined regimes get no verdict), Mux/BinaryMux/Map/KeyDecoder/Decoder/Slice/Partition, bitslice.Partition, uints 32/64-bit ops; outputs read through a probe hint; lying hints aimed at each wrong output must make Solve fail. Built by a sub-agent; 10/10 mutants caught; found and led to 4 fix commits.",
   note="lies are a finite hand-written set plus aimed ones; commitment-based soundness of range checks/lookups belongs to C13; Solve only (no prove/verify sample)", ref="§3 C14"),

 "C04": dict(cat="exploration", tech="reference-model (differential) monitor: generated straight-line programs compiled by both real builders and solved by the real solver vs an independent big.Int interpreter of the documented API meaning; single-operation sweep over the 47-element field; C06 solution re-validation on",
   text="~650k (quick) solves: every API call x constant/variable operand pattern x input tuples over tinyfield (exhaustive for <=2 variable operands, <=3 in thorough), plus random programs over tinyfield/bn254/bls12-377/bw6-761 in variants (constant<->variable input, compress threshold 2/5/default, r1cs vs scs): expected value accepted, value+1 rejected, documented-unsatisfiable inputs rejected, compile-time refusal only when no assignment satisfies. Found and led to 4 fix commits (IsZero under low compress threshold, scs DivUnchecked(0,0), empty sparse system).",
   note="oracle = harness's reading of frontend/api.go doc comments (ToBinary(v,n) unsatisfiable when v needs more than n bits; a divisor that is zero under every tested assignment may be refused at compile time)", ref="§3 C04"),
 "C05": dict(cat="exploration", tech="adversarial-execution monitor: all hint outputs of a solve replaced by enumerated lies (all 47^K tuples, all boolean patterns incl. aliased decompositions, edits, bits of v+p) via OverrideHint; real solver as referee; computed outputs read through a probe hint",
   text="~400k (quick) lying solves over tinyfield (exhaustive lie spaces for K<=2 outputs / boolean patterns K<=10) and bn254/bls12-377/bw6-761 (targeted cheats on full-width, width-1 and short ToBinary, Cmp, AssertIsLessOrEqual, IsZero) on both builders, plus short random programs: an accepted solve must expose exactly the documented values. ~900k hint calls intercepted per quick run.",
   note="adversary controls hint outputs only (wires forced by constraints are computed by the real solver); DivUnchecked(0,0) quotient exempt as documented", ref="§3 C05"),
 "C15": dict(cat="exploration", tech="differential monitor against crypto/sha256, x/crypto sha3 and ripemd160, gnark-crypto MiMC/Poseidon2/Merkle/fiat-shamir: digests tapped through a hint and asserted in-circuit; test engine + compiled r1cs/scs; liveness controls with a flipped digest bit",
   text="~9.4k (quick) / 61k (thorough) cases: lengths around every block and padding boundary, FixedLengthSum (declared max, actual) grids incl. 0 and max, all write chunkings, permutation state import, MiMC/Poseidon2 on all 7 curves, Merkle proofs depths 1..8 every leaf index with one-bit-wrong variants. Built by a sub-agent; 7/7 mutants caught; led to 1 fix commit.",
   note="Poseidon2 widths above 3 and GKR-Poseidon2 not covered; byte gadgets on fields other than bn254 get small grids", ref="§3 C15"),

 "C18": dict(cat="exploration", tech="adversarial-execution monitor on serialized ceremony transcripts: honest chains worked from bytes (positive: verify, keys prove/verify), then every single group element of a contribution replaced (neighbour, generator, double, negation, identity, parallel chain, previous contribution), consistent multi-element re-basings, challenge edits, reordered/spliced/dropped/duplicated/k-2 chains, foreign commons and circuits",
   text="bn254+bls12-377 (quick, PRNG subset per vector and class) / all 7 curves with every element enumerated (thorough, ~64k cases): Verify / VerifyPhase1 / VerifyPhase2 must reject every edited transcript except edits leaving the element equal and the documented empty-Challenge tolerance; extracted keys prove and verify and are not interchangeable with single-party keys. Built by a sub-agent; 10/11 mutants caught (1 equivalent).",
   note="per-curve typed code written for bn254 and instantiated by c18/gen.sh; domain sizes 2..64 plus the size-1 case (known finding)", ref="§3 C18"),

 "C06": dict(cat="exploration", tech="invariant-at-a-hook monitor: the PostSolve hook hands every solution object (Solve and inside Prove) to an independent big.Int evaluator of the exported rows/gates; failure side decided by the reference interpreter; Yield-hook delays at level/task boundaries, task counts 1..512, -race in thorough",
   text="Every solution seen is re-validated (rows/gates satisfied, witness preserved, A,B,C = row evaluations, L,R,O = public rows / gate wires / wire-0 padding); the same monitor also runs inside the C04, C05 and C03 workloads (>60k solutions per quick run there). Own workload: lookup/range-check/hint/commitment systems and random programs over 4 fields, original and restored from bytes; the evidence counts the tasks executed by pool workers (parallel branch really taken).",
   note="trusted: ceval (uses the systems' exported ToBigInt for coefficients); commitments replaced by a hash for plain Solve calls", ref="§3 C06"),

 "C03": dict(cat="exploration", tech="reference-model monitor around the real Setup/Prove/Verify in child processes (crash / hang observed): satisfying assignments from the reference interpreter must prove and verify under consistently set option sets; violating ones must make Prove return an error; C06 solution re-validation on",
   text="3 (quick) / 7 (thorough) curves x {Groth16, PLONK}: random API programs (incl. no-secret, no-public, all-constant shapes), arithmetic circuits with 0..5 commitments (public-only, secret-only, mixed, over earlier commitments), lookup/range-check/hint scenarios (thorough), option sets {default, SHA-256, Keccak, SHA3 challenges, statistical ZK, solver task counts}. Observed executions only.",
   note="a curve's own MiMC is not a valid challenge hash for its proofs (it only accepts canonical scalar-field blocks; G1 coordinates do not fit) and is not used; PLONK Setup's documented refusal of systems below 2 rows is not a violation; unsafekzg SRS", ref="§3 C03"),

 "C20": dict(cat="exploration", tech="randomness tap on crypto/rand.Reader + differential replay: draw accounting, zero-stream (unblinded) reference proofs, per-draw substitution replay, pairwise distinctness; one child process per curve",
   text="Per curve and back-end, circuits with 0..2 commitments: every Prove draws at least the number of blinding scalars the scheme needs and never re-uses bytes; every blinded element (Ar,Bs,Krs / LRO,Z; first commitment) of honest proofs differs from the deterministic zero-randomness proof; replaying the recorded stream with one accepted scalar replaced still verifies, changes some element, reaches every blinded element, and some draw changes Z without L,R,O (H without L,R,O,Z under statistical ZK); 4-8 proofs of one witness are pairwise distinct in every blinded element.",
   note="the tap replaces the process-global crypto/rand.Reader; rejection-sampled candidates are recognised by re-implementing the samplers' acceptance rule; quotient-shard randomisers visible only through the replay step", ref="§3 C20"),

 "C09": dict(cat="exploration", tech="differential round-trip monitor: every encoding of systems / keys / proofs written, read back from a stream with trailing garbage, re-encoded; decoded systems solved against originals (C06 monitor on); proofs cross-verified over the {original, decoded} system x pk x vk cube",
   text="3/7 curves + tinyfield/babybear/koalabear systems: generated circuits with commitments, lookup/range-check/hint scenarios, random programs, gadget systems (emulated arithmetic, hashes, GKR metadata, debug info/logs); WriteTo / WriteRawTo / WriteDump+ReadDump / UnsafeReadFrom; ~3.5k cross verifications per quick run. Behavioural equality, not DeepEqual.",
   note="witness encodings covered by C07; hostile bytes by C08; small-field systems are decoded into zero-value system objects (as groth16.NewCS does for curves)", ref="§3 C09"),

 "C12": dict(cat="exploration", tech="differential monitor (random operation chains over emulated.Field mirrored in big.Int, every intermediate tapped through a hint; test engine + compiled r1cs/scs) + adversarial-execution monitor (lying mulHint/polyMvHint/Div/Inverse/Sqrt/subPadding hints incl. the best-effort carry-solved cheat; commitment = hash)",
   text="22 parameter sets (13 built-in, 9 custom incl. one limb, non-prime, wider than native), chains of 10-200 operations driving overflow to the reduction thresholds, boundary chains, variable-modulus ops; ~4.5k must-reject cheats per quick run. Built by a sub-agent (7/7 mutants caught), found 10 defect classes: 8 repaired by fix commits, 2 open known findings (carry limbs not range checked = soundness, confirmed with verifying Groth16/PLONK proofs of a false product).",
   note="define-time panics are counted as robustness observations, not violations; chains route around repaired defect sites only where still needed", ref="§3 C12"),

 "C16": dict(cat="exploration", tech="differential monitor against big.Int group laws / textbook ECDSA, EdDSA, ecrecover (self-checked against gnark-crypto and crypto/ecdsa) in killable worker processes (test engine; compiled sample) + adversarial-execution monitor (lying GLV / fake-GLV / half-GCD decomposition and result hints incl. high-limb forgeries; residue-witness hint)",
   text="emulated short-Weierstrass on 6-7 curves (Add/AddUnified/Double/ScalarMul/ScalarMulBase/JointScalarMulBase/MSM, with and without complete arithmetic), native twisted Edwards on 8 curves, 2-chain G1/G2, all five pairing packages, ECDSA/EdDSA, EVM precompiles; documented preconditions give no verdict. Built by a sub-agent (5/5 mutants caught). Found 37 defect signatures: 13 repaired by 7 fix commits, 24 open known findings (5 soundness breaks incl. a forged P-256 ECDSA signature accepted by the compiled circuit, 1 non-terminating hint in gnark-crypto, 18 completeness classes on edge scalars).",
   note="a decomposition-hint screen keeps non-terminating scalars out of the pool (3 confirmed under a watchdog); emulated pairings are few in quick (20-120 s each)", ref="§3 C16"),

 "C19": dict(cat="exploration", tech="differential monitor (random GKR topologies through std/gkr: exported values asserted against direct evaluation in-circuit and tapped through a hint against a big.Int evaluation; gkr-poseidon2 vs native and plain gadget) + adversarial-execution monitor (GkrInfo hint ids redirected on a private copy of the system: lying solve / prove hints, 33 deviations incl. best-effort proofs for wrong outputs; commitment = hash)",
   text="bn254 and bls12-377, both builders: dependency patterns (chains, trees, stars, DAGs), fan-out, depth 1-6, 1-64 instances, custom gates of degree 1-4; ~1.9k (quick) / 38k (thorough) evaluations, every deviation that changes an output, a proof element or a native input must make Solve fail. Built by a sub-agent (3/3 mutants caught); found 4 defects: 3 repaired by fix commits, 1 open known finding (single instance).",
   note="systems on which the solving hint would not terminate were predicted and skipped before the repair; Fiat-Shamir seeding weaknesses need an adaptive attacker not implemented", ref="§3 C19"),

 "C17": dict(cat="exploration", tech="differential monitor against the native verifiers (same triple, matching recursion options): outer circuit satisfiable (test engine; compiled r1cs/scs sample in thorough) iff native Verify returns nil, both directions; hostile triples from the C01/C02 edit enumeration, torsion shifts, key switching; hang case in a killable child",
   text="Groth16 and PLONK in-circuit verifiers, BLS12-377->BW6-761 (2-chain) and BN254->BN254 (emulated); inner circuits with 0/1/2 commitments; fixed vk, witness vk, SwitchVerificationKey over 1-3 keys, AssertSameProofs/AssertDifferentProofs, +-complete arithmetic, +-subgroup check; 417 (quick) / ~3.5k (thorough) triples. Built by a sub-agent (7/7 mutants caught). Two open known findings (emulated verifier hangs in gnark-crypto's half-GCD; PLONK gadget accepts torsion-shifted KZG quotients that native rejects).",
   note="only two pairings are built; hostile keys are genuine keys of other circuits; emulated public inputs are screened for the non-terminating hint", ref="§3 C17"),
}
pending = {}
for i in range(1,21):
    pid="C%02d"%i
    if pid not in checks: pending[pid]="check not built yet in this round (runtime monitor designed in DESIGN.md §3 %s; to be registered once it is silent on the unchanged tree)"%pid
m = {
 "version":1,
 "setup_cmd":"./setup.sh",
 "hooks":{"guard":"verif (Go build tag)","enable":"go test -tags verif (harness module replaces github.com/consensys/gnark by /repo, so every check rebuilds /repo's working tree)",
          "baseline_off_cmd":"./baseline_off.sh","source_commits":HOOK_COMMITS,"add_only":True},
 "engines":[
   {"name":"vcore","path":"harness/internal/vcore","serves_properties":sorted(checks),"kind_free_text":"seeds, case accounting, three-valued verdicts, known findings, replay files, evidence"},
   {"name":"hooks","path":"harness/internal/hooks","serves_properties":["C01","C02","C06","C10","C20"],"kind_free_text":"adapters from gnark's verif-tag solver hooks (PostSolve, Yield) to field-agnostic events"},
   {"name":"ceval","path":"harness/internal/ceval","serves_properties":["C01","C02","C04","C05","C06"],"kind_free_text":"independent big.Int evaluator of exported R1CS rows / sparse gates"},
   {"name":"curves","path":"harness/curves","serves_properties":["C01","C02","C08","C18","C20"],"kind_free_text":"per-curve typed harness code written for bn254, instantiated for 6 more curves by curves/gen.sh"},
 ],
 "checks":[],
 "not_applicable":[{"property_id":k,"reason":v} for k,v in sorted(pending.items())],
 "notes":"All checks are runtime monitors over executions of the real code built from /repo's working tree with -tags verif. ./check <id> <tier> prints VIOLATION/KNOWN-FINDING lines; exit 2 means the check itself is broken. VERIF_SEED selects the case lists.",
}
for pid,c in sorted(checks.items()):
    m["checks"].append({
      "property_id":pid,"quick_cmd":"./check %s quick"%pid,"thorough_cmd":"./check %s thorough"%pid,
      "evidence_file":"/verif/evidence/%s.json"%pid,"replay_cmd_template":"cat {path}",
      "engine":"vcore","level_claimed":{"category":c["cat"],"text":c["text"],"design_ref":c["ref"]},
      "level_note":c["note"],"technique":c["tech"]})
json.dump(m,open("/verif/MANIFEST.json","w"),indent=1)
print("checks:",len(m["checks"]),"pending:",len(pending))
