//go:build verif

// C05 — Constraints emitted for API operations admit no spec-violating assignment.
// Adversarial-execution monitor: the adversary owns every hint output. The real
// solver is the referee (it forces every wire a constraint determines and checks
// every constraint; the C06 monitor re-validates what it accepts). The values
// the circuit computed under a lie are read through a probe hint; an accepted
// solve whose outputs differ from the documented result is a violation.
package c05

import (
	"fmt"
	"math/big"
	"math/rand/v2"
	"strings"
	"sync"
	"testing"

	"github.com/consensys/gnark-crypto/ecc"
	"github.com/consensys/gnark/constraint/solver"
	"github.com/consensys/gnark/internal/smallfields/tinyfield"

	"github.com/consensys/gnark/verifharness/internal/c06mon"
	"github.com/consensys/gnark/verifharness/internal/progs"
	"github.com/consensys/gnark/verifharness/internal/vcore"
)

var tiny = tinyfield.Modulus()

var hintByID = map[solver.HintID]solver.Hint{}
var hintName = map[solver.HintID]string{}

func init() {
	for _, h := range solver.GetRegisteredHints() {
		hintByID[solver.GetHintID(h)] = h
		hintName[solver.GetHintID(h)] = solver.GetHintName(h)
	}
}

type hcall struct {
	id  solver.HintID
	out []*big.Int
}

// session drives one compiled probe-circuit: honest recording, then lies.
type session struct {
	c     *progs.Compiled
	probe solver.HintID
	ids   []solver.HintID
}

func newSession(c *progs.Compiled) *session {
	s := &session{c: c, probe: solver.GetHintID(progs.ProbeHint)}
	for _, id := range c.HintIDs() {
		if id != s.probe {
			s.ids = append(s.ids, id)
		}
	}
	return s
}

// run solves with the given lie vector (nil = honest). Returns the recorded hint
// calls, the probed exposed values (nil if the probe was not reached) and the error.
func (s *session) run(in []*big.Int, lie []*big.Int) (calls []hcall, probed []*big.Int, err error) {
	var mu sync.Mutex
	pos := 0
	opts := []solver.Option{solver.WithNbTasks(1)}
	for _, id := range s.ids {
		id := id
		h := hintByID[id]
		if h == nil {
			return nil, nil, fmt.Errorf("hint %d not registered", id)
		}
		opts = append(opts, solver.OverrideHint(id, func(m *big.Int, ins, outs []*big.Int) error {
			if err := h(m, ins, outs); err != nil {
				return err
			}
			mu.Lock()
			defer mu.Unlock()
			rec := hcall{id: id}
			for i := range outs {
				if lie != nil && pos < len(lie) {
					outs[i].Set(lie[pos])
				}
				pos++
				rec.out = append(rec.out, new(big.Int).Set(outs[i]))
			}
			calls = append(calls, rec)
			return nil
		}))
	}
	opts = append(opts, solver.OverrideHint(s.probe, func(m *big.Int, ins, outs []*big.Int) error {
		mu.Lock()
		probed = make([]*big.Int, len(ins))
		for i := range ins {
			probed[i] = new(big.Int).Set(ins[i])
		}
		mu.Unlock()
		for i := range outs {
			outs[i].SetInt64(0)
		}
		return nil
	}))
	_, err = s.c.Solve(in, nil, opts...)
	return
}

func vs(v []*big.Int) string {
	s := make([]string, len(v))
	for i := range v {
		s[i] = v[i].String()
	}
	return strings.Join(s, ",")
}

func eq(a, b []*big.Int) bool {
	if len(a) != len(b) {
		return false
	}
	for i := range a {
		if a[i].Cmp(b[i]) != 0 {
			return false
		}
	}
	return true
}

// lies enumerates lie vectors for K hint outputs over modulus m given the honest vector.
func lies(rng *rand.Rand, honest []*big.Int, m *big.Int, small bool, budget int, f func(l []*big.Int, kind string)) {
	K := len(honest)
	mk := func() []*big.Int {
		l := make([]*big.Int, K)
		for i := range l {
			l[i] = new(big.Int).Set(honest[i])
		}
		return l
	}
	if small && K <= 2 {
		// all m^K tuples
		mi := int(m.Int64())
		total := 1
		for i := 0; i < K; i++ {
			total *= mi
		}
		for x := 0; x < total; x++ {
			l := make([]*big.Int, K)
			y := x
			for i := range l {
				l[i] = big.NewInt(int64(y % mi))
				y /= mi
			}
			f(l, "all-tuples")
		}
		return
	}
	allBool := true
	for _, h := range honest {
		if h.BitLen() > 1 {
			allBool = false
		}
	}
	if allBool && K <= 10 {
		for x := 0; x < 1<<K; x++ {
			l := make([]*big.Int, K)
			for i := range l {
				l[i] = big.NewInt(int64(x >> i & 1))
			}
			f(l, "all-boolean-patterns")
		}
	}
	// single-position edits
	pm1 := new(big.Int).Sub(m, big.NewInt(1))
	half := new(big.Int).Rsh(m, 1)
	positions := make([]int, 0, K)
	if K <= 16 {
		for i := 0; i < K; i++ {
			positions = append(positions, i)
		}
	} else { // long vectors (full-width decompositions): both ends and a PRNG sample
		positions = append(positions, 0, 1, K-1, K-2, K-3)
		for t := 0; t < 6; t++ {
			positions = append(positions, rng.IntN(K))
		}
	}
	for _, i := range positions {
		for _, v := range []*big.Int{big.NewInt(0), big.NewInt(1), big.NewInt(2), pm1, half,
			new(big.Int).Mod(new(big.Int).Add(honest[i], big.NewInt(1)), m), new(big.Int).Mod(new(big.Int).Sub(honest[i], big.NewInt(1)), m)} {
			if v.Cmp(honest[i]) == 0 {
				continue
			}
			l := mk()
			l[i] = v
			f(l, "single-edit")
		}
	}
	// aliased decomposition: the bits of v + m when they fit in K bits
	if allBool && K >= m.BitLen()-1 {
		v := new(big.Int)
		for i, h := range honest {
			if h.Sign() != 0 {
				v.SetBit(v, i, 1)
			}
		}
		for k := 1; k <= 2; k++ {
			w := new(big.Int).Add(v, new(big.Int).Mul(m, big.NewInt(int64(k))))
			if w.BitLen() <= K {
				l := make([]*big.Int, K)
				for i := range l {
					l[i] = big.NewInt(int64(w.Bit(i)))
				}
				f(l, "aliased-decomposition(v+k*p)")
			}
		}
	}
	// swaps and random patterns
	for t := 0; t < budget; t++ {
		l := mk()
		switch rng.IntN(3) {
		case 0:
			if K >= 2 {
				i, j := rng.IntN(K), rng.IntN(K)
				l[i], l[j] = l[j], l[i]
			}
		case 1:
			for i := range l {
				if rng.IntN(4) == 0 {
					if allBool {
						l[i] = big.NewInt(int64(rng.IntN(2)))
					} else {
						l[i] = progs.EdgeValue(rng, m)
					}
				}
			}
		case 2:
			i := rng.IntN(K)
			l[i] = progs.EdgeValue(rng, m)
		}
		f(l, "random-edit")
	}
}

type fieldSpec struct {
	name  string
	mod   *big.Int
	small bool
}

// attack runs the honest solve and all lies for one (compiled probe circuit, input).
func attack(r *vcore.Run, rng *rand.Rand, s *session, f fieldSpec, in []*big.Int, budget int) {
	p := s.c.Prog
	ref := p.Eval(in, f.mod)
	want := p.Outs(ref)
	calls, probed, err := s.run(in, nil)
	if err != nil && strings.HasPrefix(err.Error(), "PANIC") {
		r.Violation("solver-panic/honest/"+s.c.Builder+"/"+opsOf(p), err.Error(), map[string]any{"program": p.String(), "inputs": vs(in), "field": f.name})
		return
	}
	var honest []*big.Int
	for _, c := range calls {
		honest = append(honest, c.out...)
		r.Count("hint-calls-intercepted."+hintName[c.id], 1)
	}
	r.Count("hint-calls-intercepted", len(calls))
	if len(honest) == 0 {
		r.Count("cases.no-hint-reached", 1)
		return
	}
	rep := func(l []*big.Int, probed []*big.Int) map[string]any {
		return map[string]any{"program": p.String(), "builder": s.c.Builder, "field": f.name, "inputs": vs(in), "kinds": fmt.Sprint(p.Inputs),
			"honest_hint_outputs": vs(honest), "lying_hint_outputs": vs(l), "documented_outputs": vs(want), "reference_sat": ref.Sat, "reference_reason": ref.Reason, "accepted_outputs": vs(probed)}
	}
	// honest run sanity (C04's business, counted only)
	if ref.Sat && (err != nil || !outsOK(p, ref, probed, want)) {
		r.Count("honest-run-disagrees-with-reference(C04)", 1)
	}
	lies(rng, honest, f.mod, f.small, budget, func(l []*big.Int, kind string) {
		r.Eval(fmt.Sprintf("%s|%s|%s|%s|%s", f.name, s.c.Builder, p, vs(in), vs(l)), !eq(l, honest))
		_, probed, err := s.run(in, l)
		if err != nil {
			if strings.HasPrefix(err.Error(), "PANIC") {
				r.Count("lie.solver-panic", 1)
				r.Violation("solver-panic/lying-hint/"+s.c.Builder+"/"+opsOf(p), err.Error(), rep(l, nil))
				return
			}
			r.Count("lie.rejected", 1)
			r.Count("lie.rejected."+kind, 1)
			return
		}
		// accepted: the exposed values must be the documented ones (and the inputs must be in the domain)
		if !ref.Sat {
			r.Count("lie.ACCEPTED-violating-assertion", 1)
			r.Violation("lying-hint-satisfies-violated-assertion/"+s.c.Builder+"/"+opsOf(p)+"/"+kind,
				"the documented meaning is unsatisfiable ("+ref.Reason+") but hint outputs exist that satisfy all constraints", rep(l, probed))
			return
		}
		if !outsOK(p, ref, probed, want) {
			r.Count("lie.ACCEPTED-wrong-output", 1)
			r.Violation("lying-hint-yields-wrong-output/"+s.c.Builder+"/"+opsOf(p)+"/"+kind,
				fmt.Sprintf("hint outputs exist that satisfy all constraints with exposed values (%s) different from the documented result (%s)", vs(probed), vs(want)), rep(l, probed))
			return
		}
		r.Count("lie.accepted-with-documented-output", 1)
		r.SampleClass("accepted-harmless/"+opsOf(p)+"/"+s.c.Builder, rep(l, probed))
	})
}

// outsOK compares probed exposed values with the reference, ignoring registers documented as unconstrained.
func outsOK(p *progs.Program, ref *progs.Result, probed, want []*big.Int) bool {
	if probed == nil {
		return len(want) == 0
	}
	if len(probed) != len(want) {
		return false
	}
	for i := range want {
		free := false
		for _, f := range ref.Free {
			if f == p.Exposed[i] {
				free = true
			}
		}
		if !free && probed[i].Cmp(want[i]) != 0 {
			return false
		}
	}
	return true
}

func opsOf(p *progs.Program) string {
	if len(p.Instrs) == 1 {
		return p.Instrs[0].Op
	}
	return "program"
}

var hintedOps = []string{"IsZero", "ToBinary", "Cmp", "AssertIsLessOrEqual", "Select", "Lookup2", "Xor", "Or", "And", "FromBinary", "Div", "DivUnchecked", "Inverse", "AssertIsDifferent", "AssertIsBoolean", "AssertIsCrumb", "Mul", "AssertIsEqual"}

func arity(op string) int {
	if op == "FromBinary" {
		return 3
	}
	return progs.Arity[op]
}

func singleOp(op string, kinds []progs.Kind, n int) *progs.Program {
	p := &progs.Program{Inputs: kinds}
	in := progs.Instr{Op: op, N: n}
	for i := range kinds {
		in.Args = append(in.Args, i)
	}
	p.Instrs = []progs.Instr{in}
	for k := 0; k < progs.NbResults(in); k++ {
		p.Exposed = append(p.Exposed, len(kinds)+k)
	}
	return p
}

func TestC05(t *testing.T) {
	r := vcore.Start(t, "C05")
	mon := c06mon.Install(r, r.Pick(5, 2))
	defer mon.Uninstall()
	fields := []fieldSpec{{"tinyfield", tiny, true}, {"bn254", ecc.BN254.ScalarField(), false}, {"bls12-377", ecc.BLS12_377.ScalarField(), false}, {"bw6-761", ecc.BW6_761.ScalarField(), false}}
	type job struct {
		op      string
		mask    int
		builder string
		f       fieldSpec
		n       int
	}
	var jobs []job
	for _, op := range hintedOps {
		a := arity(op)
		for mask := 0; mask < 1<<a; mask++ {
			if mask == (1<<a)-1 {
				continue // all constant: no wires
			}
			if a > 3 && mask != 0 && mask != 0b000011 && mask != 0b111100 {
				continue
			}
			for _, b := range []string{"r1cs", "scs"} {
				for _, f := range fields {
					if !f.small && mask != 0 && op != "Cmp" && op != "AssertIsLessOrEqual" {
						continue // constants on the large fields only where the constant path differs materially
					}
					if op == "ToBinary" {
						jobs = append(jobs, job{op, mask, b, f, f.mod.BitLen()}, job{op, mask, b, f, 3}, job{op, mask, b, f, f.mod.BitLen() + 2})
						if !f.small {
							jobs = append(jobs, job{op, mask, b, f, f.mod.BitLen() - 1})
						}
					} else {
						jobs = append(jobs, job{op, mask, b, f, 0})
					}
				}
			}
		}
	}
	vcore.Parallel(len(jobs), 14, func(ji int) {
		j := jobs[ji]
		rng := r.Rand(fmt.Sprintf("%s/%d/%s/%s/%d", j.op, j.mask, j.builder, j.f.name, j.n))
		a := arity(j.op)
		kinds := make([]progs.Kind, a)
		var cidx, vidx []int
		for i := 0; i < a; i++ {
			if j.mask>>i&1 == 1 {
				kinds[i] = progs.Const
				cidx = append(cidx, i)
			} else {
				kinds[i] = progs.Kind(1 + i%2)
				vidx = append(vidx, i)
			}
		}
		prog := singleOp(j.op, kinds, j.n)
		nConst := 1
		if len(cidx) > 0 {
			nConst = r.Pick(6, 16)
		}
		for ci := 0; ci < nConst; ci++ {
			consts := make([]*big.Int, a)
			in := make([]*big.Int, a)
			for _, i := range cidx {
				if j.f.small {
					consts[i] = big.NewInt(int64(rng.IntN(47)))
				} else {
					consts[i] = progs.EdgeValue(rng, j.f.mod)
				}
				in[i] = consts[i]
			}
			c, err := progs.CompileProbe(prog, consts, j.f.mod, j.builder)
			if err != nil {
				r.Count("compile.refused", 1)
				continue
			}
			s := newSession(c)
			if len(s.ids) == 0 {
				r.Count("circuits.without-hints", 1)
				continue
			}
			r.Count("circuits.with-hints", 1)
			nIn := r.Pick(47, 2209)
			if !j.f.small {
				nIn = r.Pick(12, 200)
			}
			if len(vidx) == 1 && j.f.small {
				nIn = 47
			}
			for k := 0; k < nIn; k++ {
				for q, i := range vidx {
					if j.f.small {
						if len(vidx) == 1 {
							in[i] = big.NewInt(int64(k))
						} else if len(vidx) == 2 && nIn == 2209 {
							in[i] = big.NewInt(int64((k / pow47(q)) % 47))
						} else {
							in[i] = big.NewInt(int64(rng.IntN(47)))
							if rng.IntN(4) == 0 {
								in[i] = big.NewInt(int64(rng.IntN(3)))
							}
						}
					} else {
						in[i] = progs.EdgeValue(rng, j.f.mod)
						if k%3 == 0 && q > 0 { // close operands for comparisons
							in[i] = new(big.Int).Mod(new(big.Int).Add(in[vidx[0]], big.NewInt(int64(rng.IntN(3)-1))), j.f.mod)
						}
					}
				}
				attack(r, rng, s, j.f, in, r.Pick(6, 16))
			}
		}
	})
	// short random programs
	nProg := r.Pick(150, 1500)
	vcore.Parallel(nProg, 14, func(i int) {
		rng := r.Rand(fmt.Sprintf("prog/%d", i))
		f := fields[i%len(fields)]
		nIn := 1 + rng.IntN(3)
		prog := progs.Random(rng, nIn, 2+rng.IntN(8), f.mod.BitLen())
		for _, b := range []string{"r1cs", "scs"} {
			c, err := progs.CompileProbe(prog, nil, f.mod, b)
			if err != nil {
				continue
			}
			s := newSession(c)
			if len(s.ids) == 0 {
				continue
			}
			r.Count("programs.with-hints", 1)
			for k := 0; k < r.Pick(4, 10); k++ {
				in := make([]*big.Int, nIn)
				for q := range in {
					in[q] = progs.EdgeValue(rng, f.mod)
				}
				attack(r, rng, s, f, in, r.Pick(8, 30))
			}
		}
	})
	r.Require("hint-calls-intercepted", 1000)
	r.Require("lie.rejected", 1000)
	r.Require("lie.rejected.aliased-decomposition(v+k*p)", 10)
	r.Require("c06.solutions-revalidated", 50)
	r.Finish("exploration",
		"every API operation that emits hints (and the others, to confirm they emit none), each constant/variable operand pattern, both builders: over the 47-element field all input tuples (1-2 variable operands; sampled beyond) x lie vectors over the concatenated outputs of all hint calls of the solve — all 47^K tuples for K<=2, all 2^K boolean patterns for K<=10 (this contains every aliased decomposition, 2^6 > 47), single-position edits (0,1,2,p-1,p/2,+-1), bits of v+p and v+2p, swaps and random edits; over bn254 / bls12-377 / bw6-761 the same lie families on edge-biased inputs (full-width, width-1 and short ToBinary, Cmp, AssertIsLessOrEqual with close operands); plus short random programs. The solver with the lying hints is the referee; the exposed values it computed are read through a probe hint. Violation: Solve succeeds and the exposed values differ from the documented result, or the documented meaning is unsatisfiable. distinct = (field, builder, program, inputs, lie); non-trivial = lie differs from the honest outputs",
		[]string{"the adversary controls hint outputs only; wires forced by a constraint are computed by the real solver", "DivUnchecked(0,0): the quotient is documented as unconstrained and exempt"})
}

func pow47(q int) int {
	r := 1
	for i := 0; i < q; i++ {
		r *= 47
	}
	return r
}
