//go:build verif

package c02

import (
	"fmt"
	"strings"

	"github.com/consensys/gnark/backend/plonk"
	"github.com/consensys/gnark/frontend"
	"github.com/consensys/gnark/frontend/cs/scs"
	"github.com/consensys/gnark/test/unsafekzg"

	"github.com/consensys/gnark/verifharness/curves"
	"github.com/consensys/gnark/verifharness/internal/circuits"
	"github.com/consensys/gnark/verifharness/internal/cvapi"
	"github.com/consensys/gnark/verifharness/internal/vcore"
)

// runAudit is monitor (b): after Setup, the verifying key and the exported
// trace are compared with selector columns, permutation cycles and
// commitments recomputed by the harness from the exported gates.
func runAudit(r *vcore.Run) {
	cvs := curves.Tier(r.Quick())
	n := r.Pick(6, 80)
	type job struct {
		ops *cvapi.Ops
		idx int
	}
	var jobs []job
	for _, o := range cvs {
		for i := 0; i < n; i++ {
			jobs = append(jobs, job{o, i})
		}
	}
	vcore.Parallel(len(jobs), 12, func(k int) {
		ops, idx := jobs[k].ops, jobs[k].idx
		rng := r.Rand(fmt.Sprintf("audit/%s/%d", ops.Name, idx))
		spec := circuits.RandSpec(rng, 3)
		spec.Muls += rng.IntN(20)
		ccs, err := frontend.Compile(ops.ID.ScalarField(), scs.NewBuilder, spec.New())
		if err != nil {
			r.Inconclusive("audit-compile:" + err.Error())
			return
		}
		srs, srsL, err := unsafekzg.NewSRS(ccs)
		if err != nil {
			r.Inconclusive("audit-srs")
			return
		}
		_, vk, err := plonk.Setup(ccs, srs, srsL)
		if err != nil {
			r.Inconclusive("audit-setup:" + err.Error())
			return
		}
		audit := ops.Ext["PlonkAudit"].(func(any, any, any) ([]string, map[string]int))
		var problems []string
		var stats map[string]int
		if p, st := vcore.Catch(func() { problems, stats = audit(ccs, vk, srsL) }); p != nil {
			r.Violation("audit-panic", fmt.Sprintf("%v\n%s", p, st), map[string]any{"curve": ops.Name, "circuit": spec.String()})
			return
		}
		r.Eval(fmt.Sprintf("audit|%s|%s", ops.Name, spec), true)
		r.Count("audit.keys", 1)
		for k, v := range stats {
			r.Count("audit."+k, v)
		}
		if len(problems) > 0 {
			r.Violation("key-audit/"+editKind(strings.SplitN(problems[0], ":", 2)[0]), strings.Join(problems, "; "),
				map[string]any{"curve": ops.Name, "circuit": spec.String(), "problems": problems})
		} else {
			r.SampleClass("key-audit", map[string]any{"curve": ops.Name, "circuit": spec.String(), "checked": stats})
		}
	})
}
