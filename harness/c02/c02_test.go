//go:build verif

// C02 — PLONK verification accepts only proofs of the stated public inputs.
// (a) hostile triples against plonk.Verify (replay, enumerated single-leaf
// edits, list edits, inconsistent option sets, dishonest prover through the
// PostSolve hook, byte flips); (b) key audit after Setup (audit_test.go).
package c02

import (
	"bytes"
	"crypto/sha256"
	"fmt"
	"hash"
	"math/big"
	"math/rand/v2"
	"strings"
	"testing"

	"github.com/consensys/gnark/backend"
	"github.com/consensys/gnark/backend/plonk"
	"github.com/consensys/gnark/backend/witness"
	"github.com/consensys/gnark/constraint"
	"github.com/consensys/gnark/frontend"
	"github.com/consensys/gnark/frontend/cs/scs"
	"github.com/consensys/gnark/test/unsafekzg"
	"golang.org/x/crypto/sha3"

	"github.com/consensys/gnark/verifharness/curves"
	"github.com/consensys/gnark/verifharness/internal/adversary"
	"github.com/consensys/gnark/verifharness/internal/ceval"
	"github.com/consensys/gnark/verifharness/internal/circuits"
	"github.com/consensys/gnark/verifharness/internal/cvapi"
	"github.com/consensys/gnark/verifharness/internal/hooks"
	"github.com/consensys/gnark/verifharness/internal/vcore"
)

type caseCtx struct {
	r     *vcore.Run
	ops   *cvapi.Ops
	spec  *circuits.Spec
	label string
	ccs   constraint.ConstraintSystem
	vk    plonk.VerifyingKey
	field *big.Int
}

func verify(proof plonk.Proof, vk plonk.VerifyingKey, pw witness.Witness, opts ...backend.VerifierOption) (err error, panicked string) {
	pan, stack := vcore.Catch(func() { err = plonk.Verify(proof, vk, pw, opts...) })
	if pan != nil {
		return fmt.Errorf("panic: %v", pan), fmt.Sprintf("%v\n%s", pan, stack)
	}
	return err, ""
}

func hexOf(p plonk.Proof) string {
	var b bytes.Buffer
	if _, err := p.WriteTo(&b); err != nil {
		return "unencodable:" + err.Error()
	}
	return fmt.Sprintf("%x", b.Bytes())
}

func vecStr(v []*big.Int) []string {
	s := make([]string, len(v))
	for i := range v {
		s[i] = v[i].String()
	}
	return s
}

func editKind(name string) string {
	out := make([]byte, 0, len(name))
	for i := 0; i < len(name); i++ {
		if name[i] >= '0' && name[i] <= '9' {
			if len(out) > 0 && out[len(out)-1] == '#' {
				continue
			}
			out = append(out, '#')
			continue
		}
		out = append(out, name[i])
	}
	return string(out)
}

func (c *caseCtx) expectReject(class, name string, proof plonk.Proof, pub []*big.Int, opts ...backend.VerifierOption) {
	pw, err := circuits.MakeWitness(c.field, pub, nil)
	if err != nil {
		c.r.Inconclusive("witness-build")
		return
	}
	c.r.Eval(c.label+"|"+class+"|"+name, true)
	err, pan := verify(proof, c.vk, pw, opts...)
	rep := map[string]any{"curve": c.ops.Name, "circuit": c.spec.String(), "class": class, "edit": name, "public": vecStr(pub), "proof_hex": hexOf(proof)}
	switch {
	case pan != "":
		c.r.Count("verify.panic", 1)
		rep["panic"] = pan
		c.r.Violation("verify-panic/"+class, "Verify panicked on "+name+": "+pan, rep)
	case err == nil:
		c.r.Count("verify.ACCEPTED-must-reject", 1)
		c.r.Violation("accepted/"+class+"/"+editKind(name), fmt.Sprintf("Verify accepted a must-reject triple: %s on %s %s", name, c.ops.Name, c.spec), rep)
	default:
		c.r.Count("rejected."+class, 1)
		c.r.SampleClass(class, map[string]any{"curve": c.ops.Name, "circuit": c.spec.String(), "edit": name, "verifier_said": err.Error()})
	}
	if len(opts) > 0 {
		return
	}
	var b bytes.Buffer
	if _, werr := proof.WriteTo(&b); werr == nil {
		q := plonk.NewProof(c.ops.ID)
		var derr error
		if p, _ := vcore.Catch(func() { _, derr = q.ReadFrom(bytes.NewReader(b.Bytes())) }); p != nil {
			c.r.Violation("decode-panic/"+class, fmt.Sprintf("ReadFrom panicked on re-encoded %s: %v", name, p), rep)
		} else if derr != nil {
			c.r.Count("roundtrip.decode-rejected."+class, 1)
		} else {
			err2, pan2 := verify(q, c.vk, pw)
			if pan2 != "" {
				c.r.Violation("verify-panic/"+class, "Verify panicked on decoded "+name+": "+pan2, rep)
			} else if err2 == nil {
				c.r.Count("verify.ACCEPTED-must-reject", 1)
				c.r.Violation("accepted-after-roundtrip/"+class+"/"+editKind(name), "Verify accepted a must-reject triple after a byte round trip: "+name, rep)
			} else {
				c.r.Count("roundtrip.rejected."+class, 1)
			}
		}
	}
}

func TestC02(t *testing.T) {
	r := vcore.Start(t, "C02")
	cvs := curves.Tier(r.Quick())
	nCirc := r.Pick(3, 30)
	type job struct {
		ops *cvapi.Ops
		idx int
	}
	var jobs []job
	for _, o := range cvs {
		for i := 0; i < nCirc; i++ {
			jobs = append(jobs, job{o, i})
		}
	}
	vcore.Parallel(len(jobs), 12, func(k int) {
		runCircuit(r, jobs[k].ops, jobs[k].idx)
	})
	runAudit(r)
	r.Require("rejected.replay", 10)
	r.Require("rejected.single-edit", 100)
	r.Require("rejected.list-edit", 10)
	r.Require("rejected.dishonest-prover", 5)
	r.Require("rejected.torsion-edit", 20)
	r.Require("rejected.options-mismatch", 3)
	r.Require("genuine.accepted", 10)
	r.Require("audit.keys", 3)
	r.Require("transcript.items-bound", 50)
	r.Finish("fault_enumeration",
		"per curve and generated sparse system (0..2 BSB22 commitments): real Setup+Prove of 3 satisfying witnesses, then hostile triples: replayed public vectors (every change must reject: all public inputs are bound into gamma), complete enumeration of single-leaf edits (G1: neg/double/identity/generator/+generator/other leaf/donor/vk points; scalars: +-1, 0, neg, double, swap, donor), list-shape edits of ClaimedValues and Bsb22Commitments, option sets differing between prover and verifier (and equal on both: must accept), proofs made by the real prover from L,R,O columns violating exactly one gate / only a copy constraint / a public row (PostSolve hook, classified by ceval.CheckColumns), bit flips of the encodings; plus the key audit: selector columns, permutation cycles and vk commitments recomputed from the exported gates. distinct=(curve,circuit,class,edit); non-trivial = edited object differs from the genuine one and oracle says must-reject",
		[]string{"soundness error of PLONK/KZG (~2^-250) treated as never", "SRS from test/unsafekzg (known toxic value) — soundness against an adversary knowing tau is not claimed"})
}

type gen struct {
	pub, sec []*big.Int
	proof    plonk.Proof
	full     witness.Witness
}

func runCircuit(r *vcore.Run, ops *cvapi.Ops, idx int) {
	rng := r.Rand(fmt.Sprintf("%s/%d", ops.Name, idx))
	maxC := 2
	if idx%3 == 0 {
		maxC = 0
	}
	spec := circuits.RandSpec(rng, maxC)
	for i := range spec.Commits { // PLONK: committing an earlier commitment is exercised too; keep as drawn
		_ = i
	}
	field := ops.ID.ScalarField()
	label := fmt.Sprintf("%s/%d", ops.Name, idx)
	ccs, err := frontend.Compile(field, scs.NewBuilder, spec.New())
	if err != nil {
		r.Inconclusive("compile:" + err.Error())
		return
	}
	srs, srsL, err := unsafekzg.NewSRS(ccs)
	if err != nil {
		r.Inconclusive("srs:" + err.Error())
		return
	}
	pk, vk, err := plonk.Setup(ccs, srs, srsL)
	if err != nil {
		r.Inconclusive("setup:" + err.Error())
		return
	}
	c := &caseCtx{r: r, ops: ops, spec: spec, label: label, ccs: ccs, vk: vk, field: field}
	r.Count("circuits", 1)
	r.Count(fmt.Sprintf("circuits.bsb22=%d", ops.PlonkNbQcp(vk)), 1)

	var gens []gen
	for w := 0; w < 3; w++ {
		pub, sec := spec.Assign(rng, field)
		full, err := circuits.MakeWitness(field, pub, sec)
		if err != nil {
			r.Inconclusive("witness")
			return
		}
		proof, err := plonk.Prove(ccs, pk, full)
		if err != nil {
			r.Inconclusive("prove-genuine:" + err.Error())
			return
		}
		pw, _ := full.Public()
		if err, pan := verify(proof, vk, pw); err != nil || pan != "" {
			r.Inconclusive("genuine-rejected")
			r.Count("genuine.REJECTED", 1)
			return
		}
		r.Count("genuine.accepted", 1)
		gens = append(gens, gen{pub, sec, proof, full})
	}
	donors := []any{gens[1].proof, gens[2].proof}
	g := gens[0]

	// ---- replay: every public input is bound into gamma, used or not
	for j := range g.pub {
		for _, mode := range []string{"+1", "random", "zero"} {
			np := clonev(g.pub)
			switch mode {
			case "+1":
				np[j].Add(np[j], big.NewInt(1)).Mod(np[j], field)
			case "random":
				np[j] = circuits.RandFieldElem(rng, field)
			case "zero":
				np[j] = new(big.Int)
			}
			if np[j].Cmp(g.pub[j]) == 0 {
				continue
			}
			c.expectReject("replay", fmt.Sprintf("pub[%d]%s", j, mode), g.proof, np)
		}
	}
	if len(g.pub) >= 2 && g.pub[0].Cmp(g.pub[1]) != 0 {
		np := clonev(g.pub)
		np[0], np[1] = np[1], np[0]
		c.expectReject("replay", "swap(pub[0],pub[1])", g.proof, np)
	}
	for j := range g.pub {
		if g.pub[j].Cmp(gens[1].pub[j]) != 0 {
			c.expectReject("replay", "other-witness-proof", gens[1].proof, g.pub)
			break
		}
	}
	c.expectReject("replay-length", "append-element", g.proof, append(clonev(g.pub), big.NewInt(0)))
	if len(g.pub) > 0 {
		c.expectReject("replay-length", "drop-element", g.proof, clonev(g.pub)[:len(g.pub)-1])
	}

	// ---- single-leaf edits (complete enumeration)
	for _, e := range ops.PlonkSingleEdits(g.proof, donors, vk) {
		if !e.Changed {
			r.Eval(label+"|single-edit-trivial|"+e.Name, false)
			r.Count("single-edit.trivial-unchanged", 1)
			continue
		}
		c.expectReject("single-edit", e.Name, e.Obj.(plonk.Proof), g.pub)
	}
	// ---- every G1 element moved out of the prime-order subgroup by a small-order point
	if te, ok := ops.Ext["PlonkTorsionEdits"].(func(any) []cvapi.Edit); ok {
		for _, e := range te(g.proof) {
			if e.Changed {
				c.expectReject("torsion-edit", e.Name, e.Obj.(plonk.Proof), g.pub)
			}
		}
	}
	// ---- list edits
	for _, e := range ops.PlonkListEdits(g.proof, donors) {
		if !e.Changed {
			r.Count("list-edit.trivial-unchanged", 1)
			continue
		}
		c.expectReject("list-edit", e.Name, e.Obj.(plonk.Proof), g.pub)
	}

	// ---- option sets
	optionSets(c, pk, g)

	// ---- transcript binding: what the verifier feeds to its challenge hash
	transcriptBinding(c, pk, g)

	// ---- dishonest prover
	dishonest(c, pk, g.pub, g.sec, rng)

	// ---- byte flips
	var enc, raw bytes.Buffer
	g.proof.WriteTo(&enc)
	g.proof.WriteRawTo(&raw)
	pw, _ := g.full.Public()
	for _, src := range []struct {
		name string
		b    []byte
	}{{"compressed", enc.Bytes()}, {"raw", raw.Bytes()}} {
		nflip := r.Pick(30, 150)
		for f := 0; f < nflip; f++ {
			b := append([]byte{}, src.b...)
			bit := rng.IntN(len(b) * 8)
			b[bit/8] ^= 1 << (bit % 8)
			name := fmt.Sprintf("%s-bit%d", src.name, bit)
			if !cvapi.LensOK(ops.PlonkDeclaredLens(b)) {
				r.Count("byte-flip.excluded(declared-length>cap)", 1)
				continue
			}
			r.Eval(label+"|byte-flip|"+name, true)
			q := plonk.NewProof(ops.ID)
			var derr error
			if p, st := vcore.Catch(func() { _, derr = q.ReadFrom(bytes.NewReader(b)) }); p != nil {
				r.Violation("decode-panic/byte-flip", fmt.Sprintf("Proof.ReadFrom panicked: %v", p), map[string]any{"curve": ops.Name, "bytes_hex": fmt.Sprintf("%x", b), "stack": st})
				continue
			}
			if derr != nil {
				r.Count("byte-flip.decode-error", 1)
				continue
			}
			if ops.PlonkProofEqual(q, g.proof) {
				r.Count("byte-flip.decodes-to-same-proof", 1)
				continue
			}
			err, pan := verify(q, vk, pw)
			if pan != "" {
				r.Violation("verify-panic/byte-flip", pan, map[string]any{"curve": ops.Name, "bytes_hex": fmt.Sprintf("%x", b)})
			} else if err == nil {
				r.Count("verify.ACCEPTED-must-reject", 1)
				r.Violation("accepted/byte-flip", "Verify accepted a bit-flipped proof that decodes to a different object: "+name,
					map[string]any{"curve": ops.Name, "circuit": spec.String(), "bytes_hex": fmt.Sprintf("%x", b), "public": vecStr(g.pub)})
			} else {
				r.Count("rejected.byte-flip", 1)
			}
		}
	}
}

func clonev(v []*big.Int) []*big.Int {
	o := make([]*big.Int, len(v))
	for i := range v {
		o[i] = new(big.Int).Set(v[i])
	}
	return o
}

type hset struct {
	name            string
	chal, fold, h2f func() hash.Hash
}

func optionSets(c *caseCtx, pk plonk.ProvingKey, g gen) {
	r := c.r
	sets := []hset{
		{"sha256/sha256/default", sha256.New, sha256.New, nil},
		{"keccak/default/default", sha3.NewLegacyKeccak256, nil, nil},
		{"default/keccak/default", nil, sha3.NewLegacyKeccak256, nil},
		{"default/default/sha3-256", nil, nil, sha3.New256},
		{"keccak/sha3-512/keccak", sha3.NewLegacyKeccak256, sha3.New512, sha3.NewLegacyKeccak256},
	}
	popts := func(s hset) []backend.ProverOption {
		var o []backend.ProverOption
		if s.chal != nil {
			o = append(o, backend.WithProverChallengeHashFunction(s.chal()))
		}
		if s.fold != nil {
			o = append(o, backend.WithProverKZGFoldingHashFunction(s.fold()))
		}
		if s.h2f != nil {
			o = append(o, backend.WithProverHashToFieldFunction(s.h2f()))
		}
		return o
	}
	vopts := func(s hset) []backend.VerifierOption {
		var o []backend.VerifierOption
		if s.chal != nil {
			o = append(o, backend.WithVerifierChallengeHashFunction(s.chal()))
		}
		if s.fold != nil {
			o = append(o, backend.WithVerifierKZGFoldingHashFunction(s.fold()))
		}
		if s.h2f != nil {
			o = append(o, backend.WithVerifierHashToFieldFunction(s.h2f()))
		}
		return o
	}
	pw, _ := g.full.Public()
	hasCommit := c.ops.PlonkNbQcp(c.vk) > 0
	for _, s := range sets {
		proof, err := plonk.Prove(c.ccs, pk, g.full, popts(s)...)
		if err != nil {
			r.Inconclusive("prove-with-options:" + err.Error())
			continue
		}
		// consistent on both sides: must accept
		if err, pan := verify(proof, c.vk, pw, vopts(s)...); err != nil || pan != "" {
			r.Count("options-consistent.REJECTED", 1)
			r.Inconclusive("consistent-options-rejected(C03's business):" + s.name)
		} else {
			r.Count("options-consistent.accepted", 1)
		}
		// set on the prover side only: verifier with defaults must reject,
		// unless the option is not used by this circuit (hash-to-field without commitments)
		effective := s.chal != nil || s.fold != nil || (s.h2f != nil && hasCommit)
		if s.name == "sha256/sha256/default" {
			effective = false // these are the defaults
		}
		if effective {
			c.expectReject("options-mismatch", "prover:"+s.name+"|verifier:default", proof, g.pub, backend.WithVerifierChallengeHashFunction(sha256.New()))
			c.expectReject("options-mismatch", "prover:default|verifier:"+s.name, g.proof, g.pub, vopts(s)...)
		} else {
			r.Eval(c.label+"|options-ineffective|"+s.name, false)
			r.Count("options-mismatch.ineffective-skipped", 1)
		}
	}
}

// dishonest lets the real PLONK prover finish on L,R,O columns that violate
// exactly one gate, only a copy constraint, or a public row.
func dishonest(c *caseCtx, pk plonk.ProvingKey, pub, sec []*big.Int, rng *rand.Rand) {
	r := c.r
	full, _ := circuits.MakeWitness(c.field, pub, sec)
	sys := c.ccs.(ceval.SparseSys[constraint.U64])
	gates := sys.GetSparseR1Cs()
	nbPub := c.ccs.GetNbPublicVariables()
	coeffs := ceval.Coeffs[constraint.U64](sys)
	n := 1
	for n < len(gates)+nbPub {
		n <<= 1
	}
	type plan struct {
		kind string
		col  int // 0 L, 1 R, 2 O
		row  int
		wire int // when >= 0: change every position of this wire (consistent copy, gate violated)
	}
	var plans []plan
	// (i) one gate violated, copies consistent: bump a wire everywhere
	nbWires := nbPub + c.ccs.GetNbSecretVariables() + c.ccs.GetNbInternalVariables()
	for k := 0; k < 3 && nbWires > 1; k++ {
		plans = append(plans, plan{kind: "wire-everywhere", wire: 1 + rng.IntN(nbWires-1)})
	}
	// (ii) only a copy constraint: a slot whose selectors are zero in its row
	var unused []plan
	for j, g := range gates {
		if g.Commitment != constraint.NOT {
			continue
		}
		if coeffs[g.QR].Sign() == 0 && coeffs[g.QM].Sign() == 0 {
			unused = append(unused, plan{kind: "unused-R-slot", col: 1, row: nbPub + j, wire: -1})
		}
		if coeffs[g.QO].Sign() == 0 {
			unused = append(unused, plan{kind: "unused-O-slot", col: 2, row: nbPub + j, wire: -1})
		}
	}
	rng.Shuffle(len(unused), func(i, j int) { unused[i], unused[j] = unused[j], unused[i] })
	if len(unused) > 3 {
		unused = unused[:3]
	}
	plans = append(plans, unused...)
	for i := 0; i < nbPub && i < 2; i++ {
		plans = append(plans, plan{kind: "placeholder-R-slot", col: 1, row: i, wire: -1})
		plans = append(plans, plan{kind: "placeholder-O-slot", col: 2, row: i, wire: -1})
	}
	if len(gates)+nbPub < n {
		plans = append(plans, plan{kind: "padding-row-L", col: 0, row: n - 1, wire: -1})
		plans = append(plans, plan{kind: "padding-row-O", col: 2, row: len(gates) + nbPub, wire: -1})
	}
	// single position of a used slot: gate and copy violated
	if len(gates) > 0 {
		j := rng.IntN(len(gates))
		plans = append(plans, plan{kind: "single-position-L", col: 0, row: nbPub + j, wire: -1})
	}
	// (iii) public row only
	if nbPub > 0 {
		plans = append(plans, plan{kind: "public-row-L", col: 0, row: rng.IntN(nbPub), wire: -1})
	}

	pubAll := make([]*big.Int, 0, nbPub)
	pubAll = append(pubAll, pub...)

	for _, pl := range plans {
		name := fmt.Sprintf("%s(col=%d,row=%d,wire=%d)", pl.kind, pl.col, pl.row, pl.wire)
		var cr *ceval.ColumnsResult
		var hookErr error
		fired := false
		hooks.OnSystem(c.ccs, func(ev *hooks.Event) {
			fired = true
			cols := []hooks.Vec{ev.L, ev.R, ev.O}
			bump := func(col, row int) {
				v := cols[col].Get(row)
				v.Add(v, big.NewInt(1)).Mod(v, c.field)
				cols[col].Set(row, v)
			}
			if pl.wire >= 0 {
				if pl.wire < nbPub {
					bump(0, pl.wire)
				}
				for j, g := range gates {
					if int(g.XA) == pl.wire {
						bump(0, nbPub+j)
					}
					if int(g.XB) == pl.wire {
						bump(1, nbPub+j)
					}
					if int(g.XC) == pl.wire {
						bump(2, nbPub+j)
					}
				}
			} else {
				bump(pl.col, pl.row)
			}
			get := func(v hooks.Vec) []*big.Int {
				o := make([]*big.Int, v.Len())
				for i := range o {
					o[i] = v.Get(i)
				}
				return o
			}
			cr, hookErr = ceval.CheckColumns[constraint.U64](sys, get(ev.L), get(ev.R), get(ev.O), pubAll)
		})
		var proof plonk.Proof
		var err error
		pan, _ := vcore.Catch(func() { proof, err = plonk.Prove(c.ccs, pk, full) })
		hooks.OffSystem(c.ccs)
		if !fired {
			r.Inconclusive("postsolve-hook-not-reached")
			continue
		}
		r.Count("dishonest-prover.hook-events", 1)
		if hookErr != nil {
			r.Inconclusive("ceval:" + hookErr.Error())
			continue
		}
		if pan != nil {
			r.Count("dishonest-prover.prover-panic", 1)
			r.Inconclusive("prover-panicked-on-edited-columns")
			continue
		}
		if err != nil {
			r.Count("dishonest-prover.prover-error", 1)
			continue
		}
		if cr.Clean() {
			r.Eval(c.label+"|dishonest-trivial|"+name, false)
			r.Count("dishonest-prover.edit-violates-nothing(skipped)", 1)
			continue
		}
		what := []string{}
		if len(cr.BadGates) > 0 {
			what = append(what, "gate")
		}
		if len(cr.BadCopies) > 0 {
			what = append(what, "copy")
		}
		if len(cr.BadPublic) > 0 {
			what = append(what, "public")
		}
		r.Count("dishonest-prover.violates="+strings.Join(what, "+"), 1)
		c.expectReject("dishonest-prover", name+"|violates="+strings.Join(what, "+"), proof, pub)
	}
}

// transcriptBinding observes the verifier's transcript through a recording challenge hash:
// the key's commitments, every public input and the proof's commitments must all be hashed
// (a datum that is not bound can be changed without moving the challenges).
func transcriptBinding(c *caseCtx, pk plonk.ProvingKey, g gen) {
	r := c.r
	proof, err := plonk.Prove(c.ccs, pk, g.full, backend.WithProverChallengeHashFunction(sha256.New()))
	if err != nil {
		r.Inconclusive("prove-for-transcript")
		return
	}
	rec := adversary.NewRecordingHash(sha256.New())
	pw, _ := g.full.Public()
	if err, pan := verify(proof, c.vk, pw, backend.WithVerifierChallengeHashFunction(rec)); err != nil || pan != "" {
		r.Inconclusive("verify-with-recording-hash-rejected")
		return
	}
	r.Count("transcript.bytes-hashed-by-verifier", len(rec.Stream))
	for _, it := range c.ops.PlonkBoundItems(proof, c.vk, g.pub) {
		r.Eval(c.label+"|transcript|"+it.Name, true)
		if !bytes.Contains(rec.Stream, it.Bytes) {
			r.Count("transcript.ITEM-NOT-BOUND", 1)
			r.Violation("not-bound-into-transcript/"+editKind(it.Name), it.Name+" is never written to the verifier's challenge hash: it can be changed without moving any challenge",
				map[string]any{"curve": c.ops.Name, "circuit": c.spec.String(), "item": it.Name, "item_hex": fmt.Sprintf("%x", it.Bytes), "public": vecStr(g.pub)})
		} else {
			r.Count("transcript.items-bound", 1)
		}
	}
}
