//go:build verif

package c12

// Stand-alone reproducer of violation class
// "accepted-incongruent/carry-range-not-enforced" (not part of TestC12):
//
//	go test -tags verif -run '^TestReproCarryUnchecked$' -v ./c12/
//
// Circuit: R := Mul(A, B) over Secp256k1Fp; AssertIsEqual(R, E), E public.
// A = p-12345, B = p-99999, E = (A*B mod p) + 1: a false statement.
// Lying mulHint for the call (A, B): r' = r+1, k' = (A*B - r') * p^-1 mod q_native
// (fits the 5x64-bit quotient), carries solved over the native field.
// Groth16 and PLONK proofs are produced by the real provers and verify.

import (
	"math/big"
	"testing"

	"github.com/consensys/gnark-crypto/ecc"
	"github.com/consensys/gnark/backend"
	"github.com/consensys/gnark/backend/groth16"
	"github.com/consensys/gnark/backend/plonk"
	"github.com/consensys/gnark/constraint/solver"
	"github.com/consensys/gnark/frontend"
	"github.com/consensys/gnark/frontend/cs/r1cs"
	"github.com/consensys/gnark/frontend/cs/scs"
	"github.com/consensys/gnark/std/math/emulated"
	"github.com/consensys/gnark/test/unsafekzg"
)

type reproCircuit struct {
	A, B emulated.Element[emulated.Secp256k1Fp]
	E    emulated.Element[emulated.Secp256k1Fp] `gnark:",public"`
}

func (c *reproCircuit) Define(api frontend.API) error {
	f, err := emulated.NewField[emulated.Secp256k1Fp](api)
	if err != nil {
		return err
	}
	f.AssertIsEqual(f.Mul(&c.A, &c.B), &c.E)
	return nil
}

func TestReproCarryUnchecked(t *testing.T) {
	q := ecc.BN254.ScalarField()
	p := emulated.Secp256k1Fp{}.Modulus()
	a := new(big.Int).Sub(p, big.NewInt(12345))
	b := new(big.Int).Sub(p, big.NewInt(99999))
	r := new(big.Int).Mul(a, b)
	r.Mod(r, p)
	wrong := new(big.Int).Add(r, big.NewInt(1))
	val := emulated.ValueOf[emulated.Secp256k1Fp]
	w, err := frontend.NewWitness(&reproCircuit{A: val(a), B: val(b), E: val(wrong)}, q)
	if err != nil {
		t.Fatal(err)
	}
	pw, _ := w.Public()
	st := &lieStats{}
	lie := lyingMulHint(hMul, false, []*mulLie{{name: "native-wrap", match: matchAB(a, b),
		build: lieNativeWrap(func(*mulCall) *big.Int { return wrong }, false, nil)}}, st)
	opt := backend.WithSolverOptions(solver.OverrideHint(solver.GetHintID(hMul), lie))

	ccs, err := frontend.Compile(q, r1cs.NewBuilder, &reproCircuit{})
	if err != nil {
		t.Fatal(err)
	}
	if _, err := ccs.Solve(w, commitOverride()); err == nil {
		t.Fatal("honest hints accepted the false statement")
	} else {
		t.Logf("honest hints, E = r+1: rejected as expected (%v)", err)
	}
	pk, vk, _ := groth16.Setup(ccs)
	proof, err := groth16.Prove(ccs, pk, w, opt)
	if err != nil {
		t.Logf("groth16: prover rejected the lie: %v (defect not present)", err)
	} else {
		t.Logf("groth16: proof of A*B == r+1 produced; Verify says: %v", groth16.Verify(proof, vk, pw))
	}

	ccs2, err := frontend.Compile(q, scs.NewBuilder, &reproCircuit{})
	if err != nil {
		t.Fatal(err)
	}
	srs, lag, _ := unsafekzg.NewSRS(ccs2)
	ppk, pvk, _ := plonk.Setup(ccs2, srs, lag)
	pproof, err := plonk.Prove(ccs2, ppk, w, opt)
	if err != nil {
		t.Logf("plonk: prover rejected the lie: %v (defect not present)", err)
	} else {
		t.Logf("plonk: proof of A*B == r+1 produced; Verify says: %v", plonk.Verify(pproof, pvk, pw))
	}
	t.Logf("mulHint calls intercepted %d, lies applied %d", st.intercepted.Load(), st.applied.Load())
}
