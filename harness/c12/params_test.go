//go:build verif

package c12

import (
	"math/big"

	"github.com/consensys/gnark/std/math/emulated"
	"github.com/consensys/gnark/std/math/emulated/emparams"
)

// ---- custom FieldParams made for edges (DESIGN §3 C12) ----

func bi(s string) *big.Int {
	v, ok := new(big.Int).SetString(s, 0)
	if !ok {
		panic("bad integer " + s)
	}
	return v
}

// 2 limbs x 8 bits, 13-bit prime modulus just above 2^12 (values q..2^13-1 are
// representable without overflow: "q, k*q+r").
type pTiny13 struct{}

func (pTiny13) NbLimbs() uint     { return 2 }
func (pTiny13) BitsPerLimb() uint { return 8 }
func (pTiny13) IsPrime() bool     { return true }
func (pTiny13) Modulus() *big.Int { return big.NewInt(4099) }

// 2^13-1 = 8191 (Mersenne prime): modulus 2^k-1, all-ones limbs == modulus.
type pMers13 struct{}

func (pMers13) NbLimbs() uint     { return 2 }
func (pMers13) BitsPerLimb() uint { return 8 }
func (pMers13) IsPrime() bool     { return true }
func (pMers13) Modulus() *big.Int { return big.NewInt(8191) }

// 2^16+1 = 65537 (Fermat prime): modulus 2^k+1, top limb is one bit wide, 6-bit limbs.
type pFermat17 struct{}

func (pFermat17) NbLimbs() uint     { return 3 }
func (pFermat17) BitsPerLimb() uint { return 6 }
func (pFermat17) IsPrime() bool     { return true }
func (pFermat17) Modulus() *big.Int { return big.NewInt(65537) }

// one limb, 2^31-1, limb width 32 (limb wider than the modulus)
type pOneLimb31 struct{}

func (pOneLimb31) NbLimbs() uint     { return 1 }
func (pOneLimb31) BitsPerLimb() uint { return 32 }
func (pOneLimb31) IsPrime() bool     { return true }
func (pOneLimb31) Modulus() *big.Int { return big.NewInt(2147483647) }

// 2^521-1 (Mersenne prime): wider than every native field used, 9 limbs x 64 bits with a 9-bit top limb
type pMers521 struct{}

func (pMers521) NbLimbs() uint     { return 9 }
func (pMers521) BitsPerLimb() uint { return 64 }
func (pMers521) IsPrime() bool     { return true }
func (pMers521) Modulus() *big.Int {
	return new(big.Int).Sub(new(big.Int).Lsh(big.NewInt(1), 521), big.NewInt(1))
}

// non-prime: 2^32 (power of two: ToBitsCanonical drops the top bit), 5 limbs x 8 bits, top limb 1 bit
type pPow2_32 struct{}

func (pPow2_32) NbLimbs() uint     { return 5 }
func (pPow2_32) BitsPerLimb() uint { return 8 }
func (pPow2_32) IsPrime() bool     { return false }
func (pPow2_32) Modulus() *big.Int { return new(big.Int).Lsh(big.NewInt(1), 32) }

// non-prime composite 10^30 with 3 limbs x 34 bits (odd limb width)
type pDec30 struct{}

func (pDec30) NbLimbs() uint     { return 3 }
func (pDec30) BitsPerLimb() uint { return 34 }
func (pDec30) IsPrime() bool     { return false }
func (pDec30) Modulus() *big.Int { return bi("1000000000000000000000000000000") }

// a 255-bit prime (ed25519 base field 2^255-19) on 3 limbs x 86 bits: limb width near (native-2)/3
type pEd25519w86 struct{}

func (pEd25519w86) NbLimbs() uint     { return 3 }
func (pEd25519w86) BitsPerLimb() uint { return 86 }
func (pEd25519w86) IsPrime() bool     { return true }
func (pEd25519w86) Modulus() *big.Int {
	return new(big.Int).Sub(new(big.Int).Lsh(big.NewInt(1), 255), big.NewInt(19))
}

// fieldCase is one parameter set with its generic instantiations bound.
type fieldCase struct {
	name     string
	mod      *big.Int
	w        uint
	nbLimbs  int
	prime    bool
	custom   bool
	heavy    bool // many limbs: fewer / shorter chains
	varMod   bool // suitable as carrier of the variable-modulus operations
	newChain func(p *program) chainRunner
	newAdv   func(kind string) advRunner
	newPad   func() padRunner
}

func (fc *fieldCase) modBits() int { return fc.mod.BitLen() }

// topWidth is the strict width of the most significant limb.
func (fc *fieldCase) topWidth() uint {
	return uint((fc.mod.BitLen()-1)%int(fc.w)) + 1
}

func mkCase[T emulated.FieldParams](name string, custom, heavy, varMod bool) *fieldCase {
	var t T
	return &fieldCase{
		name: name, mod: new(big.Int).Set(t.Modulus()), w: t.BitsPerLimb(), nbLimbs: int(t.NbLimbs()),
		prime: t.IsPrime(), custom: custom, heavy: heavy, varMod: varMod,
		newChain: func(p *program) chainRunner { return &chainRun[T]{prog: p} },
		newAdv:   func(kind string) advRunner { return &advRun[T]{kind: kind} },
		newPad:   func() padRunner { return padRun[T]{} },
	}
}

func allCases() []*fieldCase {
	return []*fieldCase{
		mkCase[emparams.Secp256k1Fp]("Secp256k1Fp", false, false, false),
		mkCase[emparams.BN254Fr]("BN254Fr", false, false, false),
		mkCase[emparams.Goldilocks]("Goldilocks", false, false, false),
		mkCase[emparams.BabyBear]("BabyBear", false, false, false),
		mkCase[pTiny13]("custom:4099/2x8", true, false, false),
		mkCase[pMers13]("custom:2^13-1/2x8", true, false, false),
		mkCase[pFermat17]("custom:2^16+1/3x6", true, false, false),
		mkCase[pPow2_32]("custom:2^32/5x8(nonprime)", true, false, false),
		mkCase[emparams.Mod1e256]("Mod1e256", false, false, true),
		mkCase[emparams.BN254Fp]("BN254Fp", false, false, false),
		mkCase[emparams.P256Fp]("P256Fp", false, false, false),
		mkCase[emparams.BLS12381Fp]("BLS12381Fp", false, true, false),
		mkCase[pOneLimb31]("custom:2^31-1/1x32", true, false, false),
		mkCase[pDec30]("custom:10^30/3x34(nonprime)", true, false, false),
		mkCase[pEd25519w86]("custom:2^255-19/3x86", true, false, false),
		mkCase[emparams.Secp256k1Fr]("Secp256k1Fr", false, false, false),
		mkCase[emparams.BLS12381Fr]("BLS12381Fr", false, false, false),
		mkCase[emparams.KoalaBear]("KoalaBear", false, false, false),
		mkCase[emparams.P384Fp]("P384Fp", false, true, false),
		mkCase[emparams.Mod1e512]("Mod1e512", false, true, true),
		mkCase[pMers521]("custom:2^521-1/9x64", true, true, false),
		mkCase[emparams.BW6761Fp]("BW6761Fp", false, true, false),
	}
}
