//go:build verif

package c12

import (
	"fmt"
	"math/big"
	"math/rand/v2"
	"strings"
)

// A program is a straight-line chain of emulated-field operations over three
// register files: elements (E), native scalars (N: bits / selectors / limbs)
// and bit vectors (B).  The generator runs the big.Int mirror while it emits
// ops, so it only emits operations inside the documented domain (Div by
// non-zero, Sqrt of a square, comparisons on operands with zero overflow, ...).

type op struct {
	K     string   // kind
	A     []int    // element register arguments
	N     []int    // native register arguments
	B     int      // bit-vector argument (-1: none)
	Bn    int      // number of leading bits of B used (-1: all)
	C     *big.Int // constant
	Terms [][]int  // Eval: positions in A
	Coefs []int
	Out   int // element register written (-1)
	NOut  int // native register written (-1)
	BOut  int // bit-vector register written (-1)
}

func newOp(k string) op { return op{K: k, B: -1, Bn: -1, Out: -1, NOut: -1, BOut: -1} }

func (o op) String() string {
	var sb strings.Builder
	if o.Out >= 0 {
		fmt.Fprintf(&sb, "E%d = ", o.Out)
	}
	if o.NOut >= 0 {
		fmt.Fprintf(&sb, "N%d = ", o.NOut)
	}
	if o.BOut >= 0 {
		fmt.Fprintf(&sb, "B%d = ", o.BOut)
	}
	sb.WriteString(o.K)
	sb.WriteString("(")
	first := true
	sep := func() {
		if !first {
			sb.WriteString(",")
		}
		first = false
	}
	for _, n := range o.N {
		sep()
		fmt.Fprintf(&sb, "N%d", n)
	}
	for _, a := range o.A {
		sep()
		fmt.Fprintf(&sb, "E%d", a)
	}
	if o.B >= 0 {
		sep()
		if o.Bn >= 0 {
			fmt.Fprintf(&sb, "B%d[:%d]", o.B, o.Bn)
		} else {
			fmt.Fprintf(&sb, "B%d", o.B)
		}
	}
	if o.C != nil {
		sep()
		sb.WriteString(o.C.String())
	}
	if o.Terms != nil {
		sep()
		fmt.Fprintf(&sb, "terms=%v coefs=%v", o.Terms, o.Coefs)
	}
	sb.WriteString(")")
	return sb.String()
}

// mirror of an element register.  A flag is set only when it holds in both
// execution engines (the test engine does not fold constants).
type emir struct {
	val   *big.Int // residue modulo the (fixed or variable) modulus: the oracle value
	exact *big.Int // exact integer of the representation where the documentation fixes it (witness, constant, strict reduction, FromBits); else nil
	of0   bool     // overflow documented to be zero (precondition of AssertIsLessOrEqual / AssertIsInRange)
	std   bool     // exactly NbLimbs limbs and zero overflow
	konst bool     // may be a compile-time constant
	zeroL bool     // the zero-limb constant zero (fast paths)
	wide  bool     // zero overflow but possibly wider than the modulus (FromBits results)
	noUse bool     // not used as operand by later ops (sqrt root ambiguity)
	input int      // >=0: witness input index
}

type bmir struct {
	exact *big.Int // integer the bits encode, when known to the mirror; else nil
	val   *big.Int // residue of that integer
	n     int      // number of bits guaranteed to exist (-1: unknown)
	canon bool
}

type program struct {
	fc       *fieldCase
	ops      []op
	nE       int
	nN       int
	nB       int
	inE      []int      // element registers that are witness inputs, in order
	inEVal   []*big.Int // raw integer assigned (may be >= modulus, < 2^modbits)
	inN      []int      // native registers that are inputs
	inNVal   []*big.Int
	mir      []*emir
	nmir     []*big.Int
	bmir     []*bmir
	hasExp   bool
	vmodReg  int      // element register holding the variable modulus (-1: fixed-modulus chain)
	vmod     *big.Int // its value
	negative string   // for negative variants: what was falsified
}

func (p *program) modOf() *big.Int {
	if p.vmod != nil {
		return p.vmod
	}
	return p.fc.mod
}

func (p *program) Text() string {
	var sb strings.Builder
	fmt.Fprintf(&sb, "field %s modulus %s limbs %dx%d\n", p.fc.name, p.fc.mod, p.fc.nbLimbs, p.fc.w)
	for i, r := range p.inE {
		fmt.Fprintf(&sb, "in E%d = %s\n", r, p.inEVal[i])
	}
	for i, r := range p.inN {
		fmt.Fprintf(&sb, "in N%d = %s\n", r, p.inNVal[i])
	}
	for i, o := range p.ops {
		fmt.Fprintf(&sb, "%d: %s\n", i, o.String())
	}
	if p.negative != "" {
		fmt.Fprintf(&sb, "negative: %s\n", p.negative)
	}
	return sb.String()
}

// clone copies what a negative variant changes (inputs, ops); mirrors are shared read-only.
func (p *program) clone() *program {
	q := *p
	q.ops = append([]op{}, p.ops...)
	q.inE = append([]int{}, p.inE...)
	q.inN = append([]int{}, p.inN...)
	q.inEVal = append([]*big.Int{}, p.inEVal...)
	q.inNVal = append([]*big.Int{}, p.inNVal...)
	q.mir = append([]*emir{}, p.mir...)
	q.nmir = append([]*big.Int{}, p.nmir...)
	q.bmir = append([]*bmir{}, p.bmir...)
	return &q
}

// ---------------- generator ----------------

type gen struct {
	p      *program
	rng    *rand.Rand
	mod    *big.Int // modulus values are reduced by (fixed, or the variable one)
	fc     *fieldCase
	cap2   *big.Int // 2^modbits of the type parameter
	selReg map[int]bool
	maxCbl uint // largest MulConst constant width allowed on every native field used
	expOK  bool
}

func (g *gen) red(v *big.Int) *big.Int { return new(big.Int).Mod(v, g.mod) }
func (g *gen) e(i int) *emir           { return g.p.mir[i] }

func (g *gen) newE(m *emir) int {
	m.input = -1
	g.p.mir = append(g.p.mir, m)
	g.p.nE++
	return g.p.nE - 1
}

func randBits(r *rand.Rand, nbits int) *big.Int {
	v := new(big.Int)
	for i := 0; i < (nbits+63)/64; i++ {
		v.Lsh(v, 64)
		v.Or(v, new(big.Int).SetUint64(r.Uint64()))
	}
	return v.Rsh(v, uint((64-nbits%64)%64))
}

func randBelow(r *rand.Rand, q *big.Int) *big.Int {
	v := randBits(r, q.BitLen()+64)
	return v.Mod(v, q)
}

// interesting residues
func (g *gen) pickValue() *big.Int {
	q := g.mod
	r := g.rng
	switch r.IntN(14) {
	case 0:
		return big.NewInt(0)
	case 1:
		return g.red(big.NewInt(1))
	case 2:
		return new(big.Int).Sub(q, big.NewInt(1))
	case 3:
		return g.red(new(big.Int).Sub(q, big.NewInt(2)))
	case 4:
		return g.red(big.NewInt(2))
	case 5:
		return new(big.Int).Rsh(q, 1)
	case 6: // 2^k or 2^k +- 1
		k := r.IntN(q.BitLen())
		v := new(big.Int).Lsh(big.NewInt(1), uint(k))
		v.Add(v, big.NewInt(int64(r.IntN(3)-1)))
		return g.red(v)
	case 7: // limb-boundary pattern: all-ones in some limbs
		v := new(big.Int)
		for i := 0; i < g.fc.nbLimbs; i++ {
			if r.IntN(2) == 0 {
				l := new(big.Int).Lsh(big.NewInt(1), g.fc.w)
				l.Sub(l, big.NewInt(1))
				l.Lsh(l, uint(i)*g.fc.w)
				v.Or(v, l)
			}
		}
		return g.red(v)
	default:
		return randBelow(r, q)
	}
}

// addInputE adds a witness element with residue v.  The raw integer is v, or
// v + k*q while that still fits the width the library enforces on a witness
// (2^modbits): every representation a width-constrained witness can have.
func (g *gen) addInputE(v *big.Int) int {
	raw := new(big.Int).Set(v)
	if g.p.vmod == nil && g.rng.IntN(3) == 0 {
		t := new(big.Int).Add(raw, g.mod)
		for t.Cmp(g.cap2) < 0 {
			raw.Set(t)
			if g.rng.IntN(2) == 0 {
				break
			}
			t.Add(t, g.mod)
		}
	}
	return g.addInputERaw(raw)
}

func (g *gen) addInputERaw(raw *big.Int) int {
	id := g.newE(&emir{val: g.red(raw), exact: new(big.Int).Set(raw), of0: true, std: true})
	g.p.mir[id].input = len(g.p.inE)
	g.p.inE = append(g.p.inE, id)
	g.p.inEVal = append(g.p.inEVal, new(big.Int).Set(raw))
	return id
}

func (g *gen) addInputN(v *big.Int) int {
	g.p.nmir = append(g.p.nmir, new(big.Int).Set(v))
	g.p.inN = append(g.p.inN, g.p.nN)
	g.p.inNVal = append(g.p.inNVal, new(big.Int).Set(v))
	g.p.nN++
	return g.p.nN - 1
}

func (g *gen) newN(v *big.Int) int {
	g.p.nmir = append(g.p.nmir, new(big.Int).Set(v))
	g.p.nN++
	return g.p.nN - 1
}

func (g *gen) newB(b *bmir) int {
	g.p.bmir = append(g.p.bmir, b)
	g.p.nB++
	return g.p.nB - 1
}

func (g *gen) emit(o op) { g.p.ops = append(g.p.ops, o) }

func (g *gen) pickWhere(pred func(*emir) bool) int {
	var c []int
	for i, m := range g.p.mir {
		if !m.noUse && pred(m) {
			c = append(c, i)
		}
	}
	if len(c) == 0 {
		return -1
	}
	if g.rng.IntN(2) == 0 && len(c) > 4 { // prefer late ones: deep chains
		return c[len(c)-1-g.rng.IntN(4)]
	}
	return c[g.rng.IntN(len(c))]
}

func (g *gen) anyE() int { return g.pickWhere(func(*emir) bool { return true }) }
func (g *gen) varE() int { return g.pickWhere(func(m *emir) bool { return !m.konst }) }

// a boolean native register: an input bit or an earlier IsZero output
func (g *gen) boolN() int {
	var c []int
	for i, v := range g.p.nmir {
		if !g.selReg[i] && (v.Sign() == 0 || v.Cmp(big.NewInt(1)) == 0) {
			c = append(c, i)
		}
	}
	if len(c) == 0 || g.rng.IntN(3) == 0 {
		return g.addInputN(big.NewInt(int64(g.rng.IntN(2))))
	}
	return c[g.rng.IntN(len(c))]
}

func (g *gen) selN(n int) (reg int, v int) {
	v = g.rng.IntN(n)
	reg = g.addInputN(big.NewInt(int64(v)))
	g.selReg[reg] = true
	return
}

// out allocates the result register of an element-valued op.
func (g *gen) out(o op, m *emir) int {
	o.Out = g.newE(m)
	g.emit(o)
	return o.Out
}

// zl marks the result of a constant-folded operation on zero-limb zeros: it is the zero-limb zero again.
func zl(m *emir, zero bool) *emir {
	if zero {
		m.zeroL, m.konst, m.of0, m.exact = true, true, true, new(big.Int)
	}
	return m
}

func (g *gen) opAdd(a, b int) int {
	ea, eb := g.e(a), g.e(b)
	v := g.red(new(big.Int).Add(ea.val, eb.val))
	o := newOp("Add")
	o.A = []int{a, b}
	return g.out(o, zl(&emir{val: v, konst: ea.konst && eb.konst}, ea.zeroL && eb.zeroL))
}

func (g *gen) opSub(a, b int) int {
	ea, eb := g.e(a), g.e(b)
	v := g.red(new(big.Int).Sub(ea.val, eb.val))
	o := newOp("Sub")
	o.A = []int{a, b}
	return g.out(o, zl(&emir{val: v, konst: ea.konst && eb.konst}, ea.zeroL && eb.zeroL))
}

func (g *gen) opNeg(a int) int {
	ea := g.e(a)
	o := newOp("Neg")
	o.A = []int{a}
	return g.out(o, zl(&emir{val: g.red(new(big.Int).Neg(ea.val)), konst: ea.konst}, ea.zeroL))
}

func (g *gen) opMul(kind string, a, b int) int {
	ea, eb := g.e(a), g.e(b)
	v := g.red(new(big.Int).Mul(ea.val, eb.val))
	o := newOp(kind)
	o.A = []int{a, b}
	z := ea.zeroL || eb.zeroL
	m := &emir{val: v, of0: true, std: !z, konst: z, zeroL: z}
	if z {
		m.exact = new(big.Int)
	}
	return g.out(o, m)
}

func (g *gen) opMulNR(a, b int) int {
	ea, eb := g.e(a), g.e(b)
	v := g.red(new(big.Int).Mul(ea.val, eb.val))
	o := newOp("MulNoReduce")
	o.A = []int{a, b}
	z := ea.zeroL || eb.zeroL
	m := &emir{val: v, konst: z, zeroL: z, of0: z}
	if z {
		m.exact = new(big.Int)
	}
	return g.out(o, m)
}

func (g *gen) opMulConst(a int, c *big.Int) int {
	ea := g.e(a)
	v := g.red(new(big.Int).Mul(ea.val, c))
	o := newOp("MulConst")
	o.A = []int{a}
	o.C = new(big.Int).Set(c)
	z := ea.zeroL || c.Sign() == 0
	m := &emir{val: v, konst: ea.konst || z, zeroL: z, of0: z}
	if z {
		m.exact = new(big.Int)
	}
	return g.out(o, m)
}

func (g *gen) opReduce(a int) int {
	ea := g.e(a)
	o := newOp("Reduce")
	o.A = []int{a}
	m := &emir{val: ea.val, of0: true, konst: ea.konst, zeroL: ea.zeroL, wide: ea.wide}
	if ea.of0 { // documented fast path: returned as is
		m.exact, m.std = ea.exact, ea.std
	}
	return g.out(o, m)
}

func (g *gen) opReduceStrict(a int) int {
	ea := g.e(a)
	o := newOp("ReduceStrict")
	o.A = []int{a}
	return g.out(o, &emir{val: ea.val, exact: new(big.Int).Set(ea.val), of0: true, std: true})
}

func (g *gen) opSum(args []int) int {
	v := new(big.Int)
	for _, a := range args {
		v.Add(v, g.e(a).val)
	}
	o := newOp("Sum")
	o.A = args
	return g.out(o, &emir{val: g.red(v)})
}

func (g *gen) sel(kind string, n []int, args []int, chosen int) int {
	c := g.e(args[chosen])
	m := &emir{val: c.val, exact: c.exact, of0: true, std: true, konst: true}
	for _, a := range args {
		ea := g.e(a)
		m.of0 = m.of0 && ea.of0
		m.std = m.std && ea.std
		m.konst = m.konst && ea.konst
		m.wide = m.wide || ea.wide
	}
	o := newOp(kind)
	o.N = n
	o.A = args
	return g.out(o, m)
}

func (g *gen) opConst(c *big.Int) int {
	o := newOp("Const")
	o.C = new(big.Int).Set(c)
	ex := new(big.Int).Set(c)
	if c.Cmp(g.fc.mod) != 0 { // newConstElement keeps a value equal to the modulus as is
		ex.Mod(ex, g.fc.mod)
	}
	return g.out(o, &emir{val: g.red(c), exact: ex, of0: true, konst: true, zeroL: ex.Sign() == 0})
}

func (g *gen) opNamedConst(k string) int {
	o := newOp(k)
	switch k {
	case "Zero":
		return g.out(o, &emir{val: new(big.Int), exact: new(big.Int), of0: true, konst: true, zeroL: true})
	case "One":
		return g.out(o, &emir{val: g.red(big.NewInt(1)), exact: big.NewInt(1), of0: true, konst: true})
	default: // Modulus
		return g.out(o, &emir{val: g.red(g.fc.mod), exact: new(big.Int).Set(g.fc.mod), of0: true, konst: true, std: true})
	}
}

// NewElement([]frontend.Variable): limbs given as native inputs
func (g *gen) opFromLimbs(raw *big.Int) int {
	o := newOp("NewElementLimbs")
	mask := new(big.Int).Sub(new(big.Int).Lsh(big.NewInt(1), g.fc.w), big.NewInt(1))
	t := new(big.Int).Set(raw)
	for i := 0; i < g.fc.nbLimbs; i++ {
		o.N = append(o.N, g.addInputN(new(big.Int).And(t, mask)))
		g.selReg[o.N[i]] = true
		t.Rsh(t, g.fc.w)
	}
	return g.out(o, &emir{val: g.red(raw), exact: new(big.Int).Set(raw), of0: true, std: true})
}

func (g *gen) opDiv(a, b int) int {
	ea, eb := g.e(a), g.e(b)
	inv := new(big.Int).ModInverse(eb.val, g.mod)
	v := g.red(new(big.Int).Mul(ea.val, inv))
	o := newOp("Div")
	o.A = []int{a, b}
	m := &emir{val: v, of0: true, std: !ea.zeroL, konst: ea.zeroL, zeroL: ea.zeroL}
	return g.out(o, m)
}

func (g *gen) opInv(a int) int {
	o := newOp("Inverse")
	o.A = []int{a}
	return g.out(o, &emir{val: new(big.Int).ModInverse(g.e(a).val, g.mod), of0: true, std: true})
}

// Sqrt: either root is a correct answer, so the root itself is only checked by
// squaring (observer) and later ops use its square.
func (g *gen) opSqrt(a int) int {
	ea := g.e(a)
	root := new(big.Int).ModSqrt(ea.val, g.mod)
	o := newOp("Sqrt")
	o.A = []int{a}
	r := g.out(o, &emir{val: root, of0: true, std: !ea.zeroL, konst: ea.zeroL, zeroL: ea.zeroL, noUse: true})
	o2 := newOp("Mul")
	o2.A = []int{r, r}
	return g.out(o2, &emir{val: g.red(ea.val), of0: true, std: !ea.zeroL, konst: ea.zeroL, zeroL: ea.zeroL})
}

func (g *gen) opExp(base, ex int) int {
	eb, ee := g.e(base), g.e(ex)
	o := newOp("Exp")
	o.A = []int{base, ex}
	g.p.hasExp = true
	// NB: Exp's doc says "default number of limbs and zero overflow", but the result is a Select between a
	// product and the running value, so it inherits the base's overflow: no shape claim is made here.
	return g.out(o, &emir{val: new(big.Int).Exp(eb.val, ee.exact, g.mod), konst: eb.zeroL, zeroL: eb.zeroL})
}

func (g *gen) opEval(args []int, terms [][]int, coefs []int) int {
	v := new(big.Int)
	for i, t := range terms {
		tv := big.NewInt(int64(coefs[i]))
		for _, pos := range t {
			tv.Mul(tv, g.e(args[pos]).val)
		}
		v.Add(v, tv)
	}
	o := newOp("Eval")
	o.A = args
	o.Terms = terms
	o.Coefs = coefs
	return g.out(o, &emir{val: g.red(v), of0: true, std: true})
}

func (g *gen) canonBits() int {
	n := g.fc.mod.BitLen()
	if g.fc.mod.TrailingZeroBits() == uint(n-1) {
		n--
	}
	return n
}

func (g *gen) opToBits(a int, canonical bool) int {
	ea := g.e(a)
	o := newOp("ToBits")
	o.A = []int{a}
	b := &bmir{val: ea.val, n: -1}
	if canonical {
		o.K = "ToBitsCanonical"
		b.exact = new(big.Int).Set(ea.val)
		b.n = g.canonBits()
		b.canon = true
	} else {
		if ea.exact != nil {
			b.exact = new(big.Int).Set(ea.exact)
		}
		if ea.std {
			b.n = g.fc.nbLimbs * int(g.fc.w)
		}
	}
	o.BOut = g.newB(b)
	g.emit(o)
	return o.BOut
}

func (g *gen) opFromBits(b int, n int) int {
	bm := g.p.bmir[b]
	o := newOp("FromBits")
	o.B = b
	o.Bn = n
	m := &emir{of0: true, wide: true}
	if n < 0 {
		m.val = bm.val
		if bm.exact != nil {
			m.exact = new(big.Int).Set(bm.exact)
		}
	} else {
		mask := new(big.Int).Sub(new(big.Int).Lsh(big.NewInt(1), uint(n)), big.NewInt(1))
		m.exact = new(big.Int).And(bm.exact, mask)
		m.val = g.red(m.exact)
	}
	if m.exact != nil && m.exact.Cmp(g.cap2) < 0 && (n < 0 && bm.canon) {
		m.wide = false
	}
	return g.out(o, m)
}

func (g *gen) opIsZero(a int) int {
	o := newOp("IsZero")
	o.A = []int{a}
	v := big.NewInt(0)
	if g.e(a).val.Sign() == 0 {
		v.SetInt64(1)
	}
	o.NOut = g.newN(v)
	g.emit(o)
	return o.NOut
}

func (g *gen) assert(k string, a ...int) {
	o := newOp(k)
	o.A = a
	g.emit(o)
}

// sameValue returns a register congruent to a: an earlier one, or a fresh witness.
func (g *gen) sameValue(a int) int {
	ea := g.e(a)
	if g.rng.IntN(3) == 0 {
		if r := g.pickWhere(func(m *emir) bool { return m != ea && m.val.Cmp(ea.val) == 0 }); r >= 0 {
			return r
		}
	}
	return g.addInputE(ea.val)
}

// one random operation
func (g *gen) step() {
	r := g.rng
	prime := g.fc.prime
	switch k := r.IntN(100); {
	case k < 10:
		g.opAdd(g.anyE(), g.anyE())
	case k < 18:
		g.opSub(g.anyE(), g.anyE())
	case k < 21:
		g.opNeg(g.anyE())
	case k < 31:
		kind := "Mul"
		if r.IntN(3) == 0 {
			kind = "MulMod"
		}
		g.opMul(kind, g.anyE(), g.anyE())
	case k < 35:
		a, b := g.varE(), g.anyE()
		if r.IntN(2) == 0 {
			a, b = b, a
		}
		g.opMulNR(a, b)
	case k < 39:
		g.opMulConst(g.anyE(), g.smallConst())
	case k < 43:
		g.opReduce(g.anyE())
	case k < 47:
		if a := g.varE(); a >= 0 {
			g.opReduceStrict(a)
		}
	case k < 50:
		n := 2 + r.IntN(5)
		args := []int{g.varE()}
		for len(args) < n {
			args = append(args, g.anyE())
		}
		r.Shuffle(len(args), func(i, j int) { args[i], args[j] = args[j], args[i] })
		g.opSum(args)
	case k < 54:
		b := g.boolN()
		args := []int{g.varE(), g.anyE()}
		if r.IntN(2) == 0 {
			args[0], args[1] = args[1], args[0]
		}
		ch := 1
		if g.p.nmir[b].Sign() != 0 {
			ch = 0
		}
		g.sel("Select", []int{b}, args, ch)
	case k < 57:
		b0, b1 := g.boolN(), g.boolN()
		args := []int{g.varE(), g.anyE(), g.anyE(), g.anyE()}
		r.Shuffle(4, func(i, j int) { args[i], args[j] = args[j], args[i] })
		ch := int(g.p.nmir[b0].Int64() + 2*g.p.nmir[b1].Int64())
		g.sel("Lookup2", []int{b0, b1}, args, ch)
	case k < 60:
		n := 2 + r.IntN(4)
		s, v := g.selN(n)
		args := []int{g.varE()}
		for len(args) < n {
			args = append(args, g.anyE())
		}
		r.Shuffle(n, func(i, j int) { args[i], args[j] = args[j], args[i] })
		g.sel("Mux", []int{s}, args, v)
	case k < 63:
		switch r.IntN(6) {
		case 0:
			g.opNamedConst("Zero")
		case 1:
			g.opNamedConst("One")
		case 2:
			g.opNamedConst("Modulus")
		case 3:
			g.opConst(new(big.Int).Add(g.fc.mod, g.pickValue())) // > modulus: reduced by NewElement
		default:
			g.opConst(g.pickValue())
		}
	case k < 65:
		raw := g.pickValue()
		if t := new(big.Int).Add(raw, g.fc.mod); t.Cmp(g.cap2) < 0 && r.IntN(2) == 0 {
			raw = t
		}
		g.opFromLimbs(raw)
	case k < 69:
		if !prime {
			return
		}
		b := g.pickWhere(func(m *emir) bool { return m.val.Sign() != 0 })
		if b >= 0 {
			g.opDiv(g.anyE(), b)
		}
	case k < 72:
		if !prime {
			return
		}
		if a := g.pickWhere(func(m *emir) bool { return m.val.Sign() != 0 }); a >= 0 {
			g.opInv(a)
		}
	case k < 74:
		if !prime {
			return
		}
		if r.IntN(2) == 0 { // make a square first
			x := g.anyE()
			g.opSqrt(g.opMul("Mul", x, x))
			return
		}
		if a := g.pickWhere(func(m *emir) bool { return big.Jacobi(m.val, g.mod) >= 0 && g.mod.Bit(0) == 1 }); a >= 0 {
			g.opSqrt(a)
		}
	case k < 75:
		if !g.expOK || g.p.hasExp {
			return
		}
		ex := g.pickWhere(func(m *emir) bool {
			return m.exact != nil && m.exact.Cmp(g.mod) < 0 && m.of0 && !m.wide && !m.zeroL && m.exact.Sign() > 0
		})
		if ex >= 0 {
			g.opExp(g.anyE(), ex)
		}
	case k < 78:
		g.genEval()
	case k < 82:
		g.opToBits(g.anyE(), false)
	case k < 85:
		if a := g.varE(); a >= 0 {
			g.opToBits(a, true)
		}
	case k < 89:
		if g.p.nB == 0 {
			return
		}
		b := r.IntN(g.p.nB)
		bm := g.p.bmir[b]
		n := -1
		if bm.exact != nil && bm.n > 0 && r.IntN(2) == 0 {
			n = 1 + r.IntN(bm.n)
		}
		g.opFromBits(b, n)
	case k < 92:
		// not on zero-overflow elements possibly wider than the modulus (open finding, probe "iszero/frombits-multiple-of-modulus")
		if a := g.pickWhere(func(m *emir) bool { return !m.wide }); a >= 0 {
			g.opIsZero(a)
		}
	case k < 95:
		a := g.anyE()
		g.assert("AssertIsEqual", a, g.sameValue(a))
	case k < 97:
		a := g.anyE()
		if b := g.pickWhere(func(m *emir) bool { return m.val.Cmp(g.e(a).val) != 0 && !(m.konst && g.e(a).konst) }); b >= 0 {
			g.assert("AssertIsDifferent", a, b)
		}
	case k < 99:
		le := func(m *emir) bool { return m.of0 && m.exact != nil && !m.wide }
		a := g.pickWhere(le)
		if a < 0 {
			return
		}
		b := g.pickWhere(func(m *emir) bool { return le(m) && m.exact.Cmp(g.e(a).exact) >= 0 && !(m.konst && g.e(a).konst) })
		if b >= 0 {
			g.assert("AssertIsLessOrEqual", a, b)
		}
	default:
		if a := g.pickWhere(func(m *emir) bool {
			return m.of0 && m.exact != nil && !m.wide && m.exact.Cmp(g.mod) < 0 && !m.konst
		}); a >= 0 {
			g.assert("AssertIsInRange", a)
		}
	}
}

func (g *gen) smallConst() *big.Int {
	r := g.rng
	switch r.IntN(9) {
	case 0:
		return big.NewInt(0)
	case 1:
		return big.NewInt(1)
	case 2:
		return big.NewInt(2)
	case 8: // negative constant
		return big.NewInt(-int64(1 + r.IntN(1000)))
	case 3: // wide constant: drives the overflow counter in one step
		return randBits(r, 1+r.IntN(int(g.maxCbl)))
	default:
		return big.NewInt(int64(1 + r.IntN(1000)))
	}
}

// Eval over reduced operands (the documented NB: it does not check native
// overflow of a term, so the generator keeps deg*(w+1)+4 below the native width).
func (g *gen) genEval() {
	r := g.rng
	maxDeg := (250 - 6) / (int(g.fc.w) + 2)
	if maxDeg > 3 {
		maxDeg = 3
	}
	if maxDeg < 1 {
		return
	}
	nv := 1 + r.IntN(3)
	var args []int
	for len(args) < nv {
		a := g.pickWhere(func(m *emir) bool { return m.std || (m.konst && m.of0 && !m.zeroL) })
		if a < 0 {
			return
		}
		dup := false
		for _, x := range args {
			dup = dup || x == a
		}
		if dup {
			if len(args) > 0 {
				break
			}
			continue
		}
		args = append(args, a)
	}
	nt := 1 + r.IntN(3)
	var terms [][]int
	var coefs []int
	for i := 0; i < nt; i++ {
		d := 1 + r.IntN(maxDeg)
		if i > 0 && r.IntN(5) == 0 {
			d = 0 // constant term
		}
		t := make([]int, d)
		for j := range t {
			t[j] = r.IntN(len(args))
		}
		terms = append(terms, t)
		coefs = append(coefs, r.IntN(8))
	}
	// every argument must occur (Eval derives the variable list from the terms)
	used := map[int]bool{}
	for _, t := range terms {
		for _, p := range t {
			used[p] = true
		}
	}
	var keep []int
	remap := map[int]int{}
	for i := range args {
		if used[i] {
			remap[i] = len(keep)
			keep = append(keep, args[i])
		}
	}
	for _, t := range terms {
		for j := range t {
			t[j] = remap[t[j]]
		}
	}
	allK := true
	for _, a := range keep {
		allK = allK && g.e(a).konst
	}
	if allK {
		return
	}
	g.opEval(keep, terms, coefs)
}

// run: a data-dependent run of cheap operations on one accumulator, so that the
// overflow counter climbs to the automatic-reduction threshold.
func (g *gen) run(n int) {
	r := g.rng
	acc := g.varE()
	for i := 0; i < n; i++ {
		switch r.IntN(12) {
		case 0, 1, 2:
			acc = g.opAdd(acc, acc)
		case 3, 4:
			acc = g.opAdd(acc, g.anyE())
		case 5:
			acc = g.opSub(acc, g.anyE())
		case 6:
			acc = g.opSub(g.anyE(), acc)
		case 7:
			acc = g.opMulConst(acc, g.smallConst())
			if g.e(acc).zeroL {
				acc = g.opAdd(acc, g.varE())
			}
		case 8:
			acc = g.opSum([]int{acc, g.anyE(), acc})
		case 9:
			acc = g.opNeg(acc)
		case 10:
			acc = g.opMulNR(acc, g.pickWhere(func(m *emir) bool { return m.std }))
			if g.e(acc).zeroL {
				acc = g.opAdd(acc, g.varE())
			}
		case 11:
			b := g.boolN()
			ch := 1
			if g.p.nmir[b].Sign() != 0 {
				ch = 0
			}
			acc = g.sel("Select", []int{b}, []int{acc, g.anyE()}, ch)
		}
	}
	// consume the accumulator in an operation that needs the bookkeeping to be right
	switch r.IntN(5) {
	case 0:
		g.opMul("Mul", acc, g.anyE())
	case 1:
		g.opReduce(acc)
	case 2:
		if !g.e(acc).konst {
			g.opToBits(acc, true)
		}
	case 3:
		g.assert("AssertIsEqual", acc, g.sameValue(acc))
	case 4:
		g.opToBits(acc, false)
	}
}

type genOpt struct {
	nOps   int
	maxCbl uint
	expOK  bool
}

func genProgram(rng *rand.Rand, fc *fieldCase, opt genOpt) *program {
	p := &program{fc: fc, vmodReg: -1}
	g := &gen{p: p, rng: rng, mod: fc.mod, fc: fc, cap2: new(big.Int).Lsh(big.NewInt(1), uint(fc.mod.BitLen())),
		selReg: map[int]bool{}, maxCbl: opt.maxCbl, expOK: opt.expOK}
	for i := 0; i < 3+rng.IntN(3); i++ {
		g.addInputE(g.pickValue())
	}
	// one witness with all-ones limbs (maximal-limb pattern that passes the width check)
	if rng.IntN(2) == 0 {
		g.addInputERaw(new(big.Int).Sub(g.cap2, big.NewInt(1)))
	}
	g.addInputN(big.NewInt(int64(rng.IntN(2))))
	for len(p.ops) < opt.nOps {
		if rng.IntN(100) < 30 {
			g.run(3 + rng.IntN(24))
		} else {
			g.step()
		}
	}
	// expose late registers through equality assertions against witnesses
	for i := 0; i < 3; i++ {
		a := g.anyE()
		g.assert("AssertIsEqual", a, g.addInputE(g.e(a).val))
	}
	return p
}

// negativeVariant appends one assertion the oracle knows to be false; "" when none applies.
func negativeVariant(rng *rand.Rand, p *program, maxCbl uint) *program {
	q := p.clone()
	g := &gen{p: q, rng: rng, mod: p.modOf(), fc: p.fc, cap2: new(big.Int).Lsh(big.NewInt(1), uint(p.fc.mod.BitLen())), selReg: map[int]bool{}, maxCbl: maxCbl}
	if p.vmod != nil {
		a := g.pickWhere(func(m *emir) bool { return m.input != p.mir[p.vmodReg].input })
		d := big.NewInt(int64(1 + rng.IntN(5)))
		if new(big.Int).Mod(d, p.vmod).Sign() == 0 {
			return nil
		}
		wrong := new(big.Int).Add(g.e(a).val, d)
		b := g.addInputERaw(wrong.Mod(wrong, p.vmod))
		o := newOp("ModAssertIsEqual")
		o.A = []int{a, b, p.vmodReg}
		g.emit(o)
		q.negative = "ModAssertIsEqual against value+" + d.String()
		return q
	}
	for try := 0; try < 8; try++ {
		switch rng.IntN(5) {
		case 0, 1:
			a := g.anyE()
			var d *big.Int
			if rng.IntN(2) == 0 {
				d = big.NewInt(1)
			} else {
				d = randBelow(rng, g.mod)
			}
			if new(big.Int).Mod(d, g.mod).Sign() == 0 {
				continue
			}
			b := g.addInputE(g.red(new(big.Int).Add(g.e(a).val, d)))
			g.assert("AssertIsEqual", a, b)
			q.negative = fmt.Sprintf("AssertIsEqual(E%d, value+%s)", a, d)
			return q
		case 2:
			a := g.anyE()
			b := g.addInputE(g.e(a).val)
			if g.e(a).konst {
				continue
			}
			g.assert("AssertIsDifferent", a, b)
			q.negative = fmt.Sprintf("AssertIsDifferent(E%d, congruent witness %s)", a, q.inEVal[len(q.inEVal)-1])
			return q
		case 3:
			le := func(m *emir) bool { return m.of0 && m.exact != nil && !m.wide }
			a := g.pickWhere(func(m *emir) bool { return le(m) && m.exact.Sign() > 0 && !m.konst })
			if a < 0 {
				continue
			}
			var b int
			if rng.IntN(2) == 0 {
				b = g.addInputERaw(new(big.Int).Sub(g.e(a).exact, big.NewInt(1)))
			} else {
				b = g.pickWhere(func(m *emir) bool { return le(m) && m.exact.Cmp(g.e(a).exact) < 0 })
			}
			if b < 0 {
				continue
			}
			g.assert("AssertIsLessOrEqual", a, b)
			q.negative = fmt.Sprintf("AssertIsLessOrEqual(E%d=%s, E%d=%s)", a, g.e(a).exact, b, g.e(b).exact)
			return q
		case 4:
			// a witness in [q, 2^modbits): width-valid, not in range
			if g.mod.Cmp(new(big.Int).Sub(g.cap2, big.NewInt(1))) >= 0 {
				continue
			}
			raw := new(big.Int).Set(g.mod)
			if rng.IntN(2) == 0 {
				span := new(big.Int).Sub(g.cap2, g.mod)
				raw.Add(raw, randBelow(rng, span))
			}
			a := g.addInputERaw(raw)
			g.assert("AssertIsInRange", a)
			q.negative = fmt.Sprintf("AssertIsInRange(witness %s >= modulus)", raw)
			return q
		}
	}
	return nil
}

// ---------------- variable-modulus chains ----------------

func genModProgram(rng *rand.Rand, fc *fieldCase, nOps int, allowExp bool) *program {
	p := &program{fc: fc, vmodReg: -1}
	// variable modulus: small prime, power of two, 2^k-1, random (odd or even) of various sizes
	var m *big.Int
	tb := fc.mod.BitLen()
	switch rng.IntN(6) {
	case 0:
		m = big.NewInt(4294967311)
	case 1:
		m = new(big.Int).Lsh(big.NewInt(1), uint(1+rng.IntN(tb/2)))
	case 2:
		m = new(big.Int).Sub(new(big.Int).Lsh(big.NewInt(1), uint(2+rng.IntN(tb/2))), big.NewInt(1))
	case 3:
		m = big.NewInt(int64(2 + rng.IntN(1000)))
	default:
		m = randBits(rng, 2+rng.IntN(tb/2-2))
		m.SetBit(m, m.BitLen(), 1)
	}
	if m.Cmp(big.NewInt(2)) < 0 {
		m = big.NewInt(2)
	}
	p.vmod = m
	g := &gen{p: p, rng: rng, mod: m, fc: fc, cap2: new(big.Int).Lsh(big.NewInt(1), uint(tb)), selReg: map[int]bool{}}
	p.vmodReg = g.addInputERaw(m)
	vin := func() int {
		v := randBelow(rng, m)
		switch rng.IntN(6) {
		case 0:
			v = new(big.Int)
		case 1:
			v = new(big.Int).Sub(m, big.NewInt(1))
		case 2: // unreduced operand
			v = new(big.Int).Add(v, m)
		}
		return g.addInputERaw(v)
	}
	for i := 0; i < 3; i++ {
		vin()
	}
	data := func() int {
		return g.pickWhere(func(e *emir) bool { return e != g.e(p.vmodReg) })
	}
	adds := 0
	for len(p.ops) < nOps {
		switch k := rng.IntN(10); {
		case k < 4:
			a, b := data(), data()
			o := newOp("ModMul")
			o.A = []int{a, b, p.vmodReg}
			g.out(o, &emir{val: g.red(new(big.Int).Mul(g.e(a).val, g.e(b).val)), of0: true, std: true})
			adds = 0
		case k < 7:
			if adds > 6 {
				continue
			}
			adds++
			a, b := data(), data()
			o := newOp("ModAdd")
			o.A = []int{a, b, p.vmodReg}
			g.out(o, &emir{val: g.red(new(big.Int).Add(g.e(a).val, g.e(b).val))})
		case k < 9:
			a := g.pickWhere(func(e *emir) bool { return e != g.e(p.vmodReg) && (e.of0 || adds < 3) })
			b := g.addInputERaw(g.e(a).val)
			if rng.IntN(2) == 0 {
				if t := new(big.Int).Add(g.e(a).val, m); t.Cmp(g.cap2) < 0 {
					q := *g.e(b)
					_ = q
					p.inEVal[g.e(b).input] = t
					g.e(b).exact = t
				}
			}
			o := newOp("ModAssertIsEqual")
			o.A = []int{a, b, p.vmodReg}
			g.emit(o)
		default:
			if !allowExp || p.hasExp {
				continue
			}
			base := data()
			ex := g.addInputERaw(randBits(rng, 1+rng.IntN(24)))
			o := newOp("ModExp")
			o.A = []int{base, ex, p.vmodReg}
			p.hasExp = true
			g.out(o, &emir{val: new(big.Int).Exp(g.e(base).val, g.e(ex).exact, m), of0: true, std: true})
			adds = 0
		}
	}
	a := g.pickWhere(func(e *emir) bool { return e != g.e(p.vmodReg) && e.of0 })
	if a >= 0 {
		o := newOp("ModAssertIsEqual")
		o.A = []int{a, g.addInputERaw(g.e(a).val), p.vmodReg}
		g.emit(o)
	}
	return p
}

// genModAccumulate: a long run of consecutive ModAdd calls on operands close to the capacity
// of the parameter set, with the running sum on the left or on the right: the overflow of the
// sum grows by one bit per addition until ModAdd's own reduce-and-retry path has to reduce the
// accumulator (about nativeBits-66 additions), several times over the run.  The reduction must
// be modulo the variable modulus.
func genModAccumulate(rng *rand.Rand, fc *fieldCase, nAdds int) *program {
	p := &program{fc: fc, vmodReg: -1}
	tb := fc.mod.BitLen()
	m := big.NewInt(4294967311)
	if rng.IntN(2) == 0 {
		m = randBits(rng, 2+rng.IntN(tb/2-2))
		m.SetBit(m, m.BitLen(), 1)
	}
	p.vmod = m
	g := &gen{p: p, rng: rng, mod: m, fc: fc, cap2: new(big.Int).Lsh(big.NewInt(1), uint(tb)), selReg: map[int]bool{}}
	p.vmodReg = g.addInputERaw(m)
	big1 := new(big.Int).Add(new(big.Int).Lsh(big.NewInt(1), uint(tb-1)), randBits(rng, 40))
	big2 := new(big.Int).Sub(g.cap2, new(big.Int).Add(big.NewInt(2), randBits(rng, 20)))
	ys := []int{g.addInputERaw(big1), g.addInputERaw(big2), g.addInputERaw(randBelow(rng, m))}
	acc := g.addInputERaw(big.NewInt(int64(rng.IntN(1000))))
	mode := rng.IntN(3) // accumulator always right, always left, alternating
	for i := 0; i < nAdds; i++ {
		y := ys[rng.IntN(len(ys))]
		if rng.IntN(4) != 0 {
			y = ys[i%2]
		}
		o := newOp("ModAdd")
		if mode == 0 || (mode == 2 && i%2 == 0) {
			o.A = []int{y, acc, p.vmodReg}
		} else {
			o.A = []int{acc, y, p.vmodReg}
		}
		acc = g.out(o, &emir{val: g.red(new(big.Int).Add(g.e(acc).val, g.e(y).val))})
	}
	o := newOp("ModAssertIsEqual")
	o.A = []int{acc, g.addInputERaw(g.e(acc).val), p.vmodReg}
	g.emit(o)
	return p
}

// ---------------- boundary chains ----------------
//
// Short programs aimed at the reduction threshold of ONE native field: an
// all-ones witness is multiplied by 2^c-1 with c a few bits below
// maxOverflow = nativeBits-2-w, so that the limb values are as large as the
// tracked bound allows, then doubled / subtracted / multiplied across the
// threshold.  A threshold that is off by one or two bits makes the limbs wrap
// around the native field.
func genBoundaryProgram(rng *rand.Rand, fc *fieldCase, nativeBits int) *program {
	p := &program{fc: fc, vmodReg: -1}
	g := &gen{p: p, rng: rng, mod: fc.mod, fc: fc, cap2: new(big.Int).Lsh(big.NewInt(1), uint(fc.mod.BitLen())), selReg: map[int]bool{}}
	maxOf := nativeBits - 2 - int(fc.w)
	g.maxCbl = uint(maxOf)
	ones := new(big.Int).Sub(g.cap2, big.NewInt(1))
	x := g.addInputERaw(ones)
	y := g.addInputERaw(ones)
	z := g.addInputE(g.pickValue())
	g.addInputN(big.NewInt(int64(rng.IntN(2))))
	allOnes := func(c int) *big.Int { return new(big.Int).Sub(new(big.Int).Lsh(big.NewInt(1), uint(c)), big.NewInt(1)) }
	delta := rng.IntN(6)
	var acc int
	switch rng.IntN(3) {
	case 0: // additions across the threshold
		c := maxOf - delta
		if c < 1 {
			c = 1
		}
		acc = g.opMulConst(x, allOnes(c))
	case 1: // a product whose coefficients sit at the threshold
		nres := 2*fc.nbLimbs - 1
		lg := 0
		for v := nres; v > 0; v >>= 1 {
			lg++
		}
		c := maxOf - int(fc.w) - lg - delta + rng.IntN(3)
		if c < 1 {
			c = 1
		}
		acc = g.opMulNR(g.opMulConst(x, allOnes(c)), y)
	default: // subtraction padding at the threshold
		c := maxOf - 2 - delta + rng.IntN(3)
		if c < 1 {
			c = 1
		}
		acc = g.opSub(z, g.opMulConst(x, allOnes(c)))
	}
	for i := 0; i < 2+rng.IntN(8); i++ {
		switch rng.IntN(6) {
		case 0, 1, 2:
			acc = g.opAdd(acc, acc)
		case 3:
			acc = g.opSub(z, acc)
		case 4:
			acc = g.opSub(acc, y)
		case 5:
			acc = g.opMulConst(acc, big.NewInt(int64(1+rng.IntN(7))))
		}
	}
	switch rng.IntN(4) {
	case 0:
		g.opMul("Mul", acc, y)
	case 1:
		g.opToBits(acc, true)
	case 2:
		g.opReduce(acc)
	case 3:
		g.opToBits(acc, false)
	}
	g.assert("AssertIsEqual", acc, g.addInputE(g.e(acc).val))
	return p
}

// ---------------- subtraction extremes (fixed modulus) ----------------
//
// The fixed-modulus subtraction padding is a compile-time constant (no hint to
// lie to), so a padding that is too small for the subtrahend's overflow can
// only show on honest inputs whose limbs are as large as the tracked overflow
// allows: subtrahend = sum of k+1 witnesses (overflow k = 1..4) whose limb at
// one position is maximal, minuend with a zero limb there.
func genSubExtremeProgram(rng *rand.Rand, fc *fieldCase) *program {
	p := &program{fc: fc, vmodReg: -1}
	g := &gen{p: p, rng: rng, mod: fc.mod, fc: fc, cap2: new(big.Int).Lsh(big.NewInt(1), uint(fc.mod.BitLen())), selReg: map[int]bool{}, maxCbl: 8}
	k := 1 + rng.IntN(4)
	j := rng.IntN(fc.nbLimbs)
	limbMax := func(i int) *big.Int {
		wd := fc.w
		if i == fc.nbLimbs-1 {
			wd = fc.topWidth()
		}
		return new(big.Int).Sub(new(big.Int).Lsh(big.NewInt(1), wd), big.NewInt(1))
	}
	mk := func(atJ *big.Int) int {
		l := make([]*big.Int, fc.nbLimbs)
		for i := range l {
			switch {
			case i == j:
				l[i] = new(big.Int).Set(atJ)
			case rng.IntN(3) == 0:
				l[i] = limbMax(i)
			default:
				l[i] = randBelow(rng, new(big.Int).Add(limbMax(i), big.NewInt(1)))
			}
		}
		return g.addInputERaw(joinLimbs(l, fc.w))
	}
	g.addInputN(big.NewInt(int64(rng.IntN(2))))
	bsum := mk(limbMax(j))
	for i := 0; i < k; i++ {
		bsum = g.opAdd(bsum, mk(limbMax(j)))
	}
	a := mk(new(big.Int))
	d1 := g.opSub(a, bsum)
	g.assert("AssertIsEqual", bsum, g.addInputE(g.e(bsum).val)) // difference expected - bsum
	d2 := g.opSub(d1, bsum)
	g.opNeg(bsum)
	if fc.prime {
		if g.e(bsum).val.Sign() != 0 {
			g.opDiv(a, bsum)
		}
		if g.e(a).val.Sign() != 0 {
			g.opDiv(bsum, a)
		}
	}
	switch rng.IntN(3) {
	case 0:
		g.opToBits(d1, true)
	case 1:
		g.opMul("Mul", d2, a)
	case 2:
		g.opToBits(d2, false)
	}
	g.assert("AssertIsEqual", d1, g.addInputE(g.e(d1).val))
	g.assert("AssertIsEqual", d2, g.addInputE(g.e(d2).val))
	return p
}
