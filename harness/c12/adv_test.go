//go:build verif

package c12

import (
	"fmt"
	"math/big"
	"math/rand/v2"
	"sync/atomic"

	"github.com/consensys/gnark/backend/witness"
	"github.com/consensys/gnark/constraint"
	"github.com/consensys/gnark/constraint/solver"
	"github.com/consensys/gnark/frontend"
	"github.com/consensys/gnark/std/math/emulated"

	"github.com/consensys/gnark/verifharness/internal/vcore"
)

// ---------------- the circuits the adversary attacks ----------------

type advCircuit[T emulated.FieldParams] struct {
	A, B, C, M emulated.Element[T]
	E          emulated.Element[T] `gnark:",public"` // the claimed result is a public input
	Bits       []frontend.Variable
	Z          frontend.Variable
	kind       string
}

var advKinds = []string{"mul", "mul-of", "asserteq", "asserteq-nr", "div", "inv", "sqrt", "canon", "iszero", "eval", "modmul", "modeq"}

func (c *advCircuit[T]) Define(api frontend.API) error {
	f, err := emulated.NewField[T](api)
	if err != nil {
		return err
	}
	switch c.kind {
	case "mul":
		f.AssertIsEqual(f.Mul(&c.A, &c.B), &c.E)
	case "mul-of":
		f.AssertIsEqual(f.Mul(f.Add(&c.A, &c.C), &c.B), &c.E)
	case "asserteq":
		f.AssertIsEqual(&c.A, &c.E)
	case "asserteq-nr":
		f.AssertIsEqual(f.MulNoReduce(&c.A, &c.B), &c.E)
	case "div":
		f.AssertIsEqual(f.Div(&c.A, &c.B), &c.E)
	case "inv":
		f.AssertIsEqual(f.Inverse(&c.A), &c.E)
	case "sqrt":
		f.AssertIsEqual(f.Sqrt(&c.A), &c.E)
	case "canon":
		bts := f.ToBitsCanonical(f.Add(&c.A, &c.B))
		if len(bts) != len(c.Bits) {
			return fmt.Errorf("harness: canonical bit count %d, expected %d", len(bts), len(c.Bits))
		}
		for i := range bts {
			api.AssertIsEqual(bts[i], c.Bits[i])
		}
	case "iszero":
		api.AssertIsEqual(f.IsZero(f.Sub(&c.A, &c.B)), c.Z)
	case "eval":
		r := f.Eval([][]*emulated.Element[T]{{&c.A, &c.B}, {&c.C}}, []int{1, 2})
		f.AssertIsEqual(r, &c.E)
	case "modmul":
		f.ModAssertIsEqual(f.ModMul(&c.A, &c.B, &c.M), &c.E, &c.M)
	case "modeq":
		f.ModAssertIsEqual(&c.A, &c.E, &c.M)
	default:
		return fmt.Errorf("harness: unknown adversarial circuit %s", c.kind)
	}
	return nil
}

type advInput struct {
	A, B, C, E, M *big.Int
	ALimbs        []*big.Int // when set: raw limbs of A (width-violating witness)
	Bits          *big.Int
	Z             int
}

type advRunner interface {
	Compile(field *big.Int, builder string, nbits int) (constraint.ConstraintSystem, error)
	Witness(field *big.Int, in advInput, nbits int) (witness.Witness, error)
}

type advRun[T emulated.FieldParams] struct{ kind string }

func (ar *advRun[T]) Compile(field *big.Int, builder string, nbits int) (ccs constraint.ConstraintSystem, err error) {
	c := &advCircuit[T]{kind: ar.kind, Bits: make([]frontend.Variable, nbits)}
	if pan, stack := vcore.Catch(func() { ccs, err = frontend.Compile(field, builderOf(builder), c) }); pan != nil {
		return nil, fmt.Errorf("compile panic: %v\n%s", pan, stack)
	}
	return
}

func (ar *advRun[T]) Witness(field *big.Int, in advInput, nbits int) (witness.Witness, error) {
	z := func(v *big.Int) *big.Int {
		if v == nil {
			return new(big.Int)
		}
		return v
	}
	w := &advCircuit[T]{A: rawElement[T](z(in.A)), B: rawElement[T](z(in.B)), C: rawElement[T](z(in.C)), E: rawElement[T](z(in.E)), M: rawElement[T](z(in.M)),
		Bits: make([]frontend.Variable, nbits), Z: in.Z}
	if in.ALimbs != nil {
		w.A = rawElementLimbs[T](in.ALimbs)
	}
	for i := range w.Bits {
		w.Bits[i] = z(in.Bits).Bit(i)
	}
	return frontend.NewWitness(w, field)
}

// ---------------- scenarios ----------------

// family = the defence that is supposed to stop the lie (the violation signature).
const (
	famIdentity = "identity-not-enforced"        // random-point polynomial identity / hinted value check
	famCarry    = "carry-range-not-enforced"     // identity holds modulo the native field only
	famQuo      = "quotient-range-not-enforced"  // oversized quotient limb
	famCanon    = "noncanonical-accepted"        // comparison with the modulus of canonical outputs
	famWidth    = "witness-width-not-enforced"   // range check of witness limbs
	famHonest   = "false-claim-with-honest-hints"
)

type scenario struct {
	name     string
	family   string
	in       advInput
	opts     func(st *lieStats) []solver.Option
	mustFail bool   // the asserted statement is false
	benign   bool   // lie leaves the statement true: either outcome is acceptable
	why      string // the false claim, in words
	needLie  bool   // scenario is void unless a lie was applied
	fits     *atomic.Int64
}

type advCtx struct {
	fc    *fieldCase
	kind  string
	q     *big.Int // native modulus
	rng   *rand.Rand
	nbits int
}

func (x *advCtx) cap2() *big.Int { return new(big.Int).Lsh(big.NewInt(1), uint(x.fc.mod.BitLen())) }

func (x *advCtx) val() *big.Int {
	p := x.fc.mod
	switch x.rng.IntN(10) {
	case 0:
		return big.NewInt(0)
	case 1:
		return new(big.Int).Mod(big.NewInt(1), p)
	case 2:
		return new(big.Int).Sub(p, big.NewInt(1))
	case 3:
		v := new(big.Int).Sub(x.cap2(), big.NewInt(1)) // all-ones witness (>= p unless p = 2^k-1)
		return v
	case 4:
		v := new(big.Int).Add(randBelow(x.rng, p), p)
		if v.Cmp(x.cap2()) < 0 {
			return v
		}
		return randBelow(x.rng, p)
	default:
		return randBelow(x.rng, p)
	}
}

func (x *advCtx) nonzero() *big.Int {
	for {
		v := x.val()
		if new(big.Int).Mod(v, x.fc.mod).Sign() != 0 {
			return v
		}
	}
}

func modp(v, p *big.Int) *big.Int { return new(big.Int).Mod(v, p) }

func override(h solver.Hint, f solver.Hint) solver.Option {
	return solver.OverrideHint(solver.GetHintID(h), f)
}

// mulLieOpts builds the solver options for lies on mulHint (and polyMvHint when mv).
func mulLieOpts(mv bool, lies ...*mulLie) func(st *lieStats) []solver.Option {
	return func(st *lieStats) []solver.Option {
		if mv {
			return []solver.Option{override(hPolyMv, lyingMulHint(hPolyMv, true, lies, st)), override(hMul, lyingMulHint(hMul, false, nil, st))}
		}
		return []solver.Option{override(hMul, lyingMulHint(hMul, false, lies, st))}
	}
}

// matchAB selects the mulHint call whose operands recompose to (a, b).
func matchAB(a, b *big.Int) func(c *mulCall) bool {
	return func(c *mulCall) bool { return !c.mv && c.A().Cmp(a) == 0 && c.Bv().Cmp(b) == 0 }
}

// matchCheckZero selects "a * 1 = 0 + k p" calls other than a given reduction operand.
func matchOne(notA *big.Int) func(c *mulCall) bool {
	return func(c *mulCall) bool {
		return !c.mv && len(c.bl) == 1 && c.bl[0].Cmp(big.NewInt(1)) == 0 && (notA == nil || c.A().Cmp(notA) != 0)
	}
}

func always(*mulCall) bool { return true }

// scenarios for multiplication-like circuits where the attacked call computes
// `trueR = lhs mod p` and the circuit asserts it equal to E.
func (x *advCtx) mulScenarios(base advInput, trueR *big.Int, match func(*mulCall) bool, mv bool) []scenario {
	p := x.fc.mod
	var out []scenario
	in := func(e *big.Int) advInput { b := base; b.E = modp(e, p); return b }
	plus1 := new(big.Int).Add(trueR, big.NewInt(1))
	out = append(out, scenario{name: "honest/true-claim", family: "", in: in(trueR)})
	out = append(out, scenario{name: "honest/claim=r+1", family: famHonest, in: in(plus1), mustFail: true, why: "E = r+1, honest hints"})
	add := func(name, fam string, e *big.Int, must, benign bool, build func(c *mulCall, q *big.Int) ([]*big.Int, []*big.Int, []*big.Int, bool), fits *atomic.Int64) {
		out = append(out, scenario{name: name, family: fam, in: in(e), mustFail: must, benign: benign, needLie: true, fits: fits,
			why:  fmt.Sprintf("claimed result %s, true result %s (mod %s)", modp(e, p), modp(trueR, p), p),
			opts: mulLieOpts(mv, &mulLie{name: name, match: match, build: build})})
	}
	add("rem+1/quotient-kept/carry-honest", famIdentity, plus1, true, false, lieRemDelta(1, false), nil)
	add("rem+1/quotient-kept/carry-solved", famIdentity, plus1, true, false, lieRemDelta(1, true), nil)
	if trueR.Sign() > 0 {
		add("rem-1/quotient-kept/carry-solved", famIdentity, new(big.Int).Sub(trueR, big.NewInt(1)), true, false, lieRemDelta(-1, true), nil)
	}
	add("rem+p/quotient-1/integer-consistent", "", trueR, false, true, lieRemPlusP, nil)
	add("quotient+qnative/carry-solved", "", trueR, false, true, lieQuoShiftNative, nil)
	for _, sgn := range []int{1, -1} {
		e := new(big.Int).Add(trueR, new(big.Int).Mul(big.NewInt(int64(sgn)), x.q))
		if modp(new(big.Int).Sub(e, trueR), p).Sign() == 0 {
			continue
		}
		add(fmt.Sprintf("rem%+dqnative/quotient-kept/carry-solved", sgn), famCarry, e, true, false, lieRemShiftNative(sgn), nil)
	}
	targets := map[string]*big.Int{"r+1": plus1, "random": randBelow(x.rng, p)}
	if trueR.Sign() != 0 {
		targets["zero"] = new(big.Int)
	}
	for tn, t := range targets {
		t := modp(t, p)
		if t.Cmp(modp(trueR, p)) == 0 {
			continue
		}
		tf := func(*mulCall) *big.Int { return t }
		fits := new(atomic.Int64)
		add("native-wrap("+tn+")", famCarry, t, true, false, lieNativeWrap(tf, false, fits), fits)
		add("native-wrap-oversize-quotient("+tn+")", famQuo, t, true, false, lieNativeWrap(tf, true, nil), nil)
	}
	add("garbage-outputs", famIdentity, plus1, true, false, lieGarbage(x.rng.Uint64()), nil)
	return out
}

// checkZero-only circuits: the statement "lhs == E (mod p)" is false.
func (x *advCtx) zeroScenarios(base advInput, mv bool) []scenario {
	var out []scenario
	out = append(out, scenario{name: "honest/false-claim", family: famHonest, in: base, mustFail: true, why: "E differs from the left-hand side, honest hints"})
	zero := func(*mulCall) *big.Int { return new(big.Int) }
	add := func(name, fam string, build func(c *mulCall, q *big.Int) ([]*big.Int, []*big.Int, []*big.Int, bool), fits *atomic.Int64) {
		out = append(out, scenario{name: name, family: fam, in: base, mustFail: true, needLie: true, fits: fits, why: "E differs from the left-hand side",
			opts: mulLieOpts(mv, &mulLie{name: name, match: matchOne(nil), build: build})})
	}
	fits := new(atomic.Int64)
	add("checkzero/native-wrap", famCarry, lieNativeWrap(zero, false, fits), fits)
	add("checkzero/native-wrap-oversize-quotient", famQuo, lieNativeWrap(zero, true, nil), nil)
	add("checkzero/quotient-kept/carry-solved", famIdentity, func(c *mulCall, q *big.Int) ([]*big.Int, []*big.Int, []*big.Int, bool) {
		cc, _ := c.solvedCarries(c.k, c.r, q)
		return c.k, c.r, cc, true
	}, nil)
	add("checkzero/quotient+1/carry-solved", famIdentity, func(c *mulCall, q *big.Int) ([]*big.Int, []*big.Int, []*big.Int, bool) {
		kl := splitLimbs(new(big.Int).Add(c.K(), big.NewInt(1)), c.w, c.nbQ)
		if kl == nil {
			return nil, nil, nil, false
		}
		cc, _ := c.solvedCarries(kl, c.r, q)
		return kl, c.r, cc, true
	}, nil)
	return out
}

// lyingValueHint makes DivHint / InverseHint / SqrtHint return the limbs of v.
func lyingValueHint(v *big.Int, w uint, n int, st *lieStats) solver.Hint {
	return func(q *big.Int, in, out []*big.Int) error {
		st.intercepted.Add(1)
		l := splitLimbs(v, w, n)
		if l == nil || len(out) != n {
			return fmt.Errorf("harness: lying value does not fit")
		}
		for i := range out {
			out[i].Set(l[i])
		}
		st.applied.Add(1)
		return nil
	}
}

func (x *advCtx) scenarios() []scenario {
	fc, p, q := x.fc, x.fc.mod, x.q
	w, n := fc.w, fc.nbLimbs
	switch x.kind {
	case "mul":
		a, b := x.val(), x.val()
		base := advInput{A: a, B: b}
		out := x.mulScenarios(base, modp(new(big.Int).Mul(a, b), p), matchAB(a, b), false)
		// width-violating witnesses, true arithmetic claim
		for _, which := range []string{"low-limb=2^w", "top-limb=2^topwidth"} {
			l := splitLimbs(randBelow(x.rng, p), w, n)
			if which == "low-limb=2^w" {
				if n < 2 && fc.topWidth() == w {
					continue
				}
				l[0] = new(big.Int).Lsh(big.NewInt(1), w)
				if n == 1 { // single limb: same as top limb
					continue
				}
			} else {
				l[n-1] = new(big.Int).Lsh(big.NewInt(1), fc.topWidth())
			}
			av := joinLimbs(l, w)
			in := advInput{ALimbs: l, B: b, E: modp(new(big.Int).Mul(av, b), p)}
			out = append(out, scenario{name: "witness/" + which, family: famWidth, in: in, mustFail: true, why: "witness limb wider than the field parameters allow"})
		}
		return out
	case "mul-of":
		a, b, c := x.val(), x.val(), x.val()
		s := new(big.Int).Add(a, c)
		return x.mulScenarios(advInput{A: a, B: b, C: c}, modp(new(big.Int).Mul(s, b), p), func(mc *mulCall) bool { return !mc.mv && len(mc.bl) == n && mc.Bv().Cmp(b) == 0 && len(mc.al) == n && mc.A().Cmp(s) == 0 }, false)
	case "eval":
		a, b, c := x.val(), x.val(), x.val()
		r := new(big.Int).Mul(a, b)
		r.Add(r, new(big.Int).Lsh(c, 1))
		return x.mulScenarios(advInput{A: a, B: b, C: c}, modp(r, p), func(mc *mulCall) bool { return mc.mv }, true)
	case "asserteq":
		a := x.val()
		d := big.NewInt(1)
		if x.rng.IntN(2) == 0 {
			d = randBelow(x.rng, p)
		}
		e := modp(new(big.Int).Add(a, d), p)
		if e.Cmp(modp(a, p)) == 0 {
			e = modp(new(big.Int).Add(a, big.NewInt(1)), p)
		}
		if e.Cmp(modp(a, p)) == 0 {
			return nil
		}
		return x.zeroScenarios(advInput{A: a, E: e}, false)
	case "asserteq-nr":
		a, b := x.val(), x.val()
		r := modp(new(big.Int).Mul(a, b), p)
		e := modp(new(big.Int).Add(r, big.NewInt(int64(1+x.rng.IntN(3)))), p)
		if e.Cmp(r) == 0 {
			return nil
		}
		out := x.zeroScenarios(advInput{A: a, B: b, E: e}, false)
		out = append(out, scenario{name: "honest/true-claim", in: advInput{A: a, B: b, E: r}})
		return out
	case "div", "inv", "sqrt":
		if !fc.prime {
			return nil
		}
		var a, b, tr *big.Int
		var hint solver.Hint
		switch x.kind {
		case "div":
			a, b = x.val(), x.nonzero()
			tr = modp(new(big.Int).Mul(a, new(big.Int).ModInverse(modp(b, p), p)), p)
			hint = hDiv
		case "inv":
			a = x.nonzero()
			tr = new(big.Int).ModInverse(modp(a, p), p)
			hint = hInv
		case "sqrt":
			s := x.val()
			a = modp(new(big.Int).Mul(s, s), p)
			tr = new(big.Int).ModSqrt(a, p)
			if tr == nil {
				return nil
			}
			hint = hSqrt
		}
		base := advInput{A: a, B: b}
		var out []scenario
		with := func(e *big.Int) advInput { bb := base; bb.E = modp(e, p); return bb }
		out = append(out, scenario{name: "honest/true-claim", in: with(tr)})
		out = append(out, scenario{name: "honest/claim+1", family: famHonest, in: with(new(big.Int).Add(tr, big.NewInt(1))), mustFail: true, why: "E = result+1, honest hints"})
		wrongs := map[string]*big.Int{"value+1": modp(new(big.Int).Add(tr, big.NewInt(1)), p), "zero": new(big.Int), "random": randBelow(x.rng, p)}
		// the check the library makes after the hint: mul(v, other) == expect
		other, expect := b, a // div: v*b == a
		if x.kind == "inv" {
			other, expect = a, big.NewInt(1)
		}
		for wn, v := range wrongs {
			v := v
			if v.Cmp(tr) == 0 || (x.kind == "sqrt" && modp(new(big.Int).Mul(v, v), p).Cmp(modp(a, p)) == 0) {
				continue
			}
			why := fmt.Sprintf("%s hint returns %s, true result %s", x.kind, v, tr)
			out = append(out, scenario{name: "value-hint=" + wn + "/mul-honest", family: famIdentity, in: with(v), mustFail: true, needLie: true, why: why,
				opts: func(st *lieStats) []solver.Option { return []solver.Option{override(hint, lyingValueHint(v, w, n, st))} }})
			m := matchAB(v, other)
			if x.kind == "sqrt" {
				m = matchAB(v, v)
			}
			tgt := modp(expect, p)
			for _, over := range []bool{false, true} {
				over := over
				fam, nm := famCarry, "value-hint="+wn+"/mul-native-wrap"
				var fits *atomic.Int64
				if over {
					fam, nm = famQuo, nm+"-oversize-quotient"
				} else {
					fits = new(atomic.Int64)
				}
				out = append(out, scenario{name: nm, family: fam, in: with(v), mustFail: true, needLie: true, why: why, fits: fits,
					opts: func(st *lieStats) []solver.Option {
						return []solver.Option{override(hint, lyingValueHint(v, w, n, st)),
							override(hMul, lyingMulHint(hMul, false, []*mulLie{{name: nm, match: m, build: lieNativeWrap(func(*mulCall) *big.Int { return tgt }, over, fits)}}, st))}
					}})
			}
		}
		// benign lies: value + p (still congruent), the other square root
		if vp := new(big.Int).Add(tr, p); vp.Cmp(x.cap2()) < 0 {
			out = append(out, scenario{name: "value-hint=value+p", in: with(tr), benign: true, needLie: true,
				opts: func(st *lieStats) []solver.Option { return []solver.Option{override(hint, lyingValueHint(vp, w, n, st))} }})
		}
		if x.kind == "sqrt" && tr.Sign() != 0 {
			o := new(big.Int).Sub(p, tr)
			out = append(out, scenario{name: "value-hint=other-root(claim=other root)", in: with(o), benign: true, needLie: true,
				opts: func(st *lieStats) []solver.Option { return []solver.Option{override(hint, lyingValueHint(o, w, n, st))} }})
			out = append(out, scenario{name: "value-hint=other-root(claim=first root)", family: famIdentity, in: with(tr), mustFail: o.Cmp(tr) != 0, needLie: true, why: "circuit output is the other root, E claims the first",
				opts: func(st *lieStats) []solver.Option { return []solver.Option{override(hint, lyingValueHint(o, w, n, st))} }})
		}
		return out
	case "canon":
		a, b := x.val(), x.val()
		switch x.rng.IntN(4) {
		case 0: // sum == p exactly (residue 0)
			a = randBelow(x.rng, p)
			b = new(big.Int).Sub(p, a)
		case 1: // sum == p-1
			a = randBelow(x.rng, p)
			b = modp(new(big.Int).Sub(new(big.Int).Sub(p, big.NewInt(1)), a), p)
		}
		s := new(big.Int).Add(a, b)
		r := modp(s, p)
		base := advInput{A: a, B: b}
		with := func(bits *big.Int) advInput { bb := base; bb.Bits = bits; return bb }
		mask := new(big.Int).Sub(new(big.Int).Lsh(big.NewInt(1), uint(x.nbits)), big.NewInt(1))
		var out []scenario
		out = append(out, scenario{name: "honest/canonical-bits", in: with(r)})
		wrongBits := new(big.Int).Xor(r, big.NewInt(1))
		out = append(out, scenario{name: "honest/claim-bit0-flipped", family: famHonest, in: with(wrongBits), mustFail: true, why: "bit 0 flipped, honest hints"})
		m := func(c *mulCall) bool { return !c.mv && c.A().Cmp(s) == 0 && len(c.bl) == 1 }
		if rp := new(big.Int).Add(r, p); rp.Cmp(x.cap2()) < 0 && new(big.Int).And(rp, mask).Cmp(rp) == 0 {
			out = append(out, scenario{name: "reduce-hint=r+p/integer-consistent", family: famCanon, in: with(rp), mustFail: true, needLie: true,
				why:  fmt.Sprintf("bits of %s = r+p claimed as canonical bits of residue %s", rp, r),
				opts: mulLieOpts(false, &mulLie{name: "r+p", match: m, build: lieRemPlusP})})
		}
		t := modp(new(big.Int).Add(r, big.NewInt(1)), p)
		for _, over := range []bool{false, true} {
			fam, nm := famCarry, "reduce-hint=native-wrap(r+1)"
			var fits *atomic.Int64
			if over {
				fam, nm = famQuo, nm+"-oversize-quotient"
			} else {
				fits = new(atomic.Int64)
			}
			out = append(out, scenario{name: nm, family: fam, in: with(t), mustFail: true, needLie: true, fits: fits, why: fmt.Sprintf("bits of %s claimed, residue is %s", t, r),
				opts: mulLieOpts(false, &mulLie{name: nm, match: m, build: lieNativeWrap(func(*mulCall) *big.Int { return t }, over, fits)})})
		}
		return out
	case "iszero":
		a, b := x.val(), x.val()
		equal := x.rng.IntN(2) == 0
		if equal {
			b = new(big.Int).Set(a)
			if t := new(big.Int).Add(modp(a, p), p); x.rng.IntN(2) == 0 && t.Cmp(x.cap2()) < 0 {
				a, b = modp(a, p), t
			}
		}
		isz := 0
		if modp(new(big.Int).Sub(a, b), p).Sign() == 0 {
			isz = 1
		}
		base := advInput{A: a, B: b}
		with := func(z int) advInput { bb := base; bb.Z = z; return bb }
		var out []scenario
		out = append(out, scenario{name: "honest/true-claim", in: with(isz)})
		out = append(out, scenario{name: "honest/false-claim", family: famHonest, in: with(1 - isz), mustFail: true, why: "IsZero output negated, honest hints"})
		m := func(c *mulCall) bool { return !c.mv && len(c.bl) == 1 }
		var tgts map[string]*big.Int
		if isz == 0 {
			tgts = map[string]*big.Int{"0": new(big.Int)}
			if p.Cmp(x.cap2()) < 0 {
				tgts["p"] = new(big.Int).Set(p)
			}
		} else {
			tgts = map[string]*big.Int{"1": big.NewInt(1), "p-1": new(big.Int).Sub(p, big.NewInt(1))}
		}
		for tn, t := range tgts {
			t := t
			for _, over := range []bool{false, true} {
				fam, nm := famCarry, "reduce-hint=native-wrap("+tn+")"
				var fits *atomic.Int64
				if over {
					fam, nm = famQuo, nm+"-oversize-quotient"
				} else {
					fits = new(atomic.Int64)
				}
				out = append(out, scenario{name: nm, family: fam, in: with(1 - isz), mustFail: true, needLie: true, fits: fits, why: fmt.Sprintf("IsZero(%s - %s) claimed %d", a, b, 1-isz),
					opts: mulLieOpts(false, &mulLie{name: nm, match: m, build: lieNativeWrap(func(*mulCall) *big.Int { return t }, over, fits)})})
			}
			out = append(out, scenario{name: "reduce-hint=" + tn + "/quotient-kept/carry-solved", family: famIdentity, in: with(1 - isz), mustFail: true, needLie: true, why: "reduction replaced, quotient kept",
				opts: mulLieOpts(false, &mulLie{name: "x", match: m, build: func(c *mulCall, q *big.Int) ([]*big.Int, []*big.Int, []*big.Int, bool) {
					rl := splitLimbs(t, c.w, c.nbLimbs)
					cc, _ := c.solvedCarries(c.k, rl, q)
					return c.k, rl, cc, true
				}})})
		}
		return out
	case "modmul", "modeq":
		if !fc.varMod {
			return nil
		}
		var mm *big.Int
		switch x.rng.IntN(3) {
		case 0:
			mm = big.NewInt(4294967311)
		case 1:
			mm = randBits(x.rng, 100+x.rng.IntN(fc.mod.BitLen()/2-100))
			mm.SetBit(mm, 0, 1)
		default:
			mm = randBits(x.rng, 8+x.rng.IntN(50))
			mm.SetBit(mm, 0, 1)
		}
		if mm.Cmp(big.NewInt(3)) < 0 || new(big.Int).GCD(nil, nil, mm, q).Cmp(big.NewInt(1)) != 0 {
			mm = big.NewInt(4294967311)
		}
		a, b := randBelow(x.rng, mm), randBelow(x.rng, mm)
		if x.kind == "modmul" {
			r := modp(new(big.Int).Mul(a, b), mm)
			base := advInput{A: a, B: b, M: mm}
			with := func(e *big.Int) advInput { bb := base; bb.E = modp(e, mm); return bb }
			wrong := modp(new(big.Int).Add(r, big.NewInt(1)), mm)
			var out []scenario
			out = append(out, scenario{name: "honest/true-claim", in: with(r)})
			out = append(out, scenario{name: "honest/claim=r+1", family: famHonest, in: with(wrong), mustFail: true, why: "E = r+1 modulo the variable modulus"})
			// width-violating witness handed directly to the variable-modulus operation, true arithmetic
			// claim: nothing but the operation's own range check of its operands stands in the way
			for _, which := range []string{"low-limb=2^w", "top-limb=2^topwidth"} {
				l := splitLimbs(randBelow(x.rng, p), w, n)
				if which == "low-limb=2^w" {
					if n < 2 {
						continue
					}
					l[0] = new(big.Int).Lsh(big.NewInt(1), w)
				} else {
					l[n-1] = new(big.Int).Lsh(big.NewInt(1), fc.topWidth())
				}
				av := joinLimbs(l, w)
				in := advInput{ALimbs: l, B: b, M: mm, E: modp(new(big.Int).Mul(av, b), mm)}
				out = append(out, scenario{name: "modmul/witness/" + which, family: famWidth, in: in, mustFail: true, why: "witness limb wider than the field parameters allow, operand of ModMul"})
			}
			m := matchAB(a, b)
			for _, over := range []bool{false, true} {
				fam, nm := famCarry, "modmul/native-wrap(r+1)"
				var fits *atomic.Int64
				if over {
					fam, nm = famQuo, nm+"-oversize-quotient"
				} else {
					fits = new(atomic.Int64)
				}
				out = append(out, scenario{name: nm, family: fam, in: with(wrong), mustFail: true, needLie: true, fits: fits, why: fmt.Sprintf("a*b mod m = %s, claimed %s", r, wrong),
					opts: mulLieOpts(false, &mulLie{name: nm, match: m, build: lieNativeWrap(func(*mulCall) *big.Int { return wrong }, over, fits)})})
			}
			out = append(out, scenario{name: "modmul/rem+1/quotient-kept/carry-solved", family: famIdentity, in: with(wrong), mustFail: true, needLie: true, why: "remainder+1",
				opts: mulLieOpts(false, &mulLie{name: "x", match: m, build: lieRemDelta(1, true)})})
			return out
		}
		// modeq: ModAssertIsEqual(A, E, M) with A != E mod M
		d := int64(1 + x.rng.IntN(5))
		e := modp(new(big.Int).Add(a, big.NewInt(d)), mm)
		if e.Cmp(a) == 0 {
			return nil
		}
		base := advInput{A: a, E: e, M: mm}
		var out []scenario
		out = append(out, scenario{name: "honest/true-claim", in: advInput{A: a, E: a, M: mm}})
		out = append(out, scenario{name: "honest/false-claim", family: famHonest, in: base, mustFail: true, why: "A != E modulo the variable modulus"})
		// diff = padding + E - A; the final checkZero(diff, M) is attacked directly
		out = append(out, x.zeroScenariosNamed(base, "modeq/")...)
		// lying subtraction padding: padding' = padding + (A - E), so that diff == padding (== 0 mod M for an honest padding);
		// the padding's own zero check is then attacked with the native wrap.
		delta := new(big.Int).Sub(a, e)
		for _, wrap := range []string{"", "native-wrap", "native-wrap-oversize-quotient"} {
			wrap := wrap
			fam := famIdentity
			var fits *atomic.Int64
			switch wrap {
			case "native-wrap":
				fam = famCarry
				fits = new(atomic.Int64)
			case "native-wrap-oversize-quotient":
				fam = famQuo
			}
			nm := "subpadding+(A-E)"
			if wrap != "" {
				nm += "/padding-check-" + wrap
			}
			out = append(out, scenario{name: nm, family: fam, in: base, mustFail: true, needLie: true, fits: fits, why: "subtraction padding is not a multiple of the modulus",
				opts: func(st *lieStats) []solver.Option {
					var padVal atomic.Pointer[big.Int]
					o := []solver.Option{override(hSubPad, func(q *big.Int, in, outp []*big.Int) error {
						if err := hSubPad(q, in, outp); err != nil {
							return err
						}
						st.intercepted.Add(1)
						outp[0].Add(outp[0], delta)
						if outp[0].Sign() < 0 {
							return fmt.Errorf("harness: negative padding limb")
						}
						st.applied.Add(1)
						padVal.Store(joinLimbs(outp, uint(in[1].Uint64())))
						return nil
					})}
					if wrap != "" {
						o = append(o, override(hMul, lyingMulHint(hMul, false, []*mulLie{{name: nm, match: func(c *mulCall) bool {
							pv := padVal.Load()
							return pv != nil && len(c.bl) == 1 && c.A().Cmp(pv) == 0
						}, build: lieNativeWrap(func(*mulCall) *big.Int { return new(big.Int) }, wrap != "native-wrap", fits)}}, st)))
					}
					return o
				}})
		}
		return out
	}
	return nil
}

func (x *advCtx) zeroScenariosNamed(base advInput, prefix string) []scenario {
	s := x.zeroScenarios(base, false)
	for i := range s {
		s[i].name = prefix + s[i].name
	}
	return s
}
