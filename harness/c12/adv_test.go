//go:build verif

package c12

import "github.com/consensys/gnark/std/math/emulated"

type advRunner interface{}
type advRun[T emulated.FieldParams] struct{ kind string }
