//go:build verif

// C12 — Emulated field arithmetic is correct and cannot be cheated
// (std/math/emulated).
//
// B-monitor (differential): generated operation chains over emulated.Field[T]
// for built-in and custom FieldParams, mirrored instruction by instruction in
// big.Int; every intermediate result is tapped (limb values through a
// do-nothing hint, overflow counter by reflection) and compared with the mirror;
// run in gnark's test engine over three native fields, and a sample compiled
// and solved on both builders with the commitment replaced by a hash.
//
// A-monitor (adversarial): small compiled circuits "r := op(a,b);
// AssertIsEqual(r, E)" solved with lying hints (solver.OverrideHint) that are
// best-effort cheats for a false E; Solve must fail whenever E is incongruent.
package c12

import (
	"fmt"
	"math/big"
	"sort"
	"strings"
	"sync"
	"testing"

	"github.com/consensys/gnark-crypto/ecc"
	"github.com/consensys/gnark/backend"
	"github.com/consensys/gnark/backend/groth16"
	"github.com/consensys/gnark/backend/plonk"
	"github.com/consensys/gnark/backend/witness"
	"github.com/consensys/gnark/test/unsafekzg"
	"github.com/consensys/gnark/constraint"
	"github.com/consensys/gnark/constraint/solver"
	"github.com/consensys/gnark/std/math/emulated"
	"github.com/consensys/gnark/std/math/emulated/emparams"

	"github.com/consensys/gnark/verifharness/internal/vcore"
)

type native struct {
	name  string
	field *big.Int
}

var natives = []native{
	{"bn254", ecc.BN254.ScalarField()},
	{"bls12-377", ecc.BLS12_377.ScalarField()},
	{"bw6-761", ecc.BW6_761.ScalarField()},
}

const workers = 10

func TestC12(t *testing.T) {
	r := vcore.Start(t, "C12")
	var maxMu sync.Mutex
	maxOf := map[string]uint{}
	noteMax := func(key string, v uint) {
		maxMu.Lock()
		if v > maxOf[key] {
			maxOf[key] = v
		}
		maxMu.Unlock()
	}

	// ---- 0. probes ----
	runProbes[emparams.Secp256k1Fp](r, "Secp256k1Fp")
	runProbes[emparams.BN254Fp](r, "BN254Fp")
	runProbes[pTiny13](r, "custom:4099/2x8")
	runProbes[pFermat17](r, "custom:2^16+1/3x6")

	cases := allCases()

	// ---- 1. chains in the test engine (+ compiled sample) ----
	type chainJob struct {
		fc  *fieldCase
		idx int
	}
	var jobs []chainJob
	for _, fc := range cases {
		n := r.Pick(14, 420)
		if fc.heavy {
			n = r.Pick(6, 120)
		}
		for i := 0; i < n; i++ {
			jobs = append(jobs, chainJob{fc, i})
		}
	}
	vcore.WatchedParallel(r, "chains", len(jobs), workers, func(k int) {
		j := jobs[k]
		fc := j.fc
		rng := r.Rand(fmt.Sprintf("chain/%s/%d", fc.name, j.idx))
		compileIt := j.idx < r.Pick(2, 16) && !(fc.heavy && j.idx >= r.Pick(1, 6))
		nOps := 10 + rng.IntN(191)
		if fc.heavy {
			nOps = 10 + rng.IntN(90)
		}
		if compileIt {
			nOps = 10 + rng.IntN(40)
		}
		// the widest MulConst constant every native field used here allows (documented panic beyond)
		opt := genOpt{nOps: nOps, maxCbl: 250 - fc.w, expOK: !compileIt && fc.mod.BitLen() <= 64 || (!compileIt && j.idx%7 == 3 && !fc.heavy)}
		p := genProgram(rng, fc, opt)
		cr := fc.newChain(p)
		label := fmt.Sprintf("chain|%s|%d", fc.name, j.idx)
		r.Count("chains", 1)
		r.Count("chains.field."+fc.name, 1)
		r.Count("chain.ops", len(p.ops))
		if j.idx == 1 && (fc.name == "Secp256k1Fp" || fc.name == "custom:4099/2x8") {
			r.SampleClass("chain:"+fc.name, map[string]any{"program": firstLines(p.Text(), 40)})
		}
		nats := []native{natives[0], natives[1+j.idx%2]}
		for _, nt := range nats {
			where := "engine/" + nt.name
			res := cr.Engine(nt.field, p)
			r.Eval(label+"|"+where+"|honest", true)
			rep := replayOf(p, map[string]any{"engine": where})
			if res.err != nil {
				// shrink for the replay file
				pred := func(q *program) bool { return cr.Engine(nt.field, q).err != nil }
				m := minimize(cut(minimize(p, pred, 300), pred, 200), pred, 300)
				rep = replayOf(p, map[string]any{"engine": where, "minimized": m.Text()})
			}
			judge(r, p, res, where, rep)
			if res.rec != nil {
				noteMax("overflow.max."+nt.name+"/w="+fmt.Sprint(fc.w), res.rec.maxOverflow)
				if res.rec.maxOverflow+1 >= uint(nt.field.BitLen()-2)-fc.w {
					r.Count("chains.overflow-reached-maxOverflow", 1)
				}
				n := 0
				for _, v := range res.rec.autoReduce {
					n += v
				}
				if n > 0 {
					r.Count("chains.with-automatic-reduction", 1)
				}
			}
			// false statements: an appended false assertion, and a falsified expected witness
			if neg := negativeVariant(rng, p, opt.maxCbl); neg != nil {
				nres := fc.newChain(neg).Engine(nt.field, neg)
				r.Eval(label+"|"+where+"|neg|"+neg.negative, true)
				judge(r, neg, nres, where, replayOf(neg, map[string]any{"engine": where}))
				r.SampleClass("negative:"+kindOf(neg.negative), map[string]any{"field": fc.name, "falsified": neg.negative, "engine_said": short(nres.err)})
			}
			if neg := mutateExpected(rng, p); neg != nil {
				nres := cr.Engine(nt.field, neg)
				r.Eval(label+"|"+where+"|neg|"+neg.negative, true)
				judge(r, neg, nres, where, replayOf(neg, map[string]any{"engine": where}))
			}
		}
		if !compileIt {
			return
		}
		type tgt struct {
			nt      native
			builder string
		}
		tg := []tgt{{natives[0], "r1cs"}, {natives[0], "scs"}}
		if j.idx == 0 {
			tg = append(tg, tgt{natives[1], []string{"r1cs", "scs"}[len(fc.name)%2]})
		}
		for _, g := range tg {
			where := g.builder + "/" + g.nt.name
			c, err := cr.Compile(g.nt.field, g.builder, p)
			if err != nil {
				// a panic while the circuit is being compiled produces no constraint system at all: it cannot make
				// a result wrong, so it is recorded as a robustness observation, not as a violation of C12
				r.Eval(label+"|"+where+"|compile", false)
				r.Count("robustness.compile-failed."+where+":"+compileCulprit(err), 1)
				r.SampleClass("robustness:compile-failed:"+compileCulprit(err), map[string]any{"field": fc.name, "engine": where, "error": short(err), "program": firstLines(p.Text(), 60)})
				continue
			}
			r.Count("compiled."+where, 1)
			r.Count("compiled.constraints", c.ccs.GetNbConstraints())
			res := cr.Solve(c, g.nt.field, p)
			r.Eval(label+"|"+where+"|honest", true)
			judge(r, p, res, where, replayOf(p, map[string]any{"engine": where}))
			for v := 0; v < 2; v++ {
				if neg := mutateExpected(rng, p); neg != nil {
					nres := cr.Solve(c, g.nt.field, neg)
					r.Eval(label+"|"+where+"|neg|"+neg.negative, true)
					judge(r, neg, nres, where, replayOf(neg, map[string]any{"engine": where}))
				}
			}
		}
	})

	// ---- 1b. boundary chains: operand sizes placed at the reduction threshold of each native field ----
	type bJob struct {
		fc  *fieldCase
		nt  native
		idx int
	}
	var bjobs []bJob
	for _, fc := range cases {
		for _, nt := range natives {
			for i := 0; i < r.Pick(5, 60); i++ {
				bjobs = append(bjobs, bJob{fc, nt, i})
			}
		}
	}
	vcore.WatchedParallel(r, "boundary", len(bjobs), workers, func(k int) {
		j := bjobs[k]
		rng := r.Rand(fmt.Sprintf("boundary/%s/%s/%d", j.fc.name, j.nt.name, j.idx))
		p := genBoundaryProgram(rng, j.fc, j.nt.field.BitLen())
		if j.idx%3 == 2 {
			p = genSubExtremeProgram(rng, j.fc)
			r.Count("boundary-chains.subtraction-extremes", 1)
		}
		cr := j.fc.newChain(p)
		where := "engine/" + j.nt.name
		label := fmt.Sprintf("boundary|%s|%s|%d", j.fc.name, j.nt.name, j.idx)
		res := cr.Engine(j.nt.field, p)
		r.Eval(label+"|honest", true)
		r.Count("boundary-chains", 1)
		judge(r, p, res, where, replayOf(p, map[string]any{"engine": where, "kind": "boundary chain"}))
		if res.rec != nil {
			noteMax("overflow.max."+j.nt.name+"/w="+fmt.Sprint(j.fc.w), res.rec.maxOverflow)
			if res.rec.maxOverflow+1 >= uint(j.nt.field.BitLen()-2)-j.fc.w {
				r.Count("boundary-chains.overflow-reached-maxOverflow", 1)
			}
		}
		r.SampleClass("boundary-chain", map[string]any{"native": j.nt.name, "program": firstLines(p.Text(), 30)})
		if neg := mutateExpected(rng, p); neg != nil {
			nres := cr.Engine(j.nt.field, neg)
			r.Eval(label+"|neg", true)
			judge(r, neg, nres, where, replayOf(neg, map[string]any{"engine": where}))
		}
		if (j.idx == 0 || j.idx == 2) && j.nt.name != "bw6-761" && !j.fc.heavy {
			b := []string{"r1cs", "scs"}[len(j.fc.name)%2]
			where := b + "/" + j.nt.name
			if c, err := cr.Compile(j.nt.field, b, p); err == nil {
				r.Count("compiled."+where, 1)
				res := cr.Solve(c, j.nt.field, p)
				r.Eval(label+"|"+where, true)
				judge(r, p, res, where, replayOf(p, map[string]any{"engine": where, "kind": "boundary chain"}))
			} else {
				r.Count("robustness.compile-failed."+where+":"+compileCulprit(err), 1)
			}
		}
	})

	// ---- 2. variable-modulus chains ----
	var mjobs []chainJob
	for _, fc := range cases {
		if fc.varMod {
			for i := 0; i < r.Pick(10, 200); i++ {
				mjobs = append(mjobs, chainJob{fc, i})
			}
		}
	}
	vcore.WatchedParallel(r, "modchains", len(mjobs), workers, func(k int) {
		j := mjobs[k]
		fc := j.fc
		rng := r.Rand(fmt.Sprintf("modchain/%s/%d", fc.name, j.idx))
		compileIt := j.idx == 0
		p := genModProgram(rng, fc, 6+rng.IntN(30), !compileIt && fc.nbLimbs <= 4 && j.idx%3 == 1)
		if j.idx%5 == 4 {
			// long accumulation: enough consecutive additions to go through ModAdd's own
			// reduce-and-retry path two or three times on either native field
			p = genModAccumulate(rng, fc, 200+rng.IntN(400))
			r.Count("modchains.long-accumulation", 1)
		}
		cr := fc.newChain(p)
		label := fmt.Sprintf("modchain|%s|%d", fc.name, j.idx)
		r.Count("modchains", 1)
		r.SampleClass("modchain:"+fc.name, map[string]any{"program": firstLines(p.Text(), 30)})
		nt := natives[j.idx%2]
		where := "engine/" + nt.name
		res := cr.Engine(nt.field, p)
		r.Eval(label+"|"+where+"|honest", true)
		judge(r, p, res, where, replayOf(p, map[string]any{"engine": where}))
		for _, neg := range []*program{negativeVariant(rng, p, 0), mutateExpected(rng, p)} {
			if neg != nil {
				nres := fc.newChain(neg).Engine(nt.field, neg)
				r.Eval(label+"|"+where+"|neg|"+neg.negative, true)
				judge(r, neg, nres, where, replayOf(neg, map[string]any{"engine": where}))
			}
		}
		if compileIt {
			for _, b := range []string{"r1cs", "scs"} {
				where := b + "/bn254"
				c, err := cr.Compile(natives[0].field, b, p)
				if err != nil {
					r.Count("robustness.compile-failed."+where+":"+compileCulprit(err), 1)
					continue
				}
				r.Count("compiled."+where, 1)
				res := cr.Solve(c, natives[0].field, p)
				r.Eval(label+"|"+where+"|honest", true)
				judge(r, p, res, where, replayOf(p, map[string]any{"engine": where}))
				if neg := mutateExpected(rng, p); neg != nil {
					nres := cr.Solve(c, natives[0].field, neg)
					r.Eval(label+"|"+where+"|neg", true)
					judge(r, neg, nres, where, replayOf(neg, map[string]any{"engine": where}))
				}
			}
		}
	})

	// ---- 3. adversary: lying hints against compiled circuits ----
	type advJob struct {
		fc      *fieldCase
		kind    string
		builder string
		nt      native
	}
	var ajobs []advJob
	for ci, fc := range cases {
		for ki, kind := range advKinds {
			if (kind == "modmul" || kind == "modeq") != fc.varMod && (kind == "modmul" || kind == "modeq") {
				continue
			}
			if !fc.prime && (kind == "div" || kind == "inv" || kind == "sqrt") {
				continue
			}
			if fc.heavy && r.Quick() && (ki+ci)%3 != 0 {
				continue
			}
			ajobs = append(ajobs, advJob{fc, kind, "r1cs", natives[0]}, advJob{fc, kind, "scs", natives[0]})
			if (ci+ki)%4 == 0 || r.Thorough() {
				ajobs = append(ajobs, advJob{fc, kind, []string{"r1cs", "scs"}[(ci+ki)%2], natives[1]})
			}
		}
	}
	vcore.WatchedParallel(r, "adversary", len(ajobs), workers, func(k int) { runAdv(r, ajobs[k].fc, ajobs[k].kind, ajobs[k].builder, ajobs[k].nt) })

	// ---- 4. padding forgeries: only subPaddingHint lies (variable-modulus equality) ----
	type padJob struct {
		fc      *fieldCase
		variant string
		k       int
		builder string
		nt      native
	}
	var pjobs []padJob
	for ci, fc := range cases {
		if fc.nbLimbs*int(fc.w) < 256 || fc.nbLimbs > 8 {
			continue // the wrapped difference (about the native modulus) must fit the quotient of the zero check
		}
		if fc.heavy && !fc.varMod && r.Quick() {
			continue
		}
		for _, v := range []struct {
			variant string
			ks      []int
		}{{"addeq", []int{1, 2, 3, 4}}, {"muladdeq", []int{1, 2}}} {
			for _, k := range v.ks {
				if r.Quick() && !fc.varMod && k > 2 {
					continue
				}
				pjobs = append(pjobs, padJob{fc, v.variant, k, "r1cs", natives[0]}, padJob{fc, v.variant, k, "scs", natives[0]})
				if r.Thorough() || (ci+k)%3 == 0 {
					pjobs = append(pjobs, padJob{fc, v.variant, k, []string{"r1cs", "scs"}[(ci+k)%2], natives[1]})
				}
			}
		}
	}
	vcore.WatchedParallel(r, "padding-forgeries", len(pjobs), workers, func(k int) {
		j := pjobs[k]
		runPadForgeries(r, j.fc, j.variant, j.k, j.builder, j.nt)
	})

	// ---- evidence ----
	keys := make([]string, 0, len(maxOf))
	for k := range maxOf {
		keys = append(keys, k)
	}
	sort.Strings(keys)
	mo := map[string]uint{}
	for _, k := range keys {
		mo[k] = maxOf[k]
	}
	r.Set("max_overflow_seen", mo)
	r.Set("max_overflow_allowed", "native bits - 2 - limb width")
	proofsMu.Lock()
	sort.Slice(proofs, func(i, j int) bool { return fmt.Sprint(proofs[i]["field"], proofs[i]["engine"]) < fmt.Sprint(proofs[j]["field"], proofs[j]["engine"]) })
	if len(proofs) > 6 {
		proofs = proofs[:6]
	}
	r.Set("real_prover_confirmations(false statement proved and verified)", proofs)
	proofsMu.Unlock()

	r.Require("chains", 50)
	r.Require("slots.checked.elem", 1000)
	r.Require("slots.checked.bits", 50)
	r.Require("slots.checked.bool", 10)
	r.Require("chains.with-automatic-reduction", 20)
	r.Require("chains.overflow-reached-maxOverflow", 10)
	r.Require("boundary-chains.overflow-reached-maxOverflow", 50)
	r.Require("negative.rejected.engine/bn254", 50)
	r.Require("compiled.r1cs/bn254", 10)
	r.Require("compiled.scs/bn254", 10)
	r.Require("negative.rejected.r1cs/bn254", 10)
	r.Require("negative.rejected.scs/bn254", 10)
	r.Require("adv.hint-calls-intercepted", 500)
	r.Require("adv.lies-applied", 300)
	r.Require("adv.rejected."+famIdentity, 100)
	r.Require("adv.rejected."+famQuo, 50)
	r.Require("adv.rejected."+famHonest, 50)
	r.Require("adv.rejected."+famWidth, 10)
	r.Require("adv.honest.accepted", 50)
	r.Require("boundary-chains.subtraction-extremes", 50)
	r.Require("pad.padding-hint-calls-forged", 100)
	r.Require("pad.rejected."+famPad, 80)
	r.Require("pad.honest.accepted", 20)

	r.Finish("exploration",
		"chains: one case = (field parameters, generated program of 10-200 emulated operations with its witness, execution engine, native field, honest / falsified variant); non-trivial = the program was executed and at least its final assertions evaluated. "+
			"adversary: one case = (field parameters, attacked circuit, builder, native field, inputs, lie); non-trivial = the asserted result is incongruent to the true one and the lie was applied (or hints honest and the claim false). "+
			"distinct by hash of (field, program index or circuit kind, engine, variant)",
		[]string{
			"a polynomial identity that fails is caught by the random-point check except with probability ~ degree/|native field| (treated as never); the commitment is a SHA-256 hash of the committed values, as the Fiat-Shamir provers make it",
			"Sqrt: either square root is a correct result; Reduce/Mul results may be r or r+q (documented), only strict reductions and canonical bit decompositions are held to the canonical representative",
			"Exp is called with exponents whose exact integer value is documented (witness < q, constant, strict reduction); Eval only with reduced operands and degree <= 3 (its doc excludes native overflow checks)",
			"Lookup2/Mux with a shorter first operand, Select/Lookup2/Mux between a multiplication result and a longer operand, negative MulConst constants and IsZero of short / over-wide zero-overflow elements are exercised by fixed probes only; the chain interpreter routes around the first two so that chains keep running",
			"ReduceStrict / ToBitsCanonical of a compile-time constant panics at compile time ('trying to reduce a constant'): treated as outside the domain, not generated",
		})
}

func compileCulprit(err error) string {
	s := err.Error()
	for _, k := range []string{"trying to reduce a constant", "nil pointer", "index out of range", "overflow the native field"} {
		if strings.Contains(s, k) {
			return k
		}
	}
	return "other"
}

func firstLines(s string, n int) string {
	l := strings.Split(s, "\n")
	if len(l) > n {
		l = append(l[:n], fmt.Sprintf("… (%d more lines)", len(l)-n))
	}
	return strings.Join(l, "\n")
}

func kindOf(s string) string {
	if i := strings.IndexAny(s, "( "); i > 0 {
		return s[:i]
	}
	return s
}

func runAdv(r *vcore.Run, fc *fieldCase, kind, builder string, nt native) {
	ar := fc.newAdv(kind)
	where := builder + "/" + nt.name
	label := fmt.Sprintf("adv|%s|%s|%s", fc.name, kind, where)
	rng := r.Rand(label)
	x := &advCtx{fc: fc, kind: kind, q: nt.field, rng: rng, nbits: 1}
	if kind == "canon" {
		x.nbits = fc.mod.BitLen()
		if fc.mod.TrailingZeroBits() == uint(x.nbits-1) {
			x.nbits--
		}
	}
	if len(x.scenarios()) == 0 {
		return
	}
	var ccs constraint.ConstraintSystem
	ccs, err := ar.Compile(nt.field, builder, x.nbits)
	if err != nil {
		r.Eval(label+"|compile", true)
		r.Violation("adv-circuit-compile-failed/"+kind, fmt.Sprintf("[%s %s] %s", fc.name, where, short(err)), map[string]any{"field": fc.name, "circuit": kind, "engine": where})
		return
	}
	r.Count("adv.circuits-compiled", 1)
	nIn := r.Pick(2, 24)
	if fc.heavy {
		nIn = r.Pick(1, 8)
	}
	for i := 0; i < nIn; i++ {
		for _, sc := range x.scenarios() {
			st := &lieStats{}
			var opts []solver.Option
			if sc.opts != nil {
				opts = sc.opts(st)
			}
			w, err := ar.Witness(nt.field, sc.in, x.nbits)
			if err != nil {
				r.Inconclusive("adv-witness:" + short(err))
				continue
			}
			opts = append([]solver.Option{commitOverride()}, opts...)
			var serr error
			if pan, stack := vcore.Catch(func() { _, serr = ccs.Solve(w, opts...) }); pan != nil {
				serr = fmt.Errorf("solve panic: %v\n%s", pan, stack)
			}
			r.Count("adv.hint-calls-intercepted", int(st.intercepted.Load()))
			r.Count("adv.lies-applied", int(st.applied.Load()))
			applied := st.applied.Load() > 0
			nm := stripParen(sc.name)
			key := fmt.Sprintf("%s|%d|%s", label, i, sc.name)
			if serr != nil && strings.Contains(serr.Error(), "harness:") {
				r.Eval(key, false)
				r.Inconclusive("adv-harness-error")
				r.Count("adv.harness-error:"+short(serr), 1)
				continue
			}
			if sc.needLie && !applied {
				r.Eval(key, false)
				r.Count("adv.void(lie-not-applicable)."+nm, 1)
				continue
			}
			rep := func() any {
				return map[string]any{"field": fc.name, "modulus": fc.mod.String(), "limbs": fmt.Sprintf("%dx%d", fc.nbLimbs, fc.w), "circuit": kind, "engine": where, "lie": sc.name,
					"A": str(sc.in.A), "B": str(sc.in.B), "C": str(sc.in.C), "E": str(sc.in.E), "M": str(sc.in.M), "ALimbs": fmt.Sprint(sc.in.ALimbs), "Bits": str(sc.in.Bits), "Z": sc.in.Z,
					"false_claim": sc.why, "solver_said": short(serr)}
			}
			switch {
			case sc.mustFail:
				r.Eval(key, true)
				if serr == nil {
					r.Count("adv.ACCEPTED-must-reject."+sc.family+"."+kind, 1)
					if kind == "mul" && sc.opts != nil {
						confirmWithProvers(r, fc, where, builder, ccs, w, sc)
					}
					r.Violation("accepted-incongruent/"+sc.family, fmt.Sprintf("Solve accepted a false statement: circuit %s over %s on %s, lie %s: %s", kind, fc.name, where, sc.name, sc.why), rep())
				} else {
					r.Count("adv.rejected."+sc.family, 1)
					r.Count("adv.rejected.by-lie."+nm, 1)
					r.SampleClass("lie:"+nm, map[string]any{"field": fc.name, "circuit": kind, "engine": where, "false_claim": sc.why, "solver_said": short(serr)})
				}
			case sc.benign:
				r.Eval(key, false)
				if serr == nil {
					r.Count("adv.benign-lie.accepted."+nm, 1)
				} else {
					r.Count("adv.benign-lie.rejected."+nm, 1)
				}
			default: // honest hints, true claim
				r.Eval(key, true)
				if serr != nil {
					r.Count("adv.honest.REJECTED."+kind, 1)
					r.Violation("honest-rejected/adv-"+kind, fmt.Sprintf("true statement with honest hints rejected: circuit %s over %s on %s: %s", kind, fc.name, where, short(serr)), rep())
				} else {
					r.Count("adv.honest.accepted", 1)
				}
			}
		}
	}
}

var (
	confirmOnce sync.Map
	proofsMu    sync.Mutex
	proofs      []map[string]any
)

// confirmWithProvers pushes one accepted false statement per (field, builder)
// through the real prover and verifier: the false claim E is a public input.
func confirmWithProvers(r *vcore.Run, fc *fieldCase, where, builder string, ccs constraint.ConstraintSystem, w witness.Witness, sc scenario) {
	if _, done := confirmOnce.LoadOrStore(fc.name+"|"+where, true); done || fc.heavy {
		return
	}
	st := &lieStats{}
	opt := backend.WithSolverOptions(sc.opts(st)...)
	pw, err := w.Public()
	if err != nil {
		return
	}
	var verr error
	pan, _ := vcore.Catch(func() {
		if builder == "r1cs" {
			pk, vk, err := groth16.Setup(ccs)
			if err != nil {
				verr = fmt.Errorf("setup: %w", err)
				return
			}
			proof, err := groth16.Prove(ccs, pk, w, opt)
			if err != nil {
				verr = fmt.Errorf("prove: %w", err)
				return
			}
			verr = groth16.Verify(proof, vk, pw)
		} else {
			srs, lag, err := unsafekzg.NewSRS(ccs)
			if err != nil {
				verr = fmt.Errorf("srs: %w", err)
				return
			}
			pk, vk, err := plonk.Setup(ccs, srs, lag)
			if err != nil {
				verr = fmt.Errorf("setup: %w", err)
				return
			}
			proof, err := plonk.Prove(ccs, pk, w, opt)
			if err != nil {
				verr = fmt.Errorf("prove: %w", err)
				return
			}
			verr = plonk.Verify(proof, vk, pw)
		}
	})
	switch {
	case pan != nil:
		r.Count("adv.prover-confirmation.panic", 1)
	case verr == nil:
		r.Count("adv.prover-confirmation.PROOF-OF-FALSE-STATEMENT-VERIFIES."+builder, 1)
		proofsMu.Lock()
		proofs = append(proofs, map[string]any{"field": fc.name, "engine": where, "backend": map[string]string{"r1cs": "groth16", "scs": "plonk"}[builder], "lie": sc.name, "A": str(sc.in.A), "B": str(sc.in.B), "E_public": str(sc.in.E), "false_claim": sc.why, "verify": "accepted"})
		proofsMu.Unlock()
		r.SampleClass("proof-of-false-statement:"+builder, map[string]any{"field": fc.name, "engine": where, "lie": sc.name, "false_claim": sc.why, "A": str(sc.in.A), "B": str(sc.in.B), "E(public)": str(sc.in.E),
			"backend": map[string]string{"r1cs": "groth16", "scs": "plonk"}[builder], "verify": "accepted"})
	default:
		r.Count("adv.prover-confirmation.rejected:"+short(verr), 1)
	}
}

func str(v *big.Int) string {
	if v == nil {
		return ""
	}
	return v.String()
}

func stripParen(s string) string {
	if i := strings.Index(s, "("); i > 0 {
		if j := strings.Index(s[i:], ")"); j > 0 {
			return s[:i] + s[i+j+1:]
		}
	}
	return s
}

var _ = emulated.GetHints
