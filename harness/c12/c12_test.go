//go:build verif

package c12

import (
	"fmt"
	"math/big"
	"os"
	"testing"
	"time"

	"github.com/consensys/gnark-crypto/ecc"
	"github.com/consensys/gnark/verifharness/internal/vcore"
)

func TestChainsDev(t *testing.T) {
	r := vcore.Start(t, "C12")
	fields := []*big.Int{ecc.BN254.ScalarField()}
	cases := allCases()
	n := 3
	if s := os.Getenv("DEV_N"); s != "" {
		fmt.Sscan(s, &n)
	}
	for _, fc := range cases {
		t0 := time.Now()
		for i := 0; i < n; i++ {
			rng := r.Rand(fmt.Sprintf("chain/%s/%d", fc.name, i))
			p := genProgram(rng, fc, genOpt{nOps: 30 + rng.IntN(80), maxCbl: 240 - fc.w, expOK: false})
			cr := fc.newChain(p)
			for _, f := range fields {
				res := cr.Engine(f, p)
				r.Eval(fmt.Sprintf("%s/%d", fc.name, i), true)
				if res.err != nil {
					pred := func(q *program) bool { return cr.Engine(f, q).err != nil }
					m := minimize(p, pred, 400)
					m = minimize(cut(m, pred, 300), pred, 400)
					m = minimize(cut(m, pred, 300), pred, 400)
					fmt.Println("MINIMIZED\n" + m.Text() + short(cr.Engine(f, m).err))
				}
				judge(r, p, res, "engine", replayOf(p, nil))
				if res.rec != nil {
					r.Count(fmt.Sprintf("maxoverflow.%s", fc.name), int(res.rec.maxOverflow))
				}
			}
		}
		fmt.Println(fc.name, time.Since(t0))
	}
	r.Finish("exploration", "dev", nil)
}
