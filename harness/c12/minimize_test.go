//go:build verif

package c12

import "math/big"

// minimize shrinks a program while pred (e.g. "the engine still rejects it")
// keeps holding: shortest failing prefix, then greedy removal of operations
// whose results no remaining operation reads.  Used only to make the replay
// file of a violation readable.
func minimize(p *program, pred func(*program) bool, budget int) *program {
	cur := p
	try := func(q *program) bool {
		if budget <= 0 {
			return false
		}
		budget--
		return pred(q)
	}
	// shortest failing prefix (binary search is not valid: failure is monotone only roughly)
	lo, hi := 1, len(cur.ops)
	for lo < hi {
		mid := (lo + hi) / 2
		q := cur.clone()
		q.ops = q.ops[:mid]
		if try(q) {
			hi = mid
		} else {
			lo = mid + 1
		}
	}
	if hi < len(cur.ops) {
		q := cur.clone()
		q.ops = q.ops[:hi]
		if try(q) {
			cur = q
		}
	}
	changed := true
	for changed && budget > 0 {
		changed = false
		for i := len(cur.ops) - 1; i >= 0; i-- {
			o := cur.ops[i]
			used := false
			for _, later := range cur.ops[i+1:] {
				for _, a := range later.A {
					used = used || (o.Out >= 0 && a == o.Out)
				}
				for _, n := range later.N {
					used = used || (o.NOut >= 0 && n == o.NOut)
				}
				used = used || (o.BOut >= 0 && later.B == o.BOut)
			}
			if used {
				continue
			}
			q := cur.clone()
			q.ops = append(append([]op{}, cur.ops[:i]...), cur.ops[i+1:]...)
			if try(q) {
				cur = q
				changed = true
			}
		}
	}
	return cur
}

// cut replaces element operands by fresh witnesses of the same residue (breaking
// dependency chains), keeping a substitution when pred still holds.
func cut(p *program, pred func(*program) bool, budget int) *program {
	cur := p
	for i := len(cur.ops) - 1; i >= 0 && budget > 0; i-- {
		for k := range cur.ops[i].A {
			reg := cur.ops[i].A[k]
			if cur.mir[reg].input >= 0 || (cur.vmodReg >= 0 && reg == cur.vmodReg) {
				continue
			}
			q := cur.clone()
			m := cur.mir[reg]
			nm := &emir{val: m.val, exact: new(big.Int).Set(m.val), of0: true, std: true, input: len(q.inE)}
			q.mir = append(q.mir, nm)
			q.inE = append(q.inE, q.nE)
			q.inEVal = append(q.inEVal, new(big.Int).Set(m.val))
			o := q.ops[i]
			o.A = append([]int{}, o.A...)
			o.A[k] = q.nE
			q.ops[i] = o
			q.nE++
			budget--
			if pred(q) {
				cur = q
			}
		}
	}
	return cur
}
