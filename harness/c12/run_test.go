//go:build verif

package c12

import (
	"fmt"
	"math/big"
	"math/rand/v2"
	"strings"

	"github.com/consensys/gnark/constraint"
	"github.com/consensys/gnark/constraint/solver"
	"github.com/consensys/gnark/frontend"
	"github.com/consensys/gnark/frontend/cs/r1cs"
	"github.com/consensys/gnark/frontend/cs/scs"
	"github.com/consensys/gnark/std/math/emulated"
	"github.com/consensys/gnark/test"

	"github.com/consensys/gnark/verifharness/internal/vcore"
)

type execResult struct {
	err error
	obs *obsRun
	rec *defRecord
}

type compiled struct {
	ccs constraint.ConstraintSystem
	rec *defRecord
}

type chainRunner interface {
	Engine(field *big.Int, p *program) execResult
	Compile(field *big.Int, builder string, p *program) (*compiled, error)
	Solve(c *compiled, field *big.Int, p *program, opts ...solver.Option) execResult
}

type chainRun[T emulated.FieldParams] struct{ prog *program }

func (cr *chainRun[T]) template(p *program) *chainCircuit[T] {
	return &chainCircuit[T]{In: make([]emulated.Element[T], len(p.inE)), Nat: make([]frontend.Variable, len(p.inN)), prog: p, rec: &defRecord{}}
}

func (cr *chainRun[T]) Engine(field *big.Int, p *program) execResult {
	id, obs := newObsRun()
	defer obsStore.Delete(id)
	c := cr.template(p)
	err := test.IsSolved(c, c.assignment(p, id), field)
	return execResult{err: err, obs: obs, rec: c.rec}
}

func builderOf(name string) frontend.NewBuilder {
	if name == "scs" {
		return scs.NewBuilder
	}
	return r1cs.NewBuilder
}

func (cr *chainRun[T]) Compile(field *big.Int, builder string, p *program) (*compiled, error) {
	c := cr.template(p)
	var ccs constraint.ConstraintSystem
	var err error
	if pan, stack := vcore.Catch(func() { ccs, err = frontend.Compile(field, builderOf(builder), c) }); pan != nil {
		return nil, fmt.Errorf("compile panic: %v\n%s", pan, stack)
	}
	if err != nil {
		return nil, err
	}
	return &compiled{ccs: ccs, rec: c.rec}, nil
}

func (cr *chainRun[T]) Solve(c *compiled, field *big.Int, p *program, opts ...solver.Option) execResult {
	id, obs := newObsRun()
	defer obsStore.Delete(id)
	var tmpl chainCircuit[T]
	w, err := frontend.NewWitness(tmpl.assignment(p, id), field)
	if err != nil {
		return execResult{err: fmt.Errorf("harness: witness: %w", err), obs: obs, rec: c.rec}
	}
	opts = append([]solver.Option{commitOverride()}, opts...)
	if pan, stack := vcore.Catch(func() { _, err = c.ccs.Solve(w, opts...) }); pan != nil {
		err = fmt.Errorf("solve panic: %v\n%s", pan, stack)
	}
	return execResult{err: err, obs: obs, rec: c.rec}
}

// ---------------- the oracle ----------------

type finding struct {
	sig    string
	detail string
}

func short(err error) string {
	if err == nil {
		return "<nil>"
	}
	s := err.Error()
	if i := strings.Index(s, "\ngoroutine"); i > 0 {
		s = s[:i]
	}
	if len(s) > 700 {
		s = s[:700] + "…"
	}
	return s
}

// checkSlots compares every tapped value with the big.Int mirror.
func checkSlots(r *vcore.Run, p *program, res execResult, where string) []finding {
	var out []finding
	if res.rec == nil || res.obs == nil {
		return nil
	}
	mod := p.modOf()
	w := p.fc.w
	res.obs.mu.Lock()
	defer res.obs.mu.Unlock()
	seenV := map[int]*big.Int{} // element register -> observed integer
	bad := func(sig string, si slotInfo, format string, a ...any) {
		out = append(out, finding{sig: sig + "/" + p.ops[si.opIdx].K, detail: fmt.Sprintf("[%s] op %d %s: ", where, si.opIdx, p.ops[si.opIdx].String()) + fmt.Sprintf(format, a...)})
	}
	for slot, si := range res.rec.slots {
		vals, ok := res.obs.slots[slot]
		if !ok {
			r.Count("slots.not-reached", 1)
			continue
		}
		r.Count("slots.checked."+si.kind, 1)
		switch si.kind {
		case "elem", "sqrt":
			m := p.mir[si.reg]
			V := joinLimbs(vals, w)
			seenV[si.reg] = V
			for li, l := range vals {
				if uint(l.BitLen()) > w+si.overflow {
					bad("limb-wider-than-tracked-overflow", si, "limb %d has %d bits, tracked bound is %d+%d", li, l.BitLen(), w, si.overflow)
					break
				}
			}
			if si.kind == "sqrt" {
				arg := p.mir[p.ops[si.opIdx].A[0]]
				sq := new(big.Int).Mul(V, V)
				if sq.Mod(sq, mod).Cmp(arg.val) != 0 {
					bad("incongruent-result", si, "root %s squared is %s, operand is %s (mod %s)", V, sq, arg.val, mod)
				}
				continue
			}
			if new(big.Int).Mod(V, mod).Cmp(m.val) != 0 {
				bad("incongruent-result", si, "limbs %v recompose to %s = %s mod q, mirror says %s", vals, V, new(big.Int).Mod(V, mod), m.val)
				continue
			}
			if m.exact != nil && V.Cmp(m.exact) != 0 {
				bad("representation-not-as-documented", si, "integer value %s, documented value %s", V, m.exact)
			}
			if m.std && p.vmod == nil && si.nLimbs == 0 && V.Sign() == 0 {
				r.Count("shape.zero-limb-fast-path", 1) // documented: an operand on zero limbs gives the zero-limb zero
			} else if m.std && p.vmod == nil {
				if si.nLimbs != p.fc.nbLimbs || si.overflow != 0 {
					bad("result-shape", si, "result has %d limbs, overflow %d; documented: default number of limbs (%d) and zero overflow", si.nLimbs, si.overflow, p.fc.nbLimbs)
				}
				if V.BitLen() > p.fc.mod.BitLen() {
					bad("result-wider-than-modulus", si, "value %s has %d bits", V, V.BitLen())
				}
			}
		case "bits":
			bm := p.bmir[si.reg]
			Bv := new(big.Int)
			nonbool := false
			for i, b := range vals {
				if b.Sign() != 0 && b.Cmp(big.NewInt(1)) != 0 {
					nonbool = true
					break
				}
				if b.Sign() != 0 {
					Bv.SetBit(Bv, i, 1)
				}
			}
			if nonbool {
				bad("bit-not-boolean", si, "bits %v", vals)
				continue
			}
			if new(big.Int).Mod(Bv, mod).Cmp(bm.val) != 0 {
				bad("incongruent-result", si, "bits encode %s, mirror residue %s", Bv, bm.val)
				continue
			}
			if bm.exact != nil && Bv.Cmp(bm.exact) != 0 {
				bad("bits-not-of-documented-representative", si, "bits encode %s, documented %s", Bv, bm.exact)
			}
			if bm.canon && len(vals) != bm.n {
				bad("bit-count", si, "%d bits, canonical width %d", len(vals), bm.n)
			}
			if V, ok := seenV[p.ops[si.opIdx].A[0]]; ok && !bm.canon && Bv.Cmp(V) != 0 {
				bad("bits-differ-from-limbs", si, "bits encode %s, operand limbs recompose to %s", Bv, V)
			}
			if !bm.canon {
				if len(vals) == si.argNL*int(w)+int(si.argOf) {
					r.Count("tobits.count=limbs*w+overflow", 1)
				} else {
					r.Count("tobits.count-other(constant/short operand)", 1)
				}
			}
		case "bool":
			if vals[0].Cmp(p.nmir[si.reg]) != 0 {
				bad("wrong-boolean", si, "got %s, mirror %s", vals[0], p.nmir[si.reg])
			}
		}
	}
	return out
}

// judge applies the oracle to one execution and records everything.
func judge(r *vcore.Run, p *program, res execResult, where string, replay func() any) {
	var fs []finding
	if p.negative == "" { // falsified variants share the honest run's intermediate values
		fs = checkSlots(r, p, res, where)
	}
	for _, f := range fs {
		r.Count("VIOLATION."+f.sig, 1)
		r.Violation(f.sig, f.detail, replay())
	}
	if res.rec != nil {
		for k, n := range res.rec.autoReduce {
			r.Count("autoreduce."+k, n)
		}
		for k, n := range res.rec.fallbacks {
			r.Count("fallback."+k, n)
		}
	}
	harnessErr := res.err != nil && strings.Contains(res.err.Error(), "harness:")
	if harnessErr {
		r.Inconclusive("harness-error")
		r.Count("harness-error:"+short(res.err), 1)
		return
	}
	if p.negative == "" && res.err != nil && (strings.Contains(res.err.Error(), "runtime error:") || strings.Contains(res.err.Error(), "trying to reduce a constant")) && !strings.Contains(res.err.Error(), "solve panic") {
		// a Go runtime panic while the circuit is being defined: no constraint system / no result exists,
		// so nothing can be incongruent: robustness observation, not a violation of C12
		c := runtimeCulprit(res.err)
		r.Count("robustness.define-panics."+where+":"+c, 1)
		r.SampleClass("robustness:define-panic:"+c, map[string]any{"engine": where, "error": short(res.err), "program": firstLines(p.Text(), 80)})
		return
	}
	if p.negative == "" {
		if res.err != nil {
			r.Count("honest.REJECTED."+where, 1)
			if len(fs) == 0 { // not already explained by a wrong intermediate value
				r.Violation("honest-chain-rejected/"+culprit(res.err), fmt.Sprintf("[%s] a chain whose every operation is inside the documented domain was rejected: %s", where, short(res.err)), replay())
			}
		} else {
			r.Count("honest.accepted."+where, 1)
		}
		return
	}
	if res.err == nil {
		r.Count("negative.ACCEPTED."+where, 1)
		kind := p.negative
		if i := strings.IndexAny(kind, "( "); i > 0 {
			kind = kind[:i]
		}
		r.Violation("accepted-false-assertion/"+kind, fmt.Sprintf("[%s] false assertion accepted: %s", where, p.negative), replay())
	} else {
		r.Count("negative.rejected."+where, 1)
	}
}

// runtimeCulprit names the emulated-package function in which a runtime panic surfaced.
func runtimeCulprit(err error) string {
	s := err.Error()
	kind := "runtime-error"
	if strings.Contains(s, "trying to reduce a constant") {
		return "reduce-of-constant-with-overflow"
	}
	if strings.Contains(s, "nil pointer") {
		kind = "nil-pointer"
	} else if strings.Contains(s, "index out of range") {
		kind = "index-out-of-range"
	}
	for _, fn := range []string{"Inverse", "Sqrt", "Div", "Lookup2", "Mux", "IsZero", "Select", "Exp", "ToBits", "FromBits", "Sum", "Eval"} {
		if strings.Contains(s, "emulated.(*Field[...])."+fn+"\n") {
			return kind + "/" + fn
		}
	}
	return kind
}

// culprit names the library function at the top of a panic / error, for a stable signature.
func culprit(err error) string {
	s := err.Error()
	for _, k := range []string{"decompose quo", "decompose rem", "assertIsEqual", "no modular inverse", "no square root", "index out of range", "nil pointer", "constraint #", "mark boolean", "lookup", "not satisfied"} {
		if strings.Contains(s, k) {
			return strings.ReplaceAll(k, " ", "-")
		}
	}
	return "other"
}

// usesOf counts the operand positions that read element register reg.
func usesOf(p *program, reg int) int {
	n := 0
	for _, o := range p.ops {
		for _, a := range o.A {
			if a == reg {
				n++
			}
		}
	}
	return n
}

func replayOf(p *program, extra map[string]any) func() any {
	return func() any {
		m := map[string]any{"program": p.Text()}
		for k, v := range extra {
			m[k] = v
		}
		return m
	}
}

// mutateExpected returns a copy of p in which one of the trailing expected
// witnesses is off by a non-multiple of the modulus (same circuit, false statement).
func mutateExpected(rng *rand.Rand, p *program) *program {
	q := p.clone()
	// trailing AssertIsEqual ops compare with fresh witnesses
	var cands []int
	for i := len(p.ops) - 1; i >= 0 && len(cands) < 3; i-- {
		o := p.ops[i]
		if o.K == "AssertIsEqual" || o.K == "ModAssertIsEqual" {
			if in := p.mir[o.A[1]].input; in >= 0 && !(p.vmodReg >= 0 && o.A[1] == p.vmodReg) && usesOf(p, o.A[1]) == 1 {
				cands = append(cands, in)
			}
		}
	}
	if len(cands) == 0 {
		return nil
	}
	in := cands[rng.IntN(len(cands))]
	mod := p.modOf()
	capv := new(big.Int).Lsh(big.NewInt(1), uint(p.fc.mod.BitLen()))
	for try := 0; try < 20; try++ {
		var d *big.Int
		switch rng.IntN(3) {
		case 0:
			d = big.NewInt(1)
		case 1:
			d = big.NewInt(-1)
		default:
			d = randBelow(rng, mod)
		}
		v := new(big.Int).Add(p.inEVal[in], d)
		if v.Sign() < 0 || v.Cmp(capv) >= 0 || new(big.Int).Mod(d, mod).Sign() == 0 {
			continue
		}
		q.inEVal[in] = v
		q.negative = fmt.Sprintf("AssertIsEqual expected-witness[%d] %s -> %s", in, p.inEVal[in], v)
		return q
	}
	return nil
}
