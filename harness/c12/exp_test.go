//go:build verif

package c12

import (
	"crypto/sha256"
	"fmt"
	"math/big"
	"testing"

	"github.com/consensys/gnark-crypto/ecc"
	"github.com/consensys/gnark/constraint/solver"
	"github.com/consensys/gnark/frontend"
	"github.com/consensys/gnark/backend"
	"github.com/consensys/gnark/backend/groth16"
	"github.com/consensys/gnark/backend/plonk"
	"github.com/consensys/gnark/frontend/cs/scs"
	"github.com/consensys/gnark/test/unsafekzg"
	fcs "github.com/consensys/gnark/frontend/cs"
	"github.com/consensys/gnark/frontend/cs/r1cs"
	"github.com/consensys/gnark/std/math/emulated"
)

type expCircuit struct {
	A, B emulated.Element[emulated.Secp256k1Fp]
	E emulated.Element[emulated.Secp256k1Fp] `gnark:",public"`
}

func (c *expCircuit) Define(api frontend.API) error {
	f, err := emulated.NewField[emulated.Secp256k1Fp](api)
	if err != nil {
		return err
	}
	r := f.Mul(&c.A, &c.B)
	f.AssertIsEqual(r, &c.E)
	return nil
}

func recompose(l []*big.Int, w uint) *big.Int {
	r := new(big.Int)
	for i := len(l) - 1; i >= 0; i-- {
		r.Lsh(r, w)
		r.Add(r, l[i])
	}
	return r
}
func decompose(v *big.Int, w uint, n int) []*big.Int {
	out := make([]*big.Int, n)
	t := new(big.Int).Set(v)
	mask := new(big.Int).Sub(new(big.Int).Lsh(big.NewInt(1), w), big.NewInt(1))
	for i := 0; i < n; i++ {
		out[i] = new(big.Int).And(t, mask)
		t.Rsh(t, w)
	}
	if t.Sign() != 0 {
		return nil
	}
	return out
}

func TestExp(t *testing.T) {
	q := ecc.BN254.ScalarField()
	ccs, err := frontend.Compile(q, r1cs.NewBuilder, &expCircuit{})
	if err != nil {
		t.Fatal(err)
	}
	var hints []solver.Hint
	for _, h := range emulated.GetHints() {
		hints = append(hints, h)
	}
	var mulHint solver.Hint
	for _, h := range hints {
		if solver.GetHintName(h) == "github.com/consensys/gnark/std/math/emulated.mulHint" {
			mulHint = h
		}
	}
	if mulHint == nil {
		t.Fatal("no mulHint")
	}
	p := emulated.Secp256k1Fp{}.Modulus()
	a := new(big.Int).Sub(p, big.NewInt(12345))
	b := new(big.Int).Sub(p, big.NewInt(99999))
	r := new(big.Int).Mul(a, b)
	r.Mod(r, p)
	rp := new(big.Int).Add(r, big.NewInt(1))
	ncall := 0
	lie := func(mod *big.Int, in, out []*big.Int) error {
		if err := mulHint(mod, in, out); err != nil {
			return err
		}
		ncall++
		nbBits := uint(in[0].Int64())
		nbLimbs := int(in[1].Int64())
		nbA := int(in[2].Int64())
		nbQ := int(in[3].Int64())
		nbB := len(in) - 4 - nbLimbs - nbA
		if nbB == 1 { // the checkZero call
			return nil
		}
		pl := in[4 : 4+nbLimbs]
		al := in[4+nbLimbs : 4+nbLimbs+nbA]
		bl := in[4+nbLimbs+nbA:]
		pp := recompose(pl, nbBits)
		aa := recompose(al, nbBits)
		bb := recompose(bl, nbBits)
		rr := recompose(out[nbQ:nbQ+nbLimbs], nbBits)
		// r' = r+1; k' = (ab - r') / p mod q
		r2 := new(big.Int).Add(rr, big.NewInt(1))
		k2 := new(big.Int).Mul(aa, bb)
		k2.Sub(k2, r2)
		k2.Mul(k2, new(big.Int).ModInverse(pp, mod))
		k2.Mod(k2, mod)
		kl := decompose(k2, nbBits, nbQ)
		if kl == nil {
			return fmt.Errorf("k' does not fit")
		}
		rl := decompose(r2, nbBits, nbLimbs)
		nbC := len(out) - nbQ - nbLimbs
		N := nbC + 1
		L := make([]*big.Int, N)
		for i := range L {
			L[i] = new(big.Int)
		}
		for i := range al {
			for j := range bl {
				L[i+j].Add(L[i+j], new(big.Int).Mul(al[i], bl[j]))
			}
		}
		for i := range rl {
			L[i].Sub(L[i], rl[i])
		}
		for i := range kl {
			for j := range pl {
				L[i+j].Sub(L[i+j], new(big.Int).Mul(kl[i], pl[j]))
			}
		}
		inv := new(big.Int).ModInverse(new(big.Int).Lsh(big.NewInt(1), nbBits), mod)
		c := new(big.Int)
		cl := make([]*big.Int, nbC)
		for i := 0; i < nbC; i++ {
			c.Add(c, L[i])
			c.Mul(c, inv)
			c.Mod(c, mod)
			cl[i] = new(big.Int).Set(c)
		}
		chk := new(big.Int).Add(c, L[N-1])
		chk.Mod(chk, mod)
		fmt.Println("final check (0 expected):", chk, "nbQ", nbQ, "nbC", nbC)
		for i := range kl {
			out[i].Set(kl[i])
		}
		for i := range rl {
			out[nbQ+i].Set(rl[i])
		}
		for i := range cl {
			out[nbQ+nbLimbs+i].Set(cl[i])
		}
		return nil
	}
	commit := func(mod *big.Int, in, out []*big.Int) error {
		h := sha256.New()
		for _, v := range in {
			h.Write(v.Bytes())
			h.Write([]byte{0xff})
		}
		out[0].SetBytes(h.Sum(nil))
		out[0].Mod(out[0], mod)
		return nil
	}
	for _, exp := range []*big.Int{r, rp} {
		for _, useLie := range []bool{false, true} {
			w, err := frontend.NewWitness(&expCircuit{A: emulated.ValueOf[emulated.Secp256k1Fp](a), B: emulated.ValueOf[emulated.Secp256k1Fp](b), E: emulated.ValueOf[emulated.Secp256k1Fp](exp)}, q)
			if err != nil {
				t.Fatal(err)
			}
			opts := []solver.Option{solver.OverrideHint(solver.GetHintID(fcs.Bsb22CommitmentComputePlaceholder), commit)}
			if useLie {
				opts = append(opts, solver.OverrideHint(solver.GetHintID(mulHint), lie))
			}
			_, err = ccs.Solve(w, opts...)
			if useLie {
				pk, vk, _ := groth16.Setup(ccs)
				proof, perr := groth16.Prove(ccs, pk, w, backend.WithSolverOptions(opts[1]))
				if perr == nil {
					pw, _ := w.Public()
					fmt.Println("groth16 verify:", groth16.Verify(proof, vk, pw))
				} else {
					fmt.Println("groth16 prove err:", perr)
				}
				ccs2, _ := frontend.Compile(q, scs.NewBuilder, &expCircuit{})
				srs, srsl, _ := unsafekzg.NewSRS(ccs2)
				ppk, pvk, _ := plonk.Setup(ccs2, srs, srsl)
				pproof, perr := plonk.Prove(ccs2, ppk, w, backend.WithSolverOptions(opts[1]))
				if perr == nil {
					pw, _ := w.Public()
					fmt.Println("plonk verify:", plonk.Verify(pproof, pvk, pw))
				} else {
					fmt.Println("plonk prove err:", perr)
				}
			}
			fmt.Printf("expected=true+%v lie=%v -> err=%v (calls %d)\n", exp.Cmp(r) != 0, useLie, err, ncall)
		}
	}
}
