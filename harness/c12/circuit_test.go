//go:build verif

package c12

import (
	"crypto/sha256"
	"fmt"
	"math/big"
	"reflect"
	"sync"
	"sync/atomic"

	"github.com/consensys/gnark/constraint/solver"
	"github.com/consensys/gnark/frontend"
	fcs "github.com/consensys/gnark/frontend/cs"
	"github.com/consensys/gnark/std/math/emulated"
)

// ---------------- observer hint ----------------
//
// observeHint does not compute anything: it is a tap.  The circuit passes
// (runID, slot, values...) and the harness reads the concrete values the
// execution engine (test engine or compiled solver) assigned to the limbs /
// bits of every intermediate result.

type obsRun struct {
	mu    sync.Mutex
	slots map[int][]*big.Int
}

var (
	obsStore  sync.Map // int64 -> *obsRun
	runIDNext atomic.Int64
)

func newObsRun() (int64, *obsRun) {
	id := runIDNext.Add(1)
	o := &obsRun{slots: map[int][]*big.Int{}}
	obsStore.Store(id, o)
	return id, o
}

func observeHint(_ *big.Int, in, out []*big.Int) error {
	out[0].SetUint64(0)
	if len(in) < 2 || !in[0].IsInt64() {
		return nil
	}
	v, ok := obsStore.Load(in[0].Int64())
	if !ok {
		return nil
	}
	o := v.(*obsRun)
	vals := make([]*big.Int, len(in)-2)
	for i := range vals {
		vals[i] = new(big.Int).Set(in[2+i])
	}
	o.mu.Lock()
	o.slots[int(in[1].Int64())] = vals
	o.mu.Unlock()
	return nil
}

func init() { solver.RegisterHint(observeHint) }

// commitment = hash of the committed values (DESIGN §2.4): a lie about
// committed data moves the challenge, as with the real provers.
func commitHashHint(mod *big.Int, in, out []*big.Int) error {
	h := sha256.New()
	for _, v := range in {
		var buf [8]byte
		b := v.Bytes()
		buf[0] = byte(len(b))
		h.Write(buf[:1])
		h.Write(b)
	}
	s := h.Sum(nil)
	h.Write([]byte{1})
	s = append(s, h.Sum(nil)...)
	out[0].SetBytes(s)
	out[0].Mod(out[0], mod)
	if out[0].Sign() == 0 {
		out[0].SetUint64(1)
	}
	return nil
}

func commitOverride() solver.Option {
	return solver.OverrideHint(solver.GetHintID(fcs.Bsb22CommitmentComputePlaceholder), commitHashHint)
}

// ---------------- what Define records ----------------

type slotInfo struct {
	opIdx    int
	kind     string // elem | sqrt | bits | bool
	reg      int
	overflow uint
	nLimbs   int
	argOf    uint // ToBits: operand overflow / limbs
	argNL    int
}

type defRecord struct {
	slots       []slotInfo
	maxOverflow uint
	autoReduce  map[string]int
	fallbacks   map[string]int
	nativeBits  int
}

func overflowOf(e any) uint {
	return uint(reflect.ValueOf(e).Elem().FieldByName("overflow").Uint())
}

type chainCircuit[T emulated.FieldParams] struct {
	In    []emulated.Element[T]
	Nat   []frontend.Variable
	RunID frontend.Variable
	prog  *program
	rec   *defRecord
}

func (c *chainCircuit[T]) Define(api frontend.API) error {
	f, err := emulated.NewField[T](api)
	if err != nil {
		return err
	}
	p := c.prog
	rec := c.rec
	*rec = defRecord{autoReduce: map[string]int{}, fallbacks: map[string]int{}, nativeBits: api.Compiler().FieldBitLen()}
	E := make([]*emulated.Element[T], p.nE)
	N := make([]frontend.Variable, p.nN)
	B := make([][]frontend.Variable, p.nB)
	for i, r := range p.inE {
		E[r] = &c.In[i]
	}
	for i, r := range p.inN {
		N[r] = c.Nat[i]
	}
	w := p.fc.w
	tap := func(si slotInfo, vals []frontend.Variable) error {
		slot := len(rec.slots)
		rec.slots = append(rec.slots, si)
		in := append([]frontend.Variable{c.RunID, slot}, vals...)
		_, err := api.Compiler().NewHint(observeHint, 1, in...)
		return err
	}
	for i, o := range p.ops {
		var out *emulated.Element[T]
		a := func(k int) *emulated.Element[T] { return E[o.A[k]] }
		switch o.K {
		case "Add":
			out = f.Add(a(0), a(1))
			if overflowOf(out) < max(overflowOf(a(0)), overflowOf(a(1)))+1 && len(out.Limbs) > 0 {
				rec.autoReduce["Add"]++
			}
		case "Sub":
			out = f.Sub(a(0), a(1))
			if overflowOf(out) < max(overflowOf(a(1))+1, overflowOf(a(0)))+1 {
				rec.autoReduce["Sub"]++
			}
		case "Neg":
			out = f.Neg(a(0))
		case "Mul":
			out = f.Mul(a(0), a(1))
		case "MulMod":
			out = f.MulMod(a(0), a(1))
		case "MulNoReduce":
			out = f.MulNoReduce(a(0), a(1))
			if len(out.Limbs) > 0 && overflowOf(out) < w+overflowOf(a(0))+overflowOf(a(1)) {
				rec.autoReduce["MulNoReduce"]++
			}
		case "MulConst":
			out = f.MulConst(a(0), new(big.Int).Set(o.C))
			if len(out.Limbs) > 0 && overflowOf(out) < overflowOf(a(0))+uint(o.C.BitLen()) {
				rec.autoReduce["MulConst"]++
			}
		case "Reduce":
			out = f.Reduce(a(0))
		case "ReduceStrict":
			out = f.ReduceStrict(a(0))
		case "Sum":
			args := make([]*emulated.Element[T], len(o.A))
			for k := range o.A {
				args[k] = a(k)
			}
			out = f.Sum(args...)
		case "Select":
			out = f.Select(N[o.N[0]], a(0), a(1))
		case "Lookup2":
			out = f.Lookup2(N[o.N[0]], N[o.N[1]], a(0), a(1), a(2), a(3))
		case "Mux":
			args := make([]*emulated.Element[T], len(o.A))
			for k := range o.A {
				args[k] = a(k)
			}
			out = f.Mux(N[o.N[0]], args...)
		case "Const":
			out = f.NewElement(new(big.Int).Set(o.C))
		case "Zero":
			out = f.Zero()
		case "One":
			out = f.One()
		case "Modulus":
			out = f.Modulus()
		case "NewElementLimbs":
			l := make([]frontend.Variable, len(o.N))
			for k := range o.N {
				l[k] = N[o.N[k]]
			}
			out = f.NewElement(l)
		case "Div":
			out = f.Div(a(0), a(1))
		case "Inverse":
			out = f.Inverse(a(0))
		case "Sqrt":
			out = f.Sqrt(a(0))
		case "Exp":
			out = f.Exp(a(0), a(1))
		case "Eval":
			terms := make([][]*emulated.Element[T], len(o.Terms))
			for ti, t := range o.Terms {
				for _, pos := range t {
					terms[ti] = append(terms[ti], a(pos))
				}
			}
			out = f.Eval(terms, o.Coefs)
		case "ToBits", "ToBitsCanonical":
			var bts []frontend.Variable
			if o.K == "ToBits" {
				bts = f.ToBits(a(0))
			} else {
				bts = f.ToBitsCanonical(a(0))
			}
			B[o.BOut] = bts
			if err := tap(slotInfo{opIdx: i, kind: "bits", reg: o.BOut, argOf: overflowOf(a(0)), argNL: len(a(0).Limbs)}, bts); err != nil {
				return err
			}
		case "FromBits":
			bts := B[o.B]
			if o.Bn >= 0 {
				if o.Bn > len(bts) {
					return fmt.Errorf("harness: B%d has %d bits, %d wanted", o.B, len(bts), o.Bn)
				}
				bts = bts[:o.Bn]
			}
			out = f.FromBits(bts...)
		case "IsZero":
			z := f.IsZero(a(0))
			N[o.NOut] = z
			if err := tap(slotInfo{opIdx: i, kind: "bool", reg: o.NOut}, []frontend.Variable{z}); err != nil {
				return err
			}
		case "AssertIsEqual":
			f.AssertIsEqual(a(0), a(1))
		case "AssertIsDifferent":
			f.AssertIsDifferent(a(0), a(1))
		case "AssertIsLessOrEqual":
			f.AssertIsLessOrEqual(a(0), a(1))
		case "AssertIsInRange":
			f.AssertIsInRange(a(0))
		case "ModMul":
			out = f.ModMul(a(0), a(1), a(2))
		case "ModAdd":
			out = f.ModAdd(a(0), a(1), a(2))
		case "ModExp":
			out = f.ModExp(a(0), a(1), a(2))
		case "ModAssertIsEqual":
			f.ModAssertIsEqual(a(0), a(1), a(2))
		default:
			return fmt.Errorf("harness: unknown op %s", o.K)
		}
		if o.Out >= 0 {
			if out == nil {
				return fmt.Errorf("harness: op %d (%s) produced no element", i, o.K)
			}
			of := overflowOf(out)
			if of > 0 && len(out.Limbs) > 0 && allConstant(api, out.Limbs) {
				// the builder folded every limb to a constant (x - x, a + b - a, ...) while the element keeps its
				// overflow; the chain continues with it (a later Reduce of it panics at compile time: robustness)
				rec.fallbacks["seen:constant-folded-element-with-overflow"]++
			}
			E[o.Out] = out
			if of > rec.maxOverflow {
				rec.maxOverflow = of
			}
			kind := "elem"
			if o.K == "Sqrt" {
				kind = "sqrt"
			}
			if err := tap(slotInfo{opIdx: i, kind: kind, reg: o.Out, overflow: of, nLimbs: len(out.Limbs)}, out.Limbs); err != nil {
				return err
			}
		}
	}
	return nil
}

func allConstant(api frontend.API, limbs []frontend.Variable) bool {
	for _, l := range limbs {
		if _, ok := api.Compiler().ConstantValue(l); !ok {
			return false
		}
	}
	return true
}

// assignment builds the witness for a program.
func (c *chainCircuit[T]) assignment(p *program, runID int64) *chainCircuit[T] {
	w := &chainCircuit[T]{In: make([]emulated.Element[T], len(p.inE)), Nat: make([]frontend.Variable, len(p.inN)), RunID: runID}
	for i, v := range p.inEVal {
		w.In[i] = rawElement[T](v)
	}
	for i, v := range p.inNVal {
		w.Nat[i] = new(big.Int).Set(v)
	}
	return w
}

// rawElement assigns limbs directly (ValueOf would reduce modulo the modulus).
func rawElement[T emulated.FieldParams](v *big.Int) emulated.Element[T] {
	var t T
	n := int(t.NbLimbs())
	l := splitLimbs(v, t.BitsPerLimb(), n)
	if l == nil {
		panic("harness: value does not fit the limbs")
	}
	e := emulated.Element[T]{Limbs: make([]frontend.Variable, n)}
	for i := range l {
		e.Limbs[i] = l[i]
	}
	return e
}

// rawElementLimbs assigns arbitrary limb values (used for width-violating witnesses).
func rawElementLimbs[T emulated.FieldParams](l []*big.Int) emulated.Element[T] {
	e := emulated.Element[T]{Limbs: make([]frontend.Variable, len(l))}
	for i := range l {
		e.Limbs[i] = new(big.Int).Set(l[i])
	}
	return e
}

func splitLimbs(v *big.Int, w uint, n int) []*big.Int {
	out := make([]*big.Int, n)
	t := new(big.Int).Set(v)
	mask := new(big.Int).Sub(new(big.Int).Lsh(big.NewInt(1), w), big.NewInt(1))
	for i := 0; i < n; i++ {
		out[i] = new(big.Int).And(t, mask)
		t.Rsh(t, w)
	}
	if t.Sign() != 0 {
		return nil
	}
	return out
}

func joinLimbs(l []*big.Int, w uint) *big.Int {
	r := new(big.Int)
	for i := len(l) - 1; i >= 0; i-- {
		r.Lsh(r, w)
		r.Add(r, l[i])
	}
	return r
}
