//go:build verif

package c12

import (
	"fmt"
	"math/big"
	"sync"
	"sync/atomic"

	"github.com/consensys/gnark/constraint/solver"
	"github.com/consensys/gnark/std/math/emulated"
)

// The hint functions of std/math/emulated, by (unexported) name.
var (
	hMul, hPolyMv, hSubPad solver.Hint
	hDiv                   = solver.Hint(emulated.DivHint)
	hInv                   = solver.Hint(emulated.InverseHint)
	hSqrt                  = solver.Hint(emulated.SqrtHint)
)

func init() {
	for _, h := range emulated.GetHints() {
		switch solver.GetHintName(h) {
		case "github.com/consensys/gnark/std/math/emulated.mulHint":
			hMul = h
		case "github.com/consensys/gnark/std/math/emulated.polyMvHint":
			hPolyMv = h
		case "github.com/consensys/gnark/std/math/emulated.subPaddingHint":
			hSubPad = h
		}
	}
}

// mulCall is one call of mulHint / polyMvHint as the solver made it: the layout
// is the documented one of callMulHint / callPolyMvHint.
type mulCall struct {
	mv      bool
	w       uint
	nbLimbs int
	nbQ     int
	nbC     int
	pl      []*big.Int // modulus limbs (fixed or variable modulus)
	al, bl  []*big.Int // mulHint only
	lhs     []*big.Int // integer coefficients of the left-hand polynomial
	k, r, c []*big.Int // honest outputs
}

func cloneInts(v []*big.Int) []*big.Int {
	o := make([]*big.Int, len(v))
	for i := range v {
		o[i] = new(big.Int).Set(v[i])
	}
	return o
}

func polyMul(a, b []*big.Int) []*big.Int {
	if len(a) == 0 || len(b) == 0 {
		return nil
	}
	res := make([]*big.Int, len(a)+len(b)-1)
	for i := range res {
		res[i] = new(big.Int)
	}
	for i := range a {
		for j := range b {
			res[i+j].Add(res[i+j], new(big.Int).Mul(a[i], b[j]))
		}
	}
	return res
}

func parseMulCall(in, out []*big.Int) *mulCall {
	c := &mulCall{w: uint(in[0].Int64()), nbLimbs: int(in[1].Int64())}
	nbA := int(in[2].Int64())
	c.nbQ = int(in[3].Int64())
	ptr := 4
	c.pl = cloneInts(in[ptr : ptr+c.nbLimbs])
	ptr += c.nbLimbs
	c.al = cloneInts(in[ptr : ptr+nbA])
	ptr += nbA
	c.bl = cloneInts(in[ptr:])
	c.nbC = len(out) - c.nbQ - c.nbLimbs
	c.lhs = polyMul(c.al, c.bl)
	c.k = cloneInts(out[:c.nbQ])
	c.r = cloneInts(out[c.nbQ : c.nbQ+c.nbLimbs])
	c.c = cloneInts(out[c.nbQ+c.nbLimbs:])
	return c
}

func parseMvCall(in, out []*big.Int) *mulCall {
	c := &mulCall{mv: true, w: uint(in[0].Int64()), nbLimbs: int(in[1].Int64())}
	nbTerms := int(in[2].Int64())
	nbVars := int(in[3].Int64())
	c.nbQ = int(in[4].Int64())
	c.nbC = int(in[5].Int64())
	ptr := 6
	terms := make([][]int, nbTerms)
	for i := range terms {
		terms[i] = make([]int, nbVars)
		for j := range terms[i] {
			terms[i][j] = int(in[ptr].Int64())
			ptr++
		}
	}
	coefs := cloneInts(in[ptr : ptr+nbTerms])
	ptr += nbTerms
	c.pl = cloneInts(in[ptr : ptr+c.nbLimbs])
	ptr += c.nbLimbs
	vars := make([][]*big.Int, nbVars)
	for i := range vars {
		n := int(in[ptr].Int64())
		ptr++
		vars[i] = cloneInts(in[ptr : ptr+n])
		ptr += n
	}
	for i, t := range terms {
		prod := []*big.Int{new(big.Int).Set(coefs[i])}
		for v, pow := range t {
			for j := 0; j < pow; j++ {
				prod = polyMul(prod, vars[v])
			}
		}
		for len(c.lhs) < len(prod) {
			c.lhs = append(c.lhs, new(big.Int))
		}
		for j := range prod {
			c.lhs[j].Add(c.lhs[j], prod[j])
		}
	}
	c.k = cloneInts(out[:c.nbQ])
	c.r = cloneInts(out[c.nbQ : c.nbQ+c.nbLimbs])
	c.c = cloneInts(out[c.nbQ+c.nbLimbs:])
	return c
}

func (c *mulCall) P() *big.Int   { return joinLimbs(c.pl, c.w) }
func (c *mulCall) LHS() *big.Int { return joinLimbs(c.lhs, c.w) }
func (c *mulCall) A() *big.Int   { return joinLimbs(c.al, c.w) }
func (c *mulCall) Bv() *big.Int  { return joinLimbs(c.bl, c.w) }
func (c *mulCall) R() *big.Int   { return joinLimbs(c.r, c.w) }
func (c *mulCall) K() *big.Int   { return joinLimbs(c.k, c.w) }

// diffCoefs returns lhs - r - k*p coefficient-wise over the integers.
func (c *mulCall) diffCoefs(k, r []*big.Int) []*big.Int {
	kp := polyMul(k, c.pl)
	n := max(len(c.lhs), len(kp), len(r), c.nbC+1)
	L := make([]*big.Int, n)
	for i := range L {
		L[i] = new(big.Int)
		if i < len(c.lhs) {
			L[i].Add(L[i], c.lhs[i])
		}
		if i < len(r) {
			L[i].Sub(L[i], r[i])
		}
		if i < len(kp) {
			L[i].Sub(L[i], kp[i])
		}
	}
	return L
}

// solvedCarries solves (2^w - X) c(X) = lhs(X) - r(X) - k(X)p(X) for c over the
// native field, bottom-up.  exact reports whether the top coefficient also
// matches, i.e. whether the polynomial identity holds identically.
func (c *mulCall) solvedCarries(k, r []*big.Int, q *big.Int) (cc []*big.Int, exact bool) {
	L := c.diffCoefs(k, r)
	inv := new(big.Int).ModInverse(new(big.Int).Lsh(big.NewInt(1), c.w), q)
	carry := new(big.Int)
	cc = make([]*big.Int, c.nbC)
	for i := 0; i < c.nbC; i++ {
		carry.Add(carry, L[i])
		carry.Mul(carry, inv)
		carry.Mod(carry, q)
		cc[i] = new(big.Int).Set(carry)
	}
	exact = true
	for i := c.nbC; i < len(L); i++ {
		t := new(big.Int).Set(L[i])
		if i == c.nbC {
			t.Add(t, carry)
		}
		if t.Mod(t, q).Sign() != 0 {
			exact = false
		}
	}
	return
}

// integerCarries recomputes the carries the way an honest prover would for (k, r).
func (c *mulCall) integerCarries(k, r []*big.Int, q *big.Int) []*big.Int {
	L := c.diffCoefs(k, r)
	carry := new(big.Int)
	cc := make([]*big.Int, c.nbC)
	for i := 0; i < c.nbC; i++ {
		carry.Add(carry, L[i])
		carry.Rsh(carry, c.w)
		cc[i] = new(big.Int).Mod(carry, q)
	}
	return cc
}

// oversizeLimbs writes v on n limbs of width w, leaving whatever does not fit in
// the top limb (so the limbs still recompose to v).
func oversizeLimbs(v *big.Int, w uint, n int) []*big.Int {
	out := make([]*big.Int, n)
	t := new(big.Int).Set(v)
	mask := new(big.Int).Sub(new(big.Int).Lsh(big.NewInt(1), w), big.NewInt(1))
	for i := 0; i < n; i++ {
		if i == n-1 {
			out[i] = new(big.Int).Set(t)
		} else {
			out[i] = new(big.Int).And(t, mask)
			t.Rsh(t, w)
		}
	}
	return out
}

// a lie about one class of hint calls
type mulLie struct {
	name  string
	match func(c *mulCall) bool
	// build returns replacement (k, r, c); ok=false leaves the call honest.
	build func(c *mulCall, q *big.Int) (k, r, cc []*big.Int, ok bool)
}

type lieStats struct {
	intercepted atomic.Int64
	applied     atomic.Int64
	mu          sync.Mutex
	notes       []string
}

func (s *lieStats) note(format string, a ...any) {
	s.mu.Lock()
	if len(s.notes) < 6 {
		s.notes = append(s.notes, fmt.Sprintf(format, a...))
	}
	s.mu.Unlock()
}

// lyingMulHint wraps mulHint / polyMvHint: honest call first, then the first matching lie.
func lyingMulHint(honest solver.Hint, mv bool, lies []*mulLie, st *lieStats) solver.Hint {
	return func(q *big.Int, in, out []*big.Int) error {
		if err := honest(q, in, out); err != nil {
			return err
		}
		st.intercepted.Add(1)
		var c *mulCall
		if mv {
			c = parseMvCall(in, out)
		} else {
			c = parseMulCall(in, out)
		}
		for _, l := range lies {
			if l.match != nil && !l.match(c) {
				continue
			}
			k, r, cc, ok := l.build(c, q)
			if !ok {
				continue
			}
			st.applied.Add(1)
			if len(k) != c.nbQ || len(r) != c.nbLimbs || len(cc) != c.nbC {
				return fmt.Errorf("harness: lie %s produced wrong shape", l.name)
			}
			o := 0
			for _, part := range [][]*big.Int{k, r, cc} {
				for _, v := range part {
					out[o].Mod(v, q)
					o++
				}
			}
			break
		}
		return nil
	}
}

// ---- the strategies (DESIGN §3 C12) ----

// remDelta: remainder r+d, quotient kept; carries honest ("keep") or solved bottom-up.
func lieRemDelta(d int64, solve bool) func(c *mulCall, q *big.Int) ([]*big.Int, []*big.Int, []*big.Int, bool) {
	return func(c *mulCall, q *big.Int) ([]*big.Int, []*big.Int, []*big.Int, bool) {
		r2 := new(big.Int).Add(c.R(), big.NewInt(d))
		if r2.Sign() < 0 {
			return nil, nil, nil, false
		}
		rl := splitLimbs(r2, c.w, c.nbLimbs)
		if rl == nil {
			return nil, nil, nil, false
		}
		cc := c.c
		if solve {
			cc, _ = c.solvedCarries(c.k, rl, q)
		}
		return c.k, rl, cc, true
	}
}

// remPlusP: r+p with k-1 and integer-consistent carries (a *true* integer identity).
func lieRemPlusP(c *mulCall, q *big.Int) ([]*big.Int, []*big.Int, []*big.Int, bool) {
	k := c.K()
	if k.Sign() == 0 {
		return nil, nil, nil, false
	}
	r2 := new(big.Int).Add(c.R(), c.P())
	rl := splitLimbs(r2, c.w, c.nbLimbs)
	if rl == nil {
		return nil, nil, nil, false
	}
	kl := splitLimbs(new(big.Int).Sub(k, big.NewInt(1)), c.w, c.nbQ)
	return kl, rl, c.integerCarries(kl, rl, q), true
}

// remShiftNative: r +- q_native, quotient kept, carries solved over the native field.
func lieRemShiftNative(sign int) func(c *mulCall, q *big.Int) ([]*big.Int, []*big.Int, []*big.Int, bool) {
	return func(c *mulCall, q *big.Int) ([]*big.Int, []*big.Int, []*big.Int, bool) {
		r2 := new(big.Int).Set(c.R())
		if sign > 0 {
			r2.Add(r2, q)
		} else {
			r2.Sub(r2, q)
		}
		if r2.Sign() < 0 {
			return nil, nil, nil, false
		}
		rl := splitLimbs(r2, c.w, c.nbLimbs)
		if rl == nil {
			return nil, nil, nil, false
		}
		cc, _ := c.solvedCarries(c.k, rl, q)
		return c.k, rl, cc, true
	}
}

// quoShiftNative: k + q_native (when it fits), remainder kept, carries solved: congruent result.
func lieQuoShiftNative(c *mulCall, q *big.Int) ([]*big.Int, []*big.Int, []*big.Int, bool) {
	kl := splitLimbs(new(big.Int).Add(c.K(), q), c.w, c.nbQ)
	if kl == nil {
		return nil, nil, nil, false
	}
	cc, _ := c.solvedCarries(kl, c.r, q)
	return kl, c.r, cc, true
}

// nativeWrap: remainder := target (any width-valid value), quotient := (LHS -
// target) / p modulo the NATIVE field, carries solved over the native field so
// that the polynomial identity holds identically.  When the quotient does not
// fit its limbs, oversize decides: put the excess in the top limb (only the
// quotient's range check stands in the way) or give up.
func lieNativeWrap(target func(c *mulCall) *big.Int, oversize bool, fits *atomic.Int64) func(c *mulCall, q *big.Int) ([]*big.Int, []*big.Int, []*big.Int, bool) {
	return func(c *mulCall, q *big.Int) ([]*big.Int, []*big.Int, []*big.Int, bool) {
		t := target(c)
		if t == nil {
			return nil, nil, nil, false
		}
		rl := splitLimbs(t, c.w, c.nbLimbs)
		if rl == nil {
			return nil, nil, nil, false
		}
		pinv := new(big.Int).ModInverse(new(big.Int).Mod(c.P(), q), q)
		if pinv == nil || c.nbQ == 0 {
			return nil, nil, nil, false
		}
		k2 := new(big.Int).Sub(c.LHS(), t)
		k2.Mul(k2, pinv).Mod(k2, q)
		kl := splitLimbs(k2, c.w, c.nbQ)
		if kl == nil {
			if !oversize {
				return nil, nil, nil, false
			}
			kl = oversizeLimbs(k2, c.w, c.nbQ)
		} else {
			if oversize {
				return nil, nil, nil, false
			}
			if fits != nil {
				fits.Add(1)
			}
		}
		cc, exact := c.solvedCarries(kl, rl, q)
		if !exact {
			return nil, nil, nil, false
		}
		return kl, rl, cc, true
	}
}

// garbage: random field elements everywhere
func lieGarbage(seed uint64) func(c *mulCall, q *big.Int) ([]*big.Int, []*big.Int, []*big.Int, bool) {
	return func(c *mulCall, q *big.Int) ([]*big.Int, []*big.Int, []*big.Int, bool) {
		s := seed
		next := func(bits uint) *big.Int {
			s = s*6364136223846793005 + 1442695040888963407
			v := new(big.Int).SetUint64(s)
			v.Mul(v, v).Mul(v, v)
			return v.Mod(v, new(big.Int).Lsh(big.NewInt(1), bits))
		}
		k, r, cc := cloneInts(c.k), cloneInts(c.r), cloneInts(c.c)
		for i := range k {
			k[i] = next(c.w)
		}
		for i := range r {
			r[i] = next(c.w - 1)
		}
		for i := range cc {
			cc[i] = next(c.w + 8)
		}
		return k, r, cc, true
	}
}
