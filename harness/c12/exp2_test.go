//go:build verif

package c12

import (
	"fmt"
	"math/big"
	"testing"

	"github.com/consensys/gnark-crypto/ecc"
	"github.com/consensys/gnark/frontend"
	"github.com/consensys/gnark/frontend/cs/r1cs"
	"github.com/consensys/gnark/std/math/emulated"
	"github.com/consensys/gnark/test"
)

type exp2Circuit struct {
	A, B, E emulated.Element[emulated.Secp256k1Fp]
	S       frontend.Variable
	mode    int
}

func (c *exp2Circuit) Define(api frontend.API) error {
	f, err := emulated.NewField[emulated.Secp256k1Fp](api)
	if err != nil {
		return err
	}
	switch c.mode {
	case 0:
		r := f.MulConst(&c.A, big.NewInt(-3))
		f.AssertIsEqual(r, &c.E)
	case 6:
		r := f.MulConst(&c.A, big.NewInt(-3))
		r = f.Mul(r, &c.B)
		f.AssertIsEqual(r, &c.E)
	case 7:
		r := f.MulConst(&c.A, big.NewInt(-3))
		r = f.Reduce(r)
		f.AssertIsEqual(r, &c.E)
	case 8:
		r := f.MulConst(&c.A, big.NewInt(-3))
		r = f.Add(r, &c.B)
		bts := f.ToBitsCanonical(r)
		r = f.FromBits(bts...)
		f.AssertIsEqual(r, &c.E)
	case 1: // lookup2 with a = short constant
		r := f.Lookup2(c.S, 0, f.NewElement(5), &c.A, &c.B, &c.A)
		f.AssertIsEqual(r, &c.E)
	case 2: // mux with inputs[0] short
		r := f.Mux(c.S, f.NewElement(5), &c.A, &c.B, &c.A)
		f.AssertIsEqual(r, &c.E)
	case 3: // lookup2 with a = Zero()
		r := f.Lookup2(c.S, 0, f.Zero(), &c.A, &c.B, &c.A)
		f.AssertIsEqual(r, &c.E)
	case 4: // select with short
		r := f.Select(c.S, f.NewElement(5), &c.A)
		f.AssertIsEqual(r, &c.E)
	case 5: // lookup2 where a is long (MulNoReduce) and others short
		r := f.Lookup2(c.S, 0, &c.A, f.MulNoReduce(&c.A, &c.B), &c.B, &c.A)
		f.AssertIsEqual(r, &c.E)
	}
	return nil
}

func TestExp2(t *testing.T) {
	q := ecc.BN254.ScalarField()
	p := emulated.Secp256k1Fp{}.Modulus()
	a := new(big.Int).Sub(p, big.NewInt(12345))
	b := big.NewInt(777)
	type V = emulated.Element[emulated.Secp256k1Fp]
	val := emulated.ValueOf[emulated.Secp256k1Fp]
	run := func(mode int, s int, e *big.Int) {
		w := &exp2Circuit{A: val(a), B: val(b), E: val(e), S: s}
		err := test.IsSolved(&exp2Circuit{mode: mode}, w, q)
		es := "<nil>"
		if err != nil {
			es = err.Error()
			if len(es) > 200 {
				es = es[:200]
			}
		}
		fmt.Printf("mode %d sel %d engine: %s\n", mode, s, es)
		ccs, cerr := frontend.Compile(q, r1cs.NewBuilder, &exp2Circuit{mode: mode})
		if cerr != nil {
			ce := cerr.Error()
			if len(ce) > 300 {
				ce = ce[:300]
			}
			fmt.Printf("mode %d compile err: %s\n", mode, ce)
			return
		}
		wit, _ := frontend.NewWitness(w, q)
		_, serr := ccs.Solve(wit)
		fmt.Printf("mode %d sel %d solve: %v\n", mode, s, serr)
	}
	m3 := new(big.Int).Mul(a, big.NewInt(-3))
	m3.Mod(m3, p)
	run(0, 0, m3)
	m3b := new(big.Int).Mul(m3, b)
	m3b.Mod(m3b, p)
	run(6, 0, m3b)
	run(7, 0, m3)
	m3pb := new(big.Int).Add(m3, b)
	m3pb.Mod(m3pb, p)
	run(8, 0, m3pb)
	return
	run(1, 0, big.NewInt(5))
	run(1, 1, a)
	run(2, 0, big.NewInt(5))
	run(2, 1, a)
	run(3, 0, big.NewInt(0))
	run(3, 1, a)
	run(4, 1, big.NewInt(5))
	run(4, 0, a)
	ab := new(big.Int).Mul(a, b)
	ab.Mod(ab, p)
	run(5, 1, ab)
	run(5, 0, a)
}
