//go:build verif

package c12

import (
	"fmt"
	"math/big"
	"math/rand/v2"
	"sort"
	"strings"

	"github.com/consensys/gnark/backend/witness"
	"github.com/consensys/gnark/constraint"
	"github.com/consensys/gnark/constraint/solver"
	"github.com/consensys/gnark/frontend"
	"github.com/consensys/gnark/std/math/emulated"

	"github.com/consensys/gnark/verifharness/internal/vcore"
)

// Padding forgeries: the ONLY dishonest hint is subPaddingHint (mulHint stays
// honest, so the open carry finding plays no part in the lie itself).
//
// computeSubPaddingHint must force every padding limb to be at least the
// largest limb the subtrahend can have, 2^(w+overflow)-1.  The forged padding is
// a true multiple of the variable modulus (so its own zero check passes with
// honest hints) whose limbs all lie in a plausible range, but whose limb(s) at
// the attacked position(s) are only 2^(w+t)-1 with t < overflow; the witnesses
// have maximal limbs there, so the difference limb padding+E-X is negative and
// wraps the native field.  The honest mulHint then sees D + q*2^(w*i) and the
// equality holds for E = X - q*sum 2^(w*i) (mod M): an incongruent Expected.

const famPad = "padding-lower-bound-not-enforced"

type padCircuit[T emulated.FieldParams] struct {
	X       []emulated.Element[T]
	M       emulated.Element[T]
	E       emulated.Element[T] `gnark:",public"`
	variant string
}

func (c *padCircuit[T]) Define(api frontend.API) error {
	f, err := emulated.NewField[T](api)
	if err != nil {
		return err
	}
	var x *emulated.Element[T]
	switch c.variant {
	case "addeq": // X0 + X1 + ... (overflow len(X)-1), unreduced
		x = &c.X[0]
		for i := 1; i < len(c.X); i++ {
			x = f.ModAdd(x, &c.X[i], &c.M)
		}
	case "muladdeq": // X0 + X1*X2 + X3 + ...
		x = f.ModAdd(&c.X[0], f.ModMul(&c.X[1], &c.X[2], &c.M), &c.M)
		for i := 3; i < len(c.X); i++ {
			x = f.ModAdd(x, &c.X[i], &c.M)
		}
	default:
		return fmt.Errorf("harness: unknown padding circuit %s", c.variant)
	}
	f.ModAssertIsEqual(x, &c.E, &c.M)
	return nil
}

type padRunner interface {
	Compile(field *big.Int, builder, variant string, nX int) (constraint.ConstraintSystem, error)
	Witness(field *big.Int, X []*big.Int, M, E *big.Int) (witness.Witness, error)
}

type padRun[T emulated.FieldParams] struct{}

func (padRun[T]) Compile(field *big.Int, builder, variant string, nX int) (ccs constraint.ConstraintSystem, err error) {
	c := &padCircuit[T]{X: make([]emulated.Element[T], nX), variant: variant}
	if pan, stack := vcore.Catch(func() { ccs, err = frontend.Compile(field, builderOf(builder), c) }); pan != nil {
		return nil, fmt.Errorf("compile panic: %v\n%s", pan, stack)
	}
	return
}

func (padRun[T]) Witness(field *big.Int, X []*big.Int, M, E *big.Int) (witness.Witness, error) {
	w := &padCircuit[T]{X: make([]emulated.Element[T], len(X)), M: rawElement[T](M), E: rawElement[T](E)}
	for i := range X {
		w.X[i] = rawElement[T](X[i])
	}
	return frontend.NewWitness(w, field)
}

// forgePadding builds a multiple of M on n limbs: 2^(w+t)-1 at the positions in
// S, at least 2^(w+of) elsewhere (inside the honest range).  S is a single
// position or a prefix {0..m}; M must be odd.  nil when M is too wide for S.
func forgePadding(w uint, n int, of, t uint, S []int, M *big.Int) []*big.Int {
	inS := map[int]bool{}
	m := 0
	for _, i := range S {
		inS[i] = true
		m = max(m, i)
	}
	T := new(big.Int).Sub(new(big.Int).Lsh(big.NewInt(1), w+t), big.NewInt(1))
	L := new(big.Int).Lsh(big.NewInt(1), w+of)
	pad := make([]*big.Int, n)
	for i := range pad {
		if inS[i] {
			pad[i] = new(big.Int).Set(T)
		} else {
			pad[i] = new(big.Int).Set(L)
		}
	}
	R := new(big.Int).Neg(joinLimbs(pad, w))
	R.Mod(R, M)
	Y := new(big.Int).Set(R)
	lowFree := 0 // positions < lowFree must get a zero digit
	if m < n-1 {
		if M.Bit(0) == 0 {
			return nil
		}
		mod2 := new(big.Int).Lsh(big.NewInt(1), uint(m+1)*w)
		s := new(big.Int).ModInverse(M, mod2)
		s.Mul(s, new(big.Int).Neg(R)).Mod(s, mod2)
		Y.Add(Y, new(big.Int).Mul(s, M))
		lowFree = m + 1
	} else if len(S) > 1 {
		return nil
	}
	// spread Y over the free positions (base 2^w digits; the last free position takes the rest)
	y := new(big.Int).Rsh(Y, uint(lowFree)*w)
	mask := new(big.Int).Sub(new(big.Int).Lsh(big.NewInt(1), w), big.NewInt(1))
	last := n - 1
	if m == n-1 {
		last = n - 2
	}
	if last < lowFree {
		if y.Sign() != 0 {
			return nil
		}
	}
	for i := lowFree; i <= last; i++ {
		d := new(big.Int).And(y, mask)
		if i == last {
			d.Set(y)
			if d.BitLen() > int(w+of) { // keep inside the honest upper bound
				return nil
			}
		}
		pad[i].Add(pad[i], d)
		y.Rsh(y, w)
	}
	if new(big.Int).Mod(joinLimbs(pad, w), M).Sign() != 0 {
		return nil
	}
	return pad
}

type padScenario struct {
	name     string
	family   string
	X        []*big.Int
	M, E     *big.Int
	pad      []*big.Int // forged padding (nil: honest hint)
	mustFail bool
	benign   bool
	why      string
}

func limbMaxOf(fc *fieldCase, i int) *big.Int {
	wd := fc.w
	if i == fc.nbLimbs-1 {
		wd = fc.topWidth()
	}
	return new(big.Int).Sub(new(big.Int).Lsh(big.NewInt(1), wd), big.NewInt(1))
}

// padScenarios: one input set per attacked position set and per t.
func padScenarios(rng *rand.Rand, fc *fieldCase, q *big.Int, variant string, k int) []padScenario {
	w, n := fc.w, fc.nbLimbs
	nX := k + 1
	if variant == "muladdeq" {
		nX = k + 2
	}
	var out []padScenario
	oddM := func(bits int) *big.Int {
		bits = max(bits, 3)
		m := randBits(rng, bits)
		m.SetBit(m, bits-1, 1)
		m.SetBit(m, 0, 1)
		return m
	}
	build := func(S []int, M *big.Int) (X []*big.Int, xl []*big.Int, xint *big.Int) {
		inS := map[int]bool{}
		for _, i := range S {
			inS[i] = true
		}
		xl = make([]*big.Int, n)
		for i := range xl {
			xl[i] = new(big.Int)
		}
		xint = new(big.Int)
		addLimbs := func(v *big.Int) {
			l := splitLimbs(v, w, n)
			for i := range l {
				xl[i].Add(xl[i], l[i])
			}
			xint.Add(xint, v)
		}
		for o := 0; o < nX; o++ {
			if variant == "muladdeq" && (o == 1 || o == 2) {
				X = append(X, randBelow(rng, M))
				continue
			}
			l := make([]*big.Int, n)
			for i := range l {
				if inS[i] || rng.IntN(4) == 0 {
					l[i] = limbMaxOf(fc, i)
				} else {
					l[i] = randBelow(rng, new(big.Int).Add(limbMaxOf(fc, i), big.NewInt(1)))
				}
			}
			v := joinLimbs(l, w)
			X = append(X, v)
			addLimbs(v)
		}
		if variant == "muladdeq" {
			pr := new(big.Int).Mul(X[1], X[2])
			addLimbs(pr.Mod(pr, M))
		}
		return
	}
	// controls on one ordinary input
	{
		M := oddM(40 + rng.IntN(100))
		X, _, xint := build(nil, M)
		tr := new(big.Int).Mod(xint, M)
		out = append(out, padScenario{name: "honest/true-claim", X: X, M: M, E: tr})
		wrong := new(big.Int).Add(tr, big.NewInt(1))
		wrong.Mod(wrong, M)
		out = append(out, padScenario{name: "honest/claim+1", family: famHonest, X: X, M: M, E: wrong, mustFail: true, why: "E = sum+1 modulo M, honest hints"})
		// a different, equally valid padding (honest range): benign with the true claim, useless with a false one
		if alt := forgePadding(w, n, uint(k), uint(k), nil, M); alt != nil {
			out = append(out, padScenario{name: "padding=other-valid-multiple/true-claim", X: X, M: M, E: tr, pad: alt, benign: true})
			out = append(out, padScenario{name: "padding=other-valid-multiple/claim+1", family: famIdentity, X: X, M: M, E: wrong, pad: alt, mustFail: true, why: "E = sum+1 modulo M, padding is another valid multiple"})
		}
	}
	// attacked position sets: every single position, every proper prefix
	var sets [][]int
	for j := 0; j < n; j++ {
		sets = append(sets, []int{j})
	}
	for m := 1; m < n-1; m++ {
		pre := make([]int, m+1)
		for i := range pre {
			pre[i] = i
		}
		sets = append(sets, pre)
	}
	for _, S := range sets {
		m := S[len(S)-1]
		for t := uint(0); t < uint(k); t++ {
			// the subtrahend's limb can reach (k+1)(2^w-1): the forged limb 2^(w+t)-1 must be below
			if new(big.Int).Mul(big.NewInt(int64(k+1)), limbMaxOf(fc, m)).Cmp(new(big.Int).Lsh(big.NewInt(1), w+t)) <= 0 {
				continue
			}
			mbits := (n - 1) * int(w)
			if m < n-1 {
				mbits = (n - m - 1) * int(w)
			}
			mbits = min(mbits, 200)
			M := oddM(mbits - rng.IntN(min(8, mbits/4)))
			X, xl, xint := build(S, M)
			pad := forgePadding(w, n, uint(k), t, S, M)
			name := fmt.Sprintf("padding-forgery/limb=2^[w+%d]-1", t)
			if pad == nil {
				out = append(out, padScenario{name: name + "/infeasible", X: X, M: M})
				continue
			}
			// fixed point: which limbs of padding + E - X are negative
			W := append([]int{}, S...)
			var E *big.Int
			ok := false
			for it := 0; it < 5; it++ {
				shift := new(big.Int)
				for _, i := range W {
					shift.Add(shift, new(big.Int).Lsh(q, uint(i)*w))
				}
				E = new(big.Int).Sub(xint, shift)
				E.Mod(E, M)
				el := splitLimbs(E, w, n)
				var W2 []int
				for i := 0; i < n; i++ {
					d := new(big.Int).Add(pad[i], el[i])
					if d.Sub(d, xl[i]).Sign() < 0 {
						W2 = append(W2, i)
					}
				}
				if fmt.Sprint(W2) == fmt.Sprint(W) {
					ok = len(W) > 0
					break
				}
				W = W2
			}
			if !ok || new(big.Int).Mod(new(big.Int).Sub(E, xint), M).Sign() == 0 {
				out = append(out, padScenario{name: name + "/infeasible", X: X, M: M})
				continue
			}
			sort.Ints(W)
			out = append(out, padScenario{name: name, family: famPad, X: X, M: M, E: E, pad: pad, mustFail: true,
				why: fmt.Sprintf("overflow of the subtrahend %d, attacked positions %v (wrapping %v), padding limbs %v; claimed %s, true %s (mod %s)", k, S, W, pad, E, new(big.Int).Mod(xint, M), M)})
		}
	}
	return out
}

func runPadForgeries(r *vcore.Run, fc *fieldCase, variant string, k int, builder string, nt native) {
	pr := fc.newPad()
	where := builder + "/" + nt.name
	label := fmt.Sprintf("pad|%s|%s|k=%d|%s", fc.name, variant, k, where)
	rng := r.Rand(label)
	nX := k + 1
	if variant == "muladdeq" {
		nX = k + 2
	}
	ccs, err := pr.Compile(nt.field, builder, variant, nX)
	if err != nil {
		r.Eval(label+"|compile", false)
		r.Count("robustness.compile-failed.padding-circuit:"+compileCulprit(err), 1)
		return
	}
	r.Count("pad.circuits-compiled", 1)
	for rep := 0; rep < r.Pick(1, 6); rep++ {
		for _, sc := range padScenarios(rng, fc, nt.field, variant, k) {
			nm := stripParen(sc.name)
			key := fmt.Sprintf("%s|%d|%s|%v", label, rep, sc.name, sc.why)
			if strings.HasSuffix(sc.name, "/infeasible") {
				r.Eval(key, false)
				r.Count("pad.void(forgery-infeasible)", 1)
				continue
			}
			w, err := pr.Witness(nt.field, sc.X, sc.M, sc.E)
			if err != nil {
				r.Inconclusive("pad-witness:" + short(err))
				continue
			}
			applied := 0
			opts := []solver.Option{commitOverride()}
			if sc.pad != nil {
				pad := sc.pad
				opts = append(opts, override(hSubPad, func(q *big.Int, in, out []*big.Int) error {
					if len(out) != len(pad) {
						return fmt.Errorf("harness: padding has %d limbs, hint wants %d", len(pad), len(out))
					}
					for i := range out {
						out[i].Set(pad[i])
					}
					applied++
					return nil
				}))
			}
			var serr error
			if pan, stack := vcore.Catch(func() { _, serr = ccs.Solve(w, opts...) }); pan != nil {
				serr = fmt.Errorf("solve panic: %v\n%s", pan, stack)
			}
			if serr != nil && strings.Contains(serr.Error(), "harness:") {
				r.Eval(key, false)
				r.Inconclusive("pad-harness-error")
				continue
			}
			r.Count("pad.padding-hint-calls-forged", applied)
			rp := func() any {
				xs := make([]string, len(sc.X))
				for i := range sc.X {
					xs[i] = sc.X[i].String()
				}
				return map[string]any{"field": fc.name, "limbs": fmt.Sprintf("%dx%d", fc.nbLimbs, fc.w), "circuit": "ModAssertIsEqual(" + variant + ")", "subtrahend_overflow": k, "engine": where,
					"lie": sc.name + " (subPaddingHint only; mulHint honest)", "X": xs, "M": str(sc.M), "E_public": str(sc.E), "forged_padding_limbs": fmt.Sprint(sc.pad), "false_claim": sc.why, "solver_said": short(serr)}
			}
			switch {
			case sc.mustFail:
				r.Eval(key, true)
				if serr == nil {
					r.Count("pad.ACCEPTED-must-reject."+sc.family, 1)
					r.Violation("accepted-incongruent/"+sc.family, fmt.Sprintf("Solve accepted a false statement with only subPaddingHint dishonest: %s over %s on %s, overflow %d, %s: %s", variant, fc.name, where, k, sc.name, sc.why), rp())
				} else {
					r.Count("pad.rejected."+sc.family, 1)
					r.Count(fmt.Sprintf("pad.rejected.by-lie.%s/overflow=%d", nm, k), 1)
					r.SampleClass("padding-lie:"+nm, map[string]any{"field": fc.name, "circuit": variant, "engine": where, "false_claim": sc.why, "solver_said": short(serr)})
				}
			case sc.benign:
				r.Eval(key, false)
				if serr == nil {
					r.Count("pad.benign-lie.accepted."+nm, 1)
				} else {
					r.Count("pad.benign-lie.rejected."+nm, 1)
				}
			default:
				r.Eval(key, true)
				if serr != nil {
					r.Count("pad.honest.REJECTED", 1)
					r.Violation("honest-rejected/adv-modaddeq", fmt.Sprintf("true statement with honest hints rejected: %s over %s on %s: %s", variant, fc.name, where, short(serr)), rp())
				} else {
					r.Count("pad.honest.accepted", 1)
				}
			}
		}
	}
}
