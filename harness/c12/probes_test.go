//go:build verif

package c12

import (
	"fmt"
	"math/big"
	"strings"

	"github.com/consensys/gnark-crypto/ecc"
	"github.com/consensys/gnark/constraint"
	"github.com/consensys/gnark/frontend"
	"github.com/consensys/gnark/std/math/emulated"
	"github.com/consensys/gnark/test"

	"github.com/consensys/gnark/verifharness/internal/vcore"
)

// Probes: a fixed list of small circuits inside the documented domain whose
// operand *shapes* (short constants, elements longer than the modulus, negative
// constants) random chains reach only through guarded paths (see circuit_test.go:
// the chain interpreter works around three of them so that it can keep going).
// Each probe is a true statement: both engines must accept it.

type probeCircuit[T emulated.FieldParams] struct {
	A, B, E emulated.Element[T]
	N       []frontend.Variable
	mode    string
	k       int
}

func (c *probeCircuit[T]) Define(api frontend.API) error {
	f, err := emulated.NewField[T](api)
	if err != nil {
		return err
	}
	switch c.mode {
	case "mulconst-negative/assert": // E = -3*A
		f.AssertIsEqual(f.MulConst(&c.A, big.NewInt(-3)), &c.E)
	case "mulconst-negative/reduce":
		f.AssertIsEqual(f.Reduce(f.MulConst(&c.A, big.NewInt(-3))), &c.E)
	case "mulconst-negative/mul": // E = -3*A*B
		f.AssertIsEqual(f.Mul(f.MulConst(&c.A, big.NewInt(-3)), &c.B), &c.E)
	case "lookup2/first-operand-shorter": // E = [5, A, B, A][N0 + 2 N1]
		f.AssertIsEqual(f.Lookup2(c.N[0], c.N[1], f.NewElement(5), &c.A, &c.B, &c.A), &c.E)
	case "mux/first-operand-shorter":
		f.AssertIsEqual(f.Mux(c.N[0], f.NewElement(5), &c.A, &c.B, &c.A), &c.E)
	case "select/mul-result-vs-longer-operand": // E = A*B either way
		f.AssertIsEqual(f.Select(c.N[0], f.Mul(&c.A, &c.B), f.MulNoReduce(&c.A, &c.B)), &c.E)
	case "exp/base-longer-than-modulus": // E = (A*B)^3
		f.AssertIsEqual(f.Exp(f.MulNoReduce(&c.A, &c.B), f.NewElement(3)), &c.E)
	case "iszero/frombits-multiple-of-modulus": // N = bits of k*q (k>=2), zero overflow
		api.AssertIsEqual(f.IsZero(f.FromBits(c.N...)), 1)
	case "iszero/short-element-equal-to-low-limbs-of-modulus": // N = bits of (q mod 2^w): non-zero
		api.AssertIsEqual(f.IsZero(f.FromBits(c.N...)), 0)
	case "iszero/short-constant-equal-to-low-limb-of-modulus":
		var t T
		low := new(big.Int).And(t.Modulus(), new(big.Int).Sub(new(big.Int).Lsh(big.NewInt(1), t.BitsPerLimb()), big.NewInt(1)))
		api.AssertIsEqual(f.IsZero(f.NewElement(low)), 0)
	case "inverse/short-operand": // 1/1 = 1
		f.AssertIsEqual(f.Inverse(f.NewElement(1)), f.One())
	case "sum/no-overflow-check": // E = 3^k * A
		acc := &c.A
		for i := 0; i < c.k; i++ {
			acc = f.Sum(acc, acc, acc)
		}
		f.AssertIsEqual(acc, &c.E)
	case "iszero/one":
		api.AssertIsEqual(f.IsZero(f.One()), 0)
	case "constant-folded/tobits": // A - A = k*q with non-zero overflow; its bits must encode a multiple of q
		f.AssertIsEqual(f.Add(f.FromBits(f.ToBits(f.Sub(&c.A, &c.A))...), &c.B), &c.E) // E = B
	case "constant-folded/reduce":
		f.AssertIsEqual(f.Reduce(f.Sub(&c.A, &c.A)), f.Zero())
	case "eval/constant-term": // E = A + 3
		f.AssertIsEqual(f.Eval([][]*emulated.Element[T]{{}, {&c.A}}, []int{3, 1}), &c.E)
	default:
		return fmt.Errorf("harness: unknown probe %s", c.mode)
	}
	return nil
}

type probe struct {
	mode string
	sig  string // violation signature when a true statement is rejected
	a, b *big.Int
	e    func(a, b, p *big.Int) *big.Int
	n    func(p *big.Int, w uint) []*big.Int
	k         int // compile-time repetition count (sum probe)
	primeOnly bool
}

func bitsOf(v *big.Int, n int) []*big.Int {
	out := make([]*big.Int, n)
	for i := range out {
		out[i] = big.NewInt(int64(v.Bit(i)))
	}
	return out
}

func runProbes[T emulated.FieldParams](r *vcore.Run, name string) {
	var t T
	p, w := t.Modulus(), t.BitsPerLimb()
	a := new(big.Int).Sub(p, new(big.Int).Add(big.NewInt(1), new(big.Int).Mod(big.NewInt(12345), new(big.Int).Sub(p, big.NewInt(1)))))
	b := new(big.Int).Mod(big.NewInt(777), p)
	mulm := func(x *big.Int, k int64) *big.Int { return new(big.Int).Mod(new(big.Int).Mul(x, big.NewInt(k)), p) }
	probes := []probe{
		{mode: "mulconst-negative/assert", sig: "mulconst-negative-constant/true-statement-rejected", e: func(a, b, p *big.Int) *big.Int { return mulm(a, -3) }},
		{mode: "mulconst-negative/reduce", sig: "mulconst-negative-constant/true-statement-rejected", e: func(a, b, p *big.Int) *big.Int { return mulm(a, -3) }},
		{mode: "mulconst-negative/mul", sig: "mulconst-negative-constant/true-statement-rejected", e: func(a, b, p *big.Int) *big.Int { return mulm(new(big.Int).Mul(a, b), -3) }},
		{mode: "lookup2/first-operand-shorter", sig: "selection-unbalanced-operands/Lookup2", n: func(*big.Int, uint) []*big.Int { return []*big.Int{big.NewInt(1), big.NewInt(0)} }, e: func(a, b, p *big.Int) *big.Int { return a }},
		{mode: "mux/first-operand-shorter", sig: "selection-unbalanced-operands/Mux", n: func(*big.Int, uint) []*big.Int { return []*big.Int{big.NewInt(2)} }, e: func(a, b, p *big.Int) *big.Int { return b }},
		{mode: "select/mul-result-vs-longer-operand", sig: "select-pads-into-mul-carries/true-statement-rejected", n: func(*big.Int, uint) []*big.Int { return []*big.Int{big.NewInt(1)} }, e: func(a, b, p *big.Int) *big.Int { return mulm(new(big.Int).Mul(a, b), 1) }},
		{mode: "select/mul-result-vs-longer-operand", sig: "select-pads-into-mul-carries/true-statement-rejected", n: func(*big.Int, uint) []*big.Int { return []*big.Int{big.NewInt(0)} }, e: func(a, b, p *big.Int) *big.Int { return mulm(new(big.Int).Mul(a, b), 1) }},
		{mode: "exp/base-longer-than-modulus", sig: "select-pads-into-mul-carries/true-statement-rejected", e: func(a, b, p *big.Int) *big.Int {
			ab := new(big.Int).Mul(a, b)
			return ab.Exp(ab, big.NewInt(3), p)
		}},
		{mode: "iszero/short-element-equal-to-low-limbs-of-modulus", sig: "iszero-short-element/nonzero-reported-zero", n: func(p *big.Int, w uint) []*big.Int { return bitsOf(p, int(w)) }},
		{mode: "iszero/short-constant-equal-to-low-limb-of-modulus", sig: "iszero-short-element/nonzero-reported-zero"},
		{mode: "inverse/short-operand", sig: "inverse-short-operand/true-statement-rejected", primeOnly: true},
		{mode: "sum/no-overflow-check", sig: "sum-no-overflow-check/true-statement-rejected", e: func(a, b, p *big.Int) *big.Int {
			k := int64(254-int(w))*2/3 + 8
			return new(big.Int).Mod(new(big.Int).Mul(a, new(big.Int).Exp(big.NewInt(3), big.NewInt(k), p)), p)
		}, k: (254-int(w))*2/3 + 8},
		{mode: "iszero/one", sig: "iszero-short-element/nonzero-reported-zero"},
		{mode: "constant-folded/tobits", sig: "constant-folded-element-with-overflow/ToBits-truncates", e: func(a, b, p *big.Int) *big.Int { return b }},
		{mode: "constant-folded/reduce", sig: "constant-folded-element-with-overflow/Reduce"},
		{mode: "eval/constant-term", sig: "eval-constant-term/true-statement-rejected", e: func(a, b, p *big.Int) *big.Int { return new(big.Int).Mod(new(big.Int).Add(a, big.NewInt(3)), p) }},
	}
	// k*q with k >= 2 on the same number of limbs exists when 2q < 2^(w*nbLimbs)
	if twoP := new(big.Int).Lsh(p, 1); twoP.BitLen() <= int(w)*int(t.NbLimbs()) {
		probes = append(probes, probe{mode: "iszero/frombits-multiple-of-modulus", sig: "iszero-unreduced-zero-overflow-element/zero-reported-nonzero",
			n: func(p *big.Int, w uint) []*big.Int { return bitsOf(new(big.Int).Lsh(p, 1), p.BitLen()+1) }})
	}
	field := ecc.BN254.ScalarField()
	for _, pr := range probes {
		var nat []*big.Int
		if pr.n != nil {
			nat = pr.n(p, w)
		}
		if len(nat) == 0 {
			nat = []*big.Int{big.NewInt(0)}
		}
		e := new(big.Int)
		if pr.e != nil {
			e = pr.e(a, b, p)
		}
		if pr.primeOnly && !t.IsPrime() {
			continue
		}
		mk := func() *probeCircuit[T] {
			c := &probeCircuit[T]{N: make([]frontend.Variable, len(nat)), mode: pr.mode, k: pr.k}
			return c
		}
		wit := &probeCircuit[T]{A: rawElement[T](a), B: rawElement[T](b), E: rawElement[T](e), N: make([]frontend.Variable, len(nat))}
		for i := range nat {
			wit.N[i] = nat[i]
		}
		rep := map[string]any{"probe": pr.mode, "field": name, "A": a.String(), "B": b.String(), "E": e.String(), "natives": fmt.Sprint(nat)}
		for _, eng := range []string{"engine", "r1cs", "scs"} {
			var err error
			switch eng {
			case "engine":
				err = test.IsSolved(mk(), wit, field)
			default:
				var ccs constraint.ConstraintSystem
				if pan, _ := vcore.Catch(func() { ccs, err = frontend.Compile(field, builderOf(eng), mk()) }); pan != nil {
					err = fmt.Errorf("compile panic: %v", pan)
				}
				if err == nil {
					w, werr := frontend.NewWitness(wit, field)
					if werr != nil {
						r.Inconclusive("probe-witness")
						continue
					}
					_, err = ccs.Solve(w, commitOverride())
				} else {
					err = fmt.Errorf("compile: %w", err)
				}
			}
			r.Eval("probe|"+name+"|"+pr.mode+"|"+eng+"|"+fmt.Sprint(nat), true)
			if err != nil {
				if strings.Contains(err.Error(), "harness:") {
					r.Inconclusive("probe-harness-error")
					continue
				}
				if es := err.Error(); strings.Contains(es, "runtime error") || strings.HasPrefix(es, "compile") {
					// crash while the circuit is being built: no result exists, recorded as a robustness observation
					r.Count("robustness.define-panics."+pr.mode, 1)
					r.SampleClass("robustness:"+pr.mode, map[string]any{"field": name, "engine": eng, "error": short(err)})
					continue
				}
				r.Count("probe.REJECTED."+pr.mode, 1)
				rep["engine"] = eng
				rep["error"] = short(err)
				r.Violation(pr.sig, fmt.Sprintf("probe %s on %s (%s): a true statement inside the documented domain is rejected: %s", pr.mode, name, eng, short(err)), rep)
			} else {
				r.Count("probe.accepted."+pr.mode, 1)
			}
		}
	}
}
