//go:build verif

package c14

import (
	"fmt"
	"math/big"
	"testing"
	"time"

	"github.com/consensys/gnark-crypto/ecc"
	"github.com/consensys/gnark/constraint"
	"github.com/consensys/gnark/constraint/solver"
	"github.com/consensys/gnark/frontend"
	"github.com/consensys/gnark/frontend/cs/r1cs"
	"github.com/consensys/gnark/frontend/cs/scs"
	"github.com/consensys/gnark/internal/smallfields/tinyfield"
	"github.com/consensys/gnark/std/math/bitslice"
	"github.com/consensys/gnark/std/math/cmp"
	"github.com/consensys/gnark/std/math/uints"
	"github.com/consensys/gnark/verifharness/internal/circuits"
)

func xprobe(_ *big.Int, in, out []*big.Int) error { out[0].SetUint64(0); return nil }

func init() { solver.RegisterHint(xprobe) }

type xc struct {
	In   []frontend.Variable
	f    func(api frontend.API, in []frontend.Variable) []frontend.Variable
}

func (c *xc) Define(api frontend.API) error {
	o := c.f(api, c.In)
	_, err := api.Compiler().NewHint(xprobe, 1, o...)
	return err
}

func TestExp(t *testing.T) {
	for _, b := range []frontend.NewBuilderU32{r1cs.NewBuilder[constraint.U32], scs.NewBuilder[constraint.U32]} {
		c := &xc{In: make([]frontend.Variable, 2), f: func(api frontend.API, in []frontend.Variable) []frontend.Variable {
			bc := cmp.NewBoundedComparator(api, big.NewInt(7), false)
			return []frontend.Variable{bc.IsLess(in[0], in[1])}
		}}
		t0 := time.Now()
		ccs, err := frontend.CompileU32(tinyfield.Modulus(), b, c)
		if err != nil {
			t.Fatal(err)
		}
		fmt.Println("compile", time.Since(t0), ccs.GetNbConstraints())
		for _, p := range [][2]int64{{20, 25}, {3, 5}, {22, 24}, {5, 3}, {23, 24}} {
			w, _ := circuits.MakeWitness(tinyfield.Modulus(), nil, []*big.Int{big.NewInt(p[0]), big.NewInt(p[1])})
			var got string
			t0 = time.Now()
			_, err = ccs.Solve(w, solver.OverrideHint(solver.GetHintID(xprobe), func(_ *big.Int, in, out []*big.Int) error {
				got = in[0].String()
				out[0].SetUint64(0)
				return nil
			}))
			fmt.Println(p, "err=", err, "probe=", got, time.Since(t0))
		}
	}
	// uints add cheat
	for _, b := range []frontend.NewBuilder{r1cs.NewBuilder[constraint.U64], scs.NewBuilder[constraint.U64]} {
		c := &xc{In: make([]frontend.Variable, 2), f: func(api frontend.API, in []frontend.Variable) []frontend.Variable {
			bf, err := uints.New[uints.U32](api)
			if err != nil {
				panic(err)
			}
			x := bf.ValueOf(in[0])
			y := bf.ValueOf(in[1])
			z := bf.Add(x, y)
			return []frontend.Variable{bf.ToValue(z)}
		}}
		t0 := time.Now()
		ccs, err := frontend.Compile(ecc.BN254.ScalarField(), b, c)
		if err != nil {
			t.Fatal(err)
		}
		fmt.Println("compile", time.Since(t0), ccs.GetNbConstraints())
		ph := bitslice.GetHints()[0]
		for _, lie := range []bool{false, true} {
			w, _ := circuits.MakeWitness(ecc.BN254.ScalarField(), nil, []*big.Int{big.NewInt(0xfffffff0), big.NewInt(0x20)})
			var got string
			opts := []solver.Option{solver.OverrideHint(solver.GetHintID(xprobe), func(_ *big.Int, in, out []*big.Int) error {
				got = in[0].String()
				out[0].SetUint64(0)
				return nil
			})}
			if lie {
				opts = append(opts, solver.OverrideHint(solver.GetHintID(ph), func(m *big.Int, in, out []*big.Int) error {
					if err := ph(m, in, out); err != nil {
						return err
					}
					out[1].Add(out[1], big.NewInt(1))
					return nil
				}))
			}
			t0 = time.Now()
			_, err = ccs.Solve(w, opts...)
			fmt.Println("lie", lie, "err=", err, "probe=", got, time.Since(t0))
		}
	}
}
