//go:build verif

package c14

import (
	"fmt"
	"math/big"
	mbits "math/bits"
	"math/rand/v2"
	"sort"
	"strings"

	"github.com/consensys/gnark/frontend"
	"github.com/consensys/gnark/std/math/bitslice"
	"github.com/consensys/gnark/std/math/uints"

	"github.com/consensys/gnark/verifharness/internal/vcore"
)

// ======================================================================
// bitslice.Partition
// ======================================================================

type bsCfg struct {
	split   uint
	digits  int // 0: option absent
	nocheck bool
	constV  *big.Int
	hide    bool // API without Committer: rangecheck falls back to plain bit decomposition
}

func (c bsCfg) String() string {
	s := fmt.Sprintf("bitslice.Partition(v, split=%d", c.split)
	if c.constV != nil {
		s = fmt.Sprintf("bitslice.Partition(const %s, split=%d", c.constV, c.split)
	}
	if c.digits > 0 {
		s += fmt.Sprintf(", WithNbDigits(%d)", c.digits)
	}
	if c.nocheck {
		s += ", WithUnconstrainedOutputs()"
	}
	s += ")"
	if c.hide {
		s += "[api without Committer]"
	}
	return s
}

func bitsliceGadget(c bsCfg) *gadget {
	nIn := 1
	if c.constV != nil {
		nIn = 0
	}
	return &gadget{name: c.String(), nIn: nIn, nOut: 2, hideCommit: c.hide, build: func(api frontend.API, in []frontend.Variable) []frontend.Variable {
		var opts []bitslice.Option
		if c.digits > 0 {
			opts = append(opts, bitslice.WithNbDigits(c.digits))
		}
		if c.nocheck {
			opts = append(opts, bitslice.WithUnconstrainedOutputs())
		}
		var v frontend.Variable
		if c.constV != nil {
			v = new(big.Int).Set(c.constV)
		} else {
			v = in[0]
		}
		lo, up := bitslice.Partition(api, v, c.split, opts...)
		return []frontend.Variable{lo, up}
	}}
}

// doc: "v = lower + 2^split * upper. The method enforces that lower < 2^split and upper < 2^split', where
// split'=nbScalar-split. When giving the option WithNbDigits, we instead use the bound split'=nbDigits-split."
// Hence with nbDigits < field width an accepted v is below 2^nbDigits; without the option every canonical v splits.
func bitsliceExpect(f *fieldCtx, c bsCfg, v *big.Int) expect {
	lo := new(big.Int).Mod(v, pow2(int(c.split)))
	up := new(big.Int).Rsh(v, c.split)
	if c.digits > 0 && c.digits < f.bits && v.BitLen() > c.digits {
		if c.nocheck {
			// WithUnconstrainedOutputs: "skip the output decomposition and outputs width checks" — nothing promised
			return expect{kind: kUnsatOr, outs: [][]*big.Int{{lo, up}}, class: "value-exceeds-nbDigits,unconstrained-outputs"}
		}
		return unsat().in("value-exceeds-nbDigits")
	}
	return exact(lo, up).in("value-in-range")
}

func partitionHintLies() []lie {
	h := hPart
	return []lie{ // outputs: (upper, lower); inputs: (split, v)
		L("borrow(upper-1,lower+2^split)", h, func(p *big.Int, in, hon []*big.Int) []*big.Int {
			return []*big.Int{sub(hon[0], bi(1)), add(hon[1], pow2(int(in[0].Int64())))}
		}),
		L("carry(upper+1,lower-2^split)", h, func(p *big.Int, in, hon []*big.Int) []*big.Int {
			return []*big.Int{add(hon[0], bi(1)), sub(hon[1], pow2(int(in[0].Int64())))}
		}),
		L("swapped", h, func(p *big.Int, in, hon []*big.Int) []*big.Int { return []*big.Int{hon[1], hon[0]} }),
		L("(0,v)", h, func(p *big.Int, in, hon []*big.Int) []*big.Int { return []*big.Int{bi(0), new(big.Int).Set(in[1])} }),
		L("(v/2^split in the field,0)", h, func(p *big.Int, in, hon []*big.Int) []*big.Int {
			inv := new(big.Int).ModInverse(pow2(int(in[0].Int64())), p)
			return []*big.Int{modp(new(big.Int).Mul(in[1], inv), p), bi(0)}
		}),
		L("lower+1", h, func(p *big.Int, in, hon []*big.Int) []*big.Int { return []*big.Int{hon[0], add(hon[1], bi(1))} }),
		L("upper+1", h, func(p *big.Int, in, hon []*big.Int) []*big.Int { return []*big.Int{add(hon[0], bi(1)), hon[1]} }),
		L("lower-1,field-consistent-upper", h, func(p *big.Int, in, hon []*big.Int) []*big.Int {
			// lower' = lower-1 (mod 2^split wrap), upper' so that lower' + 2^split*upper' = v in the field
			sp := int(in[0].Int64())
			lo := new(big.Int).Mod(sub(hon[1], bi(1)), pow2(sp))
			inv := new(big.Int).ModInverse(pow2(sp), p)
			return []*big.Int{modp(new(big.Int).Mul(sub(in[1], lo), inv), p), lo}
		}),
		L("split-of(v+p)", h, func(p *big.Int, in, hon []*big.Int) []*big.Int {
			y := add(in[1], p)
			sp := uint(in[0].Int64())
			return []*big.Int{new(big.Int).Rsh(y, sp), new(big.Int).Mod(y, pow2(int(sp)))}
		}),
	}
}

func bitsliceCombos() []combo {
	cbs := singles(partitionHintLies())
	for _, l := range nBitsLies() {
		cbs = append(cbs, combo{l}, combo{l.nth(0)}, combo{l.nth(1)})
	}
	return cbs
}

func runBitsliceCase(r *vcore.Run, a *acc, s *sysT, f *fieldCtx, c bsCfg, v *big.Int, rng *rand.Rand, doLies bool) {
	exp := bitsliceExpect(f, c, v)
	var in []*big.Int
	if c.constV == nil {
		in = []*big.Int{v}
	}
	cs := newCase(r, a, s, "bitslice.Partition", in, exp)
	a.count("bitslice.Partition.inputs."+exp.class, 1)
	res := cs.honest()
	switch exp.kind {
	case kExact:
		a.sample("bitslice.Partition/honest-exact", map[string]any{"system": s.String(), "v": v.String(), "lower,upper": vstr(res.outs)})
	case kUnsat:
		a.sample("bitslice.Partition/out-of-domain-rejected", map[string]any{"system": s.String(), "v": v.String(), "solver_said": errStr(res.err)})
	}
	cs.confirm()
	if c.nocheck || c.constV != nil || !doLies {
		// unconstrained outputs: dishonest hints are allowed to move them (documented); constants: no hints
		cs.finish()
		return
	}
	for _, cb := range bitsliceCombos() {
		cs.lieRun(cb)
	}
	lo := new(big.Int).Mod(v, pow2(int(c.split)))
	up := new(big.Int).Rsh(v, c.split)
	inv := new(big.Int).ModInverse(pow2(int(c.split)), f.p)
	wrongs := [][]*big.Int{
		{modp(add(lo, bi(1)), f.p), up},
		{lo, modp(add(up, bi(1)), f.p)},
		{up, lo},
		{modp(add(lo, pow2(int(c.split))), f.p), modp(sub(up, bi(1)), f.p)},
		{v, bi(0)},
		{bi(0), modp(new(big.Int).Mul(v, inv), f.p)},
	}
	for _, w := range wrongs {
		w := w
		cs.assertWrong(w, []combo{{constLie("aimed(upper,lower=wanted)", hPart, []*big.Int{w[1], w[0]})},
			{constLie("aimed(upper,lower=wanted)", hPart, []*big.Int{w[1], w[0]}), nBitsLies()[2]}})
	}
	cs.finish()
}

func bitsliceJobs(r *vcore.Run) []job {
	var jobs []job
	// tinyfield (6-bit field): every width, every split, every value; API without Committer
	for _, bld := range builders {
		for digits := 0; digits <= 8; digits++ {
			bld, digits := bld, digits
			jobs = append(jobs, job{name: fmt.Sprintf("bitslice-tiny/%s/digits=%d", bld, digits), run: func(a *acc) {
				rng := r.Rand(fmt.Sprintf("bitslice-tiny/%s/%d", bld, digits))
				maxSplit := digits - 1
				if digits == 0 || digits >= fTiny.bits {
					maxSplit = fTiny.bits - 1 // split = field width leaves a zero-width upper part: not a documented use
				}
				for split := 0; split <= maxSplit; split++ {
					for _, nocheck := range []bool{false, true} {
						c := bsCfg{split: uint(split), digits: digits, nocheck: nocheck, hide: true}
						s := mustCompile(r, a, fTiny, bld, bitsliceGadget(c), "bitslice.Partition")
						if s == nil {
							continue
						}
						for v := int64(0); v < 47; v++ {
							runBitsliceCase(r, a, s, fTiny, c, bi(v), rng, true)
						}
					}
					// constants: "input larger than bound" panics, otherwise folded
					for v := int64(0); v < 47; v += 1 + int64(rng.IntN(3)) {
						c := bsCfg{split: uint(split), digits: digits, constV: bi(v), hide: true}
						g := bitsliceGadget(c)
						s, err := compileG(fTiny, bld, g)
						r.Eval("compile|tinyfield|"+bld+"|"+g.name, true)
						tooBig := digits > 0 && bi(v).BitLen() > digits
						switch {
						case err != nil && tooBig:
							a.count("bitslice.Partition.constant-larger-than-bound-panics", 1)
						case err != nil:
							a.count("compile.REFUSED-valid-config", 1)
							r.Violation("bitslice.Partition/compile-fails-on-valid-constant", fmt.Sprintf("%s: %s", g.name, firstLine(err)), map[string]any{"gadget": g.name, "error": firstLine(err)})
						case tooBig:
							a.count("compile.ACCEPTED-invalid-config", 1)
							r.Violation("bitslice.Partition/constant-above-nbDigits-accepted", g.name+" compiled", map[string]any{"gadget": g.name})
						default:
							runBitsliceCase(r, a, s, fTiny, c, bi(v), rng, true)
						}
					}
				}
			}})
		}
	}
	// large fields
	for _, f := range bigFields {
		for _, bld := range builders {
			for _, hide := range []bool{false, true} {
				ds := []int{0, 1, 2, 8, 9, 32, 33, 64, 65, f.bits - 1, f.bits, f.bits + 3}
				if r.Quick() {
					ds = []int{0, 1, 8, 9, 64, 65, f.bits - 1, f.bits + 3}
				}
				for _, digits := range ds {
					f, bld, hide, digits := f, bld, hide, digits
					jobs = append(jobs, job{name: fmt.Sprintf("bitslice-big/%s/%s/hide=%v/digits=%d", f.name, bld, hide, digits), run: func(a *acc) {
						rng := r.Rand(fmt.Sprintf("bitslice-big/%s/%s/%v/%d", f.name, bld, hide, digits))
						width := digits
						if digits == 0 || digits >= f.bits {
							width = f.bits
						}
						splits := map[int]bool{0: true, 1: true, width / 2: true, width - 1: true}
						if width == f.bits {
							splits[8] = true
							splits[f.bits-2] = true
						}
						var splitList []int
						for sp := range splits {
							splitList = append(splitList, sp)
						}
						sort.Ints(splitList)
						for _, split := range splitList {
							if split < 0 || split >= width {
								continue
							}
							for _, nocheck := range []bool{false, true} {
								if nocheck && (digits == 0 || split == 0) {
									continue
								}
								c := bsCfg{split: uint(split), digits: digits, nocheck: nocheck, hide: hide}
								s := mustCompile(r, a, f, bld, bitsliceGadget(c), "bitslice.Partition")
								if s == nil {
									continue
								}
								raw := []*big.Int{bi(0), bi(1), sub(pow2(split), bi(1)), pow2(split), add(pow2(split), bi(1)),
									sub(pow2(width), bi(1)), pow2(width), add(pow2(width), bi(1)), sub(pow2(width-1), bi(1)), pow2(width - 1),
									sub(f.p, bi(1)), sub(f.p, bi(2)), sub(pow2(f.bits), f.p), randBelow(rng, pow2(width)), randBelow(rng, pow2(width)), randBelow(rng, f.p)}
								seen := map[string]bool{}
								for vi, v := range raw {
									v = modp(v, f.p)
									if seen[v.String()] {
										continue
									}
									seen[v.String()] = true
									runBitsliceCase(r, a, s, f, c, v, rng, r.Thorough() || (vi+split)%3 == 0)
								}
							}
						}
					}})
				}
			}
		}
	}
	return jobs
}

// ======================================================================
// uints: 8 / 32 / 64-bit words
// ======================================================================

type uop struct {
	kind string // ValueOf ByteValueOf And Or Xor Not Add Lrot Rshift RoundTrip Pack AssertEq
	nOps int
	c    int
	raw  bool // operands given as bytes placed directly into U8.Val (as a witness assignment would)
}

func (o uop) String() string {
	s := o.kind
	switch o.kind {
	case "And", "Or", "Xor", "Add":
		s += fmt.Sprintf("/%d-operands", o.nOps)
	case "Lrot", "Rshift":
		s += fmt.Sprintf("(%d)", o.c)
	}
	if o.raw {
		s += "/witness-bytes"
	}
	return s
}

func uintsIO[T uints.Long](o uop) (nIn, nOut int) {
	var z T
	W := len(z)
	per := 1
	if o.raw {
		per = W
	}
	switch o.kind {
	case "ValueOf":
		return 1, W
	case "ByteValueOf":
		return 1, 1
	case "RoundTrip":
		return 1, 1
	case "Pack":
		return W, 2*W + 1
	case "AssertEq":
		return 2 * per, 0
	case "Not", "Lrot", "Rshift":
		return per, W
	}
	return o.nOps * per, W
}

func uintsGadget[T uints.Long](o uop) *gadget {
	var z T
	W := len(z)
	nIn, nOut := uintsIO[T](o)
	return &gadget{name: fmt.Sprintf("uints.U%d.%s", W*8, o), nIn: nIn, nOut: nOut, build: func(api frontend.API, in []frontend.Variable) []frontend.Variable {
		bf, err := uints.New[T](api)
		if err != nil {
			panic(err)
		}
		k := 0
		operand := func() T {
			var x T
			if o.raw {
				for i := 0; i < W; i++ {
					x[i] = uints.U8{Val: in[k]}
					k++
				}
				return x
			}
			x = bf.ValueOf(in[k])
			k++
			return x
		}
		outBytes := func(x T) []frontend.Variable {
			v := make([]frontend.Variable, W)
			for i := 0; i < W; i++ {
				v[i] = x[i].Val
			}
			return v
		}
		switch o.kind {
		case "ValueOf":
			return outBytes(bf.ValueOf(in[0]))
		case "ByteValueOf":
			return []frontend.Variable{bf.ByteValueOf(in[0]).Val}
		case "RoundTrip":
			return []frontend.Variable{bf.ToValue(bf.ValueOf(in[0]))}
		case "Pack":
			bs := make([]uints.U8, W)
			for i := range bs {
				bs[i] = uints.U8{Val: in[i]}
			}
			var out []frontend.Variable
			for _, b := range bf.UnpackMSB(bf.PackMSB(bs...)) {
				out = append(out, b.Val)
			}
			for _, b := range bf.UnpackLSB(bf.PackLSB(bs...)) {
				out = append(out, b.Val)
			}
			return append(out, bf.ToValue(bf.PackMSB(bs...)))
		case "AssertEq":
			x, y := operand(), operand()
			bf.AssertEq(x, y)
			return nil
		case "Not":
			return outBytes(bf.Not(operand()))
		case "Lrot":
			return outBytes(bf.Lrot(operand(), o.c))
		case "Rshift":
			return outBytes(bf.Rshift(operand(), o.c))
		}
		ops := make([]T, o.nOps)
		for i := range ops {
			ops[i] = operand()
		}
		switch o.kind {
		case "And":
			return outBytes(bf.And(ops...))
		case "Or":
			return outBytes(bf.Or(ops...))
		case "Xor":
			return outBytes(bf.Xor(ops...))
		case "Add":
			return outBytes(bf.Add(ops...))
		}
		panic("harness: unknown uints op " + o.kind)
	}}
}

func bytesLE(x uint64, W int) []*big.Int {
	o := make([]*big.Int, W)
	for i := range o {
		o[i] = bi(int64((x >> (8 * i)) & 0xff))
	}
	return o
}

// uintsExpect: the native Go operation on W-byte words. vals are the word operands as field elements.
func uintsExpect(o uop, W int, vals []*big.Int) expect {
	wb := uint(8 * W)
	mask := ^uint64(0)
	if W == 4 {
		mask = 0xffffffff
	}
	for _, v := range vals {
		lim := int(wb)
		if o.kind == "ByteValueOf" {
			lim = 8
		}
		if v.BitLen() > lim {
			// the result type is an array of bytes recomposing to the value: a wider value has no representation
			return unsat().in("operand-exceeds-width")
		}
	}
	u := make([]uint64, len(vals))
	for i := range vals {
		u[i] = vals[i].Uint64()
	}
	var res uint64
	switch o.kind {
	case "ValueOf":
		res = u[0]
	case "ByteValueOf":
		return exact(bi(int64(u[0]))).in("in-range")
	case "RoundTrip":
		return exact(new(big.Int).SetUint64(u[0])).in("in-range")
	case "AssertEq":
		if u[0] == u[1] {
			return expect{kind: kExact, outs: [][]*big.Int{{}}, class: "equal"}
		}
		return unsat().in("different")
	case "Not":
		res = ^u[0] & mask
	case "Lrot":
		c := o.c
		if c < 0 {
			c += int(wb)
		}
		if W == 4 {
			res = uint64(mbits.RotateLeft32(uint32(u[0]), c))
		} else {
			res = mbits.RotateLeft64(u[0], c)
		}
	case "Rshift":
		res = (u[0] >> uint(o.c)) & mask
	case "And":
		res = mask
		for _, x := range u {
			res &= x
		}
	case "Or":
		for _, x := range u {
			res |= x
		}
	case "Xor":
		for _, x := range u {
			res ^= x
		}
	case "Add":
		for _, x := range u {
			res += x // wraps mod 2^64; masked below for 32
		}
		res &= mask
	}
	return exactV(bytesLE(res, W)).in("in-range")
}

func byteOpLies(h *hintRef, others ...*hintRef) []lie {
	ls := []lie{
		L("flip-bit0", h, func(p *big.Int, in, hon []*big.Int) []*big.Int { return []*big.Int{new(big.Int).Xor(hon[0], bi(1))} }),
		L("flip-bit7", h, func(p *big.Int, in, hon []*big.Int) []*big.Int { return []*big.Int{new(big.Int).Xor(hon[0], bi(0x80))} }),
		L("+256", h, func(p *big.Int, in, hon []*big.Int) []*big.Int { return []*big.Int{add(hon[0], bi(256))} }),
		L("zero", h, func(p *big.Int, in, hon []*big.Int) []*big.Int { return []*big.Int{bi(0)} }),
		L("first-operand", h, func(p *big.Int, in, hon []*big.Int) []*big.Int { return []*big.Int{new(big.Int).Set(in[0])} }),
	}
	// the lookup is on packed = x + 256 y + 65536 r only: choose r' (not a byte) such that the packed value of
	// (x, y, r') equals the table row of a neighbouring input pair (x+dx, y+dy)
	for _, d := range [][2]int64{{1, 0}, {-1, 0}, {0, 1}, {0, -1}} {
		d := d
		ls = append(ls, L(fmt.Sprintf("packed-value-of-row(x%+d,y%+d)", d[0], d[1]), h, func(p *big.Int, in, hon []*big.Int) []*big.Int {
			x2, y2 := add(in[0], bi(d[0])), add(in[1], bi(d[1]))
			if x2.Sign() < 0 || y2.Sign() < 0 || x2.Cmp(bi(255)) > 0 || y2.Cmp(bi(255)) > 0 {
				return nil
			}
			rt := []*big.Int{new(big.Int)}
			if err := h.fn(p, []*big.Int{x2, y2}, rt); err != nil {
				return nil
			}
			inv := new(big.Int).ModInverse(bi(65536), p)
			delta := new(big.Int).Mul(bi(d[0]+256*d[1]), inv)
			return []*big.Int{modp(add(rt[0], delta), p)}
		}))
	}
	for _, oh := range others {
		oh := oh
		ls = append(ls, L("result-of-"+oh.name, h, func(p *big.Int, in, hon []*big.Int) []*big.Int {
			o := []*big.Int{new(big.Int)}
			if err := oh.fn(p, in, o); err != nil {
				return nil
			}
			return o
		}))
	}
	for k := 0; k < 3; k++ {
		ls = append(ls, ls[0].nth(k))
	}
	return ls
}

func toBytesLies() []lie {
	h := hToBytes
	val := func(in []*big.Int) (int, *big.Int) { return int(in[0].Int64()), in[1] }
	honestOf := func(in []*big.Int) []*big.Int {
		n, v := val(in)
		o := make([]*big.Int, n)
		t := new(big.Int).Set(v)
		for i := range o {
			o[i] = new(big.Int).And(t, bi(0xff))
			t.Rsh(t, 8)
		}
		return o
	}
	return []lie{
		L("borrow(b0+256,b1-1)", h, func(p *big.Int, in, hon []*big.Int) []*big.Int {
			o := honestOf(in)
			if len(o) < 2 {
				return nil
			}
			o[0] = add(o[0], bi(256))
			o[1] = sub(o[1], bi(1))
			return o
		}),
		L("carry(b0-256,b1+1)", h, func(p *big.Int, in, hon []*big.Int) []*big.Int {
			o := honestOf(in)
			o[0] = sub(o[0], bi(256))
			o[1] = add(o[1], bi(1))
			return o
		}),
		L("swap(b0,b1)", h, func(p *big.Int, in, hon []*big.Int) []*big.Int {
			o := honestOf(in)
			o[0], o[1] = o[1], o[0]
			return o
		}),
		L("everything-in-b0", h, func(p *big.Int, in, hon []*big.Int) []*big.Int {
			n, v := val(in)
			o := zerosV(n)
			o[0] = new(big.Int).Set(v)
			return o
		}),
		L("oversized-top-byte", h, func(p *big.Int, in, hon []*big.Int) []*big.Int {
			n, v := val(in)
			if v.BitLen() <= 8*n {
				return nil
			}
			o := honestOf(in)
			o[n-1] = new(big.Int).Rsh(v, uint(8*(n-1)))
			return o
		}),
		L("low-bytes-only", h, func(p *big.Int, in, hon []*big.Int) []*big.Int {
			_, v := val(in)
			if v.IsUint64() {
				return nil // that is the honest answer
			}
			return honestOf(in)
		}),
		L("b0+1", h, func(p *big.Int, in, hon []*big.Int) []*big.Int {
			o := honestOf(in)
			o[0] = add(o[0], bi(1))
			return o
		}),
	}
}

func wordValues(W int, rng *rand.Rand, nRand int) []*big.Int {
	wb := 8 * W
	vs := []*big.Int{bi(0), bi(1), bi(0xff), bi(0x100), bi(0x80), sub(pow2(wb-1), bi(1)), pow2(wb - 1), sub(pow2(wb), bi(1)), sub(pow2(wb), bi(2)),
		new(big.Int).SetUint64(0xaaaaaaaaaaaaaaaa >> (64 - wb)), new(big.Int).SetUint64(0x5555555555555555 >> (64 - wb)), new(big.Int).SetUint64(0x0123456789abcdef >> (64 - wb))}
	for i := 0; i < nRand; i++ {
		vs = append(vs, randBelow(rng, pow2(wb)))
	}
	return vs
}

// uintsFam: signature family of an operation (width-independent: the code is generic over U32/U64).
func uintsFam(o uop) string {
	switch o.kind {
	case "And", "Or", "Xor", "Not":
		return "uints.bitwise"
	case "Lrot", "Rshift":
		return "uints.rotate-shift"
	case "ValueOf", "ByteValueOf", "RoundTrip", "Pack", "AssertEq":
		return "uints.conversion"
	}
	return "uints." + o.kind
}

func uintsFamily[T uints.Long](r *vcore.Run, f *fieldCtx, bld string, tableOps []uop) []job {
	var z T
	W := len(z)
	wb := 8 * W
	var ops []uop
	ops = append(ops, uop{kind: "ValueOf"}, uop{kind: "ByteValueOf"}, uop{kind: "RoundTrip"}, uop{kind: "Pack"}, uop{kind: "AssertEq"},
		uop{kind: "Add", nOps: 2}, uop{kind: "Add", nOps: 3}, uop{kind: "Add", nOps: 2, raw: true})
	ops = append(ops, tableOps...)
	rots := []int{0, 1, 7, 8, 9, wb - 1, wb, -1, -8, wb/2 + 3}
	shs := []int{0, 1, 7, 8, 9, wb - 1, wb - 8, wb/2 + 3}
	if r.Quick() {
		rots = []int{0, 1, 8, wb - 1, -3, wb/2 + 3}
		shs = []int{0, 1, 8, wb - 1, wb/2 + 3}
	} else {
		ops = append(ops, uop{kind: "Add", nOps: 5})
	}
	for _, c := range rots {
		ops = append(ops, uop{kind: "Lrot", c: c})
	}
	ops = append(ops, uop{kind: "Lrot", c: 5, raw: true})
	for _, c := range shs {
		ops = append(ops, uop{kind: "Rshift", c: c})
	}
	ops = append(ops, uop{kind: "Rshift", c: 3, raw: true})

	var jobs []job
	for _, o := range ops {
		o := o
		jobs = append(jobs, job{name: fmt.Sprintf("uints/%s/%s/U%d/%s", f.name, bld, wb, o), run: func(a *acc) {
			g := uintsGadget[T](o)
			fam := uintsFam(o)
			s := mustCompile(r, a, f, bld, g, fam)
			if s == nil {
				return
			}
			rng := r.Rand(fmt.Sprintf("uints/%s/%s/U%d/%s", f.name, bld, wb, o))
			heavy := o.kind == "Xor" || o.kind == "And" || o.kind == "Or" || o.kind == "Not"
			nOperands := 1
			switch o.kind {
			case "And", "Or", "Xor", "Add":
				nOperands = o.nOps
			case "AssertEq":
				nOperands = 2
			}
			// operand tuples
			var tuples [][]*big.Int
			wv := wordValues(W, rng, r.Pick(2, 6))
			switch {
			case o.kind == "ByteValueOf":
				for _, v := range []int64{0, 1, 127, 128, 254, 255, 256, 257, 511, 65536} {
					tuples = append(tuples, []*big.Int{bi(v)})
				}
				tuples = append(tuples, []*big.Int{sub(f.p, bi(1))}, []*big.Int{pow2(64)})
			case o.kind == "Pack":
				for i := 0; i < 6; i++ {
					t := make([]*big.Int, W)
					for j := range t {
						t[j] = bi(int64(rng.IntN(256)))
					}
					tuples = append(tuples, t)
				}
			case nOperands == 1:
				for _, v := range wv {
					tuples = append(tuples, []*big.Int{v})
				}
			default:
				n := r.Pick(14, 40)
				if heavy {
					n = r.Pick(4, 12)
				}
				maxv := sub(pow2(wb), bi(1))
				all := make([]*big.Int, nOperands)
				for i := range all {
					all[i] = maxv
				}
				tuples = append(tuples, all)
				tuples = append(tuples, append([]*big.Int{maxv, bi(1)}, zerosV(nOperands-2)...))
				tuples = append(tuples, append([]*big.Int{pow2(wb - 1), pow2(wb - 1)}, wv[:nOperands-2]...))
				eq := randBelow(rng, pow2(wb))
				tuples = append(tuples, append([]*big.Int{eq, eq}, wv[:nOperands-2]...))
				for len(tuples) < n {
					t := make([]*big.Int, nOperands)
					for j := range t {
						t[j] = wv[rng.IntN(len(wv))]
					}
					tuples = append(tuples, t)
				}
			}
			// out-of-width operands (not for witness bytes: their range is documented as unenforced)
			if !o.raw && o.kind != "Pack" && o.kind != "ByteValueOf" {
				bads := []*big.Int{pow2(wb), add(pow2(wb), bi(1)), sub(f.p, bi(1)), pow2(64), add(pow2(70), bi(3))}
				if heavy && r.Quick() {
					bads = bads[:1]
				}
				for _, bad := range bads {
					t := make([]*big.Int, nOperands)
					for j := range t {
						t[j] = wv[rng.IntN(len(wv))]
					}
					t[rng.IntN(nOperands)] = bad
					tuples = append(tuples, t)
				}
			}
			var cbs []combo
			if !heavy || r.Thorough() {
				cbs = append(cbs, singles(toBytesLies())...)
			} else {
				cbs = append(cbs, singles(toBytesLies()[:1])...)
			}
			trim := func(ls []lie) []lie {
				if r.Thorough() {
					return ls
				}
				// flip-bit0, +256, packed-row(x-1), packed-row(y-1), result-of-other-op
				return []lie{ls[0], ls[2], ls[6], ls[8], ls[9]}
			}
			switch o.kind {
			case "Xor", "Not":
				cbs = append(cbs, singles(trim(byteOpLies(hXor, hAnd, hOr)))...)
			case "And":
				cbs = append(cbs, singles(trim(byteOpLies(hAnd, hXor, hOr)))...)
			case "Or":
				cbs = append(cbs, singles(trim(byteOpLies(hOr, hXor, hAnd)))...)
			case "Add", "Lrot", "Rshift":
				for _, l := range partitionHintLies() {
					cbs = append(cbs, combo{l}, combo{l.nth(0)}, combo{l.nth(W - 1)})
				}
			}
			for ti, t := range tuples {
				in := t
				vals := t
				if o.raw {
					in = nil
					for _, v := range t {
						in = append(in, bytesLE(v.Uint64(), W)...)
					}
				}
				var exp expect
				if o.kind == "Pack" {
					var outs []*big.Int
					outs = append(outs, cloneV(t)...)
					outs = append(outs, cloneV(t)...)
					v := new(big.Int)
					for i := 0; i < W; i++ { // PackMSB: first byte most significant
						v.Add(v, new(big.Int).Lsh(t[i], uint(8*(W-1-i))))
					}
					outs = append(outs, v)
					exp = exactV(outs).in("in-range")
				} else {
					exp = uintsExpect(o, W, vals)
				}
				cs := newCase(r, a, s, fam, in, exp)
				a.count(fmt.Sprintf("uints.U%d.op.%s", wb, o.kind), 1)
				res := cs.honest()
				if exp.kind == kExact {
					a.sample("uints/honest-exact/"+uintsFam(o), map[string]any{"system": s.String(), "operands": vstr(vals), "result_bytes": vstr(res.outs)})
				}
				if heavy && ((r.Quick() && ti != 0) || (r.Thorough() && ti%3 != 0)) {
					cs.finish()
					continue
				}
				cs.confirm()
				for _, cb := range cbs {
					cs.lieRun(cb)
				}
				if exp.kind == kExact && s.g.nOut > 0 {
					right := exp.outs[0]
					w1 := cloneV(right)
					w1[0] = modp(add(w1[0], bi(1)), f.p)
					w2 := cloneV(right)
					w2[len(w2)-1] = new(big.Int).Xor(w2[len(w2)-1], bi(0x80))
					for _, w := range [][]*big.Int{w1, w2} {
						w := w
						var aim []combo
						switch o.kind {
						case "ValueOf":
							aim = append(aim, combo{constLie("aimed(bytes=wanted)", hToBytes, w)})
						case "Add":
							// lower part = wanted word, upper so that lower + 2^w*upper = sum in the field; toBytes then splits the wanted word honestly
							aim = append(aim, combo{L("aimed(lower=wanted-word,field-consistent-upper)", hPart, func(p *big.Int, in, hon []*big.Int) []*big.Int {
								want := new(big.Int)
								for i := W - 1; i >= 0; i-- {
									want.Lsh(want, 8).Add(want, w[i])
								}
								inv := new(big.Int).ModInverse(pow2(int(in[0].Int64())), p)
								return []*big.Int{modp(new(big.Int).Mul(sub(in[1], want), inv), p), want}
							})})
						case "Xor", "And", "Or", "Not":
							if o.nOps <= 2 {
								h := map[string]*hintRef{"Xor": hXor, "Not": hXor, "And": hAnd, "Or": hOr}[o.kind]
								var cb combo
								for k := 0; k < W; k++ {
									cb = append(cb, constLie("aimed(byte=wanted)", h, []*big.Int{w[k]}).nth(k))
								}
								aim = append(aim, cb)
							}
						case "Lrot", "Rshift":
							aim = append(aim, combo{partitionHintLies()[0]}, combo{partitionHintLies()[7]})
						}
						cs.assertWrong(w, aim)
					}
				}
				cs.finish()
			}
		}})
	}
	return jobs
}

func uintsJobs(r *vcore.Run) []job {
	var jobs []job
	// And/Or/Xor/Not build 2^16-row lookup tables: 65k (R1CS) / 262k (PLONK) constraints per circuit, a
	// Solve costs ~0.3 s.  Quick: one operation per (field, builder, width) slot; thorough: all of them.
	all := []uop{{kind: "Xor", nOps: 2}, {kind: "And", nOps: 2}, {kind: "Or", nOps: 2}, {kind: "Not"}, {kind: "Xor", nOps: 3},
		{kind: "Or", nOps: 3}, {kind: "And", nOps: 2, raw: true}, {kind: "Xor", nOps: 2, raw: true}}
	slot := 0
	for _, f := range bigFields {
		for _, bld := range builders {
			t32, t64 := all, all
			if r.Quick() {
				t32, t64 = nil, nil
				k := int((r.Seed%5+5)%5) + slot
				if slot%2 == 0 {
					t32 = []uop{all[k%5]}
				} else {
					t64 = []uop{all[k%5]}
				}
				slot++
			}
			jobs = append(jobs, uintsFamily[uints.U32](r, f, bld, t32)...)
			jobs = append(jobs, uintsFamily[uints.U64](r, f, bld, t64)...)
		}
	}
	// table circuits first (longest jobs)
	sort.SliceStable(jobs, func(i, j int) bool { return heavyName(jobs[i].name) && !heavyName(jobs[j].name) })
	return jobs
}

func heavyName(n string) bool {
	for _, k := range []string{"/Xor", "/And", "/Or", "/Not"} {
		if strings.Contains(n, k) {
			return true
		}
	}
	return false
}
