//go:build verif

package c14

import (
	"fmt"
	"math/big"
	"math/bits"
	"math/rand/v2"

	"github.com/consensys/gnark/frontend"
	"github.com/consensys/gnark/std/selector"

	"github.com/consensys/gnark/verifharness/internal/vcore"
)

// ---------------------------------------------------------------- gadgets

func muxGadget(n int, constInputs []*big.Int) *gadget {
	if constInputs != nil {
		return &gadget{name: fmt.Sprintf("selector.Mux(sel, %d constants)", n), nIn: 1, nOut: 1, build: func(api frontend.API, in []frontend.Variable) []frontend.Variable {
			vs := make([]frontend.Variable, n)
			for i := range vs {
				vs[i] = new(big.Int).Set(constInputs[i])
			}
			return []frontend.Variable{selector.Mux(api, in[0], vs...)}
		}}
	}
	return &gadget{name: fmt.Sprintf("selector.Mux(sel, %d inputs)", n), nIn: 1 + n, nOut: 1, build: func(api frontend.API, in []frontend.Variable) []frontend.Variable {
		return []frontend.Variable{selector.Mux(api, in[0], in[1:]...)}
	}}
}

func binaryMuxGadget(k, n int) *gadget {
	return &gadget{name: fmt.Sprintf("selector.BinaryMux(%d selBits, %d inputs)", k, n), nIn: k + n, nOut: 1, build: func(api frontend.API, in []frontend.Variable) []frontend.Variable {
		return []frontend.Variable{selector.BinaryMux(api, in[:k], in[k:])}
	}}
}

// mapGadget: adjacent=false hands Map two independently allocated slices; adjacent=true hands it
// table[:n] and table[n:] of one array (keys has spare capacity reaching into values).
func mapGadget(n int, adjacent bool) *gadget {
	name := fmt.Sprintf("selector.Map(query, %d keys, %d values)", n, n)
	if adjacent {
		name = fmt.Sprintf("selector.Map(query, table[:%d], table[%d:])", n, n)
	}
	return &gadget{name: name, nIn: 1 + 2*n, nOut: 1, build: func(api frontend.API, in []frontend.Variable) []frontend.Variable {
		if adjacent {
			table := in[1:]
			return []frontend.Variable{selector.Map(api, in[0], table[:n], table[n:])}
		}
		keys := make([]frontend.Variable, n)
		values := make([]frontend.Variable, n)
		copy(keys, in[1:1+n])
		copy(values, in[1+n:])
		return []frontend.Variable{selector.Map(api, in[0], keys, values)}
	}}
}

func keyDecoderGadget(n int) *gadget {
	return &gadget{name: fmt.Sprintf("selector.KeyDecoder(query, %d keys)", n), nIn: 1 + n, nOut: n, build: func(api frontend.API, in []frontend.Variable) []frontend.Variable {
		return selector.KeyDecoder(api, in[0], in[1:])
	}}
}

func decoderGadget(n int) *gadget {
	return &gadget{name: fmt.Sprintf("selector.Decoder(%d, sel)", n), nIn: 1, nOut: n, build: func(api frontend.API, in []frontend.Variable) []frontend.Variable {
		return selector.Decoder(api, n, in[0])
	}}
}

func sliceGadget(n int) *gadget {
	return &gadget{name: fmt.Sprintf("selector.Slice(start, end, %d inputs)", n), nIn: 2 + n, nOut: n, build: func(api frontend.API, in []frontend.Variable) []frontend.Variable {
		return selector.Slice(api, in[0], in[1], in[2:])
	}}
}

func partitionGadget(n int, right bool) *gadget {
	return &gadget{name: fmt.Sprintf("selector.Partition(pivot, rightSide=%v, %d inputs)", right, n), nIn: 1 + n, nOut: n, build: func(api frontend.API, in []frontend.Variable) []frontend.Variable {
		return selector.Partition(api, in[0], right, in[1:])
	}}
}

// ---------------------------------------------------------------- oracles (doc comments, literally)

func zerosV(n int) []*big.Int {
	o := make([]*big.Int, n)
	for i := range o {
		o[i] = new(big.Int)
	}
	return o
}

func oneHot(n, k int) []*big.Int {
	o := zerosV(n)
	o[k].SetInt64(1)
	return o
}

// Mux: "out = inputs[sel] ... sel needs to be between 0 and n - 1 (inclusive) ... otherwise the proof will fail."
func muxExpect(sel *big.Int, inputs []*big.Int) expect {
	if sel.Cmp(bi(int64(len(inputs)))) >= 0 {
		return unsat().in("selector-out-of-range")
	}
	return exact(new(big.Int).Set(inputs[sel.Int64()])).in("selector-in-range")
}

// Map: "the output will be values[i] such that keys[i] == queryKey. If keys does not contain queryKey, no proofs
// can be generated. If keys has more than one key that equals to queryKey, the output will be undefined"
func mapExpect(q *big.Int, keys, values []*big.Int) expect {
	m := -1
	cnt := 0
	for i, k := range keys {
		if k.Cmp(q) == 0 {
			cnt++
			m = i
		}
	}
	switch cnt {
	case 0:
		return unsat().in("key-absent")
	case 1:
		return exact(new(big.Int).Set(values[m])).in("key-unique")
	}
	return expect{kind: kAny, class: "key-duplicated"}
}

// KeyDecoder: 1 on the wire whose key equals queryKey, 0 otherwise; duplicates: "the output is undefined.
// However, the output is guaranteed to be zero for the wires that are associated with a key which is not equal
// to queryKey."  No match: the formula gives all zeros; Map's doc says no proof — both allowed.
func keyDecoderExpect(q *big.Int, keys []*big.Int) expect {
	n := len(keys)
	var ms []int
	for i, k := range keys {
		if k.Cmp(q) == 0 {
			ms = append(ms, i)
		}
	}
	switch len(ms) {
	case 0:
		return expect{kind: kUnsatOr, outs: [][]*big.Int{zerosV(n)}, class: "key-absent"}
	case 1:
		return exactV(oneHot(n, ms[0])).in("key-unique")
	}
	match := map[int]bool{}
	for _, i := range ms {
		match[i] = true
	}
	return expect{kind: kUnsatOr, class: "key-duplicated", pred: func(o []*big.Int) bool {
		if len(o) != n {
			return false
		}
		for i := range o {
			if !match[i] && o[i].Sign() != 0 {
				return false
			}
		}
		return true
	}}
}

// Decoder: "sel needs to be between 0 and n - 1 (inclusive) otherwise no proof can be generated."
func decoderExpect(n int, sel *big.Int) expect {
	if sel.Cmp(bi(int64(n))) >= 0 {
		return unsat().in("selector-out-of-range")
	}
	return exactV(oneHot(n, int(sel.Int64()))).in("selector-in-range")
}

// Partition: "We must have pivotPosition >= 0 and pivotPosition <= len(input), otherwise a proof cannot be generated."
func partitionExpect(pivot *big.Int, right bool, input []*big.Int) expect {
	n := len(input)
	if pivot.Cmp(bi(int64(n))) > 0 {
		return unsat().in("pivot-out-of-range")
	}
	pv := int(pivot.Int64())
	o := zerosV(n)
	for i := range o {
		if (i < pv) != right {
			o[i].Set(input[i])
		}
	}
	return exactV(o).in("pivot-in-range")
}

// Slice: out[i] = input[i] if start <= i < end else 0.  "We must have start >= 0 and end <= len(input),
// otherwise a proof cannot be generated."  A start above len(input) is not covered by either sentence as a
// non-negative integer (the formula gives all zeros) and is a negative start as a signed one: no proof, or zeros.
func sliceExpect(start, end *big.Int, input []*big.Int) expect {
	n := len(input)
	N := bi(int64(n))
	if end.Cmp(N) > 0 {
		return unsat().in("end-out-of-range")
	}
	if start.Cmp(N) > 0 {
		return expect{kind: kUnsatOr, outs: [][]*big.Int{zerosV(n)}, class: "start-above-len"}
	}
	s, e := int(start.Int64()), int(end.Int64())
	o := zerosV(n)
	for i := range o {
		if i >= s && i < e {
			o[i].Set(input[i])
		}
	}
	cls := "in-range"
	if e < s {
		cls = "in-range,end<start"
	}
	return exactV(o).in(cls)
}

// ---------------------------------------------------------------- dishonest hints

func idxOfOne(h []*big.Int) int {
	for i := range h {
		if h[i].Cmp(bi(1)) == 0 {
			return i
		}
	}
	return -1
}

// indicatorLies: for muxIndicators (query = in[0]) and mapIndicators (query = in[len-1]).
func indicatorLies(h *hintRef, queryFirst bool) []lie {
	return []lie{
		L("one-hot-moved(+1)", h, func(p *big.Int, in, hon []*big.Int) []*big.Int {
			n := len(hon)
			k := idxOfOne(hon)
			return oneHot(n, (k+1)%n)
		}),
		L("one-hot-at-last", h, func(p *big.Int, in, hon []*big.Int) []*big.Int { return oneHot(len(hon), len(hon)-1) }),
		L("one-hot-at-(query mod n)", h, func(p *big.Int, in, hon []*big.Int) []*big.Int {
			q := in[len(in)-1]
			if queryFirst {
				q = in[0]
			}
			n := len(hon)
			return oneHot(n, int(new(big.Int).Mod(q, bi(int64(n))).Int64()))
		}),
		L("two-ones", h, func(p *big.Int, in, hon []*big.Int) []*big.Int {
			n := len(hon)
			if n < 2 {
				return nil
			}
			o := cloneV(hon)
			k := idxOfOne(hon)
			o[(k+1+n)%n] = bi(1)
			return o
		}),
		L("halves", h, func(p *big.Int, in, hon []*big.Int) []*big.Int {
			n := len(hon)
			if n < 2 {
				return nil
			}
			k := idxOfOne(hon)
			if k < 0 {
				k = 0
			}
			o := zerosV(n)
			half := new(big.Int).ModInverse(bi(2), p)
			o[k] = new(big.Int).Set(half)
			o[(k+1)%n] = new(big.Int).Set(half)
			return o
		}),
		L("zeros", h, func(p *big.Int, in, hon []*big.Int) []*big.Int { return zerosV(len(hon)) }),
		L("two-and-minus-one", h, func(p *big.Int, in, hon []*big.Int) []*big.Int {
			n := len(hon)
			if n < 2 {
				return nil
			}
			k := idxOfOne(hon)
			if k < 0 {
				k = 0
			}
			o := zerosV(n)
			o[k] = bi(2)
			o[(k+1)%n] = bi(-1)
			return o
		}),
		L("plus-minus-on-others", h, func(p *big.Int, in, hon []*big.Int) []*big.Int {
			n := len(hon)
			if n < 3 {
				return nil
			}
			k := idxOfOne(hon)
			if k < 0 {
				k = 0
			}
			o := cloneV(hon)
			o[(k+1)%n] = add(o[(k+1)%n], bi(1))
			o[(k+2)%n] = sub(o[(k+2)%n], bi(1))
			return o
		}),
		L("all-ones-over-n", h, func(p *big.Int, in, hon []*big.Int) []*big.Int {
			n := len(hon)
			inv := new(big.Int).ModInverse(bi(int64(n)), p)
			if inv == nil {
				return nil
			}
			o := make([]*big.Int, n)
			for i := range o {
				o[i] = new(big.Int).Set(inv)
			}
			return o
		}),
	}
}

func stepVec(n int, pos int64, start, end *big.Int) []*big.Int {
	o := make([]*big.Int, n)
	for i := range o {
		if int64(i) < pos {
			o[i] = new(big.Int).Set(start)
		} else {
			o[i] = new(big.Int).Set(end)
		}
	}
	return o
}

func stepLies() []lie {
	posOf := func(in []*big.Int, n int) int64 {
		if in[0].IsInt64() {
			return in[0].Int64()
		}
		return int64(n) + 5
	}
	return []lie{
		L("step+1", hStep, func(p *big.Int, in, hon []*big.Int) []*big.Int {
			return stepVec(len(hon), posOf(in, len(hon))+1, in[1], in[2])
		}),
		L("step-1", hStep, func(p *big.Int, in, hon []*big.Int) []*big.Int {
			return stepVec(len(hon), posOf(in, len(hon))-1, in[1], in[2])
		}),
		L("inverted", hStep, func(p *big.Int, in, hon []*big.Int) []*big.Int {
			return stepVec(len(hon), posOf(in, len(hon)), in[2], in[1])
		}),
		L("all-start", hStep, func(p *big.Int, in, hon []*big.Int) []*big.Int {
			return stepVec(len(hon), int64(len(hon)), in[1], in[2])
		}),
		L("all-end", hStep, func(p *big.Int, in, hon []*big.Int) []*big.Int { return stepVec(len(hon), 0, in[1], in[2]) }),
		L("step-at-(pos mod n)", hStep, func(p *big.Int, in, hon []*big.Int) []*big.Int {
			n := len(hon)
			return stepVec(n, new(big.Int).Mod(in[0], bi(int64(n))).Int64(), in[1], in[2])
		}),
		L("step-at-(pos mod n+1)", hStep, func(p *big.Int, in, hon []*big.Int) []*big.Int {
			n := len(hon)
			return stepVec(n, new(big.Int).Mod(in[0], bi(int64(n+1))).Int64(), in[1], in[2])
		}),
		L("step-at-1", hStep, func(p *big.Int, in, hon []*big.Int) []*big.Int { return stepVec(len(hon), 1, in[1], in[2]) }),
		L("step-at-n-1", hStep, func(p *big.Int, in, hon []*big.Int) []*big.Int {
			return stepVec(len(hon), int64(len(hon)-1), in[1], in[2])
		}),
		// a different plateau value from the step position on (the adjacent-difference product is vacuous at i=pos)
		L("plateau(2)-after-step", hStep, func(p *big.Int, in, hon []*big.Int) []*big.Int {
			return stepVec(len(hon), posOf(in, len(hon)), in[1], bi(2))
		}),
		L("prefix(2)-before-step", hStep, func(p *big.Int, in, hon []*big.Int) []*big.Int {
			return stepVec(len(hon), posOf(in, len(hon)), bi(2), in[2])
		}),
		L("midvalue-at-step", hStep, func(p *big.Int, in, hon []*big.Int) []*big.Int {
			n := len(hon)
			ps := posOf(in, n)
			if ps < 0 || ps >= int64(n) {
				return nil
			}
			o := cloneV(hon)
			o[ps] = modp(new(big.Int).Mul(add(in[1], in[2]), new(big.Int).ModInverse(bi(2), p)), p)
			return o
		}),
	}
}

func singles(ls []lie) []combo {
	var c []combo
	for _, l := range ls {
		c = append(c, combo{l})
	}
	return c
}

func muxCombos() []combo {
	var cbs []combo
	for _, l := range nBitsLies() {
		cbs = append(cbs, combo{l}, combo{l.nth(0)}, combo{l.nth(1)})
	}
	// bits of another index
	for _, delta := range []int64{1, -1, 2} {
		delta := delta
		l := L(fmt.Sprintf("bits-of(sel%+d)", delta), hNBits, func(p *big.Int, in, hon []*big.Int) []*big.Int {
			y := add(in[0], bi(delta))
			if y.Sign() < 0 || y.BitLen() > len(hon) {
				return nil
			}
			return bitsOf(y, len(hon))
		}).nth(0)
		cbs = append(cbs, combo{l})
	}
	// out of range: low bits of sel mod 2^nbBits are the honest answer already; also sel mod n
	cbs = append(cbs, combo{L("bits-of(sel mod 2^k - 2^(k-1))", hNBits, func(p *big.Int, in, hon []*big.Int) []*big.Int {
		k := len(hon)
		y := new(big.Int).Mod(in[0], pow2(k))
		y.SetBit(y, k-1, 0)
		return bitsOf(y, k)
	}).nth(0)})
	return cbs
}

// ---------------------------------------------------------------- input generators

func randVec(rng *rand.Rand, p *big.Int, n int, nonzero bool) []*big.Int {
	o := make([]*big.Int, n)
	for i := range o {
		o[i] = randBelow(rng, p)
		if nonzero && o[i].Sign() == 0 {
			o[i].SetInt64(1)
		}
	}
	return o
}

func distinctVec(rng *rand.Rand, p *big.Int, n int) []*big.Int {
	seen := map[string]bool{}
	var o []*big.Int
	for len(o) < n {
		v := randBelow(rng, p)
		if p.BitLen() > 16 && rng.IntN(3) == 0 {
			v = bi(int64(rng.IntN(40)))
		}
		if !seen[v.String()] {
			seen[v.String()] = true
			o = append(o, v)
		}
	}
	return o
}

func inputVectors(rng *rand.Rand, p *big.Int, n, k int) [][]*big.Int {
	vs := [][]*big.Int{}
	a := make([]*big.Int, n)
	for i := range a {
		a[i] = modp(bi(int64(i+1)), p)
	}
	vs = append(vs, a)
	for i := 0; i < k; i++ {
		vs = append(vs, randVec(rng, p, n, true))
	}
	if k >= 2 {
		eq := make([]*big.Int, n)
		c := randBelow(rng, p)
		for i := range eq {
			eq[i] = new(big.Int).Set(c)
		}
		vs = append(vs, eq)
		z := randVec(rng, p, n, false)
		z[rng.IntN(n)] = new(big.Int)
		vs = append(vs, z)
	}
	return vs
}

func selGrid(f *fieldCtx, n int, rng *rand.Rand) []*big.Int {
	if f.tiny {
		o := make([]*big.Int, 47)
		for i := range o {
			o[i] = bi(int64(i))
		}
		return o
	}
	N := bi(int64(n))
	k := bits.Len(uint(n))
	raw := []*big.Int{bi(0), bi(1), sub(N, bi(2)), sub(N, bi(1)), N, add(N, bi(1)), sub(pow2(k), bi(1)), pow2(k), add(pow2(k), bi(1)),
		sub(f.p, bi(1)), sub(f.p, N), sub(f.p, bi(int64(n-1))), pow2(64), add(pow2(64), bi(1)), add(pow2(63), bi(1)), add(pow2(32), bi(1)),
		new(big.Int).Rsh(f.p, 1), randBelow(rng, f.p), randBelow(rng, N)}
	seen := map[string]bool{}
	var o []*big.Int
	for _, v := range raw {
		if v.Sign() < 0 {
			continue
		}
		v = modp(v, f.p)
		if !seen[v.String()] {
			seen[v.String()] = true
			o = append(o, v)
		}
	}
	return o
}

// ---------------------------------------------------------------- case runner

type selCase struct {
	fam    string
	in     []*big.Int
	exp    expect
	cbs    []combo
	wrongs [][]*big.Int
	aimed  func(w []*big.Int) []combo
}

func runSelCase(r *vcore.Run, a *acc, s *sysT, sc selCase, doLies bool) {
	c := newCase(r, a, s, sc.fam, sc.in, sc.exp)
	a.count(sc.fam+".inputs."+sc.exp.class, 1)
	res := c.honest()
	switch sc.exp.kind {
	case kExact:
		a.sample(sc.fam+"/honest-exact", map[string]any{"system": s.String(), "inputs": vstr(sc.in), "outputs": vstr(res.outs)})
	case kUnsat:
		a.sample("selector/out-of-domain-rejected", map[string]any{"system": s.String(), "inputs": vstr(sc.in), "class": sc.exp.class, "solver_said": errStr(res.err)})
	}
	c.confirm()
	if doLies {
		for _, cb := range sc.cbs {
			c.lieRun(cb)
		}
		for _, w := range sc.wrongs {
			var aim []combo
			if sc.aimed != nil {
				aim = sc.aimed(w)
			}
			c.assertWrong(w, aim)
		}
	}
	c.finish()
}

// perturbations of a documented output vector
func vectorWrongs(p *big.Int, right []*big.Int, input []*big.Int, rng *rand.Rand) [][]*big.Int {
	n := len(right)
	var ws [][]*big.Int
	k := rng.IntN(n)
	w := cloneV(right)
	w[k] = modp(add(w[k], bi(1)), p)
	ws = append(ws, w)
	// rotate
	if n > 1 {
		w = make([]*big.Int, n)
		for i := range w {
			w[i] = new(big.Int).Set(right[(i+1)%n])
		}
		ws = append(ws, w)
	}
	ws = append(ws, zerosV(n))
	if input != nil {
		ws = append(ws, cloneV(input))
		// one more / one fewer element let through
		for i := 0; i < n; i++ {
			if right[i].Cmp(input[i]) != 0 {
				w = cloneV(right)
				w[i] = new(big.Int).Set(input[i])
				ws = append(ws, w)
				break
			}
		}
		for i := n - 1; i >= 0; i-- {
			if right[i].Sign() != 0 {
				w = cloneV(right)
				w[i] = new(big.Int)
				ws = append(ws, w)
				break
			}
		}
	}
	return ws
}

// ---------------------------------------------------------------- jobs

func selectorJobs(r *vcore.Run) []job {
	var jobs []job
	fields := []*fieldCtx{fTiny, fBN, fBLS}
	for _, f := range fields {
		for _, bld := range builders {
			f, bld := f, bld

			// ---- Mux
			muxN := []int{1, 2, 3, 4, 5, 6, 7, 8, 9, 16, 17, 31, 32, 33, 64}
			if !f.tiny {
				muxN = []int{1, 2, 3, 4, 5, 8, 9, 16, 17, 33}
			}
			for _, n := range muxN {
				n := n
				jobs = append(jobs, job{name: fmt.Sprintf("sel-mux/%s/%s/n=%d", f.name, bld, n), run: func(a *acc) {
					rng := r.Rand(fmt.Sprintf("sel-mux/%s/%s/%d", f.name, bld, n))
					nv := r.Pick(2, 5)
					if !f.tiny && r.Quick() {
						nv = 0
					}
					vecs := inputVectors(rng, f.p, n, nv)
					if len(vecs) < 2 {
						vecs = append(vecs, randVec(rng, f.p, n, true))
					}
					for variant := 0; variant < 2; variant++ {
						var g *gadget
						if variant == 0 {
							g = muxGadget(n, nil)
						} else {
							g = muxGadget(n, vecs[1])
						}
						s, err := compileG(f, bld, g)
						r.Eval("compile|"+f.name+"|"+bld+"|"+g.name, true)
						if err != nil {
							nb := bits.Len(uint(n - 1))
							// Mux builds NewBoundedComparator(2^nbBits-1): its documented panic conditions decide
							must, may := ctorOracle(f.p, sub(pow2(nb), bi(1)), false)
							if n > 1 && bits.OnesCount(uint(n)) != 1 && (must || may) {
								a.count("selector.Mux.compile-refused(field-too-small-for-n)", 1)
								a.sample("selector.Mux/compile-refused", map[string]any{"field": f.name, "n": n, "error": firstLine(err)})
								continue
							}
							a.count("compile.REFUSED-valid-config", 1)
							r.Violation("selector.Mux/compile-fails-on-valid-configuration", fmt.Sprintf("%s/%s/%s: %s", f.name, bld, g.name, firstLine(err)),
								map[string]any{"field": f.name, "builder": bld, "gadget": g.name, "error": firstLine(err)})
							continue
						}
						a.count("compiled."+f.name+"."+bld, 1)
						use := vecs
						if variant == 1 {
							use = vecs[1:2]
						}
						for _, vec := range use {
							for _, sel := range selGrid(f, n, rng) {
								exp := muxExpect(sel, vec)
								in := []*big.Int{sel}
								if variant == 0 {
									in = append(in, vec...)
								}
								var wrongs [][]*big.Int
								right := new(big.Int)
								if exp.kind == kExact {
									right = exp.outs[0][0]
								}
								for _, w := range []*big.Int{vec[0], vec[n-1], vec[n/2], modp(add(right, bi(1)), f.p), bi(0)} {
									wrongs = append(wrongs, []*big.Int{w})
								}
								vec := vec
								runSelCase(r, a, s, selCase{fam: "selector.Mux", in: in, exp: exp, cbs: muxCombos(), wrongs: wrongs,
									aimed: func(w []*big.Int) []combo {
										// selector bits of an index that holds the wanted value
										for j := range vec {
											if vec[j].Cmp(w[0]) == 0 {
												j := j
												l := L("aimed(bits-of-index-holding-wanted)", hNBits, func(p *big.Int, in, hon []*big.Int) []*big.Int {
													if bi(int64(j)).BitLen() > len(hon) {
														return nil
													}
													return bitsOf(bi(int64(j)), len(hon))
												})
												return []combo{{l.nth(0)}, {l}}
											}
										}
										return nil
									}}, true)
							}
						}
					}
				}})
			}

			// ---- BinaryMux
			for _, k := range []int{0, 1, 2, 3} {
				k := k
				jobs = append(jobs, job{name: fmt.Sprintf("sel-binmux/%s/%s/k=%d", f.name, bld, k), run: func(a *acc) {
					n := 1 << k
					rng := r.Rand(fmt.Sprintf("sel-binmux/%s/%s/%d", f.name, bld, k))
					s := mustCompile(r, a, f, bld, binaryMuxGadget(k, n), "selector.BinaryMux")
					if s == nil {
						return
					}
					// documented: len(inputs) must be 2^len(selBits) (panic)
					if _, err := compileG(f, bld, binaryMuxGadget(k, n+1)); err == nil {
						a.count("compile.ACCEPTED-invalid-config", 1)
						r.Violation("selector.BinaryMux/accepts-wrong-input-length", fmt.Sprintf("%d selBits with %d inputs compiled", k, n+1), map[string]any{"k": k, "n": n + 1})
					} else {
						a.count("selector.BinaryMux.length-mismatch-panics-as-documented", 1)
					}
					for _, vec := range inputVectors(rng, f.p, n, 2) {
						for idx := 0; idx < n; idx++ {
							in := append(bitsOf(bi(int64(idx)), k), vec...)
							runSelCase(r, a, s, selCase{fam: "selector.BinaryMux", in: in, exp: exact(vec[idx]).in("boolean-selector-bits"),
								wrongs: [][]*big.Int{{vec[(idx+1)%n]}, {modp(add(vec[idx], bi(1)), f.p)}}}, true)
						}
						if k > 0 {
							for _, bad := range []*big.Int{bi(2), sub(f.p, bi(1))} {
								in := append(bitsOf(bi(0), k), vec...)
								in[rng.IntN(k)] = bad
								runSelCase(r, a, s, selCase{fam: "selector.BinaryMux", in: in, exp: unsat().in("non-boolean-selector-bit")}, true)
							}
						}
					}
				}})
			}

			// ---- Map / KeyDecoder
			mapN := []int{1, 2, 3, 4, 5, 6}
			if !f.tiny {
				mapN = []int{1, 2, 3, 5, 8, 9, 17}
			}
			for _, n := range mapN {
				n := n
				jobs = append(jobs, job{name: fmt.Sprintf("sel-map/%s/%s/n=%d", f.name, bld, n), run: func(a *acc) {
					rng := r.Rand(fmt.Sprintf("sel-map/%s/%s/%d", f.name, bld, n))
					sm := mustCompile(r, a, f, bld, mapGadget(n, false), "selector.Map")
					sadj := mustCompile(r, a, f, bld, mapGadget(n, true), "selector.Map")
					sk := mustCompile(r, a, f, bld, keyDecoderGadget(n), "selector.KeyDecoder")
					if sm == nil || sk == nil || sadj == nil {
						return
					}
					// documented panic on length mismatch
					bad := &gadget{name: "selector.Map(len(keys)!=len(values))", nIn: 2*n + 2, nOut: 1, build: func(api frontend.API, in []frontend.Variable) []frontend.Variable {
						return []frontend.Variable{selector.Map(api, in[0], in[1:1+n], in[1+n:])}
					}}
					if _, err := compileG(f, bld, bad); err == nil {
						a.count("compile.ACCEPTED-invalid-config", 1)
						r.Violation("selector.Map/accepts-length-mismatch", "Map compiled with len(keys) != len(values)", map[string]any{"n": n})
					} else {
						a.count("selector.Map.length-mismatch-panics-as-documented", 1)
					}
					nSets := r.Pick(3, 8)
					for si := 0; si < nSets; si++ {
						keys := distinctVec(rng, f.p, n)
						if si%3 == 2 && n >= 2 { // duplicated key
							keys[rng.IntN(n-1)+1] = new(big.Int).Set(keys[0])
						}
						values := randVec(rng, f.p, n, true)
						var qs []*big.Int
						if f.tiny {
							qs = selGrid(f, n, rng)
						} else {
							qs = append(qs, keys...)
							qs = append(qs, bi(0), sub(f.p, bi(1)), modp(add(keys[0], bi(1)), f.p), modp(add(keys[n-1], f.p), f.p), randBelow(rng, f.p), bi(int64(n)))
						}
						for _, q := range qs {
							in := append(append([]*big.Int{q}, keys...), values...)
							exp := mapExpect(q, keys, values)
							right := new(big.Int)
							if exp.kind == kExact {
								right = exp.outs[0][0]
							}
							wr := [][]*big.Int{{values[0]}, {values[n-1]}, {modp(add(right, bi(1)), f.p)}, {bi(0)}, {modp(add(values[0], values[n-1]), f.p)}}
							keys, values := keys, values
							runSelCase(r, a, sm, selCase{fam: "selector.Map", in: in, exp: exp, cbs: singles(indicatorLies(hMapInd, false)), wrongs: wr,
								aimed: func(w []*big.Int) []combo {
									var cbs []combo
									// scale the matched indicator so that the dot product is the wanted value
									cbs = append(cbs, combo{L("aimed(indicator=wanted/value)", hMapInd, func(p *big.Int, in, hon []*big.Int) []*big.Int {
										k := idxOfOne(hon)
										if k < 0 {
											k = 0
										}
										inv := new(big.Int).ModInverse(values[k], p)
										if inv == nil {
											return nil
										}
										o := zerosV(len(hon))
										o[k] = modp(new(big.Int).Mul(w[0], inv), p)
										return o
									})})
									for j := range values {
										if values[j].Cmp(w[0]) == 0 {
											cbs = append(cbs, combo{constLie("aimed(one-hot-at-index-holding-wanted)", hMapInd, oneHot(len(values), j))})
											break
										}
									}
									// keep sum = 1: x at the match, 1-x elsewhere, with x*v_k + (1-x)*v_j = wanted
									if len(values) >= 2 {
										cbs = append(cbs, combo{L("aimed(two-indicators-summing-to-1)", hMapInd, func(p *big.Int, in, hon []*big.Int) []*big.Int {
											k := idxOfOne(hon)
											if k < 0 {
												k = 0
											}
											j := (k + 1) % len(hon)
											den := modp(sub(values[k], values[j]), p)
											inv := new(big.Int).ModInverse(den, p)
											if inv == nil {
												return nil
											}
											x := modp(new(big.Int).Mul(sub(w[0], values[j]), inv), p)
											o := zerosV(len(hon))
											o[k] = x
											o[j] = modp(sub(bi(1), x), p)
											return o
										})})
									}
									return cbs
								}}, true)

							// the same call with keys and values being adjacent parts of one slice (own input class)
							aexp := exp
							aexp.class += ",keys-and-values-adjacent-parts-of-one-slice"
							runSelCase(r, a, sadj, selCase{fam: "selector.Map", in: in, exp: aexp}, false)

							kin := append([]*big.Int{q}, keys...)
							kexp := keyDecoderExpect(q, keys)
							var kw [][]*big.Int
							if kexp.kind == kExact {
								kw = vectorWrongs(f.p, kexp.outs[0], nil, rng)
							} else {
								kw = [][]*big.Int{oneHot(n, 0), oneHot(n, n-1)}
							}
							runSelCase(r, a, sk, selCase{fam: "selector.KeyDecoder", in: kin, exp: kexp, cbs: singles(indicatorLies(hMapInd, false)), wrongs: kw,
								aimed: func(w []*big.Int) []combo { return []combo{{constLie("aimed(indicators=wanted)", hMapInd, w)}} }}, true)
						}
					}
				}})
			}

			// ---- Decoder
			decN := []int{1, 2, 3, 4, 5, 6, 7, 8, 9, 16, 17}
			for _, n := range decN {
				n := n
				jobs = append(jobs, job{name: fmt.Sprintf("sel-decoder/%s/%s/n=%d", f.name, bld, n), run: func(a *acc) {
					rng := r.Rand(fmt.Sprintf("sel-decoder/%s/%s/%d", f.name, bld, n))
					s := mustCompile(r, a, f, bld, decoderGadget(n), "selector.Decoder")
					if s == nil {
						return
					}
					for _, sel := range selGrid(f, n, rng) {
						exp := decoderExpect(n, sel)
						var ws [][]*big.Int
						if exp.kind == kExact {
							ws = vectorWrongs(f.p, exp.outs[0], nil, rng)
						} else {
							ws = [][]*big.Int{oneHot(n, 0), oneHot(n, n-1), zerosV(n), oneHot(n, int(new(big.Int).Mod(sel, bi(int64(n))).Int64()))}
						}
						runSelCase(r, a, s, selCase{fam: "selector.Decoder", in: []*big.Int{sel}, exp: exp, cbs: singles(indicatorLies(hMuxInd, true)), wrongs: ws,
							aimed: func(w []*big.Int) []combo { return []combo{{constLie("aimed(indicators=wanted)", hMuxInd, w)}} }}, true)
					}
				}})
			}

			// ---- Partition / Slice
			partN := []int{1, 2, 3, 4, 5, 6, 7, 8, 9, 16, 17}
			if r.Quick() {
				partN = []int{1, 2, 3, 4, 5, 8, 9}
				if !f.tiny {
					partN = []int{1, 2, 3, 5, 8, 17}
				}
			}
			for _, n := range partN {
				n := n
				jobs = append(jobs, job{name: fmt.Sprintf("sel-partition/%s/%s/n=%d", f.name, bld, n), run: func(a *acc) {
					rng := r.Rand(fmt.Sprintf("sel-partition/%s/%s/%d", f.name, bld, n))
					if n == 1 {
						// stepMask documents a panic for outputLen < 2; Partition/Slice do not mention it: recorded, no verdict
						for _, g := range []*gadget{partitionGadget(1, false), partitionGadget(1, true), sliceGadget(1)} {
							r.Eval("compile|"+f.name+"|"+bld+"|"+g.name, true)
							if _, err := compileG(f, bld, g); err != nil {
								a.count("selector.Partition/Slice.len1-compile-panic(stepMask:outputLen>=2;undocumented-in-Partition/Slice)", 1)
								a.sample("selector.Partition/len1-compile-panic", map[string]any{"field": f.name, "gadget": g.name, "error": firstLine(err)})
							} else {
								a.count("selector.Partition/Slice.len1-compiles", 1)
							}
						}
						return
					}
					aimedMask := func(input []*big.Int, nth int) func(w []*big.Int) []combo {
						return func(w []*big.Int) []combo {
							l := L("aimed(mask=wanted/input)", hStep, func(p *big.Int, in, hon []*big.Int) []*big.Int {
								o := cloneV(hon)
								for i := range o {
									inv := new(big.Int).ModInverse(input[i], p)
									if inv == nil {
										continue
									}
									o[i] = modp(new(big.Int).Mul(w[i], inv), p)
								}
								return o
							})
							if nth >= 0 {
								return []combo{{l.nth(0)}, {l.nth(1)}, {l}}
							}
							return []combo{{l}}
						}
					}
					for _, right := range []bool{false, true} {
						s := mustCompile(r, a, f, bld, partitionGadget(n, right), "selector.Partition")
						if s == nil {
							continue
						}
						for _, vec := range inputVectors(rng, f.p, n, r.Pick(1, 3)) {
							for _, pv := range selGrid(f, n, rng) {
								if f.tiny && r.Quick() && pv.Int64() > int64(n)+2 && pv.Int64() < 45 && rng.IntN(4) != 0 {
									continue
								}
								exp := partitionExpect(pv, right, vec)
								var ws [][]*big.Int
								if exp.kind == kExact {
									ws = vectorWrongs(f.p, exp.outs[0], vec, rng)
								} else {
									ws = [][]*big.Int{cloneV(vec), zerosV(n), partitionExpect(new(big.Int).Mod(pv, bi(int64(n))), right, vec).outs[0]}
								}
								runSelCase(r, a, s, selCase{fam: "selector.Partition", in: append([]*big.Int{pv}, vec...), exp: exp, cbs: singles(stepLies()), wrongs: ws,
									aimed: aimedMask(vec, -1)}, true)
							}
						}
					}
					// Slice: both masks
					s := mustCompile(r, a, f, bld, sliceGadget(n), "selector.Slice")
					if s == nil {
						return
					}
					var scbs []combo
					for _, l := range stepLies() {
						scbs = append(scbs, combo{l}, combo{l.nth(0)}, combo{l.nth(1)})
					}
					vecs := inputVectors(rng, f.p, n, 1)
					grid := selGrid(f, n, rng)
					for vi, vec := range vecs {
						for _, st := range grid {
							for _, en := range grid {
								if f.tiny && vi > 0 && (st.Int64() > int64(n)+2 || en.Int64() > int64(n)+2) {
									continue
								}
								exp := sliceExpect(st, en, vec)
								// dishonest masks: always near the valid range, sampled elsewhere
								far := func(x *big.Int) bool { return x.Cmp(bi(int64(n+1))) > 0 && x.Cmp(sub(f.p, bi(2))) < 0 }
								doL := rng.IntN(r.Pick(6, 2)) == 0
								if far(st) || far(en) {
									doL = rng.IntN(r.Pick(150, 20)) == 0
								}
								var ws [][]*big.Int
								if exp.kind == kExact {
									ws = vectorWrongs(f.p, exp.outs[0], vec, rng)
								} else {
									ws = [][]*big.Int{cloneV(vec), zerosV(n)}
									if exp.kind == kUnsatOr {
										ws = ws[:1]
									}
								}
								runSelCase(r, a, s, selCase{fam: "selector.Slice", in: append([]*big.Int{st, en}, vec...), exp: exp, cbs: scbs, wrongs: ws,
									aimed: aimedMask(vec, 0)}, doL)
							}
						}
					}
				}})
			}
		}
	}
	return jobs
}
