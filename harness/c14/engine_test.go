//go:build verif

package c14

import (
	"fmt"
	"math/big"
	"os"
	"sort"
	"strings"
	"sync/atomic"
	"time"

	"github.com/consensys/gnark-crypto/ecc"
	"github.com/consensys/gnark/backend/witness"
	"github.com/consensys/gnark/constraint"
	"github.com/consensys/gnark/constraint/solver"
	"github.com/consensys/gnark/frontend"
	"github.com/consensys/gnark/frontend/cs/r1cs"
	"github.com/consensys/gnark/frontend/cs/scs"
	"github.com/consensys/gnark/internal/smallfields/tinyfield"
	"github.com/consensys/gnark/logger"
	gbits "github.com/consensys/gnark/std/math/bits"
	"github.com/consensys/gnark/std/math/bitslice"
	"github.com/consensys/gnark/std/math/cmp"
	"github.com/consensys/gnark/std/math/uints"
	"github.com/consensys/gnark/std/selector"

	"github.com/consensys/gnark/verifharness/internal/circuits"
	"github.com/consensys/gnark/verifharness/internal/vcore"
)

func init() { logger.Disable() }

// ---------------------------------------------------------------- fields

type fieldCtx struct {
	name string
	p    *big.Int
	tiny bool
	bits int
}

var (
	fTiny = &fieldCtx{"tinyfield", tinyfield.Modulus(), true, tinyfield.Modulus().BitLen()}
	fBN   = &fieldCtx{"bn254", ecc.BN254.ScalarField(), false, ecc.BN254.ScalarField().BitLen()}
	fBLS  = &fieldCtx{"bls12-377", ecc.BLS12_377.ScalarField(), false, ecc.BLS12_377.ScalarField().BitLen()}
)

var bigFields = []*fieldCtx{fBN, fBLS}
var builders = []string{"r1cs", "scs"}

func bi(x int64) *big.Int { return big.NewInt(x) }

func modp(x, p *big.Int) *big.Int { return new(big.Int).Mod(x, p) }

func pow2(k int) *big.Int { return new(big.Int).Lsh(big.NewInt(1), uint(k)) }

func add(a, b *big.Int) *big.Int { return new(big.Int).Add(a, b) }
func sub(a, b *big.Int) *big.Int { return new(big.Int).Sub(a, b) }

func vstr(v []*big.Int) []string {
	s := make([]string, len(v))
	for i := range v {
		if v[i] == nil {
			s[i] = "nil"
		} else {
			s[i] = v[i].String()
		}
	}
	return s
}

func vkey(v []*big.Int) string { return strings.Join(vstr(v), ",") }

func veq(a, b []*big.Int) bool {
	if len(a) != len(b) {
		return false
	}
	for i := range a {
		if a[i].Cmp(b[i]) != 0 {
			return false
		}
	}
	return true
}

// ---------------------------------------------------------------- hints of the gadgets under test

type hintRef struct {
	name string
	fn   solver.Hint
	id   solver.HintID
	sig  string // name used in violation signatures (groups hints that play the same role)
}

func findHint(hs []solver.Hint, suffix string) *hintRef {
	for _, h := range hs {
		n := solver.GetHintName(h)
		if strings.HasSuffix(n, "."+suffix) {
			return &hintRef{name: suffix, fn: h, id: solver.GetHintID(h), sig: suffix}
		}
	}
	panic("hint not found: " + suffix)
}

var (
	hIsLess  = findHint(cmp.GetHints(), "isLessOutputHint")
	hMin     = findHint(cmp.GetHints(), "minOutputHint")
	hNBits   = findHint(gbits.GetHints(), "nBits")
	hStep    = findHint(selector.GetHints(), "stepOutput")
	hMuxInd  = findHint(selector.GetHints(), "muxIndicators")
	hMapInd  = findHint(selector.GetHints(), "mapIndicators")
	hPart    = findHint(bitslice.GetHints(), "partitionHint")
	hAnd     = findHint(uints.GetHints(), "andHint")
	hXor     = findHint(uints.GetHints(), "xorHint")
	hOr      = findHint(uints.GetHints(), "orHint")
	hToBytes = findHint(uints.GetHints(), "toBytes")
)

// probeHint receives the gadget's outputs as *inputs*: the harness overrides it
// per Solve call to read the value the constraint system computed for them.
func probeHint(_ *big.Int, _ []*big.Int, out []*big.Int) error {
	out[0].SetUint64(0)
	return nil
}

var probeID solver.HintID

func init() {
	hAnd.sig, hOr.sig, hXor.sig = "byte-lookup-result-hint", "byte-lookup-result-hint", "byte-lookup-result-hint"
	solver.RegisterHint(probeHint)
	probeID = solver.GetHintID(probeHint)
}

// ---------------------------------------------------------------- circuits

// gadget describes one compiled shape: a call of the code under test on nIn
// secret inputs returning nOut outputs.
type gadget struct {
	name       string
	nIn, nOut  int
	build      func(api frontend.API, in []frontend.Variable) []frontend.Variable
	hideCommit bool // hand the gadget an API value that implements only frontend.API (no Committer / Rangechecker)
}

// plainAPI is how a builder without commitment support looks to std packages.
type plainAPI struct{ frontend.API }

type gcirc struct {
	In    []frontend.Variable
	Want  []frontend.Variable `gnark:",public"`
	Check frontend.Variable   `gnark:",public"`
	g     *gadget
}

func (c *gcirc) Define(api frontend.API) error {
	a := api
	if c.g.hideCommit {
		a = plainAPI{api}
	}
	outs := c.g.build(a, c.In)
	if len(outs) != c.g.nOut {
		panic(fmt.Sprintf("harness: gadget %s returned %d outputs, declared %d", c.g.name, len(outs), c.g.nOut))
	}
	if len(outs) > 0 {
		if _, err := api.Compiler().NewHint(probeHint, 1, outs...); err != nil {
			return err
		}
	}
	// Check=0: outputs free (read through the probe). Check=1: outputs asserted equal to Want.
	for i := range outs {
		api.AssertIsEqual(api.Mul(c.Check, api.Sub(outs[i], c.Want[i])), 0)
	}
	return nil
}

type sysT struct {
	f       *fieldCtx
	builder string
	g       *gadget
	solve   func(w witness.Witness, opts ...solver.Option) (any, error)
	nbC     int
	nWant   int
}

func (s *sysT) String() string { return s.f.name + "/" + s.builder + "/" + s.g.name }

// compileG compiles the gadget; a panic inside Define comes back as an error
// (frontend.Compile recovers it) — both are reported as err.
func compileG(f *fieldCtx, builder string, g *gadget) (s *sysT, err error) {
	nWant := g.nOut
	if nWant == 0 {
		nWant = 1
	}
	c := &gcirc{In: make([]frontend.Variable, g.nIn), Want: make([]frontend.Variable, nWant), g: g}
	s = &sysT{f: f, builder: builder, g: g, nWant: nWant}
	pan, _ := vcore.Catch(func() {
		if f.tiny {
			nb := frontend.NewBuilderU32(r1cs.NewBuilder[constraint.U32])
			if builder == "scs" {
				nb = scs.NewBuilder[constraint.U32]
			}
			ccs, e := frontend.CompileU32(f.p, nb, c)
			if e != nil {
				err = e
				return
			}
			s.solve = ccs.Solve
			s.nbC = ccs.GetNbConstraints()
		} else {
			nb := frontend.NewBuilder(r1cs.NewBuilder[constraint.U64])
			if builder == "scs" {
				nb = scs.NewBuilder[constraint.U64]
			}
			ccs, e := frontend.Compile(f.p, nb, c)
			if e != nil {
				err = e
				return
			}
			s.solve = ccs.Solve
			s.nbC = ccs.GetNbConstraints()
		}
	})
	if pan != nil {
		return nil, fmt.Errorf("panic: %v", pan)
	}
	if err != nil {
		return nil, err
	}
	return s, nil
}

func firstLine(e error) string {
	s := e.Error()
	if i := strings.IndexByte(s, '\n'); i >= 0 {
		s = s[:i]
	}
	if len(s) > 200 {
		s = s[:200]
	}
	return s
}

type result struct {
	err  error
	outs []*big.Int // what the constraint system computed for the gadget outputs (nil: probe not reached)
	pan  string
}

func (r result) sat() bool { return r.err == nil && r.pan == "" }

// run solves with inputs in, outputs asserted equal to want when check is set.
func (s *sysT) run(in, want []*big.Int, check bool, extra []solver.Option) result {
	pub := make([]*big.Int, 0, s.nWant+1)
	for i := 0; i < s.nWant; i++ {
		if i < len(want) && want[i] != nil {
			pub = append(pub, modp(want[i], s.f.p))
		} else {
			pub = append(pub, new(big.Int))
		}
	}
	if check {
		pub = append(pub, bi(1))
	} else {
		pub = append(pub, bi(0))
	}
	w, err := circuits.MakeWitness(s.f.p, pub, in)
	if err != nil {
		return result{err: fmt.Errorf("harness witness: %w", err), pan: "harness"}
	}
	var res result
	var seen atomic.Pointer[[]*big.Int]
	opts := make([]solver.Option, 0, len(extra)+2)
	if s.nbC < 20000 {
		opts = append(opts, solver.WithNbTasks(1))
	} else {
		opts = append(opts, solver.WithNbTasks(4)) // lookup-table circuits
	}
	opts = append(opts, solver.OverrideHint(probeID, func(_ *big.Int, in, out []*big.Int) error {
		cp := make([]*big.Int, len(in))
		for i := range in {
			cp[i] = new(big.Int).Set(in[i])
		}
		seen.Store(&cp)
		out[0].SetUint64(0)
		return nil
	}))
	opts = append(opts, extra...)
	pan, _ := vcore.Catch(func() { _, res.err = s.solve(w, opts...) })
	if pan != nil {
		res.pan = fmt.Sprint(pan)
		res.err = fmt.Errorf("panic: %v", pan)
	}
	if p := seen.Load(); p != nil {
		res.outs = *p
	}
	return res
}

// ---------------------------------------------------------------- lies

// lieFn sees the hint's inputs and honest outputs and returns the dishonest
// outputs (nil: not applicable to this call, stay honest).
type lieFn func(p *big.Int, in, honest []*big.Int) []*big.Int

type lie struct {
	name string
	h    *hintRef
	f    lieFn
	only int // apply to the k-th call of the hint only (0-based); -1: every call
}

func L(name string, h *hintRef, f lieFn) lie { return lie{name: name, h: h, f: f, only: -1} }

func (l lie) nth(k int) lie {
	l.only = k
	l.name = fmt.Sprintf("%s@call%d", l.name, k)
	return l
}

type combo []lie

func (c combo) name() string {
	n := make([]string, len(c))
	for i := range c {
		n[i] = c[i].h.name + ":" + c[i].name
	}
	return strings.Join(n, "+")
}

// hints names the hint functions a combo replaces (stable part of violation signatures).
func (c combo) hints() string {
	seen := map[string]bool{}
	var n []string
	for i := range c {
		if !seen[c[i].h.sig] {
			seen[c[i].h.sig] = true
			n = append(n, c[i].h.sig)
		}
	}
	sort.Strings(n)
	return "dishonest(" + strings.Join(n, "+") + ")"
}

type lieStat struct {
	calls   atomic.Int64 // hint calls intercepted
	changed atomic.Int64 // calls whose outputs were altered
}

// options turns a combo into solver options; several lies on one hint are
// applied in order.
func (c combo) options(st *lieStat) []solver.Option {
	byHint := map[*hintRef][]lie{}
	var order []*hintRef
	for _, l := range c {
		if _, ok := byHint[l.h]; !ok {
			order = append(order, l.h)
		}
		byHint[l.h] = append(byHint[l.h], l)
	}
	var opts []solver.Option
	for _, h := range order {
		h := h
		ls := byHint[h]
		var callNo atomic.Int64
		opts = append(opts, solver.OverrideHint(h.id, func(m *big.Int, in, out []*big.Int) error {
			k := int(callNo.Add(1) - 1)
			st.calls.Add(1)
			hon := make([]*big.Int, len(out))
			for i := range hon {
				hon[i] = new(big.Int)
			}
			herr := h.fn(m, in, hon)
			cur := hon
			lied := false
			for _, l := range ls {
				if l.only >= 0 && l.only != k {
					continue
				}
				if herr != nil {
					// the honest function refuses these inputs: give the lie zeros to start from
					herr = nil
				}
				o := l.f(m, in, cur)
				if o == nil {
					continue
				}
				if len(o) != len(out) {
					panic("harness: lie " + l.name + " returned wrong arity")
				}
				cur = o
				lied = true
			}
			if !lied && herr != nil {
				return herr
			}
			diff := false
			for i := range out {
				out[i].Mod(cur[i], m)
				if out[i].Cmp(hon[i]) != 0 {
					diff = true
				}
			}
			if diff {
				st.changed.Add(1)
			}
			return nil
		}))
	}
	return opts
}

func cloneV(v []*big.Int) []*big.Int {
	o := make([]*big.Int, len(v))
	for i := range v {
		o[i] = new(big.Int).Set(v[i])
	}
	return o
}

// constLie makes the hint return the given vector.
func constLie(name string, h *hintRef, v []*big.Int) lie {
	return L(name, h, func(_ *big.Int, _, hon []*big.Int) []*big.Int {
		if len(v) != len(hon) {
			return nil
		}
		return cloneV(v)
	})
}

// ---------------------------------------------------------------- expectations and verdicts

type expKind int

const (
	kExact   expKind = iota // satisfiable with the honest hints, output = outs[0]; no other output acceptable
	kUnsat                  // documented: no proof can be generated
	kUnsatOr                // unsatisfiable, or one of outs
	kAny                    // documented as undefined
)

type expect struct {
	kind  expKind
	outs  [][]*big.Int
	pred  func(outs []*big.Int) bool // optional: replaces membership in outs (partial guarantees)
	class string                     // input class, part of violation signatures
}

func (e expect) allows(o []*big.Int) bool {
	if e.pred != nil {
		return e.pred(o)
	}
	for _, a := range e.outs {
		if veq(a, o) {
			return true
		}
	}
	return false
}

func exact(o ...*big.Int) expect    { return expect{kind: kExact, outs: [][]*big.Int{o}} }
func exactV(o []*big.Int) expect    { return expect{kind: kExact, outs: [][]*big.Int{o}} }
func unsat() expect                 { return expect{kind: kUnsat} }
func (e expect) in(c string) expect { e.class = c; return e }

// acc gathers counters locally (one per job) and flushes them once.
type acc struct {
	r       *vcore.Run
	m       map[string]int
	sampled map[string]bool
}

func newAcc(r *vcore.Run) *acc { return &acc{r: r, m: map[string]int{}, sampled: map[string]bool{}} }

// sample offers one written-out case per class and job to the evidence (vcore keeps one per class overall).
func (a *acc) sample(class string, v map[string]any) {
	if a.sampled[class] {
		return
	}
	a.sampled[class] = true
	a.r.SampleClass(class, v)
}
func (a *acc) count(k string, n int) { a.m[k] += n }
func (a *acc) flush() {
	keys := make([]string, 0, len(a.m))
	for k := range a.m {
		keys = append(keys, k)
	}
	sort.Strings(keys)
	for _, k := range keys {
		a.r.Count(k, a.m[k])
	}
	a.m = map[string]int{}
}

// caseT is one (compiled system, input) pair with its documented expectation.
type caseT struct {
	r        *vcore.Run
	a        *acc
	s        *sysT
	fam      string // gadget family, e.g. "cmp.bounded.IsLess" — stable
	in       []*big.Int
	exp      expect
	accepted map[string]string // accepted output vector -> how it was obtained
	honestOK bool
}

func newCase(r *vcore.Run, a *acc, s *sysT, fam string, in []*big.Int, exp expect) *caseT {
	c := &caseT{r: r, a: a, s: s, fam: fam, in: in, exp: exp, accepted: map[string]string{}}
	r.Eval(s.String()+"|"+vkey(in), true)
	a.count("cases."+fam+"."+s.f.name+"."+s.builder, 1)
	return c
}

func (c *caseT) replay(mode string, want []*big.Int, res result) map[string]any {
	m := map[string]any{"field": c.s.f.name, "builder": c.s.builder, "gadget": c.s.g.name, "family": c.fam,
		"inputs": vstr(c.in), "mode": mode, "input_class": c.exp.class, "nb_constraints": c.s.nbC}
	if want != nil {
		m["asserted_outputs"] = vstr(want)
	}
	if res.outs != nil {
		m["outputs_seen"] = vstr(res.outs)
	}
	if res.err != nil {
		m["solver_error"] = firstLine(res.err)
	}
	if len(c.exp.outs) > 0 {
		var al [][]string
		for _, o := range c.exp.outs {
			al = append(al, vstr(o))
		}
		m["documented_outputs"] = al
	}
	m["documented_kind"] = [...]string{"exact", "unsatisfiable", "unsatisfiable-or-listed", "undefined"}[c.exp.kind]
	return m
}

func (c *caseT) sig(class string) string {
	s := c.fam + "/" + class
	if c.exp.class != "" {
		s += "/" + c.exp.class
	}
	return s
}

// honest runs the gadget with its own hints.
func (c *caseT) honest() result {
	res := c.s.run(c.in, nil, false, nil)
	a := c.a
	if res.pan != "" {
		a.count("solve.panic", 1)
	}
	switch c.exp.kind {
	case kExact:
		switch {
		case !res.sat():
			a.count("honest.REFUSED-in-domain", 1)
			c.r.Violation(c.sig("honest-solve-fails-in-domain"),
				fmt.Sprintf("%s: input %v is inside the documented domain (expected output %v) but Solve with the gadget's own hints fails: %s", c.s, vstr(c.in), vstr(c.exp.outs[0]), firstLine(res.err)),
				c.replay("honest", nil, res))
		case c.s.g.nOut > 0 && !c.exp.allows(res.outs):
			a.count("honest.WRONG-output", 1)
			c.r.Violation(c.sig("honest-wrong-output"),
				fmt.Sprintf("%s: input %v: output %v, documented %v", c.s, vstr(c.in), vstr(res.outs), vstr(c.exp.outs[0])), c.replay("honest", nil, res))
		default:
			c.honestOK = true
			a.count("honest.exact."+c.fam, 1)
			c.accepted[vkey(res.outs)] = "honest"
		}
	case kUnsat:
		if res.sat() {
			a.count("honest.ACCEPTED-out-of-domain", 1)
			c.r.Violation(c.sig("accepted-where-doc-promises-no-proof"),
				fmt.Sprintf("%s: input %v is outside the documented domain (doc: no proof can be generated) but Solve succeeds with output %v", c.s, vstr(c.in), vstr(res.outs)), c.replay("honest", nil, res))
		} else {
			a.count("honest.rejected-out-of-domain."+c.fam, 1)
		}
	case kUnsatOr:
		if res.sat() {
			if c.s.g.nOut > 0 && !c.exp.allows(res.outs) {
				a.count("honest.WRONG-output", 1)
				c.r.Violation(c.sig("honest-output-not-among-documented"),
					fmt.Sprintf("%s: input %v: output %v is none of the documented possibilities", c.s, vstr(c.in), vstr(res.outs)), c.replay("honest", nil, res))
			} else {
				c.honestOK = true
				a.count("honest.sat-allowed(unsat-or-listed)."+c.fam, 1)
				c.accepted[vkey(res.outs)] = "honest"
			}
		} else {
			a.count("honest.unsat-allowed(unsat-or-listed)."+c.fam, 1)
		}
	case kAny:
		a.count("honest.undefined-domain(no-verdict)."+c.fam, 1)
	}
	return res
}

// confirm asserts the documented output with the honest hints (wiring of the
// Check/Want path and completeness under an output assertion).
func (c *caseT) confirm() {
	if c.exp.kind != kExact || c.s.g.nOut == 0 || !c.honestOK {
		return
	}
	res := c.s.run(c.in, c.exp.outs[0], true, nil)
	if !res.sat() {
		c.a.count("assert-right.REFUSED", 1)
		c.r.Violation(c.sig("right-output-assertion-refused"),
			fmt.Sprintf("%s: input %v: asserting the documented output %v makes Solve fail: %s", c.s, vstr(c.in), vstr(c.exp.outs[0]), firstLine(res.err)),
			c.replay("assert-right", c.exp.outs[0], res))
	} else {
		c.a.count("assert-right.accepted", 1)
	}
}

// lieRun solves with dishonest hints, outputs free: Solve must fail or still
// expose an allowed value.
func (c *caseT) lieRun(cb combo) {
	if c.exp.kind == kAny {
		return
	}
	var st lieStat
	res := c.s.run(c.in, nil, false, cb.options(&st))
	a := c.a
	a.count("lie.hint-calls-intercepted", int(st.calls.Load()))
	if st.changed.Load() == 0 {
		a.count("lie.not-applicable(outputs-unchanged)", 1)
		return
	}
	a.count("lie.runs."+c.fam, 1)
	if res.pan != "" {
		a.count("solve.panic", 1)
	}
	if !res.sat() {
		a.count("lie.rejected", 1)
		a.count("lie.rejected."+cb.name(), 1)
		if !a.sampled["dishonest-hint-rejected/"+topFam(c.fam)] {
			a.sample("dishonest-hint-rejected/"+topFam(c.fam), map[string]any{"system": c.s.String(), "inputs": vstr(c.in), "lie": cb.name(), "solver_said": errStr(res.err)})
		}
		return
	}
	if c.exp.kind == kUnsat {
		a.count("lie.ACCEPTED-out-of-domain", 1)
		c.r.Violation(c.sig("lying-hint-makes-out-of-domain-input-accepted")+"/"+cb.hints(),
			fmt.Sprintf("%s: input %v (doc: no proof can be generated) is accepted with dishonest hint %s, output %v", c.s, vstr(c.in), cb.name(), vstr(res.outs)),
			c.withLie(c.replay("lie", nil, res), cb))
		return
	}
	if c.s.g.nOut > 0 && !c.exp.allows(res.outs) {
		a.count("lie.ACCEPTED-wrong-output", 1)
		c.r.Violation(c.sig("lying-hint-yields-second-output")+"/"+cb.hints(),
			fmt.Sprintf("%s: input %v: with dishonest hint %s Solve succeeds and the output is %v (documented: %s)", c.s, vstr(c.in), cb.name(), vstr(res.outs), c.docStr()),
			c.withLie(c.replay("lie", nil, res), cb))
		return
	}
	a.count("lie.accepted-but-right-value", 1)
	c.accepted[vkey(res.outs)] = "lie:" + cb.name()
}

func (c *caseT) docStr() string {
	if len(c.exp.outs) == 0 {
		return "predicate"
	}
	var s []string
	for _, o := range c.exp.outs {
		s = append(s, fmt.Sprint(vstr(o)))
	}
	return strings.Join(s, " or ")
}

func (c *caseT) withLie(m map[string]any, cb combo) map[string]any {
	m["lie"] = cb.name()
	return m
}

// assertWrong asks for an output the documentation excludes, with honest hints
// and with every given dishonest combo: Solve must fail each time.
func (c *caseT) assertWrong(w []*big.Int, cbs []combo) {
	if c.exp.kind == kAny || c.s.g.nOut == 0 {
		return
	}
	if c.exp.kind != kUnsat && c.exp.allows(w) {
		return
	}
	a := c.a
	try := func(cb combo) {
		var st lieStat
		var opts []solver.Option
		name, hn := "honest-hints", "honest-hints"
		if cb != nil {
			opts = cb.options(&st)
			name, hn = cb.name(), cb.hints()
		}
		res := c.s.run(c.in, w, true, opts)
		a.count("lie.hint-calls-intercepted", int(st.calls.Load()))
		if res.sat() {
			a.count("assert-wrong.ACCEPTED", 1)
			m := c.replay("assert-wrong", w, res)
			m["lie"] = name
			c.r.Violation(c.sig("wrong-output-assertion-accepted")+"/"+hn,
				fmt.Sprintf("%s: input %v: output asserted equal to %v (documented: %s) and Solve succeeds with %s", c.s, vstr(c.in), vstr(w), c.docStr(), name), m)
		} else {
			a.count("assert-wrong.rejected", 1)
			if cb != nil {
				a.count("assert-wrong.rejected.with-aimed-lie", 1)
				if !a.sampled["wrong-output-assertion-rejected/"+topFam(c.fam)] {
					a.sample("wrong-output-assertion-rejected/"+topFam(c.fam), map[string]any{"system": c.s.String(), "inputs": vstr(c.in), "asserted_output": vstr(w), "documented": c.docStr(), "lie": name, "solver_said": errStr(res.err)})
				}
			}
		}
	}
	try(nil)
	for _, cb := range cbs {
		try(cb)
	}
}

// finish checks the "always well-defined and deterministic" clause: at most one
// output was accepted over all runs of this input.
func (c *caseT) finish() {
	if c.exp.kind == kAny || c.exp.pred != nil { // pred: only a partial guarantee is documented
		return
	}
	if len(c.accepted) > 1 {
		var ks []string
		for k, how := range c.accepted {
			ks = append(ks, k+" via "+how)
		}
		sort.Strings(ks)
		c.a.count("deterministic.TWO-OUTPUTS", 1)
		c.r.Violation(c.sig("two-accepted-outputs"),
			fmt.Sprintf("%s: input %v: several different outputs accepted: %v", c.s, vstr(c.in), ks),
			map[string]any{"field": c.s.f.name, "builder": c.s.builder, "gadget": c.s.g.name, "inputs": vstr(c.in), "accepted": ks})
	}
}

func topFam(fam string) string {
	if i := strings.IndexByte(fam, '.'); i > 0 {
		return fam[:i]
	}
	return fam
}

// ---------------------------------------------------------------- jobs

type job struct {
	name string
	run  func(a *acc)
}

func runJobs(r *vcore.Run, jobs []job, workers int) {
	vcore.Parallel(len(jobs), workers, func(i int) {
		a := newAcc(r)
		t0 := time.Now()
		pan, st := vcore.Catch(func() { jobs[i].run(a) })
		a.flush()
		if os.Getenv("C14_TIMES") != "" {
			fmt.Printf("JOBTIME %8.2fs %s\n", time.Since(t0).Seconds(), jobs[i].name)
		}
		if pan != nil {
			r.T.Errorf("BROKEN-CHECK property=C14: harness job %s panicked: %v\n%s", jobs[i].name, pan, st)
		}
	})
}

// mustCompile compiles and reports a violation if a documented-valid
// configuration is refused.
func mustCompile(r *vcore.Run, a *acc, f *fieldCtx, b string, g *gadget, fam string) *sysT {
	s, err := compileG(f, b, g)
	if err != nil {
		a.count("compile.REFUSED-valid-config", 1)
		r.Violation(fam+"/compile-fails-on-valid-configuration", fmt.Sprintf("%s/%s/%s: %s", f.name, b, g.name, firstLine(err)),
			map[string]any{"field": f.name, "builder": b, "gadget": g.name, "error": firstLine(err)})
		return nil
	}
	a.count("compiled."+f.name+"."+b, 1)
	return s
}
