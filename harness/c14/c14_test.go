//go:build verif

// C14 — comparison, selection, bit-slice and small-integer gadgets have exact
// semantics.  Reference-model + adversarial-execution monitor: the real gadget
// code of std/math/cmp, std/selector, std/math/bitslice and std/math/uints is
// compiled with both builders (over the 47-element field exhaustively, over
// bn254 / bls12-377 on edge grids) and solved (a) with its own hints against a
// direct integer oracle that encodes the documented domain and (b) with
// dishonest hints; Solve must fail or still expose the documented value, and
// no wrong output may be assertable.
package c14

import (
	"os"
	"runtime/debug"
	"strings"
	"testing"

	"github.com/consensys/gnark/verifharness/internal/vcore"
)

func TestC14(t *testing.T) {
	r := vcore.Start(t, "C14")
	defer debug.SetGCPercent(debug.SetGCPercent(600)) // millions of tiny solves: allocation-bound
	only := os.Getenv("C14_ONLY")                     // debugging aid: comma-separated family prefixes
	want := func(name string) bool {
		if only == "" {
			return true
		}
		for _, p := range strings.Split(only, ",") {
			if strings.HasPrefix(name, p) {
				return true
			}
		}
		return false
	}
	var jobs []job
	addAll := func(js []job) {
		for _, j := range js {
			if want(j.name) {
				jobs = append(jobs, j)
			}
		}
	}
	// long jobs first
	addAll(uintsJobs(r))
	addAll(boundedTinyJobs(r))
	addAll(boundedBigJobs(r))
	addAll(genericTinyJobs(r))
	addAll(genericBigJobs(r))
	addAll(binaryJobs(r))
	addAll(selectorJobs(r))
	addAll(bitsliceJobs(r))
	r.Count("jobs", len(jobs))
	runJobs(r, jobs, 12)

	if only == "" {
		for _, fam := range []string{"cmp.bounded.IsLess", "cmp.bounded.IsLessEq", "cmp.bounded.Min", "cmp.bounded.AssertIsLess", "cmp.bounded.AssertIsLessEq",
			"cmp.generic.IsLess", "cmp.generic.IsLessOrEqual", "cmp.generic.IsEqual", "cmp.generic.IsLessBinary", "cmp.generic.IsLessOrEqualBinary",
			"selector.Mux", "selector.Map", "selector.KeyDecoder", "selector.Decoder", "selector.Slice", "selector.Partition", "selector.BinaryMux",
			"bitslice.Partition", "uints.Add", "uints.bitwise", "uints.rotate-shift", "uints.conversion"} {
			var n int64
			for _, b := range builders {
				for _, f := range []string{"tinyfield", "bn254", "bls12-377"} {
					n += r.Counter("cases." + fam + "." + f + "." + b)
				}
			}
			if n < 20 {
				t.Errorf("BROKEN-CHECK property=C14: only %d cases of family %s", n, fam)
			}
		}
		r.Require("lie.hint-calls-intercepted", 10000)
		r.Require("lie.rejected", 5000)
		r.Require("assert-wrong.rejected", 2000)
		r.Require("assert-wrong.rejected.with-aimed-lie", 1000)
		r.Require("assert-right.accepted", 2000)
		r.Require("cmp.bounded.constructor-panics-as-documented", 10)
		r.Require("cmp.bounded.expect.exact", 1000)
		r.Require("cmp.bounded.expect.no-proof", 1000)
		r.Require("cmp.bounded.expect.no-proof-or-listed", 1000)
		r.Require("cmp.bounded.expect.undefined", 10)
	}
	r.Finish("exploration",
		"case = (field, builder, gadget configuration incl. constants/lengths/absDiffUpp, input vector); each case is compiled gadget code solved with its own hints and compared with a direct integer implementation of the doc comments (exact inside the documented domain; 'no proof' where promised; 'no proof or listed value' in the bounded comparator's intermediate regimes; no verdict where documented undefined), then re-solved with dishonest hint functions (generic and aimed at a chosen wrong output) and with each wrong output asserted. tinyfield: all pairs / all selector values; bn254, bls12-377: edge grids. distinct = hash(system, inputs); non-trivial = the compiled system was solved at least once for the case",
		[]string{
			"soundness of the commitment-based range checks / lookup tables used by bitslice and uints on large fields is C13's subject: the Solve-only runs here use gnark's random placeholder commitment, a lie surviving with probability ~2^-250 is treated as never",
			"a field element stands for any signed integer congruent to it (BoundedComparator doc: 'a and b can be any signed integers'); only the readings |a-b| in {d, p-d} are used",
			"behaviour documented as undefined (duplicate keys in Map, allowNonDeterministicBehaviour beyond the threshold, bitslice.WithUnconstrainedOutputs outputs under dishonest hints) gets no verdict",
			"uints: witness-assigned U8 values are only exercised inside 0..255 (package doc: range of non-internal bytes is not enforced)",
		})
}
