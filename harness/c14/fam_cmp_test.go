//go:build verif

package c14

import (
	"fmt"
	"math/big"
	"math/rand/v2"

	"github.com/consensys/gnark/frontend"
	"github.com/consensys/gnark/std/math/cmp"

	"github.com/consensys/gnark/verifharness/internal/vcore"
)

// ======================================================================
// BoundedComparator
// ======================================================================

type bMethod int

const (
	mIsLess bMethod = iota
	mIsLessEq
	mMin
	mAssertLess
	mAssertLessEq
)

var bMethodNames = [...]string{"IsLess", "IsLessEq", "Min", "AssertIsLess", "AssertIsLessEq"}

func (m bMethod) hasOutput() bool { return m <= mMin }

// boundedGadget: constA / constB non-nil make that operand a circuit constant.
func boundedGadget(U *big.Int, nondet bool, m bMethod, constA, constB *big.Int) *gadget {
	nIn := 2
	if constA != nil {
		nIn--
	}
	if constB != nil {
		nIn--
	}
	name := fmt.Sprintf("cmp.NewBoundedComparator(absDiffUpp=%s,allowNonDet=%v).%s(", U, nondet, bMethodNames[m])
	if constA != nil {
		name += "const " + constA.String()
	} else {
		name += "a"
	}
	if constB != nil {
		name += ",const " + constB.String() + ")"
	} else {
		name += ",b)"
	}
	nOut := 0
	if m.hasOutput() {
		nOut = 1
	}
	return &gadget{name: name, nIn: nIn, nOut: nOut, build: func(api frontend.API, in []frontend.Variable) []frontend.Variable {
		bc := cmp.NewBoundedComparator(api, new(big.Int).Set(U), nondet)
		var a, b frontend.Variable
		k := 0
		if constA != nil {
			a = new(big.Int).Set(constA)
		} else {
			a = in[k]
			k++
		}
		if constB != nil {
			b = new(big.Int).Set(constB)
		} else {
			b = in[k]
		}
		switch m {
		case mIsLess:
			return []frontend.Variable{bc.IsLess(a, b)}
		case mIsLessEq:
			return []frontend.Variable{bc.IsLessEq(a, b)}
		case mMin:
			return []frontend.Variable{bc.Min(a, b)}
		case mAssertLess:
			bc.AssertIsLess(a, b)
		case mAssertLessEq:
			bc.AssertIsLessEq(a, b)
		}
		return nil
	}}
}

// ctorOracle encodes the doc comment of NewBoundedComparator: "absDiffUpp must
// be a positive number, and P - absDiffUpp - 1 must have a longer binary
// representation than absDiffUpp ... panics when the provided value is not
// positive or is too big".  mayPanic: the determinism requirement
// P > 2^(bitlen+1), stated in the function's own comments only.
func ctorOracle(p, U *big.Int, nondet bool) (mustPanic, mayPanic bool) {
	if U.Sign() <= 0 || U.Cmp(p) >= 0 {
		return true, true
	}
	sn := sub(sub(p, U), bi(1))
	if sn.BitLen() <= U.BitLen() {
		return true, true
	}
	if !nondet && p.Cmp(pow2(U.BitLen()+1)) <= 0 {
		return false, true
	}
	return false, false
}

// boundedExpect is the documented behaviour of method m on field elements a, b.
//
// A field element stands for any signed integer congruent to it, so the pair
// (a,b) with d=(a-b) mod p is read both as "a >= b with |a-b| = d" and (d != 0)
// as "a < b with |a-b| = p-d".  For each reading the doc gives three regimes by
// D=|a-b| (L = bitlen(absDiffUpp), T = p - 2^L):
//
//	D <= absDiffUpp        exact
//	absDiffUpp < D < T     no proof, or exact
//	D >= T                 no proof, or reversed result (deterministic) — undefined with allowNonDeterministicBehaviour
//
// The expectation is the intersection over both readings.
func boundedExpect(p, U *big.Int, nondet bool, m bMethod, a, b *big.Int) expect {
	d := modp(sub(a, b), p)
	L := U.BitLen()
	T := sub(p, pow2(L))
	type allowT struct {
		unsatOK bool
		satOK   bool
		vals    map[string]*big.Int // allowed outputs when sat (value methods)
		any     bool
	}
	// reading: ge=true (a>=b, D=d), ge=false (a<b, D=p-d)
	reading := func(ge bool) (al allowT, regime int) {
		D := new(big.Int).Set(d)
		if !ge {
			D = sub(p, d)
		}
		switch {
		case D.Cmp(U) <= 0:
			regime = 1
		case D.Cmp(T) < 0:
			regime = 2
		default:
			regime = 3
		}
		// exact result under this reading
		var ex, rev *big.Int
		exSat := true
		switch m {
		case mIsLess:
			if ge {
				ex, rev = bi(0), bi(1)
			} else {
				ex, rev = bi(1), bi(0)
			}
		case mIsLessEq:
			if ge && d.Sign() != 0 {
				ex, rev = bi(0), bi(1)
			} else {
				ex, rev = bi(1), bi(0)
			}
		case mMin:
			if ge {
				ex, rev = b, a
			} else {
				ex, rev = a, b
			}
		case mAssertLess:
			exSat = !ge
		case mAssertLessEq:
			exSat = !ge || d.Sign() == 0
		}
		al.vals = map[string]*big.Int{}
		if m.hasOutput() {
			switch regime {
			case 1:
				al.satOK = true
				al.vals[ex.String()] = ex
			case 2:
				al.satOK, al.unsatOK = true, true
				al.vals[ex.String()] = ex
			case 3:
				if nondet {
					al.any = true
				} else {
					al.satOK, al.unsatOK = true, true
					al.vals[rev.String()] = rev
				}
			}
		} else {
			switch regime {
			case 1:
				al.satOK, al.unsatOK = exSat, !exSat
			case 2:
				al.unsatOK = true
				al.satOK = exSat // "no proof or works correctly": a true relation may be proved, a false one may not
			case 3:
				if nondet {
					al.any = true
				} else {
					al.satOK, al.unsatOK = true, true // no proof, or reversed (= either satisfiability)
				}
			}
		}
		return
	}
	ge, rg := reading(true)
	cls := fmt.Sprintf("regime%d", rg)
	var lt allowT
	haveLT := d.Sign() != 0
	if haveLT {
		var rl int
		lt, rl = reading(false)
		if rl < rg {
			cls = fmt.Sprintf("regime%d", rl)
		}
	}
	// sub-class (for signatures): the two operands handed to the indicator / minimum hint lie on opposite
	// sides of (p-1)/2.  IsLessEq(a,b) is IsLess(a,b+1), so its hint sees b+1.
	half := new(big.Int).Rsh(p, 1)
	hb := b
	if m == mIsLessEq {
		hb = modp(add(b, bi(1)), p)
	}
	if m.hasOutput() && a.Cmp(half)*hb.Cmp(half) == -1 {
		cls += ",hint-operands-on-opposite-sides-of-p/2"
	}
	combine := func(x, y allowT) allowT {
		if x.any {
			return y
		}
		if y.any {
			return x
		}
		o := allowT{unsatOK: x.unsatOK && y.unsatOK, vals: map[string]*big.Int{}}
		if m.hasOutput() {
			for k, v := range x.vals {
				if _, ok := y.vals[k]; ok && x.satOK && y.satOK {
					o.vals[k] = v
				}
			}
			o.satOK = len(o.vals) > 0
		} else {
			o.satOK = x.satOK && y.satOK
		}
		return o
	}
	al := ge
	if haveLT {
		al = combine(ge, lt)
	}
	if al.any {
		return expect{kind: kAny, class: cls}
	}
	var outs [][]*big.Int
	for _, v := range al.vals {
		outs = append(outs, []*big.Int{new(big.Int).Set(v)})
	}
	switch {
	case al.satOK && !al.unsatOK:
		if m.hasOutput() {
			if len(outs) != 1 {
				panic("harness: bounded oracle in-domain with !=1 outputs")
			}
			return expect{kind: kExact, outs: outs, class: cls}
		}
		return expect{kind: kExact, outs: [][]*big.Int{{}}, class: cls}
	case !al.satOK && al.unsatOK:
		return expect{kind: kUnsat, class: cls}
	case al.satOK && al.unsatOK:
		if m.hasOutput() {
			return expect{kind: kUnsatOr, outs: outs, class: cls}
		}
		return expect{kind: kUnsatOr, outs: [][]*big.Int{{}}, class: cls}
	}
	panic(fmt.Sprintf("harness: bounded oracle empty for p=%s U=%s a=%s b=%s m=%d", p, U, a, b, m))
}

// ---- dishonest hints of the comparators

func isLessLies() []lie {
	return []lie{
		L("flip", hIsLess, func(p *big.Int, _, h []*big.Int) []*big.Int { return []*big.Int{sub(bi(1), h[0])} }),
		L("two", hIsLess, func(p *big.Int, _, h []*big.Int) []*big.Int { return []*big.Int{bi(2)} }),
		L("minus-one", hIsLess, func(p *big.Int, _, h []*big.Int) []*big.Int { return []*big.Int{sub(p, bi(1))} }),
	}
}

func minLies() []lie {
	return []lie{
		L("max", hMin, func(p *big.Int, in, h []*big.Int) []*big.Int { return []*big.Int{sub(add(in[0], in[1]), h[0])} }),
		L("first", hMin, func(p *big.Int, in, h []*big.Int) []*big.Int { return []*big.Int{new(big.Int).Set(in[0])} }),
		L("second", hMin, func(p *big.Int, in, h []*big.Int) []*big.Int { return []*big.Int{new(big.Int).Set(in[1])} }),
		L("min-1", hMin, func(p *big.Int, in, h []*big.Int) []*big.Int { return []*big.Int{sub(h[0], bi(1))} }),
		L("min+1", hMin, func(p *big.Int, in, h []*big.Int) []*big.Int { return []*big.Int{add(h[0], bi(1))} }),
		L("midpoint", hMin, func(p *big.Int, in, h []*big.Int) []*big.Int {
			inv2 := new(big.Int).ModInverse(bi(2), p)
			return []*big.Int{modp(new(big.Int).Mul(add(in[0], in[1]), inv2), p)}
		}),
		L("zero", hMin, func(p *big.Int, in, h []*big.Int) []*big.Int { return []*big.Int{bi(0)} }),
	}
}

func bitsOf(x *big.Int, n int) []*big.Int {
	o := make([]*big.Int, n)
	for i := range o {
		o[i] = bi(int64(x.Bit(i)))
	}
	return o
}

// nBitsLies: dishonest binary decompositions of x into n digits.
func nBitsLies() []lie {
	return []lie{
		// the integer x+p has the same residue: a decomposition of it recomposes to x in the field
		L("alias(x+p)", hNBits, func(p *big.Int, in, h []*big.Int) []*big.Int {
			y := add(in[0], p)
			if y.BitLen() > len(h) {
				return nil
			}
			return bitsOf(y, len(h))
		}),
		// value too wide: put the whole excess into the top digit (recomposes, top digit not boolean)
		L("oversized-top-digit", hNBits, func(p *big.Int, in, h []*big.Int) []*big.Int {
			n := len(h)
			if in[0].BitLen() <= n {
				return nil
			}
			o := bitsOf(in[0], n)
			o[n-1] = new(big.Int).Rsh(in[0], uint(n-1))
			return o
		}),
		// digit 2 below, -1 above: recomposes to x
		L("digits(+2,-1)", hNBits, func(p *big.Int, in, h []*big.Int) []*big.Int {
			if len(h) < 2 {
				return nil
			}
			o := cloneV(h)
			o[0] = add(o[0], bi(2))
			o[1] = sub(o[1], bi(1))
			return o
		}),
		// negative value -k: hand out the bits of k
		L("bits-of(-x)", hNBits, func(p *big.Int, in, h []*big.Int) []*big.Int {
			k := modp(new(big.Int).Neg(in[0]), p)
			if k.BitLen() > len(h) {
				return nil
			}
			return bitsOf(k, len(h))
		}),
		L("flip-bit0", hNBits, func(p *big.Int, in, h []*big.Int) []*big.Int {
			o := cloneV(h)
			o[0] = sub(bi(1), o[0])
			return o
		}),
		// too wide: field-exact top digit so that the recomposition holds with boolean low digits
		L("top-digit-absorbs-(x-low)/2^(n-1)", hNBits, func(p *big.Int, in, h []*big.Int) []*big.Int {
			n := len(h)
			if in[0].BitLen() <= n || n < 2 {
				return nil
			}
			o := cloneV(h)
			low := new(big.Int)
			for i := 0; i < n-1; i++ {
				if o[i].Sign() != 0 {
					low.Add(low, pow2(i))
				}
			}
			inv := new(big.Int).ModInverse(pow2(n-1), p)
			o[n-1] = modp(new(big.Int).Mul(sub(in[0], low), inv), p)
			return o
		}),
	}
}

// comparatorCombos: the dishonest strategies tried against comparator circuits.
// With a flipped indicator the (honest) nBits hint already yields the low bits
// of the other difference — the most consistent completion — and the nBits
// lies add the inconsistent completions on top of it.
func comparatorCombos(withIsLess, withMin bool) []combo {
	var cbs []combo
	nb := nBitsLies()
	for _, l := range nb {
		cbs = append(cbs, combo{l})
	}
	if withIsLess {
		for _, l := range isLessLies() {
			cbs = append(cbs, combo{l})
		}
		flip := isLessLies()[0]
		for _, l := range nb {
			cbs = append(cbs, combo{flip, l})
		}
	}
	if withMin {
		for _, l := range minLies() {
			cbs = append(cbs, combo{l})
		}
		mx := minLies()[0]
		for _, l := range nb {
			cbs = append(cbs, combo{mx, l})
		}
	}
	return cbs
}

// aimed strategies for a chosen wrong output w of a comparator
func aimedComparator(m bMethod, w *big.Int) []combo {
	var base lie
	switch m {
	case mIsLess, mIsLessEq:
		base = constLie("aimed(indicator=wanted)", hIsLess, []*big.Int{w})
	case mMin:
		base = constLie("aimed(min=wanted)", hMin, []*big.Int{w})
	default:
		return nil
	}
	cbs := []combo{{base}}
	nb := nBitsLies()
	for _, l := range []lie{nb[0], nb[2], nb[3]} {
		cbs = append(cbs, combo{base, l})
	}
	return cbs
}

func wrongOutputsFor(p *big.Int, m bMethod, a, b *big.Int, exp expect, all bool) []*big.Int {
	var ws []*big.Int
	if m == mMin {
		ws = []*big.Int{a, b, modp(add(a, bi(1)), p), modp(sub(b, bi(1)), p), bi(0)}
		if all && p.BitLen() < 16 {
			ws = nil
			for v := int64(0); v < p.Int64(); v++ {
				ws = append(ws, bi(v))
			}
		}
	} else {
		ws = []*big.Int{bi(0), bi(1), bi(2), sub(p, bi(1))}
	}
	var o []*big.Int
	for _, w := range ws {
		if exp.kind != kUnsat && exp.allows([]*big.Int{w}) {
			continue
		}
		o = append(o, w)
	}
	return o
}

func runBoundedCase(r *vcore.Run, a *acc, s *sysT, p, U *big.Int, nondet bool, m bMethod, av, bv *big.Int, in []*big.Int, doLies, doAssert, allWrong bool) {
	fam := "cmp.bounded." + bMethodNames[m]
	exp := boundedExpect(p, U, nondet, m, av, bv)
	c := newCase(r, a, s, fam, in, exp)
	a.count("cmp.bounded.inputs."+exp.class, 1)
	res := c.honest()
	if exp.kind == kExact {
		a.sample("cmp.bounded/honest-exact", map[string]any{"system": s.String(), "a": av.String(), "b": bv.String(), "outputs": vstr(res.outs)})
	} else if exp.kind == kUnsat {
		a.sample("cmp.bounded/out-of-domain-rejected", map[string]any{"system": s.String(), "a": av.String(), "b": bv.String(), "class": exp.class, "solver_said": errStr(res.err)})
	}
	a.count("cmp.bounded.expect."+[...]string{"exact", "no-proof", "no-proof-or-listed", "undefined"}[exp.kind], 1)
	if doLies {
		c.confirm()
		for _, cb := range comparatorCombos(m == mIsLess || m == mIsLessEq, m == mMin) {
			c.lieRun(cb)
		}
	}
	if doAssert && m.hasOutput() {
		for _, w := range wrongOutputsFor(p, m, av, bv, exp, allWrong) {
			c.assertWrong([]*big.Int{w}, aimedComparator(m, w))
		}
	}
	c.finish()
}

func errStr(e error) string {
	if e == nil {
		return "<nil>"
	}
	return firstLine(e)
}

// ---- tinyfield: every absDiffUpp, every pair

func boundedTinyJobs(r *vcore.Run) []job {
	var jobs []job
	p := fTiny.p
	for _, bld := range builders {
		for u := int64(-1); u <= 48; u++ {
			for _, nondet := range []bool{false, true} {
				U := bi(u)
				bld, nondet := bld, nondet
				jobs = append(jobs, job{name: fmt.Sprintf("bounded-tiny/%s/U=%d/%v", bld, u, nondet), run: func(a *acc) {
					must, may := ctorOracle(p, U, nondet)
					for m := mIsLess; m <= mAssertLessEq; m++ {
						g := boundedGadget(U, nondet, m, nil, nil)
						s, err := compileG(fTiny, bld, g)
						r.Eval("ctor|"+fTiny.name+"|"+bld+"|"+g.name, true)
						if err == nil && !must && nondet && r.Quick() && u != 7 && u != 15 {
							// the flag only changes the constructor's acceptance (never below 2^(L+1) < p here)
							a.count("compiled.tinyfield."+bld, 1)
							continue
						}
						if err != nil {
							if !may {
								a.count("compile.REFUSED-valid-config", 1)
								r.Violation("cmp.bounded/constructor-refuses-valid-absDiffUpp", fmt.Sprintf("tinyfield absDiffUpp=%d nondet=%v: %s", u, nondet, firstLine(err)),
									map[string]any{"field": "tinyfield", "absDiffUpp": u, "allowNonDet": nondet, "error": firstLine(err)})
							} else {
								a.count("cmp.bounded.constructor-panics-as-documented", 1)
								a.sample("cmp.bounded/constructor-panic", map[string]any{"field": "tinyfield", "absDiffUpp": u, "allowNonDet": nondet, "error": firstLine(err)})
							}
							continue
						}
						if must {
							a.count("compile.ACCEPTED-invalid-config", 1)
							r.Violation("cmp.bounded/constructor-accepts-invalid-absDiffUpp", fmt.Sprintf("tinyfield absDiffUpp=%d nondet=%v compiled; doc: panics when not positive or too big", u, nondet),
								map[string]any{"field": "tinyfield", "absDiffUpp": u, "allowNonDet": nondet})
							continue
						}
						a.count("compiled.tinyfield."+bld, 1)
						// honest hints: every pair.  Dishonest hints: the constraints only see d=a-b, the hints see
						// (a,b): every difference d with 2 (quick) / 12 (thorough) choices of a.
						rng := r.Rand(fmt.Sprintf("bounded-tiny/%s/%d/%v/%d", bld, u, nondet, m))
						pick := map[[2]int64]bool{}
						for d := int64(0); d < 47; d++ {
							for k := 0; k < r.Pick(2, 12); k++ {
								pick[[2]int64{d, int64(rng.IntN(47))}] = true
							}
							pick[[2]int64{d, 23}] = true // a at (p-1)/2
						}
						// quick: the PLONK builder runs every pair for the widths that move bitlen(absDiffUpp), a third otherwise
						thin := r.Quick() && bld == "scs" && !(u == 1 || u == 2 || u == 3 || u == 4 || u == 7 || u == 8 || u == 15)
						for x := int64(0); x < 47; x++ {
							for y := int64(0); y < 47; y++ {
								doL := pick[[2]int64{(x - y + 47) % 47, x}]
								if thin && !doL && (x+y)%3 != int64(u%3) {
									continue
								}
								runBoundedCase(r, a, s, p, U, nondet, m, bi(x), bi(y), []*big.Int{bi(x), bi(y)}, doL, doL, r.Thorough() && u%4 == 3)
							}
						}
					}
				}})
			}
		}
	}
	// constant operands: absDiffUpp in {3,7,15}, every constant on either side
	for _, bld := range builders {
		for _, u := range []int64{3, 7, 15} {
			for m := mIsLess; m <= mAssertLessEq; m++ {
				bld, u, m := bld, u, m
				jobs = append(jobs, job{name: fmt.Sprintf("bounded-tiny-const/%s/U=%d/%s", bld, u, bMethodNames[m]), run: func(a *acc) {
					U := bi(u)
					for cst := int64(0); cst < 47; cst++ {
						if r.Quick() && cst%3 != int64(r.Seed%3+3)%3 && cst != 0 && cst != 46 && cst != 23 && cst != 24 {
							continue
						}
						for side := 0; side < 2; side++ {
							var g *gadget
							if side == 0 {
								g = boundedGadget(U, false, m, bi(cst), nil)
							} else {
								g = boundedGadget(U, false, m, nil, bi(cst))
							}
							s := mustCompile(r, a, fTiny, bld, g, "cmp.bounded")
							if s == nil {
								continue
							}
							for x := int64(0); x < 47; x++ {
								av, bv := bi(cst), bi(x)
								if side == 1 {
									av, bv = bi(x), bi(cst)
								}
								runBoundedCase(r, a, s, p, U, false, m, av, bv, []*big.Int{bi(x)}, true, x%5 == cst%5, false)
							}
						}
					}
				}})
			}
		}
	}
	return jobs
}

// ---- large fields: edge grid around the documented thresholds

func boundedBigJobs(r *vcore.Run) []job {
	var jobs []job
	for _, f := range bigFields {
		p := f.p
		nb := f.bits
		type cfg struct {
			U      *big.Int
			nondet bool
		}
		cfgs := []cfg{
			{bi(1), false}, {bi(255), false}, {bi(256), false}, {pow2(64), false},
			{sub(pow2(nb-2), bi(1)), false}, // bitlen nb-2: the largest deterministic width
			{sub(pow2(nb-1), bi(1)), true},  // bitlen nb-1: only with allowNonDeterministicBehaviour (when the constructor takes it)
			{pow2(nb - 2), false},           // bitlen nb-1 without the flag: constructor decides
			{pow2(nb - 2), true},            // bn254: valid only with the flag (p <= 2^(L+1)): the documented-undefined regime exists
			{bi(0), false}, {new(big.Int).Set(p), true}, {sub(p, bi(1)), true}, {bi(-5), false},
		}
		if r.Thorough() {
			cfgs = append(cfgs, cfg{bi(2), false}, cfg{sub(pow2(32), bi(1)), false}, cfg{add(pow2(128), bi(5)), false},
				cfg{bi(3), true}, cfg{bi(7), false}, cfg{sub(pow2(100), bi(1)), false}, cfg{pow2(nb - 3), false}, cfg{pow2(nb - 3), true})
		}
		for _, bld := range builders {
			for _, cf := range cfgs {
				f, bld, cf := f, bld, cf
				jobs = append(jobs, job{name: fmt.Sprintf("bounded-big/%s/%s/U=%s", f.name, bld, cf.U), run: func(a *acc) {
					must, may := ctorOracle(p, cf.U, cf.nondet)
					rng := r.Rand(fmt.Sprintf("bounded-big/%s/%s/%s/%v", f.name, bld, cf.U, cf.nondet))
					for m := mIsLess; m <= mAssertLessEq; m++ {
						g := boundedGadget(cf.U, cf.nondet, m, nil, nil)
						s, err := compileG(f, bld, g)
						r.Eval("ctor|"+f.name+"|"+bld+"|"+g.name, true)
						if err != nil {
							if !may {
								a.count("compile.REFUSED-valid-config", 1)
								r.Violation("cmp.bounded/constructor-refuses-valid-absDiffUpp", fmt.Sprintf("%s absDiffUpp=%s nondet=%v: %s", f.name, cf.U, cf.nondet, firstLine(err)),
									map[string]any{"field": f.name, "absDiffUpp": cf.U.String(), "allowNonDet": cf.nondet, "error": firstLine(err)})
							} else {
								a.count("cmp.bounded.constructor-panics-as-documented", 1)
							}
							continue
						}
						if must {
							a.count("compile.ACCEPTED-invalid-config", 1)
							r.Violation("cmp.bounded/constructor-accepts-invalid-absDiffUpp", fmt.Sprintf("%s absDiffUpp=%s nondet=%v compiled", f.name, cf.U, cf.nondet),
								map[string]any{"field": f.name, "absDiffUpp": cf.U.String(), "allowNonDet": cf.nondet})
							continue
						}
						a.count("compiled."+f.name+"."+bld, 1)
						as, ds := boundedGrid(p, cf.U, rng)
						for _, d := range ds {
							k1, k2 := rng.IntN(len(as)), rng.IntN(len(as))
							for ai, av := range as {
								bv := modp(sub(av, d), p)
								doL := ai == k1 || (r.Thorough() && (ai == k2 || ai == 4))
								runBoundedCase(r, a, s, p, cf.U, cf.nondet, m, av, bv, []*big.Int{av, bv}, doL, doL, false)
							}
						}
					}
				}})
			}
		}
	}
	return jobs
}

func randBelow(rng *rand.Rand, n *big.Int) *big.Int {
	if n.Sign() <= 0 {
		return new(big.Int)
	}
	b := make([]byte, (n.BitLen()+7)/8+8)
	for i := range b {
		b[i] = byte(rng.UintN(256))
	}
	return new(big.Int).Mod(new(big.Int).SetBytes(b), n)
}

// boundedGrid: base operands a and differences d=a-b around 0, absDiffUpp,
// 2^L and T=p-2^L (both signs), and around p/2.
func boundedGrid(p, U *big.Int, rng *rand.Rand) (as, ds []*big.Int) {
	half := new(big.Int).Rsh(p, 1)
	L := U.BitLen()
	T := sub(p, pow2(L))
	as = []*big.Int{bi(0), bi(1), new(big.Int).Set(U), pow2(L), sub(half, bi(1)), half, add(half, bi(1)), sub(p, bi(1)), sub(p, bi(2)), randBelow(rng, p)}
	raw := []*big.Int{bi(0), bi(1), bi(2), sub(U, bi(1)), U, add(U, bi(1)), sub(pow2(L), bi(1)), pow2(L), add(pow2(L), bi(1)),
		sub(T, bi(1)), T, add(T, bi(1)), half, add(half, bi(1)), randBelow(rng, add(U, bi(1))), randBelow(rng, p)}
	seen := map[string]bool{}
	for _, x := range raw {
		for _, sgn := range []int{1, -1} {
			v := new(big.Int).Set(x)
			if sgn < 0 {
				v.Neg(v)
			}
			v = modp(v, p)
			if !seen[v.String()] {
				seen[v.String()] = true
				ds = append(ds, v)
			}
		}
	}
	for i := range as {
		as[i] = modp(as[i], p)
	}
	return
}

// ======================================================================
// generic comparison: IsLess / IsLessOrEqual / IsEqual / *Binary
// ======================================================================

type gMethod int

const (
	gIsLess gMethod = iota
	gIsLessOrEqual
	gIsEqual
)

var gMethodNames = [...]string{"IsLess", "IsLessOrEqual", "IsEqual"}

func genericGadget(m gMethod, constA, constB *big.Int) *gadget {
	nIn := 2
	name := "cmp." + gMethodNames[m] + "("
	if constA != nil {
		nIn--
		name += "const " + constA.String()
	} else {
		name += "a"
	}
	if constB != nil {
		nIn--
		name += ",const " + constB.String() + ")"
	} else {
		name += ",b)"
	}
	return &gadget{name: name, nIn: nIn, nOut: 1, build: func(api frontend.API, in []frontend.Variable) []frontend.Variable {
		var a, b frontend.Variable
		k := 0
		if constA != nil {
			a = new(big.Int).Set(constA)
		} else {
			a = in[k]
			k++
		}
		if constB != nil {
			b = new(big.Int).Set(constB)
		} else {
			b = in[k]
		}
		switch m {
		case gIsLess:
			return []frontend.Variable{cmp.IsLess(api, a, b)}
		case gIsLessOrEqual:
			return []frontend.Variable{cmp.IsLessOrEqual(api, a, b)}
		}
		return []frontend.Variable{cmp.IsEqual(api, a, b)}
	}}
}

// documented: a, b integers in [0,P-1]; plain integer comparison
func genericExpect(m gMethod, a, b *big.Int) expect {
	c := a.Cmp(b)
	v := int64(0)
	switch m {
	case gIsLess:
		if c < 0 {
			v = 1
		}
	case gIsLessOrEqual:
		if c <= 0 {
			v = 1
		}
	case gIsEqual:
		if c == 0 {
			v = 1
		}
	}
	return exact(bi(v))
}

func genericCombos() []combo {
	var cbs []combo
	nb := nBitsLies()
	for i, l := range nb {
		cbs = append(cbs, combo{l})
		if i == 0 || i == 2 || i == 3 {
			cbs = append(cbs, combo{l.nth(0)}, combo{l.nth(1)})
		}
	}
	for _, l := range isLessLies() {
		cbs = append(cbs, combo{l})
	}
	flip := isLessLies()[0]
	cbs = append(cbs, combo{flip, nb[0].nth(0)}, combo{flip, nb[0].nth(1)}, combo{flip, nb[2]}, combo{flip, nb[3].nth(2)}, combo{flip, nb[5]})
	return cbs
}

func runGenericCase(r *vcore.Run, a *acc, s *sysT, fam string, in []*big.Int, exp expect, doLies bool, cbs []combo) {
	c := newCase(r, a, s, fam, in, exp)
	res := c.honest()
	if exp.kind == kExact {
		a.sample("cmp.generic/honest-exact", map[string]any{"system": s.String(), "inputs": vstr(in), "outputs": vstr(res.outs)})
	}
	c.confirm()
	if doLies {
		for _, cb := range cbs {
			c.lieRun(cb)
		}
		if exp.kind != kUnsat && len(exp.outs) == 1 && len(exp.outs[0]) == 1 {
			for _, w := range []*big.Int{bi(0), bi(1), bi(2), sub(s.f.p, bi(1))} {
				aim := []combo{{constLie("aimed(indicator=wanted)", hIsLess, []*big.Int{w})}}
				for _, l := range nBitsLies()[:3] {
					aim = append(aim, combo{aim[0][0], l})
				}
				c.assertWrong([]*big.Int{w}, aim)
			}
		}
	}
	c.finish()
}

func genericTinyJobs(r *vcore.Run) []job {
	var jobs []job
	cbs := genericCombos()
	for _, bld := range builders {
		for m := gIsLess; m <= gIsEqual; m++ {
			bld, m := bld, m
			fam := "cmp.generic." + gMethodNames[m]
			jobs = append(jobs, job{name: "generic-tiny/" + bld + "/" + gMethodNames[m], run: func(a *acc) {
				s := mustCompile(r, a, fTiny, bld, genericGadget(m, nil, nil), fam)
				if s == nil {
					return
				}
				rng := r.Rand("generic-tiny/" + bld + "/" + gMethodNames[m])
				for x := int64(0); x < 47; x++ {
					for y := int64(0); y < 47; y++ {
						doL := r.Thorough() || x == y || x == y+1 || y == x+1 || x < 2 || y < 2 || x > 44 || y > 44 || rng.IntN(4) == 0
						runGenericCase(r, a, s, fam, []*big.Int{bi(x), bi(y)}, genericExpect(m, bi(x), bi(y)), doL, cbs)
					}
				}
			}})
			jobs = append(jobs, job{name: "generic-tiny-const/" + bld + "/" + gMethodNames[m], run: func(a *acc) {
				rng := r.Rand("generic-tiny-const/" + bld + "/" + gMethodNames[m])
				for cst := int64(0); cst < 47; cst++ {
					for side := 0; side < 2; side++ {
						g := genericGadget(m, bi(cst), nil)
						if side == 1 {
							g = genericGadget(m, nil, bi(cst))
						}
						s := mustCompile(r, a, fTiny, bld, g, fam)
						if s == nil {
							continue
						}
						for x := int64(0); x < 47; x++ {
							av, bv := bi(cst), bi(x)
							if side == 1 {
								av, bv = bi(x), bi(cst)
							}
							runGenericCase(r, a, s, fam, []*big.Int{bi(x)}, genericExpect(m, av, bv), r.Thorough() || rng.IntN(5) == 0, cbs)
						}
					}
				}
			}})
		}
	}
	return jobs
}

func edgeValues(f *fieldCtx, rng *rand.Rand, nRand int) []*big.Int {
	p := f.p
	half := new(big.Int).Rsh(p, 1)
	vs := []*big.Int{bi(0), bi(1), bi(2), sub(p, bi(1)), sub(p, bi(2)), half, add(half, bi(1)), sub(half, bi(1))}
	for _, k := range []int{1, 8, 64, 128, f.bits - 3, f.bits - 2, f.bits - 1} {
		vs = append(vs, sub(pow2(k), bi(1)), pow2(k), add(pow2(k), bi(1)))
	}
	// values that have an aliased (x+p) decomposition on fieldbits digits
	top := sub(pow2(f.bits), p)
	vs = append(vs, sub(top, bi(1)), top, add(top, bi(1)))
	for i := 0; i < nRand; i++ {
		vs = append(vs, randBelow(rng, p))
	}
	var o []*big.Int
	seen := map[string]bool{}
	for _, v := range vs {
		v = modp(v, p)
		if !seen[v.String()] {
			seen[v.String()] = true
			o = append(o, v)
		}
	}
	return o
}

func genericBigJobs(r *vcore.Run) []job {
	var jobs []job
	cbs := genericCombos()
	for _, f := range bigFields {
		for _, bld := range builders {
			for m := gIsLess; m <= gIsEqual; m++ {
				f, bld, m := f, bld, m
				fam := "cmp.generic." + gMethodNames[m]
				jobs = append(jobs, job{name: "generic-big/" + f.name + "/" + bld + "/" + gMethodNames[m], run: func(a *acc) {
					s := mustCompile(r, a, f, bld, genericGadget(m, nil, nil), fam)
					if s == nil {
						return
					}
					rng := r.Rand("generic-big/" + f.name + "/" + bld + "/" + gMethodNames[m])
					vs := edgeValues(f, rng, r.Pick(2, 6))
					for i, x := range vs {
						for j, y := range vs {
							doL := i == j || rng.IntN(r.Pick(24, 4)) == 0
							runGenericCase(r, a, s, fam, []*big.Int{x, y}, genericExpect(m, x, y), doL, cbs)
						}
					}
					// constants on one side
					for _, cst := range []*big.Int{bi(0), bi(5), sub(f.p, bi(1)), pow2(64), new(big.Int).Rsh(f.p, 1)} {
						for side := 0; side < 2; side++ {
							g := genericGadget(m, cst, nil)
							if side == 1 {
								g = genericGadget(m, nil, cst)
							}
							sc := mustCompile(r, a, f, bld, g, fam)
							if sc == nil {
								continue
							}
							for _, x := range vs {
								av, bv := cst, x
								if side == 1 {
									av, bv = x, cst
								}
								runGenericCase(r, a, sc, fam, []*big.Int{x}, genericExpect(m, av, bv), rng.IntN(r.Pick(12, 3)) == 0, cbs)
							}
						}
					}
				}})
			}
		}
	}
	return jobs
}

// ---- IsLessBinary / IsLessOrEqualBinary

func binaryGadget(orEq bool, n int) *gadget {
	nm := "cmp.IsLessBinary"
	if orEq {
		nm = "cmp.IsLessOrEqualBinary"
	}
	return &gadget{name: fmt.Sprintf("%s(len=%d)", nm, n), nIn: 2 * n, nOut: 1, build: func(api frontend.API, in []frontend.Variable) []frontend.Variable {
		if orEq {
			return []frontend.Variable{cmp.IsLessOrEqualBinary(api, in[:n], in[n:])}
		}
		return []frontend.Variable{cmp.IsLessBinary(api, in[:n], in[n:])}
	}}
}

// documented: integers represented by the bit slices (little endian), compared as integers
func binaryExpect(orEq bool, n int, in []*big.Int) expect {
	for _, d := range in {
		if d.Cmp(bi(1)) > 0 {
			return unsat().in("non-boolean-digit") // assertBits: "defines boolean constraints for every element"
		}
	}
	x, y := new(big.Int), new(big.Int)
	for i := 0; i < n; i++ {
		if in[i].Sign() != 0 {
			x.SetBit(x, i, 1)
		}
		if in[n+i].Sign() != 0 {
			y.SetBit(y, i, 1)
		}
	}
	c := x.Cmp(y)
	if c < 0 || (orEq && c == 0) {
		return exact(bi(1))
	}
	return exact(bi(0))
}

func binaryJobs(r *vcore.Run) []job {
	var jobs []job
	cbs := genericCombos()
	type fl struct {
		f    *fieldCtx
		lens []int
	}
	sets := []fl{{fTiny, []int{1, 2, 3, 4, 5, 6, 7, 9}}}
	for _, f := range bigFields {
		sets = append(sets, fl{f, []int{1, 2, 8, 64, f.bits - 3, f.bits - 2, f.bits - 1, f.bits, f.bits + 1, 300}})
	}
	for _, st := range sets {
		for _, bld := range builders {
			for _, orEq := range []bool{false, true} {
				for _, n := range st.lens {
					f, bld, orEq, n := st.f, bld, orEq, n
					g := binaryGadget(orEq, n)
					fam := "cmp.generic.IsLessBinary"
					if orEq {
						fam = "cmp.generic.IsLessOrEqualBinary"
					}
					jobs = append(jobs, job{name: "binary/" + f.name + "/" + bld + "/" + g.name, run: func(a *acc) {
						s := mustCompile(r, a, f, bld, g, fam)
						if s == nil {
							return
						}
						rng := r.Rand("binary/" + f.name + "/" + bld + "/" + g.name)
						mk := func(x, y *big.Int) []*big.Int {
							return append(bitsOf(x, n), bitsOf(y, n)...)
						}
						var cases [][]*big.Int
						if f.tiny && n <= 4 {
							for x := int64(0); x < 1<<n; x++ {
								for y := int64(0); y < 1<<n; y++ {
									cases = append(cases, mk(bi(x), bi(y)))
								}
							}
						} else {
							top := pow2(n)
							edge := []*big.Int{bi(0), bi(1), sub(top, bi(1)), sub(top, bi(2)), pow2(n - 1), sub(pow2(n-1), bi(1)), modp(f.p, top), modp(sub(f.p, bi(1)), top), randBelow(rng, top), randBelow(rng, top)}
							if !f.tiny && r.Quick() {
								edge = []*big.Int{bi(0), sub(top, bi(1)), pow2(n - 1), sub(pow2(n-1), bi(1)), modp(f.p, top), randBelow(rng, top)}
							}
							for _, x := range edge {
								for _, y := range edge {
									cases = append(cases, mk(x, y))
								}
								// neighbours: differ in one bit
								k := rng.IntN(n)
								y := new(big.Int).Set(x)
								y.SetBit(y, k, y.Bit(k)^1)
								cases = append(cases, mk(x, y))
							}
							nr := r.Pick(60, 600)
							if !f.tiny {
								nr = r.Pick(10, 60)
							}
							for i := 0; i < nr; i++ {
								cases = append(cases, mk(randBelow(rng, top), randBelow(rng, top)))
							}
						}
						for i, in := range cases {
							runGenericCase(r, a, s, fam, in, binaryExpect(orEq, n, in), (r.Thorough() && (f.tiny || i%3 == 0)) || i%7 == 0, cbs)
						}
						// non-boolean digits
						for i := 0; i < r.Pick(6, 40); i++ {
							in := mk(randBelow(rng, pow2(n)), randBelow(rng, pow2(n)))
							k := rng.IntN(2 * n)
							in[k] = []*big.Int{bi(2), sub(f.p, bi(1)), bi(3)}[rng.IntN(3)]
							runGenericCase(r, a, s, fam, in, binaryExpect(orEq, n, in), true, cbs)
						}
					}})
				}
			}
		}
	}
	return jobs
}
