//go:build verif

package c13

import (
	"fmt"
	"math/big"
	"strings"

	"github.com/consensys/gnark/frontend"
	"github.com/consensys/gnark/std/lookup/logderivlookup"
	"github.com/consensys/gnark/std/math/emulated"
	"github.com/consensys/gnark/std/multicommit"
	"github.com/consensys/gnark/std/rangecheck"
)

// noCommitAPI is how a caller without commitment support looks to
// rangecheck.New: a value that implements frontend.API and nothing else.
type noCommitAPI struct{ frontend.API }

// ---------------------------------------------------------------- range-check circuit

type rcCheck struct {
	v    int      // index into Vals, or -1 for a constant
	c    *big.Int // the constant when v == -1
	bits int
}

func (c rcCheck) String() string {
	if c.v < 0 {
		return fmt.Sprintf("Check(const %s, %d)", c.c, c.bits)
	}
	return fmt.Sprintf("Check(Vals[%d], %d)", c.v, c.bits)
}

type rcShape struct {
	nVals    int
	checks   []rcCheck
	plain    bool
	strategy string // observed in Define: dynamic type returned by rangecheck.New
}

func (s *rcShape) String() string {
	if len(s.checks) <= 12 {
		return fmt.Sprintf("rc{vals=%d plain=%v checks=%v}", s.nVals, s.plain, s.checks)
	}
	return fmt.Sprintf("rc{vals=%d plain=%v nchecks=%d first=%v}", s.nVals, s.plain, len(s.checks), s.checks[:6])
}

type rcCircuit struct {
	Pub  frontend.Variable `gnark:",public"`
	Vals []frontend.Variable
	sh   *rcShape
}

func (s *rcShape) circuit() *rcCircuit {
	return &rcCircuit{Vals: make([]frontend.Variable, s.nVals), sh: s}
}

func (c *rcCircuit) Define(api frontend.API) error {
	api.AssertIsBoolean(c.Pub)
	var rc frontend.Rangechecker
	if c.sh.plain {
		rc = rangecheck.New(noCommitAPI{api})
	} else {
		rc = rangecheck.New(api)
	}
	c.sh.strategy = fmt.Sprintf("%T", rc)
	for _, ck := range c.sh.checks {
		if ck.v < 0 {
			rc.Check(ck.c, ck.bits)
		} else {
			rc.Check(c.Vals[ck.v], ck.bits)
		}
	}
	return nil
}

// bound returns for every variable the smallest width it is checked against (-1: unchecked).
func (s *rcShape) bound() []int {
	b := make([]int, s.nVals)
	for i := range b {
		b[i] = -1
	}
	for _, ck := range s.checks {
		if ck.v >= 0 && (b[ck.v] < 0 || ck.bits < b[ck.v]) {
			b[ck.v] = ck.bits
		}
	}
	return b
}

// oracle: accept iff every checked value is an integer in [0, 2^bits).
func (s *rcShape) accepts(vals []*big.Int) bool {
	for _, ck := range s.checks {
		v := ck.c
		if ck.v >= 0 {
			v = vals[ck.v]
		}
		if v.Sign() < 0 || v.BitLen() > ck.bits {
			return false
		}
	}
	return true
}

// ---------------------------------------------------------------- lookup circuit

type lkOp struct {
	table  int
	insert bool
	// insert: entry = constant cst (slot < 0) or witness slot Ent[slot]
	slot int
	cst  *big.Int
	// lookup: one batch of queries; each is a witness slot Idx[q] (q >= 0) or the constant index cidx
	queries []lkQuery
}

type lkQuery struct {
	slot int
	cidx *big.Int
}

type lkShape struct {
	nTables int
	nEnt    int
	nIdx    int
	ops     []lkOp
	useSum  bool // results are also used in arithmetic constrained against a public value
}

// opsString spells out the table program (inserts and lookup batches in order).
func (s *lkShape) opsString() string {
	var b strings.Builder
	for _, o := range s.ops {
		if o.insert {
			if o.slot < 0 {
				fmt.Fprintf(&b, "T%d.Insert(const %s) ", o.table, o.cst)
			} else {
				fmt.Fprintf(&b, "T%d.Insert(Ent[%d]) ", o.table, o.slot)
			}
			continue
		}
		fmt.Fprintf(&b, "T%d.Lookup(", o.table)
		for i, q := range o.queries {
			if i > 0 {
				b.WriteByte(',')
			}
			if q.slot < 0 {
				fmt.Fprintf(&b, "const %s", q.cidx)
			} else {
				fmt.Fprintf(&b, "Idx[%d]", q.slot)
			}
		}
		b.WriteString(") ")
		if b.Len() > 1500 {
			b.WriteString("...")
			break
		}
	}
	return b.String()
}

func (s *lkShape) String() string {
	ins, q := 0, 0
	for _, o := range s.ops {
		if o.insert {
			ins++
		} else {
			q += len(o.queries)
		}
	}
	return fmt.Sprintf("lk{tables=%d inserts=%d(witness=%d) queries=%d(witness=%d) sum=%v}", s.nTables, ins, s.nEnt, q, s.nIdx, s.useSum)
}

type lkCircuit struct {
	Pub frontend.Variable `gnark:",public"`
	Sum frontend.Variable `gnark:",public"`
	Ent []frontend.Variable
	Idx []frontend.Variable
	sh  *lkShape
}

func (s *lkShape) circuit() *lkCircuit {
	return &lkCircuit{Ent: make([]frontend.Variable, s.nEnt), Idx: make([]frontend.Variable, s.nIdx), sh: s}
}

func (c *lkCircuit) Define(api frontend.API) error {
	api.AssertIsBoolean(c.Pub)
	tabs := make([]logderivlookup.Table, c.sh.nTables)
	for i := range tabs {
		tabs[i] = logderivlookup.New(api)
	}
	tag := 0
	var sum frontend.Variable = 0
	for _, o := range c.sh.ops {
		if o.insert {
			if o.slot < 0 {
				tabs[o.table].Insert(o.cst)
			} else {
				tabs[o.table].Insert(c.Ent[o.slot])
			}
			continue
		}
		inds := make([]frontend.Variable, len(o.queries))
		for i, q := range o.queries {
			if q.slot < 0 {
				inds[i] = q.cidx
			} else {
				inds[i] = c.Idx[q.slot]
			}
		}
		res := tabs[o.table].Lookup(inds...)
		for i := range res {
			record(api, tag, res[i])
			tag++
			if c.sh.useSum {
				sum = api.Add(sum, api.Mul(res[i], tag))
			}
		}
	}
	if c.sh.useSum {
		api.AssertIsEqual(sum, c.Sum)
	} else {
		api.AssertIsEqual(c.Sum, 0)
	}
	return nil
}

// lkModel is the independent model of the tables: what is stored where, and
// for each query (in tag order) which table, which index, how many entries the
// table had when the query was made and how many it has at the end.
type lkQ struct {
	table   int
	index   *big.Int
	sizeAt  int
	sizeEnd int
}

func (s *lkShape) model(ent, idx []*big.Int) (tables [][]*big.Int, qs []lkQ) {
	tables = make([][]*big.Int, s.nTables)
	for _, o := range s.ops {
		if o.insert {
			v := o.cst
			if o.slot >= 0 {
				v = ent[o.slot]
			}
			tables[o.table] = append(tables[o.table], v)
			continue
		}
		for _, q := range o.queries {
			ix := q.cidx
			if q.slot >= 0 {
				ix = idx[q.slot]
			}
			qs = append(qs, lkQ{table: o.table, index: ix, sizeAt: len(tables[o.table])})
		}
	}
	for i := range qs {
		qs[i].sizeEnd = len(tables[qs[i].table])
	}
	return
}

// ---------------------------------------------------------------- several gadgets in one circuit

// mgCircuit: two lookup tables, the range checker, an emulated-field
// multiplication (which brings its own range checks and multicommit callback)
// and harness-side multicommit callbacks that expose the challenge each
// position of the chain receives.
type mgShape struct {
	withEmulated bool
	t1Const      int // constant row in table 1 (witness entries): 0 none, 1 first, 2 last, 3 in the middle
	nRec         int // filled in Define: number of harness callbacks
}

type mgCircuit struct {
	Pub  frontend.Variable                      `gnark:",public"`
	T1   [4]frontend.Variable                   // witness entries of table 1
	Q1   [2]frontend.Variable                   // indices into table 1
	Q2   [2]frontend.Variable                   // indices into table 2 (constant entries)
	R    [3]frontend.Variable                   // range-checked values (8, 13, 20 bits)
	A, B frontend.Variable                      // two more range-checked values (60 bits) when the emulated field is not used
	Own  frontend.Variable                      // committed by the last harness callback only
	EA   emulated.Element[emulated.Secp256k1Fp] // operands of the emulated multiplication (4 limbs each)
	EB   emulated.Element[emulated.Secp256k1Fp]
	sh   *mgShape
}

const mgT1Const = 424242

var t1ConstName = []string{"all-witness", "const-first", "const-last", "const-middle"}

// mgTable1 is the model of table 1's content.
func mgTable1(t1 [4]*big.Int, pos int) []*big.Int {
	c := big.NewInt(mgT1Const)
	var t []*big.Int
	if pos == 1 {
		t = append(t, c)
	}
	for i := range t1 {
		if pos == 3 && i == 2 {
			t = append(t, c)
		}
		t = append(t, t1[i])
	}
	if pos == 2 {
		t = append(t, c)
	}
	return t
}

const (
	tagRecFirst = 100 // harness callback registered before all gadgets' callbacks
	tagRecMid   = 101 // between gadget callbacks
	tagRecLast  = 102 // after all gadgets, commits Own
)

func (c *mgCircuit) Define(api frontend.API) error {
	api.AssertIsBoolean(c.Pub)
	t1 := logderivlookup.New(api) // defers its argument
	if c.sh.t1Const == 1 {
		t1.Insert(mgT1Const)
	}
	for i := range c.T1 {
		if c.sh.t1Const == 3 && i == 2 {
			t1.Insert(mgT1Const)
		}
		t1.Insert(c.T1[i])
	}
	if c.sh.t1Const == 2 {
		t1.Insert(mgT1Const)
	}
	r1 := t1.Lookup(c.Q1[0], c.Q1[1])
	record(api, 0, r1[0])
	record(api, 1, r1[1])

	rc := rangecheck.New(api) // defers its argument
	rc.Check(c.R[0], 8)
	rc.Check(c.R[1], 13)
	rc.Check(c.R[2], 20)

	// harness callback placed between the gadgets' deferred functions
	api.Compiler().Defer(func(api frontend.API) error {
		multicommit.WithCommitment(api, func(api frontend.API, cmt frontend.Variable) error {
			record(api, tagRecMid, cmt)
			return nil
		})
		return nil
	})

	t2 := logderivlookup.New(api)
	for i := 0; i < 9; i++ {
		t2.Insert(1000 + i*i)
	}
	r2 := t2.Lookup(c.Q2[0], c.Q2[1])
	record(api, 2, r2[0])
	record(api, 3, r2[1])

	if c.sh.withEmulated {
		f, err := emulated.NewField[emulated.Secp256k1Fp](api)
		if err != nil {
			return err
		}
		ab := f.Mul(&c.EA, &c.EB)
		ba := f.Mul(&c.EB, &c.EA)
		f.AssertIsEqual(ab, ba)
	}
	rc.Check(c.A, 60)
	rc.Check(c.B, 60)

	api.Compiler().Defer(func(api frontend.API) error {
		multicommit.WithCommitment(api, func(api frontend.API, cmt frontend.Variable) error {
			record(api, tagRecLast, cmt)
			return nil
		}, c.Own)
		return nil
	})
	// registered now, i.e. before any gadget's callback (those register when the
	// deferred functions run): first of the chain. The multicommitter's own
	// deferred function is hereby placed after all deferred functions above.
	multicommit.WithCommitment(api, func(api frontend.API, cmt frontend.Variable) error {
		record(api, tagRecFirst, cmt)
		return nil
	})
	c.sh.nRec = 3
	return nil
}
