//go:build verif

package c13

import (
	"fmt"
	"math/big"
	"math/rand/v2"

	bls377mimc "github.com/consensys/gnark-crypto/ecc/bls12-377/fr/mimc"
	bn254mimc "github.com/consensys/gnark-crypto/ecc/bn254/fr/mimc"
	"github.com/consensys/gnark/backend"
	"github.com/consensys/gnark/backend/groth16"
	"github.com/consensys/gnark/backend/plonk"
	"github.com/consensys/gnark/backend/witness"
	"github.com/consensys/gnark/constraint"
	"github.com/consensys/gnark/constraint/solver"
	"github.com/consensys/gnark/frontend"
	"github.com/consensys/gnark/test"
	"github.com/consensys/gnark/test/unsafekzg"

	"github.com/consensys/gnark/verifharness/internal/circuits"
	"github.com/consensys/gnark/verifharness/internal/vcore"
)

// ================================================================== two-pass prover

// nativeRowCoeff computes what logderivarg's randLinearCoefficients derives
// in-circuit for the second column: MiMC(2, commitment), with the curve's
// native MiMC from gnark-crypto.
func nativeRowCoeff(fc fieldCtx, x *big.Int) *big.Int {
	nb := (fc.mod.BitLen() + 7) / 8
	buf := func(v *big.Int) []byte { b := make([]byte, nb); v.FillBytes(b); return b }
	switch fc.name {
	case "bn254":
		h := bn254mimc.NewMiMC()
		h.Write(buf(big.NewInt(2)))
		h.Write(buf(x))
		return new(big.Int).SetBytes(h.Sum(nil))
	case "bls12-377":
		h := bls377mimc.NewMiMC()
		h.Write(buf(big.NewInt(2)))
		h.Write(buf(x))
		return new(big.Int).SetBytes(h.Sum(nil))
	}
	return nil
}

// solveMultiplicity: given what the first pass saw (table rows, queries, the
// multiplicities it supplied) and the challenge x the argument used, returns
// multiplicities that make sum m_i/(x-f_i) == sum 1/(x-s_j) hold at that x.
func solveMultiplicity(c *countCall, x, rcoef, p *big.Int) []*big.Int {
	comb := func(row []*big.Int) *big.Int {
		v := new(big.Int).Set(row[0])
		if len(row) == 2 {
			v.Add(v, new(big.Int).Mul(rcoef, row[1]))
		}
		return v.Mod(v, p)
	}
	inv := func(v *big.Int) *big.Int {
		d := new(big.Int).Sub(x, v)
		d.Mod(d, p)
		return d.ModInverse(d, p)
	}
	if len(c.table) == 0 || len(c.table[0]) > 2 {
		return nil
	}
	rp := new(big.Int)
	for _, q := range c.queries {
		i := inv(comb(q))
		if i == nil {
			return nil
		}
		rp.Add(rp, i)
	}
	f := 0
	lp := new(big.Int)
	for i := range c.table {
		if i == f {
			continue
		}
		iv := inv(comb(c.table[i]))
		if iv == nil {
			return nil
		}
		lp.Add(lp, iv.Mul(iv, c.out[i]))
	}
	m := make([]*big.Int, len(c.table))
	for i := range m {
		m[i] = new(big.Int).Set(c.out[i])
	}
	d := new(big.Int).Sub(x, comb(c.table[f]))
	d.Mod(d, p)
	if d.Sign() == 0 {
		return nil
	}
	mf := new(big.Int).Sub(rp, lp)
	mf.Mul(mf, d).Mod(mf, p)
	m[f] = mf
	// self-check of the algebra
	l2 := new(big.Int)
	for i := range c.table {
		iv := inv(comb(c.table[i]))
		l2.Add(l2, iv.Mul(iv, m[i]))
	}
	if l2.Mod(l2, p).Cmp(rp.Mod(rp, p)) != 0 {
		return nil
	}
	return m
}

// twoPass: a prover that runs the solver once to learn the challenge, solves
// the log-derivative equation for one multiplicity at that challenge, and runs
// again supplying it. It can only succeed if the challenge does not depend on
// the multiplicities (i.e. they are not committed).
func twoPass(r *vcore.Run) {
	type job struct {
		fc   fieldCtx
		b    string
		kind string // "rc" | "lk"
		k    int
	}
	var jobs []job
	for _, fc := range []fieldCtx{fBN254, fBLS377} {
		for _, b := range builders {
			for k := 0; k < r.Pick(3, 40); k++ {
				jobs = append(jobs, job{fc, b, "rc", k}, job{fc, b, "lk", k})
			}
		}
	}
	vcore.Parallel(len(jobs), 8, func(i int) {
		j := jobs[i]
		rng := r.Rand(fmt.Sprintf("twopass/%s/%s/%d", j.fc.name, j.kind, j.k))
		var sys solvable
		var w witness.Witness
		var extra func() []solver.Option
		rep := map[string]any{"field": j.fc.name, "builder": j.b, "kind": j.kind}
		if j.kind == "rc" {
			nv := []int{1, 2, 6}[j.k%3]
			sh := mixShape(rng, nv, j.fc.mod.BitLen(), false)
			s, err := compile(j.fc, j.b, sh.circuit())
			if err != nil {
				r.Inconclusive("twopass-compile")
				return
			}
			cs := mixCases(rng, sh, j.fc.mod, 0, 1)
			if len(cs) == 0 {
				r.Inconclusive("twopass-no-out-of-range-case")
				return
			}
			sys = s
			w, _ = circuits.MakeWitness(j.fc.mod, []*big.Int{one}, cs[0].vals)
			dk := []string{"top-oversized", "solve-random-limb", "all-in-limb0"}[rng.IntN(3)]
			seed := rng.Uint64()
			extra = func() []solver.Option {
				return []solver.Option{lyingDecompose(dk, j.fc.mod, rand.New(rand.NewPCG(seed, 5)), &decompStats{})}
			}
			rep["shape"], rep["values"], rep["bad"], rep["decompose_lie"] = sh.String(), strs(cs[0].vals), cs[0].note, dk
		} else {
			size := []int{2, 5, 16}[j.k%3]
			sh := genLkShape(rng, size, j.k%3, 1+rng.IntN(4), false, 1, false)
			sh.useSum = false
			s, err := compile(j.fc, j.b, sh.circuit())
			if err != nil {
				r.Inconclusive("twopass-compile")
				return
			}
			ent := lkEntries(rng, sh.nEnt, j.fc.mod)
			idx := make([]*big.Int, sh.nIdx)
			for q := range idx {
				idx[q] = big.NewInt(int64(rng.IntN(size)))
			}
			tix := idx[rng.IntN(len(idx))].Uint64()
			cp, n := withLyingLookups(s, []*lookupLie{{alter: func(ix uint64, _ bool, h *big.Int) *big.Int {
				if ix == tix {
					return new(big.Int).Mod(new(big.Int).Add(h, big.NewInt(5)), j.fc.mod)
				}
				return nil
			}}})
			if n == 0 {
				r.Inconclusive("no-lookup-blueprint-found")
				return
			}
			sys = cp
			w, _ = circuits.MakeWitness(j.fc.mod, []*big.Int{one, new(big.Int)}, append(append([]*big.Int{}, ent...), idx...))
			extra = func() []solver.Option { return nil }
			rep["shape"], rep["entries"], rep["indices"], rep["result_lie"] = sh.String(), strs(ent), strs(idx), fmt.Sprintf("entry at index %d +5", tix)
		}
		// pass 1
		c1, lg1 := &countStats{}, &commitLog{}
		e1, _ := solve(sys, w, append(extra(), solver.WithNbTasks(1), fixedMask(), hashCommit(lg1), lyingCount("fold", j.fc.mod, rand.New(rand.NewPCG(1, 2)), c1))...)
		if e1 == nil {
			r.Count("twopass.ACCEPTED-in-pass-1", 1)
			r.Violation("twopass-accepted-pass1/"+j.kind+"/"+j.b, "Solve accepted a false statement with folded multiplicities", rep)
			return
		}
		if lg1.calls != 1 || len(c1.last) != 1 || c1.unmatched == 0 {
			r.Inconclusive(fmt.Sprintf("twopass-pass1-shape(commit-calls=%d,count-calls=%d,unmatched=%d)", lg1.calls, len(c1.last), c1.unmatched))
			return
		}
		x1 := lg1.last() // sole gadget: its callback is the first of the chain and receives the root commitment
		var rcoef *big.Int
		if c1.last[0].nbRow == 2 {
			rcoef = nativeRowCoeff(j.fc, x1)
		}
		forced := solveMultiplicity(c1.last[0], x1, rcoef, j.fc.mod)
		if forced == nil {
			r.Inconclusive("twopass-no-solution(pole)")
			return
		}
		// pass 2
		c2, lg2 := &countStats{forced: map[int][]*big.Int{0: forced}}, &commitLog{}
		e2, pan := solve(sys, w, append(extra(), solver.WithNbTasks(1), fixedMask(), hashCommit(lg2), lyingCount("fold", j.fc.mod, rand.New(rand.NewPCG(1, 2)), c2))...)
		r.Eval(fmt.Sprintf("twopass|%s|%s|%s|%d", j.fc.name, j.b, j.kind, j.k), true)
		x2 := lg2.last()
		rep["challenge_pass1"], rep["challenge_pass2"] = fmt.Sprint(x1), fmt.Sprint(x2)
		if len(forced) <= 64 {
			rep["multiplicities_pass2"] = strs(forced)
		} else {
			rep["multiplicity_row0_pass2"] = forced[0].String()
		}
		rep["solver_said"] = fmt.Sprint(e2)
		if pan != "" {
			rep["panic"] = pan
			r.Violation("twopass-solve-panic/"+j.b, "Solve panicked", rep)
			return
		}
		if x2 != nil && x2.Cmp(x1) == 0 {
			r.Count("twopass.CHALLENGE-STATIC", 1)
			r.Violation("challenge-independent-of-multiplicities/"+j.kind+"/"+j.b, "changing the supplied multiplicities left the gadget's challenge unchanged", rep)
		} else if x2 != nil {
			r.Count("twopass.challenge-moved", 1)
		}
		if e2 == nil {
			r.Count("twopass.ACCEPTED", 1)
			r.Violation("twopass-accepted-false-statement/"+j.kind+"/"+j.b, "a prover that solves for a multiplicity after seeing the challenge was accepted", rep)
			return
		}
		r.Count("twopass.rejected", 1)
		r.SampleClass("twopass."+j.kind, rep)
	})
}

// ================================================================== challenge dependence (multicommit chain)

type mgWit struct {
	T1   [4]*big.Int
	Q1   [2]*big.Int
	Q2   [2]*big.Int
	R    [3]*big.Int
	A, B *big.Int
	Own  *big.Int
	EA   [4]*big.Int
	EB   [4]*big.Int
}

func (m *mgWit) clone() *mgWit {
	c := *m
	cp := func(x *big.Int) *big.Int { return new(big.Int).Set(x) }
	for i := range c.T1 {
		c.T1[i] = cp(m.T1[i])
	}
	for i := range c.Q1 {
		c.Q1[i], c.Q2[i] = cp(m.Q1[i]), cp(m.Q2[i])
	}
	for i := range c.R {
		c.R[i] = cp(m.R[i])
	}
	c.A, c.B, c.Own = cp(m.A), cp(m.B), cp(m.Own)
	for i := range c.EA {
		c.EA[i], c.EB[i] = cp(m.EA[i]), cp(m.EB[i])
	}
	return &c
}

func (m *mgWit) secret() []*big.Int {
	var s []*big.Int
	s = append(s, m.T1[:]...)
	s = append(s, m.Q1[:]...)
	s = append(s, m.Q2[:]...)
	s = append(s, m.R[:]...)
	s = append(s, m.A, m.B, m.Own)
	s = append(s, m.EA[:]...)
	return append(s, m.EB[:]...)
}

func challengeDependence(r *vcore.Run) {
	type job struct {
		fc  fieldCtx
		b   string
		emu bool
		t1c int
	}
	var jobs []job
	for _, fc := range []fieldCtx{fBN254, fBLS377} {
		for _, b := range builders {
			for _, emu := range []bool{false, true} {
				for t1c := 0; t1c < 4; t1c++ {
					jobs = append(jobs, job{fc, b, emu, t1c})
				}
			}
		}
	}
	tags := []int{tagRecFirst, tagRecMid, tagRecLast}
	tagName := map[int]string{tagRecFirst: "first(root)", tagRecMid: "between-gadgets", tagRecLast: "after-all-gadgets"}
	vcore.Parallel(len(jobs), 8, func(i int) {
		j := jobs[i]
		sh := &mgShape{withEmulated: j.emu, t1Const: j.t1c}
		sys, err := compile(j.fc, j.b, &mgCircuit{sh: sh})
		if err != nil {
			r.Inconclusive("mg-compile:" + bucket(err))
			r.SampleClass("mg.compile-failed", map[string]any{"err": err.Error()})
			return
		}
		r.Count("chal.circuits", 1)
		r.Count("chal.circuits.table1="+t1ConstName[j.t1c], 1)
		rng := r.Rand(fmt.Sprintf("chal/%s/%v/%d", j.fc.name, j.emu, j.t1c))
		run := func(m *mgWit) (map[int]*big.Int, *recorder, int, error) {
			w, _ := circuits.MakeWitness(j.fc.mod, []*big.Int{one}, m.secret())
			rec, lg := newRecorder(), &commitLog{}
			e, _ := solve(sys, w, rec.opt(), hashCommit(lg), fixedMask())
			ch := map[int]*big.Int{}
			for _, t := range tags {
				ch[t] = rec.get(t)
			}
			return ch, rec, lg.calls, e
		}
		for wi := 0; wi < r.Pick(2, 10); wi++ {
			base := &mgWit{A: randBelow(rng, pow2(60)), B: randBelow(rng, pow2(60)), Own: randBelow(rng, j.fc.mod)}
			for k := range base.T1 {
				base.T1[k] = randBelow(rng, j.fc.mod)
				base.EA[k] = randBelow(rng, pow2(63)) // 4 x 64-bit limbs, value below the secp256k1 base field modulus
				base.EB[k] = randBelow(rng, pow2(63))
			}
			base.Q1 = [2]*big.Int{big.NewInt(0), big.NewInt(2)}
			base.Q2 = [2]*big.Int{big.NewInt(3), big.NewInt(8)}
			base.R = [3]*big.Int{randBelow(rng, big.NewInt(255)), randBelow(rng, big.NewInt(8000)), randBelow(rng, big.NewInt(1<<20-1))}
			ch0, rec0, ncommit, e0 := run(base)
			r.Eval(fmt.Sprintf("chal-base|%s|%s|%v|%d|%v", j.fc.name, j.b, j.emu, j.t1c, strs(base.secret())), true)
			rep := map[string]any{"field": j.fc.name, "builder": j.b, "emulated": j.emu, "table1_layout": t1ConstName[j.t1c], "witness": strs(base.secret())}
			if e0 != nil {
				r.Count("chal.HONEST-REJECTED", 1)
				rep["solver_said"] = e0.Error()
				r.Violation("multigadget-honest-rejected/"+j.b, "honest Solve of the several-gadget circuit failed: "+e0.Error(), rep)
				continue
			}
			r.Count(fmt.Sprintf("chal.native-commitment-calls-per-solve=%d", ncommit), 1)
			// the lookups in the shared circuit still return the stored entries
			tab1 := mgTable1(base.T1, j.t1c)
			wantRes := []*big.Int{tab1[0], tab1[2], big.NewInt(1000 + 9), big.NewInt(1000 + 64)}
			for q, wv := range wantRes {
				if g := rec0.get(q); g == nil || g.Cmp(wv) != 0 {
					rep["query"], rep["got"], rep["want"] = q, fmt.Sprint(g), wv.String()
					r.Violation("lookup-wrong-result/multigadget/"+j.b, "lookup in the several-gadget circuit returned a wrong entry", rep)
				} else {
					r.Count("lk.honest.results-compared", 1)
				}
			}
			ok := true
			for _, t := range tags {
				if ch0[t] == nil {
					ok = false
				}
			}
			if !ok {
				r.Inconclusive("challenge-recorder-not-reached")
				continue
			}
			r.Count("chal.challenges-recorded", len(tags))
			// distinct per callback, and none trivially 0
			for a := 0; a < len(tags); a++ {
				if ch0[tags[a]].Sign() == 0 {
					r.Violation("challenge-zero/"+j.b, "a callback received challenge 0", rep)
				}
				for c := a + 1; c < len(tags); c++ {
					if ch0[tags[a]].Cmp(ch0[tags[c]]) == 0 {
						rep["positions"] = tagName[tags[a]] + " / " + tagName[tags[c]]
						r.Violation("challenges-not-distinct/"+j.b, "two callbacks of one chain received the same challenge", rep)
					} else {
						r.Count("chal.distinct-pairs", 1)
					}
				}
			}
			// determinism of the harness' commitment (otherwise the comparison below means nothing)
			ch0b, _, _, _ := run(base)
			same := true
			for _, t := range tags {
				if ch0b[t] == nil || ch0b[t].Cmp(ch0[t]) != 0 {
					same = false
				}
			}
			if !same {
				r.Inconclusive("hash-commitment-not-deterministic")
				continue
			}
			type vary struct {
				name string
				f    func(m *mgWit)
			}
			inc := func(x *big.Int) { x.Add(x, one) }
			vs := []vary{
				{"table1-query-index", func(m *mgWit) { inc(m.Q1[0]) }},
				{"table2(constant-entries)-query-index", func(m *mgWit) { inc(m.Q2[0]) }},
				{"rangechecked-8bit-value", func(m *mgWit) { m.R[0].Xor(m.R[0], one) }},
				{"rangechecked-20bit-value", func(m *mgWit) { m.R[2].Xor(m.R[2], big.NewInt(1<<11)) }},
				{"rangechecked-60bit-value", func(m *mgWit) { m.A.Xor(m.A, big.NewInt(4)) }},
				{"harness-callback-own-variable", func(m *mgWit) { inc(m.Own); m.Own.Mod(m.Own, j.fc.mod) }},
			}
			for e := range base.T1 { // every witness entry of table 1, queried or not, whatever constant rows surround it
				e := e
				vs = append(vs, vary{"table1-witness-entry(" + t1ConstName[j.t1c] + ")", func(m *mgWit) { inc(m.T1[e]); m.T1[e].Mod(m.T1[e], j.fc.mod) }})
			}
			if j.emu {
				vs = append(vs, vary{"emulated-mul-operand-limb", func(m *mgWit) { m.EA[1].Xor(m.EA[1], big.NewInt(2)) }})
			}
			for _, v := range vs {
				m := base.clone()
				v.f(m)
				ch1, _, _, e1 := run(m)
				r.Eval(fmt.Sprintf("chal-vary|%s|%s|%v|%d|%v|%s|%v", j.fc.name, j.b, j.emu, j.t1c, strs(base.secret()), v.name, strs(m.secret())), true)
				rep2 := map[string]any{"field": j.fc.name, "builder": j.b, "emulated": j.emu, "table1_layout": t1ConstName[j.t1c], "witness": strs(base.secret()), "changed": v.name, "witness2": strs(m.secret())}
				if e1 != nil {
					r.Inconclusive("chal-variant-rejected:" + v.name)
					continue
				}
				for _, t := range tags {
					if ch1[t] == nil {
						r.Inconclusive("challenge-recorder-not-reached")
						continue
					}
					r.Count("chal.pairs-compared", 1)
					if ch1[t].Cmp(ch0[t]) == 0 {
						rep2["callback"] = tagName[t]
						rep2["challenge"] = ch0[t].String()
						r.Count("chal.CHALLENGE-UNCHANGED", 1)
						r.Violation("challenge-independent-of-committed-value/"+v.name+"/"+j.b, fmt.Sprintf("changing %s left the challenge of callback %s unchanged", v.name, tagName[t]), rep2)
					} else {
						r.Count("chal.moved:"+v.name, 1)
					}
				}
				r.SampleClass("chal", map[string]any{"field": j.fc.name, "builder": j.b, "changed": v.name,
					"challenge_before": ch0[tagRecLast].String(), "challenge_after": fmt.Sprint(ch1[tagRecLast])})
			}
		}
	})
}

// ================================================================== real provers (bn254)

type proverKit struct {
	name   string
	prove  func(sys constraint.ConstraintSystem, w witness.Witness, opts ...solver.Option) (func() error, error)
	setup  func(sys constraint.ConstraintSystem) error
	ccsFor string // builder
}

func groth16Kit() *proverKit {
	var pk groth16.ProvingKey
	var vk groth16.VerifyingKey
	k := &proverKit{name: "groth16", ccsFor: "r1cs"}
	k.setup = func(sys constraint.ConstraintSystem) (err error) {
		pk, vk, err = groth16.Setup(sys)
		return
	}
	k.prove = func(sys constraint.ConstraintSystem, w witness.Witness, opts ...solver.Option) (func() error, error) {
		proof, err := groth16.Prove(sys, pk, w, backend.WithSolverOptions(opts...))
		if err != nil {
			return nil, err
		}
		return func() error {
			pw, err := w.Public()
			if err != nil {
				return err
			}
			return groth16.Verify(proof, vk, pw)
		}, nil
	}
	return k
}

func plonkKit() *proverKit {
	var pk plonk.ProvingKey
	var vk plonk.VerifyingKey
	k := &proverKit{name: "plonk", ccsFor: "scs"}
	k.setup = func(sys constraint.ConstraintSystem) error {
		srs, lag, err := unsafekzg.NewSRS(sys)
		if err != nil {
			return err
		}
		pk, vk, err = plonk.Setup(sys, srs, lag)
		return err
	}
	k.prove = func(sys constraint.ConstraintSystem, w witness.Witness, opts ...solver.Option) (func() error, error) {
		proof, err := plonk.Prove(sys, pk, w, backend.WithSolverOptions(opts...))
		if err != nil {
			return nil, err
		}
		return func() error {
			pw, err := w.Public()
			if err != nil {
				return err
			}
			return plonk.Verify(proof, vk, pw)
		}, nil
	}
	return k
}

// proverCase runs one witness through the real prover and verifier.
func proverCase(r *vcore.Run, k *proverKit, sys constraint.ConstraintSystem, w witness.Witness, mustFail bool, class string, rep map[string]any, opts ...solver.Option) {
	var verify func() error
	var perr error
	pan, stack := vcore.Catch(func() { verify, perr = k.prove(sys, w, opts...) })
	rep["prover"] = k.name
	r.Eval(fmt.Sprintf("prover|%s|%s|%v", k.name, class, rep), true)
	if pan != nil {
		rep["panic"] = fmt.Sprintf("%v\n%s", pan, stack)
		r.Violation("prover-panic/"+k.name+"/"+class, "Prove panicked", rep)
		return
	}
	if perr != nil {
		if mustFail {
			r.Count("prover."+class+"-rejected", 1)
			r.Count("prover."+k.name+".prove-error", 1)
			if class == "dishonest" {
				rep["prover_said"] = perr.Error()
				r.SampleClass("prover.dishonest", rep)
			}
		} else {
			// completeness of the provers is C03's business: counted, not a C13 violation
			r.Count("prover.HONEST-FAILED(completeness,not-C13)", 1)
			r.Inconclusive("prover-failed-on-true-statement/" + k.name)
		}
		return
	}
	verr := verify()
	switch {
	case verr == nil && mustFail:
		r.Count("prover.ACCEPTED-false-statement", 1)
		r.Violation("prover-accepted-false-statement/"+k.name+"/"+class, "the real prover produced a verifying proof for a false range/lookup statement", rep)
	case verr == nil:
		r.Count("prover.honest-verified", 1)
		r.Count("prover."+k.name+".verified", 1)
	case mustFail:
		r.Count("prover."+class+"-rejected", 1)
		r.Count("prover."+k.name+".proved-but-verifier-rejected", 1)
	default:
		r.Count("prover.HONEST-PROOF-REJECTED(completeness,not-C13)", 1)
		r.Inconclusive("honest-proof-rejected/" + k.name)
	}
}

func realProvers(r *vcore.Run) {
	fcs := []fieldCtx{fBN254}
	if r.Thorough() {
		fcs = append(fcs, fBLS377)
	}
	type job struct {
		fc  fieldCtx
		kit func() *proverKit
		k   int
	}
	var jobs []job
	for _, fc := range fcs {
		for k := 0; k < r.Pick(2, 12); k++ {
			jobs = append(jobs, job{fc, groth16Kit, k}, job{fc, plonkKit, k})
		}
	}
	vcore.Parallel(len(jobs), 4, func(i int) {
		j := jobs[i]
		kit := j.kit()
		rng := r.Rand(fmt.Sprintf("prover/%s/%d", j.fc.name, j.k))
		// ---- range checks
		sh := mixShape(rng, []int{1, 3, 8, 20, 2, 5}[j.k%6], j.fc.mod.BitLen(), false)
		s, err := compile(j.fc, kit.ccsFor, sh.circuit())
		if err != nil {
			r.Inconclusive("prover-compile")
			return
		}
		sys := s.(constraint.ConstraintSystem)
		if err := kit.setup(sys); err != nil {
			r.Inconclusive("prover-setup:" + bucket(err))
			return
		}
		for _, cs := range mixCases(rng, sh, j.fc.mod, 2, 0) {
			w, _ := circuits.MakeWitness(j.fc.mod, []*big.Int{one}, cs.vals)
			proverCase(r, kit, sys, w, false, "rc-honest", map[string]any{"field": j.fc.name, "shape": sh.String(), "values": strs(cs.vals)})
		}
		for _, cs := range mixCases(rng, sh, j.fc.mod, 0, 2) {
			w, _ := circuits.MakeWitness(j.fc.mod, []*big.Int{one}, cs.vals)
			proverCase(r, kit, sys, w, true, "honest-out-of-range", map[string]any{"field": j.fc.name, "shape": sh.String(), "values": strs(cs.vals), "bad": cs.note})
			for _, dk := range []string{"top-oversized", "solve-random-limb", "v-plus-p"} {
				for _, ck := range []string{"skip", "fold", "fold+cancel"} {
					lrng := rand.New(rand.NewPCG(rng.Uint64(), 3))
					dst, cst := &decompStats{}, &countStats{}
					proverCase(r, kit, sys, w, true, "dishonest", map[string]any{"field": j.fc.name, "shape": sh.String(), "values": strs(cs.vals), "bad": cs.note, "decompose_lie": dk, "count_lie": ck},
						solver.WithNbTasks(1), lyingDecompose(dk, j.fc.mod, lrng, dst), lyingCount(ck, j.fc.mod, lrng, cst))
					r.Count("prover.hint-calls-intercepted", dst.calls+cst.calls)
				}
			}
		}
		// ---- a narrow check among 300 wide ones (limb width > narrow width), dyadic fractions included
		if j.k < 2 {
			narrowProver(r, j.fc, kit, rng, []int{3, 1 + rng.IntN(7)}[j.k])
		}
		// ---- lookups
		lsh := genLkShape(rng, []int{3, 8, 20}[j.k%3], j.k%3, 3, false, 1, false)
		ls, err := compile(j.fc, kit.ccsFor, lsh.circuit())
		if err != nil {
			r.Inconclusive("prover-compile")
			return
		}
		lsys := ls.(constraint.ConstraintSystem)
		if err := kit.setup(lsys); err != nil {
			r.Inconclusive("prover-setup:" + bucket(err))
			return
		}
		size := []int{3, 8, 20}[j.k%3]
		ent := lkEntries(rng, lsh.nEnt, j.fc.mod)
		idx := make([]*big.Int, lsh.nIdx)
		for q := range idx {
			idx[q] = big.NewInt(int64(rng.IntN(size)))
		}
		tables, qs := lsh.model(ent, idx)
		exp := make([]*big.Int, len(qs))
		for q := range qs {
			exp[q] = tables[0][qs[q].index.Int64()]
		}
		sum := new(big.Int)
		if lsh.useSum {
			sum = lkSum(exp, j.fc.mod)
		}
		sec := append(append([]*big.Int{}, ent...), idx...)
		w, _ := circuits.MakeWitness(j.fc.mod, []*big.Int{one, sum}, sec)
		proverCase(r, kit, lsys, w, false, "lk-honest", map[string]any{"field": j.fc.name, "shape": lsh.String(), "entries": strs(ent), "indices": strs(idx)})
		// out-of-table index, honest prover
		idx2 := append([]*big.Int{}, idx...)
		idx2[0] = big.NewInt(int64(size))
		w2, _ := circuits.MakeWitness(j.fc.mod, []*big.Int{one, sum}, append(append([]*big.Int{}, ent...), idx2...))
		proverCase(r, kit, lsys, w2, true, "honest-out-of-table", map[string]any{"field": j.fc.name, "shape": lsh.String(), "entries": strs(ent), "indices": strs(idx2)})
		// false result, dishonest prover
		tix := idx[0].Uint64()
		for _, ck := range []string{"honest", "skip", "fold", "fold+cancel"} {
			served := new(big.Int).Mod(new(big.Int).Add(exp[0], big.NewInt(9)), j.fc.mod)
			cp, n := withLyingLookups(ls, []*lookupLie{{alter: func(ix uint64, _ bool, h *big.Int) *big.Int {
				if ix == tix {
					return served
				}
				return nil
			}}})
			if n == 0 {
				r.Inconclusive("no-lookup-blueprint-found")
				break
			}
			// public sum consistent with the false results
			exp2 := append([]*big.Int{}, exp...)
			for q := range qs {
				if qs[q].index.Uint64() == tix {
					exp2[q] = served
				}
			}
			sum2 := new(big.Int)
			if lsh.useSum {
				sum2 = lkSum(exp2, j.fc.mod)
			}
			w3, _ := circuits.MakeWitness(j.fc.mod, []*big.Int{one, sum2}, sec)
			cst := &countStats{}
			proverCase(r, kit, cp.(constraint.ConstraintSystem), w3, true, "dishonest", map[string]any{"field": j.fc.name, "shape": lsh.String(), "entries": strs(ent), "indices": strs(idx), "result_lie": "entry+9 at index " + idx[0].String(), "count_lie": ck},
				solver.WithNbTasks(1), lyingCount(ck, j.fc.mod, rand.New(rand.NewPCG(rng.Uint64(), 9)), cst))
			r.Count("prover.hint-calls-intercepted", cst.calls)
		}
	})
}

// ================================================================== gnark's test engine (third execution engine, honest only)

func testEngineSample(r *vcore.Run) {
	// sequential on purpose: test.IsSolved keeps unsynchronised package-level counters
	rng := r.Rand("engine")
	for k := 0; k < r.Pick(12, 200); k++ {
		fc := fBN254
		plain := k%2 == 1
		sh := mixShape(rng, 1+rng.IntN(6), fc.mod.BitLen(), plain)
		for _, cs := range mixCases(rng, sh, fc.mod, 1, 2) {
			asg := sh.circuit()
			asg.Pub = 1
			for i := range asg.Vals {
				asg.Vals[i] = cs.vals[i]
			}
			var err error
			pan, _ := vcore.Catch(func() { err = test.IsSolved(sh.circuit(), asg, fc.mod) })
			if pan != nil {
				err = fmt.Errorf("panic: %v", pan)
			}
			want := sh.accepts(cs.vals)
			strat := stratName(sh.strategy)
			r.Eval(fmt.Sprintf("engine|%s|%v", sh.String(), strs(cs.vals)), true)
			r.Count("strategy."+strat+".test-engine", 1)
			rep := map[string]any{"engine": "test.IsSolved", "shape": sh.String(), "values": strs(cs.vals), "note": cs.note, "strategy": strat}
			switch {
			case err == nil && !want:
				r.Violation("rangecheck-accepted-out-of-range/"+strat+"/test-engine", "test engine accepted an out-of-range value: "+cs.note, rep)
			case err != nil && want:
				rep["engine_said"] = bucket(err)
				r.Violation("rangecheck-rejected-in-range/"+strat+"/test-engine", "test engine rejected in-range values", rep)
			case err == nil:
				r.Count("engine.rc.accepted."+strat, 1)
			default:
				r.Count("engine.rc.rejected."+strat, 1)
			}
		}
	}
	for k := 0; k < r.Pick(6, 100); k++ {
		fc := fBN254
		size := 1 + rng.IntN(12)
		sh := genLkShape(rng, size, k%3, 1+rng.IntN(5), false, 1, true)
		sh.useSum = true
		ent := lkEntries(rng, sh.nEnt, fc.mod)
		for _, oob := range []bool{false, true} {
			idx := make([]*big.Int, sh.nIdx)
			for q := range idx {
				idx[q] = big.NewInt(int64(rng.IntN(size)))
			}
			if oob {
				if len(idx) == 0 {
					continue
				}
				idx[rng.IntN(len(idx))] = oobIndex(oobNames[rng.IntN(len(oobNames))], size, fc.mod, rng)
			}
			tables, qs := sh.model(ent, idx)
			exp := make([]*big.Int, len(qs))
			for q := range qs {
				if qs[q].index.IsInt64() && qs[q].index.Int64() < int64(len(tables[0])) {
					exp[q] = tables[0][qs[q].index.Int64()]
				} else {
					exp[q] = new(big.Int)
				}
			}
			for _, wrongSum := range []bool{false, true} {
				if oob && wrongSum {
					continue
				}
				sum := lkSum(exp, fc.mod)
				if wrongSum {
					sum.Add(sum, one).Mod(sum, fc.mod)
				}
				asg := sh.circuit()
				asg.Pub, asg.Sum = 1, sum
				for i := range asg.Ent {
					asg.Ent[i] = ent[i]
				}
				for i := range asg.Idx {
					asg.Idx[i] = idx[i]
				}
				var err error
				pan, _ := vcore.Catch(func() { err = test.IsSolved(sh.circuit(), asg, fc.mod) })
				if pan != nil {
					err = fmt.Errorf("panic: %v", pan)
				}
				want := !oob && !wrongSum
				r.Eval(fmt.Sprintf("engine-lk|%s|%v|%v|%v", sh.String(), strs(ent), strs(idx), wrongSum), true)
				rep := map[string]any{"engine": "test.IsSolved", "shape": sh.String(), "entries": strs(ent), "indices": strs(idx), "wrong_sum": wrongSum}
				switch {
				case err == nil && !want:
					r.Violation("lookup-accepted-wrong/test-engine", "test engine accepted an out-of-table index or a wrong sum of results", rep)
				case err != nil && want:
					rep["engine_said"] = bucket(err)
					r.Violation("lookup-rejected-valid-queries/test-engine", "test engine rejected valid queries", rep)
				case err == nil:
					r.Count("engine.lk.accepted", 1)
				default:
					r.Count("engine.lk.rejected", 1)
				}
			}
		}
	}
}

var _ frontend.Circuit = (*mgCircuit)(nil)
