//go:build verif

package c13

import (
	"fmt"
	"math/big"
	"math/rand/v2"

	"github.com/consensys/gnark/constraint"
	"github.com/consensys/gnark/constraint/solver"
	"github.com/consensys/gnark/test"

	"github.com/consensys/gnark/verifharness/internal/circuits"
	"github.com/consensys/gnark/verifharness/internal/vcore"
)

// ================================================================== narrow checks among many wide ones

// narrowShape: nNarrow variables with a 1..7-bit check in front of nWide
// variables with `wide`-bit checks, so that the limb width the commit strategy
// picks (driven by the many wide checks) exceeds the narrow width.
func narrowShape(narrow []int, nWide, wide int, plain bool) *rcShape {
	sh := &rcShape{nVals: len(narrow) + nWide, plain: plain}
	for i, n := range narrow {
		sh.checks = append(sh.checks, rcCheck{v: i, bits: n})
	}
	for i := 0; i < nWide; i++ {
		sh.checks = append(sh.checks, rcCheck{v: len(narrow) + i, bits: wide})
	}
	return sh
}

// narrowCases: the wide variables hold in-range values; the narrow variable
// walks through its in-range values, the usual out-of-range edges and **all**
// dyadic fractions +-k*2^-j (j up to 17 = the largest limb width).
func narrowCases(rng *rand.Rand, sh *rcShape, nNarrow int, p *big.Int, everyDyadic bool) []rcCase {
	bd := sh.bound()
	fill := func() []*big.Int {
		vals := make([]*big.Int, sh.nVals)
		for i := range vals {
			vals[i] = inValues(rng, bd[i], p, 1)[0]
		}
		return vals
	}
	var cases []rcCase
	for t := 0; t < nNarrow; t++ {
		n := bd[t]
		for _, v := range inValues(rng, n, p, 3) {
			vals := fill()
			vals[t] = v
			cases = append(cases, rcCase{vals, fmt.Sprintf("Vals[%d]=%s inside its %d-bit range", t, v, n)})
		}
		for _, v := range outValues(rng, n, p, 4) {
			vals := fill()
			vals[t] = v
			cases = append(cases, rcCase{vals, fmt.Sprintf("Vals[%d]=%s violates its %d-bit check", t, v, n)})
		}
		dy := dyadicValues(n, p, 17)
		if !everyDyadic {
			rng.Shuffle(len(dy), func(i, j int) { dy[i], dy[j] = dy[j], dy[i] })
			if len(dy) > 12 {
				dy = dy[:12]
			}
		}
		for _, v := range dy {
			vals := fill()
			vals[t] = v
			cases = append(cases, rcCase{vals, fmt.Sprintf("Vals[%d]=%s violates its %d-bit check (dyadic fraction)", t, v, n)})
		}
	}
	// a wide variable holding a dyadic fraction
	for k := 0; k < 4; k++ {
		t := nNarrow + rng.IntN(sh.nVals-nNarrow)
		dy := dyadicValues(bd[t], p, 17)
		vals := fill()
		vals[t] = dy[rng.IntN(len(dy))]
		cases = append(cases, rcCase{vals, fmt.Sprintf("Vals[%d]=%s violates its %d-bit check (dyadic fraction)", t, vals[t], bd[t])})
	}
	return cases
}

func honestNarrowInWide(r *vcore.Run) {
	type job struct {
		fc     fieldCtx
		b      string
		narrow []int
		nWide  int
		wide   int
		plain  bool
	}
	var jobs []job
	nWides := []int{40, 300}
	if r.Thorough() {
		nWides = []int{12, 40, 120, 300, 1500, 4000}
	}
	for _, fc := range []fieldCtx{fBN254, fBLS377} {
		for n := 1; n <= 7; n++ {
			for wi, nWide := range nWides {
				wide := []int{16, 32, 64, 24}[(n+wi)%4]
				for _, b := range builders {
					jobs = append(jobs, job{fc, b, []int{n}, nWide, wide, false})
				}
			}
		}
		for _, b := range builders {
			jobs = append(jobs, job{fc, b, []int{3}, 300, 16, false}) // the coordinator's example: limb width 8 > 3
			jobs = append(jobs, job{fc, b, []int{1, 2, 3, 4, 5, 6, 7}, 500, 16, false})
			jobs = append(jobs, job{fc, b, []int{3, 5}, 30, 16, true}) // plain strategy for comparison
		}
	}
	vcore.Parallel(len(jobs), 8, func(i int) {
		j := jobs[i]
		rng := r.Rand(fmt.Sprintf("narrow/%s/%v/%d/%d", j.fc.name, j.narrow, j.nWide, j.wide))
		sh := narrowShape(j.narrow, j.nWide, j.wide, j.plain)
		cases := narrowCases(rng, sh, len(j.narrow), j.fc.mod, len(j.narrow) == 1)
		w := runRC(r, j.fc, j.b, sh, cases, "narrow")
		if j.plain {
			return
		}
		r.Count("rc.narrow.circuits", 1)
		for _, n := range j.narrow {
			if w > n {
				r.Count("rc.narrow.limbwidth-exceeds-narrow-width", 1)
			} else {
				r.Count("rc.narrow.limbwidth-not-above-narrow-width", 1)
			}
		}
	})
	// the same through gnark's test engine (sequential)
	rng := r.Rand("narrow/engine")
	for k := 0; k < r.Pick(3, 12); k++ {
		n := 1 + rng.IntN(7)
		sh := narrowShape([]int{n}, 300, 16, false)
		cases := narrowCases(rng, sh, 1, fBN254.mod, false)
		for _, cs := range cases {
			asg := sh.circuit()
			asg.Pub = 1
			for i := range asg.Vals {
				asg.Vals[i] = cs.vals[i]
			}
			var err error
			if pan, _ := vcore.Catch(func() { err = test.IsSolved(sh.circuit(), asg, fBN254.mod) }); pan != nil {
				err = fmt.Errorf("panic: %v", pan)
			}
			want := sh.accepts(cs.vals)
			r.Eval(fmt.Sprintf("engine-narrow|%s|%v", sh.String(), strs(cs.vals[:1])), true)
			r.Count("strategy."+stratName(sh.strategy)+".test-engine", 1)
			rep := map[string]any{"engine": "test.IsSolved", "shape": sh.String(), "narrow_value": cs.vals[0].String(), "note": cs.note}
			switch {
			case err == nil && !want:
				r.Violation("rangecheck-accepted-out-of-range/"+stratName(sh.strategy)+"/test-engine", "test engine accepted an out-of-range value: "+cs.note, rep)
			case err != nil && want:
				rep["engine_said"] = bucket(err)
				r.Violation("rangecheck-rejected-in-range/"+stratName(sh.strategy)+"/test-engine", "test engine rejected in-range values", rep)
			case err == nil:
				r.Count("engine.rc.accepted.commit", 1)
			default:
				r.Count("engine.rc.rejected.commit", 1)
				r.Count("engine.rc.narrow-rejected", 1)
			}
		}
	}
}

// narrowProver: the narrow-among-wide circuit through the real provers.
func narrowProver(r *vcore.Run, fc fieldCtx, kit *proverKit, rng *rand.Rand, n int) {
	sh := narrowShape([]int{n}, 300, 16, false)
	s, err := compile(fc, kit.ccsFor, sh.circuit())
	if err != nil {
		r.Inconclusive("prover-compile")
		return
	}
	sys := s.(constraint.ConstraintSystem)
	if err := kit.setup(sys); err != nil {
		r.Inconclusive("prover-setup:" + bucket(err))
		return
	}
	cases := narrowCases(rng, sh, 1, fc.mod, false)
	nIn, nOut := 0, 0
	for _, cs := range cases {
		want := sh.accepts(cs.vals)
		if (want && nIn >= 2) || (!want && nOut >= 10) {
			continue
		}
		w, _ := circuits.MakeWitness(fc.mod, []*big.Int{one}, cs.vals)
		rep := map[string]any{"field": fc.name, "shape": sh.String(), "narrow_value": cs.vals[0].String(), "note": cs.note}
		if want {
			nIn++
			proverCase(r, kit, sys, w, false, "rc-honest", rep)
		} else {
			nOut++
			proverCase(r, kit, sys, w, true, "honest-out-of-range", rep)
			r.Count("prover.narrow-out-of-range-cases", 1)
		}
	}
}

// ================================================================== the whole table is committed, whatever constant rows it has

var layoutName = map[int]string{1: "all-witness", 2: "random-mix", 3: "const-last", 4: "const-first", 5: "const-middle", 6: "const-padding"}

// slotRows maps every witness entry slot of a one-table shape to its row.
func slotRows(sh *lkShape) map[int]int {
	m := map[int]int{}
	row := 0
	for _, o := range sh.ops {
		if o.insert {
			if o.slot >= 0 {
				m[o.slot] = row
			}
			row++
		}
	}
	return m
}

// tableCommitment: (a) changing any single witness entry of a table must move
// the challenge its argument receives; (b) a prover that learns the challenge
// and then solves for a secret, never-queried table entry so that a false
// lookup result balances the log-derivative equation must be rejected.
func tableCommitment(r *vcore.Run) {
	type job struct {
		fc         fieldCtx
		b          string
		size, kind int
		k          int
	}
	var jobs []job
	sizes := []int{2, 3, 5, 9}
	if r.Thorough() {
		sizes = []int{2, 3, 4, 5, 9, 17, 64, 200}
	}
	for _, fc := range []fieldCtx{fBN254, fBLS377} {
		for _, size := range sizes {
			for kind := 1; kind <= 6; kind++ {
				for k := 0; k < r.Pick(1, 3); k++ {
					for _, b := range builders {
						jobs = append(jobs, job{fc, b, size, kind, k})
					}
				}
			}
		}
	}
	vcore.Parallel(len(jobs), 8, func(i int) {
		j := jobs[i]
		p := j.fc.mod
		lay := layoutName[j.kind]
		rng := r.Rand(fmt.Sprintf("tablecommit/%s/%d/%d/%d", j.fc.name, j.size, j.kind, j.k))
		sh := genLkShape(rng, j.size, j.kind, 1+rng.IntN(3), false, 1, false)
		sh.useSum = false
		if sh.nEnt == 0 {
			return
		}
		sys, err := compile(j.fc, j.b, sh.circuit())
		if err != nil {
			r.Inconclusive("tablecommit-compile")
			return
		}
		rows := slotRows(sh)
		ent := lkEntries(rng, sh.nEnt, p)
		// the never-queried secret row (for part b), then queries that avoid it
		jslot := rng.IntN(sh.nEnt)
		jrow := rows[jslot]
		idx := make([]*big.Int, sh.nIdx)
		for q := range idx {
			v := rng.IntN(j.size)
			if v == jrow {
				v = (v + 1) % j.size
			}
			idx[q] = big.NewInt(int64(v))
		}
		queried := map[int64]bool{}
		for _, x := range idx {
			queried[x.Int64()] = true
		}
		base := map[string]any{"field": j.fc.name, "builder": j.b, "layout": lay, "ops": sh.opsString(), "entries": strs(ent), "indices": strs(idx)}

		// ---- (a) challenge dependence on every witness entry
		challenge := func(e []*big.Int) (*big.Int, error) {
			w, _ := circuits.MakeWitness(p, []*big.Int{one, new(big.Int)}, append(append([]*big.Int{}, e...), idx...))
			lg := &commitLog{}
			serr, _ := solve(sys, w, fixedMask(), hashCommit(lg))
			return lg.last(), serr
		}
		x0, e0 := challenge(ent)
		r.Eval(fmt.Sprintf("tablecommit-base|%s|%s|%s|%v|%v", j.fc.name, j.b, sh.opsString(), strs(ent), strs(idx)), true)
		if e0 != nil || x0 == nil {
			r.Count("lk.REJECTED-valid", 1)
			base["solver_said"] = fmt.Sprint(e0)
			r.Violation("lookup-rejected-valid-queries/"+j.b, "honest Solve rejected in-table queries: "+fmt.Sprint(e0), base)
			return
		}
		r.Count("chal.table.circuits."+lay, 1)
		for slot := 0; slot < sh.nEnt; slot++ {
			e2 := make([]*big.Int, len(ent))
			for k := range ent {
				e2[k] = new(big.Int).Set(ent[k])
			}
			e2[slot].Add(e2[slot], one).Mod(e2[slot], p)
			x1, e1 := challenge(e2)
			r.Eval(fmt.Sprintf("tablecommit-vary|%s|%s|%s|%v|%v|%d", j.fc.name, j.b, sh.opsString(), strs(ent), strs(idx), slot), true)
			if e1 != nil || x1 == nil {
				r.Inconclusive("tablecommit-variant-rejected")
				continue
			}
			r.Count("chal.table-entry-pairs-compared", 1)
			if queried[int64(rows[slot])] {
				r.Count("chal.table-entry.queried", 1)
			} else {
				r.Count("chal.table-entry.never-queried", 1)
			}
			if x1.Cmp(x0) == 0 {
				rep := map[string]any{"field": j.fc.name, "builder": j.b, "layout": lay, "ops": sh.opsString(), "entries": strs(ent), "indices": strs(idx),
					"changed_entry": fmt.Sprintf("Ent[%d] (table row %d) +1", slot, rows[slot]), "challenge": x0.String()}
				r.Count("chal.CHALLENGE-UNCHANGED", 1)
				r.Violation("challenge-independent-of-table-entry/"+lay+"/"+j.b, "changing one witness entry of the table left the challenge of its log-derivative argument unchanged", rep)
			} else {
				r.Count("chal.table-entry-moved."+lay, 1)
			}
		}
		r.SampleClass("chal.table", base)

		// ---- (b) two-pass prover whose unknown is the secret entry of row jrow
		if j.size < 2 {
			return
		}
		tix := idx[0].Uint64()
		mkLie := func() []*lookupLie {
			return []*lookupLie{{alter: func(ix uint64, ok bool, h *big.Int) *big.Int {
				if ok && ix == tix {
					return new(big.Int).Mod(new(big.Int).Add(h, big.NewInt(5)), p)
				}
				return nil
			}}}
		}
		run := func(e []*big.Int, forced []*big.Int) (*countStats, *big.Int, error, string) {
			cp, n := withLyingLookups(sys, mkLie())
			if n == 0 {
				return nil, nil, nil, "no-proxy"
			}
			w, _ := circuits.MakeWitness(p, []*big.Int{one, new(big.Int)}, append(append([]*big.Int{}, e...), idx...))
			cst, lg := &countStats{}, &commitLog{}
			if forced != nil {
				cst.forced = map[int][]*big.Int{0: forced}
			}
			serr, pan := solve(cp, w, solver.WithNbTasks(1), fixedMask(), hashCommit(lg), lyingCount("skip", p, rand.New(rand.NewPCG(3, 4)), cst))
			return cst, lg.last(), serr, pan
		}
		rep := map[string]any{"field": j.fc.name, "builder": j.b, "layout": lay, "ops": sh.opsString(), "entries": strs(ent), "indices": strs(idx),
			"result_lie": fmt.Sprintf("entry at index %d +5", tix), "unknown": fmt.Sprintf("Ent[%d] (table row %d, never queried)", jslot, jrow)}
		c0, _, _, pan0 := run(ent, nil) // observation pass: what does the argument see
		if pan0 != "" || c0 == nil || len(c0.last) != 1 || c0.unmatched == 0 {
			r.Inconclusive("tablecommit-pass0")
			return
		}
		forced := make([]*big.Int, len(c0.last[0].out))
		for k := range forced {
			forced[k] = new(big.Int).Set(c0.last[0].out[k])
		}
		forced[jrow].Add(forced[jrow], big.NewInt(int64(c0.unmatched))) // the false queries are blamed on the secret row
		c1, x1, e1, _ := run(ent, forced)
		if e1 == nil {
			r.Violation("twopass-accepted-pass1/lk-table-entry/"+j.b, "Solve accepted a false lookup result with the false query blamed on another row", rep)
			return
		}
		if x1 == nil || c1 == nil || len(c1.last) != 1 {
			r.Inconclusive("tablecommit-pass1")
			return
		}
		// solve m_j/(x - j - r*E) = sum_q 1/(x-s_q) - sum_{k!=j} m_k/(x-f_k) for E
		call := c1.last[0]
		rc := nativeRowCoeff(j.fc, x1)
		comb := func(row []*big.Int) *big.Int {
			v := new(big.Int).Mul(rc, row[1])
			return v.Add(v, row[0]).Mod(v, p)
		}
		inv := func(v *big.Int) *big.Int {
			d := new(big.Int).Sub(x1, v)
			return d.ModInverse(d.Mod(d, p), p)
		}
		d := new(big.Int)
		okAlg := true
		for _, q := range call.queries {
			iv := inv(comb(q))
			if iv == nil {
				okAlg = false
				break
			}
			d.Add(d, iv)
		}
		for k := range call.table {
			if k == jrow || !okAlg {
				continue
			}
			iv := inv(comb(call.table[k]))
			if iv == nil {
				okAlg = false
				break
			}
			d.Sub(d, iv.Mul(iv, forced[k]))
		}
		d.Mod(d, p)
		dInv := new(big.Int).ModInverse(d, p)
		rInv := new(big.Int).ModInverse(rc, p)
		if !okAlg || dInv == nil || rInv == nil {
			r.Inconclusive("tablecommit-no-solution(pole)")
			return
		}
		// x - j - r*E = m_j / d  =>  E = (x - j - m_j/d) / r
		eNew := new(big.Int).Mul(forced[jrow], dInv)
		eNew.Sub(new(big.Int).Sub(x1, big.NewInt(int64(jrow))), eNew).Mul(eNew, rInv).Mod(eNew, p)
		ent2 := make([]*big.Int, len(ent))
		for k := range ent {
			ent2[k] = new(big.Int).Set(ent[k])
		}
		ent2[jslot] = eNew
		_, x2, e2, pan2 := run(ent2, forced)
		r.Eval(fmt.Sprintf("tablecommit-twopass|%s|%s|%s|%v|%v", j.fc.name, j.b, sh.opsString(), strs(ent), strs(idx)), true)
		rep["challenge_pass1"], rep["challenge_pass2"], rep["entry_pass2"], rep["solver_said"] = x1.String(), fmt.Sprint(x2), eNew.String(), fmt.Sprint(e2)
		if len(forced) <= 64 {
			rep["multiplicities_supplied"] = strs(forced)
		}
		if pan2 != "" {
			rep["panic"] = pan2
			r.Violation("twopass-solve-panic/"+j.b, "Solve panicked", rep)
			return
		}
		if x2 != nil && x2.Cmp(x1) == 0 {
			r.Count("twopass.CHALLENGE-STATIC", 1)
			r.Violation("challenge-independent-of-table-entry/twopass/"+lay+"/"+j.b, "changing a secret table entry left the challenge of the table's argument unchanged", rep)
		} else if x2 != nil {
			r.Count("twopass.table.challenge-moved", 1)
		}
		if e2 == nil {
			r.Count("twopass.ACCEPTED", 1)
			r.Violation("twopass-accepted-false-statement/lk-table-entry/"+lay+"/"+j.b, "a prover that solves for a secret table entry after seeing the challenge made a false lookup result pass", rep)
			return
		}
		r.Count("twopass.table.rejected", 1)
		r.Count("twopass.table.rejected."+lay, 1)
		r.SampleClass("twopass.table-entry", rep)
	})
}
