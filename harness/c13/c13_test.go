//go:build verif

// C13 — Range checks and lookup tables accept only in-range values and true
// entries.  Two monitors over the real frontend + solver (and a sample through
// the real provers):
//
//   - reference-model runs: generated circuits calling rangecheck.New(api).Check
//     and logderivlookup tables, both builders, with commitment support (the
//     log-derivative strategy) and without (plain bit decomposition, also over
//     the 47-element field exhaustively); oracle: accept <=> 0 <= v < 2^n as
//     integers, lookup result == table[i], failure for indices outside the table;
//   - adversarial runs: the harness plays a dishonest prover (lying
//     DecomposeHint limbs, lying countHint multiplicities, lying lookup results
//     through a proxy blueprint on a private copy of the compiled system, a
//     two-pass prover that solves for the multiplicity once it has seen the
//     challenge) with the commitment replaced by a hash of the committed values;
//     oracle: Solve must fail.  Plus the challenge-dependence clause for several
//     gadgets sharing one multicommit chain.
package c13

import (
	"fmt"
	"math/big"
	"math/rand/v2"
	"strings"
	"testing"
	"time"

	"github.com/consensys/gnark/constraint/solver"
	"github.com/consensys/gnark/logger"

	"github.com/consensys/gnark/verifharness/internal/circuits"
	"github.com/consensys/gnark/verifharness/internal/vcore"
)

func stratName(t string) string {
	switch {
	case strings.HasSuffix(t, "rangecheck.commitChecker"):
		return "commit"
	case strings.HasSuffix(t, "rangecheck.plainChecker"):
		return "plain"
	}
	return "native:" + t
}

func fieldClass(fc fieldCtx) string {
	if fc.small {
		return "tinyfield"
	}
	return "curve-field"
}

var one = big.NewInt(1)

func TestC13(t *testing.T) {
	logger.Disable()
	if countHintFn == nil {
		t.Fatalf("BROKEN-CHECK property=C13: logderivarg.countHint not found in the hint registry")
	}
	r := vcore.Start(t, "C13")

	parts := []struct {
		name string
		f    func(*vcore.Run)
	}{
		{"honest-range-grid", honestRangeGrid}, {"honest-range-tinyfield", honestRangeTiny}, {"honest-range-mixes", honestRangeMixes}, {"honest-range-narrow-in-wide", honestNarrowInWide},
		{"honest-range-expressions", exprChecks}, {"honest-lookups", honestLookups}, {"adv-range", advRange}, {"adv-lookup", advLookup},
		{"adv-several-gadgets", advMulti}, {"two-pass-prover", twoPass}, {"challenge-dependence", challengeDependence}, {"table-commitment", tableCommitment},
		{"real-provers", realProvers}, {"test-engine-sample", testEngineSample},
	}
	secs := map[string]float64{}
	for _, p := range parts {
		t0 := time.Now()
		p.f(r)
		secs[p.name] = float64(time.Since(t0).Milliseconds()) / 1000
	}
	r.Set("seconds_per_part", secs)

	r.Require("rc.honest.accepted.commit", 50)
	r.Require("rc.honest.accepted.plain", 50)
	r.Require("rc.honest.rejected.commit", 50)
	r.Require("rc.honest.rejected.plain", 50)
	r.Require("rc.tiny.accepted.plain", 100)
	r.Require("rc.tiny.rejected.plain", 100)
	r.Require("lk.honest.accepted", 40)
	r.Require("lk.honest.results-compared", 100)
	r.Require("lk.honest.rejected-out-of-table", 20)
	r.Require("adv.rc.rejected", 200)
	r.Require("adv.rc.decompose-lies-applied", 100)
	r.Require("adv.rc.count-lies-applied", 100)
	r.Require("adv.rc.narrow-dyadic-rejected", 500)
	r.Require("adv.lk.rejected", 100)
	r.Require("adv.lk.result-lies-applied", 100)
	r.Require("adv.lk.count-lies-applied", 50)
	r.Require("rc.expr.accepted", 20)
	r.Require("rc.expr.rejected", 20)
	r.Require("adv.multi.rejected", 50)
	r.Require("rc.dyadic-fraction-rejected.commit", 500)
	r.Require("rc.dyadic-fraction-rejected.plain", 200)
	r.Require("rc.narrow.limbwidth-exceeds-narrow-width", 20)
	r.Require("engine.rc.narrow-rejected", 20)
	r.Require("prover.narrow-out-of-range-cases", 10)
	r.Require("chal.table-entry-pairs-compared", 100)
	r.Require("chal.table-entry.never-queried", 30)
	r.Require("chal.table-entry-moved.const-last", 8)
	r.Require("chal.table-entry-moved.const-first", 8)
	r.Require("chal.table-entry-moved.const-middle", 8)
	r.Require("chal.table-entry-moved.const-padding", 8)
	r.Require("twopass.table.rejected", 30)
	r.Require("twopass.table.challenge-moved", 30)
	r.Require("twopass.rejected", 8)
	r.Require("twopass.challenge-moved", 8)
	r.Require("chal.pairs-compared", 10)
	r.Require("chal.challenges-recorded", 30)
	r.Require("prover.dishonest-rejected", 4)
	r.Require("prover.honest-verified", 4)

	r.Finish("exploration",
		"cases = (field, builder, circuit shape, witness, lie). Honest cases: real Compile+Solve of generated range-check circuits (widths 1..70 and field bits-2..+3; 1..4000 checked variables moving the limb width; commit and plain strategy; tinyfield exhaustive for the plain strategy) and lookup circuits (sizes 1..300, constant/witness/mixed entries, repeated/all/last/out-of-table/non-uint64 indices, interleaved insert/lookup, two tables), oracle = integer comparison / table[i]. Adversarial cases: out-of-range value or false lookup result with lying DecomposeHint, countHint and lookup blueprint, commitment = SHA-256 of committed values, Solve must fail; non-trivial = the lie was actually applied (hint call intercepted and output changed) and the oracle says must-reject, or (honest) the circuit has >= 1 check/query",
		[]string{
			"soundness error of the log-derivative argument over the ~2^253 fields (number of rows / field size) treated as never; the argument is therefore not attacked over tinyfield, where it is not meaningful",
			"the commitment is modelled by a hash of the values handed to the commitment hint when only Solve runs; the real Pedersen/KZG commitment is used in the prover sample",
			"no builder in this tree implements frontend.Rangechecker natively, so the 'native' strategy does not occur",
			"a lookup made before later inserts with an index that only becomes valid afterwards may either fail (documented: append-only) or return the entry; only a wrong value is a violation",
			"a table that is never queried makes the honest solver fail ('at least one query required'); this is a completeness matter outside C13's statement and is counted, not flagged",
		})
}

// ================================================================== honest range checks

type rcCase struct {
	vals []*big.Int
	note string
}

// runRC compiles one shape and solves the cases against the integer oracle.
func runRC(r *vcore.Run, fc fieldCtx, b string, sh *rcShape, cases []rcCase, part string) (limbWidth int) {
	sys, err := compile(fc, b, sh.circuit())
	if err != nil {
		r.Inconclusive("compile:" + bucket(err))
		r.Count("rc.compile-failed", 1)
		r.SampleClass("rc.compile-failed", map[string]any{"field": fc.name, "builder": b, "shape": sh.String(), "err": err.Error()})
		return 0
	}
	strat := stratName(sh.strategy)
	r.Count(fmt.Sprintf("strategy.%s.%s.%s", strat, b, fieldClass(fc)), len(cases))
	if (strat == "plain") != sh.plain {
		r.Violation("rangecheck-strategy-unexpected", fmt.Sprintf("rangecheck.New chose %s for plain=%v", sh.strategy, sh.plain), map[string]any{"shape": sh.String()})
	}
	cnt := "rc.honest"
	if fc.small {
		cnt = "rc.tiny"
	}
	for ci, cs := range cases {
		w, err := circuits.MakeWitness(fc.mod, []*big.Int{one}, cs.vals)
		if err != nil {
			r.Inconclusive("witness")
			continue
		}
		st := &decompStats{}
		opts := []solver.Option{lyingDecompose("honest-hint", fc.mod, nil, st)}
		if ci%2 == 0 {
			opts = append(opts, hashCommit(nil)) // odd cases keep gnark's own placeholder (random challenge)
		}
		want := sh.accepts(cs.vals)
		serr, pan := solve(sys, w, opts...)
		r.Eval(fmt.Sprintf("%s|%s|%s|%s|%v", part, fc.name, b, sh.String(), strs(cs.vals)), len(sh.checks) > 0)
		for wd := range st.widths {
			r.Count(fmt.Sprintf("rc.limbwidth=%02d", wd), 1)
			limbWidth = wd
		}
		if strings.Contains(cs.note, "dyadic") {
			if serr != nil {
				r.Count("rc.dyadic-fraction-rejected."+strat, 1)
			}
		}
		rep := map[string]any{"field": fc.name, "builder": b, "shape": sh.String(), "strategy": strat, "values": strs(cs.vals), "note": cs.note, "solver_said": fmt.Sprint(serr)}
		if len(cs.vals) > 40 {
			rep["values"] = strs(cs.vals[:40])
			rep["bad"] = cs.note
		}
		switch {
		case pan != "":
			rep["panic"] = pan
			r.Violation("rangecheck-solve-panic/"+strat+"/"+b, "Solve panicked", rep)
		case serr == nil && !want:
			r.Count("rc.ACCEPTED-out-of-range", 1)
			r.Violation("rangecheck-accepted-out-of-range/"+strat+"/"+b+"/"+fieldClass(fc), "honest Solve accepted a value outside [0,2^n): "+cs.note, rep)
		case serr != nil && want:
			r.Count("rc.REJECTED-in-range", 1)
			r.Violation("rangecheck-rejected-in-range/"+strat+"/"+b+"/"+fieldClass(fc), "honest Solve rejected in-range values: "+cs.note+": "+serr.Error(), rep)
		case serr == nil:
			r.Count(cnt+".accepted."+strat, 1)
		default:
			r.Count(cnt+".rejected."+strat, 1)
			r.Count("rc.reject-reason["+strat+"]: "+bucket(serr), 1)
			r.SampleClass(cnt+".rejected."+strat, rep)
		}
	}
	return limbWidth
}

func widthList(r *vcore.Run, fb int) []int {
	var ns []int
	if r.Quick() {
		ns = []int{1, 2, 3, 4, 5, 6, 7, 8, 9, 12, 15, 16, 17, 24, 31, 32, 33, 48, 63, 64, 65, 70}
	} else {
		for n := 1; n <= 70; n++ {
			ns = append(ns, n)
		}
		ns = append(ns, 100, 127, 128, 129, 200, 250)
	}
	for n := fb - 2; n <= fb+3; n++ {
		ns = append(ns, n)
	}
	return ns
}

func honestRangeGrid(r *vcore.Run) {
	type job struct {
		fc    fieldCtx
		b     string
		n     int
		plain bool
	}
	var jobs []job
	for _, fc := range []fieldCtx{fBN254, fBLS377} {
		for _, n := range widthList(r, fc.mod.BitLen()) {
			for _, b := range builders {
				for _, plain := range []bool{false, true} {
					jobs = append(jobs, job{fc, b, n, plain})
				}
			}
		}
	}
	vcore.Parallel(len(jobs), 8, func(i int) {
		j := jobs[i]
		rng := r.Rand(fmt.Sprintf("grid/%s/%s/%d/%v", j.fc.name, j.b, j.n, j.plain))
		sh := &rcShape{nVals: 1, checks: []rcCheck{{v: 0, bits: j.n}}, plain: j.plain}
		var cases []rcCase
		for _, v := range inValues(rng, j.n, j.fc.mod, r.Pick(4, 8)) {
			cases = append(cases, rcCase{[]*big.Int{v}, fmt.Sprintf("n=%d v=%s (in range)", j.n, v)})
		}
		for _, v := range outValues(rng, j.n, j.fc.mod, r.Pick(6, 14)) {
			cases = append(cases, rcCase{[]*big.Int{v}, fmt.Sprintf("n=%d v=%s (out of range)", j.n, v)})
		}
		for _, v := range dyadicValues(j.n, j.fc.mod, 17) { // all +-k*2^-j: small only after scaling
			cases = append(cases, rcCase{[]*big.Int{v}, fmt.Sprintf("n=%d v=%s (out of range, dyadic fraction)", j.n, v)})
		}
		runRC(r, j.fc, j.b, sh, cases, "grid")
	})
}

// honestRangeTiny: plain strategy over the 47-element field, exhaustively.
func honestRangeTiny(r *vcore.Run) {
	p := int(fTiny.mod.Int64())
	for _, b := range builders {
		for n := 1; n <= 9; n++ {
			sh := &rcShape{nVals: 1, checks: []rcCheck{{v: 0, bits: n}}, plain: true}
			var cases []rcCase
			for v := 0; v < p; v++ {
				cases = append(cases, rcCase{[]*big.Int{big.NewInt(int64(v))}, fmt.Sprintf("n=%d v=%d", n, v)})
			}
			runRC(r, fTiny, b, sh, cases, "tiny1")
		}
	}
	// two variables, all 47^2 assignments
	type pair struct{ n1, n2 int }
	var pairs []pair
	if r.Quick() {
		rng := r.Rand("tiny2")
		for i := 0; i < 6; i++ {
			pairs = append(pairs, pair{1 + rng.IntN(7), 1 + rng.IntN(7)})
		}
	} else {
		for a := 1; a <= 7; a++ {
			for c := 1; c <= 7; c++ {
				pairs = append(pairs, pair{a, c})
			}
		}
	}
	type job struct {
		b  string
		pr pair
	}
	var jobs []job
	for _, b := range builders {
		for _, pr := range pairs {
			jobs = append(jobs, job{b, pr})
		}
	}
	vcore.Parallel(len(jobs), 8, func(i int) {
		j := jobs[i]
		// the second variable is also checked a second time against n1 (repeated check of one variable)
		sh := &rcShape{nVals: 2, checks: []rcCheck{{v: 0, bits: j.pr.n1}, {v: 1, bits: j.pr.n2}, {v: 1, bits: j.pr.n1 + 1}}, plain: true}
		var cases []rcCase
		for v1 := 0; v1 < p; v1++ {
			for v2 := 0; v2 < p; v2++ {
				cases = append(cases, rcCase{[]*big.Int{big.NewInt(int64(v1)), big.NewInt(int64(v2))}, fmt.Sprintf("v=(%d,%d)", v1, v2)})
			}
		}
		runRC(r, fTiny, j.b, sh, cases, "tiny2")
	})
}

// mixShape draws nv variables with assorted widths (which moves the limb width
// the commit strategy picks), some variables checked twice, some constants.
func mixShape(rng *rand.Rand, nv int, fb int, plain bool) *rcShape {
	sh := &rcShape{nVals: nv, plain: plain}
	style := rng.IntN(6)
	wide := []int{16, 32, 64}[rng.IntN(3)]
	for i := 0; i < nv; i++ {
		var n int
		switch style {
		case 5: // a few narrow checks among many wide ones: the chosen limb width exceeds the narrow width
			n = wide
			if i == 0 || rng.IntN(25) == 0 {
				n = 1 + rng.IntN(7)
			}
		case 0:
			n = 1 + rng.IntN(70)
		case 1:
			n = []int{8, 16, 32, 64}[rng.IntN(4)]
		case 2:
			n = 60 + rng.IntN(10)
		case 3:
			n = 1 + rng.IntN(12)
		default:
			n = []int{1, 7, 13, 29, 64, 65, 128, fb - 1, fb - 2}[rng.IntN(9)]
		}
		sh.checks = append(sh.checks, rcCheck{v: i, bits: n})
		if rng.IntN(10) == 0 {
			sh.checks = append(sh.checks, rcCheck{v: i, bits: 1 + rng.IntN(70)})
		}
	}
	if rng.IntN(3) == 0 {
		n := 1 + rng.IntN(40)
		sh.checks = append(sh.checks, rcCheck{v: -1, c: randBelow(rng, pow2(n)), bits: n})
	}
	rng.Shuffle(len(sh.checks), func(i, j int) { sh.checks[i], sh.checks[j] = sh.checks[j], sh.checks[i] })
	return sh
}

// mixCases: all-in-range witnesses and witnesses with exactly one value out of its range.
func mixCases(rng *rand.Rand, sh *rcShape, p *big.Int, nIn, nOut int) []rcCase {
	bd := sh.bound()
	inAll := func() []*big.Int {
		vals := make([]*big.Int, sh.nVals)
		for i := range vals {
			n := bd[i]
			if n < 0 {
				vals[i] = randBelow(rng, p)
				continue
			}
			vals[i] = inValues(rng, n, p, 1)[0]
		}
		return vals
	}
	var cases []rcCase
	for i := 0; i < nIn; i++ {
		cases = append(cases, rcCase{inAll(), "all in range"})
	}
	for i := 0; i < nOut; i++ {
		vals := inAll()
		// pick a check and violate it
		for try := 0; try < 20; try++ {
			ck := sh.checks[rng.IntN(len(sh.checks))]
			if ck.v < 0 {
				continue
			}
			ov := outValues(rng, ck.bits, p, 4)
			kind := ""
			if dy := dyadicValues(ck.bits, p, 17); len(dy) > 0 && rng.IntN(2) == 0 {
				ov, kind = dy, " (dyadic fraction)"
			}
			if len(ov) == 0 {
				continue
			}
			vals[ck.v] = ov[rng.IntN(len(ov))]
			cases = append(cases, rcCase{vals, fmt.Sprintf("Vals[%d]=%s violates its %d-bit check%s", ck.v, vals[ck.v], ck.bits, kind)})
			break
		}
	}
	return cases
}

func honestRangeMixes(r *vcore.Run) {
	sizes := []int{2, 3, 6, 12, 40, 120, 300, 1500}
	reps := 1
	if r.Thorough() {
		sizes = append(sizes, 700, 2500, 4000)
		reps = 4
	}
	type job struct {
		fc    fieldCtx
		b     string
		nv    int
		rep   int
		plain bool
	}
	var jobs []job
	for _, fc := range []fieldCtx{fBN254, fBLS377} {
		for _, nv := range sizes {
			for rep := 0; rep < reps; rep++ {
				for _, b := range builders {
					jobs = append(jobs, job{fc, b, nv, rep, false})
					if nv <= 40 {
						jobs = append(jobs, job{fc, b, nv, rep, true})
					}
				}
			}
		}
	}
	vcore.Parallel(len(jobs), 8, func(i int) {
		j := jobs[i]
		rng := r.Rand(fmt.Sprintf("mix/%s/%d/%d", j.fc.name, j.nv, j.rep)) // same shape for both builders and strategies
		sh := mixShape(rng, j.nv, j.fc.mod.BitLen(), j.plain)
		cases := mixCases(rng, sh, j.fc.mod, 2, r.Pick(6, 12))
		runRC(r, j.fc, j.b, sh, cases, "mix")
	})
}

// ================================================================== honest lookups

func genLkShape(rng *rand.Rand, size, kind, nQ int, interleave bool, nTables int, constIdx bool) *lkShape {
	sh := &lkShape{nTables: nTables, useSum: rng.IntN(2) == 0}
	var inserts, lookups []lkOp
	for t := 0; t < nTables; t++ {
		for i := 0; i < size; i++ {
			// kinds: 0 constants, 1 witness, 2 random mix, 3 witness + last row constant,
			// 4 first row constant, 5 middle row constant, 6 witness padded with several trailing constants
			w := kind == 1 || (kind == 2 && rng.IntN(2) == 0) || (kind == 3 && i != size-1) || (kind == 4 && i != 0) ||
				(kind == 5 && i != size/2) || (kind == 6 && i < (size+1)/2)
			if w {
				inserts = append(inserts, lkOp{table: t, insert: true, slot: sh.nEnt})
				sh.nEnt++
			} else {
				inserts = append(inserts, lkOp{table: t, insert: true, slot: -1, cst: big.NewInt(int64(rng.IntN(1 << 20)))})
			}
		}
		left := nQ
		for left > 0 {
			bsz := 1 + rng.IntN(4)
			if bsz > left {
				bsz = left
			}
			op := lkOp{table: t}
			for k := 0; k < bsz; k++ {
				if constIdx && rng.IntN(4) == 0 {
					op.queries = append(op.queries, lkQuery{slot: -1, cidx: big.NewInt(int64(rng.IntN(size)))})
				} else {
					op.queries = append(op.queries, lkQuery{slot: sh.nIdx})
					sh.nIdx++
				}
			}
			lookups = append(lookups, op)
			left -= bsz
		}
	}
	if !interleave {
		sh.ops = append(inserts, lookups...)
		return sh
	}
	// interleave, keeping at least one insert of a table before its first lookup
	sh.ops = append(sh.ops, inserts[0])
	// random merge preserving the relative order inside inserts and inside lookups
	ii, li := 1, 0
	for ii < len(inserts) || li < len(lookups) {
		takeIns := ii < len(inserts) && (li >= len(lookups) || rng.IntN(3) != 0)
		if takeIns {
			sh.ops = append(sh.ops, inserts[ii])
			ii++
		} else {
			// a lookup of table t needs >= 1 entry of t already inserted
			t := lookups[li].table
			have := false
			for _, o := range sh.ops {
				if o.insert && o.table == t {
					have = true
				}
			}
			if !have {
				if ii < len(inserts) {
					sh.ops = append(sh.ops, inserts[ii])
					ii++
					continue
				}
			}
			sh.ops = append(sh.ops, lookups[li])
			li++
		}
	}
	return sh
}

func lkEntries(rng *rand.Rand, n int, p *big.Int) []*big.Int {
	e := make([]*big.Int, n)
	for i := range e {
		switch rng.IntN(6) {
		case 0:
			e[i] = big.NewInt(int64(rng.IntN(8)))
		case 1:
			e[i] = new(big.Int).Sub(p, big.NewInt(int64(1+rng.IntN(3))))
		case 2:
			if i > 0 {
				e[i] = new(big.Int).Set(e[rng.IntN(i)]) // duplicate values are allowed (rows differ by index)
			} else {
				e[i] = new(big.Int)
			}
		default:
			e[i] = randBelow(rng, p)
		}
	}
	return e
}

var oobNames = []string{"size", "size+1", "p-1", "2^32", "2^64", "2^64+idx", "(p-1)/2", "2*size"}

func oobIndex(name string, size int, p *big.Int, rng *rand.Rand) *big.Int {
	switch name {
	case "size":
		return big.NewInt(int64(size))
	case "size+1":
		return big.NewInt(int64(size + 1))
	case "p-1":
		return new(big.Int).Sub(p, one)
	case "2^32":
		return pow2(32)
	case "2^64":
		return pow2(64)
	case "2^64+idx":
		return new(big.Int).Add(pow2(64), big.NewInt(int64(rng.IntN(size))))
	case "(p-1)/2":
		return new(big.Int).Rsh(p, 1)
	}
	return big.NewInt(int64(2 * size))
}

// runLK solves one lookup witness and compares with the model. lie==nil: honest.
func lkSum(exp []*big.Int, p *big.Int) *big.Int {
	s := new(big.Int)
	for i, e := range exp {
		s.Add(s, new(big.Int).Mul(e, big.NewInt(int64(i+1))))
	}
	return s.Mod(s, p)
}

func honestLookups(r *vcore.Run) {
	sizes := []int{1, 2, 3, 5, 8, 17, 64, 300}
	if r.Thorough() {
		sizes = []int{1, 2, 3, 4, 5, 7, 8, 9, 16, 17, 33, 64, 100, 255, 256, 257, 300}
	}
	type job struct {
		fc         fieldCtx
		b          string
		size, kind int
		variant    int
	}
	var jobs []job
	for _, fc := range []fieldCtx{fBN254, fBLS377} {
		for _, size := range sizes {
			for kind := 0; kind < 7; kind++ {
				for variant := 0; variant < r.Pick(2, 8); variant++ {
					if kind >= 3 && (variant >= 2 || size > 64) {
						continue
					}
					for _, b := range builders {
						jobs = append(jobs, job{fc, b, size, kind, variant})
					}
				}
			}
		}
	}
	vcore.Parallel(len(jobs), 8, func(i int) {
		j := jobs[i]
		rng := r.Rand(fmt.Sprintf("lk/%s/%d/%d/%d", j.fc.name, j.size, j.kind, j.variant))
		nQ := []int{1, 2, 5, j.size, j.size + 3}[rng.IntN(5)]
		if nQ > 40 {
			nQ = 40
		}
		interleave := j.variant%2 == 1 && j.size > 1
		nTables := 1
		if j.variant == 1 && j.size <= 64 {
			nTables = 2
		}
		sh := genLkShape(rng, j.size, j.kind, nQ, interleave, nTables, j.variant >= 1)
		runLKHonest(r, j.fc, j.b, sh, rng, j.size, interleave)
	})
	// zero queries: a table that is filled but never queried (observation only, see assumptions)
	for _, b := range builders {
		sh := &lkShape{nTables: 1, nEnt: 2, ops: []lkOp{{insert: true, slot: 0}, {insert: true, slot: 1}, {insert: true, slot: -1, cst: big.NewInt(5)}}}
		sys, err := compile(fBN254, b, sh.circuit())
		if err != nil {
			r.Count("lk.zero-queries.compile-rejected", 1)
			continue
		}
		w, _ := circuits.MakeWitness(fBN254.mod, []*big.Int{one, new(big.Int)}, []*big.Int{big.NewInt(3), big.NewInt(4)})
		serr, _ := solve(sys, w, hashCommit(nil))
		r.Eval("lk/zero-queries/"+b, false)
		if serr != nil {
			r.Count("lk.zero-queries.honest-solve-failed(completeness,not-C13)", 1)
			r.SampleClass("lk.zero-queries", map[string]any{"builder": b, "solver_said": serr.Error()})
		} else {
			r.Count("lk.zero-queries.solved", 1)
		}
	}
}

func runLKHonest(r *vcore.Run, fc fieldCtx, b string, sh *lkShape, rng *rand.Rand, size int, interleave bool) {
	sys, err := compile(fc, b, sh.circuit())
	if err != nil {
		r.Inconclusive("lk-compile:" + bucket(err))
		r.SampleClass("lk.compile-failed", map[string]any{"shape": sh.String(), "err": err.Error()})
		return
	}
	r.Count("lk.circuits."+b, 1)
	patterns := []string{"random", "repeated", "all", "last", "first"}
	type wcase struct {
		idx  []*big.Int
		note string
	}
	ent := lkEntries(rng, sh.nEnt, fc.mod)
	var cases []wcase
	mk := func(pat string) []*big.Int {
		idx := make([]*big.Int, sh.nIdx)
		rep := rng.IntN(size)
		for i := range idx {
			switch pat {
			case "random":
				idx[i] = big.NewInt(int64(rng.IntN(size)))
			case "repeated":
				idx[i] = big.NewInt(int64(rep))
			case "all":
				idx[i] = big.NewInt(int64(i % size))
			case "last":
				idx[i] = big.NewInt(int64(size - 1))
			case "first":
				idx[i] = big.NewInt(0)
			}
		}
		return idx
	}
	for _, pat := range patterns {
		cases = append(cases, wcase{mk(pat), pat})
	}
	if sh.nIdx > 0 {
		for _, name := range oobNames {
			idx := mk("random")
			if interleave {
				idx = mk("first") // index 0 is valid from the first insert on: the only reject cause is the out-of-table one
			}
			k := rng.IntN(sh.nIdx)
			idx[k] = oobIndex(name, size, fc.mod, rng)
			cases = append(cases, wcase{idx, "out-of-table:" + name})
		}
	}
	for _, cs := range cases {
		tables, qs := sh.model(ent, cs.idx)
		// classify with the model
		mustReject, mustAccept := false, true
		exp := make([]*big.Int, len(qs))
		for i, q := range qs {
			inEnd := q.index.IsInt64() && q.index.Int64() < int64(q.sizeEnd)
			inAt := q.index.IsInt64() && q.index.Int64() < int64(q.sizeAt)
			if !inEnd {
				mustReject = true
			}
			if !inAt {
				mustAccept = false
			}
			if inEnd {
				exp[i] = tables[q.table][q.index.Int64()]
			} else {
				exp[i] = new(big.Int)
			}
		}
		sum := new(big.Int)
		if sh.useSum {
			sum = lkSum(exp, fc.mod)
		}
		w, err := circuits.MakeWitness(fc.mod, []*big.Int{one, sum}, append(append([]*big.Int{}, ent...), cs.idx...))
		if err != nil {
			r.Inconclusive("witness")
			continue
		}
		rec := newRecorder()
		cst := &countStats{}
		serr, pan := solve(sys, w, rec.opt(), hashCommit(nil), lyingCount("honest", fc.mod, nil, cst))
		r.Eval(fmt.Sprintf("lk|%s|%s|%s|%v|%v", fc.name, b, sh.String(), strs(ent), strs(cs.idx)), len(qs) > 0)
		rep := map[string]any{"field": fc.name, "builder": b, "shape": sh.String(), "ops": sh.opsString(), "entries": strs(ent), "indices": strs(cs.idx), "pattern": cs.note, "solver_said": fmt.Sprint(serr), "strategy": "logderiv-commit"}
		r.Count("strategy.lookup-logderiv."+b, 1)
		switch {
		case pan != "":
			rep["panic"] = pan
			r.Violation("lookup-solve-panic/"+b, "Solve panicked", rep)
			continue
		case serr == nil && mustReject:
			r.Count("lk.ACCEPTED-out-of-table", 1)
			r.Violation("lookup-accepted-out-of-table-index/"+b, "honest Solve accepted an index outside the table: "+cs.note, rep)
			continue
		case serr != nil && mustAccept:
			r.Count("lk.REJECTED-valid", 1)
			r.Violation("lookup-rejected-valid-queries/"+b, "honest Solve rejected in-table queries: "+serr.Error(), rep)
			continue
		}
		if serr != nil {
			if mustReject {
				r.Count("lk.honest.rejected-out-of-table", 1)
				r.Count("lk.reject-reason: "+bucket(serr), 1)
				r.SampleClass("lk.honest.rejected", rep)
			} else {
				r.Count("lk.honest.rejected-index-not-yet-inserted(allowed)", 1)
			}
			continue
		}
		r.Count("lk.honest.accepted", 1)
		if !mustAccept {
			r.Count("lk.honest.accepted-index-inserted-later(allowed)", 1)
		}
		bad := -1
		for i := range qs {
			got := rec.get(i)
			if got == nil || got.Cmp(exp[i]) != 0 {
				bad = i
				break
			}
			r.Count("lk.honest.results-compared", 1)
		}
		if bad >= 0 {
			rep["query"] = bad
			rep["got"] = fmt.Sprint(rec.get(bad))
			rep["want"] = exp[bad].String()
			r.Violation("lookup-wrong-result/"+b, fmt.Sprintf("query %d returned %v, table holds %s", bad, rec.get(bad), exp[bad]), rep)
			continue
		}
		if len(qs) > 2 {
			r.SampleClass("lk.honest.accepted", rep)
		}
		// the results are really tied to the arithmetic that uses them
		if sh.useSum && len(qs) > 0 {
			w2, _ := circuits.MakeWitness(fc.mod, []*big.Int{one, new(big.Int).Mod(new(big.Int).Add(sum, one), fc.mod)}, append(append([]*big.Int{}, ent...), cs.idx...))
			e2, _ := solve(sys, w2, hashCommit(nil))
			r.Eval(fmt.Sprintf("lk-sum+1|%s|%s|%s|%v|%v", fc.name, b, sh.String(), strs(ent), strs(cs.idx)), true)
			if e2 == nil {
				r.Violation("lookup-result-not-bound-to-use/"+b, "Solve accepted a wrong public sum of lookup results", rep)
			} else {
				r.Count("lk.honest.wrong-sum-rejected", 1)
			}
		}
	}
}

// ================================================================== adversarial range checks

func advRange(r *vcore.Run) {
	type job struct {
		fc  fieldCtx
		b   string
		nv  int
		rep int
		// narrow > 0: one narrow-bit check among nv 16-bit checks, witness = dyadic fractions k*2^-j
		narrow int
	}
	var jobs []job
	sizes := []int{1, 1, 2, 5, 30, 250}
	if r.Thorough() {
		sizes = []int{1, 1, 1, 1, 1, 1, 2, 2, 3, 5, 5, 12, 30, 30, 100, 250, 250, 1200}
	}
	for _, fc := range []fieldCtx{fBN254, fBLS377} {
		for k, nv := range sizes {
			for _, b := range builders {
				jobs = append(jobs, job{fc, b, nv, k, 0})
			}
		}
		narrows := []int{1, 3, 6}
		if r.Thorough() {
			narrows = []int{1, 2, 3, 4, 5, 6, 7}
		}
		for k, n := range narrows {
			for _, b := range builders {
				jobs = append(jobs, job{fc, b, []int{300, 40, r.Pick(120, 1500)}[k%3], k, n})
			}
		}
	}
	vcore.Parallel(len(jobs), 8, func(i int) {
		j := jobs[i]
		rng := r.Rand(fmt.Sprintf("adv-rc/%s/%d/%d/%d", j.fc.name, j.nv, j.rep, j.narrow))
		sh := mixShape(rng, j.nv, j.fc.mod.BitLen(), false)
		cks := countLieKinds
		if j.narrow > 0 {
			sh = narrowShape([]int{j.narrow}, j.nv, 16, false)
			cks = []string{"honest", "skip", "fold"}
		}
		if j.nv == 1 {
			// single variable: widths that are / are not multiples of the small limb widths, and near the field size
			fb := j.fc.mod.BitLen()
			n := []int{1, 2, 3, 5, 8, 9, 16, 31, 64, 65, fb - 1, fb - 2}[rng.IntN(12)]
			sh = &rcShape{nVals: 1, checks: []rcCheck{{v: 0, bits: n}}}
		}
		sys, err := compile(j.fc, j.b, sh.circuit())
		if err != nil {
			r.Inconclusive("adv-rc-compile")
			return
		}
		cases := mixCases(rng, sh, j.fc.mod, 0, r.Pick(3, 10))
		if j.narrow > 0 {
			// the narrow variable holds k*2^-j for every j up to the largest limb width: with a lying
			// DecomposeHint that returns the value itself as the limb, only a lookup of the unscaled limb rejects it
			cases = nil
			bd := sh.bound()
			for jj := 1; jj <= 17; jj++ {
				inv := new(big.Int).ModInverse(pow2(jj), j.fc.mod)
				for _, k := range []*big.Int{big.NewInt(1), big.NewInt(3), new(big.Int).Sub(pow2(j.narrow), one)} {
					v := new(big.Int).Mul(k, inv)
					v.Mod(v, j.fc.mod)
					if v.BitLen() <= j.narrow {
						continue
					}
					vals := make([]*big.Int, sh.nVals)
					for t := range vals {
						vals[t] = inValues(rng, bd[t], j.fc.mod, 1)[0]
					}
					vals[0] = v
					cases = append(cases, rcCase{vals, fmt.Sprintf("Vals[0]=%s*2^-%d=%s violates its %d-bit check (dyadic fraction)", k, jj, v, j.narrow)})
				}
			}
		}
		for _, cs := range cases {
			w, _ := circuits.MakeWitness(j.fc.mod, []*big.Int{one}, cs.vals)
			for _, dk := range decompLieKinds {
				for _, ck := range cks {
					dst, cst, lg := &decompStats{}, &countStats{}, &commitLog{}
					lrng := rand.New(rand.NewPCG(rng.Uint64(), 13))
					serr, pan := solve(sys, w, solver.WithNbTasks(1), fixedMask(), hashCommit(lg),
						lyingDecompose(dk, j.fc.mod, lrng, dst), lyingCount(ck, j.fc.mod, lrng, cst))
					applied := dst.lied > 0 || cst.lied > 0
					r.Eval(fmt.Sprintf("adv-rc|%s|%s|%s|%v|%s|%s", j.fc.name, j.b, sh.String(), strs(cs.vals), dk, ck), applied)
					r.Count("adv.rc.decompose-calls-intercepted", dst.calls)
					r.Count("adv.rc.count-calls-intercepted", cst.calls)
					if dst.lied > 0 {
						r.Count("adv.rc.decompose-lies-applied", 1)
						r.Count("adv.rc.decompose-lie."+dk, 1)
					}
					if cst.lied > 0 {
						r.Count("adv.rc.count-lies-applied", 1)
						r.Count("adv.rc.count-lie."+ck, 1)
					}
					rep := map[string]any{"field": j.fc.name, "builder": j.b, "shape": sh.String(), "strategy": stratName(sh.strategy), "values": strs(cs.vals), "bad": cs.note,
						"decompose_lie": dk, "count_lie": ck, "limbs_supplied": dst.lastLie, "decompose_call": dst.lastArgs, "solver_said": fmt.Sprint(serr), "commit_calls": lg.calls}
					if len(cs.vals) > 40 {
						rep["values"] = strs(cs.vals[:40])
					}
					if len(cst.last) > 0 && cst.last[0].nbTable <= 64 {
						rep["multiplicities_supplied"] = strs(cst.last[0].out)
					}
					switch {
					case pan != "":
						rep["panic"] = pan
						r.Violation("adv-rangecheck-solve-panic/"+j.b, "Solve panicked under lying hints", rep)
					case serr == nil:
						r.Count("adv.rc.ACCEPTED-out-of-range", 1)
						r.Violation("adv-rangecheck-accepted-out-of-range/"+j.b+"/"+dk+"/"+ck, "Solve accepted an out-of-range value under lying hints: "+cs.note, rep)
					default:
						r.Count("adv.rc.rejected", 1)
						if j.narrow > 0 && dst.lied > 0 {
							r.Count("adv.rc.narrow-dyadic-rejected", 1)
						}
						r.Count("adv.rc.reject-reason: "+bucket(serr), 1)
						if lg.calls > 0 {
							r.Count("adv.rc.rejected-after-commitment-computed", 1)
						}
						if dst.lied > 0 && cst.lied > 0 {
							r.SampleClass("adv.rc."+dk, rep)
						}
					}
				}
			}
		}
	})
}

// ================================================================== adversarial lookups

var resultLieKinds = []string{"other-entry", "value+1", "random-value", "zero", "oob-served-entry", "oob-served-garbage", "first-occurrence-only", "collide-if-rowcoeff-is-1"}

func advLookup(r *vcore.Run) {
	type job struct {
		fc         fieldCtx
		b          string
		size, kind int
	}
	var jobs []job
	sizes := []int{2, 3, 8, 50}
	if r.Thorough() {
		sizes = []int{2, 3, 4, 8, 17, 50, 128, 300}
	}
	for _, fc := range []fieldCtx{fBN254, fBLS377} {
		for _, size := range sizes {
			for kind := 0; kind < 7; kind++ {
				if kind >= 3 && size > 8 {
					continue
				}
				for _, b := range builders {
					jobs = append(jobs, job{fc, b, size, kind})
				}
			}
		}
	}
	vcore.Parallel(len(jobs), 8, func(i int) {
		j := jobs[i]
		p := j.fc.mod
		rng := r.Rand(fmt.Sprintf("adv-lk/%s/%d/%d", j.fc.name, j.size, j.kind))
		nQ := 1 + rng.IntN(6)
		sh := genLkShape(rng, j.size, j.kind, nQ, false, 1, false)
		sys, err := compile(j.fc, j.b, sh.circuit())
		if err != nil {
			r.Inconclusive("adv-lk-compile")
			return
		}
		for wi := 0; wi < r.Pick(2, 12); wi++ {
			ent := lkEntries(rng, sh.nEnt, p)
			for _, rk := range resultLieKinds {
				idx := make([]*big.Int, sh.nIdx)
				for q := range idx {
					idx[q] = big.NewInt(int64(rng.IntN(j.size)))
				}
				target := rng.IntN(sh.nIdx)
				oob := strings.HasPrefix(rk, "oob")
				if oob {
					idx[target] = oobIndex(oobNames[rng.IntN(len(oobNames))], j.size, p, rng)
				}
				if rk == "first-occurrence-only" && sh.nIdx >= 2 {
					idx[(target+1)%sh.nIdx] = new(big.Int).Set(idx[target]) // the same index queried twice, only one answer is false
				}
				tables, qs := sh.model(ent, idx)
				tab := tables[0]
				tIdx := idx[target]
				garbage := randBelow(rng, p)
				servedOOB := int64(rng.IntN(j.size))
				other := int64(-1)
				if !oob {
					for d := 1; d < j.size; d++ {
						c := (tIdx.Int64() + int64(d)) % int64(j.size)
						if tab[c].Cmp(tab[tIdx.Int64()]) != 0 {
							other = c
							break
						}
					}
				}
				if rk == "other-entry" && other < 0 {
					r.Count("adv.lk.skipped(all-entries-equal)", 1)
					continue
				}
				isTarget := func(ix uint64, ok bool) bool {
					if oob {
						return !ok || ix >= uint64(j.size)
					}
					return ok && ix == tIdx.Uint64()
				}
				// mkLie returns a fresh dishonest table (its state is per Solve)
				mkLie := func() *lookupLie {
					lie := &lookupLie{}
					switch rk {
					case "other-entry":
						lie.serveIndex = func(ix uint64, ok bool, _ int) int64 {
							if isTarget(ix, ok) {
								return other
							}
							return -1
						}
					case "value+1":
						lie.alter = func(ix uint64, ok bool, h *big.Int) *big.Int {
							if isTarget(ix, ok) {
								return new(big.Int).Mod(new(big.Int).Add(h, one), p)
							}
							return nil
						}
					case "random-value":
						lie.alter = func(ix uint64, ok bool, h *big.Int) *big.Int {
							if isTarget(ix, ok) && h.Cmp(garbage) != 0 {
								return garbage
							}
							return nil
						}
					case "zero":
						lie.alter = func(ix uint64, ok bool, h *big.Int) *big.Int {
							if isTarget(ix, ok) && h.Sign() != 0 {
								return new(big.Int)
							}
							return nil
						}
					case "oob-served-entry":
						lie.serveIndex = func(ix uint64, ok bool, _ int) int64 {
							if isTarget(ix, ok) {
								return servedOOB
							}
							return -1
						}
					case "oob-served-garbage":
						lie.serveIndex = func(ix uint64, ok bool, _ int) int64 {
							if isTarget(ix, ok) {
								return 0
							}
							return -1
						}
						lie.alter = func(ix uint64, ok bool, h *big.Int) *big.Int {
							if isTarget(ix, ok) {
								return garbage
							}
							return nil
						}
					case "collide-if-rowcoeff-is-1":
						// serve v' with i + v' == j + table[j] for the next row j: the tuple collides with a
						// genuine row if the second column is not multiplied by an unpredictable coefficient
						lie.alter = func(ix uint64, ok bool, h *big.Int) *big.Int {
							if isTarget(ix, ok) && j.size >= 2 {
								nx := (int64(ix) + 1) % int64(j.size)
								v := new(big.Int).Add(tab[nx], big.NewInt(nx-int64(ix)))
								return v.Mod(v, p)
							}
							return nil
						}
					case "first-occurrence-only":
						done := false
						lie.alter = func(ix uint64, ok bool, h *big.Int) *big.Int {
							if !done && isTarget(ix, ok) {
								done = true
								return new(big.Int).Mod(new(big.Int).Add(h, big.NewInt(2)), p)
							}
							return nil
						}
					}
					return lie
				}
				sec := append(append([]*big.Int{}, ent...), idx...)
				// the dishonest prover supplies the public sum consistent with its false results: a
				// first solve (verdict ignored) tells through the recorder what the lying table serves
				sum := new(big.Int)
				if sh.useSum {
					cp0, n0 := withLyingLookups(sys, []*lookupLie{mkLie()})
					if n0 == 0 {
						r.Inconclusive("no-lookup-blueprint-found")
						return
					}
					rec0 := newRecorder()
					w0, _ := circuits.MakeWitness(p, []*big.Int{one, sum}, sec)
					solve(cp0, w0, solver.WithNbTasks(1), rec0.opt(), hashCommit(nil), lyingCount("fold", p, rand.New(rand.NewPCG(1, 1)), &countStats{}))
					served := make([]*big.Int, len(qs))
					okAll := true
					for q := range qs {
						if served[q] = rec0.get(q); served[q] == nil {
							okAll = false
						}
					}
					if !okAll {
						r.Inconclusive("adv-lk-recorder-missed")
						continue
					}
					sum = lkSum(served, p)
				}
				w, _ := circuits.MakeWitness(p, []*big.Int{one, sum}, sec)
				for _, ck := range countLieKinds {
					lie := mkLie()
					cp, nProxies := withLyingLookups(sys, []*lookupLie{lie})
					if nProxies == 0 {
						r.Inconclusive("no-lookup-blueprint-found")
						return
					}
					rec, cst, lg := newRecorder(), &countStats{}, &commitLog{}
					lrng := rand.New(rand.NewPCG(rng.Uint64(), 17))
					serr, pan := solve(cp, w, solver.WithNbTasks(1), fixedMask(), rec.opt(), hashCommit(lg), lyingCount(ck, p, lrng, cst))
					// was a false result really on the wires?
					falseOnWire := false
					for q := range qs {
						got := rec.get(q)
						if got == nil {
							continue
						}
						inT := qs[q].index.IsInt64() && qs[q].index.Int64() < int64(len(tab))
						if !inT || got.Cmp(tab[qs[q].index.Int64()]) != 0 {
							falseOnWire = true
						}
					}
					r.Eval(fmt.Sprintf("adv-lk|%s|%s|%s|%v|%v|%s|%s", j.fc.name, j.b, sh.String(), strs(ent), strs(idx), rk, ck), falseOnWire)
					r.Count("adv.lk.lookup-queries-intercepted", lie.queries)
					r.Count("adv.lk.count-calls-intercepted", cst.calls)
					if !falseOnWire {
						r.Count("adv.lk.lie-not-effective(skipped)", 1)
						continue
					}
					r.Count("adv.lk.result-lies-applied", 1)
					r.Count("adv.lk.result-lie."+rk, 1)
					if cst.lied > 0 {
						r.Count("adv.lk.count-lies-applied", 1)
						r.Count("adv.lk.count-lie."+ck, 1)
					}
					rep := map[string]any{"field": j.fc.name, "builder": j.b, "shape": sh.String(), "ops": sh.opsString(), "entries": strs(ent), "indices": strs(idx), "table": strs(tab),
						"result_lie": rk, "served": lie.served, "count_lie": ck, "solver_said": fmt.Sprint(serr), "public_sum": sum.String(), "strategy": "logderiv-commit"}
					if len(tab) > 64 {
						delete(rep, "table")
						delete(rep, "ops")
					}
					if len(cst.last) > 0 && cst.last[0].nbTable <= 64 {
						rep["multiplicities_supplied"] = strs(cst.last[0].out)
					}
					switch {
					case pan != "":
						rep["panic"] = pan
						r.Violation("adv-lookup-solve-panic/"+j.b, "Solve panicked under a lying lookup", rep)
					case serr == nil:
						r.Count("adv.lk.ACCEPTED-false-result", 1)
						r.Violation("adv-lookup-accepted-false-result/"+j.b+"/"+rk+"/"+ck, "Solve accepted a lookup result that is not the stored entry", rep)
					default:
						r.Count("adv.lk.rejected", 1)
						r.Count("adv.lk.reject-reason: "+bucket(serr), 1)
						if lg.calls > 0 {
							r.Count("adv.lk.rejected-after-commitment-computed", 1)
						}
						if cst.lied > 0 && rk != "zero" && rk != "random-value" {
							r.SampleClass("adv.lk."+rk, rep)
						}
					}
				}
			}
		}
	})
}
