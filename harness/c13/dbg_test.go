//go:build verif

package c13

import (
	"testing"

	"github.com/consensys/gnark/logger"
	"github.com/consensys/gnark/verifharness/internal/vcore"
)

func TestDbg(t *testing.T) {
	logger.Disable()
	dbgTwoPass = true
	r := vcore.Start(t, "C13")
	twoPass(r)
}
