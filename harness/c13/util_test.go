//go:build verif

package c13

import (
	"crypto/sha256"
	"encoding/binary"
	"fmt"
	"math/big"
	"math/rand/v2"
	"strings"
	"sync"

	"github.com/consensys/gnark-crypto/ecc"
	"github.com/consensys/gnark/backend/witness"
	"github.com/consensys/gnark/constraint/solver"
	"github.com/consensys/gnark/frontend"
	fcs "github.com/consensys/gnark/frontend/cs"
	"github.com/consensys/gnark/frontend/cs/r1cs"
	"github.com/consensys/gnark/frontend/cs/scs"
	"github.com/consensys/gnark/internal/hints"
	"github.com/consensys/gnark/internal/smallfields/tinyfield"

	"github.com/consensys/gnark/verifharness/internal/vcore"
)

// ---------------------------------------------------------------- fields / builders

type fieldCtx struct {
	name  string
	mod   *big.Int
	small bool // compiled through frontend.CompileU32 (tinyfield)
	curve ecc.ID
}

var (
	fBN254  = fieldCtx{name: "bn254", mod: ecc.BN254.ScalarField(), curve: ecc.BN254}
	fBLS377 = fieldCtx{name: "bls12-377", mod: ecc.BLS12_377.ScalarField(), curve: ecc.BLS12_377}
	fTiny   = fieldCtx{name: "tinyfield", mod: tinyfield.Modulus(), small: true}
)

var builders = []string{"r1cs", "scs"}

// solvable is what the monitor needs from a compiled system (U64 and U32 systems both have it).
type solvable interface {
	Solve(w witness.Witness, opts ...solver.Option) (any, error)
	GetNbConstraints() int
}

// compile runs the real frontend; a panic during Define/Compile is returned as an error.
func compile(fc fieldCtx, builder string, c frontend.Circuit) (sys solvable, err error) {
	pan, _ := vcore.Catch(func() {
		switch {
		case fc.small && builder == "r1cs":
			sys, err = frontend.CompileU32(fc.mod, r1cs.NewBuilder, c)
		case fc.small:
			sys, err = frontend.CompileU32(fc.mod, scs.NewBuilder, c)
		case builder == "r1cs":
			sys, err = frontend.Compile(fc.mod, r1cs.NewBuilder, c)
		default:
			sys, err = frontend.Compile(fc.mod, scs.NewBuilder, c)
		}
	})
	if pan != nil {
		return nil, fmt.Errorf("compile panic: %v", pan)
	}
	return sys, err
}

// solve runs the real solver; a panic in the caller's goroutine is reported separately.
func solve(sys solvable, w witness.Witness, opts ...solver.Option) (err error, panicked string) {
	pan, stack := vcore.Catch(func() { _, err = sys.Solve(w, opts...) })
	if pan != nil {
		return fmt.Errorf("panic: %v", pan), fmt.Sprintf("%v\n%s", pan, stack)
	}
	return err, ""
}

// ---------------------------------------------------------------- recorder hint

// recordHint is referenced by the harness circuits to expose the run-time value
// of a wire: inputs = (tag, value). The default does nothing; each Solve
// overrides it with a closure that stores what it saw.
func recordHint(_ *big.Int, _ []*big.Int, out []*big.Int) error {
	for i := range out {
		out[i].SetUint64(0)
	}
	return nil
}

func init() { solver.RegisterHint(recordHint) }

func record(api frontend.API, tag int, v frontend.Variable) {
	if _, err := api.Compiler().NewHint(recordHint, 1, tag, v); err != nil {
		panic(err)
	}
}

type recorder struct {
	mu   sync.Mutex
	vals map[int]*big.Int
	n    int
}

func newRecorder() *recorder { return &recorder{vals: map[int]*big.Int{}} }

func (rc *recorder) opt() solver.Option {
	return solver.OverrideHint(solver.GetHintID(recordHint), func(_ *big.Int, in, out []*big.Int) error {
		rc.mu.Lock()
		rc.vals[int(in[0].Int64())] = new(big.Int).Set(in[1])
		rc.n++
		rc.mu.Unlock()
		out[0].SetUint64(0)
		return nil
	})
}

func (rc *recorder) get(tag int) *big.Int {
	rc.mu.Lock()
	defer rc.mu.Unlock()
	return rc.vals[tag]
}

// ---------------------------------------------------------------- commitment = hash of the committed values

type commitLog struct {
	mu     sync.Mutex
	calls  int
	inputs [][]*big.Int
	out    []*big.Int
}

// hashCommit replaces the builders' commitment placeholder hint by SHA-256 of
// all its inputs (depth and every committed value) reduced into the field: the
// Fiat-Shamir setting the gadgets are designed for.
func hashCommit(lg *commitLog) solver.Option {
	return solver.OverrideHint(solver.GetHintID(fcs.Bsb22CommitmentComputePlaceholder), func(mod *big.Int, in, out []*big.Int) error {
		h := sha256.New()
		var l [8]byte
		binary.BigEndian.PutUint64(l[:], uint64(len(in)))
		h.Write(l[:])
		for _, x := range in {
			b := x.Bytes()
			binary.BigEndian.PutUint64(l[:], uint64(len(b)))
			h.Write(l[:])
			h.Write(b)
		}
		d := h.Sum(nil)
		d2 := sha256.Sum256(append([]byte("c13/2"), d...))
		v := new(big.Int).SetBytes(append(d, d2[:]...))
		v.Mod(v, mod)
		if v.Sign() == 0 {
			v.SetUint64(1)
		}
		out[0].Set(v)
		if lg != nil {
			lg.mu.Lock()
			lg.calls++
			cp := make([]*big.Int, len(in))
			for i := range in {
				cp[i] = new(big.Int).Set(in[i])
			}
			lg.inputs = append(lg.inputs, cp)
			lg.out = append(lg.out, new(big.Int).Set(v))
			lg.mu.Unlock()
		}
		return nil
	})
}

// fixedMask: the R1CS builder adds a fresh random "mask" value (hint
// hints.Randomize) to everything it commits to. A dishonest prover chooses it;
// this one keeps it constant so that a second run sees the same challenge
// unless a committed value changed.
func fixedMask() solver.Option {
	return solver.OverrideHint(solver.GetHintID(hints.Randomize), func(mod *big.Int, _ []*big.Int, out []*big.Int) error {
		for i := range out {
			out[i].SetUint64(0x5eed5eed)
		}
		return nil
	})
}

func (lg *commitLog) last() *big.Int {
	lg.mu.Lock()
	defer lg.mu.Unlock()
	if len(lg.out) == 0 {
		return nil
	}
	return lg.out[len(lg.out)-1]
}

// ---------------------------------------------------------------- misc

func pow2(n int) *big.Int { return new(big.Int).Lsh(big.NewInt(1), uint(n)) }

func strs(v []*big.Int) []string {
	s := make([]string, len(v))
	for i := range v {
		if v[i] == nil {
			s[i] = "nil"
		} else {
			s[i] = v[i].String()
		}
	}
	return s
}

func randBelow(rng *rand.Rand, bound *big.Int) *big.Int {
	if bound.Sign() <= 0 {
		return new(big.Int)
	}
	nb := (bound.BitLen() + 7) / 8
	b := make([]byte, nb+8)
	for i := range b {
		b[i] = byte(rng.UintN(256))
	}
	v := new(big.Int).SetBytes(b)
	return v.Mod(v, bound)
}

// bucket strips numbers from an error string so that outcome classes are stable.
func bucket(err error) string {
	if err == nil {
		return "accepted"
	}
	s := err.Error()
	if i := strings.IndexByte(s, '\n'); i >= 0 {
		s = s[:i]
	}
	var b strings.Builder
	prevDigit := false
	for _, c := range s {
		if c >= '0' && c <= '9' {
			if !prevDigit {
				b.WriteByte('#')
			}
			prevDigit = true
			continue
		}
		prevDigit = false
		b.WriteRune(c)
	}
	s = b.String()
	// "[assertIsEqual] # == #" etc. keep the head only
	if len(s) > 70 {
		s = s[:70]
	}
	return s
}

// inValues / outValues: edge-biased values inside / outside [0, 2^n) below the modulus.
func inValues(rng *rand.Rand, n int, p *big.Int, k int) []*big.Int {
	top := pow2(n)
	if top.Cmp(p) > 0 {
		top = new(big.Int).Set(p)
	}
	cands := []*big.Int{big.NewInt(0), big.NewInt(1), new(big.Int).Sub(top, big.NewInt(1)), new(big.Int).Rsh(top, 1),
		new(big.Int).Sub(top, big.NewInt(2))}
	var out []*big.Int
	seen := map[string]bool{}
	for _, c := range cands {
		if c.Sign() >= 0 && c.Cmp(top) < 0 && !seen[c.String()] {
			seen[c.String()] = true
			out = append(out, c)
		}
	}
	for len(out) < k {
		out = append(out, randBelow(rng, top))
	}
	if len(out) > k {
		// keep the edges but rotate which ones, deterministically from rng
		rng.Shuffle(len(out), func(i, j int) { out[i], out[j] = out[j], out[i] })
		out = out[:k]
	}
	return out
}

// dyadicValues: field elements that are small only after scaling by a power of
// two: +-k * 2^-j mod p for small k and j = 1..maxJ. As integers they are huge
// (all those returned are >= 2^n), but v * 2^j mod p is tiny: a range check that
// looks at a scaled value instead of the value itself accepts them.
func dyadicValues(n int, p *big.Int, maxJ int) []*big.Int {
	ks := []*big.Int{big.NewInt(1), big.NewInt(2), big.NewInt(3), big.NewInt(5), new(big.Int).Sub(pow2(n), big.NewInt(1)), new(big.Int).Add(pow2(n), big.NewInt(1))}
	var out []*big.Int
	seen := map[string]bool{}
	for j := 1; j <= maxJ; j++ {
		inv := new(big.Int).ModInverse(new(big.Int).Mod(pow2(j), p), p)
		if inv == nil {
			continue
		}
		for _, k := range ks {
			v := new(big.Int).Mul(k, inv)
			v.Mod(v, p)
			for _, c := range []*big.Int{v, new(big.Int).Mod(new(big.Int).Neg(v), p)} {
				if c.BitLen() > n && !seen[c.String()] {
					seen[c.String()] = true
					out = append(out, c)
				}
			}
		}
	}
	return out
}

func outValues(rng *rand.Rand, n int, p *big.Int, k int) []*big.Int {
	lo := pow2(n)
	if lo.Cmp(p) >= 0 {
		return nil // every field element is below 2^n
	}
	one := big.NewInt(1)
	cands := []*big.Int{
		new(big.Int).Set(lo), new(big.Int).Add(lo, one), new(big.Int).Sub(pow2(n+1), one), pow2(n + 1),
		new(big.Int).Add(pow2(n+1), one), pow2(n + 2 + rng.IntN(16)), new(big.Int).Sub(pow2(n+2+rng.IntN(16)), one),
		new(big.Int).Mul(lo, big.NewInt(int64(3+rng.IntN(200)))),
		new(big.Int).Sub(p, one), new(big.Int).Sub(p, big.NewInt(2)), new(big.Int).Rsh(p, 1),
		new(big.Int).Sub(p, lo), new(big.Int).Add(new(big.Int).Sub(p, lo), one),
	}
	span := new(big.Int).Sub(p, lo)
	for i := 0; i < 3; i++ {
		cands = append(cands, new(big.Int).Add(lo, randBelow(rng, span)))
	}
	if dy := dyadicValues(n, p, 17); len(dy) > 0 {
		for i := 0; i < 3; i++ {
			cands = append(cands, dy[rng.IntN(len(dy))])
		}
	}
	// a value whose low n bits are a valid in-range number (only the high part is wrong)
	cands = append(cands, new(big.Int).Add(new(big.Int).Lsh(big.NewInt(int64(1+rng.IntN(5))), uint(n)), randBelow(rng, lo)))
	var out []*big.Int
	seen := map[string]bool{}
	for _, c := range cands {
		if c.Cmp(lo) >= 0 && c.Cmp(p) < 0 && !seen[c.String()] {
			seen[c.String()] = true
			out = append(out, c)
		}
	}
	if len(out) > k {
		head := out[:2] // 2^n and 2^n+1 always kept when present
		rest := out[2:]
		rng.Shuffle(len(rest), func(i, j int) { rest[i], rest[j] = rest[j], rest[i] })
		out = append(head, rest[:k-2]...)
	}
	return out
}
