//go:build verif

package c13

import (
	"fmt"
	"math/big"
	"testing"

	"github.com/consensys/gnark-crypto/ecc"
	"github.com/consensys/gnark/constraint/solver"
	"github.com/consensys/gnark/frontend"
	"github.com/consensys/gnark/frontend/cs/r1cs"
	"github.com/consensys/gnark/frontend/cs/scs"
	"github.com/consensys/gnark/logger"
	"github.com/consensys/gnark/std/lookup/logderivlookup"
	"github.com/consensys/gnark/std/rangecheck"
	"github.com/consensys/gnark/verifharness/internal/circuits"
)

type scrRC struct {
	Vals []frontend.Variable
	bits []int
}

func (c *scrRC) Define(api frontend.API) error {
	rc := rangecheck.New(api)
	fmt.Printf("strategy %T\n", rc)
	for i := range c.Vals {
		rc.Check(c.Vals[i], c.bits[i])
	}
	return nil
}

type scrLK struct {
	E []frontend.Variable
	I []frontend.Variable
}

func (c *scrLK) Define(api frontend.API) error {
	t := logderivlookup.New(api)
	for i := range c.E {
		t.Insert(c.E[i])
	}
	if len(c.I) > 0 {
		r := t.Lookup(c.I...)
		for i := range r {
			api.AssertIsDifferent(r[i], 12345)
		}
	}
	return nil
}

func TestScratch(t *testing.T) {
	logger.Disable()
	for _, h := range solver.GetRegisteredHints() {
		fmt.Println(solver.GetHintName(h))
	}
	f := ecc.BN254.ScalarField()
	for _, nv := range []int{1, 5, 50, 500, 4000} {
		c := &scrRC{Vals: make([]frontend.Variable, nv), bits: make([]int, nv)}
		for i := range c.bits {
			c.bits[i] = 1 + (i*7)%70
		}
		for _, b := range []string{"r1cs", "scs"} {
			var err error
			w := 0
			opt := solver.OverrideHint(solver.GetHintID(rangecheck.DecomposeHint), func(m *big.Int, in, out []*big.Int) error {
				w = int(in[1].Int64())
				return rangecheck.DecomposeHint(m, in, out)
			})
			sec := make([]*big.Int, nv)
			for i := range sec {
				sec[i] = big.NewInt(1)
			}
			wit, _ := circuits.MakeWitness(f, nil, sec)
			if b == "r1cs" {
				ccs, e := frontend.Compile(f, r1cs.NewBuilder, c)
				if e != nil {
					t.Fatal(e)
				}
				_, err = ccs.Solve(wit, opt)
				fmt.Println(nv, b, ccs.GetNbConstraints(), "w=", w, err)
			} else {
				ccs, e := frontend.Compile(f, scs.NewBuilder, c)
				if e != nil {
					t.Fatal(e)
				}
				_, err = ccs.Solve(wit, opt)
				fmt.Println(nv, b, ccs.GetNbConstraints(), "w=", w, err)
			}
		}
	}
	// zero queries
	c := &scrLK{E: make([]frontend.Variable, 3)}
	ccs, err := frontend.Compile(f, r1cs.NewBuilder, c)
	fmt.Println("zero-query compile", err)
	if err == nil {
		wit, _ := circuits.MakeWitness(f, nil, []*big.Int{big.NewInt(1), big.NewInt(2), big.NewInt(3)})
		_, err = ccs.Solve(wit)
		fmt.Println("zero-query solve", err)
	}
}
