//go:build verif

package c13

import (
	"fmt"
	"math/big"
	"math/rand/v2"
	"slices"
	"strings"
	"sync"

	"github.com/consensys/gnark/constraint"
	csbls377 "github.com/consensys/gnark/constraint/bls12-377"
	csbn254 "github.com/consensys/gnark/constraint/bn254"
	"github.com/consensys/gnark/constraint/solver"
	"github.com/consensys/gnark/std/rangecheck"
)

// ---------------------------------------------------------------- DecomposeHint lies

// decompLies: given width n, limb width w, value v >= 2^n and modulus p, return
// k = ceil(n/w) limbs whose recomposition sum(l_j 2^(wj)) equals v modulo p
// (so the recomposition constraint holds and only table membership can save
// the verifier), or nil when the lie does not apply.
var decompLieKinds = []string{"honest-hint", "top-oversized", "solve-random-limb", "v-plus-p", "borrow", "all-in-limb0", "neg-low-limb"}

func decompLie(kind string, n, w int, v, p *big.Int, rng *rand.Rand) []*big.Int {
	k := (n + w - 1) / w
	if k == 0 {
		return nil
	}
	base := pow2(w)
	split := func(x *big.Int) []*big.Int { // low k-1 limbs exact, top limb = everything that is left
		l := make([]*big.Int, k)
		t := new(big.Int).Set(x)
		for j := 0; j < k; j++ {
			if j == k-1 {
				l[j] = new(big.Int).Mod(t, p)
			} else {
				l[j] = new(big.Int).Mod(t, base)
				t.Rsh(t, uint(w))
			}
		}
		return l
	}
	switch kind {
	case "honest-hint":
		return nil
	case "top-oversized":
		return split(v)
	case "v-plus-p":
		return split(new(big.Int).Add(v, p))
	case "borrow":
		if k < 2 {
			return nil
		}
		l := split(v)
		j := rng.IntN(k - 1)
		l[j].Add(l[j], base)
		l[j+1].Sub(l[j+1], big.NewInt(1)).Mod(l[j+1], p)
		return l
	case "all-in-limb0":
		l := make([]*big.Int, k)
		for j := range l {
			l[j] = new(big.Int)
		}
		l[0].Set(v)
		return l
	case "solve-random-limb", "neg-low-limb":
		// every limb but one is an honest-looking in-table value; the remaining
		// one is solved for so that the recomposition holds modulo p
		l := make([]*big.Int, k)
		js := rng.IntN(k)
		if kind == "neg-low-limb" {
			js = 0
		}
		acc := new(big.Int)
		for j := 0; j < k; j++ {
			if j == js {
				continue
			}
			l[j] = randBelow(rng, base)
			if j == k-1 && k*w > n { // keep the shifted most-significant limb inside the table too
				l[j] = randBelow(rng, pow2(w-(k*w-n)))
			}
			acc.Add(acc, new(big.Int).Lsh(l[j], uint(w*j)))
		}
		d := new(big.Int).Sub(v, acc)
		d.Mod(d, p)
		inv := new(big.Int).ModInverse(new(big.Int).Mod(pow2(w*js), p), p)
		if inv == nil {
			return nil
		}
		l[js] = d.Mul(d, inv).Mod(d, p)
		return l
	}
	panic("unknown decompose lie " + kind)
}

type decompStats struct {
	mu       sync.Mutex
	calls    int
	lied     int
	widths   map[int]int
	lastLie  []string
	lastArgs string
}

// lyingDecompose wraps the genuine DecomposeHint: calls whose input is outside
// [0, 2^n) get the lie, all others the honest answer.
func lyingDecompose(kind string, p *big.Int, rng *rand.Rand, st *decompStats) solver.Option {
	return solver.OverrideHint(solver.GetHintID(rangecheck.DecomposeHint), func(mod *big.Int, in, out []*big.Int) error {
		if err := rangecheck.DecomposeHint(mod, in, out); err != nil {
			return err
		}
		n, w, v := int(in[0].Int64()), int(in[1].Int64()), in[2]
		st.mu.Lock()
		defer st.mu.Unlock()
		st.calls++
		if st.widths == nil {
			st.widths = map[int]int{}
		}
		st.widths[w]++
		if v.BitLen() <= n || kind == "honest-hint" {
			return nil
		}
		l := decompLie(kind, n, w, v, p, rng)
		if l == nil || len(l) != len(out) {
			return nil
		}
		changed := false
		for i := range out {
			if out[i].Cmp(l[i]) != 0 {
				changed = true
			}
			out[i].Set(l[i])
		}
		if changed {
			st.lied++
			st.lastLie = strs(l)
			st.lastArgs = fmt.Sprintf("n=%d w=%d v=%s", n, w, v)
		}
		return nil
	})
}

// ---------------------------------------------------------------- countHint lies

var countHintFn solver.Hint

func init() {
	for _, h := range solver.GetRegisteredHints() {
		if strings.HasSuffix(solver.GetHintName(h), "logderivarg.countHint") {
			countHintFn = h
		}
	}
}

var countLieKinds = []string{"honest", "skip", "fold", "fold-next", "skip+raise", "fold+cancel", "all-zero", "random", "first-row-takes-all"}

type countCall struct {
	nbTable, nbRow int
	table, queries [][]*big.Int
	unmatched      int
	out            []*big.Int
}

type countStats struct {
	mu        sync.Mutex
	calls     int
	lied      int // calls whose output differs from what the genuine hint gives (or where the genuine hint refuses)
	unmatched int // queries not in the table seen by the hint
	honestErr int
	last      []*countCall
	// when set, overrides the multiplicities of call #i entirely (two-pass adversary)
	forced map[int][]*big.Int
}

func rowKey(r []*big.Int) string {
	var b strings.Builder
	for _, x := range r {
		b.WriteString(x.Text(62))
		b.WriteByte('|')
	}
	return b.String()
}

func parseCount(inPooled []*big.Int) *countCall {
	// the solver recycles the big.Int objects it hands to hints: copy them
	in := make([]*big.Int, len(inPooled))
	for i := range in {
		in[i] = new(big.Int).Set(inPooled[i])
	}
	c := &countCall{nbTable: int(in[0].Int64()), nbRow: int(in[1].Int64())}
	pos := 2
	for i := 0; i < c.nbTable; i++ {
		c.table = append(c.table, in[pos:pos+c.nbRow])
		pos += c.nbRow
	}
	for pos+c.nbRow <= len(in) {
		c.queries = append(c.queries, in[pos:pos+c.nbRow])
		pos += c.nbRow
	}
	return c
}

// lyingCount wraps logderivarg's countHint. kind "honest" only observes.
func lyingCount(kind string, p *big.Int, rng *rand.Rand, st *countStats) solver.Option {
	return solver.OverrideHint(solver.GetHintID(countHintFn), func(mod *big.Int, in, out []*big.Int) error {
		st.mu.Lock()
		defer st.mu.Unlock()
		callNo := st.calls
		st.calls++
		c := parseCount(in)
		honest := make([]*big.Int, len(out))
		for i := range honest {
			honest[i] = new(big.Int)
		}
		herr := countHintFn(mod, in, honest)
		pos := map[string]int{}
		for i, r := range c.table {
			pos[rowKey(r)] = i
		}
		m := make([]int64, c.nbTable)
		var unmatched [][]*big.Int
		for _, q := range c.queries {
			if i, ok := pos[rowKey(q)]; ok {
				m[i]++
			} else {
				unmatched = append(unmatched, q)
			}
		}
		c.unmatched = len(unmatched)
		st.unmatched += len(unmatched)
		if herr != nil {
			st.honestErr++
		}
		if kind == "honest" && st.forced == nil {
			if herr != nil {
				return herr
			}
			for i := range out {
				out[i].Set(honest[i])
			}
			c.out = honest
			st.last = append(st.last, c)
			return nil
		}
		foldRow := func(q []*big.Int) int {
			// the row an honest-looking prover would blame: same index column if it exists, else index mod size
			ix := new(big.Int).Mod(q[0], big.NewInt(int64(c.nbTable)))
			if c.nbRow == 1 && c.nbTable > 0 {
				return int(ix.Int64())
			}
			if q[0].IsInt64() && q[0].Int64() < int64(c.nbTable) {
				return int(q[0].Int64())
			}
			return int(ix.Int64())
		}
		res := make([]*big.Int, c.nbTable)
		set := func() {
			for i := range res {
				res[i] = big.NewInt(m[i])
			}
		}
		switch kind {
		case "honest", "skip":
			set()
		case "fold":
			for _, q := range unmatched {
				m[foldRow(q)]++
			}
			set()
		case "fold-next": // blame the row after the one with the same index
			for _, q := range unmatched {
				m[(foldRow(q)+1)%c.nbTable]++
			}
			set()
		case "skip+raise":
			m[rng.IntN(c.nbTable)]++
			set()
		case "fold+cancel":
			for _, q := range unmatched {
				m[foldRow(q)]++
			}
			set()
			if c.nbTable >= 2 {
				a := rng.IntN(c.nbTable)
				b := (a + 1 + rng.IntN(c.nbTable-1)) % c.nbTable
				res[a].Add(res[a], big.NewInt(1))
				res[b].Sub(res[b], big.NewInt(1)).Mod(res[b], p)
			} else {
				res[0].Add(res[0], p) // the same count, unreduced representation
				res[0].Sub(res[0], big.NewInt(1)).Mod(res[0], p)
			}
		case "all-zero":
			for i := range m {
				m[i] = 0
			}
			set()
		case "random":
			for i := range res {
				res[i] = randBelow(rng, p)
			}
		case "first-row-takes-all":
			for i := range m {
				m[i] = 0
			}
			m[0] = int64(len(c.queries))
			set()
		default:
			panic("unknown count lie " + kind)
		}
		if f, ok := st.forced[callNo]; ok && len(f) == len(res) {
			for i := range res {
				res[i] = new(big.Int).Set(f[i])
			}
		}
		diff := herr != nil
		for i := range out {
			if herr == nil && honest[i].Cmp(res[i]) != 0 {
				diff = true
			}
			out[i].Set(res[i])
		}
		if diff {
			st.lied++
		}
		c.out = res
		st.last = append(st.last, c)
		return nil
	})
}

// ---------------------------------------------------------------- lying lookup results (proxy blueprint)

// lookupLie decides, per query served by the table instruction, what the
// dishonest prover returns. idx is the queried index (ok=false: not a uint64).
type lookupLie struct {
	mu sync.Mutex
	// serveIndex: returns the index whose entry is served instead (or -1: honest)
	serveIndex func(idx uint64, ok bool, nbEntries int) int64
	// alter: returns a replacement for the value about to be stored (nil: keep)
	alter func(idx uint64, ok bool, honest *big.Int) *big.Int
	// observations
	queries int
	lied    int
	served  []string
}

type lyingLookup[E constraint.Element] struct {
	*constraint.BlueprintLookupHint[E] // genuine blueprint: all Blueprint methods and Reset are its own
	lie                                *lookupLie
}

func (p *lyingLookup[E]) Solve(s constraint.Solver[E], inst constraint.Instruction) error {
	ps := &lyingSolver[E]{Solver: s, lie: p.lie, nbEntries: int(inst.Calldata[1])}
	return p.BlueprintLookupHint.Solve(ps, inst)
}

// lyingSolver is handed to the genuine blueprint instead of the real solver.
type lyingSolver[E constraint.Element] struct {
	constraint.Solver[E]
	lie       *lookupLie
	nbEntries int
	curIdx    uint64
	curOK     bool
	rerouted  bool
}

func (l *lyingSolver[E]) Uint64(e E) (uint64, bool) {
	v, ok := l.Solver.Uint64(e)
	l.curIdx, l.curOK, l.rerouted = v, ok, false
	l.lie.mu.Lock()
	defer l.lie.mu.Unlock()
	l.lie.queries++
	if l.lie.serveIndex != nil {
		if j := l.lie.serveIndex(v, ok, l.nbEntries); j >= 0 {
			l.rerouted = true
			return uint64(j), true
		}
	}
	return v, ok
}

func (l *lyingSolver[E]) SetValue(vID uint32, f E) {
	l.lie.mu.Lock()
	lied := l.rerouted
	if l.lie.alter != nil {
		if nv := l.lie.alter(l.curIdx, l.curOK, l.Solver.ToBigInt(f)); nv != nil {
			f = l.Solver.FromInterface(nv)
			lied = true
		}
	}
	if lied {
		l.lie.lied++
		if len(l.lie.served) < 4 {
			l.lie.served = append(l.lie.served, fmt.Sprintf("query(idx=%d,uint64=%v) -> %s", l.curIdx, l.curOK, l.Solver.ToBigInt(f)))
		}
	}
	l.lie.mu.Unlock()
	l.Solver.SetValue(vID, f)
}

// withLyingLookups returns a private shallow copy of a compiled system whose
// lookup blueprints are replaced by lying proxies (System.Blueprints is an
// exported slice; the copy shares everything else with the original).
func withLyingLookups(sys solvable, lies []*lookupLie) (solvable, int) {
	n := 0
	swap := func(bps []constraint.Blueprint) []constraint.Blueprint {
		out := slices.Clone(bps)
		for i, b := range out {
			if g, ok := b.(*constraint.BlueprintLookupHint[constraint.U64]); ok {
				lie := lies[len(lies)-1]
				if n < len(lies) {
					lie = lies[n]
				}
				out[i] = &lyingLookup[constraint.U64]{BlueprintLookupHint: g, lie: lie}
				n++
			}
		}
		return out
	}
	// field-by-field copy (not a struct copy): the system may carry locks of its own
	switch s := sys.(type) {
	case *csbn254.R1CS: // = *SparseR1CS (same underlying type)
		cp := new(csbn254.R1CS)
		cp.System = s.System
		cp.CoeffTable = s.CoeffTable
		cp.Blueprints = swap(s.Blueprints)
		return cp, n
	case *csbls377.R1CS:
		cp := new(csbls377.R1CS)
		cp.System = s.System
		cp.CoeffTable = s.CoeffTable
		cp.Blueprints = swap(s.Blueprints)
		return cp, n
	}
	return nil, 0
}

var _ constraint.BlueprintStateful[constraint.U64] = (*lyingLookup[constraint.U64])(nil)
