//go:build verif

package c13

import (
	"fmt"
	"math/big"
	"math/rand/v2"

	"github.com/consensys/gnark/constraint/solver"
	"github.com/consensys/gnark/frontend"
	"github.com/consensys/gnark/std/rangecheck"

	"github.com/consensys/gnark/verifharness/internal/circuits"
	"github.com/consensys/gnark/verifharness/internal/vcore"
)

// ================================================================== range checks of expressions and public inputs

// rcExprCircuit range-checks values that are not plain secret wires: sums,
// products, differences (which wrap to p-small), a public input, an affine
// expression.
type rcExprCircuit struct {
	P        frontend.Variable `gnark:",public"`
	A, B     frontend.Variable
	ops      []string
	n        int
	plain    bool
	strategy *string
}

func (c *rcExprCircuit) Define(api frontend.API) error {
	var rc frontend.Rangechecker
	if c.plain {
		rc = rangecheck.New(noCommitAPI{api})
	} else {
		rc = rangecheck.New(api)
	}
	*c.strategy = fmt.Sprintf("%T", rc)
	api.AssertIsEqual(api.Mul(c.P, 1), c.P)
	for _, op := range c.ops {
		switch op {
		case "add":
			rc.Check(api.Add(c.A, c.B), c.n)
		case "mul":
			rc.Check(api.Mul(c.A, c.B), c.n)
		case "sub":
			rc.Check(api.Sub(c.A, c.B), c.n)
		case "pub":
			rc.Check(c.P, c.n)
		case "lin":
			rc.Check(api.Add(api.Mul(c.A, 3), 5), c.n)
		}
	}
	return nil
}

func exprValue(op string, a, b, pub, p *big.Int) *big.Int {
	v := new(big.Int)
	switch op {
	case "add":
		v.Add(a, b)
	case "mul":
		v.Mul(a, b)
	case "sub":
		v.Sub(a, b)
	case "pub":
		v.Set(pub)
	case "lin":
		v.Mul(a, big.NewInt(3)).Add(v, big.NewInt(5))
	}
	return v.Mod(v, p)
}

func exprChecks(r *vcore.Run) {
	opsets := [][]string{{"add"}, {"mul"}, {"sub"}, {"pub"}, {"lin"}, {"add", "mul", "pub"}, {"sub", "lin", "add"}}
	type job struct {
		fc    fieldCtx
		b     string
		ops   []string
		n     int
		plain bool
	}
	var jobs []job
	for _, fc := range []fieldCtx{fBN254, fTiny} {
		ns := []int{1, 3, 8, 13, 64}
		if fc.small {
			ns = []int{1, 2, 3, 4, 5}
		} else if r.Thorough() {
			ns = []int{1, 2, 3, 5, 8, 13, 16, 31, 64, 65, 128, 252}
		}
		for _, ops := range opsets {
			for _, n := range ns {
				for _, b := range builders {
					jobs = append(jobs, job{fc, b, ops, n, true})
					if !fc.small {
						jobs = append(jobs, job{fc, b, ops, n, false})
					}
				}
			}
		}
	}
	vcore.Parallel(len(jobs), 8, func(i int) {
		j := jobs[i]
		p := j.fc.mod
		strategy := ""
		sys, err := compile(j.fc, j.b, &rcExprCircuit{ops: j.ops, n: j.n, plain: j.plain, strategy: &strategy})
		if err != nil {
			r.Inconclusive("expr-compile:" + bucket(err))
			return
		}
		strat := stratName(strategy)
		rng := r.Rand(fmt.Sprintf("expr/%s/%v/%d", j.fc.name, j.ops, j.n))
		type abp struct{ a, b, pub *big.Int }
		var cases []abp
		if j.fc.small {
			for a := int64(0); a < 47; a++ {
				for b := int64(0); b < 47; b++ {
					cases = append(cases, abp{big.NewInt(a), big.NewInt(b), big.NewInt((a*7 + b) % 47)})
				}
			}
		} else {
			h := (j.n + 1) / 2
			pool := []*big.Int{big.NewInt(0), big.NewInt(1), pow2(h), new(big.Int).Sub(pow2(h), one), pow2(j.n - 1), new(big.Int).Sub(pow2(j.n), one),
				pow2(j.n), new(big.Int).Sub(p, one), randBelow(rng, pow2(h)), randBelow(rng, pow2(j.n)), randBelow(rng, p), big.NewInt(2), big.NewInt(3)}
			for k := 0; k < r.Pick(14, 40); k++ {
				cases = append(cases, abp{pool[rng.IntN(len(pool))], pool[rng.IntN(len(pool))], pool[rng.IntN(len(pool))]})
			}
		}
		cnt := "rc.honest"
		if j.fc.small {
			cnt = "rc.tiny"
		}
		for ci, cs := range cases {
			want := true
			for _, op := range j.ops {
				if exprValue(op, cs.a, cs.b, cs.pub, p).BitLen() > j.n {
					want = false
				}
			}
			w, _ := circuits.MakeWitness(p, []*big.Int{new(big.Int).Mod(cs.pub, p)}, []*big.Int{new(big.Int).Mod(cs.a, p), new(big.Int).Mod(cs.b, p)})
			var opts []solver.Option
			if ci%2 == 0 {
				opts = append(opts, hashCommit(nil))
			}
			serr, pan := solve(sys, w, opts...)
			r.Eval(fmt.Sprintf("expr|%s|%s|%v|%d|%v|%s,%s,%s", j.fc.name, j.b, j.ops, j.n, j.plain, cs.a, cs.b, cs.pub), true)
			r.Count(fmt.Sprintf("strategy.%s.%s.%s", strat, j.b, fieldClass(j.fc)), 1)
			rep := map[string]any{"field": j.fc.name, "builder": j.b, "checked_expressions": j.ops, "bits": j.n, "strategy": strat, "A": cs.a.String(), "B": cs.b.String(), "P": cs.pub.String(), "solver_said": fmt.Sprint(serr)}
			switch {
			case pan != "":
				rep["panic"] = pan
				r.Violation("rangecheck-solve-panic/"+strat+"/"+j.b, "Solve panicked", rep)
			case serr == nil && !want:
				r.Count("rc.ACCEPTED-out-of-range", 1)
				r.Violation("rangecheck-accepted-out-of-range/"+strat+"/"+j.b+"/"+fieldClass(j.fc)+"/expression", "honest Solve accepted an expression value outside [0,2^n)", rep)
			case serr != nil && want:
				r.Count("rc.REJECTED-in-range", 1)
				r.Violation("rangecheck-rejected-in-range/"+strat+"/"+j.b+"/"+fieldClass(j.fc)+"/expression", "honest Solve rejected in-range expression values: "+serr.Error(), rep)
			case serr == nil:
				r.Count(cnt+".accepted."+strat, 1)
				r.Count("rc.expr.accepted", 1)
			default:
				r.Count(cnt+".rejected."+strat, 1)
				r.Count("rc.expr.rejected", 1)
			}
		}
	})
}

// ================================================================== lies inside the several-gadget circuit

func mgBase(rng *rand.Rand, p *big.Int) *mgWit {
	base := &mgWit{A: randBelow(rng, pow2(60)), B: randBelow(rng, pow2(60)), Own: randBelow(rng, p)}
	for k := range base.T1 {
		base.T1[k] = randBelow(rng, p)
		base.EA[k] = randBelow(rng, pow2(63)) // 4 x 64-bit limbs, value below the secp256k1 base field modulus
		base.EB[k] = randBelow(rng, pow2(63))
	}
	base.T1[3] = new(big.Int).Set(base.T1[1]) // two equal entries at different indices
	base.Q1 = [2]*big.Int{big.NewInt(0), big.NewInt(2)}
	base.Q2 = [2]*big.Int{big.NewInt(3), big.NewInt(8)}
	base.R = [3]*big.Int{randBelow(rng, big.NewInt(255)), randBelow(rng, big.NewInt(8000)), randBelow(rng, big.NewInt(1<<20-1))}
	return base
}

// advMulti: the gadget under attack is not the first of the multicommit chain
// (its challenge is a power of the root commitment), and other gadgets' honest
// queries go through the same lying hints.
func advMulti(r *vcore.Run) {
	type job struct {
		fc  fieldCtx
		b   string
		emu bool
	}
	var jobs []job
	fcs := []fieldCtx{fBN254}
	if r.Thorough() {
		fcs = append(fcs, fBLS377)
	}
	for _, fc := range fcs {
		for _, b := range builders {
			for _, emu := range []bool{false, true} {
				jobs = append(jobs, job{fc, b, emu})
			}
		}
	}
	cks := []string{"honest", "skip", "fold", "fold+cancel", "random", "skip+raise"}
	vcore.Parallel(len(jobs), 8, func(i int) {
		j := jobs[i]
		p := j.fc.mod
		sys, err := compile(j.fc, j.b, &mgCircuit{sh: &mgShape{withEmulated: j.emu}})
		if err != nil {
			r.Inconclusive("mg-compile:" + bucket(err))
			return
		}
		rng := r.Rand(fmt.Sprintf("adv-mg/%s/%v", j.fc.name, j.emu))
		for wi := 0; wi < r.Pick(2, 12); wi++ {
			base := mgBase(rng, p)
			// (a) out-of-range value in the shared range checker
			for _, which := range []int{0, 1, 2} {
				m := base.clone()
				n := []int{8, 13, 20}[which]
				ov := outValues(rng, n, p, 4)
				m.R[which] = ov[rng.IntN(len(ov))]
				w, _ := circuits.MakeWitness(p, []*big.Int{one}, m.secret())
				for _, dk := range decompLieKinds {
					for _, ck := range cks {
						dst, cst, lg := &decompStats{}, &countStats{}, &commitLog{}
						lrng := rand.New(rand.NewPCG(rng.Uint64(), 21))
						serr, pan := solve(sys, w, solver.WithNbTasks(1), fixedMask(), hashCommit(lg), lyingDecompose(dk, p, lrng, dst), lyingCount(ck, p, lrng, cst))
						applied := dst.lied > 0 || cst.lied > 0
						r.Eval(fmt.Sprintf("adv-mg-rc|%s|%s|%v|%v|%s|%s", j.fc.name, j.b, j.emu, strs(m.secret()), dk, ck), applied)
						if dst.lied > 0 {
							r.Count("adv.rc.decompose-lies-applied", 1)
						}
						if cst.lied > 0 {
							r.Count("adv.rc.count-lies-applied", 1)
						}
						rep := map[string]any{"circuit": "several-gadgets", "field": j.fc.name, "builder": j.b, "emulated": j.emu, "witness": strs(m.secret()), "bad": fmt.Sprintf("R[%d]=%s violates its %d-bit check", which, m.R[which], n),
							"decompose_lie": dk, "count_lie": ck, "limbs_supplied": dst.lastLie, "decompose_call": dst.lastArgs, "solver_said": fmt.Sprint(serr)}
						switch {
						case pan != "":
							rep["panic"] = pan
							r.Violation("adv-rangecheck-solve-panic/"+j.b, "Solve panicked under lying hints", rep)
						case serr == nil:
							r.Count("adv.rc.ACCEPTED-out-of-range", 1)
							r.Violation("adv-rangecheck-accepted-out-of-range/several-gadgets/"+j.b+"/"+dk+"/"+ck, "Solve accepted an out-of-range value under lying hints (several gadgets in one circuit)", rep)
						default:
							r.Count("adv.rc.rejected", 1)
							r.Count("adv.multi.rejected", 1)
							if dst.lied > 0 && cst.lied > 0 {
								r.SampleClass("adv.multi.rc", rep)
							}
						}
					}
				}
			}
			// (b) false result from table 1 (witness entries) or table 2 (constant entries)
			w, _ := circuits.MakeWitness(p, []*big.Int{one}, base.secret())
			truth := []*big.Int{base.T1[0], base.T1[2], big.NewInt(1000 + 9), big.NewInt(1000 + 64)}
			for tbl := 0; tbl < 2; tbl++ {
				for _, rk := range []string{"other-entry", "value+1", "random-value"} {
					tix := []uint64{0, 3}[tbl]
					garbage := randBelow(rng, p)
					mk := func() []*lookupLie {
						lie := &lookupLie{}
						switch rk {
						case "other-entry":
							lie.serveIndex = func(ix uint64, ok bool, _ int) int64 {
								if ok && ix == tix {
									return int64(tix) + 1
								}
								return -1
							}
						case "value+1":
							lie.alter = func(ix uint64, ok bool, h *big.Int) *big.Int {
								if ok && ix == tix {
									return new(big.Int).Mod(new(big.Int).Add(h, one), p)
								}
								return nil
							}
						case "random-value":
							lie.alter = func(ix uint64, ok bool, h *big.Int) *big.Int {
								if ok && ix == tix {
									return garbage
								}
								return nil
							}
						}
						lies := []*lookupLie{{}, {}}
						lies[tbl] = lie
						return lies
					}
					for _, ck := range cks {
						cp, n := withLyingLookups(sys, mk())
						if n != 2 {
							r.Inconclusive(fmt.Sprintf("mg-lookup-blueprints=%d", n))
							return
						}
						rec, cst := newRecorder(), &countStats{}
						lrng := rand.New(rand.NewPCG(rng.Uint64(), 23))
						serr, pan := solve(cp, w, solver.WithNbTasks(1), fixedMask(), rec.opt(), hashCommit(nil), lyingCount(ck, p, lrng, cst))
						falseOnWire := false
						for q, tv := range truth {
							if g := rec.get(q); g != nil && g.Cmp(tv) != 0 {
								falseOnWire = true
							}
						}
						r.Eval(fmt.Sprintf("adv-mg-lk|%s|%s|%v|%v|%d|%s|%s", j.fc.name, j.b, j.emu, strs(base.secret()), tbl, rk, ck), falseOnWire)
						if !falseOnWire {
							r.Count("adv.lk.lie-not-effective(skipped)", 1)
							continue
						}
						r.Count("adv.lk.result-lies-applied", 1)
						if cst.lied > 0 {
							r.Count("adv.lk.count-lies-applied", 1)
						}
						rep := map[string]any{"circuit": "several-gadgets", "field": j.fc.name, "builder": j.b, "emulated": j.emu, "witness": strs(base.secret()), "lying_table": tbl + 1, "result_lie": rk, "count_lie": ck, "solver_said": fmt.Sprint(serr)}
						switch {
						case pan != "":
							rep["panic"] = pan
							r.Violation("adv-lookup-solve-panic/"+j.b, "Solve panicked under a lying lookup", rep)
						case serr == nil:
							r.Count("adv.lk.ACCEPTED-false-result", 1)
							r.Violation("adv-lookup-accepted-false-result/several-gadgets/"+j.b+"/"+rk+"/"+ck, "Solve accepted a lookup result that is not the stored entry (several gadgets in one circuit)", rep)
						default:
							r.Count("adv.lk.rejected", 1)
							r.Count("adv.multi.rejected", 1)
							r.SampleClass("adv.multi.lk", rep)
						}
					}
				}
			}
		}
	})
}
