//go:build verif

package c15

// Execution engines (gnark test engine, compiled R1CS, compiled sparse R1CS),
// the digest tap, and the verdict logic shared by all families.

import (
	"fmt"
	"math/big"
	"os"
	"time"
	"strings"
	"sync"
	"sync/atomic"

	"github.com/consensys/gnark/constraint"
	"github.com/consensys/gnark/constraint/solver"
	"github.com/consensys/gnark/frontend"
	"github.com/consensys/gnark/frontend/cs/r1cs"
	"github.com/consensys/gnark/frontend/cs/scs"
	"github.com/consensys/gnark/test"

	"github.com/consensys/gnark/verifharness/internal/vcore"
)

// ---- digest tap: a hint that reports the values the circuit computed ----

var (
	taps    sync.Map // "tag/slot" -> []*big.Int
	tagCtr  atomic.Uint64
	tapHits atomic.Int64
)

func tapHint(_ *big.Int, in, out []*big.Int) error {
	vals := make([]*big.Int, len(in)-2)
	for i := range vals {
		vals[i] = new(big.Int).Set(in[i+2])
	}
	taps.Store(in[0].String()+"/"+in[1].String(), vals)
	tapHits.Add(1)
	out[0].SetUint64(0)
	return nil
}

func init() { solver.RegisterHint(tapHint) }

// tap exposes vals (the digest computed in circuit) to the monitor.
func tap(api frontend.API, tag frontend.Variable, slot int, vals ...frontend.Variable) {
	in := append([]frontend.Variable{tag, slot}, vals...)
	out, err := api.Compiler().NewHint(tapHint, 1, in...)
	if err != nil {
		panic(err)
	}
	api.AssertIsEqual(out[0], 0)
}

func nextTag() uint64 { return tagCtr.Add(1) }

func takeTap(tag uint64, slot int) []*big.Int {
	k := fmt.Sprintf("%d/%d", tag, slot)
	v, ok := taps.LoadAndDelete(k)
	if !ok {
		return nil
	}
	return v.([]*big.Int)
}

// ---- engines ----

type engine struct {
	name  string // "engine" | "r1cs" | "scs"
	curve *curveNat
}

func (e engine) String() string { return e.name + "@" + e.curve.name }

type runFn func(assign frontend.Circuit) error

func firstLine(err error) string {
	if err == nil {
		return ""
	}
	s := err.Error()
	if i := strings.IndexByte(s, '\n'); i >= 0 {
		s = s[:i]
	}
	if len(s) > 300 {
		s = s[:300]
	}
	return s
}

// prepare makes the circuit shape executable: nothing to do for the test
// engine, frontend.Compile for the two builders.
func (e engine) prepare(shape frontend.Circuit) (runFn, constraint.ConstraintSystem, error) {
	field := e.curve.field
	switch e.name {
	case "engine":
		return func(assign frontend.Circuit) (err error) {
			if p, st := vcore.Catch(func() { err = test.IsSolved(shape, assign, field) }); p != nil {
				return fmt.Errorf("panic: %v\n%s", p, st)
			}
			return err
		}, nil, nil
	case "r1cs", "scs":
		var ccs constraint.ConstraintSystem
		var err error
		var nb frontend.NewBuilder = r1cs.NewBuilder
		if e.name == "scs" {
			nb = scs.NewBuilder
		}
		if p, st := vcore.Catch(func() { ccs, err = frontend.Compile(field, nb, shape) }); p != nil {
			return nil, nil, fmt.Errorf("compile panic: %v\n%s", p, st)
		}
		if err != nil {
			return nil, nil, fmt.Errorf("compile: %w", err)
		}
		return func(assign frontend.Circuit) (err error) {
			w, werr := frontend.NewWitness(assign, field)
			if werr != nil {
				return fmt.Errorf("witness: %w", werr)
			}
			if p, st := vcore.Catch(func() { err = ccs.IsSolved(w) }); p != nil {
				return fmt.Errorf("panic: %v\n%s", p, st)
			}
			return err
		}, ccs, nil
	}
	panic("unknown engine " + e.name)
}

// ---- batches of digest jobs ----

// A batch is one circuit computing several digests; each slot is one digest job.
type batch interface {
	shape() frontend.Circuit
	// assign builds the assignment; corrupt >= 0 alters the expected digest of that slot by one bit.
	assign(tag uint64, corrupt int) frontend.Circuit
	slots() int
	expect(slot int) []*big.Int      // native digest(s) of the slot
	class(slot int) string           // stable class name: function / mode
	key(slot int) string             // distinctness key
	describe(slot int) map[string]any // replay information
	single(slot int) batch
	sameShape(o batch) bool
}

func eqVals(a, b []*big.Int) bool {
	if len(a) != len(b) {
		return false
	}
	for i := range a {
		if a[i] == nil || b[i] == nil || a[i].Cmp(b[i]) != 0 {
			return false
		}
	}
	return true
}

type monitor struct {
	r *vcore.Run
}

// judgeShape runs batches that all have the same circuit shape on one engine
// (prepared once), with a wrong-digest control on the first batch.
func (m *monitor) judgeShape(e engine, bs []batch, control bool) {
	if len(bs) == 0 {
		return
	}
	r := m.r
	if os.Getenv("VERIF_C15_TIMING") != "" {
		t0 := time.Now()
		defer func() {
			fmt.Printf("timing: %-14s %-40s batches=%d slots=%d %.2fs\n", e, bs[0].class(0), len(bs), bs[0].slots(), time.Since(t0).Seconds())
		}()
	}
	run, ccs, err := e.prepare(bs[0].shape())
	if err != nil {
		if bs[0].slots() > 1 {
			// isolate the slot whose presence breaks compilation
			for _, b := range bs[:1] {
				for s := 0; s < b.slots(); s++ {
					m.judgeShape(e, []batch{b.single(s)}, false)
				}
			}
			return
		}
		rep := bs[0].describe(0)
		rep["engine"] = e.String()
		rep["error"] = err.Error()
		r.Eval(e.String()+"|"+bs[0].key(0), true)
		r.Count("ERROR.compile."+e.name, 1)
		r.Violation("compile-error/"+bs[0].class(0)+"/"+e.String(), "in-domain circuit does not compile: "+firstLine(err), rep)
		return
	}
	if ccs != nil {
		r.Count("compiled.circuits."+e.name, 1)
		r.Count("compiled.constraints."+e.name, ccs.GetNbConstraints())
	}
	for bi, b := range bs {
		if !b.sameShape(bs[0]) {
			panic("judgeShape: batches of different shapes")
		}
		tag := nextTag()
		err := run(b.assign(tag, -1))
		r.Count("runs."+e.name, 1)
		allOK := err == nil
		got := make([][]*big.Int, b.slots())
		for s := 0; s < b.slots(); s++ {
			got[s] = takeTap(tag, s)
			if !eqVals(got[s], b.expect(s)) {
				allOK = false
			}
		}
		if allOK {
			for s := 0; s < b.slots(); s++ {
				r.Eval(e.String()+"|"+b.key(s), true)
				r.Count("held."+b.class(s)+"."+e.name, 1)
				r.Count("digests-compared."+e.String(), 1)
				r.SampleClass(b.class(s)+"/"+e.name, withGot(b.describe(s), e, got[s], b.expect(s)))
			}
		} else if b.slots() > 1 {
			// isolate: every job on its own
			for s := 0; s < b.slots(); s++ {
				m.judgeShape(e, []batch{b.single(s)}, false)
			}
		} else {
			m.reportFailure(e, b, got[0], err)
		}
		if control && bi == 0 && allOK {
			// the assertion must be live: a digest differing in one bit is refused
			s := int(tag % uint64(b.slots()))
			ctag := nextTag()
			var cerr error
			if e.name == "engine" && b.slots() > 1 {
				// the test engine re-executes everything: run the control on that job alone
				sb := b.single(s)
				srun, _, _ := e.prepare(sb.shape())
				cerr = srun(sb.assign(ctag, 0))
			} else {
				cerr = run(b.assign(ctag, s))
			}
			for k := 0; k < b.slots(); k++ {
				takeTap(ctag, k)
			}
			r.Eval(e.String()+"|control|"+b.key(s), true)
			if cerr == nil {
				rep := b.describe(s)
				rep["engine"] = e.String()
				r.Count("ACCEPTED.wrong-digest", 1)
				r.Violation("wrong-digest-accepted/"+b.class(s)+"/"+e.String(), "circuit satisfied although the expected digest differs from the native digest in one bit", rep)
			} else {
				r.Count("control.wrong-digest-rejected."+e.name, 1)
			}
		}
	}
}

// fmtVals writes byte vectors as one hex string and field elements as a list.
func fmtVals(v []*big.Int) any {
	if len(v) < 16 {
		return hexBig(v)
	}
	b := make([]byte, len(v))
	for i, x := range v {
		if x == nil || !x.IsUint64() || x.Uint64() > 255 {
			return hexBig(v)
		}
		b[i] = byte(x.Uint64())
	}
	return fmt.Sprintf("%x", b)
}

func withGot(d map[string]any, e engine, got, want []*big.Int) map[string]any {
	d["engine"] = e.String()
	d["circuit_digest"] = fmtVals(got)
	d["native_digest"] = fmtVals(want)
	return d
}

func (m *monitor) reportFailure(e engine, b batch, got []*big.Int, err error) {
	r := m.r
	rep := withGot(b.describe(0), e, got, b.expect(0))
	if err != nil {
		rep["error"] = err.Error()
	}
	r.Eval(e.String()+"|"+b.key(0), true)
	cls := b.class(0) + "/" + e.String()
	switch {
	case got != nil && !eqVals(got, b.expect(0)):
		r.Count("MISMATCH."+b.class(0)+"."+e.name, 1)
		r.Violation("digest-mismatch/"+cls, fmt.Sprintf("in-circuit digest %v differs from native %v (%s)", fmtVals(got), fmtVals(b.expect(0)), firstLine(err)), rep)
	case got == nil && err != nil && e.name != "engine" && strings.Contains(err.Error(), "is not satisfied"):
		// the solver stopped at a violated constraint before it executed the tap;
		// for the report, ask the test engine what the gadget computes
		te := engine{"engine", e.curve}
		if trun, _, perr := te.prepare(b.shape()); perr == nil {
			ttag := nextTag()
			_ = trun(b.assign(ttag, -1))
			rep["circuit_digest_in_test_engine"] = fmtVals(takeTap(ttag, 0))
		}
		r.Count("REJECTED-native-digest."+b.class(0)+"."+e.name, 1)
		r.Violation("native-digest-rejected/"+cls, "the compiled circuit cannot be solved with the native digest as expected value: "+firstLine(err), rep)
	case got == nil && err != nil:
		r.Count("ERROR."+b.class(0)+"."+e.name, 1)
		r.Violation("gadget-error/"+cls, "circuit failed before producing a digest on an in-domain input: "+firstLine(err), rep)
	case got == nil:
		r.Inconclusive("tap-not-reached")
	default:
		r.Count("UNSAT-correct-digest."+b.class(0)+"."+e.name, 1)
		r.Violation("unsatisfied-with-correct-digest/"+cls, "digest equals the native one but the circuit is not satisfied: "+firstLine(err), rep)
	}
}

// judgeSat decides a circuit whose verdict is satisfiable / unsatisfiable (Merkle proofs).
func (m *monitor) judgeSat(e engine, run runFn, assign frontend.Circuit, wantSat bool, class, key string, rep map[string]any) {
	r := m.r
	err := run(assign)
	r.Eval(e.String()+"|"+key, true)
	r.Count("runs."+e.name, 1)
	rep["engine"] = e.String()
	switch {
	case wantSat && err == nil:
		r.Count("held."+class+".accepted."+e.name, 1)
		r.SampleClass(class+"/accepted/"+e.name, rep)
	case !wantSat && err != nil:
		r.Count("held."+class+".rejected."+e.name, 1)
		rep["circuit_said"] = firstLine(err)
		r.SampleClass(class+"/rejected/"+e.name, rep)
	case wantSat:
		rep["error"] = err.Error()
		r.Count("REJECTED-valid."+class+"."+e.name, 1)
		r.Violation("valid-rejected/"+class+"/"+e.String(), "native verifier accepts, circuit is unsatisfied: "+firstLine(err), rep)
	default:
		r.Count("ACCEPTED-invalid."+class+"."+e.name, 1)
		r.Violation("invalid-accepted/"+class+"/"+e.String(), "native verifier rejects, circuit is satisfied", rep)
	}
}
