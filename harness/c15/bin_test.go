//go:build verif

package c15

// Byte-oriented hash gadgets: SHA-256 (+FixedLengthSum), SHA-3 / Keccak family
// (+FixedLengthSum), RIPEMD-160, and the SHA-256 / Keccak-f block functions.

import (
	"encoding/hex"
	"fmt"
	"math/big"
	"math/rand/v2"

	"github.com/consensys/gnark/frontend"
	"github.com/consensys/gnark/std/hash"
	"github.com/consensys/gnark/std/hash/ripemd160"
	"github.com/consensys/gnark/std/hash/sha2"
	"github.com/consensys/gnark/std/hash/sha3"
	"github.com/consensys/gnark/std/math/uints"
	"github.com/consensys/gnark/std/permutation/keccakf"
	permsha2 "github.com/consensys/gnark/std/permutation/sha2"
)

type binJob struct {
	kind    string
	msg     []byte // the bytes written (for fixed: all maxLen bytes)
	content string
	chunks  []int // sizes of successive Write calls; nil = one Write of everything
	fixed   bool  // FixedLengthSum(length) instead of Sum()
	length  int   // actual length (fixed only)
	minLen  int   // hash.WithMinimalLength (fixed only; 0 = option not given)

	// call sequences probing whether the hasher keeps the caller's slices (seq != ""):
	//   alias:       h1.Write(buf[:k]); h1.Write(other); h1.Sum()  |  h2.Write(buf); h2.Sum()
	//   alias-reset: the same, but the second digest comes from h1 after Reset()
	//   alias-sum:   h1.Write(buf[:k]); h1.Sum(); [MD hashes: h1.Write(other); h1.Sum()]  |  h2.Write(buf); h2.Sum()
	//   reuse:       the message is written in pieces of k bytes through one scratch buffer that the caller refills
	// msg is buf; every digest of the sequence is compared (they are concatenated).
	seq   string
	k     int
	other []byte
}

// nativeJob is what the job's digest(s) must be.
func nativeJob(j *binJob) []byte {
	cat := func(a, b []byte) []byte { return append(append([]byte{}, a...), b...) }
	switch j.seq {
	case "":
		return nativeBin(j.kind, j.message())
	case "alias", "alias-reset":
		return cat(nativeBin(j.kind, cat(j.msg[:j.k], j.other)), nativeBin(j.kind, j.msg))
	case "alias-sum":
		d := nativeBin(j.kind, j.msg[:j.k])
		if binKinds[j.kind].md {
			d = cat(d, nativeBin(j.kind, cat(j.msg[:j.k], j.other)))
		}
		return cat(d, nativeBin(j.kind, j.msg))
	case "reuse":
		return nativeBin(j.kind, j.msg)
	}
	panic("unknown sequence " + j.seq)
}

func (j *binJob) nDigests() int {
	switch j.seq {
	case "alias", "alias-reset":
		return 2
	case "alias-sum":
		if binKinds[j.kind].md {
			return 3
		}
		return 2
	}
	return 1
}

func (j *binJob) message() []byte {
	if j.fixed {
		return j.msg[:j.length]
	}
	return j.msg
}

func (j *binJob) classOf() string {
	switch {
	case j.seq == "alias":
		return j.kind + "/Write-subslice-Write-other+second-hasher"
	case j.seq == "alias-reset":
		return j.kind + "/Write-subslice-Write-other+Reset"
	case j.seq == "alias-sum":
		return j.kind + "/Write-subslice-Sum+second-hasher"
	case j.seq == "reuse":
		return j.kind + "/Sum-writes-through-reused-buffer"
	case j.fixed && len(j.msg) == 0:
		// degenerate declared maximum; the five SHA-3 / Keccak variants are one implementation
		if !binKinds[j.kind].md {
			return "sha3/FixedLengthSum-nothing-written"
		}
		return j.kind + "/FixedLengthSum-nothing-written"
	case j.fixed && j.minLen > 0:
		return j.kind + "/FixedLengthSum+MinimalLength"
	case j.fixed:
		return j.kind + "/FixedLengthSum"
	case j.chunks != nil:
		return j.kind + "/Sum-chunked-writes"
	}
	return j.kind + "/Sum"
}

type binCircuit struct {
	Tag  frontend.Variable
	In   [][]uints.U8
	Oth  [][]uints.U8
	Len  []frontend.Variable
	Exp  [][]uints.U8
	jobs []binJob
}

// defineSeq runs an aliasing sequence and returns the concatenated digests.
func (c *binCircuit) defineSeq(api frontend.API, i int) ([]uints.U8, error) {
	j := &c.jobs[i]
	buf, oth := c.In[i], c.Oth[i]
	h1, err := newBinHasher(api, j.kind)
	if err != nil {
		return nil, err
	}
	var out []uints.U8
	sum := func(h hash.BinaryHasher) error {
		d := h.Sum()
		if len(d) != h.Size() {
			return fmt.Errorf("%s: digest of %d bytes, Size()=%d", j.kind, len(d), h.Size())
		}
		out = append(out, d...)
		return nil
	}
	if j.seq == "reuse" {
		scratch := make([]uints.U8, j.k)
		for off := 0; off < len(buf); {
			n := copy(scratch, buf[off:]) // the caller refills its buffer ...
			h1.Write(scratch[:n])         // ... and writes it
			off += n
		}
		return out, sum(h1)
	}
	h1.Write(buf[:j.k]) // a sub-slice with spare capacity
	switch j.seq {
	case "alias", "alias-reset":
		h1.Write(oth)
		if err := sum(h1); err != nil {
			return nil, err
		}
	case "alias-sum":
		if err := sum(h1); err != nil {
			return nil, err
		}
		if binKinds[j.kind].md { // sha2 / ripemd160 keep hashing after Sum like Go's hash.Hash
			h1.Write(oth)
			if err := sum(h1); err != nil {
				return nil, err
			}
		}
	}
	// the caller's buffer must still hold what the caller put there
	h2 := h1
	if j.seq == "alias-reset" {
		r, ok := h1.(interface{ Reset() })
		if !ok {
			return nil, fmt.Errorf("%s has no Reset", j.kind)
		}
		r.Reset()
	} else if h2, err = newBinHasher(api, j.kind); err != nil {
		return nil, err
	}
	h2.Write(buf)
	return out, sum(h2)
}

func newBinHasher(api frontend.API, kind string, opts ...hash.Option) (hash.BinaryHasher, error) {
	switch kind {
	case "sha256":
		return sha2.New(api, opts...)
	case "ripemd160":
		return ripemd160.New(api)
	case "sha3-256":
		return sha3.New256(api, opts...)
	case "sha3-384":
		return sha3.New384(api, opts...)
	case "sha3-512":
		return sha3.New512(api, opts...)
	case "keccak256":
		return sha3.NewLegacyKeccak256(api, opts...)
	case "keccak512":
		return sha3.NewLegacyKeccak512(api, opts...)
	}
	return nil, fmt.Errorf("unknown hash %q", kind)
}

func (c *binCircuit) Define(api frontend.API) error {
	uapi, err := uints.New[uints.U32](api)
	if err != nil {
		return err
	}
	res := make([][]uints.U8, len(c.jobs))
	for i := range c.jobs {
		j := &c.jobs[i]
		if j.seq != "" {
			d, err := c.defineSeq(api, i)
			if err != nil {
				return err
			}
			if len(d) != len(c.Exp[i]) {
				return fmt.Errorf("%s/%s: %d digest bytes, native %d", j.kind, j.seq, len(d), len(c.Exp[i]))
			}
			res[i] = d
			vals := make([]frontend.Variable, len(d))
			for k := range vals {
				vals[k] = d[k].Val
			}
			tap(api, c.Tag, i, vals...)
			continue
		}
		var opts []hash.Option
		if j.fixed && j.minLen > 0 {
			opts = append(opts, hash.WithMinimalLength(j.minLen))
		}
		h, err := newBinHasher(api, j.kind, opts...)
		if err != nil {
			return err
		}
		if j.chunks == nil {
			h.Write(c.In[i])
		} else {
			off := 0
			for _, n := range j.chunks {
				h.Write(c.In[i][off : off+n])
				off += n
			}
			if off != len(c.In[i]) {
				return fmt.Errorf("chunking does not cover the message")
			}
		}
		if j.fixed {
			fh, ok := h.(hash.BinaryFixedLengthHasher)
			if !ok {
				return fmt.Errorf("%s offers no FixedLengthSum", j.kind)
			}
			res[i] = fh.FixedLengthSum(c.Len[i])
		} else {
			res[i] = h.Sum()
		}
		if len(res[i]) != h.Size() || len(res[i]) != len(c.Exp[i]) {
			return fmt.Errorf("%s: digest of %d bytes, Size()=%d, native %d", j.kind, len(res[i]), h.Size(), len(c.Exp[i]))
		}
		vals := make([]frontend.Variable, len(res[i]))
		for k := range vals {
			vals[k] = res[i][k].Val
		}
		tap(api, c.Tag, i, vals...)
	}
	for i := range res {
		for k := range res[i] {
			uapi.ByteAssertEq(c.Exp[i][k], res[i][k])
		}
	}
	return nil
}

type binBatch struct{ jobs []binJob }

func (b *binBatch) slots() int { return len(b.jobs) }
func (b *binBatch) fixedAny() bool {
	for i := range b.jobs {
		if b.jobs[i].fixed {
			return true
		}
	}
	return false
}
func (b *binBatch) shape() frontend.Circuit {
	c := &binCircuit{jobs: b.jobs, In: make([][]uints.U8, len(b.jobs)), Oth: make([][]uints.U8, len(b.jobs)), Exp: make([][]uints.U8, len(b.jobs))}
	if b.fixedAny() {
		c.Len = make([]frontend.Variable, len(b.jobs))
	}
	for i := range b.jobs {
		j := &b.jobs[i]
		c.In[i] = make([]uints.U8, len(j.msg))
		c.Oth[i] = make([]uints.U8, len(j.other))
		c.Exp[i] = make([]uints.U8, binKinds[j.kind].size*j.nDigests())
	}
	return c
}
func (b *binBatch) assign(tag uint64, corrupt int) frontend.Circuit {
	c := &binCircuit{jobs: b.jobs, Tag: tag, In: make([][]uints.U8, len(b.jobs)), Oth: make([][]uints.U8, len(b.jobs)), Exp: make([][]uints.U8, len(b.jobs))}
	if b.fixedAny() {
		c.Len = make([]frontend.Variable, len(b.jobs))
	}
	for i := range b.jobs {
		j := &b.jobs[i]
		c.In[i] = uints.NewU8Array(j.msg)
		c.Oth[i] = uints.NewU8Array(j.other)
		d := nativeJob(j)
		if i == corrupt {
			bit := int(tag*7+3) % (8 * len(d))
			d[bit/8] ^= 1 << (bit % 8)
		}
		c.Exp[i] = uints.NewU8Array(d)
		if j.fixed {
			c.Len[i] = j.length
		} else if c.Len != nil {
			c.Len[i] = 0
		}
	}
	return c
}
func (b *binBatch) expect(s int) []*big.Int {
	d := nativeJob(&b.jobs[s])
	out := make([]*big.Int, len(d))
	for i := range d {
		out[i] = big.NewInt(int64(d[i]))
	}
	return out
}
func (b *binBatch) class(s int) string { return b.jobs[s].classOf() }
func (b *binBatch) key(s int) string {
	j := &b.jobs[s]
	return fmt.Sprintf("%s|%x|%v|%v|%d|%d|%s|%d|%x", j.kind, j.msg, j.chunks, j.fixed, j.length, j.minLen, j.seq, j.k, j.other)
}
func (b *binBatch) describe(s int) map[string]any {
	j := &b.jobs[s]
	d := map[string]any{"function": j.kind, "written_bytes": len(j.msg), "content": j.content, "written_hex": hex.EncodeToString(j.msg)}
	if j.chunks != nil {
		d["write_chunks"] = j.chunks
	}
	if j.fixed {
		d["FixedLengthSum_length"] = j.length
		d["WithMinimalLength"] = j.minLen
	}
	if j.seq != "" {
		d["sequence"] = j.seq
		d["k"] = j.k
		d["other_hex"] = hex.EncodeToString(j.other)
		d["digests_in_order"] = j.nDigests()
	}
	return d
}
func (b *binBatch) single(s int) batch { return &binBatch{jobs: []binJob{b.jobs[s]}} }
func (b *binBatch) sameShape(o batch) bool {
	ob, ok := o.(*binBatch)
	if !ok || len(ob.jobs) != len(b.jobs) {
		return false
	}
	for i := range b.jobs {
		x, y := &b.jobs[i], &ob.jobs[i]
		if x.kind != y.kind || len(x.msg) != len(y.msg) || x.fixed != y.fixed || x.minLen != y.minLen || fmt.Sprint(x.chunks) != fmt.Sprint(y.chunks) ||
			x.seq != y.seq || x.k != y.k || len(x.other) != len(y.other) {
			return false
		}
	}
	return true
}

// ---- message contents and length grids ----

var contents = []string{"random", "zeros", "ones", "counter"}

func makeMsg(rng *rand.Rand, n int, content string) []byte {
	b := make([]byte, n)
	switch content {
	case "zeros":
	case "ones":
		for i := range b {
			b[i] = 0xff
		}
	case "counter":
		for i := range b {
			b[i] = byte(i)
		}
	default:
		for i := range b {
			b[i] = byte(rng.Uint32())
		}
	}
	return b
}

// boundaryLengths: 0,1,2 and every length within +-2 of each block boundary and
// of each padding boundary, for messages of up to nBlocks blocks.
func boundaryLengths(k *binKind, nBlocks int) []int {
	seen := map[int]bool{}
	var out []int
	add := func(n int) {
		if n >= 0 && n <= nBlocks*k.block+2 && !seen[n] {
			seen[n] = true
			out = append(out, n)
		}
	}
	for _, n := range []int{0, 1, 2} {
		add(n)
	}
	for b := 1; b <= nBlocks; b++ {
		for d := -2; d <= 2; d++ {
			add(b*k.block + d)
			if k.md {
				add(b*k.block - 9 + d) // 0x80 + 8 length bytes still fit / no longer fit
			} else {
				add(b*k.block - 1 + d) // dsbyte and final 0x80 share a byte / need a new block
			}
		}
	}
	sortInts(out)
	return out
}

func sortInts(a []int) {
	for i := 1; i < len(a); i++ {
		for j := i; j > 0 && a[j] < a[j-1]; j-- {
			a[j], a[j-1] = a[j-1], a[j]
		}
	}
}

func allLengths(max int) []int {
	out := make([]int, max+1)
	for i := range out {
		out[i] = i
	}
	return out
}

// compositions of n (all ordered ways to cut n bytes into non-empty pieces).
func compositions(n int) [][]int {
	if n == 0 {
		return [][]int{{}}
	}
	var out [][]int
	for mask := 0; mask < 1<<(n-1); mask++ {
		var c []int
		run := 1
		for i := 0; i < n-1; i++ {
			if mask>>i&1 == 1 {
				c = append(c, run)
				run = 1
			} else {
				run++
			}
		}
		c = append(c, run)
		out = append(out, c)
	}
	return out
}

func randomChunks(rng *rand.Rand, n int, withEmpty bool) []int {
	var c []int
	for n > 0 {
		k := 1 + rng.IntN(min(n, 70))
		if rng.IntN(4) == 0 {
			k = 1
		}
		c = append(c, k)
		n -= k
		if withEmpty && rng.IntN(3) == 0 {
			c = append(c, 0)
		}
	}
	if withEmpty {
		c = append([]int{0}, c...)
	}
	return c
}

func ones(n int) []int {
	c := make([]int, n)
	for i := range c {
		c[i] = 1
	}
	return c
}

// packJobs cuts jobs into batches of roughly `budget` permutation calls each.
func packJobs(jobs []binJob, budget int) []batch {
	var out []batch
	var cur []binJob
	cost := 0
	for _, j := range jobs {
		k := binKinds[j.kind]
		if j.fixed && len(j.msg) == 0 {
			// degenerate configuration: on its own, so that a failure does not cost a whole batch
			out = append(out, &binBatch{jobs: []binJob{j}})
			continue
		}
		c := len(j.msg)/k.block + 1
		if j.seq != "" && j.seq != "reuse" {
			c += (j.k+len(j.other))/k.block + 1
			if j.seq == "alias-sum" {
				c += j.k/k.block + 1
			}
		}
		if j.fixed && k.md {
			c = (len(j.msg) + 72) / 64
		} else if k.md && len(j.msg)%64 >= 56 {
			c++
		}
		if len(cur) > 0 && cost+c > budget {
			out = append(out, &binBatch{jobs: cur})
			cur, cost = nil, 0
		}
		cur = append(cur, j)
		cost += c
	}
	if len(cur) > 0 {
		out = append(out, &binBatch{jobs: cur})
	}
	return out
}

// ---- block functions with arbitrary chaining values ----

type blockJob struct {
	kind string // "sha256-block" | "keccakf"
	in   []byte // sha256: 32 bytes chaining value (big endian words) + 64 bytes block; keccakf: 200 bytes (little endian lanes)
}

type blockCircuit struct {
	Tag  frontend.Variable
	In   [][]uints.U8
	Exp  [][]uints.U8
	jobs []blockJob
}

func (c *blockCircuit) Define(api frontend.API) error {
	u32, err := uints.New[uints.U32](api)
	if err != nil {
		return err
	}
	u64, err := uints.New[uints.U64](api)
	if err != nil {
		return err
	}
	res := make([][]uints.U8, len(c.jobs))
	for i, j := range c.jobs {
		switch j.kind {
		case "sha256-block":
			var iv [8]uints.U32
			for w := range iv {
				iv[w] = u32.PackMSB(c.In[i][4*w : 4*w+4]...)
			}
			var blk [64]uints.U8
			copy(blk[:], c.In[i][32:])
			out := permsha2.Permute(u32, iv, blk)
			for w := range out {
				res[i] = append(res[i], u32.UnpackMSB(out[w])...)
			}
		case "keccakf":
			var st [25]uints.U64
			for w := range st {
				st[w] = u64.PackLSB(c.In[i][8*w : 8*w+8]...)
			}
			out := keccakf.Permute(u64, st)
			for w := range out {
				res[i] = append(res[i], u64.UnpackLSB(out[w])...)
			}
		default:
			return fmt.Errorf("unknown block function")
		}
		vals := make([]frontend.Variable, len(res[i]))
		for k := range vals {
			vals[k] = res[i][k].Val
		}
		tap(api, c.Tag, i, vals...)
	}
	for i := range res {
		if len(res[i]) != len(c.Exp[i]) {
			return fmt.Errorf("output size")
		}
		for k := range res[i] {
			u32.ByteAssertEq(c.Exp[i][k], res[i][k])
		}
	}
	return nil
}

type blockBatch struct{ jobs []blockJob }

func nativeBlock(j *blockJob) []byte {
	switch j.kind {
	case "sha256-block":
		var iv [8]uint32
		for w := range iv {
			iv[w] = uint32(j.in[4*w])<<24 | uint32(j.in[4*w+1])<<16 | uint32(j.in[4*w+2])<<8 | uint32(j.in[4*w+3])
		}
		out, err := nativeSha256Block(iv, j.in[32:])
		if err != nil {
			panic(err)
		}
		var b []byte
		for _, w := range out {
			b = append(b, byte(w>>24), byte(w>>16), byte(w>>8), byte(w))
		}
		return b
	case "keccakf":
		out, err := nativeKeccakF(j.in)
		if err != nil {
			panic(err)
		}
		return out
	}
	panic("unknown block function")
}

func (b *blockBatch) slots() int { return len(b.jobs) }
func (b *blockBatch) outLen(s int) int {
	if b.jobs[s].kind == "keccakf" {
		return 200
	}
	return 32
}
func (b *blockBatch) shape() frontend.Circuit {
	c := &blockCircuit{jobs: b.jobs, In: make([][]uints.U8, len(b.jobs)), Exp: make([][]uints.U8, len(b.jobs))}
	for i, j := range b.jobs {
		c.In[i] = make([]uints.U8, len(j.in))
		c.Exp[i] = make([]uints.U8, b.outLen(i))
	}
	return c
}
func (b *blockBatch) assign(tag uint64, corrupt int) frontend.Circuit {
	c := &blockCircuit{jobs: b.jobs, Tag: tag, In: make([][]uints.U8, len(b.jobs)), Exp: make([][]uints.U8, len(b.jobs))}
	for i := range b.jobs {
		c.In[i] = uints.NewU8Array(b.jobs[i].in)
		d := nativeBlock(&b.jobs[i])
		if i == corrupt {
			bit := int(tag*7+3) % (8 * len(d))
			d[bit/8] ^= 1 << (bit % 8)
		}
		c.Exp[i] = uints.NewU8Array(d)
	}
	return c
}
func (b *blockBatch) expect(s int) []*big.Int {
	d := nativeBlock(&b.jobs[s])
	out := make([]*big.Int, len(d))
	for i := range d {
		out[i] = big.NewInt(int64(d[i]))
	}
	return out
}
func (b *blockBatch) class(s int) string { return b.jobs[s].kind + "/Permute" }
func (b *blockBatch) key(s int) string   { return fmt.Sprintf("%s|%x", b.jobs[s].kind, b.jobs[s].in) }
func (b *blockBatch) describe(s int) map[string]any {
	return map[string]any{"function": b.jobs[s].kind, "input_hex": hex.EncodeToString(b.jobs[s].in)}
}
func (b *blockBatch) single(s int) batch { return &blockBatch{jobs: []blockJob{b.jobs[s]}} }
func (b *blockBatch) sameShape(o batch) bool {
	ob, ok := o.(*blockBatch)
	if !ok || len(ob.jobs) != len(b.jobs) {
		return false
	}
	for i := range b.jobs {
		if b.jobs[i].kind != ob.jobs[i].kind {
			return false
		}
	}
	return true
}
