//go:build verif

package c15

// Native reference implementations (the oracle side): Go standard library,
// golang.org/x/crypto and gnark-crypto.  Nothing in this file touches gnark.

import (
	"crypto/sha256"
	"encoding"
	"encoding/binary"
	"fmt"
	"hash"
	"math/big"

	"github.com/consensys/gnark-crypto/ecc"
	frbls12377 "github.com/consensys/gnark-crypto/ecc/bls12-377/fr"
	p2bls12377 "github.com/consensys/gnark-crypto/ecc/bls12-377/fr/poseidon2"
	frbls12381 "github.com/consensys/gnark-crypto/ecc/bls12-381/fr"
	p2bls12381 "github.com/consensys/gnark-crypto/ecc/bls12-381/fr/poseidon2"
	frbls24315 "github.com/consensys/gnark-crypto/ecc/bls24-315/fr"
	p2bls24315 "github.com/consensys/gnark-crypto/ecc/bls24-315/fr/poseidon2"
	frbls24317 "github.com/consensys/gnark-crypto/ecc/bls24-317/fr"
	p2bls24317 "github.com/consensys/gnark-crypto/ecc/bls24-317/fr/poseidon2"
	frbn254 "github.com/consensys/gnark-crypto/ecc/bn254/fr"
	p2bn254 "github.com/consensys/gnark-crypto/ecc/bn254/fr/poseidon2"
	frbw6633 "github.com/consensys/gnark-crypto/ecc/bw6-633/fr"
	p2bw6633 "github.com/consensys/gnark-crypto/ecc/bw6-633/fr/poseidon2"
	frbw6761 "github.com/consensys/gnark-crypto/ecc/bw6-761/fr"
	p2bw6761 "github.com/consensys/gnark-crypto/ecc/bw6-761/fr/poseidon2"
	gchash "github.com/consensys/gnark-crypto/hash"
	_ "github.com/consensys/gnark-crypto/hash/all"
	"golang.org/x/crypto/ripemd160"
	xsha3 "golang.org/x/crypto/sha3"
)

// ---- byte-oriented hashes ----

type binKind struct {
	name   string
	block  int // block size / sponge rate in bytes
	size   int // digest size
	md     bool
	native func() hash.Hash
	fixed  bool // offers FixedLengthSum
}

var binKinds = map[string]*binKind{
	"sha256":    {"sha256", 64, 32, true, sha256.New, true},
	"ripemd160": {"ripemd160", 64, 20, true, ripemd160.New, false},
	"sha3-256":  {"sha3-256", 136, 32, false, xsha3.New256, true},
	"sha3-384":  {"sha3-384", 104, 48, false, xsha3.New384, true},
	"sha3-512":  {"sha3-512", 72, 64, false, xsha3.New512, true},
	"keccak256": {"keccak256", 136, 32, false, xsha3.NewLegacyKeccak256, true},
	"keccak512": {"keccak512", 72, 64, false, xsha3.NewLegacyKeccak512, true},
}

var binKindOrder = []string{"sha256", "ripemd160", "sha3-256", "sha3-384", "sha3-512", "keccak256", "keccak512"}

func nativeBin(kind string, msg []byte) []byte {
	h := binKinds[kind].native()
	h.Write(msg)
	return h.Sum(nil)
}

// nativeSha256Block applies the SHA-256 compression function to an arbitrary
// chaining value through crypto/sha256's state (un)marshalling.
func nativeSha256Block(iv [8]uint32, block []byte) ([8]uint32, error) {
	st := []byte("sha\x03")
	for _, w := range iv {
		st = binary.BigEndian.AppendUint32(st, w)
	}
	st = append(st, make([]byte, 64)...)
	st = binary.BigEndian.AppendUint64(st, 0)
	h := sha256.New()
	if err := h.(encoding.BinaryUnmarshaler).UnmarshalBinary(st); err != nil {
		return iv, err
	}
	h.Write(block)
	out, err := h.(encoding.BinaryMarshaler).MarshalBinary()
	if err != nil {
		return iv, err
	}
	var res [8]uint32
	for i := range res {
		res[i] = binary.BigEndian.Uint32(out[4+4*i:])
	}
	return res, nil
}

// nativeKeccakF applies Keccak-f[1600] to an arbitrary 200-byte state through
// x/crypto/sha3's state (un)marshalling: absorbing a block of zeros leaves the
// state unchanged and triggers exactly one permutation.
func nativeKeccakF(state []byte) ([]byte, error) {
	const rate = 136
	h := xsha3.NewLegacyKeccak256()
	st := []byte("sha\x0b")
	st = append(st, rate)
	st = append(st, state...)
	st = append(st, 0, 0) // n = 0, absorbing
	if err := h.(encoding.BinaryUnmarshaler).UnmarshalBinary(st); err != nil {
		return nil, err
	}
	h.Write(make([]byte, rate))
	out, err := h.(encoding.BinaryMarshaler).MarshalBinary()
	if err != nil {
		return nil, err
	}
	if out[5+200] != 0 { // the buffer must be empty again
		return nil, fmt.Errorf("unexpected sponge position %d", out[5+200])
	}
	return out[5 : 5+200], nil
}

// ---- field-oriented hashes (per curve) ----

type elemPtr[E any] interface {
	*E
	SetBigInt(*big.Int) *E
	BigInt(*big.Int) *big.Int
}

type p2perm[E any] interface {
	Permutation([]E) error
	Compress([]byte, []byte) ([]byte, error)
	BlockSize() int
}

// p2native is gnark-crypto's Poseidon2 permutation for one curve and one parameter set.
type p2native interface {
	Permute(in []*big.Int) ([]*big.Int, error)
	Compressor() gchash.Compressor
}

type p2wrap[E any, P elemPtr[E]] struct{ p p2perm[E] }

func (w p2wrap[E, P]) Permute(in []*big.Int) ([]*big.Int, error) {
	xs := make([]E, len(in))
	for i := range in {
		P(&xs[i]).SetBigInt(in[i])
	}
	if err := w.p.Permutation(xs); err != nil {
		return nil, err
	}
	out := make([]*big.Int, len(in))
	for i := range xs {
		out[i] = P(&xs[i]).BigInt(new(big.Int))
	}
	return out, nil
}
func (w p2wrap[E, P]) Compressor() gchash.Compressor { return w.p }

type curveNat struct {
	id        ecc.ID
	name      string
	field     *big.Int
	mimc      gchash.Hash
	p2        func(t, rf, rp int) p2native
	p2default [2]int // rF, rP of gnark-crypto's GetDefaultParameters (width 2)
}

var curveNats = []*curveNat{
	{ecc.BN254, "bn254", ecc.BN254.ScalarField(), gchash.MIMC_BN254, func(t, rf, rp int) p2native {
		return p2wrap[frbn254.Element, *frbn254.Element]{p2bn254.NewPermutation(t, rf, rp)}
	}, [2]int{p2bn254.GetDefaultParameters().NbFullRounds, p2bn254.GetDefaultParameters().NbPartialRounds}},
	{ecc.BLS12_377, "bls12-377", ecc.BLS12_377.ScalarField(), gchash.MIMC_BLS12_377, func(t, rf, rp int) p2native {
		return p2wrap[frbls12377.Element, *frbls12377.Element]{p2bls12377.NewPermutation(t, rf, rp)}
	}, [2]int{p2bls12377.GetDefaultParameters().NbFullRounds, p2bls12377.GetDefaultParameters().NbPartialRounds}},
	{ecc.BW6_761, "bw6-761", ecc.BW6_761.ScalarField(), gchash.MIMC_BW6_761, func(t, rf, rp int) p2native {
		return p2wrap[frbw6761.Element, *frbw6761.Element]{p2bw6761.NewPermutation(t, rf, rp)}
	}, [2]int{p2bw6761.GetDefaultParameters().NbFullRounds, p2bw6761.GetDefaultParameters().NbPartialRounds}},
	{ecc.BLS12_381, "bls12-381", ecc.BLS12_381.ScalarField(), gchash.MIMC_BLS12_381, func(t, rf, rp int) p2native {
		return p2wrap[frbls12381.Element, *frbls12381.Element]{p2bls12381.NewPermutation(t, rf, rp)}
	}, [2]int{p2bls12381.GetDefaultParameters().NbFullRounds, p2bls12381.GetDefaultParameters().NbPartialRounds}},
	{ecc.BLS24_315, "bls24-315", ecc.BLS24_315.ScalarField(), gchash.MIMC_BLS24_315, func(t, rf, rp int) p2native {
		return p2wrap[frbls24315.Element, *frbls24315.Element]{p2bls24315.NewPermutation(t, rf, rp)}
	}, [2]int{p2bls24315.GetDefaultParameters().NbFullRounds, p2bls24315.GetDefaultParameters().NbPartialRounds}},
	{ecc.BLS24_317, "bls24-317", ecc.BLS24_317.ScalarField(), gchash.MIMC_BLS24_317, func(t, rf, rp int) p2native {
		return p2wrap[frbls24317.Element, *frbls24317.Element]{p2bls24317.NewPermutation(t, rf, rp)}
	}, [2]int{p2bls24317.GetDefaultParameters().NbFullRounds, p2bls24317.GetDefaultParameters().NbPartialRounds}},
	{ecc.BW6_633, "bw6-633", ecc.BW6_633.ScalarField(), gchash.MIMC_BW6_633, func(t, rf, rp int) p2native {
		return p2wrap[frbw6633.Element, *frbw6633.Element]{p2bw6633.NewPermutation(t, rf, rp)}
	}, [2]int{p2bw6633.GetDefaultParameters().NbFullRounds, p2bw6633.GetDefaultParameters().NbPartialRounds}},
}

// fhSpec names a field hasher: MiMC, or Poseidon2 in Merkle-Damgard mode with
// given round numbers (width 2); "p2md-default" is gnark's
// std/hash/poseidon2.NewMerkleDamgardHasher (offered on bls12-377 only).
type fhSpec struct {
	Hash   string `json:"hash"` // "mimc" | "p2md" | "p2md-default"
	RF, RP int
}

func (s fhSpec) String() string {
	if s.Hash == "p2md" {
		return fmt.Sprintf("p2md[rF=%d,rP=%d]", s.RF, s.RP)
	}
	return s.Hash
}

// nativeFH returns gnark-crypto's hasher for the spec on the curve.
func (c *curveNat) nativeFH(s fhSpec) gchash.StateStorer {
	switch s.Hash {
	case "mimc":
		return c.mimc.New().(gchash.StateStorer)
	case "p2md":
		comp := c.p2(2, s.RF, s.RP).Compressor()
		return gchash.NewMerkleDamgardHasher(comp, make([]byte, comp.BlockSize()))
	case "p2md-default":
		if c.id != ecc.BLS12_377 {
			panic("p2md-default is only offered on bls12-377")
		}
		return p2bls12377.NewMerkleDamgardHasher()
	}
	panic("unknown field hasher " + s.Hash)
}

// elemBytes is the canonical big-endian fixed-size encoding gnark-crypto's hashers consume.
func elemBytes(v *big.Int, size int) []byte {
	b := make([]byte, size)
	v.FillBytes(b)
	return b
}

func hexBig(v []*big.Int) []string {
	s := make([]string, len(v))
	for i := range v {
		if v[i] == nil {
			s[i] = "<nil>"
		} else {
			s[i] = "0x" + v[i].Text(16)
		}
	}
	return s
}
