//go:build verif

// C15 — In-circuit hash functions equal their reference implementations for
// all messages.  Differential (reference-model) monitor: the real gadgets of
// gnark's std/hash/{mimc,poseidon2,sha2,sha3,ripemd160}, std/permutation/*,
// std/accumulator/merkle and std/fiat-shamir are executed in gnark's test
// engine and, for a sample, compiled and solved on both builders; a hint taps
// the digest the circuit computed; crypto/sha256, x/crypto/{sha3,ripemd160} and
// gnark-crypto's MiMC / Poseidon2 / Merkle tree / Fiat-Shamir transcript say
// what it must be.
package c15

import (
	"fmt"
	"math/big"
	"math/rand/v2"
	"os"
	"runtime/debug"
	"strconv"
	"strings"
	"testing"
	"time"

	"github.com/consensys/gnark/logger"

	"github.com/consensys/gnark/verifharness/internal/vcore"
)

func TestC15(t *testing.T) {
	logger.Disable()
	gcp := 300 // allocation-heavy big.Int work; the live heap stays small
	if v, err := strconv.Atoi(os.Getenv("VERIF_C15_GCPERCENT")); err == nil {
		gcp = v
	}
	debug.SetGCPercent(gcp)
	r := vcore.Start(t, "C15")
	m := &monitor{r: r}

	var light, heavy []func()
	light = append(light, binEngineUnits(m)...)
	heavy = append(heavy, binCompiledUnits(m)...)
	l, h := fieldUnits(m)
	light, heavy = append(light, l...), append(heavy, h...)
	l, h = merkleUnits(m)
	light, heavy = append(light, l...), append(heavy, h...)
	l, h = fsUnits(m)
	light, heavy = append(light, l...), append(heavy, h...)
	light = append(light, probeUnits(m)...)

	r.Count("work-units.test-engine", len(light))
	r.Count("work-units.compiled", len(heavy))
	// test-engine units first (goroutine fan-out verified safe: the engine's only
	// shared state are debug counters), then the memory-hungry compiled ones.
	t0 := time.Now()
	vcore.Parallel(len(light), 6, func(i int) { light[i]() })
	fmt.Printf("timing: %d test-engine units %.1fs\n", len(light), time.Since(t0).Seconds())
	t0 = time.Now()
	vcore.Parallel(len(heavy), 4, func(i int) { heavy[i]() })
	fmt.Printf("timing: %d compiled units %.1fs\n", len(heavy), time.Since(t0).Seconds())
	r.Count("tap-hint-calls", int(tapHits.Load()))

	for _, k := range binKindOrder {
		r.Require("held."+k+"/Sum.engine", 5)
		r.Require("held."+k+"/Sum.r1cs", 2)
		r.Require("held."+k+"/Sum.scs", 2)
		r.Require("held."+k+"/Sum-chunked-writes.engine", 2)
		if binKinds[k].fixed {
			r.Require("held."+k+"/FixedLengthSum.engine", 3)
		}
	}
	for _, e := range []string{"engine", "r1cs", "scs"} {
		r.Require("held.sha256/FixedLengthSum."+e, 5)
		r.Require("held.sha3-256/FixedLengthSum."+e, 4)
		r.Require("held.mimc/Sum."+e, 20)
		r.Require("held.p2md/Sum."+e, 20)
		r.Require("held.mimc/State-SetState."+e, 3)
		r.Require("held.poseidon2/Permutation-t2."+e, 3)
		r.Require("held.poseidon2/Permutation-t3."+e, 3)
		r.Require("held.fiat-shamir/mimc."+e, 3)
		r.Require("held.merkle/mimc.accepted."+e, 20)
		r.Require("held.merkle/mimc.rejected."+e, 20)
		r.Require("control.wrong-digest-rejected."+e, 5)
	}
	r.Require("held.sha256/Sum-chunked-writes.engine", 8)
	r.Require("held.sha256-block/Permute.engine", 3)
	r.Require("held.keccakf/Permute.engine", 2)
	r.Require("tap-hint-calls", 100)
	for _, cv := range curveNats {
		r.Require("digests-compared.engine@"+cv.name, 20)
	}
	r.Require("digests-compared.r1cs@bn254", 20)
	r.Require("digests-compared.scs@bn254", 20)
	r.Require("digests-compared.r1cs@bls12-377", 20)
	r.Require("digests-compared.scs@bls12-377", 20)

	r.Finish("exploration",
		"one case = one digest (or one Merkle-proof verdict) computed by the real gadget in one execution engine (gnark test engine / compiled+solved R1CS / compiled+solved sparse R1CS) on one curve, compared with the native implementation; message lengths 0..3 blocks with every length within +-2 of each block and padding boundary (thorough: every length), contents random/zeros/0xff/counter, FixedLengthSum over a (declared maximum, actual length) grid with and without WithMinimalLength, exhaustive write chunkings of short messages plus 1-byte / uneven / empty-piece chunkings of multi-block ones, SHA-256 and Keccak-f block functions on arbitrary chaining values, MiMC and Poseidon2 (Merkle-Damgard, permutation t=2,3) on every curve with Reset / Sum-Write-Sum / State-SetState sequences, Fiat-Shamir transcripts, Merkle proofs of depth 1..8 at every leaf index with one-bit-wrong variants that the native verifier rejects. distinct = (engine, curve, function, call sequence, input); non-trivial = a digest was actually produced and compared (every counted case)",
		[]string{
			"the native implementations (Go standard library, golang.org/x/crypto, gnark-crypto) are the definition of the correct digest",
			"inputs are in the documented domain: FixedLengthSum lengths satisfy minimalLength <= length <= bytes written; field-hash inputs are canonical field elements; Fiat-Shamir challenge names are 1..(element size-1) bytes",
			"one-bit-wrong Merkle proofs are only expected to fail when gnark-crypto's VerifyProof rejects them (hash collisions treated as never)",
			"the in-circuit Poseidon2 permutation has a reference only for widths 2 and 3 (gnark-crypto offers no other); wider instances are not exercised",
			"gnark's test engine is called from several goroutines; its only shared state are atomically incremented debug counters",
		})
}

// ---------------------------------------------------------------------------
// byte-oriented hashes, test engine

func binEngineUnits(m *monitor) []func() {
	r := m.r
	rng := r.Rand("bin-engine")
	bn := curveNats[0]
	var jobs []binJob
	for _, kind := range binKindOrder {
		k := binKinds[kind]
		B := k.block
		add := func(n int, content string) {
			jobs = append(jobs, binJob{kind: kind, msg: makeMsg(rng, n, content), content: content})
		}
		// --- Sum over the length grid
		first := append([]int{0, 1, 2}, B-3, B-2, B-1, B, B+1, B+2) // sponge: dsbyte and 0x80 share a byte at B-1
		if k.md {
			first = append(first, B-11, B-10, B-9, B-8, B-7, B-6) // 0x80 + 8 length bytes no longer fit from B-8 on
		}
		var lengths []int
		switch {
		// quick: the test engine costs 0.5-1.5 CPU-s per block, so the first block's
		// boundaries are swept here and the wider grid on compiled circuits
		case r.Quick() && kind == "sha256":
			lengths = first // 119, 120, 128 are in the compiled sample
		case r.Quick() && kind == "ripemd160":
			lengths = []int{0, 1, B - 10, B - 9, B - 8, B - 7, B - 1, B, B + 1}
		case r.Quick() && kind == "sha3-256":
			lengths = []int{0, 1, B - 2, B - 1, B, B + 1, 2*B - 1}
		case r.Quick() && (kind == "keccak256" || kind == "keccak512"): // the sha3-256 / sha3-512 code with another dsbyte
			lengths = []int{0, B - 1, B}
		case r.Quick():
			lengths = []int{0, B - 2, B - 1, B, B + 1}
		case kind == "sha3-512":
			lengths = allLengths(2*B + 2) // every length (smallest rate)
		case kind == "sha3-256":
			lengths = append(allLengths(B+2), boundaryLengths(k, 3)...)
		default:
			// every length of the two MD hashes is swept on compiled circuits (cheaper per block), see binCompiledUnits
			lengths = boundaryLengths(k, 3)
		}
		seenLen := map[int]bool{}
		for i, n := range lengths {
			if seenLen[n] {
				continue
			}
			seenLen[n] = true
			add(n, contents[i%len(contents)])
			if r.Thorough() && kind == "sha256" {
				add(n, contents[(i+1)%len(contents)])
			}
		}
		// --- write chunkings: exhaustive for a short message, 1-byte / uneven / with empty pieces for multi-block ones
		small := r.Pick(2, 4)
		if kind == "sha256" {
			small = r.Pick(4, 6)
		} else if kind == "sha3-256" {
			small = r.Pick(3, 5)
		}
		smalls := []int{small}
		if r.Thorough() {
			smalls = []int{1, 3, small} // every chunking of three message lengths
		}
		for _, n := range smalls {
			msg := makeMsg(rng, n, "random")
			for _, c := range compositions(n) {
				jobs = append(jobs, binJob{kind: kind, msg: msg, content: "random", chunks: c})
			}
		}
		bigs := []int{B + 1}
		if r.Thorough() {
			bigs = []int{B + 1, 2*B + 3, B - 1}
		}
		for _, n := range bigs {
			if r.Quick() && !(kind == "sha256" || kind == "sha3-256" || kind == "ripemd160") {
				continue
			}
			msg := makeMsg(rng, n, "random")
			jobs = append(jobs, binJob{kind: kind, msg: msg, content: "random", chunks: ones(n)})
			if r.Thorough() || kind == "sha256" || kind == "sha3-256" {
				jobs = append(jobs, binJob{kind: kind, msg: msg, content: "random", chunks: randomChunks(rng, n, false)})
				jobs = append(jobs, binJob{kind: kind, msg: msg, content: "random", chunks: randomChunks(rng, n, true)})
			}
			if r.Thorough() {
				jobs = append(jobs, binJob{kind: kind, msg: msg, content: "random", chunks: randomChunks(rng, n, true)})
				if n > B { // exactly one block, then the rest
					jobs = append(jobs, binJob{kind: kind, msg: msg, content: "random", chunks: []int{B, n - B}})
				}
			}
		}
		if k.fixed {
			jobs = append(jobs, fixedJobs(r, rng, kind)...)
		}
		jobs = append(jobs, aliasJobs(r, rng, kind)...)
	}
	batches := packJobs(jobs, 30)
	var units []func()
	for i, b := range batches {
		b := b
		ctl := i%3 == 0
		units = append(units, func() { m.judgeShape(engine{"engine", bn}, []batch{b}, ctl) })
	}
	// block functions on arbitrary chaining values / states
	var bj []blockJob
	nSha, nKec := r.Pick(4, 60), r.Pick(2, 30)
	for i := 0; i < nSha; i++ {
		bj = append(bj, blockJob{"sha256-block", makeMsg(rng, 96, contents[i%len(contents)])})
	}
	for i := 0; i < nKec; i++ {
		bj = append(bj, blockJob{"keccakf", makeMsg(rng, 200, contents[i%len(contents)])})
	}
	for len(bj) > 0 {
		n := min(len(bj), 15)
		b := &blockBatch{jobs: bj[:n]}
		bj = bj[n:]
		units = append(units, func() { m.judgeShape(engine{"engine", bn}, []batch{b}, true) })
	}
	// other native fields: the gadgets are generic over the field
	others := []*curveNat{curveNats[1]}
	if r.Thorough() {
		others = []*curveNat{curveNats[1], curveNats[5]}
	}
	for _, cv := range others {
		cv := cv
		rng := r.Rand("bin-engine-" + cv.name)
		var jobs []binJob
		for _, kind := range binKindOrder {
			k := binKinds[kind]
			B := k.block
			lengths := []int{0, B}
			if r.Thorough() {
				lengths = boundaryLengths(k, 1)
			}
			for i, n := range lengths {
				content := contents[i%len(contents)]
				jobs = append(jobs, binJob{kind: kind, msg: makeMsg(rng, n, content), content: content})
			}
			if k.fixed && (r.Thorough() || kind == "sha256") {
				msg := makeMsg(rng, B+1, "random")
				for _, n := range []int{0, B + 1, B - 9, B - 1, B}[:r.Pick(2, 5)] {
					jobs = append(jobs, binJob{kind: kind, msg: msg, content: "random", fixed: true, length: n})
				}
			}
		}
		for _, b := range packJobs(jobs, 30) {
			b := b
			units = append(units, func() { m.judgeShape(engine{"engine", cv}, []batch{b}, true) })
		}
	}
	return units
}

// pickLens keeps 0, maxLen and the boundary lengths that fit, thinned to about n.
func pickLens(rng *rand.Rand, k *binKind, minLen, maxLen, n int) []int {
	seen := map[int]bool{}
	var must, rest []int
	addTo := func(dst *[]int, v int) {
		if v >= minLen && v <= maxLen && !seen[v] {
			seen[v] = true
			*dst = append(*dst, v)
		}
	}
	for _, v := range []int{minLen, maxLen} {
		addTo(&must, v)
	}
	for _, v := range append([]int{maxLen - 1, minLen + 1}, boundaryLengths(k, 3)...) {
		addTo(&rest, v)
	}
	for i := 0; i < 4; i++ {
		if maxLen > minLen {
			addTo(&rest, minLen+rng.IntN(maxLen-minLen+1))
		}
	}
	rng.Shuffle(len(rest), func(i, j int) { rest[i], rest[j] = rest[j], rest[i] })
	out := must
	for _, v := range rest {
		if len(out) >= n {
			break
		}
		out = append(out, v)
	}
	sortInts(out)
	return out
}

// fixedJobs: the (declared maximum length, actual length) grid of FixedLengthSum.
func fixedJobs(r *vcore.Run, rng *rand.Rand, kind string) []binJob {
	k := binKinds[kind]
	B := k.block
	type grid struct {
		maxLen int
		n      int // number of actual lengths; -1 = every length
	}
	var grids []grid
	switch {
	case r.Quick() && kind == "sha256":
		grids = []grid{{0, -1}, {1, -1}, {55, 3}, {56, 4}, {64, 4}, {120, 2}}
	case r.Quick() && kind == "sha3-256":
		grids = []grid{{0, -1}, {B - 1, 3}, {B, 4}, {B + 1, 2}}
	case r.Quick():
		grids = []grid{{B, 3}}
	case kind == "sha256":
		grids = []grid{{0, -1}, {1, -1}, {2, -1}, {55, -1}, {56, 30}, {64, 30}, {65, 20}, {119, 20}, {120, 20}, {128, 20}, {183, 12}}
	default:
		grids = []grid{{0, -1}, {1, -1}, {B - 1, 12}, {B, 12}, {B + 1, 12}, {2 * B, 10}, {2*B + 1, 10}}
		if kind == "sha3-512" {
			grids[4].n = -1 // every actual length for one declared maximum
		}
	}
	var jobs []binJob
	for gi, g := range grids {
		content := contents[gi%len(contents)]
		msg := makeMsg(rng, g.maxLen, content)
		lens := allLengths(g.maxLen)
		if g.n >= 0 {
			lens = pickLens(rng, k, 0, g.maxLen, g.n)
		}
		for _, n := range lens {
			jobs = append(jobs, binJob{kind: kind, msg: msg, content: content, fixed: true, length: n})
		}
	}
	// WithMinimalLength: lower bound on the actual length, away from and on the boundaries
	if r.Thorough() && k.md {
		msg := makeMsg(rng, 64, "random")
		for _, n := range pickLens(rng, k, 1, 64, 6) {
			jobs = append(jobs, binJob{kind: kind, msg: msg, content: "random", fixed: true, length: n, minLen: 1})
		}
	}
	var ms, offs []int
	switch {
	case r.Quick() && kind == "sha256":
		ms, offs = []int{55, 56, 64}, []int{1}
	case r.Quick() && (kind == "sha3-256" || kind == "sha3-512"):
		ms, offs = []int{B - 1, B}, []int{1}
	case r.Quick():
		ms, offs = []int{B - 1}, []int{1}
	case kind == "sha256": // the full grid with two more blocks runs on compiled circuits
		ms, offs = []int{54, 55, 56, 63, 64, 65, 120}, []int{1, 64}
	case kind == "sha3-256" || kind == "sha3-512":
		ms, offs = []int{B - 10, B - 9, B - 8, B - 2, B - 1, B, B + 1, 2*B - 1, 2 * B, 2*B + 1}, []int{1, B}
	default:
		ms, offs = []int{B - 10, B - 9, B - 8, B - 1, B, B + 1}, []int{1}
	}
	jobs = append(jobs, minLenBoundaryJobs(rng, kind, ms, offs)...)
	return jobs
}

// minLenBoundaryJobs: WithMinimalLength(m) with m on and next to block / padding
// boundaries, declared maximum m+off, actual length m, m+1 and the maximum.
func minLenBoundaryJobs(rng *rand.Rand, kind string, ms, offs []int) []binJob {
	var jobs []binJob
	for _, m := range ms {
		if m < 1 {
			continue
		}
		for _, off := range offs {
			maxLen := m + off
			msg := makeMsg(rng, maxLen, "random")
			seen := map[int]bool{}
			for _, n := range []int{m, m + 1, maxLen} {
				if n <= maxLen && !seen[n] {
					seen[n] = true
					jobs = append(jobs, binJob{kind: kind, msg: msg, content: "random", fixed: true, length: n, minLen: m})
				}
			}
		}
	}
	return jobs
}

// seqJob builds one caller-buffer job: buf of n random bytes, "other" differing
// from what buf holds behind position k in every byte.
func seqJob(rng *rand.Rand, kind, seq string, k, n, olen int) binJob {
	buf := makeMsg(rng, n, "random")
	j := binJob{kind: kind, msg: buf, content: "random", seq: seq, k: k}
	if seq != "reuse" {
		j.other = makeMsg(rng, olen, "random")
		for i := range j.other {
			if k+i < n {
				j.other[i] = ^buf[k+i]
			}
		}
	}
	return j
}

// aliasJobs: does the hasher keep (and later write through) the caller's slices?
// k = length of the first Write, around the block / padding boundaries.
func aliasJobs(r *vcore.Run, rng *rand.Rand, kind string) []binJob {
	k := binKinds[kind]
	B := k.block
	var jobs []binJob
	if r.Quick() {
		switch kind {
		case "sha256":
			jobs = append(jobs, seqJob(rng, kind, "alias", B-1, B+7, 5), seqJob(rng, kind, "reuse", 7, 20, 0))
		case "ripemd160", "sha3-256":
			jobs = append(jobs, seqJob(rng, kind, "alias", B-1, B+7, 5))
		default:
			jobs = append(jobs, seqJob(rng, kind, "alias-reset", 1, 9, 5))
		}
		return jobs
	}
	ks := []int{0, 1, B - 2, B - 1, B, B + 1}
	if k.md {
		ks = []int{0, 1, B - 9, B - 8, B - 1, B, B + 1}
	}
	for i, kk := range ks {
		switch i % 3 {
		case 0:
			jobs = append(jobs, seqJob(rng, kind, "alias", kk, kk+8, 5))
		case 1:
			jobs = append(jobs, seqJob(rng, kind, "alias-reset", kk, kk+12, 12)) // fills the spare capacity exactly
		case 2:
			jobs = append(jobs, seqJob(rng, kind, "alias-sum", kk, kk+80, 3)) // room for Sum's own padding
		}
	}
	jobs = append(jobs, seqJob(rng, kind, "alias", B-1, 2*B+5, B+2)) // second Write crosses a block
	jobs = append(jobs, seqJob(rng, kind, "reuse", 7, 20, 0), seqJob(rng, kind, "reuse", B, 2*B+3, 0), seqJob(rng, kind, "reuse", B-1, B+5, 0))
	return jobs
}

// ---------------------------------------------------------------------------
// byte-oriented hashes, compiled on both builders

func binCompiledUnits(m *monitor) []func() {
	r := m.r
	var units []func()
	type shapeSet struct {
		name string
		make func(rng *rand.Rand, variant int) batch
		n    int // number of assignments solved on the one compiled circuit
	}
	sumShape := func(kind string, lens []int, chunked int) func(*rand.Rand, int) batch {
		return func(rng *rand.Rand, v int) batch {
			var jobs []binJob
			for i, n := range lens {
				content := contents[(i+v)%len(contents)]
				jobs = append(jobs, binJob{kind: kind, msg: makeMsg(rng, n, content), content: content})
			}
			if chunked > 0 {
				crng := rand.New(rand.NewPCG(uint64(chunked), 15)) // the chunking is part of the shape
				jobs = append(jobs, binJob{kind: kind, msg: makeMsg(rng, chunked, "random"), content: "random", chunks: randomChunks(crng, chunked, true)})
			}
			return &binBatch{jobs: jobs}
		}
	}
	fixedShape := func(kind string, maxLen, minLen int, lens []int) func(*rand.Rand, int) batch {
		return func(rng *rand.Rand, v int) batch {
			content := contents[v%len(contents)]
			return &binBatch{jobs: []binJob{{kind: kind, msg: makeMsg(rng, maxLen, content), content: content, fixed: true, length: lens[v%len(lens)], minLen: minLen}}}
		}
	}
	rangeInts := func(a, b int) []int {
		var o []int
		for i := a; i <= b; i++ {
			o = append(o, i)
		}
		return o
	}
	type seqT struct {
		seq        string
		k, n, olen int
	}
	seqShape := func(kind string, ts []seqT) func(*rand.Rand, int) batch {
		return func(rng *rand.Rand, v int) batch {
			var jobs []binJob
			for _, t := range ts {
				jobs = append(jobs, seqJob(rng, kind, t.seq, t.k, t.n, t.olen))
			}
			return &binBatch{jobs: jobs}
		}
	}
	// WithMinimalLength(m), declared maxima m+off, actual length m / m+1 / maximum by assignment
	minShape := func(kind string, m int, offs []int) func(*rand.Rand, int) batch {
		return func(rng *rand.Rand, v int) batch {
			var jobs []binJob
			for _, off := range offs {
				maxLen := m + off
				n := []int{m, min(m+1, maxLen), maxLen}[v%3]
				jobs = append(jobs, binJob{kind: kind, msg: makeMsg(rng, maxLen, "random"), content: "random", fixed: true, length: n, minLen: m})
			}
			return &binBatch{jobs: jobs}
		}
	}
	nData := r.Pick(2, 6)
	sets := []shapeSet{
		{"sha256", sumShape("sha256", []int{0, 55, 56, 64, 119, 120, 128}, 65), nData},
		{"ripemd160", sumShape("ripemd160", []int{0, 55, 56, 64, 119}, 65), nData},
		{"sha3-256", sumShape("sha3-256", []int{0, 135, 136}, 0), nData},
		{"sha3-384", sumShape("sha3-384", []int{102, 103}, 0), nData},
		{"sha3-512", sumShape("sha3-512", []int{70, 71, 72}, 0), nData},
		{"keccak256", sumShape("keccak256", []int{134, 135}, 137), nData},
		{"keccak512", sumShape("keccak512", []int{0, 71}, 0), nData},
	}
	var l []int
	if r.Quick() {
		l = []int{0, 1, 55, 56, 63, 64, 65, 119, 120}
	} else {
		l = rangeInts(0, 120)
	}
	sets = append(sets, shapeSet{"sha256-fixed", fixedShape("sha256", 120, 0, l), len(l)})
	if r.Quick() {
		l = []int{64, 119, 120}
	} else {
		l = rangeInts(64, 120)
	}
	sets = append(sets, shapeSet{"sha256-fixed-min", fixedShape("sha256", 120, 64, l), len(l)})
	if r.Quick() {
		l = []int{0, 1, 134, 135, 136, 137}
	} else {
		l = rangeInts(0, 137)
	}
	sets = append(sets, shapeSet{"sha3-256-fixed", fixedShape("sha3-256", 137, 0, l), len(l)})
	if r.Thorough() {
		sets = append(sets,
			shapeSet{"keccak256-fixed", fixedShape("keccak256", 136, 0, rangeInts(0, 136)), 137},
			shapeSet{"sha3-512-fixed", fixedShape("sha3-512", 73, 0, rangeInts(0, 73)), 74},
			shapeSet{"sha3-384-fixed-min", fixedShape("sha3-384", 105, 104, []int{104, 105}), 2},
			shapeSet{"keccak512-fixed", fixedShape("keccak512", 72, 0, []int{0, 70, 71, 72}), 4},
			shapeSet{"sha256-more", sumShape("sha256", []int{1, 54, 57, 63, 65, 120, 128}, 0), 3},
			shapeSet{"ripemd160-more", sumShape("ripemd160", []int{1, 54, 57, 63, 65, 119, 120}, 0), 3},
			shapeSet{"sha3-256-more", sumShape("sha3-256", []int{1, 134, 137, 271, 272}, 0), 2},
		)
	}
	// caller-buffer sequences on compiled circuits
	sets = append(sets,
		shapeSet{"sha256-alias", seqShape("sha256", []seqT{{"alias", 64, 72, 5}, {"alias-sum", 55, 135, 3}, {"reuse", 64, 130, 0}, {"alias-reset", 0, 12, 12}}), 2},
		shapeSet{"ripemd160-alias", seqShape("ripemd160", []seqT{{"alias-reset", 55, 63, 8}, {"alias-sum", 1, 81, 3}, {"alias", 56, 70, 9}}), 2},
		shapeSet{"sha3-384-alias", seqShape("sha3-384", []seqT{{"alias", 1, 9, 5}}), 2},
	)
	if r.Thorough() {
		sets = append(sets,
			shapeSet{"sha3-512-alias", seqShape("sha3-512", []seqT{{"alias", 71, 80, 5}, {"alias-reset", 72, 84, 12}, {"reuse", 71, 75, 0}}), 2},
			shapeSet{"keccak256-alias", seqShape("keccak256", []seqT{{"alias-sum", 135, 140, 3}}), 2},
		)
	}
	// WithMinimalLength on the boundaries; each circuit is solved for length = m, m+1, maximum
	{
		ms, offs := []int{55, 56, 63, 64, 65, 120}, []int{1, 64}
		if r.Thorough() {
			ms, offs = []int{54, 55, 56, 63, 64, 65, 118, 119, 120, 127, 128, 129, 183, 184}, []int{1, 64, 128}
		}
		for _, mm := range ms {
			sets = append(sets, shapeSet{fmt.Sprintf("sha256-min%d", mm), minShape("sha256", mm, offs), 3})
		}
		sets = append(sets, shapeSet{"sha3-512-min71", minShape("sha3-512", 71, []int{1}), 2})
		if r.Thorough() {
			sets = append(sets,
				shapeSet{"sha3-512-min72", minShape("sha3-512", 72, []int{1, 72, 144}), 3},
				shapeSet{"sha3-512-min71b", minShape("sha3-512", 71, []int{72, 144}), 3},
				shapeSet{"sha3-512-min62", minShape("sha3-512", 62, []int{1, 72}), 3},
				shapeSet{"keccak256-min136", minShape("keccak256", 136, []int{1, 136}), 3},
				shapeSet{"sha3-384-min103", minShape("sha3-384", 103, []int{1, 104}), 3},
				shapeSet{"sha3-256-min135", minShape("sha3-256", 135, []int{1}), 2},
				shapeSet{"keccak512-min73", minShape("keccak512", 73, []int{1}), 2},
			)
		}
	}
	blockShape := func(rng *rand.Rand, v int) batch {
		c := contents[v%len(contents)]
		return &blockBatch{jobs: []blockJob{{"sha256-block", makeMsg(rng, 96, c)}, {"keccakf", makeMsg(rng, 200, c)}}}
	}
	sets = append(sets, shapeSet{"blocks", blockShape, r.Pick(2, 6)})

	curves := []*curveNat{curveNats[0]}
	for ci, cv := range curves {
		for si, s := range sets {
			builders := []string{"r1cs", "scs"}
			if strings.Contains(s.name, "-min") && s.name != "sha256-fixed-min" {
				builders = builders[si%2 : si%2+1] // the boundary grid of minimal lengths alternates between the builders
			}
			for _, en := range builders {
				cv, s, en := cv, s, en
				_ = ci
				units = append(units, func() {
					rng := m.r.Rand("bin-compiled/" + cv.name + "/" + s.name) // same data on both builders
					var bs []batch
					for v := 0; v < s.n; v++ {
						bs = append(bs, s.make(rng, v))
					}
					m.judgeShape(engine{en, cv}, bs, true)
				})
			}
		}
	}
	// every message length of the two Merkle-Damgard hashes, swept on compiled
	// circuits (cheaper per block than the test engine), builders alternating,
	// three contents per circuit
	if r.Thorough() {
		cv := curveNats[0]
		for _, kind := range []string{"sha256", "ripemd160"} {
			top := 3*64 + 2
			if kind == "ripemd160" {
				top = 2*64 + 2
			}
			var groups [][]int
			var cur []int
			cost := 0
			for n := 0; n <= top; n++ {
				c := n/64 + 1
				if n%64 >= 56 {
					c++
				}
				if cost+c > 36 && len(cur) > 0 {
					groups = append(groups, cur)
					cur, cost = nil, 0
				}
				cur = append(cur, n)
				cost += c
			}
			groups = append(groups, cur)
			for gi, g := range groups {
				kind, g, gi := kind, g, gi
				en := []string{"r1cs", "scs"}[gi%2]
				units = append(units, func() {
					rng := m.r.Rand(fmt.Sprintf("bin-sweep/%s/%d", kind, gi))
					mk := sumShape(kind, g, 0)
					var bs []batch
					for v := 0; v < 3; v++ {
						bs = append(bs, mk(rng, v+gi))
					}
					m.judgeShape(engine{en, cv}, bs, true)
				})
			}
		}
	}
	// another field for the byte-oriented gadgets (thorough)
	if r.Thorough() {
		for _, cv := range []*curveNat{curveNats[1], curveNats[2]} {
			for _, s := range []shapeSet{
				{"sha256", sumShape("sha256", []int{0, 55, 56}, 0), 2},
				{"ripemd160", sumShape("ripemd160", []int{55, 56}, 0), 2},
				{"keccak256", sumShape("keccak256", []int{135}, 0), 2},
				{"sha256-fixed", fixedShape("sha256", 64, 0, []int{0, 55, 56, 64}), 4},
			} {
				for _, en := range []string{"r1cs", "scs"} {
					cv, s, en := cv, s, en
					units = append(units, func() {
						rng := m.r.Rand("bin-compiled/" + cv.name + "/" + s.name)
						var bs []batch
						for v := 0; v < s.n; v++ {
							bs = append(bs, s.make(rng, v))
						}
						m.judgeShape(engine{en, cv}, bs, true)
					})
				}
			}
		}
	}
	return units
}

// ---------------------------------------------------------------------------
// field-oriented hashes

func fieldSpecs(cv *curveNat) []fhSpec {
	s := []fhSpec{{Hash: "mimc"}, {Hash: "p2md", RF: cv.p2default[0], RP: cv.p2default[1]}, {Hash: "p2md", RF: 4, RP: 3}}
	if cv.name == "bls12-377" {
		s = append(s, fhSpec{Hash: "p2md-default"})
	}
	return s
}

// fieldJobs: the structure depends only on (spec, tier); the contents on rng.
func fieldJobs(r *vcore.Run, cv *curveNat, spec fhSpec, rng *rand.Rand, variant int) []fJob {
	p := cv.field
	kinds := []string{"random", "special", "zeros", "ones", "counter"}
	var jobs []fJob
	ns := []int{0, 1, 2, 3, 5, 8}
	if r.Thorough() {
		ns = []int{0, 1, 2, 3, 4, 5, 6, 7, 8, 9, 10, 11, 12, 17}
	}
	for i, n := range ns {
		jobs = append(jobs, fJob{spec: spec, mode: "plain", msg: fieldElems(rng, p, n, kinds[(i+variant)%len(kinds)])})
		jobs = append(jobs, fJob{spec: spec, mode: "plain", msg: fieldElems(rng, p, n, "random")})
	}
	small := r.Pick(4, 5)
	msg := fieldElems(rng, p, small, "random")
	for _, c := range compositions(small) {
		jobs = append(jobs, fJob{spec: spec, mode: "plain", msg: msg, chunks: c})
	}
	jobs = append(jobs, fJob{spec: spec, mode: "plain", msg: fieldElems(rng, p, 7, "special"), chunks: []int{0, 3, 0, 0, 4, 0}})
	for _, n := range []int{0, 2, 3} {
		for _, junk := range []int{1, 2, 3} {
			jobs = append(jobs, fJob{spec: spec, mode: "reset", msg: fieldElems(rng, p, n, "random"), junk: junk})
		}
	}
	for _, n := range []int{2, 5} {
		for _, split := range []int{0, 1, n} {
			jobs = append(jobs, fJob{spec: spec, mode: "stream", msg: fieldElems(rng, p, n, "random"), split: split})
		}
	}
	for _, split := range []int{0, 2} {
		jobs = append(jobs, fJob{spec: spec, mode: "alias", msg: fieldElems(rng, p, 6, "random"), split: split})
	}
	if spec.Hash == "mimc" {
		for _, split := range []int{0, 2, 4} {
			jobs = append(jobs, fJob{spec: spec, mode: "state", msg: fieldElems(rng, p, 4, kinds[variant%2]), split: split})
		}
	}
	if spec.Hash == "p2md" {
		for _, w := range []int{2, 3} {
			for i := 0; i < 3; i++ {
				jobs = append(jobs, fJob{spec: spec, mode: "perm", width: w, msg: fieldElems(rng, p, w, kinds[(i+variant)%len(kinds)])})
			}
		}
		// other round numbers, width 3 as used for sponges
		jobs = append(jobs, fJob{spec: fhSpec{Hash: "p2md", RF: 8, RP: 56}, mode: "perm", width: 3, msg: fieldElems(rng, p, 3, "random")})
		jobs = append(jobs, fJob{spec: fhSpec{Hash: "p2md", RF: 2, RP: 0}, mode: "perm", width: 2, msg: fieldElems(rng, p, 2, "random")})
	}
	return jobs
}

func fieldUnits(m *monitor) (light, heavy []func()) {
	r := m.r
	nCompiledCurves := r.Pick(3, 7)
	nData := r.Pick(2, 8)
	for ci, cv := range curveNats {
		for _, spec := range fieldSpecs(cv) {
			cv, spec := cv, spec
			mk := func(label string) []batch {
				rng := r.Rand("field/" + cv.name + "/" + spec.String() + "/" + label)
				var bs []batch
				for v := 0; v < nData; v++ {
					bs = append(bs, newFBatch(cv, fieldJobs(r, cv, spec, rng, v)))
				}
				return bs
			}
			light = append(light, func() { m.judgeShape(engine{"engine", cv}, mk("data"), true) })
			if ci < nCompiledCurves {
				for _, en := range []string{"r1cs", "scs"} {
					en := en
					heavy = append(heavy, func() { m.judgeShape(engine{en, cv}, mk("data"), true) })
				}
			}
		}
	}
	return
}

// ---------------------------------------------------------------------------
// Merkle proofs

func merkleUnits(m *monitor) (light, heavy []func()) {
	r := m.r
	type cfg struct {
		cv      *curveNat
		spec    fhSpec
		depths  []int
		every   bool // every leaf index (else a sample of 6 per depth)
		engines []string
	}
	all := []int{1, 2, 3, 4, 5, 6, 7, 8}
	cfgs := []cfg{
		{curveNats[0], fhSpec{Hash: "mimc"}, all, true, []string{"engine", "r1cs", "scs"}},
		{curveNats[1], fhSpec{Hash: "mimc"}, []int{1, 3, 8}, false, []string{"engine", "r1cs", "scs"}},
		{curveNats[1], fhSpec{Hash: "p2md-default"}, []int{1, 2, 3, 4}, true, []string{"engine", "r1cs", "scs"}},
		{curveNats[2], fhSpec{Hash: "mimc"}, []int{1, 5}, false, []string{"engine", "scs"}},
		{curveNats[0], fhSpec{Hash: "p2md", RF: curveNats[0].p2default[0], RP: curveNats[0].p2default[1]}, []int{1, 2, 3}, true, []string{"engine", "r1cs"}},
	}
	if r.Thorough() {
		for _, cv := range curveNats[3:] {
			cfgs = append(cfgs, cfg{cv, fhSpec{Hash: "mimc"}, []int{1, 2, 4, 8}, false, []string{"engine", "r1cs", "scs"}})
		}
		cfgs[1].depths, cfgs[1].every = all, true
	}
	for _, c := range cfgs {
		for _, depth := range c.depths {
			for _, en := range c.engines {
				c, depth, en := c, depth, en
				u := func() { merkleDepth(m, engine{en, c.cv}, c.spec, depth, c.every) }
				if en == "engine" {
					light = append(light, u)
				} else {
					heavy = append(heavy, u)
				}
			}
		}
	}
	return
}

func merkleDepth(m *monitor, e engine, spec fhSpec, depth int, every bool) {
	r := m.r
	cv := e.curve
	class := "merkle/" + spec.Hash
	if os.Getenv("VERIF_C15_TIMING") != "" {
		t0 := time.Now()
		defer func() {
			fmt.Printf("timing: %-14s %-40s depth=%d %.2fs\n", e, class, depth, time.Since(t0).Seconds())
		}()
	}
	run, _, err := e.prepare(merkleShape(spec, depth))
	if err != nil {
		r.Eval(fmt.Sprintf("%s|merkle|%s|%d", e, spec, depth), true)
		r.Violation("compile-error/"+class+"/"+e.String(), "Merkle circuit does not compile: "+firstLine(err), map[string]any{"curve": cv.name, "depth": depth, "error": err.Error()})
		return
	}
	// same trees for every engine
	rng := r.Rand(fmt.Sprintf("merkle/%s/%s/%d", cv.name, spec, depth))
	var idxs []uint64
	if every {
		for i := uint64(0); i < 1<<depth; i++ {
			idxs = append(idxs, i)
		}
	} else {
		idxs = []uint64{0, 1<<depth - 1}
		for len(idxs) < min(6, 1<<depth) {
			x := rng.Uint64N(1 << depth)
			dup := false
			for _, y := range idxs {
				dup = dup || x == y
			}
			if !dup {
				idxs = append(idxs, x)
			}
		}
	}
	for _, idx := range idxs {
		mc, err := buildMerkle(cv, spec, rng, depth, idx)
		if err != nil {
			r.Inconclusive("native-merkle-build")
			continue
		}
		if !mc.nativeVerify(cv, spec, depth) {
			r.Inconclusive("native-merkle-rejects-own-proof")
			continue
		}
		key := fmt.Sprintf("merkle|%s|%d|%d|%s", spec, depth, idx, mc.root.Text(16))
		m.judgeSat(e, run, mc.assign(spec), true, class, key+"|valid", mc.rep(cv, spec, depth, "none"))
		// one-bit-wrong variants
		type edit struct {
			name string
			f    func(w *merkleCase) string
		}
		edits := []edit{
			{"leaf-data-bit", func(w *merkleCase) string {
				x, b := flipBit(rng, w.path[0], cv.field)
				w.path[0] = x
				return fmt.Sprintf("path[0] bit %d", b)
			}},
			{"sibling-bit", func(w *merkleCase) string {
				l := 1 + rng.IntN(depth)
				x, b := flipBit(rng, w.path[l], cv.field)
				w.path[l] = x
				return fmt.Sprintf("path[%d] bit %d", l, b)
			}},
			{"root-bit", func(w *merkleCase) string {
				x, b := flipBit(rng, w.root, cv.field)
				w.root = x
				return fmt.Sprintf("root bit %d", b)
			}},
			{"index-bit", func(w *merkleCase) string {
				b := rng.IntN(depth)
				w.index ^= 1 << b
				return fmt.Sprintf("leaf index bit %d", b)
			}},
			{"index-out-of-range", func(w *merkleCase) string {
				w.index += 1 << depth
				return "leaf index + 2^depth"
			}},
		}
		chosen := edits
		if r.Quick() {
			a := rng.IntN(len(edits))
			b := (a + 1 + rng.IntN(len(edits)-1)) % len(edits)
			chosen = []edit{edits[a], edits[b]}
		}
		for _, ed := range chosen {
			w := mc.clone()
			what := ed.name + ": " + ed.f(w)
			if w.nativeVerify(cv, spec, depth) {
				// e.g. sibling equal to the running hash: the native verifier accepts, nothing to demand
				r.Count("merkle.edit-still-valid-natively(skipped)", 1)
				continue
			}
			m.judgeSat(e, run, w.assign(spec), false, class, key+"|"+what, w.rep(cv, spec, depth, what))
			r.Count("merkle.wrong."+ed.name, 1)
		}
	}
}

// ---------------------------------------------------------------------------
// Fiat-Shamir transcripts

func fsUnits(m *monitor) (light, heavy []func()) {
	r := m.r
	nCompiledCurves := r.Pick(3, 7)
	nData := r.Pick(2, 6)
	for ci, cv := range curveNats {
		specs := []fhSpec{{Hash: "mimc"}, {Hash: "p2md", RF: cv.p2default[0], RP: cv.p2default[1]}}
		if cv.name == "bls12-377" {
			specs = append(specs, fhSpec{Hash: "p2md-default"})
		}
		size := (cv.field.BitLen() + 7) / 8
		long := "a-long-challenge-name-of-element-size-minus-one-bytes............................................"[:size-1]
		shapes := []struct {
			names  []string
			nbinds []int
		}{
			{[]string{"a"}, []int{1}},
			{[]string{"gamma"}, []int{0}},
			{[]string{"alpha", "beta", "gamma"}, []int{2, 0, 3}},
			{[]string{"x", long, "\x00", "zeta"}, []int{1, 4, 2, 1}},
			{[]string{"beta", "alpha"}, []int{5, 1}},
		}
		for _, spec := range specs {
			for si, sh := range shapes {
				cv, spec, sh := cv, spec, sh
				mk := func() []batch {
					rng := r.Rand(fmt.Sprintf("fs/%s/%s/%d", cv.name, spec, si))
					var bs []batch
					for v := 0; v < nData; v++ {
						job := fsJob{spec: spec, names: sh.names}
						for _, n := range sh.nbinds {
							job.binds = append(job.binds, fieldElems(rng, cv.field, n, []string{"random", "special"}[v%2]))
						}
						bs = append(bs, newFSBatch(cv, job))
					}
					return bs
				}
				light = append(light, func() { m.judgeShape(engine{"engine", cv}, mk(), true) })
				if ci < nCompiledCurves {
					for _, en := range []string{"r1cs", "scs"} {
						en := en
						heavy = append(heavy, func() { m.judgeShape(engine{en, cv}, mk(), true) })
					}
				}
			}
		}
	}
	return
}

var _ = big.NewInt
