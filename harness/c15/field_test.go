//go:build verif

package c15

// Field-oriented hash gadgets: MiMC (Miyaguchi-Preneel), Poseidon2 in
// Merkle-Damgard mode, the Poseidon2 permutation (widths 2 and 3), MiMC state
// export / import, Fiat-Shamir transcripts, Merkle proofs.

import (
	"bytes"
	"fmt"
	"math/big"
	"math/rand/v2"

	"github.com/consensys/gnark-crypto/accumulator/merkletree"
	gcfs "github.com/consensys/gnark-crypto/fiat-shamir"
	"github.com/consensys/gnark/frontend"
	"github.com/consensys/gnark/std/accumulator/merkle"
	fiatshamir "github.com/consensys/gnark/std/fiat-shamir"
	"github.com/consensys/gnark/std/hash"
	"github.com/consensys/gnark/std/hash/mimc"
	hposeidon2 "github.com/consensys/gnark/std/hash/poseidon2"
	"github.com/consensys/gnark/std/permutation/poseidon2"
)

func newFieldHasher(api frontend.API, s fhSpec) (hash.FieldHasher, error) {
	switch s.Hash {
	case "mimc":
		h, err := mimc.NewMiMC(api)
		if err != nil {
			return nil, err
		}
		return &h, nil
	case "p2md":
		p, err := poseidon2.NewPoseidon2FromParameters(api, 2, s.RF, s.RP)
		if err != nil {
			return nil, err
		}
		return hash.NewMerkleDamgardHasher(api, p, 0), nil
	case "p2md-default":
		return hposeidon2.NewMerkleDamgardHasher(api)
	}
	return nil, fmt.Errorf("unknown field hasher %q", s.Hash)
}

type fJob struct {
	spec   fhSpec
	mode   string // plain | reset | stream | state | perm
	msg    []*big.Int
	chunks []int // sizes of the Write calls (plain); nil = one Write
	split  int   // stream/state: position of the intermediate Sum / State
	junk   int   // reset: number of elements written before Reset
	width  int   // perm: permutation width (2 or 3); spec.RF/RP are the round numbers
}

func (j *fJob) classOf() string {
	switch j.mode {
	case "plain":
		if j.chunks != nil {
			return j.spec.Hash + "/Sum-chunked-writes"
		}
		return j.spec.Hash + "/Sum"
	case "reset":
		return j.spec.Hash + "/Reset-then-Sum"
	case "stream":
		return j.spec.Hash + "/Sum-Write-Sum"
	case "state":
		return j.spec.Hash + "/State-SetState"
	case "alias":
		return j.spec.Hash + "/Write-subslice-Write-other+second-hasher"
	case "perm":
		return fmt.Sprintf("poseidon2/Permutation-t%d", j.width)
	}
	return j.mode
}

func (j *fJob) nOut() int {
	switch j.mode {
	case "stream", "alias":
		return 2
	case "state":
		return 3
	case "perm":
		return j.width
	}
	return 1
}

type fCircuit struct {
	Tag  frontend.Variable
	In   [][]frontend.Variable
	Exp  [][]frontend.Variable
	jobs []fJob
}

func (c *fCircuit) Define(api frontend.API) error {
	res := make([][]frontend.Variable, len(c.jobs))
	for i := range c.jobs {
		j := &c.jobs[i]
		in := c.In[i]
		if j.mode == "perm" {
			p, err := poseidon2.NewPoseidon2FromParameters(api, j.width, j.spec.RF, j.spec.RP)
			if err != nil {
				return err
			}
			buf := append([]frontend.Variable{}, in...)
			if err := p.Permutation(buf); err != nil {
				return err
			}
			res[i] = buf
			tap(api, c.Tag, i, res[i]...)
			continue
		}
		h, err := newFieldHasher(api, j.spec)
		if err != nil {
			return err
		}
		switch j.mode {
		case "plain":
			if j.chunks == nil {
				h.Write(in...)
			} else {
				off := 0
				for _, n := range j.chunks {
					h.Write(in[off : off+n]...)
					off += n
				}
				if off != len(in) {
					return fmt.Errorf("chunking does not cover the message")
				}
			}
			res[i] = []frontend.Variable{h.Sum()}
		case "reset":
			for k := 0; k < j.junk; k++ {
				var base frontend.Variable = 7
				if len(in) > 0 {
					base = in[k%len(in)]
				}
				h.Write(api.Add(base, k+1))
			}
			if j.junk%2 == 1 {
				h.Sum() // also dirty the chaining value
			}
			h.Reset()
			h.Write(in...)
			res[i] = []frontend.Variable{h.Sum()}
		case "stream":
			h.Write(in[:j.split]...)
			s1 := h.Sum()
			h.Write(in[j.split:]...)
			s2 := h.Sum()
			res[i] = []frontend.Variable{s1, s2}
		case "alias":
			// Write(in[:k]...) hands the hasher a slice with spare capacity; a second
			// Write of other values must not reach the caller's slice
			h.Write(in[:j.split]...)
			var other []frontend.Variable
			for k := j.split; k < len(in) && k < j.split+3; k++ {
				other = append(other, api.Add(in[k], 1))
			}
			h.Write(other...)
			d1 := h.Sum()
			h2, err := newFieldHasher(api, j.spec)
			if err != nil {
				return err
			}
			h2.Write(in...)
			res[i] = []frontend.Variable{d1, h2.Sum()}
		case "state":
			ss, ok := h.(hash.StateStorer)
			if !ok {
				return fmt.Errorf("%s is no StateStorer", j.spec.Hash)
			}
			ss.Write(in[:j.split]...)
			st := ss.State()
			if len(st) != 1 {
				return fmt.Errorf("state of %d elements", len(st))
			}
			h2, err := newFieldHasher(api, j.spec)
			if err != nil {
				return err
			}
			if err := h2.(hash.StateStorer).SetState(st); err != nil {
				return err
			}
			h2.Write(in[j.split:]...)
			d2 := h2.Sum()
			// the exporting hasher must remain usable
			ss.Write(in[j.split:]...)
			d1 := ss.Sum()
			res[i] = []frontend.Variable{st[0], d2, d1}
		default:
			return fmt.Errorf("unknown mode")
		}
		tap(api, c.Tag, i, res[i]...)
	}
	for i := range res {
		if len(res[i]) != len(c.Exp[i]) {
			return fmt.Errorf("output count")
		}
		for k := range res[i] {
			api.AssertIsEqual(res[i][k], c.Exp[i][k])
		}
	}
	return nil
}

type fBatch struct {
	cv   *curveNat
	jobs []fJob
	exp  [][]*big.Int
}

func newFBatch(cv *curveNat, jobs []fJob) *fBatch {
	b := &fBatch{cv: cv, jobs: jobs, exp: make([][]*big.Int, len(jobs))}
	for i := range jobs {
		b.exp[i] = nativeField(cv, &jobs[i])
	}
	return b
}

func writeElems(h interface{ Write([]byte) (int, error) }, size int, v []*big.Int) {
	for _, x := range v {
		if _, err := h.Write(elemBytes(x, size)); err != nil {
			panic(fmt.Sprintf("native hasher refused a canonical element: %v", err))
		}
	}
}

// nativeField performs the same call sequence on gnark-crypto's hasher.
func nativeField(cv *curveNat, j *fJob) []*big.Int {
	if j.mode == "perm" {
		out, err := cv.p2(j.width, j.spec.RF, j.spec.RP).Permute(j.msg)
		if err != nil {
			panic(err)
		}
		return out
	}
	h := cv.nativeFH(j.spec)
	size := h.BlockSize()
	bi := func(b []byte) *big.Int { return new(big.Int).SetBytes(b) }
	switch j.mode {
	case "plain", "reset":
		// Reset is documented to restore the initial state, so the reference is the plain digest
		writeElems(h, size, j.msg)
		return []*big.Int{bi(h.Sum(nil))}
	case "alias":
		writeElems(h, size, j.msg[:j.split])
		for k := j.split; k < len(j.msg) && k < j.split+3; k++ {
			x := new(big.Int).Add(j.msg[k], big.NewInt(1))
			writeElems(h, size, []*big.Int{x.Mod(x, cv.field)})
		}
		d1 := bi(h.Sum(nil))
		h2 := cv.nativeFH(j.spec)
		writeElems(h2, size, j.msg)
		return []*big.Int{d1, bi(h2.Sum(nil))}
	case "stream":
		writeElems(h, size, j.msg[:j.split])
		s1 := bi(h.Sum(nil))
		writeElems(h, size, j.msg[j.split:])
		s2 := bi(h.Sum(nil))
		return []*big.Int{s1, s2}
	case "state":
		writeElems(h, size, j.msg[:j.split])
		st := append([]byte{}, h.State()...)
		h2 := cv.nativeFH(j.spec)
		if err := h2.SetState(st); err != nil {
			panic(err)
		}
		writeElems(h2, size, j.msg[j.split:])
		d2 := bi(h2.Sum(nil))
		writeElems(h, size, j.msg[j.split:])
		d1 := bi(h.Sum(nil))
		return []*big.Int{bi(st), d2, d1}
	}
	panic("mode")
}

func (b *fBatch) slots() int { return len(b.jobs) }
func (b *fBatch) shape() frontend.Circuit {
	c := &fCircuit{jobs: b.jobs, In: make([][]frontend.Variable, len(b.jobs)), Exp: make([][]frontend.Variable, len(b.jobs))}
	for i := range b.jobs {
		c.In[i] = make([]frontend.Variable, len(b.jobs[i].msg))
		c.Exp[i] = make([]frontend.Variable, b.jobs[i].nOut())
	}
	return c
}
func (b *fBatch) assign(tag uint64, corrupt int) frontend.Circuit {
	c := &fCircuit{jobs: b.jobs, Tag: tag, In: make([][]frontend.Variable, len(b.jobs)), Exp: make([][]frontend.Variable, len(b.jobs))}
	for i := range b.jobs {
		c.In[i] = make([]frontend.Variable, len(b.jobs[i].msg))
		for k, v := range b.jobs[i].msg {
			c.In[i][k] = new(big.Int).Set(v)
		}
		c.Exp[i] = make([]frontend.Variable, len(b.exp[i]))
		for k, v := range b.exp[i] {
			x := new(big.Int).Set(v)
			if i == corrupt && k == len(b.exp[i])-1 {
				x.SetBit(x, int(tag%64), x.Bit(int(tag%64))^1)
			}
			c.Exp[i][k] = x
		}
	}
	return c
}
func (b *fBatch) expect(s int) []*big.Int { return b.exp[s] }
func (b *fBatch) class(s int) string      { return b.jobs[s].classOf() }
func (b *fBatch) key(s int) string {
	j := &b.jobs[s]
	return fmt.Sprintf("%s|%s|%s|%v|%v|%d|%d|%d", b.cv.name, j.spec, j.mode, hexBig(j.msg), j.chunks, j.split, j.junk, j.width)
}
func (b *fBatch) describe(s int) map[string]any {
	j := &b.jobs[s]
	d := map[string]any{"curve": b.cv.name, "function": j.spec.String(), "mode": j.mode, "message": hexBig(j.msg)}
	if j.chunks != nil {
		d["write_chunks"] = j.chunks
	}
	if j.mode == "stream" || j.mode == "state" || j.mode == "alias" {
		d["split_at"] = j.split
	}
	if j.mode == "reset" {
		d["junk_elements_before_reset"] = j.junk
	}
	if j.mode == "perm" {
		d["width"] = j.width
		d["rF"], d["rP"] = j.spec.RF, j.spec.RP
	}
	return d
}
func (b *fBatch) single(s int) batch { return newFBatch(b.cv, []fJob{b.jobs[s]}) }
func (b *fBatch) sameShape(o batch) bool {
	ob, ok := o.(*fBatch)
	if !ok || len(ob.jobs) != len(b.jobs) || ob.cv != b.cv {
		return false
	}
	for i := range b.jobs {
		x, y := &b.jobs[i], &ob.jobs[i]
		if x.spec != y.spec || x.mode != y.mode || len(x.msg) != len(y.msg) || x.split != y.split || x.junk != y.junk || x.width != y.width || fmt.Sprint(x.chunks) != fmt.Sprint(y.chunks) {
			return false
		}
	}
	return true
}

// fieldElems draws n field elements favouring special values.
func fieldElems(rng *rand.Rand, p *big.Int, n int, content string) []*big.Int {
	out := make([]*big.Int, n)
	for i := range out {
		switch content {
		case "zeros":
			out[i] = new(big.Int)
		case "ones":
			out[i] = new(big.Int).Sub(p, big.NewInt(1)) // p-1: the all-"ones" of a field
		case "counter":
			out[i] = big.NewInt(int64(i))
		case "special":
			switch rng.IntN(6) {
			case 0:
				out[i] = new(big.Int)
			case 1:
				out[i] = big.NewInt(1)
			case 2:
				out[i] = new(big.Int).Sub(p, big.NewInt(1))
			case 3:
				out[i] = new(big.Int).Sub(p, big.NewInt(2))
			case 4:
				out[i] = new(big.Int).Lsh(big.NewInt(1), uint(rng.IntN(p.BitLen()-1)))
			default:
				out[i] = new(big.Int).Rsh(p, 1)
			}
		default:
			out[i] = randField(rng, p)
		}
	}
	return out
}

func randField(rng *rand.Rand, p *big.Int) *big.Int {
	b := make([]byte, (p.BitLen()+7)/8+8)
	for i := range b {
		b[i] = byte(rng.Uint32())
	}
	v := new(big.Int).SetBytes(b)
	return v.Mod(v, p)
}

// ---- Fiat-Shamir transcripts ----

type fsJob struct {
	spec  fhSpec
	names []string
	binds [][]*big.Int // per challenge
}

type fsCircuit struct {
	Tag   frontend.Variable
	Binds [][]frontend.Variable
	Exp   []frontend.Variable
	job   fsJob
}

func (c *fsCircuit) Define(api frontend.API) error {
	h, err := newFieldHasher(api, c.job.spec)
	if err != nil {
		return err
	}
	t := fiatshamir.NewTranscript(api, h, c.job.names)
	for i, name := range c.job.names {
		// two Bind calls per challenge: bindings accumulate in order
		k := len(c.Binds[i]) / 2
		if err := t.Bind(name, c.Binds[i][:k]); err != nil {
			return err
		}
		if err := t.Bind(name, c.Binds[i][k:]); err != nil {
			return err
		}
	}
	var outs []frontend.Variable
	for _, name := range c.job.names {
		v, err := t.ComputeChallenge(name)
		if err != nil {
			return err
		}
		outs = append(outs, v)
	}
	// asking again returns the recorded value
	again, err := t.ComputeChallenge(c.job.names[0])
	if err != nil {
		return err
	}
	outs = append(outs, again)
	tap(api, c.Tag, 0, outs...)
	for i := range outs {
		api.AssertIsEqual(outs[i], c.Exp[i])
	}
	return nil
}

type fsBatch struct {
	cv  *curveNat
	job fsJob
	exp []*big.Int
}

func newFSBatch(cv *curveNat, job fsJob) *fsBatch {
	h := cv.nativeFH(job.spec)
	size := h.BlockSize()
	t := gcfs.NewTranscript(h, job.names...)
	for i, name := range job.names {
		for _, v := range job.binds[i] {
			if err := t.Bind(name, elemBytes(v, size)); err != nil {
				panic(err)
			}
		}
	}
	b := &fsBatch{cv: cv, job: job}
	for _, name := range job.names {
		c, err := t.ComputeChallenge(name)
		if err != nil {
			panic(fmt.Sprintf("native transcript: %v", err))
		}
		b.exp = append(b.exp, new(big.Int).SetBytes(c))
	}
	b.exp = append(b.exp, new(big.Int).Set(b.exp[0]))
	return b
}

func (b *fsBatch) slots() int { return 1 }
func (b *fsBatch) shape() frontend.Circuit {
	c := &fsCircuit{job: b.job, Binds: make([][]frontend.Variable, len(b.job.names)), Exp: make([]frontend.Variable, len(b.exp))}
	for i := range c.Binds {
		c.Binds[i] = make([]frontend.Variable, len(b.job.binds[i]))
	}
	return c
}
func (b *fsBatch) assign(tag uint64, corrupt int) frontend.Circuit {
	c := &fsCircuit{job: b.job, Tag: tag, Binds: make([][]frontend.Variable, len(b.job.names)), Exp: make([]frontend.Variable, len(b.exp))}
	for i := range c.Binds {
		c.Binds[i] = make([]frontend.Variable, len(b.job.binds[i]))
		for k, v := range b.job.binds[i] {
			c.Binds[i][k] = new(big.Int).Set(v)
		}
	}
	for i, v := range b.exp {
		x := new(big.Int).Set(v)
		if corrupt == 0 && i == len(b.job.names)-1 {
			x.SetBit(x, int(tag%64), x.Bit(int(tag%64))^1)
		}
		c.Exp[i] = x
	}
	return c
}
func (b *fsBatch) expect(int) []*big.Int { return b.exp }
func (b *fsBatch) class(int) string      { return "fiat-shamir/" + b.job.spec.Hash }
func (b *fsBatch) key(int) string {
	return fmt.Sprintf("fs|%s|%s|%q|%v", b.cv.name, b.job.spec, b.job.names, b.job.binds)
}
func (b *fsBatch) describe(int) map[string]any {
	bs := make([][]string, len(b.job.binds))
	for i := range bs {
		bs[i] = hexBig(b.job.binds[i])
	}
	return map[string]any{"curve": b.cv.name, "function": "fiat-shamir over " + b.job.spec.String(), "challenge_names": b.job.names, "bindings": bs}
}
func (b *fsBatch) single(int) batch { return b }
func (b *fsBatch) sameShape(o batch) bool {
	ob, ok := o.(*fsBatch)
	if !ok || ob.cv != b.cv || ob.job.spec != b.job.spec || fmt.Sprint(ob.job.names) != fmt.Sprint(b.job.names) {
		return false
	}
	for i := range b.job.binds {
		if len(b.job.binds[i]) != len(ob.job.binds[i]) {
			return false
		}
	}
	return true
}

// ---- Merkle proofs ----

type merkleCircuit struct {
	M    merkle.MerkleProof
	Leaf frontend.Variable
	spec fhSpec
}

func (c *merkleCircuit) Define(api frontend.API) error {
	h, err := newFieldHasher(api, c.spec)
	if err != nil {
		return err
	}
	c.M.VerifyProof(api, h, c.Leaf)
	return nil
}

func merkleShape(spec fhSpec, depth int) *merkleCircuit {
	return &merkleCircuit{spec: spec, M: merkle.MerkleProof{Path: make([]frontend.Variable, depth+1)}}
}

type merkleCase struct {
	root  *big.Int
	path  []*big.Int // path[0] = leaf data, then the siblings bottom-up
	index uint64
}

func (mc *merkleCase) assign(spec fhSpec) *merkleCircuit {
	c := &merkleCircuit{spec: spec, Leaf: new(big.Int).SetUint64(mc.index)}
	c.M.RootHash = new(big.Int).Set(mc.root)
	c.M.Path = make([]frontend.Variable, len(mc.path))
	for i, v := range mc.path {
		c.M.Path[i] = new(big.Int).Set(v)
	}
	return c
}

func (mc *merkleCase) clone() *merkleCase {
	o := &merkleCase{root: new(big.Int).Set(mc.root), index: mc.index}
	for _, v := range mc.path {
		o.path = append(o.path, new(big.Int).Set(v))
	}
	return o
}

func (mc *merkleCase) rep(cv *curveNat, spec fhSpec, depth int, edit string) map[string]any {
	return map[string]any{"curve": cv.name, "function": "merkle.VerifyProof over " + spec.String(), "depth": depth, "leaf_index": mc.index,
		"root": "0x" + mc.root.Text(16), "path": hexBig(mc.path), "edit": edit}
}

// nativeVerify asks gnark-crypto's verifier (tree of 2^depth leaves).
func (mc *merkleCase) nativeVerify(cv *curveNat, spec fhSpec, depth int) bool {
	h := cv.nativeFH(spec)
	size := h.BlockSize()
	set := make([][]byte, len(mc.path))
	for i, v := range mc.path {
		set[i] = elemBytes(v, size)
	}
	return merkletree.VerifyProof(h, elemBytes(mc.root, size), set, mc.index, uint64(1)<<depth)
}

// buildMerkle makes a random tree of 2^depth leaves with gnark-crypto and the proof for index.
func buildMerkle(cv *curveNat, spec fhSpec, rng *rand.Rand, depth int, index uint64) (*merkleCase, error) {
	h := cv.nativeFH(spec)
	size := h.BlockSize()
	var buf bytes.Buffer
	for i := 0; i < 1<<depth; i++ {
		buf.Write(elemBytes(randField(rng, cv.field), size))
	}
	root, set, n, err := merkletree.BuildReaderProof(&buf, h, size, index)
	if err != nil {
		return nil, err
	}
	if n != uint64(1)<<depth || len(set) != depth+1 {
		return nil, fmt.Errorf("native tree: %d leaves, proof of %d elements", n, len(set))
	}
	mc := &merkleCase{root: new(big.Int).SetBytes(root), index: index}
	for _, s := range set {
		mc.path = append(mc.path, new(big.Int).SetBytes(s))
	}
	return mc, nil
}

// flipBit flips a bit of v keeping it a canonical field element.
func flipBit(rng *rand.Rand, v, p *big.Int) (*big.Int, int) {
	for {
		bit := rng.IntN(p.BitLen() - 1)
		x := new(big.Int).SetBit(v, bit, v.Bit(bit)^1)
		if x.Cmp(p) < 0 {
			return x, bit
		}
	}
}
