//go:build verif

package c15

// Out-of-domain probes: call sequences and configurations the property does
// not quantify over (nothing in the doc comments defines them).  What gnark
// does there is recorded as an observation in the evidence, never as a
// violation.

import (
	"fmt"
	"math/big"

	gcfs "github.com/consensys/gnark-crypto/fiat-shamir"
	"github.com/consensys/gnark/frontend"
	fiatshamir "github.com/consensys/gnark/std/fiat-shamir"
	"github.com/consensys/gnark/std/math/uints"
)

// sumTwiceCircuit: Write(m); Sum(); Sum(); Write(m); Sum().
type sumTwiceCircuit struct {
	Tag  frontend.Variable
	In   []uints.U8
	kind string
}

func (c *sumTwiceCircuit) Define(api frontend.API) error {
	h, err := newBinHasher(api, c.kind)
	if err != nil {
		return err
	}
	vals := func(d []uints.U8) []frontend.Variable {
		v := make([]frontend.Variable, len(d))
		for i := range d {
			v[i] = d[i].Val
		}
		return v
	}
	h.Write(c.In)
	tap(api, c.Tag, 0, vals(h.Sum())...)
	tap(api, c.Tag, 1, vals(h.Sum())...)
	h.Write(c.In)
	tap(api, c.Tag, 2, vals(h.Sum())...)
	return nil
}

type fsEmptyNameCircuit struct {
	Tag frontend.Variable
	X   frontend.Variable
}

func (c *fsEmptyNameCircuit) Define(api frontend.API) error {
	h, err := newFieldHasher(api, fhSpec{Hash: "mimc"})
	if err != nil {
		return err
	}
	t := fiatshamir.NewTranscript(api, h, []string{""})
	if err := t.Bind("", []frontend.Variable{c.X}); err != nil {
		return err
	}
	v, err := t.ComputeChallenge("")
	if err != nil {
		return err
	}
	tap(api, c.Tag, 0, v)
	return nil
}

func bytesVals(b []byte) []*big.Int {
	o := make([]*big.Int, len(b))
	for i := range b {
		o[i] = big.NewInt(int64(b[i]))
	}
	return o
}

func probeUnits(m *monitor) []func() {
	r := m.r
	bn := curveNats[0]
	var units []func()
	for _, kind := range []string{"sha256", "ripemd160", "sha3-256"} {
		kind := kind
		units = append(units, func() {
			msg := []byte("abc")
			e := engine{"engine", bn}
			run, _, _ := e.prepare(&sumTwiceCircuit{In: make([]uints.U8, len(msg)), kind: kind})
			tag := nextTag()
			err := run(&sumTwiceCircuit{Tag: tag, In: uints.NewU8Array(msg), kind: kind})
			first, second, third := takeTap(tag, 0), takeTap(tag, 1), takeTap(tag, 2)
			if err != nil || first == nil || second == nil || third == nil {
				r.Count("probe.sum-twice.not-executable."+kind, 1)
				return
			}
			want := bytesVals(nativeBin(kind, msg))
			want2 := bytesVals(nativeBin(kind, append(append([]byte{}, msg...), msg...)))
			obs := map[string]any{"function": kind, "sequence": "Write(m); Sum(); Sum(); Write(m); Sum()", "message": "abc",
				"first_Sum_equals_native(m)": eqVals(first, want), "second_Sum_equals_native(m)": eqVals(second, want), "Sum_after_second_Write_equals_native(m||m)": eqVals(third, want2)}
			if eqVals(second, want) && eqVals(third, want2) {
				r.Count("probe.sum-twice.behaves-like-hash.Hash."+kind, 1)
			} else {
				r.Count("probe.sum-twice.second-Sum-or-Write-after-Sum-differs-from-native."+kind, 1)
			}
			r.SampleClass("probe/sum-twice/"+kind, obs)
		})
	}
	units = append(units, func() {
		e := engine{"engine", bn}
		run, _, _ := e.prepare(&fsEmptyNameCircuit{})
		tag := nextTag()
		err := run(&fsEmptyNameCircuit{Tag: tag, X: 5})
		got := takeTap(tag, 0)
		h := bn.nativeFH(fhSpec{Hash: "mimc"})
		tr := gcfs.NewTranscript(h, "")
		_ = tr.Bind("", elemBytes(big.NewInt(5), h.BlockSize()))
		c, nerr := tr.ComputeChallenge("")
		if err != nil || nerr != nil || got == nil {
			r.Count("probe.fiat-shamir-empty-name.not-executable", 1)
			return
		}
		same := eqVals(got, []*big.Int{new(big.Int).SetBytes(c)})
		if same {
			r.Count("probe.fiat-shamir-empty-name.equals-native", 1)
		} else {
			r.Count("probe.fiat-shamir-empty-name.differs-from-native", 1)
		}
		r.SampleClass("probe/fiat-shamir-empty-name", map[string]any{"challenge_name": "", "binding": "5", "circuit": hexBig(got), "native": fmt.Sprintf("0x%x", c), "equal": same})
	})
	return units
}
