//go:build verif

package c15

import (
	"crypto/sha256"
	"fmt"
	"sync"
	"testing"
	"time"

	"github.com/consensys/gnark-crypto/ecc"
	"github.com/consensys/gnark/frontend"
	"github.com/consensys/gnark/frontend/cs/r1cs"
	"github.com/consensys/gnark/frontend/cs/scs"
	"github.com/consensys/gnark/logger"
	"github.com/consensys/gnark/std/hash/sha2"
	"github.com/consensys/gnark/std/hash/sha3"
	"github.com/consensys/gnark/std/math/uints"
	"github.com/consensys/gnark/test"
	xsha3 "golang.org/x/crypto/sha3"
)

type pc struct {
	In       []uints.U8
	Expected []uints.U8
	k        int
}

func (c *pc) Define(api frontend.API) error {
	uapi, _ := uints.New[uints.U32](api)
	var res []uints.U8
	if c.k == 0 {
		h, _ := sha2.New(api)
		h.Write(c.In)
		res = h.Sum()
	} else {
		h, _ := sha3.New256(api)
		h.Write(c.In)
		res = h.Sum()
	}
	for i := range c.Expected {
		uapi.ByteAssertEq(c.Expected[i], res[i])
	}
	return nil
}

func TestProbe(t *testing.T) {
	logger.Disable()
	f := ecc.BN254.ScalarField()
	for k := 0; k < 2; k++ {
		for _, n := range []int{10, 100, 200} {
			in := make([]byte, n)
			var d []byte
			if k == 0 {
				x := sha256.Sum256(in)
				d = x[:]
			} else {
				x := xsha3.Sum256(in)
				d = x[:]
			}
			w := &pc{In: uints.NewU8Array(in), Expected: uints.NewU8Array(d), k: k}
			c := &pc{In: make([]uints.U8, n), Expected: make([]uints.U8, 32), k: k}
			t0 := time.Now()
			err := test.IsSolved(c, w, f)
			fmt.Println("engine", k, n, time.Since(t0), err)
			t0 = time.Now()
			var wg sync.WaitGroup
			for g := 0; g < 12; g++ {
				wg.Add(1)
				go func() {
					defer wg.Done()
					for i := 0; i < 4; i++ {
						if err := test.IsSolved(c, w, f); err != nil {
							panic(err)
						}
					}
				}()
			}
			wg.Wait()
			fmt.Println("engine 48 runs on 12 goroutines", k, n, time.Since(t0))
			if n == 100 {
				t0 = time.Now()
				ccs, err := frontend.Compile(f, r1cs.NewBuilder, c)
				fmt.Println("compile r1cs", k, n, time.Since(t0), err, ccs.GetNbConstraints())
				wit, _ := frontend.NewWitness(w, f)
				t0 = time.Now()
				err = ccs.IsSolved(wit)
				fmt.Println("solve r1cs", time.Since(t0), err)
				t0 = time.Now()
				ccs, err = frontend.Compile(f, scs.NewBuilder, c)
				fmt.Println("compile scs", k, n, time.Since(t0), err, ccs.GetNbConstraints())
				t0 = time.Now()
				err = ccs.IsSolved(wit)
				fmt.Println("solve scs", time.Since(t0), err)
			}
		}
	}
}
