//go:build verif

package c16

// Liveness screen of the decomposition hints: the real registered hint
// functions are called (in a worker process) on the scalars the case list will
// feed them; a call that has not returned after the wait is a hint that does
// not terminate on that input (normal duration: well under 10 ms).

import (
	"encoding/json"
	"fmt"
	"math/big"
	"strings"
	"sync"
	"time"

	"github.com/consensys/gnark/constraint/solver"
)

type hintProbe struct {
	Hint     string     `json:"hint"` // suffix of the registered name, e.g. "sw_emulated.halfGCDEisenstein"
	Curve    string     `json:"curve"`
	Class    string     `json:"class"`
	Mod      *big.Int   `json:"mod"`      // native field passed to the hint
	Emulated bool       `json:"emulated"` // wrap inputs in the emulated-hint calling convention
	EmuMod   *big.Int   `json:"emumod,omitempty"`
	NbLimbs  int        `json:"nblimbs,omitempty"`
	Inputs   []*big.Int `json:"inputs"`
	NbOut    int        `json:"nbout"`
}

type screenReq struct {
	Items  []hintProbe `json:"items"`
	WaitMs int         `json:"wait_ms"`
}

func findHint(suffix string) solver.Hint {
	for _, h := range solver.GetRegisteredHints() {
		if strings.HasSuffix(solver.GetHintName(h), suffix) {
			return h
		}
	}
	return nil
}

func limbsOf(v *big.Int, n int) []*big.Int {
	mask := new(big.Int).Sub(new(big.Int).Lsh(big.NewInt(1), 64), big.NewInt(1))
	t := new(big.Int).Set(v)
	out := make([]*big.Int, n)
	for i := range out {
		out[i] = new(big.Int).And(t, mask)
		t.Rsh(t, 64)
	}
	return out
}

func callProbe(p hintProbe) error {
	h := findHint(p.Hint)
	if h == nil {
		return fmt.Errorf("hint %s not registered", p.Hint)
	}
	var in []*big.Int
	nout := p.NbOut
	if p.Emulated {
		in = append(in, big.NewInt(64), big.NewInt(int64(p.NbLimbs)))
		in = append(in, limbsOf(p.EmuMod, p.NbLimbs)...)
		in = append(in, big.NewInt(int64(len(p.Inputs))))
		for _, v := range p.Inputs {
			in = append(in, big.NewInt(int64(p.NbLimbs)))
			in = append(in, limbsOf(v, p.NbLimbs)...)
		}
		nout = p.NbOut * p.NbLimbs
	} else {
		in = p.Inputs
	}
	out := make([]*big.Int, nout)
	for i := range out {
		out[i] = new(big.Int)
	}
	return h(p.Mod, in, out)
}

func execScreen(raw json.RawMessage) outcome {
	var q screenReq
	if err := json.Unmarshal(raw, &q); err != nil {
		return outcome{Err: "decode: " + err.Error()}
	}
	var mu sync.Mutex
	done := map[int]bool{}
	errs := map[string]string{}
	var wg sync.WaitGroup
	for i, p := range q.Items {
		wg.Add(1)
		go func(i int, p hintProbe) {
			defer wg.Done()
			defer func() {
				if r := recover(); r != nil {
					mu.Lock()
					done[i] = true
					errs[fmt.Sprint(i)] = fmt.Sprintf("panic: %v", r)
					mu.Unlock()
				}
			}()
			err := callProbe(p)
			mu.Lock()
			done[i] = true
			if err != nil {
				errs[fmt.Sprint(i)] = err.Error()
			}
			mu.Unlock()
		}(i, p)
	}
	all := make(chan struct{})
	go func() { wg.Wait(); close(all) }()
	select {
	case <-all:
	case <-time.After(time.Duration(q.WaitMs) * time.Millisecond):
	}
	mu.Lock()
	defer mu.Unlock()
	o := outcome{Sat: true, Vals: map[string]string{}}
	for i := range q.Items {
		if done[i] {
			o.Done = append(o.Done, i)
		}
	}
	for k, v := range errs {
		o.Vals[k] = v
	}
	return o
}

func init() { executors["hintscreen"] = execScreen }
