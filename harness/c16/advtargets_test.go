//go:build verif

package c16

// The attacked gadgets and the lies.

import (
	"fmt"
	"math/big"
	"math/rand/v2"
	"strings"

	"github.com/consensys/gnark-crypto/ecc"
	"github.com/consensys/gnark-crypto/ecc/bn254"
	"github.com/consensys/gnark/backend"
	"github.com/consensys/gnark/backend/groth16"
	"github.com/consensys/gnark/constraint"
	"github.com/consensys/gnark/constraint/solver"
	"github.com/consensys/gnark/frontend"
	"github.com/consensys/gnark/frontend/cs/r1cs"
	"github.com/consensys/gnark/std/algebra/emulated/sw_bn254"
	"github.com/consensys/gnark/std/algebra/native/twistededwards"
	"github.com/consensys/gnark/std/math/emulated"
	"github.com/consensys/gnark/std/signature/ecdsa"
	"github.com/consensys/gnark/std/signature/eddsa"

	"github.com/consensys/gnark/verifharness/internal/vcore"
)

// emuLie builds a lying version of an emulated-convention hint: the honest hint
// runs first, then f may replace the (non-native) outputs.
func emuLie(honest solver.Hint, emulatedIn, emulatedOut bool, f func(io emuIO, honest []*big.Int) ([]*big.Int, bool)) solver.Hint {
	return func(m *big.Int, in, out []*big.Int) error {
		if err := honest(m, in, out); err != nil {
			return err
		}
		io := parseEmuInputs(in, emulatedIn)
		var hv []*big.Int
		if emulatedOut {
			hv = io.readOut(out)
		} else {
			for _, o := range out {
				hv = append(hv, new(big.Int).Set(o))
			}
		}
		nv, ok := f(io, hv)
		if !ok {
			return nil
		}
		if emulatedOut {
			if !io.writeOut(out, nv) {
				return fmt.Errorf("adversary: value does not fit the limbs")
			}
			return nil
		}
		for i := range out {
			out[i].Set(nv[i])
		}
		return nil
	}
}

func constOut(vals ...*big.Int) func(io emuIO, honest []*big.Int) ([]*big.Int, bool) {
	return func(io emuIO, honest []*big.Int) ([]*big.Int, bool) { return vals, true }
}

func ov(calls *int64, name string, h solver.Hint) solver.Option {
	return solver.OverrideHint(solver.GetHintID(hintByName(name)), counted(calls, h))
}

// ------------------------------------------------------------------ twisted Edwards

func advTed(r *vcore.Run) {
	var d *tedDesc
	for _, x := range tedCurves() {
		if x.Name == "BN254" {
			d = x
		}
	}
	c := d.c
	rng := r.Rand("adv/ted")
	hHalf := hintByName("twistededwards.halfGCD")
	hMul := hintByName("twistededwards.scalarMulHint")
	for _, b := range builders(r) {
		cfg := &tedCfg{id: d.ID, op: "ScalarMul"}
		t := &advTarget{name: "twistededwards.ScalarMul/" + b.name, field: c.P, builder: b.b, circuit: &tedCircuit{cfg: cfg}}
		if err := t.build(); err != nil {
			r.Inconclusive("adv:compile:" + t.name)
			continue
		}
		r.Count("adv.compiled-systems", 1)
		type in struct {
			class string
			p     epoint
			s     *big.Int
		}
		B := c.base()
		R1, _ := c.mul(B, randNonzero(rng, c.Order))
		ins := []in{{"P=random,s=random", R1, randNonzero(rng, c.Order)}, {"P=base,s=random", B, randNonzero(rng, c.Order)}, {"P=random,s=2", R1, bi(2)}}
		if r.Thorough() {
			ins = append(ins, in{"P=random,s=order-1", R1, new(big.Int).Sub(c.Order, bi(1))}, in{"P=random,s=random", R1, randNonzero(rng, c.Order)})
		}
		for _, x := range ins {
			x := x
			want, _ := c.mul(x.p, x.s)
			wrong, _ := c.mul(x.p, new(big.Int).Add(x.s, bi(1)))
			negP := c.neg(x.p)
			tOther := randNonzero(rng, c.Order)
			other, _ := c.mul(x.p, tOther)
			ordInv := new(big.Int).ModInverse(c.Order, c.P)
			lies := []lie{
				{"honest", func(calls *int64) []solver.Option { return nil }},
				{"halfGCD=all-zero,result=[s+1]P", func(calls *int64) []solver.Option {
					return []solver.Option{
						ov(calls, "twistededwards.halfGCD", func(m *big.Int, in, out []*big.Int) error {
							for _, o := range out {
								o.SetUint64(0)
							}
							return nil
						}),
						ov(calls, "twistededwards.scalarMulHint", func(m *big.Int, in, out []*big.Int) error {
							out[0].Set(wrong.X)
							out[1].Set(wrong.Y)
							return nil
						})}
				}},
				{"halfGCD=(1,1,k=(1+s)/order mod p),result=-P", func(calls *int64) []solver.Option {
					return []solver.Option{
						ov(calls, "twistededwards.halfGCD", func(m *big.Int, in, out []*big.Int) error {
							out[0].SetUint64(1)
							out[1].SetUint64(1)
							out[2].SetUint64(0)
							k := new(big.Int).Add(in[0], bi(1))
							k.Mul(k, ordInv).Mod(k, m)
							out[3].Set(k)
							return nil
						}),
						ov(calls, "twistededwards.scalarMulHint", func(m *big.Int, in, out []*big.Int) error {
							out[0].Set(negP.X)
							out[1].Set(negP.Y)
							return nil
						})}
				}},
				{"halfGCD=decomposition-of-another-scalar-t(k solved mod p),result=[t]P", func(calls *int64) []solver.Option {
					return []solver.Option{
						ov(calls, "twistededwards.halfGCD", func(m *big.Int, in, out []*big.Int) error {
							// honest decomposition of t: s1 + s2*t = 0 mod order
							if err := hHalf(m, []*big.Int{tOther, in[1]}, out); err != nil {
								return err
							}
							// re-solve k for the real scalar modulo the SNARK field
							s2s := new(big.Int).Mul(out[1], in[0])
							var k *big.Int
							if out[2].Sign() == 0 {
								k = new(big.Int).Add(out[0], s2s)
							} else {
								k = new(big.Int).Sub(out[0], s2s)
							}
							k.Mul(k, ordInv).Mod(k, m)
							out[3].Set(k)
							return nil
						}),
						ov(calls, "twistededwards.scalarMulHint", func(m *big.Int, in, out []*big.Int) error {
							out[0].Set(other.X)
							out[1].Set(other.Y)
							return nil
						})}
				}},
				{"halfGCD=doubled-decomposition", func(calls *int64) []solver.Option {
					return []solver.Option{ov(calls, "twistededwards.halfGCD", func(m *big.Int, in, out []*big.Int) error {
						if err := hHalf(m, in, out); err != nil {
							return err
						}
						out[0].Lsh(out[0], 1)
						out[1].Lsh(out[1], 1)
						out[3].Lsh(out[3], 1)
						return nil
					})}
				}},
				{"halfGCD:s1+1", func(calls *int64) []solver.Option {
					return []solver.Option{ov(calls, "twistededwards.halfGCD", func(m *big.Int, in, out []*big.Int) error {
						if err := hHalf(m, in, out); err != nil {
							return err
						}
						out[0].Add(out[0], bi(1))
						return nil
					})}
				}},
				{"halfGCD:sign-bit-flipped", func(calls *int64) []solver.Option {
					return []solver.Option{ov(calls, "twistededwards.halfGCD", func(m *big.Int, in, out []*big.Int) error {
						if err := hHalf(m, in, out); err != nil {
							return err
						}
						out[2].Xor(out[2], bi(1))
						return nil
					})}
				}},
				{"result=-[s]P", func(calls *int64) []solver.Option {
					return []solver.Option{ov(calls, "twistededwards.scalarMulHint", func(m *big.Int, in, out []*big.Int) error {
						if err := hMul(m, in, out); err != nil {
							return err
						}
						out[0].Sub(m, out[0]).Mod(out[0], m)
						return nil
					})}
				}},
				{"result=identity", func(calls *int64) []solver.Option {
					return []solver.Option{ov(calls, "twistededwards.scalarMulHint", func(m *big.Int, in, out []*big.Int) error {
						out[0].SetUint64(0)
						out[1].SetUint64(1)
						return nil
					})}
				}},
			}
			for _, l := range lies {
				var calls int64
				sk := &sink{}
				asg := &tedCircuit{cfg: cfg, P: twistededwards.Point{X: x.p.X, Y: x.p.Y}, Q: twistededwards.Point{X: 0, Y: 1}, S1: x.s, S2: 0}
				err := t.solveWith(asg, sk, l.overrides(&calls))
				rep := map[string]any{"target": t.name, "curve": "BN254 (Baby Jubjub)", "lie": l.name, "inputs": map[string]string{"P": x.p.String(), "s": x.s.String()}, "oracle": want.String(),
					"t_used_by_the_lie": tOther.String(), "engine": "frontend.Compile + Solve"}
				advVerdict(r, t.name, l.name, x.class, err, sk, [2]*big.Int{want.X, want.Y}, calls, rep)
			}
		}
	}
}

var _ = ecc.BN254
var _ frontend.Variable

// ------------------------------------------------------------------ emulated short Weierstrass

// withFirstInput returns a copy of the native inputs of an emulated-input hint
// call in which the first non-native input is replaced by v.
func withFirstInput(in []*big.Int, v *big.Int) []*big.Int {
	out := make([]*big.Int, len(in))
	for i := range in {
		out[i] = new(big.Int).Set(in[i])
	}
	nbBits := uint(in[0].Int64())
	nbLimbs := int(in[1].Int64())
	p := 3 + nbLimbs
	l := int(in[p].Int64())
	mask := new(big.Int).Sub(new(big.Int).Lsh(bi(1), nbBits), bi(1))
	t := new(big.Int).Set(v)
	for j := 0; j < l; j++ {
		out[p+1+j].And(t, mask)
		t.Rsh(t, nbBits)
	}
	return out
}

type advIn struct {
	class string
	pts   []wpt
	ks    []*big.Int
	only  []string // when set, only these lies (plus honest) run on this input
}

func advEmu(r *vcore.Run, curve, op string, complete bool) {
	var d *emuCurveDesc
	for _, x := range emuCurves() {
		if x.c.Name == curve {
			d = x
		}
	}
	c := d.c
	mode := "incomplete"
	if complete {
		mode = "complete"
	}
	rng := r.Rand("adv/emu/" + curve + "/" + op + "/" + mode)
	G := c.G()
	R1 := c.mul(G, randNonzero(rng, c.R))
	rk := func() *big.Int { return randNonzero(rng, c.R) }
	var ins []advIn
	switch op {
	case "ScalarMul":
		ins = []advIn{{class: "P=random,s=random", pts: []wpt{R1}, ks: []*big.Int{rk()}}, {class: "P=G,s=random", pts: []wpt{G}, ks: []*big.Int{rk()}}}
		if complete {
			ins = append(ins,
				advIn{class: "P=random,s=0", pts: []wpt{R1}, ks: []*big.Int{bi(0)}, only: []string{"result=[s+1]P", "result=(0,0)"}},
				advIn{class: "P=inf,s=random", pts: []wpt{winf()}, ks: []*big.Int{rk()}, only: []string{"result=G", "result=(0,0)"}},
			)
			if d.glv {
				// s = -1 is special-cased by the GLV+fakeGLV method
				ins = append(ins, advIn{class: "P=random,s=r-1", pts: []wpt{R1}, ks: []*big.Int{new(big.Int).Sub(c.R, bi(1))}, only: []string{"result=[s+1]P", "result=G"}})
			}
		}
		if r.Thorough() {
			ins = append(ins, advIn{class: "P=random,s=random", pts: []wpt{c.mul(G, rk())}, ks: []*big.Int{rk()}})
		}
	case "JointScalarMulBase":
		ins = []advIn{{class: "P=random,s=random,random", pts: []wpt{R1}, ks: []*big.Int{rk(), rk()}}}
	}
	for _, b := range builders(r) {
		first := &emuCase{Pkg: d.pkg, Curve: curve, Op: op, Complete: complete, Pts: ins[0].pts, Ks: ins[0].ks, Native: nativeBN254}
		circ, _, _, _ := d.build(first, false)
		t := &advTarget{name: fmt.Sprintf("sw_emulated.%s/%s/%s/%s", op, glvKind(d), mode, b.name), field: nativeBN254, builder: b.b, circuit: circ}
		if err := t.build(); err != nil {
			r.Inconclusive("adv:compile:" + t.name + ":" + firstLine(err.Error()))
			continue
		}
		r.Count("adv.compiled-systems", 1)
		r.Set("adv.compile_seconds."+t.name, t.compile.Seconds())
		r.Set("adv.constraints."+t.name, t.ccs.GetNbConstraints())
		for _, x := range ins {
			cs := &emuCase{Pkg: d.pkg, Curve: curve, Op: op, Complete: complete, Pts: x.pts, Ks: x.ks, Native: nativeBN254}
			var want wpt
			if op == "ScalarMul" {
				want = c.mul(x.pts[0], x.ks[0])
			} else {
				want = c.add(c.mul(G, x.ks[1]), c.mul(x.pts[0], x.ks[0]))
			}
			cs.Want, cs.InDomain, cs.Class = want, true, x.class
			P := x.pts[0]
			s := x.ks[0]
			tOther := rk()
			pt := func(p wpt) []*big.Int { a, b := p.xy(); return []*big.Int{a, b} }
			resultLie := func(name string, p wpt) lie {
				return lie{name, func(calls *int64) []solver.Option {
					return []solver.Option{ov(calls, "sw_emulated.scalarMulHint", emuLie(hintByName("sw_emulated.scalarMulHint"), false, true, constOut(pt(p)...)))}
				}}
			}
			lies := []lie{{"honest", func(calls *int64) []solver.Option { return nil }}}
			if op == "ScalarMul" {
				lies = append(lies,
					resultLie("result=P", P), resultLie("result=-P", c.neg(P)), resultLie("result=(0,0)", winf()),
					resultLie("result=[s+1]P", c.mul(P, new(big.Int).Add(s, bi(1)))), resultLie("result=G", G), resultLie("result=-[s]P", c.neg(want)))
				decName, signName, nOut := "sw_emulated.halfGCD", "sw_emulated.halfGCDSigns", 2
				if d.glv {
					decName, signName, nOut = "sw_emulated.halfGCDEisenstein", "sw_emulated.halfGCDEisensteinSigns", 4
				}
				hDec, hSign := hintByName(decName), hintByName(signName)
				zeros := make([]*big.Int, nOut)
				for i := range zeros {
					zeros[i] = new(big.Int)
				}
				wrong := c.mul(P, new(big.Int).Add(s, bi(1)))
				lies = append(lies,
					lie{"decomposition=all-zero,result=[s+1]P", func(calls *int64) []solver.Option {
						return []solver.Option{ov(calls, decName, emuLie(hDec, true, true, constOut(zeros...))),
							ov(calls, "sw_emulated.scalarMulHint", emuLie(hintByName("sw_emulated.scalarMulHint"), false, true, constOut(pt(wrong)...)))}
					}},
					lie{"decomposition-of-another-scalar-t,result=[t]P", func(calls *int64) []solver.Option {
						return []solver.Option{
							ov(calls, decName, func(m *big.Int, in, out []*big.Int) error { return hDec(m, withFirstInput(in, tOther), out) }),
							ov(calls, signName, func(m *big.Int, in, out []*big.Int) error { return hSign(m, withFirstInput(in, tOther), out) }),
							ov(calls, "sw_emulated.scalarMulHint", emuLie(hintByName("sw_emulated.scalarMulHint"), false, true, constOut(pt(c.mul(P, tOther))...)))}
					}},
					lie{"decomposition:first-output+1", func(calls *int64) []solver.Option {
						return []solver.Option{ov(calls, decName, emuLie(hDec, true, true, func(io emuIO, h []*big.Int) ([]*big.Int, bool) {
							h[0] = new(big.Int).Add(h[0], bi(1))
							return h, true
						}))}
					}},
					lie{"decomposition:doubled", func(calls *int64) []solver.Option {
						return []solver.Option{ov(calls, decName, emuLie(hDec, true, true, func(io emuIO, h []*big.Int) ([]*big.Int, bool) {
							for i := range h {
								h[i] = new(big.Int).Lsh(h[i], 1)
							}
							return h, true
						}))}
					}},
					lie{"signs:first-flipped", func(calls *int64) []solver.Option {
						return []solver.Option{ov(calls, signName, emuLie(hSign, true, false, func(io emuIO, h []*big.Int) ([]*big.Int, bool) {
							h[0] = new(big.Int).Xor(h[0], bi(1))
							return h, true
						}))}
					}},
					lie{"signs:all-flipped", func(calls *int64) []solver.Option {
						return []solver.Option{ov(calls, signName, emuLie(hSign, true, false, func(io emuIO, h []*big.Int) ([]*big.Int, bool) {
							for i := range h {
								h[i] = new(big.Int).Xor(h[i], bi(1))
							}
							return h, true
						}))}
					}},
				)
				if d.glv {
					lies = append(lies, forgeHighLimbs(d, P, s, tOther))
				} else {
					lies = append(lies, forgeHighLimbsFake(d, P, s, rng))
				}
			} else {
				hDec, hSign := hintByName("sw_emulated.decomposeScalarG1Subscalars"), hintByName("sw_emulated.decomposeScalarG1Signs")
				lies = append(lies,
					lie{"decomposition=(s,0)", func(calls *int64) []solver.Option {
						return []solver.Option{
							ov(calls, "sw_emulated.decomposeScalarG1Subscalars", emuLie(hDec, true, true, func(io emuIO, h []*big.Int) ([]*big.Int, bool) {
								return []*big.Int{new(big.Int).Mod(io.in[0], io.mod), new(big.Int)}, true
							})),
							ov(calls, "sw_emulated.decomposeScalarG1Signs", emuLie(hSign, true, false, constOut(new(big.Int), new(big.Int))))}
					}},
					lie{"decomposition:s1+1", func(calls *int64) []solver.Option {
						return []solver.Option{ov(calls, "sw_emulated.decomposeScalarG1Subscalars", emuLie(hDec, true, true, func(io emuIO, h []*big.Int) ([]*big.Int, bool) {
							h[0] = new(big.Int).Add(h[0], bi(1))
							return h, true
						}))}
					}},
					lie{"decomposition:(s1+2^nbits*a, s2 solved mod r)", func(calls *int64) []solver.Option {
						return []solver.Option{ov(calls, "sw_emulated.decomposeScalarG1Subscalars", func(m *big.Int, in, out []*big.Int) error {
							// needs the signs: computed alongside
							so := []*big.Int{new(big.Int), new(big.Int)}
							if err := hSign(m, in, so); err != nil {
								return err
							}
							return emuLie(hDec, true, true, func(io emuIO, h []*big.Int) ([]*big.Int, bool) {
								nbits := uint(io.mod.BitLen()>>1 + 2)
								// signed s1' = ±(|s1| + 2^nbits * 5); s2' = (s - s1')/lambda mod r, taken as |s2'| with sign +
								s1 := new(big.Int).Add(h[0], new(big.Int).Lsh(bi(5), nbits))
								sg := new(big.Int).Set(s1)
								if so[0].Sign() != 0 {
									sg.Neg(sg)
								}
								s2 := new(big.Int).Sub(io.in[0], sg)
								s2.Mul(s2, new(big.Int).ModInverse(io.in[1], io.mod)).Mod(s2, io.mod)
								if so[1].Sign() != 0 {
									s2.Sub(io.mod, s2)
								}
								return []*big.Int{s1, s2}, true
							})(m, in, out)
						})}
					}},
					lie{"signs:first-flipped", func(calls *int64) []solver.Option {
						return []solver.Option{ov(calls, "sw_emulated.decomposeScalarG1Signs", emuLie(hSign, true, false, func(io emuIO, h []*big.Int) ([]*big.Int, bool) {
							h[0] = new(big.Int).Xor(h[0], bi(1))
							return h, true
						}))}
					}},
				)
			}
			for _, l := range lies {
				if len(x.only) > 0 && l.name != "honest" {
					keep := false
					for _, o := range x.only {
						if o == l.name {
							keep = true
						}
					}
					if !keep {
						continue
					}
				}
				var calls int64
				var fp = d.c.P
				sk := &sink{bitsPerLimb: 64, mod: fp}
				_, asg, _, ok := d.build(cs, false)
				if !ok {
					continue
				}
				err := t.solveWith(asg, sk, l.overrides(&calls))
				wx, wy := want.xy()
				inp := cs.replay()
				inp["engine"] = "frontend.Compile + Solve"
				rep := map[string]any{"target": t.name, "curve": curve, "lie": l.name, "inputs": inp, "oracle": want.String(), "t_used_by_the_lie": tOther.String(), "engine": "frontend.Compile + Solve"}
				advVerdict(r, t.name, l.name, x.class, err, sk, [2]*big.Int{wx, wy}, calls, rep)
			}
		}
	}
}

// forgeHighLimbs is the best-effort cheat against scalarMulGLVAndFakeGLV: claim
// [s]P = [t]P for an unrelated t.  The point relation is checked on the low
// nbits bits of (u1,u2,v1,v2) only, so the adversary hands over the honest
// Eisenstein half-GCD of t in the low bits and repairs the scalar relation
// s(v1+λv2)+u1+λu2 = 0 (mod r), which must hold for the real s, by adding
// multiples of 2^nbits to u1 and u2 (a GLV-style decomposition of the defect,
// shifted deep into the wanted sign quadrant so that both additions are
// non-negative).  It is stopped only if the gadget constrains the width of the
// sub-scalars.
func forgeHighLimbs(d *emuCurveDesc, P wpt, s, t *big.Int) lie {
	name := "forge:eisenstein-decomposition-of-t-in-the-low-bits+relation-repaired-in-the-high-bits,result=[t]P"
	hDec, hSign := hintByName("sw_emulated.halfGCDEisenstein"), hintByName("sw_emulated.halfGCDEisensteinSigns")
	c := d.c
	target := c.mul(P, t)
	return lie{name, func(calls *int64) []solver.Option {
		return []solver.Option{
			ov(calls, "sw_emulated.halfGCDEisensteinSigns", func(m *big.Int, in, out []*big.Int) error { return hSign(m, withFirstInput(in, t), out) }),
			ov(calls, "sw_emulated.scalarMulHint", emuLie(hintByName("sw_emulated.scalarMulHint"), false, true, func(io emuIO, h []*big.Int) ([]*big.Int, bool) {
				x, y := target.xy()
				return []*big.Int{x, y}, true
			})),
			ov(calls, "sw_emulated.halfGCDEisenstein", func(m *big.Int, in, out []*big.Int) error {
				inT := withFirstInput(in, t)
				if err := hDec(m, inT, out); err != nil {
					return err
				}
				sg := []*big.Int{new(big.Int), new(big.Int), new(big.Int), new(big.Int)}
				if err := hSign(m, inT, sg); err != nil {
					return err
				}
				io := parseEmuInputs(in, true)
				r, lam := io.mod, io.in[1]
				sReal := new(big.Int).Mod(io.in[0], r)
				h := io.readOut(out) // |u1| |u2| |v1| |v2| for t
				sign := func(i int) *big.Int {
					if sg[i].Sign() != 0 {
						return bi(-1)
					}
					return bi(1)
				}
				nbits := uint(r.BitLen()>>2 + 9)
				// V = σv1 v1 + λ σv2 v2 ; defect c = -(s - t) V ; c' = c / 2^nbits
				V := new(big.Int).Mul(sign(2), h[2])
				V.Add(V, new(big.Int).Mul(lam, new(big.Int).Mul(sign(3), h[3])))
				cdef := new(big.Int).Sub(sReal, new(big.Int).Mod(t, r))
				cdef.Mul(cdef, V).Neg(cdef).Mod(cdef, r)
				cdef.Mul(cdef, new(big.Int).ModInverse(new(big.Int).Lsh(bi(1), nbits), r)).Mod(cdef, r)
				// short representation k1 + λ k2 = c'
				var lat ecc.Lattice
				ecc.PrecomputeLattice(r, lam, &lat)
				k := ecc.SplitScalar(cdef, &lat)
				// lattice vector W close to the target quadrant point T
				T0 := new(big.Int).Mul(sign(0), new(big.Int).Lsh(bi(1), 170))
				T1 := new(big.Int).Mul(sign(1), new(big.Int).Lsh(bi(1), 170))
				det := new(big.Int).Sub(new(big.Int).Mul(&lat.V1[0], &lat.V2[1]), new(big.Int).Mul(&lat.V1[1], &lat.V2[0]))
				mN := new(big.Int).Sub(new(big.Int).Mul(T0, &lat.V2[1]), new(big.Int).Mul(T1, &lat.V2[0]))
				nN := new(big.Int).Sub(new(big.Int).Mul(&lat.V1[0], T1), new(big.Int).Mul(&lat.V1[1], T0))
				mm := new(big.Int).Quo(mN, det)
				nn := new(big.Int).Quo(nN, det)
				W0 := new(big.Int).Add(new(big.Int).Mul(mm, &lat.V1[0]), new(big.Int).Mul(nn, &lat.V2[0]))
				W1 := new(big.Int).Add(new(big.Int).Mul(mm, &lat.V1[1]), new(big.Int).Mul(nn, &lat.V2[1]))
				x1 := new(big.Int).Add(&k[0], W0)
				x2 := new(big.Int).Add(&k[1], W1)
				// sanity of the adversary's own arithmetic
				chk := new(big.Int).Add(x1, new(big.Int).Mul(lam, x2))
				if chk.Mod(chk, r).Cmp(cdef) != 0 || x1.Sign() != sign(0).Sign() || x2.Sign() != sign(1).Sign() {
					return fmt.Errorf("adversary: could not build the compensation")
				}
				a1 := new(big.Int).Abs(x1)
				a2 := new(big.Int).Abs(x2)
				u1 := new(big.Int).Add(h[0], new(big.Int).Lsh(a1, nbits))
				u2 := new(big.Int).Add(h[1], new(big.Int).Lsh(a2, nbits))
				if !io.writeOut(out, []*big.Int{u1, u2, h[2], h[3]}) {
					return fmt.Errorf("adversary: compensation does not fit the limbs")
				}
				return nil
			})}
	}}
}

// forgeHighLimbsFake is the same cheat against scalarMulFakeGLV (curves without
// endomorphism): the point relation [s1]Q + [±s2]R = 0 is checked on the low
// (bits(r)+1)/2 bits of s1, s2; the scalar relation s1 + s*(±s2) = 0 (mod r) is
// repaired in the bits above.  The room is only 128 bits per sub-scalar here, so
// the adversary tries several target scalars t until the repair fits.
func forgeHighLimbsFake(d *emuCurveDesc, P wpt, s *big.Int, rng *rand.Rand) lie {
	name := "forge:half-GCD-of-t-in-the-low-bits+relation-repaired-in-the-high-bits,result=[t]P"
	c := d.c
	var tFound, s1, s2 *big.Int
	if new(big.Int).Mod(s, c.R).Sign() != 0 { // a zero scalar is replaced before the hint: nothing to forge
		for tries := 0; tries < 400 && tFound == nil; tries++ {
			t := randNonzero(rng, c.R)
			if a, b, ok := fakeGLVRepair(d, s, t); ok {
				tFound, s1, s2 = t, a, b
			}
		}
	}
	return lie{name, func(calls *int64) []solver.Option {
		if tFound == nil {
			// no fitting repair among the candidates: the lie degenerates to a refused hint
			return []solver.Option{ov(calls, "sw_emulated.halfGCD", func(m *big.Int, in, out []*big.Int) error {
				return fmt.Errorf("adversary: no target scalar with a fitting repair among 400 candidates")
			})}
		}
		target := c.mul(P, tFound)
		return []solver.Option{
			ov(calls, "sw_emulated.halfGCD", emuLie(hintByName("sw_emulated.halfGCD"), true, true, constOut(s1, s2))),
			ov(calls, "sw_emulated.halfGCDSigns", func(m *big.Int, in, out []*big.Int) error {
				return hintByName("sw_emulated.halfGCDSigns")(m, withFirstInput(in, tFound), out)
			}),
			ov(calls, "sw_emulated.scalarMulHint", emuLie(hintByName("sw_emulated.scalarMulHint"), false, true, func(io emuIO, h []*big.Int) ([]*big.Int, bool) {
				x, y := target.xy()
				return []*big.Int{x, y}, true
			}))}
	}}
}

// callEmuHint calls a registered emulated-convention hint on non-native inputs.
func callEmuHint(d *emuCurveDesc, hint string, nativeOut bool, nout int, vals ...*big.Int) []*big.Int {
	nl := d.nbLimbs
	in := []*big.Int{bi(64), bi(int64(nl))}
	in = append(in, limbsOf(d.c.R, nl)...)
	in = append(in, bi(int64(len(vals))))
	for _, v := range vals {
		in = append(in, bi(int64(nl)))
		in = append(in, limbsOf(v, nl)...)
	}
	n := nout * nl
	if nativeOut {
		n = nout
	}
	out := make([]*big.Int, n)
	for i := range out {
		out[i] = new(big.Int)
	}
	if err := hintByName(hint)(nativeBN254, in, out); err != nil {
		return nil
	}
	if nativeOut {
		return out
	}
	var res []*big.Int
	for i := 0; i < nout; i++ {
		res = append(res, recompose(out[i*nl:(i+1)*nl], 64))
	}
	return res
}

// fakeGLVRepair returns sub-scalars (s1, s2) whose low halves are the honest
// half-GCD of t and which satisfy s1 + s*(±s2) = 0 (mod r) for the real s,
// when such a pair fits the limbs.
func fakeGLVRepair(d *emuCurveDesc, s, t *big.Int) (*big.Int, *big.Int, bool) {
	r := d.c.R
	sReal := new(big.Int).Mod(s, r)
	if sReal.Sign() == 0 {
		return nil, nil, false
	}
	nbits := uint((r.BitLen() + 1) / 2)
	limit := new(big.Int).Lsh(bi(1), uint(d.capBit)-nbits)
	pow := new(big.Int).ModInverse(new(big.Int).Lsh(bi(1), nbits), r)
	l := callEmuHint(d, "sw_emulated.halfGCD", false, 2, t)
	sg := callEmuHint(d, "sw_emulated.halfGCDSigns", true, 1, t)
	if l == nil || sg == nil {
		return nil, nil, false
	}
	sigma := bi(1)
	if sg[0].Sign() != 0 {
		sigma = bi(-1)
	}
	ss := new(big.Int).Mul(sigma, sReal)
	ss.Mod(ss, r)
	// c' = -(l1 + σ s l2) / 2^nbits
	cdef := new(big.Int).Mul(ss, l[1])
	cdef.Add(cdef, l[0]).Neg(cdef).Mul(cdef, pow).Mod(cdef, r)
	var lat ecc.Lattice
	ecc.PrecomputeLattice(r, ss, &lat)
	k := ecc.SplitScalar(cdef, &lat)
	for _, dv := range [][2]int64{{0, 0}, {1, 0}, {-1, 0}, {0, 1}, {0, -1}, {1, 1}, {-1, -1}, {1, -1}, {-1, 1}} {
		a1 := new(big.Int).Set(&k[0])
		a2 := new(big.Int).Set(&k[1])
		a1.Add(a1, new(big.Int).Mul(bi(dv[0]), &lat.V1[0])).Add(a1, new(big.Int).Mul(bi(dv[1]), &lat.V2[0]))
		a2.Add(a2, new(big.Int).Mul(bi(dv[0]), &lat.V1[1])).Add(a2, new(big.Int).Mul(bi(dv[1]), &lat.V2[1]))
		if a1.Sign() < 0 || a2.Sign() < 0 || a1.Cmp(limit) >= 0 || a2.Cmp(limit) >= 0 {
			continue
		}
		chk := new(big.Int).Add(a1, new(big.Int).Mul(ss, a2))
		if chk.Mod(chk, r).Cmp(cdef) != 0 {
			continue
		}
		return new(big.Int).Add(l[0], new(big.Int).Lsh(a1, nbits)), new(big.Int).Add(l[1], new(big.Int).Lsh(a2, nbits)), true
	}
	return nil, nil, false
}

// advEcdsaForge is the end-to-end use of the cheat: a signature on a message
// for a public key whose secret nobody used, accepted by the compiled
// ecdsa.Verify circuit (curves whose scalar multiplication is scalarMulFakeGLV).
func advEcdsaForge(r *vcore.Run) {
	var d *emuCurveDesc
	for _, x := range emuCurves() {
		if x.c.Name == "P-256" {
			d = x
		}
	}
	c := d.c
	n := c.R
	rng := r.Rand("adv/ecdsa-forge")
	t := &advTarget{name: "ecdsa.Verify/P-256/r1cs", field: nativeBN254, builder: r1cs.NewBuilder[constraint.U64], circuit: &ecdsaCircuit[emulated.P256Fp, emulated.P256Fr]{}}
	if err := t.build(); err != nil {
		r.Inconclusive("adv:compile:" + t.name + ":" + firstLine(err.Error()))
		return
	}
	r.Count("adv.compiled-systems", 1)
	mkAsg := func(q wpt, e, rr, ss *big.Int) frontend.Circuit {
		ee, _ := scalarElem[emulated.P256Fr](e)
		re, _ := scalarElem[emulated.P256Fr](rr)
		se, _ := scalarElem[emulated.P256Fr](ss)
		return &ecdsaCircuit[emulated.P256Fp, emulated.P256Fr]{Sig: ecdsa.Signature[emulated.P256Fr]{R: re, S: se}, Msg: ee,
			Pub: ecdsa.PublicKey[emulated.P256Fp, emulated.P256Fr]{X: emulated.ValueOf[emulated.P256Fp](q.X), Y: emulated.ValueOf[emulated.P256Fp](q.Y)}}
	}
	solve := func(asg frontend.Circuit, opts []solver.Option) error {
		w, err := frontend.NewWitness(asg, t.field)
		if err != nil {
			return fmt.Errorf("harness: %w", err)
		}
		var serr error
		if p, st := vcore.Catch(func() { _, serr = t.ccs.Solve(w, opts...) }); p != nil {
			return fmt.Errorf("panic in Solve: %v %s", p, st)
		}
		return serr
	}
	// honest: a genuine signature solves, a wrong one does not
	sk := randNonzero(rng, n)
	Q := c.mul(c.G(), sk)
	e := randNonzero(rng, n)
	var gr, gs *big.Int
	for ok := false; !ok; {
		gr, gs, ok = ecdsaSignRef(c, sk, e, randNonzero(rng, n))
	}
	r.Eval("adv|ecdsa-forge|honest-valid", true)
	if err := solve(mkAsg(Q, e, gr, gs), nil); err != nil {
		r.Violation("adv/ecdsa.Verify/P-256/honest-solve-fails", "compiled ecdsa.Verify rejects a genuine signature: "+firstLine(err.Error()),
			map[string]any{"Q": Q.String(), "e": e.String(), "r": gr.String(), "s": gs.String()})
	} else {
		r.Count("adv.honest.solved-and-correct", 1)
	}
	r.Eval("adv|ecdsa-forge|honest-invalid", true)
	if err := solve(mkAsg(Q, new(big.Int).Add(e, bi(1)), gr, gs), nil); err == nil {
		r.Violation("adv/ecdsa.Verify/P-256/honest-hints-accept-invalid-signature", "compiled ecdsa.Verify accepts a wrong message with honest hints", map[string]any{"Q": Q.String()})
	} else {
		r.Count("adv.honest.rejected-invalid-signature", 1)
	}
	// forgery for a fresh key (its secret is drawn and thrown away)
	Q2 := c.mul(c.G(), randNonzero(rng, n))
	nForge := r.Pick(1, 3)
	for f := 0; f < nForge; f++ {
		var t1, t2, fr, fs, u1, u2, a1, a2, b1, b2 *big.Int
		found := false
		attempts := 0
		for outer := 0; outer < 40 && !found; outer++ {
			t1, t2 = randNonzero(rng, n), randNonzero(rng, n)
			q := c.add(c.mul(c.G(), t1), c.mul(Q2, t2))
			if q.Inf || q.X.Cmp(n) >= 0 {
				continue
			}
			fr = new(big.Int).Set(q.X)
			for inner := 0; inner < 200 && !found; inner++ {
				attempts++
				fs = randNonzero(rng, n)
				si := new(big.Int).ModInverse(fs, n)
				u1 = new(big.Int).Mul(e, si)
				u1.Mod(u1, n)
				u2 = new(big.Int).Mul(fr, si)
				u2.Mod(u2, n)
				var ok1, ok2 bool
				if a1, a2, ok1 = fakeGLVRepair(d, u1, t1); !ok1 {
					continue
				}
				if b1, b2, ok2 = fakeGLVRepair(d, u2, t2); !ok2 {
					continue
				}
				found = true
			}
		}
		r.Eval(fmt.Sprintf("adv|ecdsa-forge|%d", f), true)
		if !found {
			r.Inconclusive("adv:ecdsa-forge:no-fitting-repair-found")
			continue
		}
		r.Count("adv.ecdsa-forge.search-attempts", attempts)
		nativeOK := ecdsaVerifyRef(c, Q2, e, fr, fs)
		var calls int64
		pick := func(v *big.Int) int {
			switch {
			case v.Cmp(u1) == 0:
				return 1
			case v.Cmp(u2) == 0:
				return 2
			}
			return 0
		}
		hDec, hSign, hMul := hintByName("sw_emulated.halfGCD"), hintByName("sw_emulated.halfGCDSigns"), hintByName("sw_emulated.scalarMulHint")
		opts := []solver.Option{
			ov(&calls, "sw_emulated.halfGCD", func(m *big.Int, in, out []*big.Int) error {
				io := parseEmuInputs(in, true)
				switch pick(new(big.Int).Mod(io.in[0], n)) {
				case 1:
					io.writeOut(out, []*big.Int{a1, a2})
				case 2:
					io.writeOut(out, []*big.Int{b1, b2})
				default:
					return hDec(m, in, out)
				}
				return nil
			}),
			ov(&calls, "sw_emulated.halfGCDSigns", func(m *big.Int, in, out []*big.Int) error {
				io := parseEmuInputs(in, true)
				switch pick(new(big.Int).Mod(io.in[0], n)) {
				case 1:
					return hSign(m, withFirstInput(in, t1), out)
				case 2:
					return hSign(m, withFirstInput(in, t2), out)
				}
				return hSign(m, in, out)
			}),
			ov(&calls, "sw_emulated.scalarMulHint", func(m *big.Int, in, out []*big.Int) error {
				io := parseEmuInputs(in, false)
				nl := io.nbLimbs
				sc := recompose(io.in[2*nl:], uint(io.nbBits))
				var p wpt
				switch pick(new(big.Int).Mod(sc, n)) {
				case 1:
					p = c.mul(c.G(), t1)
				case 2:
					p = c.mul(Q2, t2)
				default:
					return hMul(m, in, out)
				}
				io.writeOut(out, []*big.Int{p.X, p.Y})
				return nil
			}),
		}
		err := solve(mkAsg(Q2, e, fr, fs), opts)
		rep := map[string]any{"target": t.name, "public_key": Q2.String(), "msg_hash": e.String(), "forged_r": fr.String(), "forged_s": fs.String(),
			"native_verifier_accepts": nativeOK, "t1": t1.String(), "t2": t2.String(), "u1=e/s": u1.String(), "u2=r/s": u2.String(),
			"lying_halfGCD_outputs_for_u1": bigStrs([]*big.Int{a1, a2}), "lying_halfGCD_outputs_for_u2": bigStrs([]*big.Int{b1, b2}), "hint_calls_intercepted": calls}
		r.Count("adv.hint-calls-intercepted", int(calls))
		switch {
		case nativeOK:
			r.Inconclusive("adv:ecdsa-forge:random-signature-happens-to-verify")
		case err != nil && strings.HasPrefix(err.Error(), "harness:"):
			r.Inconclusive("adv:" + firstLine(err.Error()))
		case err != nil:
			r.Count("adv.lies.solve-failed", 1)
			r.Count("adv.ecdsa-forge.rejected", 1)
			r.SampleClass("adv/ecdsa-forge/rejected", map[string]any{"solver_said": firstLine(err.Error())})
		default:
			r.Count("adv.lies.ACCEPTED-WITH-WRONG-RESULT", 1)
			r.Count("adv.ecdsa-forge.ACCEPTED", 1)
			r.Violation("adv/ecdsa.Verify/P-256/FORGED-SIGNATURE-ACCEPTED",
				"the compiled ecdsa.Verify circuit (P-256) is satisfiable, under lying halfGCD / scalarMulHint outputs, for a signature made without the secret key that the native verifier rejects", rep)
		}
	}
}

// ------------------------------------------------------------------ native 2-chain G1

func advNativeSW(r *vcore.Run) {
	n := nswDescs()[0]
	d := n.d
	c := d.c
	rng := r.Rand("adv/nsw")
	G := c.G()
	R1 := c.mul(G, randNonzero(rng, c.R))
	hDec := hintByName("sw_bls12377.decomposeScalarG1Simple")
	for _, complete := range []bool{false, true} {
		mode := map[bool]string{false: "incomplete", true: "complete"}[complete]
		for _, b := range builders(r) {
			s := randNonzero(rng, c.R)
			cs := &emuCase{Pkg: d.pkg, Curve: c.Name, Op: "ScalarMul", Complete: complete, Pts: []wpt{R1}, Ks: []*big.Int{s}, Native: n.native}
			circ, _, _, _ := d.build(cs, false)
			t := &advTarget{name: "sw_bls12377.G1.ScalarMul/" + mode + "/" + b.name, field: n.native, builder: b.b, circuit: circ}
			if err := t.build(); err != nil {
				r.Inconclusive("adv:compile:" + t.name + ":" + firstLine(err.Error()))
				continue
			}
			r.Count("adv.compiled-systems", 1)
			lam := d.lambda
			// gnark's inner-curve lambda is one of the two primitive cube roots; read it off an honest call
			probe := []*big.Int{new(big.Int), new(big.Int)}
			if err := hDec(n.native, []*big.Int{s}, probe); err == nil {
				// s = s1 + lam*s2  =>  lam = (s - s1)/s2 mod r
				if probe[1].Sign() != 0 {
					l := new(big.Int).Sub(s, probe[0])
					l.Mul(l, new(big.Int).ModInverse(new(big.Int).Mod(probe[1], c.R), c.R)).Mod(l, c.R)
					lam = l
				}
			}
			want := c.mul(R1, s)
			lies := []lie{
				{"honest", func(calls *int64) []solver.Option { return nil }},
				{"decomposition:s1+1", func(calls *int64) []solver.Option {
					return []solver.Option{ov(calls, "sw_bls12377.decomposeScalarG1Simple", func(m *big.Int, in, out []*big.Int) error {
						if err := hDec(m, in, out); err != nil {
							return err
						}
						out[0].Add(out[0], bi(1))
						return nil
					})}
				}},
				{"decomposition=(s,0)", func(calls *int64) []solver.Option {
					return []solver.Option{ov(calls, "sw_bls12377.decomposeScalarG1Simple", func(m *big.Int, in, out []*big.Int) error {
						out[0].Set(in[0])
						out[1].SetUint64(0)
						return nil
					})}
				}},
				{"decomposition:(s1+lambda,s2-1)", func(calls *int64) []solver.Option {
					return []solver.Option{ov(calls, "sw_bls12377.decomposeScalarG1Simple", func(m *big.Int, in, out []*big.Int) error {
						if err := hDec(m, in, out); err != nil {
							return err
						}
						out[0].Add(out[0], lam)
						out[1].Sub(out[1], bi(1))
						out[1].Mod(out[1], m)
						return nil
					})}
				}},
				{"decomposition:(s1-lambda,s2+1) over the native field", func(calls *int64) []solver.Option {
					return []solver.Option{ov(calls, "sw_bls12377.decomposeScalarG1Simple", func(m *big.Int, in, out []*big.Int) error {
						if err := hDec(m, in, out); err != nil {
							return err
						}
						out[0].Sub(out[0], lam).Mod(out[0], m)
						out[1].Add(out[1], bi(1))
						return nil
					})}
				}},
				{"decomposition:swapped", func(calls *int64) []solver.Option {
					return []solver.Option{ov(calls, "sw_bls12377.decomposeScalarG1Simple", func(m *big.Int, in, out []*big.Int) error {
						if err := hDec(m, in, out); err != nil {
							return err
						}
						out[0], out[1] = out[1], out[0]
						return nil
					})}
				}},
			}
			for _, l := range lies {
				var calls int64
				sk := &sink{}
				_, asg, _, _ := d.build(cs, false)
				err := t.solveWith(asg, sk, l.overrides(&calls))
				wx, wy := want.xy()
				rep := map[string]any{"target": t.name, "curve": c.Name, "lie": l.name, "inputs": cs.replay(), "oracle": want.String(), "engine": "frontend.Compile + Solve"}
				advVerdict(r, t.name, l.name, "P=random,s=random", err, sk, [2]*big.Int{wx, wy}, calls, rep)
			}
		}
	}
}

// ------------------------------------------------------------------ end to end: a Groth16 proof of a false statement

type tedClaimCircuit struct {
	P   twistededwards.Point `gnark:",public"`
	S   frontend.Variable    `gnark:",public"`
	R   twistededwards.Point `gnark:",public"`
	cfg *tedCfg
}

func (c *tedClaimCircuit) Define(api frontend.API) error {
	cv, err := twistededwards.NewEdCurve(api, c.cfg.id)
	if err != nil {
		return err
	}
	res := cv.ScalarMul(c.P, c.S)
	api.AssertIsEqual(res.X, c.R.X)
	api.AssertIsEqual(res.Y, c.R.Y)
	return nil
}

// advTedGroth16 asks the real prover for a proof of "[s]P = -P" (false for the
// random s used) with the lying hints, and the real verifier for its opinion.
func advTedGroth16(r *vcore.Run) {
	var d *tedDesc
	for _, x := range tedCurves() {
		if x.Name == "BN254" {
			d = x
		}
	}
	c := d.c
	rng := r.Rand("adv/ted-groth16")
	cfg := &tedCfg{id: d.ID}
	ccs, err := frontend.Compile(c.P, r1cs.NewBuilder[constraint.U64], &tedClaimCircuit{cfg: cfg})
	if err != nil {
		r.Inconclusive("adv:compile:ted-claim")
		return
	}
	pk, vk, err := groth16.Setup(ccs)
	if err != nil {
		r.Inconclusive("adv:setup:ted-claim")
		return
	}
	B := c.base()
	P, _ := c.mul(B, randNonzero(rng, c.Order))
	s := randNonzero(rng, c.Order)
	truth, _ := c.mul(P, s)
	negP := c.neg(P)
	ordInv := new(big.Int).ModInverse(c.Order, c.P)
	prove := func(claim epoint, opts ...solver.Option) (verified bool, perr error) {
		asg := &tedClaimCircuit{cfg: cfg, P: twistededwards.Point{X: P.X, Y: P.Y}, S: s, R: twistededwards.Point{X: claim.X, Y: claim.Y}}
		w, err := frontend.NewWitness(asg, c.P)
		if err != nil {
			return false, fmt.Errorf("harness: %w", err)
		}
		var proof groth16.Proof
		if p, _ := vcore.Catch(func() { proof, perr = groth16.Prove(ccs, pk, w, backend.WithSolverOptions(opts...)) }); p != nil {
			return false, fmt.Errorf("prover panicked: %v", p)
		}
		if perr != nil {
			return false, perr
		}
		pw, _ := w.Public()
		return groth16.Verify(proof, vk, pw) == nil, nil
	}
	r.Eval("adv|ted-groth16|honest-true-claim", true)
	if ok, err := prove(truth); err != nil || !ok {
		r.Inconclusive("adv:ted-groth16:honest-proof-failed")
		return
	}
	r.Count("adv.groth16.true-statement-proved-and-verified", 1)
	r.Eval("adv|ted-groth16|honest-false-claim", true)
	if ok, err := prove(negP); err == nil && ok {
		r.Violation("adv/twistededwards.ScalarMul/groth16/honest-prover-proves-false-statement", "honest hints prove [s]P=-P", map[string]any{"P": P.String(), "s": s.String()})
		return
	}
	r.Count("adv.groth16.false-statement-refused-with-honest-hints", 1)
	var calls int64
	ok, perr := prove(negP,
		ov(&calls, "twistededwards.halfGCD", func(m *big.Int, in, out []*big.Int) error {
			out[0].SetUint64(1)
			out[1].SetUint64(1)
			out[2].SetUint64(0)
			k := new(big.Int).Add(in[0], bi(1))
			out[3].Set(k.Mul(k, ordInv).Mod(k, m))
			return nil
		}),
		ov(&calls, "twistededwards.scalarMulHint", func(m *big.Int, in, out []*big.Int) error {
			out[0].Set(negP.X)
			out[1].Set(negP.Y)
			return nil
		}))
	r.Eval("adv|ted-groth16|lying-false-claim", true)
	r.Count("adv.hint-calls-intercepted", int(calls))
	rep := map[string]any{"circuit": "public P, s, R; asserts twistededwards.ScalarMul(P,s) == R (Baby Jubjub over BN254)", "P": P.String(), "s": s.String(), "claimed_R": negP.String(),
		"true_[s]P": truth.String(), "lie": "halfGCD=(1,1,0,k=(1+s)/order mod p), scalarMulHint=-P", "backend": "groth16 Setup/Prove/Verify"}
	switch {
	case perr != nil:
		r.Count("adv.lies.solve-failed", 1)
		r.Count("adv.groth16.false-statement-refused-under-lying-hints", 1)
	case ok:
		r.Count("adv.groth16.FALSE-STATEMENT-PROOF-VERIFIES", 1)
		// same defect as the Solve-level lies of advTed: one signature
		r.Violation("adv/twistededwards.ScalarMul/UNSOUND/scalar-decomposition-checked-modulo-the-native-field-with-a-free-quotient",
			"groth16.Verify accepts a proof, made by groth16.Prove with lying hint functions, of the false public statement [s]P = -P", rep)
	default:
		r.Count("adv.groth16.proof-made-but-rejected", 1)
	}
}

// ------------------------------------------------------------------ pairing residue-witness hint (thorough)

func callEmuHintMod(mod *big.Int, nl int, hint string, nout int, vals ...*big.Int) []*big.Int {
	in := []*big.Int{bi(64), bi(int64(nl))}
	in = append(in, limbsOf(mod, nl)...)
	in = append(in, bi(int64(len(vals))))
	for _, v := range vals {
		in = append(in, bi(int64(nl)))
		in = append(in, limbsOf(v, nl)...)
	}
	out := make([]*big.Int, nout*nl)
	for i := range out {
		out[i] = new(big.Int)
	}
	if err := hintByName(hint)(nativeBN254, in, out); err != nil {
		return nil
	}
	var res []*big.Int
	for i := 0; i < nout; i++ {
		res = append(res, recompose(out[i*nl:(i+1)*nl], 64))
	}
	return res
}

func advPairing(r *vcore.Run) {
	rng := r.Rand("adv/pairing")
	cfg := &pairCfg{kind: "check", n: 2}
	t := &advTarget{name: "sw_bn254.PairingCheck(n=2)/r1cs", field: nativeBN254, builder: r1cs.NewBuilder[constraint.U64], circuit: &pairCircuitbn254{cfg: cfg}}
	if err := t.build(); err != nil {
		r.Inconclusive("adv:compile:" + t.name + ":" + firstLine(err.Error()))
		return
	}
	r.Count("adv.compiled-systems", 1)
	r.Set("adv.compile_seconds."+t.name, t.compile.Seconds())
	_, _, g1, g2 := bn254.Generators()
	fr := bn254.ID.ScalarField()
	fp := bn254.ID.BaseField()
	a, b := randNonzero(rng, fr), randNonzero(rng, fr)
	mkPts := func(second *big.Int) ([maxPairs]bn254.G1Affine, [maxPairs]bn254.G2Affine) {
		var P [maxPairs]bn254.G1Affine
		var Q [maxPairs]bn254.G2Affine
		P[0].ScalarMultiplication(&g1, a)
		Q[0].ScalarMultiplication(&g2, b)
		P[1].ScalarMultiplication(&g1, second)
		Q[1] = g2
		for i := 2; i < maxPairs; i++ {
			P[i], Q[i] = g1, g2
		}
		return P, Q
	}
	ab := new(big.Int).Mul(a, b)
	trueSecond := new(big.Int).Mod(new(big.Int).Neg(ab), fr)
	falseSecond := new(big.Int).Mod(new(big.Int).Add(trueSecond, bi(1)), fr)
	coords := func(P [maxPairs]bn254.G1Affine, Q [maxPairs]bn254.G2Affine) []*big.Int {
		var v []*big.Int
		for i := 0; i < 2; i++ {
			v = append(v, P[i].X.BigInt(new(big.Int)), P[i].Y.BigInt(new(big.Int)))
		}
		for i := 0; i < 2; i++ {
			v = append(v, Q[i].X.A0.BigInt(new(big.Int)), Q[i].X.A1.BigInt(new(big.Int)), Q[i].Y.A0.BigInt(new(big.Int)), Q[i].Y.A1.BigInt(new(big.Int)))
		}
		return v
	}
	tp, tq := mkPts(trueSecond)
	witnessOfTrue := callEmuHintMod(fp, 4, "sw_bn254.pairingCheckHint", 18, coords(tp, tq)...)
	hHonest := hintByName("sw_bn254.pairingCheckHint")
	one := func() []*big.Int {
		v := make([]*big.Int, 18)
		for i := range v {
			v[i] = new(big.Int)
		}
		v[0].SetUint64(1)
		v[12].SetUint64(1)
		return v
	}
	type st struct {
		class  string
		second *big.Int
		truth  bool
	}
	for _, s := range []st{{"product=1", trueSecond, true}, {"product!=1", falseSecond, false}} {
		P, Q := mkPts(s.second)
		lies := []lie{
			{"honest", func(calls *int64) []solver.Option { return nil }},
			{"residue-witness:first-coefficient+1", func(calls *int64) []solver.Option {
				return []solver.Option{ov(calls, "sw_bn254.pairingCheckHint", emuLie(hHonest, true, true, func(io emuIO, h []*big.Int) ([]*big.Int, bool) {
					h[0] = new(big.Int).Mod(new(big.Int).Add(h[0], bi(1)), io.mod)
					return h, true
				}))}
			}},
			{"residue-witness=1,scaling=1", func(calls *int64) []solver.Option {
				return []solver.Option{ov(calls, "sw_bn254.pairingCheckHint", emuLie(hHonest, true, true, constOut(one()...)))}
			}},
			{"residue-witness=0", func(calls *int64) []solver.Option {
				z := make([]*big.Int, 18)
				for i := range z {
					z[i] = new(big.Int)
				}
				return []solver.Option{ov(calls, "sw_bn254.pairingCheckHint", emuLie(hHonest, true, true, constOut(z...)))}
			}},
			{"residue-witness-of-another(true)-statement", func(calls *int64) []solver.Option {
				return []solver.Option{ov(calls, "sw_bn254.pairingCheckHint", emuLie(hHonest, true, true, func(io emuIO, h []*big.Int) ([]*big.Int, bool) {
					if witnessOfTrue == nil {
						return nil, false
					}
					return witnessOfTrue, true
				}))}
			}},
			{"residue-witness=random", func(calls *int64) []solver.Option {
				v := make([]*big.Int, 18)
				for i := range v {
					v[i] = randBelow(rng, fp)
				}
				return []solver.Option{ov(calls, "sw_bn254.pairingCheckHint", emuLie(hHonest, true, true, constOut(v...)))}
			}},
		}
		for _, l := range lies {
			if s.truth && l.name == "residue-witness-of-another(true)-statement" {
				continue
			}
			asg := &pairCircuitbn254{cfg: cfg, B: 0}
			for i := 0; i < 3; i++ {
				asg.P[i] = sw_bn254.NewG1Affine(P[i])
				asg.Q[i] = sw_bn254.NewG2Affine(Q[i])
			}
			var gt bn254.GT
			gt.SetOne()
			asg.X = sw_bn254.NewGTEl(gt)
			asg.Y = sw_bn254.NewGTEl(gt)
			var calls int64
			w, err := frontend.NewWitness(asg, t.field)
			if err != nil {
				r.Inconclusive("adv:pairing-witness")
				continue
			}
			var serr error
			if p, _ := vcore.Catch(func() { _, serr = t.ccs.Solve(w, l.overrides(&calls)...) }); p != nil {
				serr = fmt.Errorf("panic in Solve: %v", p)
			}
			r.Eval("adv|pairing|"+s.class+"|"+l.name, true)
			r.Count("adv.hint-calls-intercepted", int(calls))
			r.Count("adv.cases."+t.name, 1)
			rep := map[string]any{"target": t.name, "statement": "e([a]G1,[b]G2) e([x]G1,G2) == 1", "a": a.String(), "b": b.String(), "x": s.second.String(), "statement_is_true": s.truth, "lie": l.name}
			switch {
			case serr == nil && s.truth:
				if l.name == "honest" {
					r.Count("adv.honest.solved-and-correct", 1)
				} else {
					r.Count("adv.lies.accepted-with-same-result", 1)
				}
			case serr == nil:
				r.Count("adv.lies.ACCEPTED-WITH-WRONG-RESULT", 1)
				r.Violation("adv/sw_bn254.PairingCheck/false-pairing-equation-accepted/"+l.name, "Solve succeeded for a pairing product different from one", rep)
			case l.name == "honest" && s.truth:
				rep["error"] = serr.Error()
				r.Violation("adv/sw_bn254.PairingCheck/honest-solve-fails", "compiled PairingCheck rejects a true equation: "+firstLine(serr.Error()), rep)
			default:
				r.Count("adv.lies.solve-failed", 1)
				r.Count("adv.lies.solve-failed."+t.name, 1)
			}
		}
	}
}

// advCompiledSignatures: honest compiled+solved sample of the signature gadgets.
func advCompiledSignatures(r *vcore.Run) {
	rng := r.Rand("adv/compiled-signatures")
	// EdDSA on Baby Jubjub
	var td *tedDesc
	for _, x := range tedCurves() {
		if x.Name == "BN254" {
			td = x
		}
	}
	cfg := &tedCfg{id: td.ID}
	if ccs, err := frontend.Compile(td.c.P, r1cs.NewBuilder[constraint.U64], &eddsaCircuit{cfg: cfg}); err == nil {
		cases, _ := genEddsa(td, rng)
		for _, c := range cases {
			asg := &eddsaCircuit{cfg: cfg, Message: c.Msg, PublicKey: eddsa.PublicKey{A: twistededwards.Point{X: c.A[0], Y: c.A[1]}},
				Signature: eddsa.Signature{R: twistededwards.Point{X: c.R[0], Y: c.R[1]}, S: c.S}}
			w, err := frontend.NewWitness(asg, td.c.P)
			if err != nil {
				continue
			}
			_, serr := ccs.Solve(w)
			judgeSig(r, "eddsa", "compiled|"+c.key(), c.Curve, c.Class+"(compiled)", c.WantAccept, c.InDomain, outcome{Sat: serr == nil, Err: errStr(serr)}, c.replay())
			r.Count("compiled-and-solved.eddsa", 1)
		}
	}
	// ECDSA on secp256k1
	for _, d := range emuCurves() {
		if d.c.Name != "secp256k1" {
			continue
		}
		ccs, err := frontend.Compile(nativeBN254, r1cs.NewBuilder[constraint.U64], &ecdsaCircuit[emulated.Secp256k1Fp, emulated.Secp256k1Fr]{})
		if err != nil {
			r.Inconclusive("adv:compile:ecdsa-secp256k1")
			continue
		}
		for _, c := range pick(rng, genEcdsa(d, rng), 8) {
			e, ok1 := scalarElem[emulated.Secp256k1Fr](c.E)
			rr, ok2 := scalarElem[emulated.Secp256k1Fr](c.R)
			ss, ok3 := scalarElem[emulated.Secp256k1Fr](c.S)
			if !ok1 || !ok2 || !ok3 {
				continue
			}
			x, y := c.Q.xy()
			asg := &ecdsaCircuit[emulated.Secp256k1Fp, emulated.Secp256k1Fr]{Sig: ecdsa.Signature[emulated.Secp256k1Fr]{R: rr, S: ss}, Msg: e,
				Pub: ecdsa.PublicKey[emulated.Secp256k1Fp, emulated.Secp256k1Fr]{X: emulated.ValueOf[emulated.Secp256k1Fp](x), Y: emulated.ValueOf[emulated.Secp256k1Fp](y)}}
			w, err := frontend.NewWitness(asg, nativeBN254)
			if err != nil {
				continue
			}
			var serr error
			if p, _ := vcore.Catch(func() { _, serr = ccs.Solve(w) }); p != nil {
				serr = fmt.Errorf("panic: %v", p)
			}
			judgeSig(r, "ecdsa", "compiled|"+c.key(), c.Curve, c.Class+"(compiled)", c.WantAccept, c.InDomain, outcome{Sat: serr == nil, Err: errStr(serr)}, c.replay())
			r.Count("compiled-and-solved.ecdsa", 1)
		}
	}
}

func errStr(e error) string {
	if e == nil {
		return ""
	}
	return firstLine(e.Error())
}
