//go:build verif

package c16

// The attacked gadgets and the lies.

import (
	"fmt"
	"math/big"

	"github.com/consensys/gnark-crypto/ecc"
	"github.com/consensys/gnark/constraint/solver"
	"github.com/consensys/gnark/frontend"
	"github.com/consensys/gnark/std/algebra/native/twistededwards"

	"github.com/consensys/gnark/verifharness/internal/vcore"
)

// emuLie builds a lying version of an emulated-convention hint: the honest hint
// runs first, then f may replace the (non-native) outputs.
func emuLie(honest solver.Hint, emulatedIn, emulatedOut bool, f func(io emuIO, honest []*big.Int) ([]*big.Int, bool)) solver.Hint {
	return func(m *big.Int, in, out []*big.Int) error {
		if err := honest(m, in, out); err != nil {
			return err
		}
		io := parseEmuInputs(in, emulatedIn)
		var hv []*big.Int
		if emulatedOut {
			hv = io.readOut(out)
		} else {
			for _, o := range out {
				hv = append(hv, new(big.Int).Set(o))
			}
		}
		nv, ok := f(io, hv)
		if !ok {
			return nil
		}
		if emulatedOut {
			if !io.writeOut(out, nv) {
				return fmt.Errorf("adversary: value does not fit the limbs")
			}
			return nil
		}
		for i := range out {
			out[i].Set(nv[i])
		}
		return nil
	}
}

func constOut(vals ...*big.Int) func(io emuIO, honest []*big.Int) ([]*big.Int, bool) {
	return func(io emuIO, honest []*big.Int) ([]*big.Int, bool) { return vals, true }
}

func ov(calls *int64, name string, h solver.Hint) solver.Option {
	return solver.OverrideHint(solver.GetHintID(hintByName(name)), counted(calls, h))
}

// ------------------------------------------------------------------ twisted Edwards

func advTed(r *vcore.Run) {
	var d *tedDesc
	for _, x := range tedCurves() {
		if x.Name == "BN254" {
			d = x
		}
	}
	c := d.c
	rng := r.Rand("adv/ted")
	hHalf := hintByName("twistededwards.halfGCD")
	hMul := hintByName("twistededwards.scalarMulHint")
	for _, b := range builders(r) {
		cfg := &tedCfg{id: d.ID, op: "ScalarMul"}
		t := &advTarget{name: "twistededwards.ScalarMul/" + b.name, field: c.P, builder: b.b, circuit: &tedCircuit{cfg: cfg}}
		if err := t.build(); err != nil {
			r.Inconclusive("adv:compile:" + t.name)
			continue
		}
		r.Count("adv.compiled-systems", 1)
		type in struct {
			class string
			p     epoint
			s     *big.Int
		}
		B := c.base()
		R1, _ := c.mul(B, randNonzero(rng, c.Order))
		ins := []in{{"P=random,s=random", R1, randNonzero(rng, c.Order)}, {"P=base,s=random", B, randNonzero(rng, c.Order)}, {"P=random,s=2", R1, bi(2)}}
		if r.Thorough() {
			ins = append(ins, in{"P=random,s=order-1", R1, new(big.Int).Sub(c.Order, bi(1))}, in{"P=random,s=random", R1, randNonzero(rng, c.Order)})
		}
		for _, x := range ins {
			x := x
			want, _ := c.mul(x.p, x.s)
			wrong, _ := c.mul(x.p, new(big.Int).Add(x.s, bi(1)))
			negP := c.neg(x.p)
			tOther := randNonzero(rng, c.Order)
			other, _ := c.mul(x.p, tOther)
			ordInv := new(big.Int).ModInverse(c.Order, c.P)
			lies := []lie{
				{"honest", func(calls *int64) []solver.Option { return nil }},
				{"halfGCD=all-zero,result=[s+1]P", func(calls *int64) []solver.Option {
					return []solver.Option{
						ov(calls, "twistededwards.halfGCD", func(m *big.Int, in, out []*big.Int) error {
							for _, o := range out {
								o.SetUint64(0)
							}
							return nil
						}),
						ov(calls, "twistededwards.scalarMulHint", func(m *big.Int, in, out []*big.Int) error {
							out[0].Set(wrong.X)
							out[1].Set(wrong.Y)
							return nil
						})}
				}},
				{"halfGCD=(1,1,k=(1+s)/order mod p),result=-P", func(calls *int64) []solver.Option {
					return []solver.Option{
						ov(calls, "twistededwards.halfGCD", func(m *big.Int, in, out []*big.Int) error {
							out[0].SetUint64(1)
							out[1].SetUint64(1)
							out[2].SetUint64(0)
							k := new(big.Int).Add(in[0], bi(1))
							k.Mul(k, ordInv).Mod(k, m)
							out[3].Set(k)
							return nil
						}),
						ov(calls, "twistededwards.scalarMulHint", func(m *big.Int, in, out []*big.Int) error {
							out[0].Set(negP.X)
							out[1].Set(negP.Y)
							return nil
						})}
				}},
				{"halfGCD=decomposition-of-another-scalar-t(k solved mod p),result=[t]P", func(calls *int64) []solver.Option {
					return []solver.Option{
						ov(calls, "twistededwards.halfGCD", func(m *big.Int, in, out []*big.Int) error {
							// honest decomposition of t: s1 + s2*t = 0 mod order
							if err := hHalf(m, []*big.Int{tOther, in[1]}, out); err != nil {
								return err
							}
							// re-solve k for the real scalar modulo the SNARK field
							s2s := new(big.Int).Mul(out[1], in[0])
							var k *big.Int
							if out[2].Sign() == 0 {
								k = new(big.Int).Add(out[0], s2s)
							} else {
								k = new(big.Int).Sub(out[0], s2s)
							}
							k.Mul(k, ordInv).Mod(k, m)
							out[3].Set(k)
							return nil
						}),
						ov(calls, "twistededwards.scalarMulHint", func(m *big.Int, in, out []*big.Int) error {
							out[0].Set(other.X)
							out[1].Set(other.Y)
							return nil
						})}
				}},
				{"halfGCD=doubled-decomposition", func(calls *int64) []solver.Option {
					return []solver.Option{ov(calls, "twistededwards.halfGCD", func(m *big.Int, in, out []*big.Int) error {
						if err := hHalf(m, in, out); err != nil {
							return err
						}
						out[0].Lsh(out[0], 1)
						out[1].Lsh(out[1], 1)
						out[3].Lsh(out[3], 1)
						return nil
					})}
				}},
				{"halfGCD:s1+1", func(calls *int64) []solver.Option {
					return []solver.Option{ov(calls, "twistededwards.halfGCD", func(m *big.Int, in, out []*big.Int) error {
						if err := hHalf(m, in, out); err != nil {
							return err
						}
						out[0].Add(out[0], bi(1))
						return nil
					})}
				}},
				{"halfGCD:sign-bit-flipped", func(calls *int64) []solver.Option {
					return []solver.Option{ov(calls, "twistededwards.halfGCD", func(m *big.Int, in, out []*big.Int) error {
						if err := hHalf(m, in, out); err != nil {
							return err
						}
						out[2].Xor(out[2], bi(1))
						return nil
					})}
				}},
				{"result=-[s]P", func(calls *int64) []solver.Option {
					return []solver.Option{ov(calls, "twistededwards.scalarMulHint", func(m *big.Int, in, out []*big.Int) error {
						if err := hMul(m, in, out); err != nil {
							return err
						}
						out[0].Sub(m, out[0]).Mod(out[0], m)
						return nil
					})}
				}},
				{"result=identity", func(calls *int64) []solver.Option {
					return []solver.Option{ov(calls, "twistededwards.scalarMulHint", func(m *big.Int, in, out []*big.Int) error {
						out[0].SetUint64(0)
						out[1].SetUint64(1)
						return nil
					})}
				}},
			}
			for _, l := range lies {
				var calls int64
				sk := &sink{}
				asg := &tedCircuit{cfg: cfg, P: twistededwards.Point{X: x.p.X, Y: x.p.Y}, Q: twistededwards.Point{X: 0, Y: 1}, S1: x.s, S2: 0}
				err := t.solveWith(asg, sk, l.overrides(&calls))
				rep := map[string]any{"target": t.name, "curve": "BN254 (Baby Jubjub)", "lie": l.name, "inputs": map[string]string{"P": x.p.String(), "s": x.s.String()}, "oracle": want.String(),
					"t_used_by_the_lie": tOther.String(), "engine": "frontend.Compile + Solve"}
				advVerdict(r, t.name, l.name, x.class, err, sk, [2]*big.Int{want.X, want.Y}, calls, rep)
			}
		}
	}
}

var _ = ecc.BN254
var _ frontend.Variable

// ------------------------------------------------------------------ emulated short Weierstrass

// withFirstInput returns a copy of the native inputs of an emulated-input hint
// call in which the first non-native input is replaced by v.
func withFirstInput(in []*big.Int, v *big.Int) []*big.Int {
	out := make([]*big.Int, len(in))
	for i := range in {
		out[i] = new(big.Int).Set(in[i])
	}
	nbBits := uint(in[0].Int64())
	nbLimbs := int(in[1].Int64())
	p := 3 + nbLimbs
	l := int(in[p].Int64())
	mask := new(big.Int).Sub(new(big.Int).Lsh(bi(1), nbBits), bi(1))
	t := new(big.Int).Set(v)
	for j := 0; j < l; j++ {
		out[p+1+j].And(t, mask)
		t.Rsh(t, nbBits)
	}
	return out
}

type advIn struct {
	class string
	pts   []wpt
	ks    []*big.Int
	only  []string // when set, only these lies (plus honest) run on this input
}

func advEmu(r *vcore.Run, curve, op string, complete bool) {
	var d *emuCurveDesc
	for _, x := range emuCurves() {
		if x.c.Name == curve {
			d = x
		}
	}
	c := d.c
	mode := "incomplete"
	if complete {
		mode = "complete"
	}
	rng := r.Rand("adv/emu/" + curve + "/" + op + "/" + mode)
	G := c.G()
	R1 := c.mul(G, randNonzero(rng, c.R))
	rk := func() *big.Int { return randNonzero(rng, c.R) }
	var ins []advIn
	switch op {
	case "ScalarMul":
		ins = []advIn{{class: "P=random,s=random", pts: []wpt{R1}, ks: []*big.Int{rk()}}, {class: "P=G,s=random", pts: []wpt{G}, ks: []*big.Int{rk()}}}
		if complete {
			ins = append(ins,
				advIn{class: "P=random,s=0", pts: []wpt{R1}, ks: []*big.Int{bi(0)}, only: []string{"result=[s+1]P", "result=(0,0)"}},
				advIn{class: "P=inf,s=random", pts: []wpt{winf()}, ks: []*big.Int{rk()}, only: []string{"result=G", "result=(0,0)"}},
			)
			if d.glv {
				// s = -1 is special-cased by the GLV+fakeGLV method
				ins = append(ins, advIn{class: "P=random,s=r-1", pts: []wpt{R1}, ks: []*big.Int{new(big.Int).Sub(c.R, bi(1))}, only: []string{"result=[s+1]P", "result=G"}})
			}
		}
		if r.Thorough() {
			ins = append(ins, advIn{class: "P=random,s=random", pts: []wpt{c.mul(G, rk())}, ks: []*big.Int{rk()}})
		}
	case "JointScalarMulBase":
		ins = []advIn{{class: "P=random,s=random,random", pts: []wpt{R1}, ks: []*big.Int{rk(), rk()}}}
	}
	for _, b := range builders(r) {
		first := &emuCase{Pkg: d.pkg, Curve: curve, Op: op, Complete: complete, Pts: ins[0].pts, Ks: ins[0].ks, Native: nativeBN254}
		circ, _, _, _ := d.build(first, false)
		t := &advTarget{name: fmt.Sprintf("sw_emulated.%s/%s/%s/%s", op, glvKind(d), mode, b.name), field: nativeBN254, builder: b.b, circuit: circ}
		if err := t.build(); err != nil {
			r.Inconclusive("adv:compile:" + t.name + ":" + firstLine(err.Error()))
			continue
		}
		r.Count("adv.compiled-systems", 1)
		r.Set("adv.compile_seconds."+t.name, t.compile.Seconds())
		r.Set("adv.constraints."+t.name, t.ccs.GetNbConstraints())
		for _, x := range ins {
			cs := &emuCase{Pkg: d.pkg, Curve: curve, Op: op, Complete: complete, Pts: x.pts, Ks: x.ks, Native: nativeBN254}
			var want wpt
			if op == "ScalarMul" {
				want = c.mul(x.pts[0], x.ks[0])
			} else {
				want = c.add(c.mul(G, x.ks[1]), c.mul(x.pts[0], x.ks[0]))
			}
			P := x.pts[0]
			s := x.ks[0]
			tOther := rk()
			pt := func(p wpt) []*big.Int { a, b := p.xy(); return []*big.Int{a, b} }
			resultLie := func(name string, p wpt) lie {
				return lie{name, func(calls *int64) []solver.Option {
					return []solver.Option{ov(calls, "sw_emulated.scalarMulHint", emuLie(hintByName("sw_emulated.scalarMulHint"), false, true, constOut(pt(p)...)))}
				}}
			}
			lies := []lie{{"honest", func(calls *int64) []solver.Option { return nil }}}
			if op == "ScalarMul" {
				lies = append(lies,
					resultLie("result=P", P), resultLie("result=-P", c.neg(P)), resultLie("result=(0,0)", winf()),
					resultLie("result=[s+1]P", c.mul(P, new(big.Int).Add(s, bi(1)))), resultLie("result=G", G), resultLie("result=-[s]P", c.neg(want)))
				decName, signName, nOut := "sw_emulated.halfGCD", "sw_emulated.halfGCDSigns", 2
				if d.glv {
					decName, signName, nOut = "sw_emulated.halfGCDEisenstein", "sw_emulated.halfGCDEisensteinSigns", 4
				}
				hDec, hSign := hintByName(decName), hintByName(signName)
				zeros := make([]*big.Int, nOut)
				for i := range zeros {
					zeros[i] = new(big.Int)
				}
				wrong := c.mul(P, new(big.Int).Add(s, bi(1)))
				lies = append(lies,
					lie{"decomposition=all-zero,result=[s+1]P", func(calls *int64) []solver.Option {
						return []solver.Option{ov(calls, decName, emuLie(hDec, true, true, constOut(zeros...))),
							ov(calls, "sw_emulated.scalarMulHint", emuLie(hintByName("sw_emulated.scalarMulHint"), false, true, constOut(pt(wrong)...)))}
					}},
					lie{"decomposition-of-another-scalar-t,result=[t]P", func(calls *int64) []solver.Option {
						return []solver.Option{
							ov(calls, decName, func(m *big.Int, in, out []*big.Int) error { return hDec(m, withFirstInput(in, tOther), out) }),
							ov(calls, signName, func(m *big.Int, in, out []*big.Int) error { return hSign(m, withFirstInput(in, tOther), out) }),
							ov(calls, "sw_emulated.scalarMulHint", emuLie(hintByName("sw_emulated.scalarMulHint"), false, true, constOut(pt(c.mul(P, tOther))...)))}
					}},
					lie{"decomposition:first-output+1", func(calls *int64) []solver.Option {
						return []solver.Option{ov(calls, decName, emuLie(hDec, true, true, func(io emuIO, h []*big.Int) ([]*big.Int, bool) {
							h[0] = new(big.Int).Add(h[0], bi(1))
							return h, true
						}))}
					}},
					lie{"decomposition:doubled", func(calls *int64) []solver.Option {
						return []solver.Option{ov(calls, decName, emuLie(hDec, true, true, func(io emuIO, h []*big.Int) ([]*big.Int, bool) {
							for i := range h {
								h[i] = new(big.Int).Lsh(h[i], 1)
							}
							return h, true
						}))}
					}},
					lie{"signs:first-flipped", func(calls *int64) []solver.Option {
						return []solver.Option{ov(calls, signName, emuLie(hSign, true, false, func(io emuIO, h []*big.Int) ([]*big.Int, bool) {
							h[0] = new(big.Int).Xor(h[0], bi(1))
							return h, true
						}))}
					}},
					lie{"signs:all-flipped", func(calls *int64) []solver.Option {
						return []solver.Option{ov(calls, signName, emuLie(hSign, true, false, func(io emuIO, h []*big.Int) ([]*big.Int, bool) {
							for i := range h {
								h[i] = new(big.Int).Xor(h[i], bi(1))
							}
							return h, true
						}))}
					}},
				)
				if d.glv {
					lies = append(lies, forgeHighLimbs(d, P, s, tOther))
				}
			} else {
				hDec, hSign := hintByName("sw_emulated.decomposeScalarG1Subscalars"), hintByName("sw_emulated.decomposeScalarG1Signs")
				lies = append(lies,
					lie{"decomposition=(s,0)", func(calls *int64) []solver.Option {
						return []solver.Option{
							ov(calls, "sw_emulated.decomposeScalarG1Subscalars", emuLie(hDec, true, true, func(io emuIO, h []*big.Int) ([]*big.Int, bool) {
								return []*big.Int{new(big.Int).Mod(io.in[0], io.mod), new(big.Int)}, true
							})),
							ov(calls, "sw_emulated.decomposeScalarG1Signs", emuLie(hSign, true, false, constOut(new(big.Int), new(big.Int))))}
					}},
					lie{"decomposition:s1+1", func(calls *int64) []solver.Option {
						return []solver.Option{ov(calls, "sw_emulated.decomposeScalarG1Subscalars", emuLie(hDec, true, true, func(io emuIO, h []*big.Int) ([]*big.Int, bool) {
							h[0] = new(big.Int).Add(h[0], bi(1))
							return h, true
						}))}
					}},
					lie{"decomposition:(s1+2^nbits*a, s2 solved mod r)", func(calls *int64) []solver.Option {
						return []solver.Option{ov(calls, "sw_emulated.decomposeScalarG1Subscalars", func(m *big.Int, in, out []*big.Int) error {
							// needs the signs: computed alongside
							so := []*big.Int{new(big.Int), new(big.Int)}
							if err := hSign(m, in, so); err != nil {
								return err
							}
							return emuLie(hDec, true, true, func(io emuIO, h []*big.Int) ([]*big.Int, bool) {
								nbits := uint(io.mod.BitLen()>>1 + 2)
								// signed s1' = ±(|s1| + 2^nbits * 5); s2' = (s - s1')/lambda mod r, taken as |s2'| with sign +
								s1 := new(big.Int).Add(h[0], new(big.Int).Lsh(bi(5), nbits))
								sg := new(big.Int).Set(s1)
								if so[0].Sign() != 0 {
									sg.Neg(sg)
								}
								s2 := new(big.Int).Sub(io.in[0], sg)
								s2.Mul(s2, new(big.Int).ModInverse(io.in[1], io.mod)).Mod(s2, io.mod)
								if so[1].Sign() != 0 {
									s2.Sub(io.mod, s2)
								}
								return []*big.Int{s1, s2}, true
							})(m, in, out)
						})}
					}},
					lie{"signs:first-flipped", func(calls *int64) []solver.Option {
						return []solver.Option{ov(calls, "sw_emulated.decomposeScalarG1Signs", emuLie(hSign, true, false, func(io emuIO, h []*big.Int) ([]*big.Int, bool) {
							h[0] = new(big.Int).Xor(h[0], bi(1))
							return h, true
						}))}
					}},
				)
			}
			for _, l := range lies {
				if len(x.only) > 0 && l.name != "honest" {
					keep := false
					for _, o := range x.only {
						if o == l.name {
							keep = true
						}
					}
					if !keep {
						continue
					}
				}
				var calls int64
				var fp = d.c.P
				sk := &sink{bitsPerLimb: 64, mod: fp}
				_, asg, _, ok := d.build(cs, false)
				if !ok {
					continue
				}
				err := t.solveWith(asg, sk, l.overrides(&calls))
				wx, wy := want.xy()
				rep := map[string]any{"target": t.name, "curve": curve, "lie": l.name, "inputs": cs.replay(), "oracle": want.String(), "t_used_by_the_lie": tOther.String(), "engine": "frontend.Compile + Solve"}
				advVerdict(r, t.name, l.name, x.class, err, sk, [2]*big.Int{wx, wy}, calls, rep)
			}
		}
	}
}

// forgeHighLimbs is the best-effort cheat against scalarMulGLVAndFakeGLV: claim
// [s]P = [t]P for an unrelated t.  The point relation is checked on the low
// nbits bits of (u1,u2,v1,v2) only, so the adversary hands over the honest
// Eisenstein half-GCD of t in the low bits and repairs the scalar relation
// s(v1+λv2)+u1+λu2 = 0 (mod r), which must hold for the real s, by adding
// multiples of 2^nbits to u1 and u2 (a GLV-style decomposition of the defect,
// shifted deep into the wanted sign quadrant so that both additions are
// non-negative).  It is stopped only if the gadget constrains the width of the
// sub-scalars.
func forgeHighLimbs(d *emuCurveDesc, P wpt, s, t *big.Int) lie {
	name := "forge:eisenstein-decomposition-of-t-in-the-low-bits+relation-repaired-in-the-high-bits,result=[t]P"
	hDec, hSign := hintByName("sw_emulated.halfGCDEisenstein"), hintByName("sw_emulated.halfGCDEisensteinSigns")
	c := d.c
	target := c.mul(P, t)
	return lie{name, func(calls *int64) []solver.Option {
		return []solver.Option{
			ov(calls, "sw_emulated.halfGCDEisensteinSigns", func(m *big.Int, in, out []*big.Int) error { return hSign(m, withFirstInput(in, t), out) }),
			ov(calls, "sw_emulated.scalarMulHint", emuLie(hintByName("sw_emulated.scalarMulHint"), false, true, func(io emuIO, h []*big.Int) ([]*big.Int, bool) {
				x, y := target.xy()
				return []*big.Int{x, y}, true
			})),
			ov(calls, "sw_emulated.halfGCDEisenstein", func(m *big.Int, in, out []*big.Int) error {
				inT := withFirstInput(in, t)
				if err := hDec(m, inT, out); err != nil {
					return err
				}
				sg := []*big.Int{new(big.Int), new(big.Int), new(big.Int), new(big.Int)}
				if err := hSign(m, inT, sg); err != nil {
					return err
				}
				io := parseEmuInputs(in, true)
				r, lam := io.mod, io.in[1]
				sReal := new(big.Int).Mod(io.in[0], r)
				h := io.readOut(out) // |u1| |u2| |v1| |v2| for t
				sign := func(i int) *big.Int {
					if sg[i].Sign() != 0 {
						return bi(-1)
					}
					return bi(1)
				}
				nbits := uint(r.BitLen()>>2 + 9)
				// V = σv1 v1 + λ σv2 v2 ; defect c = -(s - t) V ; c' = c / 2^nbits
				V := new(big.Int).Mul(sign(2), h[2])
				V.Add(V, new(big.Int).Mul(lam, new(big.Int).Mul(sign(3), h[3])))
				cdef := new(big.Int).Sub(sReal, new(big.Int).Mod(t, r))
				cdef.Mul(cdef, V).Neg(cdef).Mod(cdef, r)
				cdef.Mul(cdef, new(big.Int).ModInverse(new(big.Int).Lsh(bi(1), nbits), r)).Mod(cdef, r)
				// short representation k1 + λ k2 = c'
				var lat ecc.Lattice
				ecc.PrecomputeLattice(r, lam, &lat)
				k := ecc.SplitScalar(cdef, &lat)
				// lattice vector W close to the target quadrant point T
				T0 := new(big.Int).Mul(sign(0), new(big.Int).Lsh(bi(1), 170))
				T1 := new(big.Int).Mul(sign(1), new(big.Int).Lsh(bi(1), 170))
				det := new(big.Int).Sub(new(big.Int).Mul(&lat.V1[0], &lat.V2[1]), new(big.Int).Mul(&lat.V1[1], &lat.V2[0]))
				mN := new(big.Int).Sub(new(big.Int).Mul(T0, &lat.V2[1]), new(big.Int).Mul(T1, &lat.V2[0]))
				nN := new(big.Int).Sub(new(big.Int).Mul(&lat.V1[0], T1), new(big.Int).Mul(&lat.V1[1], T0))
				mm := new(big.Int).Quo(mN, det)
				nn := new(big.Int).Quo(nN, det)
				W0 := new(big.Int).Add(new(big.Int).Mul(mm, &lat.V1[0]), new(big.Int).Mul(nn, &lat.V2[0]))
				W1 := new(big.Int).Add(new(big.Int).Mul(mm, &lat.V1[1]), new(big.Int).Mul(nn, &lat.V2[1]))
				x1 := new(big.Int).Add(&k[0], W0)
				x2 := new(big.Int).Add(&k[1], W1)
				// sanity of the adversary's own arithmetic
				chk := new(big.Int).Add(x1, new(big.Int).Mul(lam, x2))
				if chk.Mod(chk, r).Cmp(cdef) != 0 || x1.Sign() != sign(0).Sign() || x2.Sign() != sign(1).Sign() {
					return fmt.Errorf("adversary: could not build the compensation")
				}
				a1 := new(big.Int).Abs(x1)
				a2 := new(big.Int).Abs(x2)
				u1 := new(big.Int).Add(h[0], new(big.Int).Lsh(a1, nbits))
				u2 := new(big.Int).Add(h[1], new(big.Int).Lsh(a2, nbits))
				if !io.writeOut(out, []*big.Int{u1, u2, h[2], h[3]}) {
					return fmt.Errorf("adversary: compensation does not fit the limbs")
				}
				return nil
			})}
	}}
}

// ------------------------------------------------------------------ native 2-chain G1

func advNativeSW(r *vcore.Run) {
	n := nswDescs()[0]
	d := n.d
	c := d.c
	rng := r.Rand("adv/nsw")
	G := c.G()
	R1 := c.mul(G, randNonzero(rng, c.R))
	hDec := hintByName("sw_bls12377.decomposeScalarG1Simple")
	for _, complete := range []bool{false, true} {
		mode := map[bool]string{false: "incomplete", true: "complete"}[complete]
		for _, b := range builders(r) {
			s := randNonzero(rng, c.R)
			cs := &emuCase{Pkg: d.pkg, Curve: c.Name, Op: "ScalarMul", Complete: complete, Pts: []wpt{R1}, Ks: []*big.Int{s}, Native: n.native}
			circ, _, _, _ := d.build(cs, false)
			t := &advTarget{name: "sw_bls12377.G1.ScalarMul/" + mode + "/" + b.name, field: n.native, builder: b.b, circuit: circ}
			if err := t.build(); err != nil {
				r.Inconclusive("adv:compile:" + t.name + ":" + firstLine(err.Error()))
				continue
			}
			r.Count("adv.compiled-systems", 1)
			lam := d.lambda
			// gnark's inner-curve lambda is one of the two primitive cube roots; read it off an honest call
			probe := []*big.Int{new(big.Int), new(big.Int)}
			if err := hDec(n.native, []*big.Int{s}, probe); err == nil {
				// s = s1 + lam*s2  =>  lam = (s - s1)/s2 mod r
				if probe[1].Sign() != 0 {
					l := new(big.Int).Sub(s, probe[0])
					l.Mul(l, new(big.Int).ModInverse(new(big.Int).Mod(probe[1], c.R), c.R)).Mod(l, c.R)
					lam = l
				}
			}
			want := c.mul(R1, s)
			lies := []lie{
				{"honest", func(calls *int64) []solver.Option { return nil }},
				{"decomposition:s1+1", func(calls *int64) []solver.Option {
					return []solver.Option{ov(calls, "sw_bls12377.decomposeScalarG1Simple", func(m *big.Int, in, out []*big.Int) error {
						if err := hDec(m, in, out); err != nil {
							return err
						}
						out[0].Add(out[0], bi(1))
						return nil
					})}
				}},
				{"decomposition=(s,0)", func(calls *int64) []solver.Option {
					return []solver.Option{ov(calls, "sw_bls12377.decomposeScalarG1Simple", func(m *big.Int, in, out []*big.Int) error {
						out[0].Set(in[0])
						out[1].SetUint64(0)
						return nil
					})}
				}},
				{"decomposition:(s1+lambda,s2-1)", func(calls *int64) []solver.Option {
					return []solver.Option{ov(calls, "sw_bls12377.decomposeScalarG1Simple", func(m *big.Int, in, out []*big.Int) error {
						if err := hDec(m, in, out); err != nil {
							return err
						}
						out[0].Add(out[0], lam)
						out[1].Sub(out[1], bi(1))
						out[1].Mod(out[1], m)
						return nil
					})}
				}},
				{"decomposition:(s1-lambda,s2+1) over the native field", func(calls *int64) []solver.Option {
					return []solver.Option{ov(calls, "sw_bls12377.decomposeScalarG1Simple", func(m *big.Int, in, out []*big.Int) error {
						if err := hDec(m, in, out); err != nil {
							return err
						}
						out[0].Sub(out[0], lam).Mod(out[0], m)
						out[1].Add(out[1], bi(1))
						return nil
					})}
				}},
				{"decomposition:swapped", func(calls *int64) []solver.Option {
					return []solver.Option{ov(calls, "sw_bls12377.decomposeScalarG1Simple", func(m *big.Int, in, out []*big.Int) error {
						if err := hDec(m, in, out); err != nil {
							return err
						}
						out[0], out[1] = out[1], out[0]
						return nil
					})}
				}},
			}
			for _, l := range lies {
				var calls int64
				sk := &sink{}
				_, asg, _, _ := d.build(cs, false)
				err := t.solveWith(asg, sk, l.overrides(&calls))
				wx, wy := want.xy()
				rep := map[string]any{"target": t.name, "curve": c.Name, "lie": l.name, "inputs": cs.replay(), "oracle": want.String(), "engine": "frontend.Compile + Solve"}
				advVerdict(r, t.name, l.name, "P=random,s=random", err, sk, [2]*big.Int{wx, wy}, calls, rep)
			}
		}
	}
}
