//go:build verif

// C16 — Curve and signature gadgets match native results, exceptional cases
// included.  Differential monitor (gnark's test engine executes the gadgets on
// directed ∪ random inputs in worker processes; an independent big.Int group
// law, gnark-crypto, crypto/ecdsa and crypto/elliptic say what must come out)
// plus an adversarial monitor (compiled circuits solved with lying
// decomposition hints, adversary_test.go).
package c16

import (
	"fmt"
	"math/big"
	"math/rand/v2"
	"os"
	"sort"
	"strings"
	"sync"
	"testing"
	"time"

	"github.com/consensys/gnark/verifharness/internal/vcore"
)

func only(fam string) bool {
	o := os.Getenv("VERIF_C16_ONLY")
	if o == "" {
		return true
	}
	for _, f := range strings.Split(o, ",") {
		if f == fam {
			return true
		}
	}
	return false
}

// runOneShot runs a single task in a worker that is killed afterwards (the hint
// screen leaves spinning goroutines behind when a hint does not return).
func runOneShot(t task, wd time.Duration) outcome {
	var res outcome
	t.done = func(o outcome) { res = o }
	t.watchdog = wd
	runPool(nil, []task{t}, 1, wd)
	return res
}

// pick keeps n elements of a list chosen by the seeded stream (all when n<=0 or
// the list is shorter), preserving order.
func pick[T any](rng *rand.Rand, list []T, n int) []T {
	if n <= 0 || len(list) <= n {
		return list
	}
	idx := rng.Perm(len(list))[:n]
	sort.Ints(idx)
	out := make([]T, n)
	for i, j := range idx {
		out[i] = list[j]
	}
	return out
}

func TestC16(t *testing.T) {
	if os.Getenv("VERIF_C16_CHILD") == "1" {
		childMain()
		return
	}
	r := vcore.Start(t, "C16")
	quick := r.Quick()
	if only("selfcheck") {
		selfCheck(r)
		selfCheck2(r)
	}

	// ---- adversarial part: compiled circuits + lying hints, in this process
	var advWG sync.WaitGroup
	if only("adv") {
		advWG.Add(1)
		go func() {
			defer advWG.Done()
			runAdversary(r)
		}()
	}

	var tasks []task
	var probes []hintProbe
	var emu *emuPlan
	if only("emu") {
		emu = planEmu(r)
		for _, c := range emu.cases {
			if !c.Wide {
				probes = append(probes, emu.hintInputs(c)...)
			}
		}
	}

	var bls *blsPlan
	if only("evmbls") {
		// EVM precompile gadgets for BLS12-381 (evmbls_test.go)
		bls = planBls(r)
		probes = append(probes, bls.probes()...)
	}

	// ---- hint liveness screen
	stuck := map[string]bool{}
	stuckProbes := map[string]hintProbe{}
	if len(probes) > 0 {
		seen := map[string]bool{}
		var uniq []hintProbe
		for _, p := range probes {
			if k := probeKey(p); !seen[k] {
				seen[k] = true
				uniq = append(uniq, p)
			}
		}
		wait := 8 * time.Second
		o := runOneShot(task{fam: "hintscreen", data: screenReq{Items: uniq, WaitMs: int(wait / time.Millisecond)}}, wait+60*time.Second)
		if o.Hang || o.Crash != "" || !o.Sat {
			r.Inconclusive("hint-screen-did-not-run")
			r.Count("hintscreen.failed", 1)
		} else {
			done := map[int]bool{}
			for _, i := range o.Done {
				done[i] = true
			}
			for i, p := range uniq {
				r.Count("hintscreen.calls."+p.Hint, 1)
				if e, bad := o.Vals[fmt.Sprint(i)]; bad {
					r.Count("hintscreen.hint-returned-error."+p.Hint, 1)
					r.SampleClass("hint-error/"+p.Hint, map[string]any{"curve": p.Curve, "inputs": bigStrs(p.Inputs), "error": e})
				}
				if !done[i] {
					stuck[probeKey(p)] = true
					stuckProbes[probeKey(p)] = p
					r.Count("hintscreen.NOT-RETURNED."+p.Hint, 1)
				}
			}
		}
	}

	// ---- test-engine cases in worker processes
	var hangMu sync.Mutex
	hangConfirmed, hangRefuted := 0, 0
	var hangCases []map[string]any
	var judges []*emuJudge
	if emu != nil {
		emuJ := newEmuJudge(r)
		judges = append(judges, emuJ)
		tasks = append(tasks, emu.tasks(r, emuJ, stuck, func(c *emuCase, confirmed bool) {
			hangMu.Lock()
			defer hangMu.Unlock()
			if confirmed {
				hangConfirmed++
				r.Count("emu.hang-confirmed-in-test-engine", 1)
				if len(hangCases) < 4 {
					hangCases = append(hangCases, c.replay())
				}
			} else {
				hangRefuted++
				r.Count("emu.hang-predicted-but-case-finished", 1)
			}
		})...)
	}
	if only("ted") {
		for _, d := range tedCurves() {
			rng := r.Rand("ted/" + d.Name)
			cases := d.gen(rng, quick)
			if quick {
				cases = pick(rng, cases, 70)
			}
			for _, c := range cases {
				c := c
				tasks = append(tasks, task{fam: "ted", data: c, cost: 30, done: func(o outcome) { judgeTed(r, c, o) }})
			}
		}
	}
	if only("nsw") {
		for _, n := range nswDescs() {
			n := n
			rng := r.Rand("nsw/" + n.tag)
			g1 := n.genG1(rng)
			if quick {
				g1 = sampleEmu(rng, g1, map[string]int{"AddUnified": 12, "Add": 6, "Neg": 2, "ScalarMul": 34, "Curve.ScalarMul": 8, "ScalarMulBase": 10, "MultiScalarMul": 8, "MultiScalarMulFold": 5, "Double": 4, "DoubleAndAdd": 6})
			}
			jd := newEmuJudge(r)
			judges = append(judges, jd)
			for _, c := range g1 {
				c := c
				t := task{fam: "nsw1/" + n.tag, data: c, cost: emuCost[c.Op] / 4, done: func(o outcome) { jd.judge(n.d, c, o) }}
				if c.Wide {
					t.watchdog = 90 * time.Second
				}
				tasks = append(tasks, t)
			}
			g2 := n.genG2(rng, quick)
			if quick {
				// sentinels (the classes of the property statement and the known
				// failure classes) run whatever the seed; the rest is sampled
				var keep, rest []*g2Case
				for _, c := range g2 {
					if g2Sentinel(c) {
						keep = append(keep, c)
					} else {
						rest = append(rest, c)
					}
				}
				g2 = append(keep, pick(rng, rest, 45)...)
			}
			for _, c := range g2 {
				c := c
				tasks = append(tasks, task{fam: "nsw2/" + n.tag, data: c, cost: 150, done: func(o outcome) { judgeG2(r, c, o) }})
			}
		}
	}
	if only("pair") {
		for _, d := range pairDescs() {
			d := d
			rng := r.Rand("pair/" + d.tag)
			for _, c := range genPair(d, rng, quick) {
				c := c
				tasks = append(tasks, task{fam: "pair/" + d.tag, data: c, cost: pairCost(d, c), done: func(o outcome) { judgePair(r, c, o) }})
			}
		}
	}
	if only("sig") {
		for _, d := range emuCurves() {
			if d.c.Name != "secp256k1" && d.c.Name != "P-256" && d.c.Name != "P-384" {
				continue
			}
			rng := r.Rand("ecdsa/" + d.c.Name)
			cases := genEcdsa(d, rng)
			if quick && d.c.Name == "P-384" {
				var sentinels, rest []*ecdsaCase
				for _, c := range cases {
					if strings.HasPrefix(c.Class, "coincide:") {
						sentinels = append(sentinels, c)
					} else {
						rest = append(rest, c)
					}
				}
				cases = append(pick(rng, rest, 10), sentinels...)
			}
			for _, c := range cases {
				c := c
				tasks = append(tasks, task{fam: "ecdsa", data: c, cost: 700 * curveWeight(d.c.Name), done: func(o outcome) {
					judgeSig(r, "ecdsa", c.key(), c.Curve, c.Class, c.WantAccept, c.InDomain, o, c.replay())
				}})
			}
		}
		for _, d := range tedCurves() {
			rng := r.Rand("eddsa/" + d.Name)
			cases, err := genEddsa(d, rng)
			if err != nil {
				r.Inconclusive("eddsa:oracle:" + err.Error())
			}
			for _, c := range cases {
				c := c
				tasks = append(tasks, task{fam: "eddsa", data: c, cost: 60, done: func(o outcome) {
					judgeSig(r, "eddsa", c.key(), c.Curve, c.Class, c.WantAccept, c.InDomain, o, c.replay())
				}})
			}
		}
	}
	if only("evm") {
		var secp *emuCurveDesc
		for _, d := range emuCurves() {
			if d.c.Name == "secp256k1" {
				secp = d
			}
		}
		rng := r.Rand("evm")
		for _, c := range genEcrec(secp, rng) {
			c := c
			tasks = append(tasks, task{fam: "ecrecover", data: c, cost: 900, done: func(o outcome) { judgeEcrec(r, c, o) }})
		}
		for _, c := range genExpmod(rng, quick) {
			c := c
			tasks = append(tasks, task{fam: "expmod", data: c, cost: c.Width * 2, done: func(o outcome) { judgeExpmod(r, c, o) }})
		}
		for _, c := range genEcpair(rng, quick) {
			c := c
			tasks = append(tasks, task{fam: "ecpair", data: c, cost: 3000, done: func(o outcome) { judgeEcpair(r, c, o) }})
		}
	}
	if bls != nil {
		tasks = append(tasks, bls.tasks(r, stuck)...)
	}
	workers := 12
	r.Set("worker_processes", workers)
	runPool(r, tasks, workers, 5*time.Minute)
	if bls != nil {
		bls.rerunFailedBatches(r, workers)
	}
	for _, j := range judges {
		j.finish()
	}

	// ---- hint non-termination verdict
	if len(stuck) > 0 {
		byHint := map[string][]hintProbe{}
		for _, p := range stuckProbes {
			byHint[p.Hint] = append(byHint[p.Hint], p)
		}
		var hs []string
		for h := range byHint {
			hs = append(hs, h)
		}
		sort.Strings(hs)
		for _, h := range hs {
			ps := byHint[h]
			sort.Slice(ps, func(i, j int) bool { return probeKey(ps[i]) < probeKey(ps[j]) })
			var ins []map[string]any
			curves := map[string]bool{}
			for _, p := range ps {
				curves[p.Curve] = true
				if len(ins) < 12 {
					ins = append(ins, map[string]any{"curve": p.Curve, "class": p.Class, "inputs": bigStrs(p.Inputs)})
				}
			}
			if hangConfirmed == 0 && hangRefuted > 0 {
				r.Inconclusive("hint-screen-and-test-engine-disagree:" + h)
				continue
			}
			var cs []string
			for c := range curves {
				cs = append(cs, c)
			}
			sort.Strings(cs)
			r.Violation("hint-does-not-terminate/"+h,
				fmt.Sprintf("the registered hint %s did not return within 8 s on %d distinct inputs (curves %v; normal duration < 10 ms); ScalarMul / Solve hang on these scalars (confirmed in the test engine on %d sampled cases, watchdog 25 s)", h, len(ps), cs, hangConfirmed),
				map[string]any{"hint": h, "inputs_that_do_not_return": ins, "engine_cases_that_hung": hangCases})
		}
	}
	advWG.Wait()
	finish(r)
}

func bigStrs(v []*big.Int) []string {
	s := make([]string, len(v))
	for i := range v {
		if v[i] == nil {
			s[i] = "nil"
		} else {
			s[i] = v[i].String()
		}
	}
	return s
}

func finish(r *vcore.Run) {
	if os.Getenv("VERIF_C16_ONLY") == "" && os.Getenv("VERIF_C16_CURVES") == "" {
		r.Require("emu.in-domain.correct", 100)
		r.Require("emu.result-at-infinity.correct", 5)
		r.Require("emu.oncurve.rejected-off-curve", 3)
		r.Require("ted.in-domain.correct", 100)
		r.Require("nsw.in-domain.correct", 40)
		r.Require("nsw.g2.in-domain.correct", 20)
		r.Require("pair.accepted-as-native", 10)
		r.Require("pair.rejected-as-native", 5)
		r.Require("ecdsa.accepted-valid", 3)
		r.Require("ecdsa.rejected-invalid", 10)
		r.Require("eddsa.accepted-valid", 10)
		r.Require("eddsa.rejected-invalid", 10)
		r.Require("evm.ecrecover.correct", 3)
		r.Require("evm.ecrecover.rejected-as-specified", 5)
		r.Require("evm.expmod.correct", 10)
		r.Require("evm.ecpair.accepted-as-native", 3)
		r.Require("evm.ecpair.rejected-as-native", 3)
		r.Require("evmbls.value.correct", 25)
		r.Require("evmbls.value.result-at-infinity.correct", 3)
		r.Require("evmbls.predicate.accepted-as-native", 6)
		r.Require("evmbls.rejected-as-native", 10)
		r.Require("evmbls.rejected-as-native.ECPairBLSIsOnG1", 2)
		r.Require("evmbls.rejected-as-native.ECPairBLSIsOnG2", 2)
		for _, g := range blsGadget {
			r.Require("evmbls.kind."+g, 1)
		}
		r.Require("adv.hint-calls-intercepted", 20)
		r.Require("adv.lies.solve-failed", 10)
		r.Require("adv.honest.solved-and-correct", 3)
		r.Require("hintscreen.calls.sw_emulated.halfGCDEisenstein", 10)
	}
	r.Finish("exploration",
		"one case = (gadget method, curve, option set, input tuple): executed by gnark's test engine in a worker process (or compiled and solved, adversarial part), result captured at a hint call and compared with the oracle. "+
			"distinct = hash of (family, curve, method, options, input class, concrete inputs); non-trivial = every executed case (each has an oracle verdict: value, must-accept or must-reject)",
		[]string{
			"oracle: textbook affine group laws in math/big, cross-checked at start against gnark-crypto / crypto/elliptic / crypto/ecdsa / gnark-crypto EdDSA (selfcheck.* counters); pairings, G2 arithmetic and MiMC come from gnark-crypto directly",
			"documented domain: inputs a method's doc comment excludes (⚠️ preconditions of the incomplete formulas: P=±Q, (0,0), zero scalar without WithCompleteArithmetic) are executed and counted but give no verdict, since the value is undefined by design; where the documentation is silent (twisted Edwards, signatures, pairings with identity inputs) only 'unsatisfiable or equal to the native result' is demanded",
			"a hint that has not returned after 8 s (screen) and a test-engine case that has not returned after 25 s / 5 min (watchdog) are treated as non-terminating",
			"curve constants (a, b, generator, order) are inputs of the statement and are read from gnark's parameter tables; P-256/P-384 are compared with crypto/elliptic",
			"adversarial part: only the lies implemented in adversary_test.go; a lie that is accepted with the same result is not a violation",
		})
}
