//go:build verif

// C16 — Curve and signature gadgets match native results, exceptional cases
// included.  Differential monitor (gnark's test engine executes the gadgets on
// directed ∪ random inputs; an independent big.Int group law, gnark-crypto,
// crypto/ecdsa and crypto/elliptic say what must come out) plus an adversarial
// monitor (compiled circuits solved with lying decomposition hints).
package c16

import (
	"os"
	"strings"
	"sync"
	"testing"

	"github.com/consensys/gnark/verifharness/internal/vcore"
)

// job is one unit of work; run executes it, seq re-executes what needs a
// sequential confirmation.
type job struct {
	family string
	cost   int // rough milliseconds, for longest-first scheduling
	run    func()
}

var seqMu sync.Mutex // held while a violation candidate is re-executed alone

func only(fam string) bool {
	o := os.Getenv("VERIF_C16_ONLY")
	if o == "" {
		return true
	}
	for _, f := range strings.Split(o, ",") {
		if f == fam {
			return true
		}
	}
	return false
}

func TestC16(t *testing.T) {
	r := vcore.Start(t, "C16")
	var jobs []job
	if only("selfcheck") {
		selfCheck(r)
	}
	if only("emu") {
		jobs = append(jobs, emuJobs(r)...)
	}
	// longest first
	for i := 1; i < len(jobs); i++ {
		for j := i; j > 0 && jobs[j].cost > jobs[j-1].cost; j-- {
			jobs[j], jobs[j-1] = jobs[j-1], jobs[j]
		}
	}
	vcore.Parallel(len(jobs), 12, func(i int) { jobs[i].run() })
	r.Finish("exploration", "TODO", nil)
}
