//go:build verif

package c16

import (
	"encoding/json"
	"fmt"
	"math/big"
	"testing"
	"time"
)

func TestZZReplay(t *testing.T) {
	a, _ := new(big.Int).SetString("160300369641763692057200826717194470300841500041405086665987951792777170985789812404701098450693150760488355915239", 10)
	b, _ := new(big.Int).SetString("177701373324276866670002501902217575888559003008549813184128364014062395661292902830368313394148196048463626115726", 10)
	c := &pairCase{Curve: "bw6761", Kind: "pair", Class: "n=1,expected=native", N: 1, A: []*big.Int{a}, B: []*big.Int{b}, ZeroP: -1, ZeroQ: -1, Coef: -1, InDomain: true}
	raw, _ := json.Marshal(c)
	for i := 0; i < 2; i++ {
		t0 := time.Now()
		o := execPairbw6761(raw)
		fmt.Println("run", i, "sat", o.Sat, o.Vals, o.Err, time.Since(t0))
	}
	c.Kind = "mlfe"
	raw, _ = json.Marshal(c)
	o := execPairbw6761(raw)
	fmt.Println("mlfe sat", o.Sat, o.Err)
}
