//go:build verif

package c16

import (
	"crypto/elliptic"
	"fmt"
	"math/big"
	"testing"
	"time"

	"github.com/consensys/gnark-crypto/ecc"
	"github.com/consensys/gnark-crypto/ecc/secp256k1"
	"github.com/consensys/gnark/std/math/emulated"
	"github.com/consensys/gnark/test"
)

func TestProbe(t *testing.T) {
	_, g := secp256k1.Generators()
	c := &wcurve{Name: "secp256k1", P: emulated.Secp256k1Fp{}.Modulus(), R: emulated.Secp256k1Fr{}.Modulus(), A: big.NewInt(0), B: big.NewInt(7),
		Gx: g.X.BigInt(new(big.Int)), Gy: g.Y.BigInt(new(big.Int))}
	P := c.mul(c.G(), big.NewInt(12345))
	k := new(big.Int).Lsh(big.NewInt(987654321), 200)
	for _, op := range []string{"AddUnified", "Add", "ScalarMul", "ScalarMulBase", "JointScalarMulBase", "MultiScalarMul"} {
		for _, comp := range []bool{false, true} {
			cs := &emuCase{Curve: "secp256k1", Op: op, Complete: comp, Pts: []wpt{P, c.mul(P, big.NewInt(3))}, Ks: []*big.Int{k, big.NewInt(77)}, Native: ecc.BN254.ScalarField()}
			circ, asg, sk, _ := buildEmu[emulated.Secp256k1Fp, emulated.Secp256k1Fr](cs, true)
			t0 := time.Now()
			err := test.IsSolved(circ, asg, ecc.BN254.ScalarField())
			fmt.Println(op, comp, time.Since(t0), err == nil, len(sk.got))
			if err != nil {
				fmt.Println(err.Error()[:200])
			}
		}
	}
	p256 := elliptic.P256().Params()
	c2 := &wcurve{Name: "P-256", P: p256.P, R: p256.N, A: new(big.Int).Sub(p256.P, big.NewInt(3)), B: p256.B, Gx: p256.Gx, Gy: p256.Gy}
	P2 := c2.mul(c2.G(), big.NewInt(12345))
	for _, op := range []string{"ScalarMul", "ScalarMulBase", "JointScalarMulBase"} {
		cs := &emuCase{Curve: "P-256", Op: op, Complete: true, Pts: []wpt{P2, P2}, Ks: []*big.Int{k, big.NewInt(77)}, Native: ecc.BN254.ScalarField()}
		circ, asg, sk, _ := buildEmu[emulated.P256Fp, emulated.P256Fr](cs, true)
		t0 := time.Now()
		err := test.IsSolved(circ, asg, ecc.BN254.ScalarField())
		fmt.Println("P256", op, time.Since(t0), err == nil, len(sk.got))
		if err == nil {
			w := c2.mul(P2, k)
			fmt.Println(sk.got[0][0].Cmp(w.X) == 0)
		}
	}
}
