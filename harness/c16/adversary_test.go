//go:build verif

package c16

// Adversarial monitor: the gadgets are compiled (R1CS) and solved with the
// decomposition / result hints replaced by lying versions
// (solver.OverrideHint).  The value the solver computed is read at the capture
// hint.  Oracle: Solve must fail, or the captured result must equal the group
// law's result.

import (
	"fmt"
	"math/big"
	"math/rand/v2"
	"strings"
	"sync"
	"sync/atomic"
	"time"

	"github.com/consensys/gnark-crypto/ecc"
	"github.com/consensys/gnark/constraint"
	"github.com/consensys/gnark/constraint/solver"
	"github.com/consensys/gnark/frontend"
	"github.com/consensys/gnark/frontend/cs/r1cs"
	"github.com/consensys/gnark/frontend/cs/scs"

	"github.com/consensys/gnark/verifharness/internal/vcore"
)

// hintByName finds a registered hint by the suffix of its name.
func hintByName(suffix string) solver.Hint {
	h := findHint(suffix)
	if h == nil {
		panic("hint not registered: " + suffix)
	}
	return h
}

// emuIO describes the emulated calling convention of a hint call.
type emuIO struct {
	nbBits, nbLimbs int
	mod             *big.Int
	in              []*big.Int // non-native inputs (or the raw natives for native-input hints)
}

func parseEmuInputs(native []*big.Int, emulatedIn bool) emuIO {
	nbBits := int(native[0].Int64())
	nbLimbs := int(native[1].Int64())
	io := emuIO{nbBits: nbBits, nbLimbs: nbLimbs, mod: recompose(native[2:2+nbLimbs], uint(nbBits))}
	if !emulatedIn {
		io.in = native[2+nbLimbs:]
		return io
	}
	n := int(native[2+nbLimbs].Int64())
	p := 3 + nbLimbs
	for i := 0; i < n; i++ {
		l := int(native[p].Int64())
		io.in = append(io.in, recompose(native[p+1:p+1+l], uint(nbBits)))
		p += 1 + l
	}
	return io
}

func (io emuIO) readOut(native []*big.Int) []*big.Int {
	var out []*big.Int
	for i := 0; i+io.nbLimbs <= len(native); i += io.nbLimbs {
		out = append(out, recompose(native[i:i+io.nbLimbs], uint(io.nbBits)))
	}
	return out
}

// writeOut decomposes integers (reduced modulo nothing: the adversary chooses
// the limbs) into the native outputs; ok=false if a value does not fit.
func (io emuIO) writeOut(native []*big.Int, vals []*big.Int) bool {
	mask := new(big.Int).Sub(new(big.Int).Lsh(bi(1), uint(io.nbBits)), bi(1))
	for i, v := range vals {
		if v.Sign() < 0 || v.BitLen() > io.nbBits*io.nbLimbs {
			return false
		}
		t := new(big.Int).Set(v)
		for j := 0; j < io.nbLimbs; j++ {
			native[i*io.nbLimbs+j].And(t, mask)
			t.Rsh(t, uint(io.nbBits))
		}
	}
	return true
}

// lie is one dishonest strategy against one compiled gadget: a set of hint
// overrides built for a concrete input.
type lie struct {
	name      string
	overrides func(calls *int64) []solver.Option
}

// advTarget is a compiled gadget plus the inputs it is attacked on.
type advTarget struct {
	name    string
	field   *big.Int
	builder frontend.NewBuilder
	circuit frontend.Circuit
	ccs     constraint.ConstraintSystem
	compile time.Duration
}

func (t *advTarget) build() error {
	t0 := time.Now()
	ccs, err := frontend.Compile(t.field, t.builder, t.circuit)
	t.compile = time.Since(t0)
	t.ccs = ccs
	return err
}

// solveWith solves the system with the capture override plus the lie's overrides.
func (t *advTarget) solveWith(asg frontend.Circuit, sk *sink, opts []solver.Option) error {
	w, err := frontend.NewWitness(asg, t.field)
	if err != nil {
		return fmt.Errorf("harness: witness: %w", err)
	}
	all := append([]solver.Option{solver.OverrideHint(solver.GetHintID(captureHint), sk.hint())}, opts...)
	var serr error
	if p, st := vcore.Catch(func() { _, serr = t.ccs.Solve(w, all...) }); p != nil {
		return fmt.Errorf("panic in Solve: %v\n%s", p, st)
	}
	return serr
}

// advVerdict files the outcome of one (target, input, lie) triple.
func advVerdict(r *vcore.Run, tname, lname, inputClass string, err error, sk *sink, want [2]*big.Int, calls int64, rep map[string]any) {
	r.Eval("adv|"+tname+"|"+lname+"|"+fmt.Sprint(rep["inputs"]), true)
	r.Count("adv.hint-calls-intercepted", int(calls))
	r.Count("adv.cases."+tname, 1)
	honest := lname == "honest"
	if err != nil && strings.HasPrefix(err.Error(), "harness:") {
		r.Inconclusive("adv:" + firstLine(err.Error()))
		return
	}
	if err != nil && strings.HasPrefix(err.Error(), "panic in Solve") {
		rep["panic"] = err.Error()
		r.Count("adv.solve-panicked", 1)
		r.SampleClass("adv/solve-panic/"+tname+"/"+lname, map[string]any{"panic": firstLine(err.Error())})
		if honest {
			r.Violation("adv/"+stripBuilder(tname)+"/honest-solve-panics/"+inputClass, "Solve panicked with honest hints", rep)
		}
		return
	}
	if calls == 0 && !honest {
		r.Inconclusive("adv:lie-not-reached:" + tname + "/" + lname)
		return
	}
	if err != nil {
		if honest {
			rep["error"] = err.Error()
			r.Count("adv.honest.SOLVE-FAILED", 1)
			r.Violation("adv/"+stripBuilder(tname)+"/honest-solve-fails/"+inputClass, "compiled gadget rejects an in-domain input with honest hints: "+firstLine(err.Error()), rep)
			return
		}
		r.Count("adv.lies.solve-failed", 1)
		r.Count("adv.lies.solve-failed."+tname, 1)
		r.SampleClass("adv/rejected/"+tname+"/"+lname, map[string]any{"input": inputClass, "solver_said": firstLine(err.Error())})
		return
	}
	if len(sk.got) != 1 {
		r.Inconclusive("adv:capture-not-reached")
		return
	}
	got := sk.got[0]
	same := got[0].Cmp(want[0]) == 0 && got[1].Cmp(want[1]) == 0
	if honest {
		if same {
			r.Count("adv.honest.solved-and-correct", 1)
		} else {
			rep["gadget_result"] = bigStrs(got[:])
			r.Count("adv.honest.WRONG", 1)
			r.Violation("adv/"+stripBuilder(tname)+"/honest-solve-wrong-result/"+inputClass, "compiled gadget computes a wrong result with honest hints", rep)
		}
		return
	}
	if same {
		r.Count("adv.lies.accepted-with-same-result", 1)
		r.SampleClass("adv/accepted-same/"+tname+"/"+lname, map[string]any{"input": inputClass})
		return
	}
	rep["gadget_result"] = bigStrs(got[:])
	r.Count("adv.lies.ACCEPTED-WITH-WRONG-RESULT", 1)
	r.Count("adv.lies.ACCEPTED-WITH-WRONG-RESULT."+stripBuilder(tname)+"/"+lname, 1)
	gadget, defect := advDefect(tname, lname)
	r.Violation("adv/"+gadget+"/UNSOUND/"+defect,
		fmt.Sprintf("Solve of %s succeeded under the hint lie %q and the gadget output differs from the group law (%s): an unsound gadget lets a prover choose the result", stripBuilder(tname), lname, inputClass), rep)
}

// advDefect maps an accepted lie to the defect it exploits, so that one defect
// of one gadget has one signature whatever the tier, the seed, the constraint
// system, the arithmetic mode it was observed in and the particular lie used.
// gadget is the target without builder and mode.
func advDefect(tname, lname string) (gadget, defect string) {
	gadget = stripBuilder(tname)
	complete := strings.Contains(gadget, "/complete")
	gadget = strings.Replace(strings.Replace(gadget, "/incomplete", "", 1), "/complete", "", 1)
	switch {
	case strings.HasPrefix(gadget, "twistededwards.ScalarMul"):
		// every accepted lie uses the same hole: s1 + s2*s = k*Order is checked in
		// the native field with a free quotient k
		return gadget, "scalar-decomposition-checked-modulo-the-native-field-with-a-free-quotient"
	case strings.HasPrefix(gadget, "sw_emulated.ScalarMul"):
		switch {
		case strings.HasPrefix(lname, "result=") && complete:
			// result hint alone: only the special cases of the complete-arithmetic
			// code path (s in {0,±1}, P=(0,0), or the selector computed from the
			// hinted point) let it through
			return gadget, "complete-arithmetic-special-cases-accept-a-forged-result"
		case strings.HasPrefix(lname, "decomposition=all-zero"):
			return gadget, "zero-sub-scalars-accepted"
		case strings.HasPrefix(lname, "forge:"):
			return gadget, "sub-scalars-not-range-checked"
		}
	case strings.HasPrefix(gadget, "sw_emulated.JointScalarMulBase"):
		if strings.HasPrefix(lname, "decomposition") {
			return gadget, "sub-scalar-bits-above-nbits-ignored"
		}
	}
	return gadget, "lie:" + lname
}

// counted wraps a hint so that calls are counted.
func counted(calls *int64, f solver.Hint) solver.Hint {
	return func(m *big.Int, in, out []*big.Int) error {
		atomic.AddInt64(calls, 1)
		return f(m, in, out)
	}
}

func builders(r *vcore.Run) []struct {
	name string
	b    frontend.NewBuilder
} {
	out := []struct {
		name string
		b    frontend.NewBuilder
	}{{"r1cs", r1cs.NewBuilder[constraint.U64]}}
	if r.Thorough() {
		out = append(out, struct {
			name string
			b    frontend.NewBuilder
		}{"scs", scs.NewBuilder[constraint.U64]})
	}
	return out
}

// runAdversary compiles the targets and runs every lie on directed and random
// inputs. Targets are independent and run concurrently; the solves of one
// compiled system run one after the other.
func runAdversary(r *vcore.Run) {
	var wg sync.WaitGroup
	sem := make(chan struct{}, 3)
	run := func(f func()) {
		wg.Add(1)
		go func() {
			defer wg.Done()
			sem <- struct{}{}
			defer func() { <-sem }()
			if p, st := vcore.Catch(f); p != nil {
				r.T.Errorf("BROKEN-CHECK property=C16: adversary panicked: %v\n%s", p, st)
			}
		}()
	}
	run(func() { advTed(r) })
	run(func() { advTedGroth16(r) })
	run(func() { advEmu(r, "BN254", "ScalarMul", true) })
	run(func() { advEmu(r, "P-256", "ScalarMul", true) })
	run(func() { advNativeSW(r) })
	run(func() { advEcdsaForge(r) })
	run(func() { advEmu(r, "secp256k1", "JointScalarMulBase", false) })
	if r.Thorough() {
		run(func() { advEmu(r, "secp256k1", "ScalarMul", false) })
		run(func() { advEmu(r, "P-256", "ScalarMul", false) })
		run(func() { advPairing(r) })
		run(func() { advCompiledSignatures(r) })
	}
	wg.Wait()
}

var _ = ecc.BN254
var _ = rand.New

// stubs replaced below as the targets are written

// stripBuilder removes the trailing builder name so that one defect has one
// signature whatever constraint system it was observed in.
func stripBuilder(t string) string {
	for _, s := range []string{"/r1cs", "/scs"} {
		if strings.HasSuffix(t, s) {
			return t[:len(t)-len(s)]
		}
	}
	return t
}
