//go:build verif

package c16

// Second part of the oracle self-check: twisted Edwards law, ECDSA, ECRECOVER
// and EdDSA reference functions against the native libraries.

import (
	"crypto/ecdsa"
	"crypto/elliptic"
	"math/big"
	"math/rand/v2"

	bls12381ed "github.com/consensys/gnark-crypto/ecc/bls12-381/twistededwards"
	bn254ed "github.com/consensys/gnark-crypto/ecc/bn254/twistededwards"
	secpecdsa "github.com/consensys/gnark-crypto/ecc/secp256k1/ecdsa"
	tedwards "github.com/consensys/gnark-crypto/ecc/twistededwards"
	gceddsa "github.com/consensys/gnark-crypto/signature/eddsa"
	stdeddsa "github.com/consensys/gnark/std/signature/eddsa"

	"github.com/consensys/gnark/verifharness/internal/vcore"
)

type detReader struct{ rng *rand.Rand }

func (d detReader) Read(p []byte) (int, error) {
	for i := range p {
		p[i] = byte(d.rng.UintN(256))
	}
	return len(p), nil
}

func selfCheck2(r *vcore.Run) {
	rng := r.Rand("selfcheck2")
	bad := func(what string) {
		r.T.Errorf("BROKEN-CHECK property=C16: oracle self-check failed: %s", what)
	}
	// ---- twisted Edwards
	for _, d := range tedCurves() {
		c := d.c
		if !c.onCurve(c.base()) {
			bad(d.Name + ": base point not on curve")
		}
		if p, ok := c.mul(c.base(), c.Order); !ok || !c.eq(p, c.id()) {
			bad(d.Name + ": [order]B != identity")
		}
		// completeness of the addition law: a square, d non-square
		la := big.Jacobi(c.A, c.P)
		ld := big.Jacobi(c.D, c.P)
		if la == 1 && ld == -1 {
			r.Count("selfcheck.ted.addition-law-complete(a-square,d-nonsquare)", 1)
		} else {
			r.Count("selfcheck.ted.addition-law-NOT-complete."+d.Name, 1)
		}
		k, k2 := randNonzero(rng, c.Order), randNonzero(rng, c.Order)
		a, _ := c.mul(c.base(), k)
		b, _ := c.mul(c.base(), k2)
		got, _ := c.add(a, b)
		var wx, wy big.Int
		switch d.Name {
		case "BN254":
			cv := bn254ed.GetEdwardsCurve()
			var p, q bn254ed.PointAffine
			p.ScalarMultiplication(&cv.Base, k)
			q.ScalarMultiplication(&cv.Base, k2)
			p.Add(&p, &q)
			p.X.BigInt(&wx)
			p.Y.BigInt(&wy)
		case "BLS12-381":
			cv := bls12381ed.GetEdwardsCurve()
			var p, q bls12381ed.PointAffine
			p.ScalarMultiplication(&cv.Base, k)
			q.ScalarMultiplication(&cv.Base, k2)
			p.Add(&p, &q)
			p.X.BigInt(&wx)
			p.Y.BigInt(&wy)
		default:
			continue
		}
		if got.X.Cmp(&wx) != 0 || got.Y.Cmp(&wy) != 0 {
			bad(d.Name + ": twisted Edwards oracle differs from gnark-crypto")
		}
		r.Count("selfcheck.oracle-vs-reference-library.agree", 1)
	}
	// ---- ECDSA reference vs crypto/ecdsa and gnark-crypto
	for _, d := range emuCurves() {
		c := d.c
		var std elliptic.Curve
		switch c.Name {
		case "P-256":
			std = elliptic.P256()
		case "P-384":
			std = elliptic.P384()
		case "secp256k1":
		default:
			continue
		}
		for i := 0; i < 4; i++ {
			sk := randNonzero(rng, c.R)
			Q := c.mul(c.G(), sk)
			e := randNonzero(rng, c.R)
			rr, ss, ok := ecdsaSignRef(c, sk, e, randNonzero(rng, c.R))
			if !ok {
				continue
			}
			for _, tamper := range []bool{false, true} {
				ee := new(big.Int).Set(e)
				if tamper {
					ee.Add(ee, bi(1)).Mod(ee, c.R)
				}
				mine := ecdsaVerifyRef(c, Q, ee, rr, ss)
				var lib bool
				size := (c.R.BitLen() + 7) / 8
				if std != nil {
					pub := &ecdsa.PublicKey{Curve: std, X: Q.X, Y: Q.Y}
					lib = ecdsa.Verify(pub, ee.FillBytes(make([]byte, size)), rr, ss)
				} else {
					var pk secpecdsa.PublicKey
					pk.A.X.SetBigInt(Q.X)
					pk.A.Y.SetBigInt(Q.Y)
					sig := append(rr.FillBytes(make([]byte, 32)), ss.FillBytes(make([]byte, 32))...)
					lib, _ = pk.Verify(sig, ee.FillBytes(make([]byte, 32)), nil)
				}
				if mine != lib || mine == tamper {
					bad(c.Name + ": ECDSA reference differs from the native library")
				}
				r.Count("selfcheck.ecdsa-reference-vs-native-library.agree", 1)
			}
			if c.Name == "secp256k1" {
				for v := 27; v <= 28; v++ {
					q, qnr, inf := ecrecoverRef(c, e, rr, ss, v)
					var pk secpecdsa.PublicKey
					err := pk.RecoverFrom(e.FillBytes(make([]byte, 32)), uint(v-27), rr, ss)
					if (err != nil) != (qnr || inf) {
						bad("ecrecover reference: failure flag differs from gnark-crypto")
					} else if err == nil {
						var x, y big.Int
						pk.A.X.BigInt(&x)
						pk.A.Y.BigInt(&y)
						if q.X.Cmp(&x) != 0 || q.Y.Cmp(&y) != 0 {
							bad("ecrecover reference: key differs from gnark-crypto")
						}
					}
					r.Count("selfcheck.ecrecover-reference-vs-gnark-crypto.agree", 1)
				}
			}
		}
	}
	// ---- EdDSA reference vs gnark-crypto signer
	ids := map[string]tedwards.ID{"BN254": tedwards.BN254, "BLS12-381": tedwards.BLS12_381, "BLS12-377": tedwards.BLS12_377, "BW6-761": tedwards.BW6_761,
		"BLS24-315": tedwards.BLS24_315, "BLS24-317": tedwards.BLS24_317, "BW6-633": tedwards.BW6_633}
	for _, d := range tedCurves() {
		id, ok := ids[d.Name]
		if !ok {
			continue
		}
		signer, err := gceddsa.New(id, detReader{rng})
		if err != nil {
			bad(d.Name + ": eddsa.New: " + err.Error())
			continue
		}
		msg := randBelow(rng, d.c.P)
		sz := (d.c.P.BitLen() + 7) / 8
		msgB := msg.FillBytes(make([]byte, sz))
		sig, err := signer.Sign(msgB, mimcOf[d.Name].New())
		if err != nil {
			bad(d.Name + ": eddsa sign: " + err.Error())
			continue
		}
		var gs stdeddsa.Signature
		var gp stdeddsa.PublicKey
		gs.Assign(id, sig)
		gp.Assign(id, signer.Public().Bytes())
		toInt := func(v any) *big.Int { return new(big.Int).SetBytes(v.([]byte)) }
		A := epoint{toInt(gp.A.X), toInt(gp.A.Y)}
		R := epoint{toInt(gs.R.X), toInt(gs.R.Y)}
		S := toInt(gs.S)
		okv, err := eddsaVerifyRef(d, A, R, S, msg)
		libok, _ := signer.Public().Verify(sig, msgB, mimcOf[d.Name].New())
		if err != nil || !okv || !libok {
			bad(d.Name + ": EdDSA reference rejects a signature made by gnark-crypto")
		}
		msg2 := new(big.Int).Mod(new(big.Int).Add(msg, bi(1)), d.c.P)
		okv2, _ := eddsaVerifyRef(d, A, R, S, msg2)
		lib2, _ := signer.Public().Verify(sig, msg2.FillBytes(make([]byte, sz)), mimcOf[d.Name].New())
		if okv2 || lib2 {
			bad(d.Name + ": EdDSA reference accepts a wrong message")
		}
		r.Count("selfcheck.eddsa-reference-vs-gnark-crypto.agree", 2)
	}
}
