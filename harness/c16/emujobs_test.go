//go:build verif

package c16

import (
	"fmt"
	"math/big"
	"math/rand/v2"
	"os"
	"strings"
	"time"

	"github.com/consensys/gnark-crypto/ecc"

	"github.com/consensys/gnark/verifharness/internal/vcore"
)

// emuQuota: number of cases per (curve, op) in the quick tier; thorough runs
// the complete directed list (and a second list drawn from another stream).
var emuQuickQuota = map[string]map[string]int{
	"secp256k1": {"AddUnified": 12, "Add": 6, "Neg": 2, "AssertIsOnCurve": 5, "ScalarMul": 30, "ScalarMulBase": 10, "JointScalarMulBase": 8, "MultiScalarMul": 4, "MultiScalarMulFold": 3},
	"P-256":     {"AddUnified": 12, "Add": 6, "Neg": 2, "AssertIsOnCurve": 5, "ScalarMul": 28, "ScalarMulBase": 10, "JointScalarMulBase": 7, "MultiScalarMul": 4, "MultiScalarMulFold": 3},
	"BN254":     {"AddUnified": 12, "Add": 6, "Neg": 2, "AssertIsOnCurve": 5, "ScalarMul": 26, "ScalarMulBase": 9, "JointScalarMulBase": 6, "MultiScalarMul": 3, "MultiScalarMulFold": 2, "ECAdd": 8, "ECMul": 10},
	"P-384":     {"AddUnified": 8, "Add": 4, "Neg": 1, "AssertIsOnCurve": 3, "ScalarMul": 12, "ScalarMulBase": 5, "JointScalarMulBase": 2, "MultiScalarMul": 1, "MultiScalarMulFold": 1},
	"BLS12-381": {"AddUnified": 8, "Add": 4, "Neg": 1, "AssertIsOnCurve": 3, "ScalarMul": 12, "ScalarMulBase": 5, "JointScalarMulBase": 2, "MultiScalarMul": 1, "MultiScalarMulFold": 1},
	"BW6-761":   {"AddUnified": 6, "Add": 3, "Neg": 1, "AssertIsOnCurve": 2, "ScalarMul": 8, "ScalarMulBase": 2, "JointScalarMulBase": 1, "MultiScalarMul": 0, "MultiScalarMulFold": 0},
	"STARK":     {"AddUnified": 4, "Add": 2, "Neg": 1, "AssertIsOnCurve": 2, "ScalarMul": 8, "ScalarMulBase": 3, "JointScalarMulBase": 2, "MultiScalarMul": 1, "MultiScalarMulFold": 1},
}

// rough per-case cost in ms by op (4-limb curve), used only for scheduling order
var emuCost = map[string]int{"ECAdd": 10, "ECMul": 250, "Double": 5, "DoubleAndAdd": 5, "Curve.ScalarMul": 100, "AddUnified": 10, "Add": 5, "Neg": 2, "AssertIsOnCurve": 5, "ScalarMul": 250, "ScalarMulBase": 200, "JointScalarMulBase": 400, "MultiScalarMul": 700, "MultiScalarMulFold": 700}

func curveWeight(name string) int {
	switch name {
	case "P-384", "BLS12-381":
		return 2
	case "BW6-761":
		return 6
	}
	return 1
}

// alwaysKeep marks the sentinel classes: every run of either tier executes them
// on every curve of the tier, in both modes, whatever the seed (outside the
// quotas).  They contain the classes named in the property statement and one
// witness for every failure class known on the unchanged tree, so that the set
// of violation signatures does not depend on what the seeded sampling picks.
func alwaysKeep(c *emuCase) bool {
	if strings.HasPrefix(c.Class, "coincide:") || c.Class == "n=4,pairs-equal" {
		// coinciding partial results of the joint / multi scalar multiplications
		if c.Curve == "BW6-761" {
			return c.Op == "JointScalarMulBase" && c.Complete
		}
		if c.Curve == "BLS12-381" || c.Curve == "STARK" {
			return c.Op == "JointScalarMulBase" || c.Class == "coincide:n=2,[s1]P1=[s0]P0"
		}
		return true
	}
	if c.Curve == "BW6-761" {
		// six times the cost of a 4-limb curve: only the classes of the property
		// statement; every failure class seen on it is also seen on a cheaper curve
		if !c.Complete && (c.Op == "ScalarMul" || c.Op == "ScalarMulBase") {
			return false
		}
		switch c.Op {
		case "ScalarMul":
			return c.Class == "s=0,P=R1" || c.Class == "s=1,P=R1" || c.Class == "s=r-1,P=R1" || c.Class == "s=random,P=inf" || c.Class == "s=r+1,P=R1"
		case "ScalarMulBase":
			return c.Class == "s=0" || c.Class == "s=1"
		}
	}
	switch c.Op {
	case "ECMul":
		for _, s := range []string{"s=0,P=R1", "s=r-1,P=R1", "s=1,P=G", "s=1,P=R1", "s=0,P=inf", "s=random,P=inf", "s=r-2,P=R1", "s=r,P=R1", "s=r+1,P=R1",
			"s=0,P=8G(table-point)", "s=1,P=8G(table-point)", "s=glv:+1*1+1*lambda,P=G", "s=glv:+1*lambda-1*lambda^2,P=R1"} {
			if c.Class == s {
				return true
			}
		}
	case "ECAdd":
		return c.Class == "inf+inf" || c.Class == "G+G" || c.Class == "G+-G"
	case "ScalarMul":
		for _, s := range []string{"s=3,P=R1", "s=r-3,P=R1", "s=0,P=8G(table-point)", "s=1,P=8G(table-point)", "s=glv:+1*1+1*lambda,P=G", "s=glv:+1*lambda-1*lambda^2,P=R1", "s=0,P=R1", "s=1,P=R1", "s=r-1,P=R1", "s=r,P=R1", "s=r+1,P=R1", "s=cap,P=R1", "s=random,P=inf", "s=0,P=inf", "s=glv:+1*lambda,P=G", "s=glv:+1*lambda^2,P=G", "s=1,P=G", "s=2,P=G"} {
			if c.Class == s {
				return true
			}
		}
	case "ScalarMulBase":
		return c.Class == "s=0" || c.Class == "s=1" || c.Class == "s=r-1" || c.Class == "s=r+1" || c.Class == "s=3" || c.Class == "s=r" || c.Class == "s=glv:+1*1+1*lambda"
	case "AddUnified":
		return c.Class == "inf+inf" || c.Class == "G+G" || c.Class == "G+-G" || c.Class == "inf+R1" || c.Class == "R1+inf" || c.Class == "R1+R2"
	case "JointScalarMulBase":
		return c.Class == "P=R1,s=random,random" || c.Class == "P=inf,s=random,random" || c.Class == "P=G,s=1,r-1(sum=inf)"
	case "MultiScalarMul":
		// the 2-chain Curve wrapper (emulated scalar type packed into a native variable)
		return strings.HasPrefix(c.Pkg, "sw_bls") && (c.Class == "n=2,random" || c.Class == "n=2,oversized")
	}
	return false
}

func emuNatives() []*big.Int {
	// the gadgets run over different SNARK fields; most cases use BN254
	return []*big.Int{ecc.BN254.ScalarField(), ecc.BLS12_377.ScalarField(), ecc.BW6_761.ScalarField()}
}

// emuPlan is the case list of the emulated family plus the hint inputs it implies.
type emuPlan struct {
	descs map[string]*emuCurveDesc
	cases []*emuCase
}

func planEmu(r *vcore.Run) *emuPlan {
	pl := &emuPlan{descs: map[string]*emuCurveDesc{}}
	sel := os.Getenv("VERIF_C16_CURVES")
	for _, d := range emuCurves() {
		pl.descs[d.c.Name] = d
		if sel != "" && !strings.Contains(","+sel+",", ","+d.c.Name+",") {
			continue
		}
		if d.c.Name == "STARK" && r.Quick() && sel == "" {
			// STARK curve is not in the property's list; thorough only
			continue
		}
		rng := r.Rand("emu/" + d.c.Name)
		natives := emuNatives()
		cases := d.genEmuCases(rng, nativeBN254)
		if r.Quick() {
			cases = sampleEmu(rng, cases, emuQuickQuota[d.c.Name])
		} else if os.Getenv("VERIF_C16_ALL") == "" {
			// thorough: the complete directed list (sampled for the two most
			// expensive curves), plus a second list whose random members come
			// from another stream
			rng2 := r.Rand("emu2/" + d.c.Name)
			extra := d.genEmuCases(rng2, nativeBN254)
			q := map[string]int{}
			for op, n := range emuQuickQuota[d.c.Name] {
				q[op] = n * 2
			}
			if d.c.Name == "BW6-761" {
				cases = sampleEmu(rng, cases, map[string]int{"AddUnified": 49, "Add": 20, "Neg": 7, "AssertIsOnCurve": 12, "ScalarMul": 60, "ScalarMulBase": 25, "JointScalarMulBase": 16, "MultiScalarMul": 8, "MultiScalarMulFold": 6})
				extra = nil
			}
			cases = append(cases, sampleEmu(rng2, extra, q)...)
		}
		// a share of the cases runs over another native field
		for i, c := range cases {
			if i%7 == 3 {
				c.Native = natives[1+(i/7)%2]
			}
		}
		pl.cases = append(pl.cases, cases...)
	}
	return pl
}

// hintInputs lists the decomposition-hint calls a case will make (read off the
// gadget source: which hint each method uses and on which value).
func (pl *emuPlan) hintInputs(c *emuCase) []hintProbe {
	d := pl.descs[c.Curve]
	r := d.c.R
	nl := d.nbLimbs
	var out []hintProbe
	mk := func(h string, nout int, class string, in ...*big.Int) {
		out = append(out, hintProbe{Hint: h, Curve: c.Curve, Class: class, Mod: c.Native, Emulated: true, EmuMod: r, NbLimbs: nl, Inputs: in, NbOut: nout})
	}
	isMul := false
	switch c.Op {
	case "ScalarMul", "ScalarMulBase", "JointScalarMulBase", "MultiScalarMul", "MultiScalarMulFold", "ECMul":
		isMul = true
	}
	if !isMul {
		return nil
	}
	rm1 := new(big.Int).Sub(r, big.NewInt(1))
	for i, k := range c.Ks {
		km := new(big.Int).Mod(k, r)
		cls := fmt.Sprintf("scalar#%d-of:%s", i, c.Class)
		if d.glv {
			eis := c.Op == "ScalarMul" || c.Op == "ECMul" || c.Op == "ScalarMulBase" || c.Op == "MultiScalarMulFold" || (c.Op == "JointScalarMulBase" && c.Complete) ||
				(c.Op == "MultiScalarMul" && (c.Complete || len(c.Ks)%2 == 1))
			dec := (c.Op == "JointScalarMulBase" && !c.Complete) || (c.Op == "MultiScalarMul" && !c.Complete && len(c.Ks) >= 2)
			if eis {
				v := k
				if c.Complete && (km.Sign() == 0 || km.Cmp(rm1) == 0) {
					v = big.NewInt(1)
				}
				mk("sw_emulated.halfGCDEisenstein", 4, cls, v, d.lambda)
			}
			if dec {
				mk("sw_emulated.decomposeScalarG1Subscalars", 2, cls, k, d.lambda)
			}
		} else {
			v := k
			if c.Complete && km.Sign() == 0 {
				v = big.NewInt(1)
			}
			mk("sw_emulated.halfGCD", 2, cls, v)
		}
	}
	return out
}

func probeKey(p hintProbe) string {
	s := p.Hint + "|" + p.Curve
	for _, v := range p.Inputs {
		s += "|" + v.String()
	}
	return s
}

// emuTasks turns the plan into pool tasks. stuck holds the probe keys the
// liveness screen flagged; cases depending on them are not executed except for
// a small sample that runs under a short watchdog to confirm the hang in the
// gadget itself.
func (pl *emuPlan) tasks(r *vcore.Run, jd *emuJudge, stuck map[string]bool, hangSeen func(c *emuCase, confirmed bool)) []task {
	var ts []task
	confirmBudget := r.Pick(3, 10)
	for _, c := range pl.cases {
		c := c
		d := pl.descs[c.Curve]
		if c.Wide {
			// not an element of the scalar type: executed without verdict, under a
			// short watchdog of its own (the decomposition hints are not written
			// for such inputs), not probed by the hint screen
			ts = append(ts, task{fam: "emu", data: c, cost: emuCost[c.Op] * curveWeight(d.c.Name), watchdog: 90 * time.Second,
				done: func(o outcome) { jd.judge(d, c, o) }})
			continue
		}
		predicted := false
		for _, p := range pl.hintInputs(c) {
			if stuck[probeKey(p)] {
				predicted = true
			}
		}
		t := task{fam: "emu", data: c, cost: emuCost[c.Op] * curveWeight(d.c.Name)}
		if predicted {
			r.Count("emu.cases-with-hint-nontermination-predicted", 1)
			if confirmBudget == 0 || curveWeight(d.c.Name) > 1 {
				r.Eval("emu|"+c.key(), true)
				r.Count("emu.skipped(hint-nontermination-predicted-by-screen)", 1)
				continue
			}
			confirmBudget--
			t.watchdog = 25 * time.Second
			t.cost = 1 << 30 // start these first
			t.done = func(o outcome) {
				r.Eval("emu|"+c.key(), true)
				hangSeen(c, o.Hang)
			}
			ts = append(ts, t)
			continue
		}
		t.done = func(o outcome) { jd.judge(d, c, o) }
		ts = append(ts, t)
	}
	return ts
}

// sampleEmu keeps the always-keep classes and fills each op's quota with a
// seeded choice among the rest, alternating complete / incomplete variants.
func sampleEmu(rng *rand.Rand, cases []*emuCase, quota map[string]int) []*emuCase {
	byOp := map[string][]*emuCase{}
	var ops []string
	for _, c := range cases {
		if _, ok := byOp[c.Op]; !ok {
			ops = append(ops, c.Op)
		}
		byOp[c.Op] = append(byOp[c.Op], c)
	}
	var out []*emuCase
	for _, op := range ops {
		list := byOp[op]
		n := quota[op]
		var keep, rest []*emuCase
		for _, c := range list {
			if alwaysKeep(c) {
				keep = append(keep, c)
			} else {
				rest = append(rest, c)
			}
		}
		rng.Shuffle(len(rest), func(i, j int) { rest[i], rest[j] = rest[j], rest[i] })
		// the sentinels are outside the quota; the quota is filled with a seeded
		// choice among the remaining classes
		out = append(out, keep...)
		for i := 0; i < len(rest) && i < n; i++ {
			out = append(out, rest[i])
		}
	}
	return out
}
