//go:build verif

package c16

// Native twisted Edwards gadgets (std/algebra/native/twistededwards) on every
// companion curve.

import (
	"encoding/json"
	"fmt"
	"math/big"
	"math/rand/v2"

	tedwards "github.com/consensys/gnark-crypto/ecc/twistededwards"
	"github.com/consensys/gnark/constraint/solver"
	"github.com/consensys/gnark/frontend"
	"github.com/consensys/gnark/std/algebra/native/twistededwards"
	"github.com/consensys/gnark/test"

	"github.com/consensys/gnark/verifharness/internal/vcore"
)

type tedDesc struct {
	Name string
	ID   tedwards.ID
	c    *ecurve
}

func tedCurves() []*tedDesc {
	ids := []struct {
		n  string
		id tedwards.ID
	}{{"BN254", tedwards.BN254}, {"BLS12-377", tedwards.BLS12_377}, {"BLS12-381", tedwards.BLS12_381}, {"Bandersnatch", tedwards.BLS12_381_BANDERSNATCH},
		{"BLS24-315", tedwards.BLS24_315}, {"BLS24-317", tedwards.BLS24_317}, {"BW6-761", tedwards.BW6_761}, {"BW6-633", tedwards.BW6_633}}
	var out []*tedDesc
	for _, x := range ids {
		pr, err := twistededwards.GetCurveParams(x.id)
		if err != nil {
			panic(err)
		}
		f, err := twistededwards.GetSnarkField(x.id)
		if err != nil {
			panic(err)
		}
		out = append(out, &tedDesc{Name: x.n, ID: x.id, c: &ecurve{Name: x.n, P: f, A: new(big.Int).Mod(pr.A, f), D: new(big.Int).Mod(pr.D, f),
			Order: pr.Order, Cofactor: pr.Cofactor, Bx: pr.Base[0], By: pr.Base[1]}})
	}
	return out
}

type tedCfg struct {
	id   tedwards.ID
	op   string
	sink *sink
}

type tedCircuit struct {
	P, Q   twistededwards.Point
	S1, S2 frontend.Variable
	cfg    *tedCfg
}

func (c *tedCircuit) Define(api frontend.API) error {
	cv, err := twistededwards.NewEdCurve(api, c.cfg.id)
	if err != nil {
		return err
	}
	var res twistededwards.Point
	switch c.cfg.op {
	case "Add":
		res = cv.Add(c.P, c.Q)
	case "Double":
		res = cv.Double(c.P)
	case "Neg":
		res = cv.Neg(c.P)
	case "ScalarMul":
		res = cv.ScalarMul(c.P, c.S1)
	case "DoubleBaseScalarMul":
		res = cv.DoubleBaseScalarMul(c.P, c.Q, c.S1, c.S2)
	case "AssertIsOnCurve":
		cv.AssertIsOnCurve(c.P)
		res = c.P
	default:
		return fmt.Errorf("unknown op")
	}
	h := solver.Hint(captureHint)
	if c.cfg.sink != nil {
		h = c.cfg.sink.hint()
	}
	// same calling convention as the emulated capture: [1, x, y]
	_, err = api.Compiler().NewHint(h, 1, 1, res.X, res.Y)
	return err
}

type tedCase struct {
	Curve    string
	Op       string
	Class    string
	P, Q     [2]*big.Int
	S1, S2   *big.Int
	InDomain bool
	WantDef  bool // oracle value defined (no vanishing denominator)
	// NoOracle: the case has no reference value.  ScalarMul of a point outside
	// the prime-order subgroup by a scalar >= Order: the group law gives
	// [s]P, the native library (gnark-crypto, which is what the honest hint and
	// the property's "same group elements as the native library" refer to)
	// reduces the scalar modulo Order on the GLV curve (Bandersnatch) and
	// gives [s mod Order]P, different on low-order components; no doc comment
	// of the package promises either.  Executed and counted, no verdict.
	NoOracle bool
	Want     [2]*big.Int
	WantSat  bool // AssertIsOnCurve
}

func (c *tedCase) key() string {
	return fmt.Sprintf("ted|%s|%s|%s|%v|%v|%v|%v", c.Curve, c.Op, c.Class, c.P, c.Q, c.S1, c.S2)
}

func (c *tedCase) replay() map[string]any {
	return map[string]any{"gadget": "twistededwards." + c.Op, "curve": c.Curve, "class": c.Class, "P": bigStrs(c.P[:]), "Q": bigStrs(c.Q[:]),
		"s1": c.S1.String(), "s2": c.S2.String(), "oracle": bigStrs(c.Want[:]), "in_documented_domain": c.InDomain, "engine": "test.IsSolved"}
}

func execTed(raw json.RawMessage) outcome {
	var c tedCase
	if err := json.Unmarshal(raw, &c); err != nil {
		return outcome{Err: "decode: " + err.Error()}
	}
	var d *tedDesc
	for _, x := range tedCurves() {
		if x.Name == c.Curve {
			d = x
		}
	}
	if d == nil {
		return outcome{Err: "decode: unknown curve"}
	}
	sk := &sink{bitsPerLimb: 0}
	cfg := &tedCfg{id: d.ID, op: c.Op, sink: sk}
	circ := &tedCircuit{cfg: cfg}
	asg := &tedCircuit{cfg: cfg, P: twistededwards.Point{X: c.P[0], Y: c.P[1]}, Q: twistededwards.Point{X: c.Q[0], Y: c.Q[1]}, S1: c.S1, S2: c.S2}
	err := test.IsSolved(circ, asg, d.c.P)
	o := outcome{Sat: err == nil}
	if err != nil {
		o.Err = firstLine(err.Error())
		return o
	}
	if len(sk.got) != 1 {
		return outcome{Err: fmt.Sprintf("harness: capture point reached %d times", len(sk.got))}
	}
	o.Got = []string{sk.got[0][0].String(), sk.got[0][1].String()}
	o.Correct = c.WantDef && sk.got[0][0].Cmp(c.Want[0]) == 0 && sk.got[0][1].Cmp(c.Want[1]) == 0
	return o
}

func init() { executors["ted"] = execTed }

// sqrtMod returns a square root of a mod p, or nil.
func sqrtMod(a, p *big.Int) *big.Int {
	return new(big.Int).ModSqrt(new(big.Int).Mod(a, p), p)
}

// randCurvePoint returns a random point of the full curve group.
func (c *ecurve) randCurvePoint(rng *rand.Rand) epoint {
	for {
		y := randBelow(rng, c.P)
		yy := c.m(new(big.Int).Mul(y, y))
		num := c.m(new(big.Int).Sub(big.NewInt(1), yy))
		den := c.m(new(big.Int).Sub(c.A, new(big.Int).Mul(c.D, yy)))
		if den.Sign() == 0 {
			continue
		}
		den.ModInverse(den, c.P)
		x := sqrtMod(new(big.Int).Mul(num, den), c.P)
		if x == nil {
			continue
		}
		if rng.UintN(2) == 1 {
			x = c.m(new(big.Int).Neg(x))
		}
		p := epoint{x, y}
		if c.onCurve(p) {
			return p
		}
	}
}

func (d *tedDesc) gen(rng *rand.Rand, quick bool) []*tedCase {
	c := d.c
	B := c.base()
	mulB := func(k *big.Int) epoint { p, _ := c.mul(B, k); return p }
	R1 := mulB(randNonzero(rng, c.Order))
	R2 := mulB(randNonzero(rng, c.Order))
	id := c.id()
	ord2 := epoint{new(big.Int), c.m(big.NewInt(-1))}
	// a point of the cofactor subgroup other than the identity and (0,-1), when found
	var low epoint
	haveLow := false
	for i := 0; i < 40 && !haveLow; i++ {
		t, ok := c.mul(c.randCurvePoint(rng), c.Order)
		if ok && !c.eq(t, id) && !c.eq(t, ord2) {
			low, haveLow = t, true
		}
	}
	type np struct {
		n     string
		p     epoint
		prime bool // in the prime-order subgroup and not the identity
	}
	pts := []np{{"B", B, true}, {"-B", c.neg(B), true}, {"R1", R1, true}, {"-R1", c.neg(R1), true}, {"R2", R2, true}, {"identity", id, false}, {"order2", ord2, false}}
	if haveLow {
		pts = append(pts, np{"low-order", low, false})
		m, ok := c.add(R1, low)
		if ok {
			pts = append(pts, np{"R1+low-order", m, false})
		}
	}
	var out []*tedCase
	mk := func(op, class string, p, q epoint, s1, s2 *big.Int, want epoint, def, in bool) {
		tc := &tedCase{Curve: d.Name, Op: op, Class: class, P: [2]*big.Int{p.X, p.Y}, Q: [2]*big.Int{q.X, q.Y}, S1: s1, S2: s2, InDomain: in && def, WantDef: def}
		if def {
			tc.Want = [2]*big.Int{want.X, want.Y}
		} else {
			tc.Want = [2]*big.Int{new(big.Int), new(big.Int)}
		}
		out = append(out, tc)
	}
	z := new(big.Int)
	for _, p := range pts {
		for _, q := range pts {
			w, ok := c.add(p.p, q.p)
			// the addition law of a complete curve is defined on every pair of curve points
			mk("Add", p.n+"+"+q.n, p.p, q.p, z, z, w, ok, true)
		}
		w, ok := c.add(p.p, p.p)
		mk("Double", "2*"+p.n, p.p, id, z, z, w, ok, true)
		mk("Neg", "-"+p.n, p.p, id, z, z, c.neg(p.p), true, true)
		out = append(out, &tedCase{Curve: d.Name, Op: "AssertIsOnCurve", Class: p.n, P: [2]*big.Int{p.p.X, p.p.Y}, Q: [2]*big.Int{z, big.NewInt(1)}, S1: z, S2: z, InDomain: true, WantSat: true, Want: [2]*big.Int{z, z}})
	}
	for _, off := range []np{{"(Bx,By+1)", epoint{B.X, c.m(new(big.Int).Add(B.Y, big.NewInt(1)))}, false}, {"(0,0)", epoint{new(big.Int), new(big.Int)}, false}, {"(R1x,R2y)", epoint{R1.X, R2.Y}, false}} {
		if !c.onCurve(off.p) {
			out = append(out, &tedCase{Curve: d.Name, Op: "AssertIsOnCurve", Class: "off-curve:" + off.n, P: [2]*big.Int{off.p.X, off.p.Y}, Q: [2]*big.Int{z, big.NewInt(1)}, S1: z, S2: z, InDomain: true, WantSat: false, Want: [2]*big.Int{z, z}})
		}
	}
	// scalars
	ord := c.Order
	add := func(x *big.Int, y int64) *big.Int { return new(big.Int).Add(x, big.NewInt(y)) }
	type ns struct {
		n  string
		v  *big.Int
		in bool // 1 <= s < Order
	}
	sc := []ns{{"0", bi(0), false}, {"1", bi(1), true}, {"2", bi(2), true}, {"3", bi(3), true}, {"order-1", add(ord, -1), true}, {"order-2", add(ord, -2), true},
		{"order", ord, false}, {"order+1", add(ord, 1), false}, {"2*order", new(big.Int).Lsh(ord, 1), false}, {"p-1", add(c.P, -1), false},
		{"(order-1)/2", new(big.Int).Rsh(add(ord, -1), 1), true}, {"(order+1)/2", new(big.Int).Rsh(add(ord, 1), 1), true},
		{"isqrt(order)", new(big.Int).Sqrt(ord), true}, {"isqrt(order)+1", add(new(big.Int).Sqrt(ord), 1), true},
		{"2^(bits/2)", new(big.Int).Lsh(bi(1), uint(ord.BitLen()/2)), true}, {"2^(bits-1)", new(big.Int).Lsh(bi(1), uint(ord.BitLen()-1)), true},
		{"2^(bits-1)-1", add(new(big.Int).Lsh(bi(1), uint(ord.BitLen()-1)), -1), true}, {"small64", new(big.Int).SetUint64(rng.Uint64() | 1), true},
		{"random", randNonzero(rng, ord), true}, {"random", randNonzero(rng, ord), true}, {"random<p(oversized)", new(big.Int).Add(ord, randBelow(rng, new(big.Int).Sub(c.P, ord))), false}}
	for _, s := range sc {
		if s.v.Cmp(c.P) >= 0 {
			continue
		}
		for _, p := range pts {
			if !quick || p.n == "R1" || p.n == "B" || p.n == "identity" || p.n == "low-order" || p.n == "order2" || s.n == "random" {
				w, ok := c.mul(p.p, s.v)
				mk("ScalarMul", "s="+s.n+",P="+p.n, p.p, id, s.v, z, w, ok, s.in && p.prime)
				if !p.prime && p.n != "identity" && s.v.Cmp(ord) >= 0 {
					out[len(out)-1].NoOracle = true
				}
			}
		}
	}
	// DoubleBaseScalarMul: plain double-and-add over the full bit length — every
	// field element is a valid scalar, every curve point a valid base
	db := func(class string, p, q epoint, s1, s2 *big.Int) {
		a, ok1 := c.mul(p, s1)
		b, ok2 := c.mul(q, s2)
		w, ok3 := c.add(a, b)
		mk("DoubleBaseScalarMul", class, p, q, s1, s2, w, ok1 && ok2 && ok3, true)
	}
	rs := func() *big.Int { return randBelow(rng, c.P) }
	db("random", R1, R2, rs(), rs())
	db("random,B", B, R2, rs(), rs())
	db("s=0,0", R1, R2, bi(0), bi(0))
	db("s=0,random", R1, R2, bi(0), rs())
	db("s=1,1", R1, R2, bi(1), bi(1))
	db("s=order,order", R1, R2, ord, ord)
	db("s=order-1,1,P=Q", R1, R1, add(ord, -1), bi(1))
	db("P=Q,random", R1, R1, rs(), rs())
	db("P=-Q,same-scalar", R1, c.neg(R1), bi(77), bi(77))
	db("P=identity", id, R2, rs(), rs())
	db("Q=identity", R1, id, rs(), rs())
	db("P=order2", ord2, R2, rs(), rs())
	db("s=p-1,p-1", R1, R2, add(c.P, -1), add(c.P, -1))
	if haveLow {
		db("P=low-order", low, R2, rs(), rs())
	}
	return out
}

func judgeTed(r *vcore.Run, c *tedCase, o outcome) {
	fam := "twistededwards." + c.Op
	r.Eval(c.key(), true)
	r.Count("ted.cases."+c.Curve, 1)
	r.Count("ted.op."+c.Op, 1)
	if poolTrouble(r, "ted", o, c.replay(), fam) {
		return
	}
	if c.Op == "AssertIsOnCurve" {
		if o.Sat == c.WantSat {
			r.Count(map[bool]string{true: "ted.oncurve.accepted", false: "ted.oncurve.rejected-off-curve"}[c.WantSat], 1)
			return
		}
		rep := c.replay()
		rep["error"] = o.Err
		r.Violation(fam+"/"+map[bool]string{true: "rejects-valid-point", false: "ACCEPTS-off-curve-point"}[c.WantSat], fmt.Sprintf("%s on %s: satisfiable=%v oracle=%v (%s)", fam, c.Curve, o.Sat, c.WantSat, c.Class), rep)
		return
	}
	switch {
	case !c.WantDef:
		r.Count("ted.oracle-undefined(vanishing-denominator)", 1)
	case c.NoOracle:
		what := "unsatisfiable"
		if o.Sat && o.Correct {
			what = "equals-the-group-law"
		} else if o.Sat {
			what = "differs-from-the-group-law"
		}
		r.Count("ted.no-verdict(point-outside-prime-subgroup,scalar>=order)."+what, 1)
		r.SampleClass("ted/ScalarMul/no-verdict/"+what, map[string]any{"curve": c.Curve, "class": c.Class, "gadget": o.Got, "group_law": bigStrs(c.Want[:])})
	case o.Sat && o.Correct:
		if c.InDomain {
			r.Count("ted.in-domain.correct", 1)
		} else {
			r.Count("ted.outside-domain.correct", 1)
			r.Count("ted.outside-domain.correct."+c.Op, 1)
		}
		r.SampleClass("ted/"+c.Op+"/"+map[bool]string{true: "in-domain", false: "outside-domain-correct"}[c.InDomain], map[string]any{"curve": c.Curve, "class": c.Class, "result": bigStrs(c.Want[:])})
	case !o.Sat && !c.InDomain:
		r.Count("ted.outside-domain.unsatisfiable", 1)
		r.Count("ted.outside-domain.unsatisfiable."+c.Op, 1)
		r.SampleClass("ted/"+c.Op+"/outside-domain-unsat", map[string]any{"curve": c.Curve, "class": c.Class, "outcome": o.Err})
	case o.Sat && !c.InDomain:
		// ScalarMul with a scalar outside [1, order) or a point outside the
		// prime-order subgroup: the package documents no contract for these;
		// a wrong value under honest hints is still a finding (nothing in the
		// documentation warns the caller)
		rep := c.replay()
		rep["gadget_result"] = o.Got
		r.Count("ted.WRONG-RESULT", 1)
		r.Violation(fam+"/WRONG-RESULT-on-exceptional-input/"+tedClass(c), fmt.Sprintf("%s on %s is satisfiable with a value different from the group law on an exceptional input: %s", fam, c.Curve, c.Class), rep)
	case o.Sat:
		rep := c.replay()
		rep["gadget_result"] = o.Got
		r.Count("ted.WRONG-RESULT", 1)
		r.Violation(fam+"/WRONG-RESULT/"+tedClass(c), fmt.Sprintf("%s on %s is satisfiable with a value different from the group law: %s", fam, c.Curve, c.Class), rep)
	default:
		rep := c.replay()
		rep["error"] = o.Err
		r.Count("ted.UNSAT-IN-DOMAIN", 1)
		r.Violation(fam+"/unsatisfiable-in-documented-domain/"+tedClass(c), fmt.Sprintf("%s on %s rejects an input of its domain: %s: %s", fam, c.Curve, c.Class, o.Err), rep)
	}
}

// tedClass strips the case label down to a coarse, stable class.
func tedClass(c *tedCase) string {
	if c.Op == "ScalarMul" || c.Op == "DoubleBaseScalarMul" {
		return c.Class
	}
	return "points"
}
