//go:build verif

package c16

// EVM precompile gadgets for BLS12-381 (EIP-2537), std/evmprecompiles/11-blsg1add.go
// … 17-blsmaptog2.go: ECAddG1BLS, ECMSMG1BLS, ECAddG2BLS, ECMSMG2BLS, ECPairBLS,
// ECPairBLSIsOnG1, ECPairBLSIsOnG2, ECPairBLSMillerLoopAndMul,
// ECPairBLSMillerLoopAndFinalExpCheck, ECMapToG1BLS, ECMapToG2BLS.
//
// One case = (gadget, input class, concrete inputs as affine coordinates).  The
// parent builds the inputs with gnark-crypto (plain data, JSON); a worker
// process rebuilds the native points from the coordinates, asks gnark-crypto's
// ecc/bls12-381 what must come out, runs the gadget in gnark's test engine and
// reads the result at a capture hint.
//
// Domain ("Domain" field of a case), read off the doc comments:
//   in      the doc comment covers the input: value gadgets must be satisfiable
//           and equal to the native result, flag / check gadgets must be
//           satisfiable exactly when the native library agrees with the claim,
//           inputs the gadget documents to reject must be unsatisfiable;
//   silent  the doc comment says nothing about the input ((0,0) as an input of
//           the MSM / pairing / membership gadgets): "unsatisfiable or equal to
//           the native result" — an unsatisfiable case is counted, no verdict.

import (
	"encoding/json"
	"fmt"
	"math/big"
	"math/rand/v2"
	"os"
	"strconv"
	"strings"
	"sync"
	"syscall"
	"time"

	"github.com/consensys/gnark-crypto/ecc"
	gcbls "github.com/consensys/gnark-crypto/ecc/bls12-381"
	"github.com/consensys/gnark-crypto/ecc/bls12-381/fp"
	"github.com/consensys/gnark-crypto/ecc/bls12-381/fr"
	"github.com/consensys/gnark-crypto/ecc/bls12-381/hash_to_curve"
	"github.com/consensys/gnark/frontend"
	"github.com/consensys/gnark/std/algebra/emulated/fields_bls12381"
	"github.com/consensys/gnark/std/algebra/emulated/sw_bls12381"
	"github.com/consensys/gnark/std/evmprecompiles"
	"github.com/consensys/gnark/std/math/emulated"
	"github.com/consensys/gnark/test"

	"github.com/consensys/gnark/verifharness/internal/vcore"
)

const blsMax = 4

type blsCfg struct {
	kind string
	n    int
	sink *sink
}

type blsCircuit struct {
	P   [blsMax]sw_bls12381.G1Affine
	Q   [blsMax]sw_bls12381.G2Affine
	K   [blsMax]sw_bls12381.Scalar
	Acc sw_bls12381.GTEl
	Exp sw_bls12381.GTEl
	U   fields_bls12381.E2
	B   frontend.Variable
	cfg *blsCfg
}

func (c *blsCircuit) Define(api frontend.API) error {
	n := c.cfg.n
	ecfg := &emuCfg{sink: c.cfg.sink}
	capG1 := func(p *sw_bls12381.G1Affine) error {
		return capturePoint[emulated.BLS12381Fp](api, ecfg, &p.X, &p.Y)
	}
	capG2 := func(q *sw_bls12381.G2Affine) error {
		if err := capturePoint[emulated.BLS12381Fp](api, ecfg, &q.P.X.A0, &q.P.X.A1); err != nil {
			return err
		}
		return capturePoint[emulated.BLS12381Fp](api, ecfg, &q.P.Y.A0, &q.P.Y.A1)
	}
	ps := make([]*sw_bls12381.G1Affine, n)
	qs := make([]*sw_bls12381.G2Affine, n)
	ks := make([]*sw_bls12381.Scalar, n)
	for i := 0; i < n; i++ {
		ps[i], qs[i], ks[i] = &c.P[i], &c.Q[i], &c.K[i]
	}
	switch c.cfg.kind {
	case "g1add":
		return capG1(evmprecompiles.ECAddG1BLS(api, &c.P[0], &c.P[1]))
	case "g1msm":
		return capG1(evmprecompiles.ECMSMG1BLS(api, ps, ks))
	case "g2add":
		return capG2(evmprecompiles.ECAddG2BLS(api, &c.Q[0], &c.Q[1]))
	case "g2msm":
		return capG2(evmprecompiles.ECMSMG2BLS(api, qs, ks))
	case "pair":
		evmprecompiles.ECPairBLS(api, ps, qs)
		return nil
	case "isong1":
		return evmprecompiles.ECPairBLSIsOnG1(api, &c.P[0], c.B)
	case "isong2":
		return evmprecompiles.ECPairBLSIsOnG2(api, &c.Q[0], c.B)
	case "mlmul":
		return evmprecompiles.ECPairBLSMillerLoopAndMul(api, &c.Acc, &c.P[0], &c.Q[0], &c.Exp)
	case "mlfe":
		return evmprecompiles.ECPairBLSMillerLoopAndFinalExpCheck(api, &c.Acc, &c.P[0], &c.Q[0], c.B)
	case "mapg1":
		return capG1(evmprecompiles.ECMapToG1BLS(api, &c.U.A0))
	case "mapg2":
		return capG2(evmprecompiles.ECMapToG2BLS(api, &c.U))
	}
	return fmt.Errorf("unknown kind %q", c.cfg.kind)
}

var blsGadget = map[string]string{
	"g1add": "ECAddG1BLS", "g1msm": "ECMSMG1BLS", "g2add": "ECAddG2BLS", "g2msm": "ECMSMG2BLS", "pair": "ECPairBLS",
	"isong1": "ECPairBLSIsOnG1", "isong2": "ECPairBLSIsOnG2", "mlmul": "ECPairBLSMillerLoopAndMul",
	"mlfe": "ECPairBLSMillerLoopAndFinalExpCheck", "mapg1": "ECMapToG1BLS", "mapg2": "ECMapToG2BLS",
}

// blsCase is one executed case.  Points are affine coordinates ((0,0) is the
// EVM encoding of the point at infinity): G1 as [x, y], G2 as [x.a0, x.a1, y.a0, y.a1].
type blsCase struct {
	Kind   string
	Class  string
	Domain string // "in" | "silent"
	N      int
	G1     [][]*big.Int
	G2     [][]*big.Int
	K      []*big.Int
	U      []*big.Int // map-to-curve input: [u] or [u.a0, u.a1]
	Flag   int        // claimed boolean of the flag circuits
	// mlmul / mlfe: the gadget receives the last pair; the accumulator is the
	// native Miller loop of the pairs before it (one when there are none)
	Tweak string // mlmul: "wrong-expected"
	// Sig replaces Class in a violation signature when several classes (or
	// several gadgets' variants of a class) have one root cause
	Sig  string
	Cost int
}

func (c *blsCase) key() string {
	return fmt.Sprintf("evmbls|%s|%s|%d|%v|%v|%v|%v|%d|%s", c.Kind, c.Class, c.N, c.G1, c.G2, c.K, c.U, c.Flag, c.Tweak)
}

func coordStrs(v [][]*big.Int) [][]string {
	out := make([][]string, len(v))
	for i := range v {
		out[i] = bigStrs(v[i])
	}
	return out
}

func (c *blsCase) replay() map[string]any {
	return map[string]any{"gadget": "evmprecompiles." + blsGadget[c.Kind], "class": c.Class, "documented_domain": c.Domain, "n": c.N,
		"G1_points[x,y]": coordStrs(c.G1), "G2_points[x.a0,x.a1,y.a0,y.a1]": coordStrs(c.G2), "scalars": bigStrs(c.K),
		"map_input": bigStrs(c.U), "claimed_flag": c.Flag, "tweak": c.Tweak, "engine": "test.IsSolved over the BN254 scalar field",
		"accumulator(mlmul,mlfe)": "conjugate of the native MillerLoopFixedQ of the pairs before the last one (1 when none); the gadget receives the last pair; mlmul: expected = accumulator * conjugate(MillerLoopFixedQ(last pair))"}
}

// ---------------------------------------------------------------- native side

func fpOf(v *big.Int) fp.Element { var e fp.Element; e.SetBigInt(v); return e }

func g1Of(c []*big.Int) gcbls.G1Affine {
	return gcbls.G1Affine{X: fpOf(c[0]), Y: fpOf(c[1])}
}

func g2Of(c []*big.Int) gcbls.G2Affine {
	var q gcbls.G2Affine
	q.X.A0, q.X.A1, q.Y.A0, q.Y.A1 = fpOf(c[0]), fpOf(c[1]), fpOf(c[2]), fpOf(c[3])
	return q
}

func g1Coords(p *gcbls.G1Affine) []*big.Int {
	return []*big.Int{p.X.BigInt(new(big.Int)), p.Y.BigInt(new(big.Int))}
}

func g2Coords(q *gcbls.G2Affine) []*big.Int {
	return []*big.Int{q.X.A0.BigInt(new(big.Int)), q.X.A1.BigInt(new(big.Int)), q.Y.A0.BigInt(new(big.Int)), q.Y.A1.BigInt(new(big.Int))}
}

// membership as EIP-2537 and the native library define it ((0,0) is the identity,
// a member of both groups)
func inG1(p *gcbls.G1Affine) bool { return p.IsOnCurve() && p.IsInSubGroup() }
func inG2(q *gcbls.G2Affine) bool { return q.IsOnCurve() && q.IsInSubGroup() }

// g1MulPlain / g2MulPlain: double-and-add with the generic Jacobian formulas.
// gnark-crypto's ScalarMultiplication uses the GLV endomorphism, which acts as
// multiplication by λ on the subgroup of order r only: for points of E(Fp) /
// E'(Fp2) outside that subgroup it does not compute [k]P.
func g1MulPlain(p *gcbls.G1Affine, k *big.Int) gcbls.G1Affine {
	var acc, base gcbls.G1Jac
	base.FromAffine(p)
	acc.X.SetOne()
	acc.Y.SetOne()
	acc.Z.SetZero()
	for i := k.BitLen() - 1; i >= 0; i-- {
		acc.DoubleAssign()
		if k.Bit(i) == 1 {
			acc.AddAssign(&base)
		}
	}
	var out gcbls.G1Affine
	out.FromJacobian(&acc)
	return out
}

func g2MulPlain(q *gcbls.G2Affine, k *big.Int) gcbls.G2Affine {
	var acc, base gcbls.G2Jac
	base.FromAffine(q)
	acc.X.SetOne()
	acc.Y.SetOne()
	acc.Z.SetZero()
	for i := k.BitLen() - 1; i >= 0; i-- {
		acc.DoubleAssign()
		if k.Bit(i) == 1 {
			acc.AddAssign(&base)
		}
	}
	var out gcbls.G2Affine
	out.FromJacobian(&acc)
	return out
}

// blsMillerLoop is the accumulator convention of the fixed circuits: the chain
// MillerLoopAndMul … MillerLoopAndFinalExpCheck multiplies the *conjugates* of
// the Miller loops (pairing.go: "res = pr.Ext12.Conjugate(res)" after a Miller
// loop that already ends with the conjugation for the negative seed), i.e. it
// accumulates ∏ f_{|x₀|,Qᵢ}(Pᵢ), whose final exponentiation is (∏ e(Pᵢ,Qᵢ))⁻¹;
// the product is one exactly when ∏ e(Pᵢ,Qᵢ) is.  Lines as the gadget computes
// them (affine, the same as gnark-crypto's PrecomputeLines / MillerLoopFixedQ).
func blsMillerLoop(P []gcbls.G1Affine, Q []gcbls.G2Affine) (gcbls.GT, error) {
	lines := make([][2][len(gcbls.LoopCounter) - 1]gcbls.LineEvaluationAff, len(Q))
	for i := range Q {
		lines[i] = gcbls.PrecomputeLines(Q[i])
	}
	ml, err := gcbls.MillerLoopFixedQ(P, lines)
	if err != nil {
		return ml, err
	}
	ml.Conjugate(&ml)
	return ml, nil
}

// h_eff of RFC 9380 §8.8 (what EIP-2537 means by "clear cofactor")
var blsHEffG1, _ = new(big.Int).SetString("d201000000010001", 16)
var blsHEffG2, _ = new(big.Int).SetString("bc69f08f2ee75b3584c6a0ea91b352888e2a8e9145ad7689986ff031508ffe1329c2f178731db956d82bf015d1212b02ec0ec69d7477c1ae954cbc06689f6a359894c0adebbf6b4e8020005aaa95551", 16)

// blsOracle: what the native library says about a case.
type blsVerdict struct {
	wantSat bool
	want    []*big.Int // expected coordinates of a value gadget
	note    string
	err     string
}

func blsNative(c *blsCase) (v blsVerdict, P []gcbls.G1Affine, Q []gcbls.G2Affine, acc, exp gcbls.GT) {
	for _, x := range c.G1 {
		P = append(P, g1Of(x))
	}
	for _, x := range c.G2 {
		Q = append(Q, g2Of(x))
	}
	acc.SetOne()
	exp.SetOne()
	rmod := fr.Modulus()
	switch c.Kind {
	case "g1add":
		// "Check that P and Q are on curve … no subgroup check"
		v.wantSat = P[0].IsOnCurve() && P[1].IsOnCurve()
		var s gcbls.G1Affine
		s.Add(&P[0], &P[1])
		v.want = g1Coords(&s)
	case "g2add":
		v.wantSat = Q[0].IsOnCurve() && Q[1].IsOnCurve()
		var s gcbls.G2Affine
		s.Add(&Q[0], &Q[1])
		v.want = g2Coords(&s)
	case "g1msm":
		// "Check that Pᵢ are on G1"
		v.wantSat = true
		var s gcbls.G1Affine
		ks := make([]fr.Element, c.N)
		for i := 0; i < c.N; i++ {
			v.wantSat = v.wantSat && inG1(&P[i])
			var t gcbls.G1Affine
			t.ScalarMultiplication(&P[i], new(big.Int).Mod(c.K[i], rmod))
			s.Add(&s, &t)
			ks[i].SetBigInt(c.K[i])
		}
		v.want = g1Coords(&s)
		if v.wantSat {
			var m gcbls.G1Affine
			if _, err := m.MultiExp(P[:c.N], ks, ecc.MultiExpConfig{NbTasks: 1}); err != nil || !m.Equal(&s) {
				v.err = "harness: oracle self-check: MultiExp differs from the sum of ScalarMultiplication"
			}
		}
	case "g2msm":
		v.wantSat = true
		var s gcbls.G2Affine
		ks := make([]fr.Element, c.N)
		for i := 0; i < c.N; i++ {
			v.wantSat = v.wantSat && inG2(&Q[i])
			var t gcbls.G2Affine
			t.ScalarMultiplication(&Q[i], new(big.Int).Mod(c.K[i], rmod))
			s.Add(&s, &t)
			ks[i].SetBigInt(c.K[i])
		}
		v.want = g2Coords(&s)
		if v.wantSat {
			var m gcbls.G2Affine
			if _, err := m.MultiExp(Q[:c.N], ks, ecc.MultiExpConfig{NbTasks: 1}); err != nil || !m.Equal(&s) {
				v.err = "harness: oracle self-check: MultiExp differs from the sum of ScalarMultiplication"
			}
		}
	case "pair", "mlfe", "mlmul":
		// ECPairBLS: "1- Check that Pᵢ are on G1 … 2- Check that Qᵢ are on G2 (done
		// in `computeLines` in `MillerLoopAndMul` and `MillerLoopAndFinalExpCheck`)
		// … 3- Check that ∏ᵢ e(Pᵢ, Qᵢ) == 1".  The two fixed circuits document the
		// G2 check only (the G1 check is ECPairBLSIsOnG1 / ECPairBLS itself): their
		// cases use members of G1.
		memberP, memberQ := true, true
		for i := 0; i < c.N; i++ {
			memberP = memberP && inG1(&P[i])
			memberQ = memberQ && inG2(&Q[i])
		}
		member := memberP && memberQ
		ok := false
		if member {
			var err error
			if ok, err = gcbls.PairingCheck(P[:c.N], Q[:c.N]); err != nil {
				v.err = "harness: native PairingCheck: " + err.Error()
			}
		}
		v.note = fmt.Sprintf("all-P-in-G1=%v all-Q-in-G2=%v product-is-one=%v", memberP, memberQ, ok)
		if c.Kind == "pair" {
			v.wantSat = member && ok
			break
		}
		if !memberP {
			v.err = "harness: the cases of the fixed circuits use members of G1 only"
			break
		}
		if c.N > 1 {
			ml, err := blsMillerLoop(P[:c.N-1], Q[:c.N-1])
			if err != nil {
				v.err = "harness: native MillerLoop: " + err.Error()
			}
			acc = ml
		}
		if c.Kind == "mlfe" {
			v.wantSat = memberQ && (c.Flag == 1) == ok
			break
		}
		// mlmul: expected = accumulator · conj(MillerLoop(P, Q)), the value the
		// next fixed circuit of the chain receives (computed with the same
		// b-free line formulas whatever the point: a non-member must be rejected
		// although the value is "right")
		ml, err := blsMillerLoop(P[c.N-1:c.N], Q[c.N-1:c.N])
		if err != nil {
			v.err = "harness: native MillerLoop: " + err.Error()
		}
		exp.Mul(&acc, &ml)
		v.wantSat = memberQ
		if c.Tweak == "wrong-expected" {
			_, _, g1, g2 := gcbls.Generators()
			g, _ := gcbls.Pair([]gcbls.G1Affine{g1}, []gcbls.G2Affine{g2})
			exp.Mul(&exp, &g)
			v.wantSat = false
		}
	case "isong1":
		is := inG1(&P[0])
		v.note = fmt.Sprintf("on-curve=%v in-subgroup=%v", P[0].IsOnCurve(), P[0].IsOnCurve() && P[0].IsInSubGroup())
		v.wantSat = (c.Flag == 1) == is
	case "isong2":
		is := inG2(&Q[0])
		v.note = fmt.Sprintf("on-twist=%v in-subgroup=%v", Q[0].IsOnCurve(), Q[0].IsOnCurve() && Q[0].IsInSubGroup())
		v.wantSat = (c.Flag == 1) == is
	case "mapg1":
		// EIP-2537 BLS12_MAP_FP_TO_G1: simplified SWU on the 11-isogenous curve,
		// isogeny, cofactor clearing by h_eff (RFC 9380 §8.8.1)
		u := fpOf(c.U[0])
		m := gcbls.MapToG1(u)
		v.wantSat = true
		v.want = g1Coords(&m)
		iso := gcbls.MapToCurve1(&u)
		hash_to_curve.G1Isogeny(&iso.X, &iso.Y)
		chk := g1MulPlain(&iso, blsHEffG1)
		if !iso.IsOnCurve() || !m.IsInSubGroup() || !chk.Equal(&m) {
			v.err = "harness: oracle self-check: MapToG1 is not [h_eff]·iso(SSWU(u))"
		}
	case "mapg2":
		var u gcbls.E2
		u.A0, u.A1 = fpOf(c.U[0]), fpOf(c.U[1])
		m := gcbls.MapToG2(u)
		v.wantSat = true
		v.want = g2Coords(&m)
		iso := gcbls.MapToCurve2(&u)
		hash_to_curve.G2Isogeny(&iso.X, &iso.Y)
		chk := g2MulPlain(&iso, blsHEffG2)
		if !iso.IsOnCurve() || !m.IsInSubGroup() || !chk.Equal(&m) {
			v.err = "harness: oracle self-check: MapToG2 is not [h_eff]·iso(SSWU(u))"
		}
	default:
		v.err = "decode: kind"
	}
	return
}

// blsBatch: the cases of one pool task.  A worker process pays several seconds
// of one-time initialisation for the first BLS12-381 curve / pairing gadget it
// executes (gnark's parameter tables and friends); the cases are cheap next to
// it (0.01–3 s), so they travel in batches by gadget instead of being spread one
// by one over all the workers.
type blsBatch struct {
	Cases []*blsCase
}

func execBlsBatch(raw json.RawMessage) outcome {
	var b blsBatch
	if err := json.Unmarshal(raw, &b); err != nil {
		return outcome{Err: "decode: " + err.Error()}
	}
	outs := make([]outcome, len(b.Cases))
	cpu0 := processCPUms()
	for i, c := range b.Cases {
		t0 := time.Now()
		if p, st := vcore.Catch(func() { outs[i] = execBls(c) }); p != nil {
			outs[i] = outcome{Panic: fmt.Sprintf("%v\n%s", p, st)}
		}
		outs[i].Ms = time.Since(t0).Milliseconds()
	}
	j, err := json.Marshal(outs)
	if err != nil {
		return outcome{Err: "harness: batch answer: " + err.Error()}
	}
	return outcome{Sat: true, Vals: map[string]string{"batch": string(j), "cpu_ms": fmt.Sprint(processCPUms() - cpu0)}}
}

// processCPUms: user + system time of this worker process (all threads), the
// measure of what a batch costs on a shared machine (wall time is not).
func processCPUms() int64 {
	var ru syscall.Rusage
	if err := syscall.Getrusage(syscall.RUSAGE_SELF, &ru); err != nil {
		return 0
	}
	return (ru.Utime.Sec+ru.Stime.Sec)*1000 + int64(ru.Utime.Usec+ru.Stime.Usec)/1000
}

func execBls(c *blsCase) outcome {
	v, P, Q, acc, exp := blsNative(c)
	if v.err != "" {
		return outcome{Err: v.err}
	}
	var fpp emulated.BLS12381Fp
	sk := &sink{bitsPerLimb: fpp.BitsPerLimb(), mod: fpp.Modulus()}
	cfg := &blsCfg{kind: c.Kind, n: c.N, sink: sk}
	asg := &blsCircuit{cfg: cfg, B: c.Flag}
	_, _, g1, g2 := gcbls.Generators()
	for i := 0; i < blsMax; i++ {
		p, q := g1, g2
		if i < len(P) {
			p = P[i]
		}
		if i < len(Q) {
			q = Q[i]
		}
		k := big.NewInt(1)
		if i < len(c.K) {
			k = c.K[i]
		}
		asg.P[i] = sw_bls12381.NewG1Affine(p)
		asg.Q[i] = sw_bls12381.NewG2Affine(q)
		e, ok := scalarElem[emulated.BLS12381Fr](k)
		if !ok {
			return outcome{Err: "harness: scalar is not an element of the scalar type"}
		}
		asg.K[i] = e
	}
	if c.Kind == "mlmul" || c.Kind == "mlfe" {
		// the fixed circuits receive the last pair
		asg.P[0] = sw_bls12381.NewG1Affine(P[c.N-1])
		asg.Q[0] = sw_bls12381.NewG2Affine(Q[c.N-1])
	}
	asg.Acc = sw_bls12381.NewGTEl(acc)
	asg.Exp = sw_bls12381.NewGTEl(exp)
	var u gcbls.E2
	if len(c.U) > 0 {
		u.A0 = fpOf(c.U[0])
	}
	if len(c.U) > 1 {
		u.A1 = fpOf(c.U[1])
	}
	asg.U = fields_bls12381.FromE2(&u)
	err := test.IsSolved(&blsCircuit{cfg: cfg}, asg, nativeBN254)
	o := outcome{Sat: err == nil, Vals: map[string]string{"wantsat": fmt.Sprint(v.wantSat), "note": v.note}}
	if v.want != nil {
		o.Vals["want"] = strings.Join(bigStrs(v.want), ",")
	}
	if err != nil {
		o.Err = firstLine(err.Error())
		return o
	}
	if v.want == nil {
		o.Correct = true
		return o
	}
	var got []*big.Int
	for _, g := range sk.got {
		got = append(got, g[0], g[1])
	}
	if len(got) != len(v.want) {
		return outcome{Err: fmt.Sprintf("harness: capture point delivered %d coordinates, expected %d", len(got), len(v.want))}
	}
	o.Got = bigStrs(got)
	o.Correct = true
	for i := range got {
		if got[i].Cmp(v.want[i]) != 0 {
			o.Correct = false
		}
	}
	return o
}

func init() { executors["evmbls"] = execBlsBatch }

// ---------------------------------------------------------------- case lists

// blsPoints: seeded inputs.
type blsGen struct {
	rng *rand.Rand
	r   *big.Int
	p   *big.Int
}

func (g *blsGen) scalar() *big.Int { return randNonzero(g.rng, g.r) }

func (g *blsGen) g1(a *big.Int) []*big.Int {
	var p gcbls.G1Affine
	p.ScalarMultiplicationBase(a)
	return g1Coords(&p)
}

func (g *blsGen) g2(b *big.Int) []*big.Int {
	var q gcbls.G2Affine
	q.ScalarMultiplicationBase(b)
	return g2Coords(&q)
}

func negG1(c []*big.Int) []*big.Int {
	p := g1Of(c)
	p.Neg(&p)
	return g1Coords(&p)
}

func negG2(c []*big.Int) []*big.Int {
	q := g2Of(c)
	q.Neg(&q)
	return g2Coords(&q)
}

func infG1() []*big.Int { return []*big.Int{bi(0), bi(0)} }
func infG2() []*big.Int { return []*big.Int{bi(0), bi(0), bi(0), bi(0)} }

// curveNotG1: a point of E(Fp) outside the subgroup of order r (random x).
func (g *blsGen) curveNotG1() []*big.Int {
	for {
		var p gcbls.G1Affine
		p.X = fpOf(randBelow(g.rng, g.p))
		var rhs fp.Element
		rhs.Square(&p.X).Mul(&rhs, &p.X)
		var four fp.Element
		four.SetUint64(4)
		rhs.Add(&rhs, &four)
		if p.Y.Sqrt(&rhs) == nil {
			continue
		}
		if p.IsOnCurve() && !p.IsInSubGroup() && !p.IsInfinity() {
			return g1Coords(&p)
		}
	}
}

// twistNotG2: a point of the twist E'(Fp2) outside the subgroup of order r.
func (g *blsGen) twistNotG2() []*big.Int {
	var b gcbls.E2
	b.A0.SetUint64(4)
	b.A1.SetUint64(4)
	for {
		var q gcbls.G2Affine
		q.X.A0, q.X.A1 = fpOf(randBelow(g.rng, g.p)), fpOf(randBelow(g.rng, g.p))
		var rhs gcbls.E2
		rhs.Square(&q.X).Mul(&rhs, &q.X).Add(&rhs, &b)
		if rhs.Legendre() != 1 {
			continue
		}
		q.Y.Sqrt(&rhs)
		if q.IsOnCurve() && !q.IsInSubGroup() && !q.IsInfinity() {
			return g2Coords(&q)
		}
	}
}

// lowOrderG1 returns a point of E(Fp) of order ell (ell a prime with ell | h1, ell² ∤ … irrelevant:
// the point is checked).  #E(Fp) = h1·r, h1 = (x−1)²/3.
func (g *blsGen) lowOrderG1(ell int64) []*big.Int {
	x, _ := new(big.Int).SetString("d201000000010000", 16)
	x.Neg(x)
	h1 := new(big.Int).Sub(x, bi(1))
	h1.Mul(h1, h1).Div(h1, bi(3))
	n := new(big.Int).Mul(h1, g.r)
	e := ellCofactor(n, ell)
	for i := 0; i < 200; i++ {
		t := g1Of(g.curveNotG1())
		q := g1MulPlain(&t, e) // in the ell-Sylow subgroup
		for j := 0; j < 8 && !q.IsInfinity(); j++ {
			nx := g1MulPlain(&q, bi(ell))
			if nx.IsInfinity() {
				if q.IsOnCurve() && !q.IsInSubGroup() {
					return g1Coords(&q)
				}
				break
			}
			q = nx
		}
	}
	return nil
}

// ellCofactor returns n / ell^k with ell^k the exact power of ell dividing n.
func ellCofactor(n *big.Int, ell int64) *big.Int {
	e := new(big.Int).Set(n)
	for new(big.Int).Mod(e, bi(ell)).Sign() == 0 {
		e.Div(e, bi(ell))
	}
	return e
}

// lowOrderG2 returns a point of the twist of order ell.  #E'(Fp2) = h2·r.
func (g *blsGen) lowOrderG2(ell int64) []*big.Int {
	h2, _ := new(big.Int).SetString("5d543a95414e7f1091d50792876a202cd91de4547085abaa68a205b2e5a7ddfa628f1cb4d9e82ef21537e293a6691ae1616ec6e786f0c70cf1c38e31c7238e5", 16)
	n := new(big.Int).Mul(h2, g.r)
	e := ellCofactor(n, ell)
	for i := 0; i < 200; i++ {
		t := g2Of(g.twistNotG2())
		q := g2MulPlain(&t, e)
		for j := 0; j < 8 && !q.IsInfinity(); j++ {
			nx := g2MulPlain(&q, bi(ell))
			if nx.IsInfinity() {
				if q.IsOnCurve() && !q.IsInSubGroup() {
					return g2Coords(&q)
				}
				break
			}
			q = nx
		}
	}
	return nil
}

// scaledG1 / scaledG2: (x, y) -> (4x, 8y), the image of a subgroup point under
// the isomorphism onto y² = x³ + 64·b.  The point is off the curve, yet satisfies
// the endomorphism relations the subgroup tests are built on (−[x₀²]φ(P) = P,
// ψ(Q) = [x₀]Q), because neither the group law formulas nor φ, ψ involve b:
// only the curve equation tells it apart.
func scaledG1(c []*big.Int) []*big.Int {
	p := fp.Modulus()
	return []*big.Int{new(big.Int).Mod(new(big.Int).Mul(c[0], bi(4)), p), new(big.Int).Mod(new(big.Int).Mul(c[1], bi(8)), p)}
}

func scaledG2(c []*big.Int) []*big.Int {
	p := fp.Modulus()
	m := func(x *big.Int, k int64) *big.Int { return new(big.Int).Mod(new(big.Int).Mul(x, bi(k)), p) }
	return []*big.Int{m(c[0], 4), m(c[1], 4), m(c[2], 8), m(c[3], 8)}
}

func offCurveG1(c []*big.Int) []*big.Int {
	return []*big.Int{new(big.Int).Set(c[0]), new(big.Int).Add(c[1], bi(1))}
}

func offTwistG2(c []*big.Int) []*big.Int {
	return []*big.Int{new(big.Int).Set(c[0]), new(big.Int).Set(c[1]), new(big.Int).Add(c[2], bi(1)), new(big.Int).Set(c[3])}
}

// genBls builds the case list of a tier.  A class marked q runs in the quick
// tier; the thorough tier runs everything.
func genBls(rng *rand.Rand, quick bool) []*blsCase {
	g := &blsGen{rng: rng, r: fr.Modulus(), p: fp.Modulus()}
	r := g.r
	var out []*blsCase
	const q, th = true, false
	mk := func(inQuick bool, kind, class, domain string, cost int, f func(c *blsCase)) {
		if quick && !inQuick {
			return
		}
		c := &blsCase{Kind: kind, Class: class, Domain: domain, Cost: cost}
		f(c)
		out = append(out, c)
	}
	neg := func(x *big.Int) *big.Int { return new(big.Int).Mod(new(big.Int).Neg(x), r) }
	mul := func(x, y *big.Int) *big.Int { return new(big.Int).Mod(new(big.Int).Mul(x, y), r) }
	rm1 := new(big.Int).Sub(r, bi(1))
	top := new(big.Int).Sub(new(big.Int).Lsh(bi(1), uint(r.BitLen())), bi(1)) // widest value of the scalar type
	pm1 := new(big.Int).Sub(g.p, bi(1))
	one := bi(1)
	pts := func(x ...[]*big.Int) [][]*big.Int { return x }
	rs := func() *big.Int { return g.scalar() }

	a1, a2, b1, b2 := g.scalar(), g.scalar(), g.scalar(), g.scalar()
	P1, P2 := g.g1(a1), g.g1(a2)
	Q1, Q2 := g.g2(b1), g.g2(b2)
	N1, N2 := g.curveNotG1(), g.curveNotG1()
	T1, T2 := g.twistNotG2(), g.twistNotG2()
	ord3 := []*big.Int{bi(0), bi(2)} // (0,2): y² = 0 + 4, a point of order 3 with a zero coordinate
	L1 := g.lowOrderG1(11)
	L2 := g.lowOrderG2(13)
	S1, S2 := scaledG1(P1), scaledG2(Q1)
	if L1 == nil || L2 == nil {
		panic("evmbls: no low-order point found")
	}

	// ---- BLS12_G1ADD / BLS12_G2ADD: "P can be equal to Q, -Q and either or both
	// can be (0,0)", "no subgroup check", "Check that P and Q are on curve"
	for _, a := range []struct {
		inQuick bool
		class   string
		a, b    []*big.Int // G1
		c, d    []*big.Int // G2
	}{
		{q, "generic", P1, P2, Q1, Q2},
		{q, "P=Q", P1, P1, Q1, Q1},
		{q, "P=-Q", P1, negG1(P1), Q1, negG2(Q1)},
		{q, "inf+P", infG1(), P1, infG2(), Q1},
		{q, "P+inf", P1, infG1(), Q1, infG2()},
		{q, "inf+inf", infG1(), infG1(), infG2(), infG2()},
		{q, "outside-subgroup+generic", N1, P1, T1, Q1},
		{q, "outside-subgroup,P=Q", N1, N1, T1, T1},
		{q, "outside-subgroup,P=-Q", N1, negG1(N1), T1, negG2(T1)},
		{th, "outside-subgroup+outside-subgroup", N1, N2, T1, T2},
		{q, "low-order+generic", L1, P1, L2, Q1},
		{q, "low-order,P=Q", L1, L1, L2, L2},
		{th, "low-order,P=-Q", L1, negG1(L1), L2, negG2(L2)},
		{q, "off-curve+generic(must-reject)", offCurveG1(P1), P2, offTwistG2(Q1), Q2},
		{q, "generic+off-curve(must-reject)", P1, offCurveG1(P2), Q1, offTwistG2(Q2)},
		{q, "scaled-subgroup-point(4x,8y)-off-curve+generic(must-reject)", S1, P2, S2, Q2},
		{th, "inf+off-curve(must-reject)", infG1(), offCurveG1(P2), infG2(), offTwistG2(Q2)},
	} {
		a := a
		mk(a.inQuick, "g1add", a.class, "in", 30, func(c *blsCase) { c.G1 = pts(a.a, a.b) })
		mk(a.inQuick, "g2add", a.class, "in", 60, func(c *blsCase) { c.G2 = pts(a.c, a.d) })
	}
	mk(q, "g1add", "order3-point(0,2)+generic", "in", 30, func(c *blsCase) { c.G1 = pts(ord3, P1) })
	mk(q, "g1add", "order3-point(0,2),P=Q", "in", 30, func(c *blsCase) { c.G1 = pts(ord3, ord3) })
	mk(q, "g1add", "order3-point(0,2),P=-Q", "in", 30, func(c *blsCase) { c.G1 = pts(ord3, negG1(ord3)) })

	// ---- membership flag circuits: "checking G1/G2 membership and
	// non-membership" — both claims for every class: the right one must be
	// satisfiable, the wrong one must not
	for _, m := range []struct {
		right, wrong bool // tiers of the two claims
		class        string
		p, q         []*big.Int
		domain       string
	}{
		{q, q, "subgroup-point", P1, Q1, "in"},
		{q, q, "on-curve-outside-subgroup", N1, T1, "in"},
		{q, q, "off-curve", offCurveG1(P1), offTwistG2(Q1), "in"},
		{q, q, "scaled-subgroup-point(4x,8y)-off-curve", S1, S2, "in"},
		{q, th, "on-curve-low-order-point(order-11|order-13)", L1, L2, "in"},
		{q, th, "on-curve-low-order-point(order-3:(0,2))", ord3, nil, "in"},
		{q, th, "infinity(0,0)", infG1(), infG2(), "silent"},
		{th, th, "generator", g.g1(one), g.g2(one), "in"},
		{th, th, "subgroup-point#2", P2, Q2, "in"},
		{th, th, "on-curve-outside-subgroup#2", N2, T2, "in"},
	} {
		m := m
		for _, kind := range []string{"isong1", "isong2"} {
			kind := kind
			var is bool
			if kind == "isong1" {
				pp := g1Of(m.p)
				is = inG1(&pp)
			} else {
				if m.q == nil {
					continue
				}
				qq := g2Of(m.q)
				is = inG2(&qq)
			}
			right := 0
			if is {
				right = 1
			}
			cost := map[string]int{"isong1": 800, "isong2": 1200}[kind]
			sigOf := func(suffix string) string {
				if strings.HasPrefix(m.class, "on-curve-low-order-point") {
					// one root cause: the fixed addition chains of the subgroup tests
					// use incomplete formulas
					return "on-curve-low-order-point" + suffix
				}
				return ""
			}
			set := func(flag int, suffix string) func(c *blsCase) {
				return func(c *blsCase) {
					c.Flag = flag
					c.Sig = sigOf(suffix)
					if kind == "isong1" {
						c.G1 = pts(m.p)
					} else {
						c.G2 = pts(m.q)
					}
				}
			}
			mk(m.right, kind, fmt.Sprintf("%s,flag=%d", m.class, right), m.domain, cost, set(right, fmt.Sprintf(",flag=%d", right)))
			mk(m.wrong, kind, fmt.Sprintf("%s,flag=%d(must-reject)", m.class, 1-right), m.domain, cost, set(1-right, fmt.Sprintf(",flag=%d(must-reject)", 1-right)))
		}
	}

	// ---- BLS12_G1MSM / BLS12_G2MSM: "Check that Pᵢ are on G1/G2", complete
	// arithmetic (zero and over-sized scalars are in the domain); scalars are
	// elements of the scalar type, i.e. below 2^255
	P3, Q3p := g.g1(mul(a1, a2)), g.g2(mul(b1, b2))
	for _, m := range []struct {
		q1, q2 bool // G1 / G2 variant in the quick tier (a G2 scalar multiplication costs three G1 ones)
		class  string
		ps, qs [][]*big.Int
		ks     []*big.Int
		domain string
	}{
		{th, th, "n=1,s=random", pts(P1), pts(Q1), []*big.Int{rs()}, "in"},
		{q, q, "n=1,s=0", pts(P1), pts(Q1), []*big.Int{bi(0)}, "in"},
		{th, th, "n=1,s=1", pts(P1), pts(Q1), []*big.Int{one}, "in"},
		{th, th, "n=1,s=2", pts(P1), pts(Q1), []*big.Int{bi(2)}, "in"},
		{q, th, "n=1,s=r-1", pts(P1), pts(Q1), []*big.Int{rm1}, "in"},
		{th, th, "n=1,s=r", pts(P1), pts(Q1), []*big.Int{r}, "in"},
		{th, th, "n=1,s=r+1", pts(P1), pts(Q1), []*big.Int{new(big.Int).Add(r, one)}, "in"},
		{q, th, "n=1,s=r+random", pts(P1), pts(Q1), []*big.Int{new(big.Int).Add(r, randBelow(rng, new(big.Int).Sub(top, r)))}, "in"},
		{th, th, "n=1,s=2^255-1", pts(P1), pts(Q1), []*big.Int{top}, "in"},
		{th, th, "n=1,P=generator,s=random", pts(g.g1(one)), pts(g.g2(one)), []*big.Int{rs()}, "in"},
		{q, q, "n=2,random", pts(P1, P2), pts(Q1, Q2), []*big.Int{rs(), rs()}, "in"},
		{th, th, "n=2,s=(0,random)", pts(P1, P2), pts(Q1, Q2), []*big.Int{bi(0), rs()}, "in"},
		{th, th, "n=2,s=(random,0)", pts(P1, P2), pts(Q1, Q2), []*big.Int{rs(), bi(0)}, "in"},
		{th, th, "n=2,s=(0,0)", pts(P1, P2), pts(Q1, Q2), []*big.Int{bi(0), bi(0)}, "in"},
		{th, th, "n=2,P1=P0,s1=s0(terms-equal)", pts(P1, P1), pts(Q1, Q1), []*big.Int{a2, a2}, "in"},
		{q, th, "n=2,P1=P0,s1=-s0(sum=infinity)", pts(P1, P1), pts(Q1, Q1), []*big.Int{a2, neg(a2)}, "in"},
		{th, th, "n=2,P1=-P0,s1=s0(sum=infinity)", pts(P1, negG1(P1)), pts(Q1, negG2(Q1)), []*big.Int{a2, a2}, "in"},
		{th, th, "n=2,s=(r,r+1)", pts(P1, P2), pts(Q1, Q2), []*big.Int{r, new(big.Int).Add(r, one)}, "in"},
		{q, th, "n=3,random", pts(P1, P2, P3), pts(Q1, Q2, Q3p), []*big.Int{rs(), rs(), rs()}, "in"},
		{th, th, "n=3,s=(random,0,r-1)", pts(P1, P2, P3), pts(Q1, Q2, Q3p), []*big.Int{rs(), bi(0), rm1}, "in"},
		{th, th, "n=3,third-term-cancels-the-first-two(sum=infinity)", pts(P1, P2, P3), pts(Q1, Q2, Q3p), []*big.Int{a2, a1, neg(bi(2))}, "in"},
		{th, th, "n=4,random", pts(P1, P2, P3, g.g1(rs())), pts(Q1, Q2, Q3p, g.g2(rs())), []*big.Int{rs(), rs(), rs(), rs()}, "in"},
		{q, q, "n=1,point-outside-subgroup(must-reject)", pts(N1), pts(T1), []*big.Int{rs()}, "in"},
		{th, th, "n=2,second-point-outside-subgroup(must-reject)", pts(P1, N1), pts(Q1, T1), []*big.Int{rs(), rs()}, "in"},
		{th, th, "n=1,point-outside-subgroup,s=r(must-reject)", pts(N1), pts(T1), []*big.Int{r}, "in"},
		{th, th, "n=1,point-outside-subgroup,s=0(must-reject)", pts(N1), pts(T1), []*big.Int{bi(0)}, "in"},
		{th, th, "n=1,low-order-point(must-reject)", pts(L1), pts(L2), []*big.Int{rs()}, "in"},
		{th, th, "n=1,off-curve-point(must-reject)", pts(offCurveG1(P1)), pts(offTwistG2(Q1)), []*big.Int{rs()}, "in"},
		{th, th, "n=1,scaled-subgroup-point(4x,8y)-off-curve(must-reject)", pts(S1), pts(S2), []*big.Int{rs()}, "in"},
		{q, th, "n=1,P=infinity(0,0)", pts(infG1()), pts(infG2()), []*big.Int{rs()}, "silent"},
		{th, th, "n=2,P0=infinity(0,0)", pts(infG1(), P1), pts(infG2(), Q1), []*big.Int{rs(), rs()}, "silent"},
	} {
		m := m
		mk(m.q1, "g1msm", m.class, m.domain, 1500*len(m.ks), func(c *blsCase) { c.N, c.G1, c.K = len(m.ks), m.ps, m.ks })
		mk(m.q2, "g2msm", m.class, m.domain, 5000*len(m.ks), func(c *blsCase) { c.N, c.G2, c.K = len(m.ks), m.qs, m.ks })
	}
	// G1 only: (0,2) in the MSM (AssertIsOnG1 must reject it)
	mk(th, "g1msm", "n=1,order3-point(0,2)(must-reject)", "in", 1500, func(c *blsCase) { c.N, c.G1, c.K = 1, pts(ord3), []*big.Int{rs()} })

	// ---- BLS12_MAP_FP_TO_G1 / BLS12_MAP_FP2_TO_G2: every field element is an input
	ru := func() *big.Int { return randBelow(rng, g.p) }
	for _, m := range []struct {
		q1, q2 bool
		class  string
		u      []*big.Int
	}{
		{q, q, "u=0", []*big.Int{bi(0), bi(0)}},
		{q, th, "u=1", []*big.Int{one, bi(0)}},
		{q, th, "u=p-1", []*big.Int{pm1, pm1}},
		{q, q, "u=random", []*big.Int{ru(), ru()}},
		{th, th, "u=2", []*big.Int{bi(2), bi(0)}},
		{th, th, "u=(p-1)/2", []*big.Int{new(big.Int).Rsh(pm1, 1), bi(0)}},
		{th, th, "u=random#2", []*big.Int{ru(), ru()}},
		{th, th, "u=random#3", []*big.Int{ru(), ru()}},
	} {
		m := m
		mk(m.q1, "mapg1", m.class, "in", 700, func(c *blsCase) { c.U = m.u[:1] })
		mk(m.q2, "mapg2", m.class, "in", 2000, func(c *blsCase) { c.U = m.u })
	}
	mk(th, "mapg2", "u=(0,1)", "in", 2000, func(c *blsCase) { c.U = []*big.Int{bi(0), one} })
	mk(th, "mapg2", "u=(1,p-1)", "in", 2000, func(c *blsCase) { c.U = []*big.Int{one, pm1} })
	mk(th, "mapg2", "u=(random,0)", "in", 2000, func(c *blsCase) { c.U = []*big.Int{ru(), bi(0)} })

	// ---- BLS12_PAIRING_CHECK: ECPairBLS (n ≥ 2) and its two fixed circuits.
	// e([a]G1,[b]G2)·e([-ab]G1,G2) = 1; n = 3: a1·b1 + a2·b2 + x = 0
	const unit = 8000 // one in-circuit Miller loop on a loaded machine, ms
	G2gen := g.g2(one)
	trueP := pts(P1, g.g1(neg(mul(a1, b1))))
	falseP := pts(P1, g.g1(mul(a1, b1)))
	QQ := pts(Q1, G2gen)
	x3 := neg(new(big.Int).Add(mul(a1, b1), mul(a2, b2)))
	true3 := pts(P1, P2, g.g1(x3))
	false3 := pts(P1, P2, g.g1(new(big.Int).Add(x3, one)))
	QQQ := pts(Q1, Q2, G2gen)
	pr := func(inQuick bool, kind, class, domain string, n int, ps, qs [][]*big.Int, flag int, tweak string) {
		units := n
		if kind == "mlmul" || kind == "mlfe" {
			units = 1
		}
		mk(inQuick, kind, class, domain, unit*units, func(c *blsCase) {
			c.N, c.G1, c.G2, c.Flag, c.Tweak = n, ps, qs, flag, tweak
			if strings.Contains(class, "Q=scaled-subgroup-point(4x,8y)-off-twist") {
				c.Sig = "Q=scaled-subgroup-point(4x,8y)-off-twist"
			}
		})
	}
	// the flag circuit: accumulator = the pairs before the last one
	pr(q, "mlfe", "n=2,product=1,flag=1", "in", 2, trueP, QQ, 1, "")
	pr(th, "mlfe", "n=2,product!=1,flag=0", "in", 2, falseP, QQ, 0, "")
	pr(q, "mlfe", "n=3,product!=1,flag=1(must-reject)", "in", 3, false3, QQQ, 1, "")
	pr(th, "mlfe", "n=1,product!=1,flag=0", "in", 1, trueP[:1], QQ[:1], 0, "")
	pr(th, "mlfe", "n=1,product!=1,flag=1(must-reject)", "in", 1, trueP[:1], QQ[:1], 1, "")
	pr(th, "mlfe", "n=2,product=1,flag=0(must-reject)", "in", 2, trueP, QQ, 0, "")
	pr(th, "mlfe", "n=2,product!=1,flag=1(must-reject)", "in", 2, falseP, QQ, 1, "")
	pr(th, "mlfe", "n=3,product=1,flag=1", "in", 3, true3, QQQ, 1, "")
	pr(th, "mlfe", "n=3,product=1,flag=0(must-reject)", "in", 3, true3, QQQ, 0, "")
	pr(th, "mlfe", "n=3,product!=1,flag=0", "in", 3, false3, QQQ, 0, "")
	pr(th, "mlfe", "n=2,P1=-P0,Q1=Q0,product=1,flag=1", "in", 2, pts(P1, negG1(P1)), pts(Q1, Q1), 1, "")
	pr(th, "mlfe", "n=2,P1=P0,Q1=-Q0,product=1,flag=1", "in", 2, pts(P1, P1), pts(Q1, negG2(Q1)), 1, "")
	// "Check that Qᵢ are on G2 (done in computeLines in MillerLoopAndMul and
	// MillerLoopAndFinalExpCheck)": a Q outside G2 must make both unsatisfiable,
	// whatever is claimed
	pr(q, "mlfe", "n=1,Q=scaled-subgroup-point(4x,8y)-off-twist,flag=0(must-reject)", "in", 1, pts(P1), pts(S2), 0, "")
	pr(th, "mlfe", "n=1,Q-on-twist-outside-subgroup,flag=0(must-reject)", "in", 1, pts(P1), pts(T1), 0, "")
	pr(th, "mlfe", "n=1,Q-off-twist,flag=0(must-reject)", "in", 1, pts(P1), pts(offTwistG2(Q1)), 0, "")
	pr(q, "mlmul", "n=1,expected=conj(native-MillerLoop)", "in", 1, trueP[:1], QQ[:1], 0, "")
	pr(th, "mlmul", "n=1,expected=conj(native-MillerLoop)*e(G1,G2)(must-reject)", "in", 1, trueP[:1], QQ[:1], 0, "wrong-expected")
	pr(th, "mlmul", "n=2,expected=accumulator*conj(native-MillerLoop)", "in", 2, trueP, QQ, 0, "")
	pr(th, "mlmul", "n=3,expected=accumulator*conj(native-MillerLoop)", "in", 3, false3, QQQ, 0, "")
	pr(q, "mlmul", "n=1,Q=scaled-subgroup-point(4x,8y)-off-twist(must-reject)", "in", 1, pts(P1), pts(S2), 0, "")
	pr(th, "mlmul", "n=1,Q-on-twist-outside-subgroup(must-reject)", "in", 1, pts(P1), pts(T1), 0, "")
	// the precompile itself
	pr(th, "pair", "n=2,product=1", "in", 2, trueP, QQ, 0, "")
	pr(q, "pair", "n=3,product=1", "in", 3, true3, QQQ, 0, "")
	pr(th, "pair", "n=2,product!=1(must-reject)", "in", 2, falseP, QQ, 0, "")
	pr(th, "pair", "n=3,product!=1(must-reject)", "in", 3, false3, QQQ, 0, "")
	pr(th, "pair", "n=3,pairs-rotated,product=1", "in", 3, pts(true3[2], true3[0], true3[1]), pts(QQQ[2], QQQ[0], QQQ[1]), 0, "")
	pr(th, "pair", "n=2,P1=-P0,Q1=Q0,product=1", "in", 2, pts(P1, negG1(P1)), pts(Q1, Q1), 0, "")
	pr(th, "pair", "n=2,P1=P0,Q1=-Q0,product=1", "in", 2, pts(P1, P1), pts(Q1, negG2(Q1)), 0, "")
	pr(th, "pair", "n=4,product=1", "in", 4, pts(P1, negG1(P1), P2, negG1(P2)), pts(Q1, Q1, Q2, Q2), 0, "")
	// membership is part of ECPairBLS: e(N,Q)·e(−N,Q) = 1 holds for every
	// N ∈ E(Fp) (N = P + T with T of order prime to r, and e(T,Q) = 1), so the
	// pairing equation alone would accept
	pr(q, "pair", "n=2,P-outside-subgroup,P1=-P0,Q1=Q0(must-reject)", "in", 2, pts(N1, negG1(N1)), pts(Q1, Q1), 0, "")
	pr(th, "pair", "n=2,second-P-outside-subgroup(must-reject)", "in", 2, pts(P1, N1), QQ, 0, "")
	pr(th, "pair", "n=2,Q-outside-subgroup,P1=-P0,Q1=Q0(must-reject)", "in", 2, pts(P1, negG1(P1)), pts(T1, T1), 0, "")
	pr(th, "pair", "n=2,P=scaled-subgroup-point(4x,8y)-off-curve,P1=-P0,Q1=Q0(must-reject)", "in", 2, pts(S1, negG1(S1)), pts(Q1, Q1), 0, "")
	pr(q, "pair", "n=2,Q=scaled-subgroup-point(4x,8y)-off-twist,P1=-P0,Q1=Q0(must-reject)", "in", 2, pts(P1, negG1(P1)), pts(S2, S2), 0, "")
	pr(th, "pair", "n=2,P0=infinity(0,0),P1=infinity(0,0)", "silent", 2, pts(infG1(), infG1()), QQ, 0, "")
	pr(th, "pair", "n=2,Q0=infinity(0,0),Q1=infinity(0,0)", "silent", 2, trueP, pts(infG2(), infG2()), 0, "")
	return out
}

// ---------------------------------------------------------------- plan, judge

type blsPlan struct {
	cases []*blsCase
	quick bool
	emu   *emuPlan // BLS12-381 descriptor of the emulated family (hint inputs of the G1 MSM)
	mu    sync.Mutex
	redo  []*blsCase // cases of batches that failed as a whole
}

func planBls(r *vcore.Run) *blsPlan {
	pl := &blsPlan{cases: genBls(r.Rand("evmbls"), r.Quick()), quick: r.Quick()}
	if f := os.Getenv("VERIF_C16_BLS_KIND"); f != "" { // dev switch: restrict to some gadgets / classes
		var keep []*blsCase
		for _, c := range pl.cases {
			for _, k := range strings.Split(f, ",") {
				if k == c.Kind || strings.HasPrefix(c.Kind+"/"+c.Class, k) {
					keep = append(keep, c)
					break
				}
			}
		}
		pl.cases = keep
	}
	d := mkEmuDesc[emulated.BLS12381Fp, emulated.BLS12381Fr]("BLS12-381")
	pl.emu = &emuPlan{descs: map[string]*emuCurveDesc{d.c.Name: d}}
	return pl
}

// hintProbes of a case: ECMSMG1BLS is sw_emulated.MultiScalarMul with complete
// arithmetic, whose scalars go through the Eisenstein half-GCD hint (the hint
// that does not return on some scalars, see the liveness screen).
func (pl *blsPlan) hintProbes(c *blsCase) []hintProbe {
	if c.Kind != "g1msm" {
		return nil
	}
	return pl.emu.hintInputs(&emuCase{Curve: "BLS12-381", Op: "MultiScalarMul", Complete: true, Ks: c.K, Class: "evmprecompiles.ECMSMG1BLS:" + c.Class, Native: nativeBN254})
}

func (pl *blsPlan) probes() []hintProbe {
	var out []hintProbe
	for _, c := range pl.cases {
		out = append(out, pl.hintProbes(c)...)
	}
	return out
}

// batchMs: estimated serial cost of a batch (ms of a warmed-up worker; on the
// loaded machine a batch takes 3–6 times as long).  Quick: four batches
// (add+membership+map, msm, pairing in two), the one-time initialisation is paid
// four times; thorough: about a dozen, all well below the pool's 5 min watchdog.
func (pl *blsPlan) batchMs() int {
	if pl.quick {
		return 12000
	}
	return 15000
}

var blsWarmMs = map[string]int{"g1add": 25, "g2add": 30, "isong1": 250, "isong2": 300, "mapg1": 200, "mapg2": 700,
	"g1msm": 600, "g2msm": 1100, "mlmul": 1300, "mlfe": 1300, "pair": 1300}

func (pl *blsPlan) tasks(r *vcore.Run, stuck map[string]bool) []task {
	var ts []task
	// batches by gadget group, in list order
	group := map[string]string{"g1add": "add,membership,map", "g2add": "add,membership,map", "isong1": "add,membership,map", "isong2": "add,membership,map",
		"mapg1": "add,membership,map", "mapg2": "add,membership,map", "g1msm": "msm", "g2msm": "msm", "mlmul": "pairing", "mlfe": "pairing", "pair": "pairing"}
	open := map[string]*blsBatch{}
	openMs := map[string]int{}
	var order []string
	flush := func(gname string) {
		b := open[gname]
		if b == nil || len(b.Cases) == 0 {
			return
		}
		cost := openMs[gname] * 5 // the pool sorts by cost (ms on a loaded machine)
		ts = append(ts, task{fam: "evmbls", data: b, cost: cost, done: func(o outcome) { pl.batchDone(r, b, o) }})
		open[gname], openMs[gname] = nil, 0
	}
	for _, c := range pl.cases {
		skip := false
		for _, p := range pl.hintProbes(c) {
			skip = skip || stuck[probeKey(p)]
		}
		if skip {
			// reported by the liveness screen (hint-does-not-terminate/…); running
			// the gadget would only spin until the watchdog
			r.Eval(c.key(), true)
			r.Count("evmbls.skipped(hint-nontermination-predicted-by-screen)", 1)
			continue
		}
		gname := group[c.Kind]
		ms := blsWarmMs[c.Kind]
		if c.N > 1 && (c.Kind == "g1msm" || c.Kind == "g2msm" || c.Kind == "pair") {
			ms *= c.N
		}
		if open[gname] != nil && openMs[gname]+ms > pl.batchMs() {
			flush(gname)
		}
		if open[gname] == nil {
			open[gname] = &blsBatch{}
			order = append(order, gname)
		}
		open[gname].Cases = append(open[gname].Cases, c)
		openMs[gname] += ms
	}
	for _, gname := range order {
		flush(gname)
	}
	r.Count("evmbls.batches", len(ts))
	return ts
}

// batchDone judges the cases of a batch; a batch that failed as a whole (worker
// died, watchdog, bad answer) is taken apart and its cases run one by one after
// the pool has drained (rerunFailedBatches).
func (pl *blsPlan) batchDone(r *vcore.Run, b *blsBatch, o outcome) {
	var outs []outcome
	if o.Crash == "" && !o.Hang && o.Panic == "" && o.Vals["batch"] != "" {
		if err := json.Unmarshal([]byte(o.Vals["batch"]), &outs); err != nil || len(outs) != len(b.Cases) {
			outs = nil
		}
	}
	if outs == nil {
		if len(b.Cases) == 1 {
			judgeBls(r, b.Cases[0], o)
			return
		}
		r.Count("evmbls.batch-failed-as-a-whole(cases-repeated-one-by-one)", 1)
		pl.mu.Lock()
		pl.redo = append(pl.redo, b.Cases...)
		pl.mu.Unlock()
		return
	}
	if ms, err := strconv.Atoi(o.Vals["cpu_ms"]); err == nil {
		r.Count("evmbls.worker-cpu-ms(user+sys,all-batches)", ms)
		r.Count("evmbls.worker-cpu-ms.batch-starting-with:"+blsGadget[b.Cases[0].Kind], ms)
	}
	for i, c := range b.Cases {
		judgeBls(r, c, outs[i])
	}
}

// rerunFailedBatches: see batchDone.
func (pl *blsPlan) rerunFailedBatches(r *vcore.Run, workers int) {
	pl.mu.Lock()
	redo := pl.redo
	pl.redo = nil
	pl.mu.Unlock()
	if len(redo) == 0 {
		return
	}
	var ts []task
	for _, c := range redo {
		b := &blsBatch{Cases: []*blsCase{c}}
		ts = append(ts, task{fam: "evmbls", data: b, cost: c.Cost, done: func(o outcome) { pl.batchDone(r, b, o) }})
	}
	runPool(r, ts, workers, 5*time.Minute)
}

func judgeBls(r *vcore.Run, c *blsCase, o outcome) {
	gad := "evmprecompiles." + blsGadget[c.Kind]
	r.Eval(c.key(), true)
	r.Count("evmbls.cases", 1)
	r.Count("evmbls.kind."+blsGadget[c.Kind], 1)
	r.Count("evmbls.worker-ms."+blsGadget[c.Kind], int(o.Ms))
	if os.Getenv("VERIF_C16_BLS_MS") != "" { // dev switch: time per class
		r.Count("evmbls.ms/"+blsGadget[c.Kind]+"/"+c.Class, int(o.Ms))
	}
	rep := c.replay()
	if o.Hang {
		// an expired watchdog (the pool has already repeated the case with four
		// times the watchdog) says nothing about the gadget on a loaded machine
		r.Count("evmbls.watchdog-expired", 1)
		r.Inconclusive("evmbls:watchdog-expired:" + blsGadget[c.Kind])
		return
	}
	if poolTrouble(r, "evmbls", o, rep, gad) {
		return
	}
	wantSat := o.Vals["wantsat"] == "true"
	rep["error"] = o.Err
	rep["gadget_result"] = o.Got
	rep["native_result"] = o.Vals["want"]
	rep["native_says_satisfiable"] = wantSat
	rep["native_note"] = o.Vals["note"]
	valueGadget := o.Vals["want"] != ""
	sig := c.Class
	if c.Sig != "" {
		sig = c.Sig
	}
	switch {
	case wantSat && o.Sat && o.Correct:
		if valueGadget {
			r.Count("evmbls.value.correct", 1)
			if allZero(o.Vals["want"]) {
				r.Count("evmbls.value.result-at-infinity.correct", 1)
			}
		} else {
			r.Count("evmbls.predicate.accepted-as-native", 1)
		}
		if c.Domain == "silent" {
			r.Count("evmbls.doc-silent.correct."+blsGadget[c.Kind], 1)
		}
		r.SampleClass("evmbls/"+blsGadget[c.Kind]+"/"+c.Class, map[string]any{"satisfiable": true, "result": o.Got})
	case !wantSat && !o.Sat:
		r.Count("evmbls.rejected-as-native", 1)
		r.Count("evmbls.rejected-as-native."+blsGadget[c.Kind], 1)
		r.SampleClass("evmbls/"+blsGadget[c.Kind]+"/"+c.Class, map[string]any{"satisfiable": false, "error": o.Err})
	case wantSat && o.Sat:
		r.Count("evmbls.WRONG-RESULT", 1)
		r.Violation(gad+"/WRONG-RESULT/"+sig, gad+" is satisfiable with a result different from the native library: "+c.Class, rep)
	case o.Sat:
		r.Count("evmbls.ACCEPTED-what-native-rejects", 1)
		r.Violation(gad+"/ACCEPTS-what-the-native-library-rejects/"+sig, gad+" is satisfiable although the native library / the documented checks reject: "+c.Class, rep)
	case c.Domain == "silent":
		// unsatisfiable where the documentation is silent: no verdict
		r.Count("evmbls.doc-silent.unsatisfiable."+blsGadget[c.Kind], 1)
		r.SampleClass("evmbls/"+blsGadget[c.Kind]+"/"+c.Class, map[string]any{"satisfiable": false, "documentation": "silent", "error": o.Err})
	default:
		r.Count("evmbls.UNSAT-in-domain", 1)
		r.Violation(gad+"/unsatisfiable-in-documented-domain/"+sig, gad+" is unsatisfiable on an input of its documented domain that the native library accepts: "+c.Class+": "+o.Err, rep)
	}
}

func allZero(s string) bool {
	for _, f := range strings.Split(s, ",") {
		if f != "0" {
			return false
		}
	}
	return true
}
