//go:build verif

package c16

// Case lists of the native 2-chain short-Weierstrass gadgets (sw_bls12377 over
// the BW6-761 scalar field, sw_bls24315 over the BW6-633 scalar field).

import (
	"fmt"
	"math/big"
	"math/rand/v2"

	"github.com/consensys/gnark/verifharness/internal/vcore"
)

// cubeRootOfUnity returns a primitive cube root of one modulo the prime r.
func cubeRootOfUnity(r *big.Int) *big.Int {
	e := new(big.Int).Sub(r, bi(1))
	e.Div(e, bi(3))
	for t := int64(2); ; t++ {
		l := new(big.Int).Exp(bi(t), e, r)
		if l.Cmp(bi(1)) != 0 {
			return l
		}
	}
}

type nswDesc struct {
	tag    string
	d      *emuCurveDesc
	native *big.Int
}

func nswDescs() []*nswDesc {
	a := &nswDesc{tag: "bls12377", d: nswDescbls12377(), native: nswNativebls12377}
	b := &nswDesc{tag: "bls24315", d: nswDescbls24315(), native: nswNativebls24315}
	for _, x := range []*nswDesc{a, b} {
		x.d.fam = "nsw"
		x.d.lambda = cubeRootOfUnity(x.d.c.R)
	}
	return []*nswDesc{a, b}
}

// genG1 reuses the emulated generator (same exceptional classes) and adapts the
// domains to the native API.
func (n *nswDesc) genG1(rng *rand.Rand) []*emuCase {
	d := n.d
	c := d.c
	var out []*emuCase
	for _, cs := range d.genEmuCases(rng, n.native) {
		switch cs.Op {
		case "AssertIsOnCurve", "JointScalarMulBase":
			continue
		case "ScalarMul", "ScalarMulBase":
			// native-variable scalar: no documented meaning beyond the scalar field
			for _, k := range cs.Ks {
				if k.Cmp(c.R) >= 0 {
					cs.InDomain = false
				}
			}
		}
		out = append(out, cs)
		if cs.Op == "ScalarMul" && cs.Pts[0].Inf == false && len(out)%3 == 0 {
			// the same case through the Curve wrapper (emulated scalar type)
			w := *cs
			w.Op = "Curve.ScalarMul"
			w.InDomain = cs.Complete || !d.zeroModR(cs.Ks[0])
			out = append(out, &w)
		}
	}
	G := c.G()
	R1 := c.mul(G, randNonzero(rng, c.R))
	R2 := c.mul(G, randNonzero(rng, c.R))
	mk := func(op, class string, pts []wpt, want wpt, in bool) {
		out = append(out, &emuCase{Pkg: d.pkg, Curve: c.Name, Op: op, Pts: pts, Class: class, InDomain: in, Want: want, Native: n.native})
	}
	for _, p := range []namedPt{{"G", G}, {"R1", R1}, {"-R1", c.neg(R1)}} {
		mk("Double", "2*"+p.name, []wpt{p.p}, c.add(p.p, p.p), true)
	}
	mk("Double", "2*inf", []wpt{winf()}, winf(), false)
	// DoubleAndAdd(p1,p2) = 2*p1 + p2, incomplete: p1 != ±p2, 2p1+p2 != inf ...
	dd := func(class string, p, q wpt, in bool) {
		mk("DoubleAndAdd", class, []wpt{p, q}, c.add(c.add(p, p), q), in)
	}
	dd("2*R1+R2", R1, R2, true)
	dd("2*G+R1", G, R1, true)
	dd("2*R1+R1", R1, R1, false)
	dd("2*R1-R1", R1, c.neg(R1), false)
	dd("2*R1-2*R1(sum=inf)", R1, c.neg(c.add(R1, R1)), false)
	dd("2*R1+inf", R1, winf(), false)
	return out
}

type g2Case struct {
	Curve    string
	Op       string
	Complete bool
	Class    string
	A, B, S  *big.Int // P=[A]G2 (0 = identity), Q=[B]G2, scalar
	InDomain bool
}

func (c *g2Case) key() string {
	return fmt.Sprintf("g2|%s|%s|%v|%s|%v|%v|%v", c.Curve, c.Op, c.Complete, c.Class, c.A, c.B, c.S)
}

func (c *g2Case) replay() map[string]any {
	return map[string]any{"gadget": "sw_" + c.Curve + ".G2." + c.Op, "complete_arithmetic": c.Complete, "class": c.Class, "P=[a]G2": c.A.String(), "Q=[b]G2": c.B.String(),
		"scalar": c.S.String(), "in_documented_domain": c.InDomain, "oracle": "gnark-crypto G2 arithmetic", "engine": "test.IsSolved"}
}

func (n *nswDesc) genG2(rng *rand.Rand, quick bool) []*g2Case {
	r := n.d.c.R
	var out []*g2Case
	z := new(big.Int)
	a, b := randNonzero(rng, r), randNonzero(rng, r)
	neg := func(x *big.Int) *big.Int { return new(big.Int).Sub(r, x) }
	mk := func(op string, complete bool, class string, A, B, S *big.Int, in bool) {
		out = append(out, &g2Case{Curve: n.tag, Op: op, Complete: complete, Class: class, A: A, B: B, S: S, InDomain: in})
	}
	type np struct {
		n string
		v *big.Int
	}
	pts := []np{{"P", a}, {"-P", neg(a)}, {"Q", b}, {"inf", z}, {"G", bi(1)}}
	for _, p := range pts {
		for _, q := range pts {
			mk("AddUnified", false, p.n+"+"+q.n, p.v, q.v, z, true)
			ok := p.v.Sign() != 0 && q.v.Sign() != 0 && p.v.Cmp(q.v) != 0 && new(big.Int).Add(p.v, q.v).Cmp(r) != 0
			mk("Add", false, p.n+"+"+q.n, p.v, q.v, z, ok)
		}
	}
	mk("Double", false, "2*P", a, z, z, true)
	mk("Neg", false, "-P", a, z, z, true)
	mk("Neg", false, "-inf", z, z, z, true)
	mk("DoubleAndAdd", false, "2*P+Q", a, b, z, true)
	mk("DoubleAndAdd", false, "2*P+P", a, a, z, false)
	ks := n.d.edgeScalars(rng)
	for _, complete := range []bool{false, true} {
		for i, k := range ks {
			if quick && i%3 != 0 && k.name != "0" && k.name != "1" && k.name != "r-1" && k.name != "r" {
				continue
			}
			zero := n.d.zeroModR(k.v)
			in := (complete || !zero) && k.v.Cmp(r) < 0
			mk("ScalarMul", complete, "s="+k.name+",P=random", a, z, k.v, in)
			if k.name == "0" || k.name == "1" || k.name == "random" || k.name == "r-1" {
				mk("ScalarMul", complete, "s="+k.name+",P=inf", z, z, k.v, complete && k.v.Cmp(r) < 0)
			}
		}
	}
	for _, k := range ks {
		if k.v.BitLen() <= 253 {
			mk("ScalarMulBase", false, "s="+k.name, z, z, k.v, !n.d.zeroModR(k.v) && k.v.Cmp(r) < 0)
		}
	}
	return out
}

// g2Sentinel marks the G2 classes every run executes.
func g2Sentinel(c *g2Case) bool {
	switch c.Op {
	case "ScalarMulBase":
		return c.Class == "s=0" || c.Class == "s=1" || c.Class == "s=2" || c.Class == "s=r-1" || c.Class == "s=3"
	case "ScalarMul":
		return c.Class == "s=0,P=random" || c.Class == "s=1,P=random" || c.Class == "s=r-1,P=random" || c.Class == "s=0,P=inf" || c.Class == "s=1,P=inf"
	case "AddUnified":
		return c.Class == "P+P" || c.Class == "P+-P" || c.Class == "inf+inf" || c.Class == "P+inf" || c.Class == "inf+P" || c.Class == "P+Q"
	}
	return false
}

func judgeG2(r *vcore.Run, c *g2Case, o outcome) {
	fam := "sw_" + c.Curve + ".G2." + c.Op
	mode := "incomplete"
	if c.Complete {
		mode = "complete"
	}
	r.Eval(c.key(), true)
	r.Count("nsw.g2.cases."+c.Curve, 1)
	r.Count("nsw.g2.op."+c.Op+"."+mode, 1)
	if poolTrouble(r, "nsw.g2", o, c.replay(), fam) {
		return
	}
	switch {
	case o.Sat:
		// the circuit asserts equality with the gnark-crypto result
		if c.InDomain {
			r.Count("nsw.g2.in-domain.correct", 1)
		} else {
			r.Count("nsw.g2.outside-domain.correct", 1)
		}
		r.SampleClass("nsw.g2/"+c.Op+"/"+mode, map[string]any{"curve": c.Curve, "class": c.Class, "outcome": "equals gnark-crypto"})
	case !c.InDomain:
		r.Count("nsw.g2.outside-domain.unsatisfiable-or-different", 1)
	default:
		rep := c.replay()
		rep["error"] = o.Err
		r.Count("nsw.g2.MISMATCH-IN-DOMAIN", 1)
		cls := c.Class
		if c.Op == "ScalarMul" || c.Op == "ScalarMulBase" {
			cls = g2ScalarClass(c)
		}
		r.Violation(fam+"/"+mode+"/differs-from-native-or-unsatisfiable/"+cls, fmt.Sprintf("%s (%s): result differs from gnark-crypto or the gadget is unsatisfiable on a documented input: %s: %s", fam, mode, c.Class, o.Err), rep)
	}
}

func g2ScalarClass(c *g2Case) string {
	for _, n := range nswDescs() {
		if n.tag == c.Curve {
			p := "P-generic"
			if c.Op == "ScalarMul" && c.A.Sign() == 0 {
				p = "P=inf"
			}
			return n.d.scalarClass(c.S) + "/" + p
		}
	}
	return c.Class
}
