#!/bin/bash
# Instantiates pair.go.tmpl for the five pairing gadget packages.
cd "$(dirname "$0")" || exit 1
gen() { # tag curvepkg swpkg gttype fpbytes nativefield newpairing
  sed -e "s#CURVEPKG#$2#g" -e "s#SWPKG#$3#g" -e "s#GTTYPE#$4#g" -e "s#TAG#$1#g" -e "s#NEWPAIRING#$7#" pair.go.tmpl > "pair_$1_test.go"
  cat >> "pair_$1_test.go" <<EOT

const gcFpBytes$1 = $5

var pairNative$1 = ecc.$6.ScalarField()
EOT
  sed -i 's#^import (#import (\n\t"github.com/consensys/gnark-crypto/ecc"#' "pair_$1_test.go"
  gofmt -w "pair_$1_test.go"
}
gen bn254    bn254     emulated/sw_bn254    GTEl 32 BN254   'return sw.NewPairing(api)'
gen bls12381 bls12-381 emulated/sw_bls12381 GTEl 48 BN254   'return sw.NewPairing(api)'
gen bw6761   bw6-761   emulated/sw_bw6761   GTEl 96 BN254   'return sw.NewPairing(api)'
gen bls12377 bls12-377 native/sw_bls12377   GT   48 BW6_761 'return sw.NewPairing(api), nil'
gen bls24315 bls24-315 native/sw_bls24315   GT   40 BW6_633 'return sw.NewPairing(api), nil'

gennsw() { # tag curvepkg swpkg ECCID nativeECCID
  sed -e "s#TAGPKG#sw_$1#g" -e "s#CURVEPKG#$2#g" -e "s#SWPKG#$3#g" -e "s#TAG#$1#g" nsw.go.tmpl > "nsw_$1_test.go"
  cat >> "nsw_$1_test.go" <<EOT

var nswNative$1 = ecc.$5.ScalarField()
var nswBase$1 = ecc.$4.BaseField()
var nswOrder$1 = ecc.$4.ScalarField()
EOT
  sed -i 's#^import (#import (\n\t"github.com/consensys/gnark-crypto/ecc"#' "nsw_$1_test.go"
  gofmt -w "nsw_$1_test.go"
}
gennsw bls12377 bls12-377 native/sw_bls12377 BLS12_377 BW6_761
gennsw bls24315 bls24-315 native/sw_bls24315 BLS24_315 BW6_633
