//go:build verif

package c16

// Case generation and verdicts for the emulated short-Weierstrass family.

import (
	"crypto/elliptic"
	"encoding/json"
	"fmt"
	"math/big"
	"math/rand/v2"
	"sort"
	"strings"
	"sync"

	"github.com/consensys/gnark-crypto/ecc"
	"github.com/consensys/gnark/frontend"
	"github.com/consensys/gnark/std/algebra/emulated/sw_emulated"
	"github.com/consensys/gnark/std/math/emulated"
	"github.com/consensys/gnark/test"

	"github.com/consensys/gnark/verifharness/internal/vcore"
)

type emuCurveDesc struct {
	c       *wcurve
	glv     bool
	lambda  *big.Int // eigenvalue on GLV curves
	capBit  int      // bits representable by a scalar witness element: the bit length of the scalar modulus (emulated.Field constrains the top limb of a witness element to that width; wider values are not elements of the type)
	nbLimbs int      // limbs of a scalar element
	build   func(c *emuCase, withSink bool) (frontend.Circuit, frontend.Circuit, *sink, bool)
	weight  int    // relative cost (for sampling in quick)
	pkg     string // gnark package of the gadget (violation signatures)
	fam     string // counter prefix
}

func mkEmuDesc[B, S emulated.FieldParams](name string) *emuCurveDesc {
	var fp B
	var fr S
	// the curve constants are read from gnark's parameter table only for a, b
	// and the base point (these are inputs of the statement, not results); the
	// self-check compares the oracle's arithmetic on them with gnark-crypto.
	pr := sw_emulated.GetCurveParams[B]()
	a := new(big.Int).Mod(pr.A, fp.Modulus())
	b := new(big.Int).Mod(pr.B, fp.Modulus())
	d := &emuCurveDesc{
		c:       &wcurve{Name: name, P: fp.Modulus(), R: fr.Modulus(), A: a, B: b, Gx: pr.Gx, Gy: pr.Gy},
		glv:     pr.Eigenvalue != nil && pr.ThirdRootOne != nil,
		lambda:  pr.Eigenvalue,
		capBit:  fr.Modulus().BitLen(),
		nbLimbs: int(fr.NbLimbs()),
		build:   buildEmu[B, S],
		pkg:     "sw_emulated",
		fam:     "emu",
	}
	return d
}

func emuCurves() []*emuCurveDesc {
	ds := []*emuCurveDesc{
		mkEmuDesc[emulated.Secp256k1Fp, emulated.Secp256k1Fr]("secp256k1"),
		mkEmuDesc[emulated.P256Fp, emulated.P256Fr]("P-256"),
		mkEmuDesc[emulated.BN254Fp, emulated.BN254Fr]("BN254"),
		mkEmuDesc[emulated.P384Fp, emulated.P384Fr]("P-384"),
		mkEmuDesc[emulated.BLS12381Fp, emulated.BLS12381Fr]("BLS12-381"),
		mkEmuDesc[emulated.BW6761Fp, emulated.BW6761Fr]("BW6-761"),
		mkEmuDesc[emulated.STARKCurveFp, emulated.STARKCurveFr]("STARK"),
	}
	// sanity of the two NIST parameter sets against the standard library
	for _, d := range ds {
		var sp *elliptic.CurveParams
		switch d.c.Name {
		case "P-256":
			sp = elliptic.P256().Params()
		case "P-384":
			sp = elliptic.P384().Params()
		}
		if sp != nil && (sp.P.Cmp(d.c.P) != 0 || sp.N.Cmp(d.c.R) != 0 || sp.B.Cmp(d.c.B) != 0 || sp.Gx.Cmp(d.c.Gx) != 0) {
			panic("curve table mismatch " + d.c.Name)
		}
	}
	return ds
}

type namedInt struct {
	name string
	v    *big.Int
}

func bi(x int64) *big.Int { return big.NewInt(x) }

func randBelow(rng *rand.Rand, n *big.Int) *big.Int {
	b := make([]byte, (n.BitLen()+7)/8+8)
	for i := range b {
		b[i] = byte(rng.UintN(256))
	}
	return new(big.Int).Mod(new(big.Int).SetBytes(b), n)
}

func randNonzero(rng *rand.Rand, n *big.Int) *big.Int {
	for {
		v := randBelow(rng, n)
		if v.Sign() != 0 {
			return v
		}
	}
}

// edgeScalars returns the directed scalar list of a curve.
func (d *emuCurveDesc) edgeScalars(rng *rand.Rand) []namedInt {
	r := d.c.R
	add := func(x *big.Int, y int64) *big.Int { return new(big.Int).Add(x, bi(y)) }
	var out []namedInt
	push := func(n string, v *big.Int) {
		if v.Sign() >= 0 && v.BitLen() <= d.capBit {
			out = append(out, namedInt{n, v})
		}
	}
	push("0", bi(0))
	push("1", bi(1))
	push("2", bi(2))
	push("3", bi(3))
	push("4", bi(4))
	push("8", bi(8))
	push("r-1", add(r, -1))
	push("r-2", add(r, -2))
	push("r-3", add(r, -3))
	push("r", r)
	push("r+1", add(r, 1))
	push("r+2", add(r, 2))
	push("2r", new(big.Int).Lsh(r, 1))
	push("2r-1", add(new(big.Int).Lsh(r, 1), -1))
	push("cap", add(new(big.Int).Lsh(bi(1), uint(d.capBit)), -1))
	push("(r-1)/2", new(big.Int).Rsh(add(r, -1), 1))
	push("(r+1)/2", new(big.Int).Rsh(add(r, 1), 1))
	for _, k := range []int{64, r.BitLen() / 2, r.BitLen()/2 + 1, r.BitLen() - 2, r.BitLen() - 1} {
		push(fmt.Sprintf("2^%s", bitName(k, r)), new(big.Int).Lsh(bi(1), uint(k)))
		push(fmt.Sprintf("2^%s-1", bitName(k, r)), add(new(big.Int).Lsh(bi(1), uint(k)), -1))
	}
	// isqrt(r) neighbourhood: the half-GCD / lattice reductions change shape here
	sq := new(big.Int).Sqrt(r)
	push("isqrt(r)", sq)
	push("isqrt(r)+1", add(sq, 1))
	if d.glv {
		l := d.lambda
		l2 := new(big.Int).Mod(new(big.Int).Mul(l, l), r)
		units := []namedInt{{"1", bi(1)}, {"lambda", l}, {"lambda^2", l2}}
		// a*u + b*v for units u,v and a,b in {-1,0,1}: every scalar whose
		// Eisenstein/GLV decomposition has tiny or vanishing sub-scalars
		seen := map[string]bool{}
		for i, u := range units {
			for j, v := range units {
				if j < i {
					continue
				}
				for _, a := range []int64{-1, 1} {
					for _, b := range []int64{-1, 0, 1} {
						if i == j && b != 0 {
							continue
						}
						s := new(big.Int).Mul(u.v, bi(a))
						s.Add(s, new(big.Int).Mul(v.v, bi(b)))
						s.Mod(s, r)
						if seen[s.String()] || s.Sign() == 0 {
							continue
						}
						seen[s.String()] = true
						nm := fmt.Sprintf("%+d*%s", a, u.name)
						if b != 0 {
							nm += fmt.Sprintf("%+d*%s", b, v.name)
						}
						push("glv:"+nm, s)
					}
				}
			}
		}
		push("glv:2*lambda", new(big.Int).Mod(new(big.Int).Lsh(l, 1), r))
		push("glv:lambda+r", new(big.Int).Add(l, r))
	}
	push("small64", new(big.Int).SetUint64(rng.Uint64()|1))
	for i := 0; i < 3; i++ {
		push("random", randNonzero(rng, r))
	}
	push("random+r", d.oversized(rng))
	// values that fit the limbs but not the width of the modulus: not elements of
	// the scalar type (no compiled circuit accepts them as a witness); the cases
	// built from them are executed in the test engine and counted, no verdict
	wide := d.nbLimbs * 64
	if wide > d.capBit {
		out = append(out, namedInt{"wide:2r", new(big.Int).Lsh(r, 1)})
		out = append(out, namedInt{"wide:all-ones", add(new(big.Int).Lsh(bi(1), uint(wide)), -1)})
	}
	return out
}

// oversized returns an unreduced scalar: a value in [r, 2^bits(r)), the range of
// non-canonical values a witness element can hold.
func (d *emuCurveDesc) oversized(rng *rand.Rand) *big.Int {
	room := new(big.Int).Sub(new(big.Int).Lsh(bi(1), uint(d.capBit)), d.c.R)
	if room.Cmp(bi(2)) < 0 {
		return new(big.Int).Set(d.c.R)
	}
	return new(big.Int).Add(randNonzero(rng, room), d.c.R)
}

func bitName(k int, r *big.Int) string {
	n := r.BitLen()
	switch k {
	case n - 1:
		return "(bits-1)"
	case n - 2:
		return "(bits-2)"
	case n / 2:
		return "(bits/2)"
	case n/2 + 1:
		return "(bits/2+1)"
	}
	return fmt.Sprint(k)
}

type namedPt struct {
	name string
	p    wpt
}

func (d *emuCurveDesc) zeroModR(k *big.Int) bool {
	return new(big.Int).Mod(k, d.c.R).Sign() == 0
}

// genEmuCases builds the directed ∪ random case list of one curve.
func (d *emuCurveDesc) genEmuCases(rng *rand.Rand, native *big.Int) []*emuCase {
	c := d.c
	G := c.G()
	R1 := c.mul(G, randNonzero(rng, c.R))
	R2 := c.mul(G, randNonzero(rng, c.R))
	R3 := c.mul(G, randNonzero(rng, c.R))
	R4 := c.mul(G, randNonzero(rng, c.R))
	inf := winf()
	mulG := func(k int64) wpt { return c.mul(G, bi(k)) }
	ks := d.edgeScalars(rng)
	var out []*emuCase
	mk := func(op string, complete bool, class string, pts []wpt, sc []*big.Int, want wpt, inDomain bool) {
		out = append(out, &emuCase{Pkg: d.pkg, Curve: c.Name, Op: op, Complete: complete, Pts: pts, Ks: sc, Class: class, InDomain: inDomain, Want: want, Native: native})
	}

	// --- AddUnified: complete by documentation
	pts := []namedPt{{"G", G}, {"-G", c.neg(G)}, {"2G", mulG(2)}, {"inf", inf}, {"R1", R1}, {"-R1", c.neg(R1)}, {"R2", R2}}
	for _, p := range pts {
		for _, q := range pts {
			mk("AddUnified", false, p.name+"+"+q.name, []wpt{p.p, q.p}, nil, c.add(p.p, q.p), true)
		}
	}
	// --- Add: documented for P != ±Q, both nonzero
	for _, p := range pts {
		for _, q := range pts {
			ok := !p.p.Inf && !q.p.Inf && !c.eq(p.p, q.p) && !c.eq(p.p, c.neg(q.p))
			mk("Add", false, p.name+"+"+q.name, []wpt{p.p, q.p}, nil, c.add(p.p, q.p), ok)
		}
	}
	for _, p := range pts {
		mk("Neg", false, "-"+p.name, []wpt{p.p}, nil, c.neg(p.p), true)
	}
	// --- AssertIsOnCurve
	for _, p := range pts {
		o := &emuCase{Pkg: d.pkg, Curve: c.Name, Op: "AssertIsOnCurve", Pts: []wpt{p.p}, Class: p.name, InDomain: true, WantSat: true, Want: p.p, Native: native}
		out = append(out, o)
	}
	offs := []namedPt{
		{"(Gx,Gy+1)", wpt{X: G.X, Y: new(big.Int).Add(G.Y, bi(1))}},
		{"(Gx+1,Gy)", wpt{X: new(big.Int).Add(G.X, bi(1)), Y: G.Y}},
		{"(0,Gy)", wpt{X: new(big.Int), Y: G.Y}},
		{"(Gx,0)", wpt{X: G.X, Y: new(big.Int)}},
		{"(R1x,R2y)", wpt{X: R1.X, Y: R2.Y}},
	}
	for _, p := range offs {
		if c.onCurve(p.p) {
			continue
		}
		out = append(out, &emuCase{Pkg: d.pkg, Curve: c.Name, Op: "AssertIsOnCurve", Pts: []wpt{p.p}, Class: "off-curve:" + p.name, InDomain: true, WantSat: false, Want: p.p, Native: native})
	}

	// --- ScalarMul / ScalarMulBase
	for _, complete := range []bool{false, true} {
		for _, k := range ks {
			z := d.zeroModR(k.v)
			for _, p := range []namedPt{{"R1", R1}, {"G", G}} {
				mk("ScalarMul", complete, "s="+k.name+",P="+p.name, []wpt{p.p}, []*big.Int{k.v}, c.mul(p.p, k.v), complete || !z)
			}
			mk("ScalarMulBase", complete, "s="+k.name, nil, []*big.Int{k.v}, c.mul(G, k.v), complete || !z)
		}
		// point at infinity
		for _, k := range ks {
			switch k.name {
			case "0", "1", "2", "r-1", "r", "cap", "random", "glv:+1*lambda":
				mk("ScalarMul", complete, "s="+k.name+",P=inf", []wpt{inf}, []*big.Int{k.v}, inf, complete)
			}
		}
		// points equal to the dummy points used inside the complete-arithmetic
		// code paths ([8]G, [16]G) and results landing on them
		for _, t := range []struct {
			pn string
			p  wpt
			k  int64
		}{{"8G", mulG(8), 1}, {"8G", mulG(8), 2}, {"16G", mulG(16), 1}, {"G", G, 8}, {"2G", mulG(2), 4}, {"G", G, 16}, {"4G", mulG(4), 4},
			{"-8G", c.neg(mulG(8)), 1}, {"8G", mulG(8), 0}, {"16G", mulG(16), 0}, {"3G", mulG(3), 5}, {"5G", mulG(5), 3}, {"7G", mulG(7), 1}} {
			mk("ScalarMul", complete, fmt.Sprintf("s=%d,P=%s(table-point)", t.k, t.pn), []wpt{t.p}, []*big.Int{bi(t.k)}, c.mul(t.p, bi(t.k)), complete || t.k != 0)
		}
		mk("ScalarMul", complete, "s=r-1,P=8G(table-point)", []wpt{mulG(8)}, []*big.Int{new(big.Int).Sub(c.R, bi(1))}, c.neg(mulG(8)), true)
	}

	// --- JointScalarMulBase: [k1]G + [k0]P
	rk := func() *big.Int { return randNonzero(rng, c.R) }
	rm1 := new(big.Int).Sub(c.R, bi(1))
	type jc struct {
		class  string
		p      wpt
		k0, k1 *big.Int
		unsafe bool // violates a documented precondition of the incomplete variant
	}
	jcs := []jc{
		{"P=R1,s=random,random", R1, rk(), rk(), false},
		{"P=R2,s=random,random", R2, rk(), rk(), false},
		{"P=R1,s=1,1", R1, bi(1), bi(1), false},
		{"P=R1,s=r-1,r-1", R1, rm1, rm1, false},
		{"P=R1,s=1,r-1", R1, bi(1), rm1, false},
		{"P=R1,s=2,3", R1, bi(2), bi(3), false},
		{"P=R1,s=r+1,random(oversized)", R1, new(big.Int).Add(c.R, bi(1)), rk(), false},
		{"P=R1,s=0,random", R1, bi(0), rk(), true},
		{"P=R1,s=random,0", R1, rk(), bi(0), true},
		{"P=R1,s=0,0", R1, bi(0), bi(0), true},
		{"P=R1,s=r,random", R1, c.R, rk(), true},
		{"P=G,s=random,random", G, rk(), rk(), true},
		{"P=-G,s=random,random", c.neg(G), rk(), rk(), true},
		{"P=G,s=1,r-1(sum=inf)", G, bi(1), rm1, true},
		{"P=inf,s=random,random", inf, rk(), rk(), true},
		{"P=inf,s=0,0", inf, bi(0), bi(0), true},
		{"P=2G,s=r-1,2(sum=inf)", mulG(2), rm1, bi(2), true},
		{"P=2G,s=1,1", mulG(2), bi(1), bi(1), false},
		{"P=2G,s=1,2(P1=P2)", mulG(2), bi(1), bi(2), false},
	}
	// the two partial results coincide: P = [t]G and s2*t = ±s1
	{
		t := rk()
		Pt := c.mul(G, t)
		k1 := rk()
		k0 := new(big.Int).Mul(k1, new(big.Int).ModInverse(t, c.R))
		k0.Mod(k0, c.R)
		jcs = append(jcs,
			jc{"coincide:[s2]P=[s1]G(sum=[2*s1]G)", Pt, k0, k1, false},
			jc{"coincide:[s2]P=-[s1]G(sum=inf)", Pt, new(big.Int).Sub(c.R, k0), k1, false},
		)
	}
	if d.glv {
		l := d.lambda
		jcs = append(jcs,
			jc{"P=R1,s=lambda,lambda", R1, l, l, false},
			jc{"P=R1,s=lambda,1", R1, l, bi(1), false},
			jc{"P=R1,s=r-lambda,lambda^2", R1, new(big.Int).Sub(c.R, l), new(big.Int).Mod(new(big.Int).Mul(l, l), c.R), false},
		)
	}
	for _, complete := range []bool{false, true} {
		for _, j := range jcs {
			want := c.add(c.mul(G, j.k1), c.mul(j.p, j.k0))
			// without an endomorphism the method is two scalar multiplications
			// joined by AddUnified: a sum at infinity is inside its domain
			in := complete || (!j.unsafe && (!want.Inf || !d.glv))
			mk("JointScalarMulBase", complete, j.class, []wpt{j.p}, []*big.Int{j.k0, j.k1}, want, in)
		}
	}

	// --- MultiScalarMul
	type mc struct {
		class  string
		ps     []wpt
		ks     []*big.Int
		unsafe bool
	}
	// coinciding partial results: P1 = [t]P0 with s1*t = s0
	coT := rk()
	coT1 := c.mul(R1, coT)
	coS0 := rk()
	coS1 := new(big.Int).Mul(coS0, new(big.Int).ModInverse(coT, c.R))
	coS1.Mod(coS1, c.R)
	// [coU2]P2 equals the joint result [coS0]R1 + [coU1]R2 of the first pair
	coU1, coU2 := rk(), rk()
	coT3 := c.mul(c.add(c.mul(R1, coS0), c.mul(R2, coU1)), new(big.Int).ModInverse(coU2, c.R))
	mcs := []mc{
		{"n=1,random", []wpt{R1}, []*big.Int{rk()}, false},
		{"n=2,random", []wpt{R1, R2}, []*big.Int{rk(), rk()}, false},
		{"n=3,random", []wpt{R1, R2, R3}, []*big.Int{rk(), rk(), rk()}, false},
		{"n=4,random", []wpt{R1, R2, R3, R4}, []*big.Int{rk(), rk(), rk(), rk()}, false},
		{"n=3,scalar0", []wpt{R1, R2, R3}, []*big.Int{rk(), bi(0), rk()}, true},
		{"n=3,all-scalars-0", []wpt{R1, R2, R3}, []*big.Int{bi(0), bi(0), bi(0)}, true},
		{"n=3,point-inf", []wpt{R1, inf, R3}, []*big.Int{rk(), rk(), rk()}, true},
		{"n=2,P,P", []wpt{R1, R1}, []*big.Int{rk(), rk()}, true},
		{"n=2,P,-P", []wpt{R1, c.neg(R1)}, []*big.Int{rk(), rk()}, true},
		{"n=2,P,-P,same-scalar(sum=inf)", []wpt{R1, c.neg(R1)}, []*big.Int{bi(5), bi(5)}, true},
		{"n=3,partial-sums-cancel", []wpt{R1, R2, R1}, []*big.Int{bi(3), bi(1), rm1}, true},
		{"n=4,pairs-equal", []wpt{R1, R2, R1, R2}, []*big.Int{bi(7), bi(9), bi(7), bi(9)}, true},
		{"coincide:n=2,[s1]P1=[s0]P0", []wpt{R1, coT1}, []*big.Int{coS0, coS1}, false},
		{"coincide:n=2,[s1]P1=-[s0]P0(sum=inf)", []wpt{R1, coT1}, []*big.Int{coS0, new(big.Int).Sub(c.R, coS1)}, false},
		{"coincide:n=3,[s1]P1=[s0]P0", []wpt{R1, coT1, R3}, []*big.Int{coS0, coS1, rk()}, false},
		{"coincide:n=3,[s2]P2=[s0]P0+[s1]P1", []wpt{R1, R2, coT3}, []*big.Int{coS0, coU1, coU2}, true},
		{"n=2,oversized", []wpt{R1, R2}, []*big.Int{new(big.Int).Add(c.R, bi(3)), d.oversized(rng)}, false},
	}
	for _, complete := range []bool{false, true} {
		for _, m := range mcs {
			ok := true
			for _, k := range m.ks {
				if k.BitLen() > d.capBit {
					ok = false
				}
			}
			if !ok {
				continue
			}
			want := winf()
			for i := range m.ps {
				want = c.add(want, c.mul(m.ps[i], m.ks[i]))
			}
			// n=2 without an endomorphism: two scalar multiplications joined by AddUnified
			unified := !d.glv && len(m.ps) == 2
			mk("MultiScalarMul", complete, m.class, m.ps, m.ks, want, complete || (!m.unsafe && (!want.Inf || unified)))
		}
		// folding variant: sum gamma^i P_i
		for _, f := range []struct {
			class  string
			ps     []wpt
			g      *big.Int
			unsafe bool
		}{
			{"fold,n=2,random", []wpt{R1, R2}, rk(), false},
			{"fold,n=3,random", []wpt{R1, R2, R3}, rk(), false},
			{"fold,n=4,random", []wpt{R1, R2, R3, R4}, rk(), false},
			{"fold,n=3,gamma=1", []wpt{R1, R2, R3}, bi(1), false},
			{"fold,n=3,gamma=0", []wpt{R1, R2, R3}, bi(0), true},
			{"fold,n=3,gamma=r-1", []wpt{R1, R2, R3}, rm1, false},
			{"fold,n=3,equal-points,gamma=1", []wpt{R1, R1, R1}, bi(1), true},
			{"fold,n=3,point-inf", []wpt{R1, inf, R3}, rk(), true},
			{"fold,n=2,P,-P,gamma=1(sum=inf)", []wpt{R1, c.neg(R1)}, bi(1), true},
		} {
			want := winf()
			for i := len(f.ps) - 1; i >= 0; i-- {
				want = c.add(c.mul(want, f.g), f.ps[i])
			}
			mk("MultiScalarMulFold", complete, f.class, f.ps, []*big.Int{f.g}, want, complete || (!f.unsafe && !want.Inf))
		}
	}
	for _, cs := range out {
		for _, k := range cs.Ks {
			if k.BitLen() > d.capBit {
				cs.Wide, cs.InDomain = true, false
			}
		}
	}
	if c.Name == "BN254" && d.pkg == "sw_emulated" {
		// the EVM precompiles BN_ADD / BN_MUL are AddUnified / ScalarMul with
		// complete arithmetic on BN254: every input is in their domain
		n := len(out)
		for _, cs := range out[:n] {
			switch {
			case cs.Op == "AddUnified":
				w := *cs
				w.Op, w.Pkg = "ECAdd", "evmprecompiles"
				out = append(out, &w)
			case cs.Op == "ScalarMul" && cs.Complete:
				w := *cs
				w.Op, w.Pkg = "ECMul", "evmprecompiles"
				out = append(out, &w)
			}
		}
	}
	return out
}

// execEmu is the worker-side executor of the emulated family.
func execEmu(raw json.RawMessage) outcome {
	var c emuCase
	if err := json.Unmarshal(raw, &c); err != nil {
		return outcome{Err: "decode: " + err.Error()}
	}
	var d *emuCurveDesc
	for _, x := range emuCurves() {
		if x.c.Name == c.Curve {
			d = x
		}
	}
	if d == nil {
		return outcome{Err: "unknown curve"}
	}
	circ, asg, sk, ok := d.build(&c, true)
	if !ok {
		return outcome{Err: "scalar-not-representable"}
	}
	err := test.IsSolved(circ, asg, c.Native)
	o := outcome{Sat: err == nil}
	if err != nil {
		o.Err = firstLine(err.Error())
		return o
	}
	if len(sk.got) != 1 {
		o.Sat = false
		o.Err = fmt.Sprintf("harness: capture point reached %d times", len(sk.got))
		return o
	}
	o.Got = []string{sk.got[0][0].String(), sk.got[0][1].String()}
	wx, wy := c.Want.xy()
	o.Correct = sk.got[0][0].Cmp(wx) == 0 && sk.got[0][1].Cmp(wy) == 0
	return o
}

func firstLine(s string) string {
	for i := 0; i < len(s); i++ {
		if s[i] == '\n' {
			s = s[:i]
			break
		}
	}
	if len(s) > 200 {
		s = s[:200]
	}
	return s
}

func glvKind(d *emuCurveDesc) string {
	if d.glv {
		return "glv"
	}
	return "fakeglv"
}

// poolTrouble handles the outcomes that are about the run, not about gnark.
// It returns true when the case is settled.
func poolTrouble(r *vcore.Run, fam string, o outcome, rep map[string]any, sigBase string) bool {
	switch {
	case o.Crash != "":
		rep["crash"] = o.Crash
		r.Count(fam+".worker-crash", 1)
		r.Violation(sigBase+"/worker-process-died", "the worker process died while executing the case: "+firstLine(o.Crash), rep)
		return true
	case o.Hang:
		rep["hang"] = o.Err
		r.Count(fam+".HANG", 1)
		r.Violation(sigBase+"/does-not-terminate", "the case did not finish within the watchdog ("+o.Err+")", rep)
		return true
	case o.Panic != "":
		// a panic escaping test.IsSolved (it recovers panics of Define itself)
		rep["panic"] = o.Panic
		r.Count(fam+".panic", 1)
		r.Violation(sigBase+"/panic", "panic outside the engine's recover: "+firstLine(o.Panic), rep)
		return true
	case strings.HasPrefix(o.Err, "harness:") || strings.HasPrefix(o.Err, "worker:") || strings.HasPrefix(o.Err, "decode:"):
		r.Inconclusive(fam + ":" + firstLine(o.Err))
		return true
	}
	return false
}

// scalarClass names the residue class of a scalar (coarse, stable: used in
// violation signatures so that one root cause gives one signature).
func (d *emuCurveDesc) scalarClass(k *big.Int) string {
	r := d.c.R
	km := new(big.Int).Mod(k, r)
	// the representation (reduced or not) is reported in the replay, not in the class
	pre := ""
	neg := new(big.Int).Sub(r, km)
	switch {
	case km.Sign() == 0:
		return "s≡0"
	case km.Cmp(bi(1)) == 0, neg.Cmp(bi(1)) == 0, km.Cmp(bi(3)) == 0, neg.Cmp(bi(3)) == 0:
		// [s]P in {±P, ±3P}: collides with the precomputed table entries
		return "s≡±1or±3"
	case km.Cmp(bi(16)) <= 0, neg.Cmp(bi(16)) <= 0:
		return "s≡±small"
	}
	if d.glv {
		l := d.lambda
		l2 := new(big.Int).Mod(new(big.Int).Mul(l, l), r)
		us := []*big.Int{bi(0), bi(1), bi(-1), l, new(big.Int).Neg(l), l2, new(big.Int).Neg(l2)}
		for _, a := range us {
			for _, b := range us {
				t := new(big.Int).Add(a, b)
				if t.Mod(t, r).Cmp(km) == 0 {
					return pre + "s≡unit-combination(±1,±λ,±λ²)"
				}
			}
		}
	}
	return pre + "s-generic"
}

func (d *emuCurveDesc) pointClass(p wpt) string {
	if p.Inf {
		return "P=inf"
	}
	c := d.c
	G := c.G()
	acc := winf()
	for k := 1; k <= 16; k++ {
		acc = c.add(acc, G)
		if c.eq(p, acc) || c.eq(p, c.neg(acc)) {
			switch k {
			case 1:
				return "P=±G"
			case 8:
				return "P=±8G"
			case 16:
				return "P=±16G"
			}
			return "P=small-multiple-of-G"
		}
	}
	return "P-generic"
}

func (d *emuCurveDesc) inputClass(c *emuCase) (scalars []string, all string) {
	set := map[string]bool{}
	for _, k := range c.Ks {
		set[d.scalarClass(k)] = true
	}
	for s := range set {
		scalars = append(scalars, s)
	}
	sort.Strings(scalars)
	pset := map[string]bool{}
	for _, p := range c.Pts {
		pset[d.pointClass(p)] = true
	}
	var ps []string
	for s := range pset {
		ps = append(ps, s)
	}
	sort.Strings(ps)
	// the point class is part of the signature only where it is the cause: the
	// dummy point [8]G of the complete-arithmetic paths, and P=±G together with
	// the unit-combination scalars; otherwise any point shows the same failure
	var keep []string
	for _, p := range ps {
		unit, special := false, len(scalars) > 0
		for _, sc := range scalars {
			if strings.HasPrefix(sc, "s≡unit") || sc == "s-generic" || sc == "s≡±small" {
				unit = true
			}
			if sc != "s≡0" && sc != "s≡±1or±3" {
				special = false
			}
		}
		switch {
		case p == "P=±8G":
			// [8]G is the dummy point that scalarMulGLVAndFakeGLV substitutes for
			// the hinted result when s ∈ {0, ±1} under complete arithmetic: only
			// there is the point the cause (one signature for the collision)
			if d.glv && c.Complete && special {
				return scalars, "dummy-point-collision(P=±8G,s∈{0,±1})"
			}
		case unit && p != "P-generic":
			keep = append(keep, p)
		}
	}
	if len(keep) == 0 {
		keep = []string{"any-P"}
	}
	if len(scalars) == 0 {
		return scalars, "points:" + strings.Join(ps, "+")
	}
	return scalars, strings.Join(scalars, "+") + "/" + strings.Join(keep, "+")
}

// emuJudge collects the verdicts of the emulated family. Failures of the
// composite methods (JointScalarMulBase, MultiScalarMul) that are explained by a
// failure of the single ScalarMul they are built from (same curve kind, same
// mode, same scalar class) are folded into that finding at the end.
type emuJudge struct {
	r        *vcore.Run
	mu       sync.Mutex
	rootFail map[string]bool // glvKind|mode|scalarClass of failed single scalar muls
	pending  []func(root map[string]bool)
}

func newEmuJudge(r *vcore.Run) *emuJudge {
	return &emuJudge{r: r, rootFail: map[string]bool{}}
}

func (j *emuJudge) finish() {
	j.mu.Lock()
	defer j.mu.Unlock()
	for _, f := range j.pending {
		f(j.rootFail)
	}
	j.pending = nil
}

// usesSingleMul reports whether the composite method is built from the plain
// ScalarMul code path for this curve kind and mode (read off point.go).
func usesSingleMul(d *emuCurveDesc, c *emuCase) bool {
	switch c.Op {
	case "JointScalarMulBase":
		return !d.glv || c.Complete
	case "MultiScalarMul":
		return !d.glv || c.Complete || len(c.Ks)%2 == 1
	case "MultiScalarMulFold":
		return true
	}
	return false
}

// judge turns an outcome into counters / violations.
func (j *emuJudge) judge(d *emuCurveDesc, c *emuCase, o outcome) {
	r := j.r
	fam := c.Pkg + "." + c.Op
	f := d.fam
	mode := "incomplete"
	if c.Complete {
		mode = "complete"
	}
	r.Eval(f+"|"+c.key(), true)
	r.Count(f+".cases."+c.Curve, 1)
	r.Count(f+".op."+c.Op+"."+mode, 1)
	if c.Native.Cmp(nativeBN254) != 0 {
		r.Count(f+".cases.over-other-native-field", 1)
	}
	if o.Err == "scalar-not-representable" {
		r.Inconclusive(f + ":scalar-not-representable")
		return
	}
	if c.Wide {
		what := "unsatisfiable"
		if o.Hang || o.Crash != "" || o.Panic != "" {
			what = "no-answer"
		} else if o.Sat && o.Correct {
			what = "equals-[s mod r]P"
		} else if o.Sat {
			what = "differs-from-[s mod r]P"
		}
		r.Count(f+".no-verdict(scalar-wider-than-the-modulus)."+what, 1)
		r.Count(f+".no-verdict(scalar-wider-than-the-modulus)."+what+"."+c.Op, 1)
		r.SampleClass(f+"/"+c.Op+"/"+mode+"/no-verdict-wide-scalar/"+what, map[string]any{"curve": c.Curve, "class": c.Class, "gadget": o.Got, "[s mod r]P": c.Want.String()})
		return
	}
	if poolTrouble(r, f, o, c.replay(), fmt.Sprintf("%s/%s/%s", fam, glvKind(d), mode)) {
		return
	}
	if c.Op == "AssertIsOnCurve" {
		switch {
		case o.Sat == c.WantSat:
			if c.WantSat {
				r.Count(f+".oncurve.accepted", 1)
			} else {
				r.Count(f+".oncurve.rejected-off-curve", 1)
			}
		default:
			sig := fmt.Sprintf("%s/%s", fam, map[bool]string{true: "rejects-valid-point", false: "ACCEPTS-off-curve-point"}[c.WantSat])
			rep := c.replay()
			rep["error"] = o.Err
			r.Violation(sig, fmt.Sprintf("%s on %s: satisfiable=%v, oracle=%v (%s)", fam, c.Curve, o.Sat, c.WantSat, c.Class), rep)
		}
		return
	}
	dom := "in-domain"
	if !c.InDomain {
		dom = "outside-domain"
	}
	scs, icls := d.inputClass(c)
	if d.fam == "nsw" {
		// the 2-chain Curve wrapper packs the limbs of an emulated scalar into a
		// native variable: there the representation (value >= r), not the
		// residue class, decides
		for _, k := range c.Ks {
			if k.Cmp(d.c.R) >= 0 {
				icls = "unreduced-scalar(r<=s<2^bits(r))"
			}
		}
	}
	switch {
	case o.Sat && o.Correct:
		r.Count(f+"."+dom+".correct", 1)
		if !c.InDomain {
			r.Count(f+".outside-domain.correct."+c.Op, 1)
		}
		if c.Want.Inf {
			r.Count(f+".result-at-infinity.correct", 1)
		}
		r.SampleClass(f+"/"+c.Op+"/"+mode+"/"+dom, map[string]any{"curve": c.Curve, "class": c.Class, "result": c.Want.String(), "outcome": "satisfiable, equals oracle"})
	case !o.Sat && !c.InDomain:
		r.Count(f+".outside-domain.unsatisfiable", 1)
		r.Count(f+".outside-domain.unsatisfiable."+c.Op, 1)
		r.SampleClass(f+"/"+c.Op+"/"+mode+"/outside-domain-unsat", map[string]any{"curve": c.Curve, "class": c.Class, "outcome": "unsatisfiable: " + o.Err})
	case o.Sat && !c.InDomain:
		// the method's documentation puts this input outside its contract (⚠️
		// preconditions of the incomplete formulas): the value is undefined by
		// design; observed and counted, never a verdict
		r.Count(f+".outside-domain.wrong-value(documented-precondition-violated)", 1)
		r.Count(f+".outside-domain.wrong-value."+c.Op, 1)
		r.SampleClass(f+"/"+c.Op+"/"+mode+"/outside-domain-wrong-value", map[string]any{"curve": c.Curve, "class": c.Class, "oracle": c.Want.String(), "gadget": o.Got,
			"outcome": "satisfiable with a value different from the group law; the input violates a documented precondition"})
	case o.Sat:
		rep := c.replay()
		rep["gadget_result"] = o.Got
		sig := fmt.Sprintf("%s/%s/%s/WRONG-RESULT/%s", fam, glvKind(d), mode, icls)
		r.Count(f+".WRONG-RESULT", 1)
		r.Count("viol@"+c.Curve+"@"+sig, 1)
		r.Violation(sig, fmt.Sprintf("%s on %s (%s) is satisfiable with a result different from the group law: %s", fam, c.Curve, mode, c.Class), rep)
	default:
		rep := c.replay()
		rep["error"] = o.Err
		sig := fmt.Sprintf("%s/%s/%s/unsatisfiable-in-documented-domain/%s", fam, glvKind(d), mode, icls)
		detail := fmt.Sprintf("%s on %s (%s) rejects an input of its documented domain: %s: %s", fam, c.Curve, mode, c.Class, o.Err)
		r.Count(f+".UNSAT-IN-DOMAIN", 1)
		r.Count("viol@"+c.Curve+"@"+sig+"@"+c.Class, 1)
		j.mu.Lock()
		defer j.mu.Unlock()
		if c.Op == "ScalarMul" || c.Op == "ScalarMulBase" {
			for _, sc := range scs {
				j.rootFail[glvKind(d)+"|"+mode+"|"+sc] = true
			}
			r.Violation(sig, detail, rep)
			return
		}
		single := usesSingleMul(d, c)
		j.pending = append(j.pending, func(root map[string]bool) {
			if single {
				for _, sc := range scs {
					if root[glvKind(d)+"|"+mode+"|"+sc] {
						r.Count(f+".UNSAT-IN-DOMAIN.composite-explained-by-single-ScalarMul-failure", 1)
						r.SampleClass(f+"/composite-failure-folded/"+c.Op+"/"+mode, map[string]any{"curve": c.Curve, "class": c.Class, "error": o.Err,
							"explained_by": "ScalarMul fails for " + sc + " in the same mode (reported as its own violation)"})
						return
					}
				}
			}
			r.Violation(sig, detail, rep)
		})
	}
}

var nativeBN254 = ecc.BN254.ScalarField()

func init() { executors["emu"] = execEmu }
