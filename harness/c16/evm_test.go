//go:build verif

package c16

// EVM precompile gadgets (std/evmprecompiles): ECRECOVER, MODEXP, BN_ADD / BN_MUL
// (through the emulated family, ops "ECAdd" / "ECMul"), SNARKV.

import (
	"encoding/json"
	"fmt"
	"math/big"
	"math/rand/v2"

	"github.com/consensys/gnark-crypto/ecc/bn254"
	"github.com/consensys/gnark/frontend"
	"github.com/consensys/gnark/std/algebra/emulated/sw_bn254"
	"github.com/consensys/gnark/std/evmprecompiles"
	"github.com/consensys/gnark/std/math/emulated"
	"github.com/consensys/gnark/std/math/emulated/emparams"
	"github.com/consensys/gnark/test"

	"github.com/consensys/gnark/verifharness/internal/vcore"
)

// ---------------------------------------------------------------- ECRECOVER

type ecrecCircuit struct {
	Msg       emulated.Element[emulated.Secp256k1Fr]
	V         frontend.Variable
	R, S      emulated.Element[emulated.Secp256k1Fr]
	Strict    frontend.Variable
	IsFailure frontend.Variable
	cfg       *emuCfg
}

func (c *ecrecCircuit) Define(api frontend.API) error {
	P := evmprecompiles.ECRecover(api, c.Msg, c.V, c.R, c.S, c.Strict, c.IsFailure)
	return capturePoint[emulated.Secp256k1Fp](api, c.cfg, &P.X, &P.Y)
}

type ecrecCase struct {
	Class       string
	E, R, S     *big.Int
	V           int
	Strict      int
	IsFailure   int
	WantSat     bool
	Want        wpt // expected returned key ((0,0) on failure)
	InDomain    bool
	MustBeUnsat bool // the EVM rejects the input or the failure flag is wrong
}

func (c *ecrecCase) key() string {
	return fmt.Sprintf("ecrecover|%s|%v|%v|%v|%d|%d|%d", c.Class, c.E, c.R, c.S, c.V, c.Strict, c.IsFailure)
}
func (c *ecrecCase) replay() map[string]any {
	return map[string]any{"gadget": "evmprecompiles.ECRecover", "class": c.Class, "msg": c.E.String(), "v": c.V, "r": c.R.String(), "s": c.S.String(), "strictRange": c.Strict,
		"isFailure": c.IsFailure, "oracle_satisfiable": c.WantSat, "oracle_key": c.Want.String(), "engine": "test.IsSolved"}
}

// ecrecoverRef: R = (r, y) with y of the parity given by v; Q = r^-1 (sR - eG).
// qnr reports that r^3+7 is not a square; inf that Q is the identity.
func ecrecoverRef(c *wcurve, e, r, s *big.Int, v int) (q wpt, qnr, inf bool) {
	rhs := new(big.Int).Exp(r, bi(3), c.P)
	rhs.Add(rhs, c.B)
	rhs.Mod(rhs, c.P)
	y := new(big.Int).ModSqrt(rhs, c.P)
	if y == nil {
		return winf(), true, false
	}
	if int(y.Bit(0)) != v-27 {
		y.Sub(c.P, y)
	}
	R := wpt{X: new(big.Int).Set(r), Y: y}
	ri := new(big.Int).ModInverse(r, c.R)
	u1 := new(big.Int).Mul(e, ri)
	u1.Neg(u1).Mod(u1, c.R)
	u2 := new(big.Int).Mul(s, ri)
	u2.Mod(u2, c.R)
	q = c.add(c.mul(c.G(), u1), c.mul(R, u2))
	return q, false, q.Inf
}

func execEcrec(raw json.RawMessage) outcome {
	var c ecrecCase
	if err := json.Unmarshal(raw, &c); err != nil {
		return outcome{Err: "decode: " + err.Error()}
	}
	var fp emulated.Secp256k1Fp
	sk := &sink{bitsPerLimb: fp.BitsPerLimb(), mod: fp.Modulus()}
	cfg := &emuCfg{sink: sk}
	e, ok1 := scalarElem[emulated.Secp256k1Fr](c.E)
	r, ok2 := scalarElem[emulated.Secp256k1Fr](c.R)
	s, ok3 := scalarElem[emulated.Secp256k1Fr](c.S)
	if !ok1 || !ok2 || !ok3 {
		return outcome{Err: "scalar-not-representable"}
	}
	asg := &ecrecCircuit{cfg: cfg, Msg: e, R: r, S: s, V: c.V, Strict: c.Strict, IsFailure: c.IsFailure}
	err := test.IsSolved(&ecrecCircuit{cfg: cfg}, asg, nativeBN254)
	o := outcome{Sat: err == nil}
	if err != nil {
		o.Err = firstLine(err.Error())
		return o
	}
	if len(sk.got) != 1 {
		return outcome{Err: fmt.Sprintf("harness: capture point reached %d times", len(sk.got))}
	}
	o.Got = []string{sk.got[0][0].String(), sk.got[0][1].String()}
	wx, wy := c.Want.xy()
	o.Correct = sk.got[0][0].Cmp(wx) == 0 && sk.got[0][1].Cmp(wy) == 0
	return o
}

func genEcrec(d *emuCurveDesc, rng *rand.Rand) []*ecrecCase {
	c := d.c
	n := c.R
	half := new(big.Int).Rsh(new(big.Int).Sub(n, bi(1)), 1)
	var out []*ecrecCase
	mk := func(class string, e, r, s *big.Int, v, strict, isFailure int, inDomain bool) {
		cs := &ecrecCase{Class: class, E: e, R: r, S: s, V: v, Strict: strict, IsFailure: isFailure, InDomain: inDomain}
		// what the precompile specification says
		validRange := r.Sign() > 0 && r.Cmp(n) < 0 && s.Sign() > 0 && s.Cmp(n) < 0 && (v == 27 || v == 28) && (strict == 0 || s.Cmp(half) <= 0)
		if !validRange {
			cs.WantSat, cs.MustBeUnsat, cs.Want = false, true, winf()
		} else {
			q, qnr, inf := ecrecoverRef(c, e, r, s, v)
			fail := qnr || inf
			cs.Want = winf()
			if !fail {
				cs.Want = q
			}
			cs.WantSat = (isFailure == 1) == fail
			cs.MustBeUnsat = !cs.WantSat
		}
		out = append(out, cs)
	}
	sk := randNonzero(rng, n)
	e := randNonzero(rng, n)
	sign := func(e *big.Int) (r, s *big.Int, v int) {
		for {
			k := randNonzero(rng, n)
			R := c.mul(c.G(), k)
			if R.X.Cmp(n) >= 0 {
				continue
			}
			r, s, ok := ecdsaSignRef(c, sk, e, k)
			if !ok {
				continue
			}
			return r, s, 27 + int(R.Y.Bit(0))
		}
	}
	r, s, v := sign(e)
	lowS, lowV := s, v
	if s.Cmp(half) > 0 {
		lowS, lowV = new(big.Int).Sub(n, s), 27+(1-(v-27))
	}
	highS, highV := new(big.Int).Sub(n, lowS), 27+(1-(lowV-27))
	mk("valid,lax", e, r, s, v, 0, 0, true)
	mk("valid,low-s,strict", e, r, lowS, lowV, 1, 0, true)
	mk("valid,high-s,lax", e, r, highS, highV, 0, 0, true)
	mk("high-s,strict(must-reject)", e, r, highS, highV, 1, 0, true)
	mk("other-parity(recovers-another-key)", e, r, s, 27+(1-(v-27)), 0, 0, true)
	mk("valid,but-isFailure=1(must-reject)", e, r, s, v, 0, 1, true)
	mk("v=29(must-reject)", e, r, s, 29, 0, 0, true)
	mk("v=26(must-reject)", e, r, s, 26, 0, 0, true)
	mk("r=0(must-reject)", e, bi(0), s, v, 0, 0, true)
	mk("s=0(must-reject)", e, r, bi(0), v, 0, 0, true)
	mk("r=n(must-reject)", e, n, s, v, 0, 0, true)
	mk("s=n(must-reject)", e, r, n, v, 0, 0, true)
	// quadratic non-residue
	var rq *big.Int
	for {
		rq = randNonzero(rng, n)
		if _, qnr, _ := ecrecoverRef(c, e, rq, s, 27); qnr {
			break
		}
	}
	mk("r^3+7-non-residue,isFailure=1", e, rq, s, 27, 0, 1, true)
	mk("r^3+7-non-residue,isFailure=0(must-reject)", e, rq, s, 27, 0, 0, true)
	// recovered key at infinity: s = e/k, r = x(kG)
	for {
		k := randNonzero(rng, n)
		R := c.mul(c.G(), k)
		if R.X.Cmp(n) >= 0 {
			continue
		}
		si := new(big.Int).Mul(e, new(big.Int).ModInverse(k, n))
		si.Mod(si, n)
		vi := 27 + int(R.Y.Bit(0))
		mk("recovered-key=infinity,isFailure=1", e, R.X, si, vi, 0, 1, true)
		mk("recovered-key=infinity,isFailure=0(must-reject)", e, R.X, si, vi, 0, 0, true)
		break
	}
	// msg = 0: u1 = 0 is outside JointScalarMulBase's documented domain
	r0, s0, v0 := sign(bi(0))
	mk("msg=0(valid)", bi(0), r0, s0, v0, 0, 0, false)
	return out
}

func judgeEcrec(r *vcore.Run, c *ecrecCase, o outcome) {
	fam := "evmprecompiles.ECRecover"
	r.Eval(c.key(), true)
	r.Count("evm.ecrecover.cases", 1)
	if o.Err == "scalar-not-representable" {
		r.Inconclusive("evm:scalar-not-representable")
		return
	}
	if poolTrouble(r, "evm.ecrecover", o, c.replay(), fam) {
		return
	}
	rep := c.replay()
	rep["error"] = o.Err
	rep["gadget_key"] = o.Got
	switch {
	case c.WantSat && o.Sat && o.Correct:
		r.Count("evm.ecrecover.correct", 1)
		r.SampleClass("evm/ecrecover/"+c.Class, map[string]any{"key": c.Want.String()})
	case !c.WantSat && !o.Sat:
		r.Count("evm.ecrecover.rejected-as-specified", 1)
	case o.Sat && c.WantSat:
		r.Count("evm.ecrecover.WRONG-KEY", 1)
		r.Violation(fam+"/WRONG-KEY/"+c.Class, "ECRecover is satisfiable with a key different from the recovered key: "+c.Class, rep)
	case o.Sat:
		r.Count("evm.ecrecover.ACCEPTED-must-reject", 1)
		r.Violation(fam+"/ACCEPTS-what-the-specification-rejects/"+c.Class, "ECRecover is satisfiable on an input / failure flag the specification rejects: "+c.Class, rep)
	case c.InDomain:
		r.Count("evm.ecrecover.REJECTED-valid", 1)
		r.Violation(fam+"/rejects-valid-input/"+c.Class, "ECRecover is unsatisfiable on a valid input: "+c.Class+": "+o.Err, rep)
	default:
		r.Count("evm.ecrecover.outside-domain.unsatisfiable", 1)
	}
}

// ---------------------------------------------------------------- MODEXP

type expmodCircuit[P emulated.FieldParams] struct {
	Base, Exp, Mod emulated.Element[P]
	cfg            *emuCfg
}

func (c *expmodCircuit[P]) Define(api frontend.API) error {
	res := evmprecompiles.Expmod(api, &c.Base, &c.Exp, &c.Mod)
	return capturePoint[P](api, c.cfg, res, res)
}

type expmodCase struct {
	Width          int
	Class          string
	Base, Exp, Mod *big.Int
	Want           *big.Int
}

func (c *expmodCase) key() string {
	return fmt.Sprintf("expmod|%d|%s|%v|%v|%v", c.Width, c.Class, c.Base, c.Exp, c.Mod)
}
func (c *expmodCase) replay() map[string]any {
	return map[string]any{"gadget": "evmprecompiles.Expmod", "width": c.Width, "class": c.Class, "base": c.Base.String(), "exp": c.Exp.String(), "mod": c.Mod.String(), "oracle": c.Want.String()}
}

// expmodRef is the MODEXP specification: 0 for modulus 0 or 1, else base^exp mod m (0^0 = 1).
func expmodRef(b, e, m *big.Int) *big.Int {
	if m.Sign() == 0 || m.Cmp(bi(1)) == 0 {
		return new(big.Int)
	}
	return new(big.Int).Exp(b, e, m)
}

func runExpmod[P emulated.FieldParams](c *expmodCase) outcome {
	var fp P
	sk := &sink{bitsPerLimb: fp.BitsPerLimb()}
	cfg := &emuCfg{sink: sk}
	b, ok1 := scalarElem[P](c.Base)
	e, ok2 := scalarElem[P](c.Exp)
	m, ok3 := scalarElem[P](c.Mod)
	if !ok1 || !ok2 || !ok3 {
		return outcome{Err: "scalar-not-representable"}
	}
	err := test.IsSolved(&expmodCircuit[P]{cfg: cfg}, &expmodCircuit[P]{cfg: cfg, Base: b, Exp: e, Mod: m}, nativeBN254)
	o := outcome{Sat: err == nil}
	if err != nil {
		o.Err = firstLine(err.Error())
		return o
	}
	if len(sk.got) != 1 {
		return outcome{Err: "harness: capture"}
	}
	o.Got = []string{sk.got[0][0].String()}
	o.Correct = sk.got[0][0].Cmp(c.Want) == 0
	return o
}

func execExpmod(raw json.RawMessage) outcome {
	var c expmodCase
	if err := json.Unmarshal(raw, &c); err != nil {
		return outcome{Err: "decode: " + err.Error()}
	}
	switch c.Width {
	case 256:
		return runExpmod[emparams.Mod1e256](&c)
	case 512:
		return runExpmod[emparams.Mod1e512](&c)
	}
	return outcome{Err: "decode: width"}
}

func genExpmod(rng *rand.Rand, quick bool) []*expmodCase {
	var out []*expmodCase
	for _, w := range []int{256, 512} {
		top := new(big.Int).Lsh(bi(1), uint(w))
		max := new(big.Int).Sub(top, bi(1))
		rnd := func() *big.Int { return randBelow(rng, top) }
		mk := func(class string, b, e, m *big.Int) {
			out = append(out, &expmodCase{Width: w, Class: class, Base: b, Exp: e, Mod: m, Want: expmodRef(b, e, m)})
		}
		m := rnd()
		mk("random", rnd(), rnd(), m)
		if quick && w == 512 {
			mk("b^1 mod m,b>m", max, bi(1), new(big.Int).Rsh(m, 9))
			mk("modulus=2^w-1(all-ones)", bi(3), bi(200), max)
			mk("0^0 mod 0", bi(0), bi(0), bi(0))
			mk("b^e mod 1", rnd(), rnd(), bi(1))
			continue
		}
		mk("random,odd-modulus", rnd(), rnd(), new(big.Int).Or(rnd(), bi(1)))
		mk("0^0 mod 0", bi(0), bi(0), bi(0))
		mk("0^0 mod 1", bi(0), bi(0), bi(1))
		mk("0^0 mod m", bi(0), bi(0), m)
		mk("b^e mod 0", rnd(), rnd(), bi(0))
		mk("b^e mod 1", rnd(), rnd(), bi(1))
		mk("b^0 mod m", rnd(), bi(0), m)
		mk("0^e mod m", bi(0), rnd(), m)
		mk("b^1 mod m,b>m", max, bi(1), new(big.Int).Rsh(m, 9))
		mk("b=m", m, bi(5), m)
		mk("mod 2", rnd(), rnd(), bi(2))
		mk("mod 2^k", rnd(), rnd(), new(big.Int).Lsh(bi(1), uint(w-1)))
		mk("all-max", max, max, max)
		mk("modulus=2^w-1(all-ones)", bi(3), bi(200), max)
		if !quick {
			mk("random2", rnd(), rnd(), rnd())
			mk("e=max", rnd(), max, m)
			mk("mod=2^k-1 prime-like", rnd(), rnd(), new(big.Int).Sub(new(big.Int).Lsh(bi(1), 127), bi(1)))
		}
	}
	return out
}

func judgeExpmod(r *vcore.Run, c *expmodCase, o outcome) {
	fam := "evmprecompiles.Expmod"
	r.Eval(c.key(), true)
	r.Count("evm.expmod.cases", 1)
	if poolTrouble(r, "evm.expmod", o, c.replay(), fam) {
		return
	}
	rep := c.replay()
	rep["error"] = o.Err
	rep["gadget"] = o.Got
	switch {
	case o.Sat && o.Correct:
		r.Count("evm.expmod.correct", 1)
		r.SampleClass("evm/expmod/"+c.Class, map[string]any{"width": c.Width, "result": c.Want.String()})
	case o.Sat:
		got, _ := new(big.Int).SetString(o.Got[0], 10)
		if c.Mod.Sign() != 0 && got != nil && new(big.Int).Mod(got, c.Mod).Cmp(c.Want) == 0 {
			r.Count("evm.expmod.NON-CANONICAL", 1)
			r.Violation(fam+"/result-not-reduced-below-the-modulus/"+c.Class, "Expmod returns a value congruent to base^exp but not smaller than the modulus (the precompile returns the canonical residue): "+c.Class, rep)
			return
		}
		r.Count("evm.expmod.WRONG", 1)
		r.Violation(fam+"/WRONG-RESULT/"+c.Class, "Expmod differs from the specification: "+c.Class, rep)
	default:
		r.Count("evm.expmod.UNSAT", 1)
		r.Violation(fam+"/unsatisfiable/"+c.Class, "Expmod is unsatisfiable on a valid input: "+c.Class+": "+o.Err, rep)
	}
}

// ---------------------------------------------------------------- SNARKV

type ecpairCircuit struct {
	P   [maxPairs]sw_bn254.G1Affine
	Q   [maxPairs]sw_bn254.G2Affine
	Acc sw_bn254.GTEl
	B   frontend.Variable
	cfg *pairCfg
}

func (c *ecpairCircuit) Define(api frontend.API) error {
	switch c.cfg.kind {
	case "ecpair":
		ps := make([]*sw_bn254.G1Affine, c.cfg.n)
		qs := make([]*sw_bn254.G2Affine, c.cfg.n)
		for i := range ps {
			ps[i], qs[i] = &c.P[i], &c.Q[i]
		}
		evmprecompiles.ECPair(api, ps, qs)
	case "isong2":
		return evmprecompiles.ECPairIsOnG2(api, &c.Q[0], c.B)
	case "mlfe":
		return evmprecompiles.ECPairMillerLoopAndFinalExpCheck(api, &c.Acc, &c.P[1], &c.Q[1], c.B)
	case "mlmul":
		// expected = native Miller loop product is not unique up to the final
		// exponentiation; the fixed circuit is checked through mlfe instead
		return fmt.Errorf("unused")
	}
	return nil
}

type ecpairCase struct {
	Kind  string
	Class string
	N     int
	A, B  []*big.Int
	Tweak string // isong2: "subgroup" | "twist-not-subgroup" | "off-twist" | "identity"; ecpair, mlfe: "scaled-off-twist"
	Flag  int    // claimed boolean (isong2, mlfe)
	Seed  uint64
	Sig   string // replaces Class in a violation signature (one root cause, several classes)
}

func (c *ecpairCase) key() string {
	return fmt.Sprintf("ecpair|%s|%s|%v|%v|%s|%d|%d", c.Kind, c.Class, c.A, c.B, c.Tweak, c.Flag, c.Seed)
}
func (c *ecpairCase) replay() map[string]any {
	return map[string]any{"gadget": "evmprecompiles." + c.Kind, "class": c.Class, "n": c.N, "P_i=[a_i]G1": bigStrs(c.A), "Q_i=[b_i]G2": bigStrs(c.B), "tweak": c.Tweak, "claimed_flag": c.Flag, "point_seed": c.Seed}
}

// twistPointNotInG2 returns a point of the BN254 twist outside the r-torsion.
func twistPointNotInG2(seed uint64) bn254.G2Affine {
	_, _, _, g2 := bn254.Generators()
	var b, t bn254.E2
	b.Square(&g2.X).Mul(&b, &g2.X)
	t.Square(&g2.Y)
	b.Sub(&t, &b) // b' = y^2 - x^3
	for i := uint64(0); ; i++ {
		var x, rhs, y bn254.E2
		x.A0.SetUint64(seed + i)
		x.A1.SetUint64(seed*7 + 3*i + 1)
		rhs.Square(&x).Mul(&rhs, &x).Add(&rhs, &b)
		if rhs.Legendre() != 1 {
			continue
		}
		y.Sqrt(&rhs)
		p := bn254.G2Affine{X: x, Y: y}
		if p.IsOnCurve() && !p.IsInSubGroup() {
			return p
		}
	}
}

func execEcpair(raw json.RawMessage) outcome {
	var c ecpairCase
	if err := json.Unmarshal(raw, &c); err != nil {
		return outcome{Err: "decode: " + err.Error()}
	}
	_, _, g1, g2 := bn254.Generators()
	var P [maxPairs]bn254.G1Affine
	var Q [maxPairs]bn254.G2Affine
	for i := 0; i < maxPairs; i++ {
		a, b := bi(1), bi(1)
		if i < len(c.A) {
			a, b = c.A[i], c.B[i]
		}
		P[i].ScalarMultiplication(&g1, a)
		Q[i].ScalarMultiplication(&g2, b)
	}
	want := true
	asg := &ecpairCircuit{B: c.Flag, cfg: &pairCfg{kind: c.Kind, n: c.N}}
	var acc bn254.GT
	acc.SetOne()
	switch c.Kind {
	case "ecpair":
		ok, err := bn254.PairingCheck(P[:c.N], Q[:c.N])
		if err != nil {
			return outcome{Err: "harness: " + err.Error()}
		}
		want = ok
	case "isong2":
		switch c.Tweak {
		case "twist-not-subgroup":
			Q[0] = twistPointNotInG2(c.Seed)
		case "off-twist":
			Q[0].X, Q[0].Y = Q[0].Y, Q[0].X
		case "identity":
			Q[0] = bn254.G2Affine{}
		}
		is := Q[0].IsOnCurve() && Q[0].IsInSubGroup()
		want = (c.Flag == 1) == is
	case "mlfe":
		ml, err := bn254.MillerLoop(P[:1], Q[:1])
		if err != nil {
			return outcome{Err: "harness: " + err.Error()}
		}
		acc = ml
		ok, err := bn254.PairingCheck(P[:2], Q[:2])
		if err != nil {
			return outcome{Err: "harness: " + err.Error()}
		}
		want = (c.Flag == 1) == ok
	}
	if c.Tweak == "scaled-off-twist" && (c.Kind == "ecpair" || c.Kind == "mlfe") {
		// "2- Check that Qᵢ are on G2 (done in `computeLines` in `MillerLoopAndMul`
		// and `MillerLoopAndFinalExpCheck`)": (x,y) -> (4x,8y) maps a point of G2
		// onto y² = x³ + 64·b', off the twist; the endomorphism relation of the
		// subgroup test and the line formulas do not involve b', so only the
		// twist equation tells the point apart.  ecpair: every Qᵢ (the native
		// product on the genuine points is one); mlfe: the Q the gadget receives.
		from := 0
		if c.Kind == "mlfe" {
			from = 1
		}
		for i := from; i < c.N; i++ {
			Q[i].X.Double(&Q[i].X).Double(&Q[i].X)
			Q[i].Y.Double(&Q[i].Y).Double(&Q[i].Y).Double(&Q[i].Y)
			if Q[i].IsOnCurve() {
				return outcome{Err: "harness: scaled point is on the twist"}
			}
		}
		want = false
	}
	for i := 0; i < maxPairs; i++ {
		asg.P[i] = sw_bn254.NewG1Affine(P[i])
		asg.Q[i] = sw_bn254.NewG2Affine(Q[i])
	}
	asg.Acc = sw_bn254.NewGTEl(acc)
	err := test.IsSolved(&ecpairCircuit{cfg: asg.cfg}, asg, nativeBN254)
	o := outcome{Sat: err == nil, Vals: map[string]string{"want": fmt.Sprint(want)}}
	if err != nil {
		o.Err = firstLine(err.Error())
	}
	o.Correct = o.Sat == want
	return o
}

func genEcpair(rng *rand.Rand, quick bool) []*ecpairCase {
	r := bn254.ID.ScalarField()
	rk := func() *big.Int { return randNonzero(rng, r) }
	neg := func(x *big.Int) *big.Int { return new(big.Int).Mod(new(big.Int).Neg(x), r) }
	mul := func(x, y *big.Int) *big.Int { return new(big.Int).Mod(new(big.Int).Mul(x, y), r) }
	a, b := rk(), rk()
	one := bi(1)
	var out []*ecpairCase
	out = append(out,
		&ecpairCase{Kind: "ecpair", Class: "n=2,product=1", N: 2, A: []*big.Int{a, neg(mul(a, b))}, B: []*big.Int{b, one}},
		&ecpairCase{Kind: "ecpair", Class: "n=2,product!=1", N: 2, A: []*big.Int{a, mul(a, b)}, B: []*big.Int{b, one}},
		&ecpairCase{Kind: "isong2", Class: "subgroup,flag=1", A: []*big.Int{one}, B: []*big.Int{b}, Tweak: "subgroup", Flag: 1},
		&ecpairCase{Kind: "isong2", Class: "subgroup,flag=0(must-reject)", A: []*big.Int{one}, B: []*big.Int{b}, Tweak: "subgroup", Flag: 0},
		&ecpairCase{Kind: "isong2", Class: "twist-not-subgroup,flag=0", A: []*big.Int{one}, B: []*big.Int{b}, Tweak: "twist-not-subgroup", Flag: 0, Seed: rng.Uint64() % (1 << 40)},
		&ecpairCase{Kind: "isong2", Class: "twist-not-subgroup,flag=1(must-reject)", A: []*big.Int{one}, B: []*big.Int{b}, Tweak: "twist-not-subgroup", Flag: 1, Seed: rng.Uint64() % (1 << 40)},
		&ecpairCase{Kind: "isong2", Class: "off-twist,flag=0", A: []*big.Int{one}, B: []*big.Int{b}, Tweak: "off-twist", Flag: 0},
		&ecpairCase{Kind: "isong2", Class: "off-twist,flag=1(must-reject)", A: []*big.Int{one}, B: []*big.Int{b}, Tweak: "off-twist", Flag: 1},
		&ecpairCase{Kind: "mlfe", Class: "product=1,flag=1", N: 2, A: []*big.Int{a, neg(mul(a, b))}, B: []*big.Int{b, one}, Flag: 1},
		&ecpairCase{Kind: "mlfe", Class: "product!=1,flag=0", N: 2, A: []*big.Int{a, mul(a, b)}, B: []*big.Int{b, one}, Flag: 0},
		&ecpairCase{Kind: "mlfe", Class: "product!=1,flag=1(must-reject)", N: 2, A: []*big.Int{a, mul(a, b)}, B: []*big.Int{b, one}, Flag: 1},
		// a Q outside G2 (off the twist, subgroup relation intact) must be rejected
		// whatever the product / the claimed flag; G1 membership is "done in the
		// zkEVM ⚠️", i.e. not a check of these gadgets: no such case for P
		&ecpairCase{Kind: "ecpair", Class: "n=2,Q=scaled-subgroup-point(4x,8y)-off-twist,P1=-P0,Q1=Q0(must-reject)", N: 2, A: []*big.Int{a, neg(a)}, B: []*big.Int{b, b},
			Tweak: "scaled-off-twist", Sig: "Q=scaled-subgroup-point(4x,8y)-off-twist"},
		&ecpairCase{Kind: "mlfe", Class: "n=2,Q1=scaled-subgroup-point(4x,8y)-off-twist,flag=0(must-reject)", N: 2, A: []*big.Int{a, mul(a, b)}, B: []*big.Int{b, one}, Flag: 0,
			Tweak: "scaled-off-twist", Sig: "Q=scaled-subgroup-point(4x,8y)-off-twist"},
	)
	if !quick {
		c, e := rk(), rk()
		out = append(out,
			&ecpairCase{Kind: "ecpair", Class: "n=4,product=1", N: 4, A: []*big.Int{a, c, a, neg(new(big.Int).Add(new(big.Int).Add(mul(a, b), mul(c, e)), mul(a, e)))}, B: []*big.Int{b, e, e, one}},
			&ecpairCase{Kind: "ecpair", Class: "n=4,product!=1", N: 4, A: []*big.Int{a, c, a, neg(new(big.Int).Add(mul(a, b), mul(c, e)))}, B: []*big.Int{b, e, e, one}},
			&ecpairCase{Kind: "ecpair", Class: "n=3,product=1", N: 3, A: []*big.Int{a, c, neg(new(big.Int).Add(mul(a, b), mul(c, e)))}, B: []*big.Int{b, e, one}},
			&ecpairCase{Kind: "mlfe", Class: "product=1,flag=0(must-reject)", N: 2, A: []*big.Int{a, neg(mul(a, b))}, B: []*big.Int{b, one}, Flag: 0},
			&ecpairCase{Kind: "isong2", Class: "twist-not-subgroup,flag=0", A: []*big.Int{one}, B: []*big.Int{b}, Tweak: "twist-not-subgroup", Flag: 0, Seed: rng.Uint64() % (1 << 40)},
		)
	}
	return out
}

func judgeEcpair(r *vcore.Run, c *ecpairCase, o outcome) {
	fam := "evmprecompiles." + c.Kind
	r.Eval(c.key(), true)
	r.Count("evm.ecpair.cases", 1)
	r.Count("evm.ecpair.kind."+c.Kind, 1)
	if poolTrouble(r, "evm.ecpair", o, c.replay(), fam) {
		return
	}
	want := o.Vals["want"] == "true"
	sig := c.Class
	if c.Sig != "" {
		sig = c.Sig
	}
	rep := c.replay()
	rep["error"] = o.Err
	rep["native_says_satisfiable"] = want
	switch {
	case o.Sat == want:
		r.Count(map[bool]string{true: "evm.ecpair.accepted-as-native", false: "evm.ecpair.rejected-as-native"}[want], 1)
		r.SampleClass("evm/"+c.Kind+"/"+c.Class, map[string]any{"satisfiable": o.Sat})
	case o.Sat:
		r.Count("evm.ecpair.ACCEPTED-what-native-rejects", 1)
		r.Violation(fam+"/ACCEPTS-what-the-native-library-rejects/"+sig, fam+" is satisfiable although the native computation rejects: "+c.Class, rep)
	default:
		r.Count("evm.ecpair.REJECTED-what-native-accepts", 1)
		r.Violation(fam+"/rejects-what-the-native-library-accepts/"+sig, fam+" is unsatisfiable although the native computation accepts: "+c.Class+": "+o.Err, rep)
	}
}

func init() {
	executors["ecrecover"] = execEcrec
	executors["expmod"] = execExpmod
	executors["ecpair"] = execEcpair
}
