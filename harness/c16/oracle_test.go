//go:build verif

package c16

// Independent oracle: textbook affine group laws written with math/big only.
// Nothing here calls gnark or gnark-crypto; TestC16 cross-checks these routines
// against gnark-crypto / crypto/elliptic on random inputs before trusting them
// (selfcheck.go) so that an error in the oracle cannot silently pass as a
// verdict about gnark.

import (
	"math/big"
)

// wpt is an affine short-Weierstrass point; Inf marks the neutral element.
type wpt struct {
	X, Y *big.Int
	Inf  bool
}

type wcurve struct {
	Name   string
	P      *big.Int // base field
	R      *big.Int // group order (prime)
	A, B   *big.Int
	Gx, Gy *big.Int
}

func winf() wpt { return wpt{X: new(big.Int), Y: new(big.Int), Inf: true} }

func (c *wcurve) G() wpt { return wpt{X: new(big.Int).Set(c.Gx), Y: new(big.Int).Set(c.Gy)} }

func (c *wcurve) mod(x *big.Int) *big.Int { return x.Mod(x, c.P) }

func (c *wcurve) onCurve(p wpt) bool {
	if p.Inf {
		return true
	}
	l := new(big.Int).Mul(p.Y, p.Y)
	r := new(big.Int).Mul(p.X, p.X)
	r.Mul(r, p.X)
	r.Add(r, new(big.Int).Mul(c.A, p.X))
	r.Add(r, c.B)
	return c.mod(l).Cmp(c.mod(r)) == 0
}

func (c *wcurve) neg(p wpt) wpt {
	if p.Inf {
		return winf()
	}
	y := new(big.Int).Neg(p.Y)
	return wpt{X: new(big.Int).Set(p.X), Y: c.mod(y)}
}

func (c *wcurve) eq(p, q wpt) bool {
	if p.Inf || q.Inf {
		return p.Inf == q.Inf
	}
	return p.X.Cmp(q.X) == 0 && p.Y.Cmp(q.Y) == 0
}

func (c *wcurve) add(p, q wpt) wpt {
	if p.Inf {
		return q
	}
	if q.Inf {
		return p
	}
	var lam *big.Int
	if p.X.Cmp(q.X) == 0 {
		s := new(big.Int).Add(p.Y, q.Y)
		if c.mod(s).Sign() == 0 {
			return winf()
		}
		// doubling
		n := new(big.Int).Mul(p.X, p.X)
		n.Mul(n, big.NewInt(3))
		n.Add(n, c.A)
		d := new(big.Int).Lsh(p.Y, 1)
		d.ModInverse(c.mod(d), c.P)
		lam = c.mod(n.Mul(n, d))
	} else {
		n := new(big.Int).Sub(q.Y, p.Y)
		d := new(big.Int).Sub(q.X, p.X)
		d.ModInverse(c.mod(d), c.P)
		lam = c.mod(n.Mul(n, d))
	}
	x := new(big.Int).Mul(lam, lam)
	x.Sub(x, p.X)
	x.Sub(x, q.X)
	c.mod(x)
	y := new(big.Int).Sub(p.X, x)
	y.Mul(y, lam)
	y.Sub(y, p.Y)
	c.mod(y)
	return wpt{X: x, Y: y}
}

// mul computes [k]p for any integer k >= 0 (no reduction of k: the group law
// takes care of it, which is what "over-sized scalar" means).
func (c *wcurve) mul(p wpt, k *big.Int) wpt {
	if k.Sign() < 0 {
		return c.mul(c.neg(p), new(big.Int).Neg(k))
	}
	acc := winf()
	for i := k.BitLen() - 1; i >= 0; i-- {
		acc = c.add(acc, acc)
		if k.Bit(i) == 1 {
			acc = c.add(acc, p)
		}
	}
	return acc
}

// xy returns the (0,0)-for-infinity encoding used by gnark's emulated and
// native short-Weierstrass gadgets.
func (p wpt) xy() (x, y *big.Int) {
	if p.Inf {
		return new(big.Int), new(big.Int)
	}
	return p.X, p.Y
}

func (p wpt) String() string {
	if p.Inf {
		return "inf"
	}
	return "(" + p.X.String() + "," + p.Y.String() + ")"
}

// ---------------------------------------------------------------------------
// twisted Edwards a*x^2 + y^2 = 1 + d*x^2*y^2

type epoint struct{ X, Y *big.Int }

type ecurve struct {
	Name            string
	P               *big.Int // field
	A, D            *big.Int
	Order, Cofactor *big.Int
	Bx, By          *big.Int
}

func (c *ecurve) id() epoint   { return epoint{new(big.Int), big.NewInt(1)} }
func (c *ecurve) base() epoint { return epoint{new(big.Int).Set(c.Bx), new(big.Int).Set(c.By)} }
func (c *ecurve) m(x *big.Int) *big.Int {
	return x.Mod(x, c.P)
}
func (c *ecurve) onCurve(p epoint) bool {
	xx := c.m(new(big.Int).Mul(p.X, p.X))
	yy := c.m(new(big.Int).Mul(p.Y, p.Y))
	l := new(big.Int).Mul(c.A, xx)
	l.Add(l, yy)
	r := new(big.Int).Mul(xx, yy)
	r.Mul(r, c.D)
	r.Add(r, big.NewInt(1))
	return c.m(l).Cmp(c.m(r)) == 0
}
func (c *ecurve) neg(p epoint) epoint {
	return epoint{c.m(new(big.Int).Neg(p.X)), new(big.Int).Set(p.Y)}
}
func (c *ecurve) eq(p, q epoint) bool { return p.X.Cmp(q.X) == 0 && p.Y.Cmp(q.Y) == 0 }

// add returns ok=false when a denominator vanishes (cannot happen on curves with
// a square and d non-square, i.e. all gnark companion curves, for points on the
// curve; reported so that the oracle never silently divides by zero).
func (c *ecurve) add(p, q epoint) (epoint, bool) {
	x1y2 := new(big.Int).Mul(p.X, q.Y)
	y1x2 := new(big.Int).Mul(p.Y, q.X)
	y1y2 := new(big.Int).Mul(p.Y, q.Y)
	x1x2 := new(big.Int).Mul(p.X, q.X)
	t := new(big.Int).Mul(x1x2, y1y2)
	t.Mul(t, c.D)
	c.m(t)
	dx := new(big.Int).Add(big.NewInt(1), t)
	dy := new(big.Int).Sub(big.NewInt(1), t)
	c.m(dx)
	c.m(dy)
	if dx.Sign() == 0 || dy.Sign() == 0 {
		return epoint{}, false
	}
	nx := new(big.Int).Add(x1y2, y1x2)
	ny := new(big.Int).Sub(y1y2, new(big.Int).Mul(c.A, x1x2))
	nx.Mul(nx, dx.ModInverse(dx, c.P))
	ny.Mul(ny, dy.ModInverse(dy, c.P))
	return epoint{c.m(nx), c.m(ny)}, true
}

func (c *ecurve) mul(p epoint, k *big.Int) (epoint, bool) {
	acc := c.id()
	ok := true
	for i := k.BitLen() - 1; i >= 0; i-- {
		var o bool
		acc, o = c.add(acc, acc)
		ok = ok && o
		if k.Bit(i) == 1 {
			acc, o = c.add(acc, p)
			ok = ok && o
		}
	}
	return acc, ok
}

func (p epoint) String() string { return "(" + p.X.String() + "," + p.Y.String() + ")" }
