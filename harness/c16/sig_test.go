//go:build verif

package c16

// ECDSA (std/signature/ecdsa) and EdDSA (std/signature/eddsa) verification
// gadgets against textbook verification in big.Int, itself validated against
// crypto/ecdsa, gnark-crypto ECDSA and gnark-crypto EdDSA (selfcheck).

import (
	"encoding/json"
	"fmt"
	"math/big"
	"math/rand/v2"

	tedwards "github.com/consensys/gnark-crypto/ecc/twistededwards"
	gchash "github.com/consensys/gnark-crypto/hash"
	"github.com/consensys/gnark/frontend"
	"github.com/consensys/gnark/std/algebra/emulated/sw_emulated"
	"github.com/consensys/gnark/std/algebra/native/twistededwards"
	"github.com/consensys/gnark/std/hash/mimc"
	"github.com/consensys/gnark/std/math/emulated"
	"github.com/consensys/gnark/std/signature/ecdsa"
	"github.com/consensys/gnark/std/signature/eddsa"
	"github.com/consensys/gnark/test"

	"github.com/consensys/gnark/verifharness/internal/vcore"
)

// ---------------------------------------------------------------- ECDSA

// ecdsaVerifyRef is textbook ECDSA verification (SEC 1 §4.1.4) on integers:
// r, s in [1, n-1]; the public key a curve point other than infinity.
func ecdsaVerifyRef(c *wcurve, q wpt, e, r, s *big.Int) bool {
	n := c.R
	if q.Inf || !c.onCurve(q) {
		return false
	}
	if r.Sign() <= 0 || s.Sign() <= 0 || r.Cmp(n) >= 0 || s.Cmp(n) >= 0 {
		return false
	}
	w := new(big.Int).ModInverse(s, n)
	u1 := new(big.Int).Mul(e, w)
	u1.Mod(u1, n)
	u2 := new(big.Int).Mul(r, w)
	u2.Mod(u2, n)
	X := c.add(c.mul(c.G(), u1), c.mul(q, u2))
	if X.Inf {
		return false
	}
	return new(big.Int).Mod(X.X, n).Cmp(r) == 0
}

func ecdsaSignRef(c *wcurve, d, e, k *big.Int) (r, s *big.Int, ok bool) {
	n := c.R
	R := c.mul(c.G(), k)
	r = new(big.Int).Mod(R.X, n)
	s = new(big.Int).Mul(r, d)
	s.Add(s, e)
	s.Mul(s, new(big.Int).ModInverse(k, n))
	s.Mod(s, n)
	return r, s, r.Sign() != 0 && s.Sign() != 0
}

type ecdsaCircuit[T, S emulated.FieldParams] struct {
	Sig ecdsa.Signature[S]
	Msg emulated.Element[S]
	Pub ecdsa.PublicKey[T, S]
}

func (c *ecdsaCircuit[T, S]) Define(api frontend.API) error {
	c.Pub.Verify(api, sw_emulated.GetCurveParams[T](), &c.Msg, &c.Sig)
	return nil
}

type ecdsaCase struct {
	Curve      string
	Class      string
	Q          wpt
	E, R, S    *big.Int // integers as handed to the gadget (may exceed n: unreduced witness limbs)
	WantAccept bool
	InDomain   bool
}

func (c *ecdsaCase) key() string {
	return fmt.Sprintf("ecdsa|%s|%s|%s|%v|%v|%v", c.Curve, c.Class, c.Q, c.E, c.R, c.S)
}

func (c *ecdsaCase) replay() map[string]any {
	return map[string]any{"gadget": "ecdsa.PublicKey.Verify", "curve": c.Curve, "class": c.Class, "public_key": c.Q.String(), "msg_hash": c.E.String(),
		"r": c.R.String(), "s": c.S.String(), "native_verifier_accepts": c.WantAccept, "in_documented_domain": c.InDomain, "engine": "test.IsSolved"}
}

func runEcdsa[T, S emulated.FieldParams](c *ecdsaCase) outcome {
	e, ok1 := scalarElem[S](c.E)
	r, ok2 := scalarElem[S](c.R)
	s, ok3 := scalarElem[S](c.S)
	if !ok1 || !ok2 || !ok3 {
		return outcome{Err: "scalar-not-representable"}
	}
	x, y := c.Q.xy()
	asg := &ecdsaCircuit[T, S]{Sig: ecdsa.Signature[S]{R: r, S: s}, Msg: e,
		Pub: ecdsa.PublicKey[T, S]{X: emulated.ValueOf[T](x), Y: emulated.ValueOf[T](y)}}
	err := test.IsSolved(&ecdsaCircuit[T, S]{}, asg, nativeBN254)
	o := outcome{Sat: err == nil}
	if err != nil {
		o.Err = firstLine(err.Error())
	}
	return o
}

func execEcdsa(raw json.RawMessage) outcome {
	var c ecdsaCase
	if err := json.Unmarshal(raw, &c); err != nil {
		return outcome{Err: "decode: " + err.Error()}
	}
	switch c.Curve {
	case "secp256k1":
		return runEcdsa[emulated.Secp256k1Fp, emulated.Secp256k1Fr](&c)
	case "P-256":
		return runEcdsa[emulated.P256Fp, emulated.P256Fr](&c)
	case "P-384":
		return runEcdsa[emulated.P384Fp, emulated.P384Fr](&c)
	}
	return outcome{Err: "decode: unknown curve"}
}

func genEcdsa(d *emuCurveDesc, rng *rand.Rand) []*ecdsaCase {
	c := d.c
	n := c.R
	var out []*ecdsaCase
	newKey := func() (*big.Int, wpt) {
		k := randNonzero(rng, n)
		return k, c.mul(c.G(), k)
	}
	sk, Q := newKey()
	_, Q2 := newKey()
	// a hash small enough that hash+n still fits the witness limbs
	small := new(big.Int).Sub(new(big.Int).Lsh(bi(1), uint(d.capBit)), n)
	e := randNonzero(rng, n)
	eSmall := randNonzero(rng, small)
	var r, s *big.Int
	for ok := false; !ok; {
		r, s, ok = ecdsaSignRef(c, sk, e, randNonzero(rng, n))
	}
	var r2, s2 *big.Int
	for ok := false; !ok; {
		r2, s2, ok = ecdsaSignRef(c, sk, eSmall, randNonzero(rng, n))
	}
	mk := func(class string, q wpt, e, r, s *big.Int, inDomain bool) {
		// the oracle works on the residues the native verifier would see; values
		// >= n for r or s are rejected natively (range check), the hash is reduced
		out = append(out, &ecdsaCase{Curve: c.Name, Class: class, Q: q, E: e, R: r, S: s, WantAccept: ecdsaVerifyRef(c, q, new(big.Int).Mod(e, n), r, s), InDomain: inDomain})
	}
	add := func(x *big.Int, y int64) *big.Int { return new(big.Int).Mod(new(big.Int).Add(x, bi(y)), n) }
	mk("valid", Q, e, r, s, true)
	mk("valid,s->n-s(malleable)", Q, e, r, new(big.Int).Sub(n, s), true)
	mk("valid,hash>=n(unreduced)", Q, new(big.Int).Add(eSmall, n), r2, s2, true)
	mk("valid,hash<2^k", Q, eSmall, r2, s2, true)
	mk("wrong-hash(+1)", Q, add(e, 1), r, s, true)
	mk("wrong-r(+1)", Q, e, add(r, 1), s, true)
	mk("wrong-s(+1)", Q, e, r, add(s, 1), true)
	mk("wrong-key", Q2, e, r, s, true)
	mk("r=0", Q, e, bi(0), s, true)
	mk("s=0", Q, e, r, bi(0), true)
	mk("s=n(unreduced-zero)", Q, e, r, n, true)
	mk("r=n(unreduced-zero)", Q, e, n, s, true)
	mk("r=s=0", Q, e, bi(0), bi(0), true)
	// r differs from x(R) in one bit while s is consistent with that r: the
	// group equation holds, only the final comparison can reject
	for _, bit := range []uint{0, 1, 200} {
		kk := randNonzero(rng, n)
		R := c.mul(c.G(), kk)
		rp := new(big.Int).Mod(R.X, n)
		rp.SetBit(rp, int(bit), rp.Bit(int(bit))^1)
		if rp.Sign() == 0 || rp.Cmp(n) >= 0 {
			continue
		}
		sp := new(big.Int).Mul(rp, sk)
		sp.Add(sp, e).Mul(sp, new(big.Int).ModInverse(kk, n)).Mod(sp, n)
		if sp.Sign() == 0 {
			continue
		}
		mk(fmt.Sprintf("r=x(R)-with-bit-%d-flipped,s-consistent", bit), Q, e, rp, sp, true)
	}
	// the two partial results of the verification coincide: m = r*d (mod n)
	// gives [m/s]G == [r/s]Q; the signature is genuine (crypto/ecdsa accepts it)
	for {
		kk := randNonzero(rng, n)
		R := c.mul(c.G(), kk)
		rc := new(big.Int).Mod(R.X, n)
		mc := new(big.Int).Mul(rc, sk)
		mc.Mod(mc, n)
		if rc.Sign() == 0 || mc.Sign() == 0 {
			continue
		}
		_, sc, ok := ecdsaSignRef(c, sk, mc, kk)
		if !ok {
			continue
		}
		mk("coincide:valid,m=r*d([m/s]G==[r/s]Q)", Q, mc, rc, sc, true)
		bad := new(big.Int).Set(mc)
		bad.SetBit(bad, 0, bad.Bit(0)^1)
		mk("coincide:m=r*d-with-bit-0-flipped(must-reject)", Q, bad, rc, sc, true)
		badr := new(big.Int).Set(rc)
		badr.SetBit(badr, 0, badr.Bit(0)^1)
		if badr.Sign() != 0 {
			mk("coincide:m=r*d,r-with-bit-0-flipped(must-reject)", Q, mc, badr, sc, true)
		}
		break
	}
	// public key at infinity with the classic forgery r = x(kG), s = e/k
	k := randNonzero(rng, n)
	kG := c.mul(c.G(), k)
	fr := new(big.Int).Mod(kG.X, n)
	fs := new(big.Int).Mul(e, new(big.Int).ModInverse(k, n))
	fs.Mod(fs, n)
	mk("pubkey=infinity,forged(r=x(kG),s=e/k)", winf(), e, fr, fs, true)
	mk("pubkey=infinity,random-sig", winf(), e, r, s, true)
	// public key ±G: outside JointScalarMulBase's documented domain
	var rg, sg *big.Int
	for ok := false; !ok; {
		rg, sg, ok = ecdsaSignRef(c, bi(1), e, randNonzero(rng, n))
	}
	mk("pubkey=G(valid)", c.G(), e, rg, sg, false)
	for ok := false; !ok; {
		rg, sg, ok = ecdsaSignRef(c, new(big.Int).Sub(n, bi(1)), e, randNonzero(rng, n))
	}
	mk("pubkey=-G(valid)", c.neg(c.G()), e, rg, sg, false)
	// hash = 0: u1 = 0 is outside JointScalarMulBase's documented domain
	var r0, s0 *big.Int
	for ok := false; !ok; {
		r0, s0, ok = ecdsaSignRef(c, sk, bi(0), randNonzero(rng, n))
	}
	mk("hash=0(valid)", Q, bi(0), r0, s0, false)
	mk("hash=n(unreduced-zero,valid)", Q, n, r0, s0, false)
	// u1 = ±1, u2 = ±1 style degenerate multipliers: e = s  =>  u1 = 1
	mk("wrong,hash=s(u1=1)", Q, s, r, s, true)
	// valid signature with u1 = 1: choose s first: s = e  => need r = x(G + [r/e]Q); not constructible; skipped
	return out
}

func judgeSig(r *vcore.Run, fam, key, curve, class string, want, inDomain bool, o outcome, rep map[string]any) {
	r.Eval(key, true)
	r.Count(fam+".cases."+curve, 1)
	if o.Err == "scalar-not-representable" {
		r.Inconclusive(fam + ":scalar-not-representable")
		return
	}
	if poolTrouble(r, fam, o, rep, fam) {
		return
	}
	switch {
	case want && o.Sat:
		r.Count(fam+".accepted-valid", 1)
		r.SampleClass(fam+"/accepted/"+class, map[string]any{"curve": curve, "class": class})
	case !want && !o.Sat:
		r.Count(fam+".rejected-invalid", 1)
		r.SampleClass(fam+"/rejected/"+class, map[string]any{"curve": curve, "class": class, "error": o.Err})
	case !want && o.Sat:
		r.Count(fam+".ACCEPTED-INVALID", 1)
		r.Violation(fam+"/ACCEPTS-what-the-native-verifier-rejects/"+class, fmt.Sprintf("%s gadget on %s is satisfiable for a signature the native verifier rejects: %s", fam, curve, class), rep)
	case inDomain:
		rep["error"] = o.Err
		r.Count(fam+".REJECTED-VALID", 1)
		r.Violation(fam+"/rejects-valid-signature/"+class, fmt.Sprintf("%s gadget on %s is unsatisfiable for a signature the native verifier accepts: %s: %s", fam, curve, class, o.Err), rep)
	default:
		r.Count(fam+".outside-domain.valid-but-unsatisfiable", 1)
		r.SampleClass(fam+"/outside-domain-unsat/"+class, map[string]any{"curve": curve, "class": class, "error": o.Err})
	}
}

// ---------------------------------------------------------------- EdDSA

var mimcOf = map[string]gchash.Hash{"BN254": gchash.MIMC_BN254, "BLS12-381": gchash.MIMC_BLS12_381, "Bandersnatch": gchash.MIMC_BLS12_381, "BLS12-377": gchash.MIMC_BLS12_377,
	"BW6-761": gchash.MIMC_BW6_761, "BLS24-315": gchash.MIMC_BLS24_315, "BLS24-317": gchash.MIMC_BLS24_317, "BW6-633": gchash.MIMC_BW6_633}

// eddsaHash is H(R,A,M) as gnark-crypto's EdDSA computes it (MiMC over the
// curve's base field, every element written as a full-width big-endian block).
func eddsaHash(d *tedDesc, R, A epoint, msg *big.Int) (*big.Int, error) {
	h := mimcOf[d.Name].New()
	sz := (d.c.P.BitLen() + 7) / 8
	for _, v := range []*big.Int{R.X, R.Y, A.X, A.Y, msg} {
		if _, err := h.Write(v.FillBytes(make([]byte, sz))); err != nil {
			return nil, err
		}
	}
	return new(big.Int).SetBytes(h.Sum(nil)), nil
}

// eddsaVerifyRef is gnark-crypto's verification equation on integers:
// A and R on the curve and [c][S]B == [c](R + [H]A).
func eddsaVerifyRef(d *tedDesc, A, R epoint, S, msg *big.Int) (bool, error) {
	c := d.c
	if !c.onCurve(A) || !c.onCurve(R) {
		return false, nil
	}
	H, err := eddsaHash(d, R, A, msg)
	if err != nil {
		return false, err
	}
	l, ok1 := c.mul(c.base(), S)
	l, ok2 := c.mul(l, c.Cofactor)
	ha, ok3 := c.mul(A, H)
	rr, ok4 := c.add(ha, R)
	rr, ok5 := c.mul(rr, c.Cofactor)
	if !(ok1 && ok2 && ok3 && ok4 && ok5) {
		return false, fmt.Errorf("vanishing denominator")
	}
	return c.eq(l, rr), nil
}

type eddsaCircuit struct {
	PublicKey eddsa.PublicKey
	Signature eddsa.Signature
	Message   frontend.Variable
	cfg       *tedCfg
}

func (c *eddsaCircuit) Define(api frontend.API) error {
	cv, err := twistededwards.NewEdCurve(api, c.cfg.id)
	if err != nil {
		return err
	}
	h, err := mimc.NewMiMC(api)
	if err != nil {
		return err
	}
	return eddsa.Verify(cv, c.Signature, c.Message, c.PublicKey, &h)
}

type eddsaCase struct {
	Curve      string
	Class      string
	A, R       [2]*big.Int
	S, Msg     *big.Int
	WantAccept bool
	InDomain   bool
}

func (c *eddsaCase) key() string {
	return fmt.Sprintf("eddsa|%s|%s|%v|%v|%v|%v", c.Curve, c.Class, c.A, c.R, c.S, c.Msg)
}
func (c *eddsaCase) replay() map[string]any {
	return map[string]any{"gadget": "eddsa.Verify(MiMC)", "curve": c.Curve, "class": c.Class, "A": bigStrs(c.A[:]), "R": bigStrs(c.R[:]), "S": c.S.String(), "msg": c.Msg.String(),
		"native_verifier_accepts": c.WantAccept, "engine": "test.IsSolved"}
}

func execEddsa(raw json.RawMessage) outcome {
	var c eddsaCase
	if err := json.Unmarshal(raw, &c); err != nil {
		return outcome{Err: "decode: " + err.Error()}
	}
	var d *tedDesc
	for _, x := range tedCurves() {
		if x.Name == c.Curve {
			d = x
		}
	}
	if d == nil {
		return outcome{Err: "decode: unknown curve"}
	}
	cfg := &tedCfg{id: d.ID}
	asg := &eddsaCircuit{cfg: cfg, Message: c.Msg,
		PublicKey: eddsa.PublicKey{A: twistededwards.Point{X: c.A[0], Y: c.A[1]}},
		Signature: eddsa.Signature{R: twistededwards.Point{X: c.R[0], Y: c.R[1]}, S: c.S}}
	err := test.IsSolved(&eddsaCircuit{cfg: cfg}, asg, d.c.P)
	o := outcome{Sat: err == nil}
	if err != nil {
		o.Err = firstLine(err.Error())
	}
	return o
}

func init() {
	executors["ecdsa"] = execEcdsa
	executors["eddsa"] = execEddsa
}

var _ = tedwards.BN254

func genEddsa(d *tedDesc, rng *rand.Rand) ([]*eddsaCase, error) {
	c := d.c
	ord := c.Order
	B := c.base()
	mulB := func(k *big.Int) epoint { p, _ := c.mul(B, k); return p }
	var out []*eddsaCase
	var ferr error
	mk := func(class string, A, R epoint, S, msg *big.Int) {
		w, err := eddsaVerifyRef(d, A, R, S, msg)
		if err != nil {
			ferr = err
			return
		}
		out = append(out, &eddsaCase{Curve: d.Name, Class: class, A: [2]*big.Int{A.X, A.Y}, R: [2]*big.Int{R.X, R.Y}, S: S, Msg: msg, WantAccept: w, InDomain: true})
	}
	sign := func(a *big.Int, A, R epoint, k, msg *big.Int) *big.Int {
		H, err := eddsaHash(d, R, A, msg)
		if err != nil {
			ferr = err
			return new(big.Int)
		}
		s := new(big.Int).Mul(H, a)
		s.Add(s, k)
		return s.Mod(s, ord)
	}
	a := randNonzero(rng, ord)
	A := mulB(a)
	A2 := mulB(randNonzero(rng, ord))
	msg := randBelow(rng, c.P)
	k := randNonzero(rng, ord)
	R := mulB(k)
	S := sign(a, A, R, k, msg)
	one := bi(1)
	mk("valid", A, R, S, msg)
	mk("valid,S+order(malleable)", A, R, new(big.Int).Add(S, ord), msg)
	mk("wrong-msg(+1)", A, R, S, new(big.Int).Mod(new(big.Int).Add(msg, one), c.P))
	mk("wrong-S(+1)", A, R, new(big.Int).Add(S, one), msg)
	mk("wrong-key", A2, R, S, msg)
	mk("wrong-R", A, mulB(randNonzero(rng, ord)), S, msg)
	mk("msg=0,valid", A, R, sign(a, A, R, k, bi(0)), bi(0))
	mk("S=0", A, R, bi(0), msg)
	// exceptional points
	id := c.id()
	mk("A=identity,valid(S=k)", id, R, new(big.Int).Set(k), msg)
	mk("R=identity,valid(S=H*a)", A, id, sign(a, A, id, bi(0), msg), msg)
	mk("A=identity,R=identity,S=0", id, id, bi(0), msg)
	// low-order components: cofactored verification accepts them
	var low epoint
	haveLow := false
	for i := 0; i < 40 && !haveLow; i++ {
		t, ok := c.mul(c.randCurvePoint(rng), ord)
		if ok && !c.eq(t, id) {
			low, haveLow = t, true
		}
	}
	if haveLow {
		if Rl, ok := c.add(R, low); ok {
			mk("R+low-order,valid-cofactored", A, Rl, sign(a, A, Rl, k, msg), msg)
		}
		if Al, ok := c.add(A, low); ok {
			// S computed for the prime-order part of A: [S]B - [H]A' - R = -[H]T
			mk("A+low-order,valid-cofactored", Al, R, sign(a, Al, R, k, msg), msg)
		}
		mk("A=low-order,R=identity,S=0", low, id, bi(0), msg)
	}
	return out, ferr
}
