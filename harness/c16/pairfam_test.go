//go:build verif

package c16

// Case list and verdicts of the pairing family (the per-package circuits are
// generated from pair.go.tmpl).

import (
	"fmt"
	"math/big"
	"math/rand/v2"
	"strings"

	"github.com/consensys/gnark-crypto/ecc"

	"github.com/consensys/gnark/verifharness/internal/vcore"
)

// maxPairs is the size of the point arrays of the pairing circuits.
const maxPairs = 6

type pairCfg struct {
	kind string
	n    int
}

type pairCase struct {
	Curve        string
	Kind         string
	Class        string
	N            int
	A, B         []*big.Int
	ZeroP, ZeroQ int
	Tweak        string
	Coef         int
	InDomain     bool
}

func (c *pairCase) key() string {
	return fmt.Sprintf("pair|%s|%s|%s|%v|%v|%d|%d|%s|%d", c.Curve, c.Kind, c.Class, c.A, c.B, c.ZeroP, c.ZeroQ, c.Tweak, c.Coef)
}

func (c *pairCase) replay() map[string]any {
	return map[string]any{"gadget": "pairing:" + c.Curve + "." + c.Kind, "class": c.Class, "n": c.N, "P_i=[a_i]G1": bigStrs(c.A), "Q_i=[b_i]G2": bigStrs(c.B),
		"identity_P_index": c.ZeroP, "identity_Q_index": c.ZeroQ, "tweak": c.Tweak, "perturbed_GT_coefficient": c.Coef, "engine": "test.IsSolved"}
}

type pairDesc struct {
	tag   string
	r     *big.Int
	cost  int // ms per pairing-check case, rough
	gtDeg int
}

func pairDescs() []pairDesc {
	return []pairDesc{
		{"bn254", ecc.BN254.ScalarField(), 2500, 12},
		{"bls12381", ecc.BLS12_381.ScalarField(), 4000, 12},
		{"bw6761", ecc.BW6_761.ScalarField(), 9000, 6},
		{"bls12377", ecc.BLS12_377.ScalarField(), 1500, 12},
		{"bls24315", ecc.BLS24_315.ScalarField(), 2500, 24},
	}
}

func genPair(d pairDesc, rng *rand.Rand, quick bool) []*pairCase {
	r := d.r
	rk := func() *big.Int { return randNonzero(rng, r) }
	neg := func(x *big.Int) *big.Int { return new(big.Int).Mod(new(big.Int).Neg(x), r) }
	mul := func(x, y *big.Int) *big.Int { return new(big.Int).Mod(new(big.Int).Mul(x, y), r) }
	var out []*pairCase
	mk := func(kind, class string, n int, a, b []*big.Int, zp, zq int, tweak string, coef int, in bool) {
		out = append(out, &pairCase{Curve: d.tag, Kind: kind, Class: class, N: n, A: a, B: b, ZeroP: zp, ZeroQ: zq, Tweak: tweak, Coef: coef, InDomain: in})
	}
	a, b := rk(), rk()
	one := big.NewInt(1)
	// e([a]G1,[b]G2) * e([-ab]G1, G2) = 1
	mk("check", "n=2,product=1", 2, []*big.Int{a, neg(mul(a, b))}, []*big.Int{b, one}, -1, -1, "", -1, true)
	mk("check", "n=2,product!=1", 2, []*big.Int{a, neg(new(big.Int).Add(mul(a, b), one))}, []*big.Int{b, one}, -1, -1, "", -1, true)
	if true {
		c, e := rk(), rk()
		// ab + ce + x*1 = 0
		mk("check", "n=3,product=1", 3, []*big.Int{a, c, neg(new(big.Int).Add(mul(a, b), mul(c, e)))}, []*big.Int{b, e, one}, -1, -1, "", -1, true)
		mk("check", "n=1,product!=1", 1, []*big.Int{a}, []*big.Int{b}, -1, -1, "", -1, true)
		mk("check", "n=2,P1=-P0,Q1=Q0,product=1", 2, []*big.Int{a, neg(a)}, []*big.Int{b, b}, -1, -1, "", -1, true)
		mk("check", "n=2,P1=P0,Q1=-Q0,product=1", 2, []*big.Int{a, a}, []*big.Int{b, neg(b)}, -1, -1, "", -1, true)
	}
	// multi-pairings with more pairs than the hand-unrolled first iterations cover
	for _, n := range []int{4, 5, 6} {
		if n == 6 && quick {
			continue
		}
		// emulated multi-pairings cost ≈ n × (20 s BN254, 55 s BLS12-381, 120 s
		// BW6-761) in the test engine under load: BN254 runs n = 4, 5, 6 in full,
		// BLS12-381 n = 4, 5, BW6-761 n = 4 without the separate MillerLoop case
		if d.tag == "bw6761" && n > 4 || d.tag == "bls12381" && n > 5 {
			continue
		}
		slim := d.tag == "bw6761" || (d.tag == "bls12381" && n == 5)
		as := make([]*big.Int, n)
		bs := make([]*big.Int, n)
		acc := new(big.Int)
		for i := 0; i < n-1; i++ {
			as[i], bs[i] = rk(), rk()
			acc.Add(acc, mul(as[i], bs[i]))
		}
		bs[n-1] = one
		as[n-1] = neg(acc)
		cp := func(x []*big.Int) []*big.Int { return append([]*big.Int{}, x...) }
		mk("check", fmt.Sprintf("n=%d,product=1", n), n, cp(as), cp(bs), -1, -1, "", -1, true)
		wrong := cp(as)
		wrong[n-1] = neg(new(big.Int).Add(acc, one))
		mk("check", fmt.Sprintf("n=%d,product!=1", n), n, wrong, cp(bs), -1, -1, "", -1, true)
		ra, rb := make([]*big.Int, n), make([]*big.Int, n)
		for i := range ra {
			ra[i], rb[i] = rk(), rk()
		}
		mk("pair", fmt.Sprintf("n=%d,expected=native", n), n, ra, rb, -1, -1, "", -1, true)
		if !slim {
			mk("mlfe", fmt.Sprintf("n=%d,MillerLoop+FinalExponentiation=native-Pair", n), n, ra, rb, -1, -1, "", -1, true)
		}
		if n == 4 && !slim {
			mk("pair", "n=4,expected=wrong", n, ra, rb, -1, -1, "wrong-expected", -1, true)
		}
	}
	mk("mlfe", "n=2,MillerLoop+FinalExponentiation=native-Pair", 2, []*big.Int{a, rk()}, []*big.Int{b, rk()}, -1, -1, "", -1, true)
	if !quick {
		// an unsatisfiable execution must not change the verdict of the next one
		// in the same process (package-level circuit elements keep caches)
		mk("sequence", "failed-execution-then-correct-pair(n=1)", 1, []*big.Int{a}, []*big.Int{b}, -1, -1, "", -1, true)
	}
	// identity inputs: the packages document no support for them
	mk("check", "n=1,P0=identity(product=1)", 1, []*big.Int{a}, []*big.Int{b}, 0, -1, "", -1, false)
	mk("check", "n=2,P0=identity(product!=1)", 2, []*big.Int{a, a}, []*big.Int{b, one}, 0, -1, "", -1, false)
	mk("check", "n=2,Q0=identity(product!=1)", 2, []*big.Int{a, a}, []*big.Int{b, one}, -1, 0, "", -1, false)
	mk("pair", "n=1,expected=native", 1, []*big.Int{a}, []*big.Int{b}, -1, -1, "", -1, true)
	mk("pair", "n=1,expected=wrong", 1, []*big.Int{a}, []*big.Int{b}, -1, -1, "wrong-expected", -1, true)
	if !quick {
		mk("pair", "n=2,expected=native", 2, []*big.Int{a, rk()}, []*big.Int{b, rk()}, -1, -1, "", -1, true)
	}
	// target-group equality test
	mk("isequal", "x==x", 0, []*big.Int{a}, []*big.Int{one}, -1, -1, "", -1, true)
	for i := 0; i < d.gtDeg; i++ {
		mk("isequal", fmt.Sprintf("x-vs-x-with-one-coefficient-changed(#%d)", i), 0, []*big.Int{a}, []*big.Int{one}, -1, -1, "", i, true)
	}
	mk("ong1", "subgroup-point", 0, []*big.Int{a}, []*big.Int{one}, -1, -1, "", -1, true)
	mk("ong1", "off-curve(x<->y)", 0, []*big.Int{a}, []*big.Int{one}, -1, -1, "swapxy", -1, true)
	mk("ong2", "subgroup-point", 0, []*big.Int{one}, []*big.Int{b}, -1, -1, "", -1, true)
	mk("ong2", "off-curve(x<->y)", 0, []*big.Int{one}, []*big.Int{b}, -1, -1, "swapxy", -1, true)
	if quick {
		// the in-circuit pairings dominate the cost: the quick tier keeps a fixed
		// subset per package (everything on BN254 and on the native 2-chain
		// BLS12-377, the two-pair checks elsewhere)
		keep := map[string]map[string]bool{
			"bn254":    {"check:n=2,product=1": true, "check:n=2,product!=1": true, "check:n=3,product=1": true, "check:n=1,P0=identity(product=1)": true, "pair:n=1,expected=native": true, "ong2:subgroup-point": true, "ong2:off-curve(x<->y)": true, "ong1:off-curve(x<->y)": true, "ong1:subgroup-point": true},
			"bls12381": {"check:n=2,product=1": true, "check:n=2,product!=1": true, "ong1:off-curve(x<->y)": true},
			"bw6761":   {"ong1:off-curve(x<->y)": true, "ong1:subgroup-point": true},
			"bls24315": {"check:n=2,product=1": true, "check:n=2,product!=1": true, "pair:n=1,expected=native": true, "check:n=1,P0=identity(product=1)": true,
				"check:n=3,product=1": true, "check:n=4,product=1": true, "check:n=4,product!=1": true, "check:n=5,product=1": true, "check:n=5,product!=1": true,
				"pair:n=4,expected=native": true, "pair:n=5,expected=native": true, "pair:n=4,expected=wrong": true,
				"mlfe:n=4,MillerLoop+FinalExponentiation=native-Pair": true, "mlfe:n=5,MillerLoop+FinalExponentiation=native-Pair": true, "mlfe:n=2,MillerLoop+FinalExponentiation=native-Pair": true},
		}
		if k, ok := keep[d.tag]; ok {
			var sel []*pairCase
			nIs := 0
			for _, c := range out {
				if c.Kind == "isequal" {
					if nIs < 3 || d.tag == "bn254" {
						sel = append(sel, c)
					}
					nIs++
					continue
				}
				if k[c.Kind+":"+c.Class] {
					sel = append(sel, c)
				}
			}
			out = sel
		}
	}
	return out
}

func pairCost(d pairDesc, c *pairCase) int {
	switch c.Kind {
	case "sequence":
		return d.cost * 2
	case "check", "pair", "mlfe":
		n := c.N
		if n < 1 {
			n = 1
		}
		return d.cost * (1 + n) / 2
	case "ong2", "ong1":
		return d.cost / 3
	}
	return 20
}

func judgePair(r *vcore.Run, c *pairCase, o outcome) {
	fam := "pairing." + c.Curve + "." + c.Kind
	r.Eval(c.key(), true)
	r.Count("pair.cases."+c.Curve, 1)
	r.Count("pair.kind."+c.Kind, 1)
	if len(o.Err) >= 5 && o.Err[:5] == "skip:" {
		r.Count("pair.skipped-not-applicable", 1)
		return
	}
	if poolTrouble(r, "pair", o, c.replay(), fam) {
		return
	}
	want := o.Vals["want"] == "true"
	rep := c.replay()
	rep["native_says_satisfiable"] = want
	rep["note"] = o.Vals["note"]
	rep["error"] = o.Err
	if (c.Kind == "ong1" || c.Kind == "ong2") && strings.Contains(o.Err, "not implemented") {
		// sw_bls24315 declares these methods but panics("not implemented"): not offered
		r.Count("pair.skipped-method-not-implemented", 1)
		return
	}
	if c.Kind == "sequence" {
		if o.Sat {
			r.Count("pair.sequence.second-execution-unaffected", 1)
			return
		}
		r.Count("pair.sequence.SECOND-EXECUTION-REJECTED", 1)
		r.Violation("pairing."+c.Curve+".pair/correct-equation-rejected-after-a-failed-execution-in-the-same-process",
			fmt.Sprintf("%s: Pair(P,Q)==e(P,Q) is unsatisfiable when the same process executed an unsatisfiable pairing circuit before (%s); in a fresh process the same case is satisfiable: package-level circuit state leaks between executions: %s", fam, o.Vals["note"], o.Err), rep)
		return
	}
	if c.Kind == "isequal" && !o.Sat && strings.Contains(o.Err, "not supported") {
		// the gadget hands *frontend.Variable to the API: it cannot be executed at all
		r.Count("pair.isequal.NOT-EXECUTABLE", 1)
		r.Violation(fam+"/gadget-cannot-be-executed(passes-pointers-to-the-API)", fmt.Sprintf("%s: Pairing.IsEqual fails before computing anything: %s", fam, o.Err), rep)
		return
	}
	if c.Kind == "isequal" && !o.Sat {
		// the assignment carries the right boolean; unsatisfiable means the gadget computed the other one
		r.Count("pair.isequal.WRONG-BOOLEAN", 1)
		what := "reports-different-for-equal-elements"
		if o.Vals["note"] == "different" {
			what = "reports-equal-for-different-elements"
		}
		r.Violation(fam+"/"+what, fmt.Sprintf("%s: IsEqual(x,y) != [x==y] for %s", fam, c.Class), rep)
		return
	}
	switch {
	case o.Sat == want:
		if want {
			r.Count("pair.accepted-as-native", 1)
		} else {
			r.Count("pair.rejected-as-native", 1)
		}
		if c.Kind == "isequal" {
			r.Count("pair.isequal.boolean-matches."+o.Vals["note"], 1)
		}
		if !c.InDomain {
			r.Count("pair.outside-domain.agrees-with-native", 1)
		}
		r.SampleClass("pair/"+c.Curve+"/"+c.Kind+"/"+fmt.Sprint(want), map[string]any{"class": c.Class, "satisfiable": o.Sat})
	case o.Sat && !want:
		r.Count("pair.ACCEPTED-what-native-rejects", 1)
		cls := c.Class
		if c.Kind == "isequal" {
			cls = "reports-equal-for-different-elements"
		}
		r.Violation(fam+"/ACCEPTS-what-the-native-library-rejects/"+cls, fmt.Sprintf("%s is satisfiable although the native computation says otherwise: %s", fam, c.Class), rep)
	case c.InDomain:
		r.Count("pair.REJECTED-what-native-accepts", 1)
		r.Violation(fam+"/rejects-what-the-native-library-accepts/"+c.Class, fmt.Sprintf("%s is unsatisfiable although the native computation accepts: %s: %s", fam, c.Class, o.Err), rep)
	default:
		r.Count("pair.outside-domain.unsatisfiable", 1)
		r.SampleClass("pair/"+c.Curve+"/"+c.Kind+"/outside-domain-unsat", map[string]any{"class": c.Class, "error": o.Err})
	}
}
