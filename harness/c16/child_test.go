//go:build verif

package c16

// Child-process execution of test-engine cases.  gnark's test engine keeps
// unsynchronised package-level counters, a hint may never return (observed:
// sw_emulated.halfGCDEisenstein), and a fatal error cannot be recovered — so
// every test-engine case runs in a worker process that the parent can kill.
// Protocol: parent writes one JSON line {"f":family,"d":case} to the worker's
// stdin; the worker answers with one line "C16OUT <json outcome>".

import (
	"bufio"
	"encoding/json"
	"fmt"
	"io"
	"os"
	"os/exec"
	"strings"
	"sync"
	"time"

	"github.com/consensys/gnark/logger"

	"github.com/consensys/gnark/verifharness/internal/vcore"
)

type caseMsg struct {
	F string          `json:"f"`
	D json.RawMessage `json:"d"`
}

// outcome is what a worker reports about one case.
type outcome struct {
	Sat     bool              `json:"sat"`
	Correct bool              `json:"correct"`
	Got     []string          `json:"got,omitempty"`
	Err     string            `json:"err,omitempty"`
	Done    []int             `json:"done,omitempty"` // hint screen: indices that returned
	Vals    map[string]string `json:"vals,omitempty"`
	Panic   string            `json:"panic,omitempty"`
	Ms      int64             `json:"ms"`
	// set by the parent
	Hang  bool   `json:"-"`
	Crash string `json:"-"`
}

// executors maps a family name to the worker-side function.
var executors = map[string]func(d json.RawMessage) outcome{}

const outPrefix = "C16OUT "

// childMain is the worker loop.
func childMain() {
	logger.Disable()
	in := bufio.NewReaderSize(os.Stdin, 1<<20)
	out := bufio.NewWriter(os.Stdout)
	for {
		line, err := in.ReadBytes('\n')
		if len(line) > 1 {
			var m caseMsg
			var o outcome
			if jerr := json.Unmarshal(line, &m); jerr != nil {
				o.Err = "worker: bad message: " + jerr.Error()
			} else if ex := executors[m.F]; ex == nil {
				o.Err = "worker: unknown family " + m.F
			} else {
				t0 := time.Now()
				if p, st := vcore.Catch(func() { o = ex(m.D) }); p != nil {
					o = outcome{Panic: fmt.Sprintf("%v\n%s", p, st)}
				}
				o.Ms = time.Since(t0).Milliseconds()
			}
			b, _ := json.Marshal(o)
			out.WriteString(outPrefix)
			out.Write(b)
			out.WriteByte('\n')
			out.Flush()
		}
		if err != nil {
			break
		}
	}
	os.Exit(0)
}

// task is one case handed to the pool.
type task struct {
	fam      string
	data     any
	cost     int           // rough ms, longest first
	watchdog time.Duration // 0 = default
	done     func(o outcome)
}

type worker struct {
	cmd   *exec.Cmd
	stdin io.WriteCloser
	lines chan string
	errb  *tailBuf
}

type tailBuf struct {
	mu sync.Mutex
	b  []byte
}

func (t *tailBuf) Write(p []byte) (int, error) {
	t.mu.Lock()
	t.b = append(t.b, p...)
	if len(t.b) > 6000 {
		t.b = t.b[len(t.b)-6000:]
	}
	t.mu.Unlock()
	return len(p), nil
}
func (t *tailBuf) String() string { t.mu.Lock(); defer t.mu.Unlock(); return string(t.b) }

func startWorker() (*worker, error) {
	cmd := exec.Command(os.Args[0], "-test.run=^TestC16$", "-test.timeout=0", "-test.count=1")
	cmd.Env = append(os.Environ(), "VERIF_C16_CHILD=1", "GOMAXPROCS=2")
	stdin, err := cmd.StdinPipe()
	if err != nil {
		return nil, err
	}
	stdout, err := cmd.StdoutPipe()
	if err != nil {
		return nil, err
	}
	w := &worker{cmd: cmd, stdin: stdin, lines: make(chan string, 4), errb: &tailBuf{}}
	cmd.Stderr = w.errb
	if err := cmd.Start(); err != nil {
		return nil, err
	}
	go func() {
		sc := bufio.NewScanner(stdout)
		sc.Buffer(make([]byte, 1<<20), 1<<26)
		for sc.Scan() {
			l := sc.Text()
			if strings.HasPrefix(l, outPrefix) {
				w.lines <- l[len(outPrefix):]
			} else {
				w.errb.Write([]byte(l + "\n"))
			}
		}
		close(w.lines)
	}()
	return w, nil
}

func (w *worker) kill() {
	if w == nil {
		return
	}
	w.stdin.Close()
	_ = w.cmd.Process.Kill()
	_ = w.cmd.Wait()
}

// runPool executes the tasks on n worker processes; done callbacks run in the
// parent. A worker that does not answer within the watchdog is killed and the
// case reported with Hang=true; a worker that dies reports Crash.
func runPool(r *vcore.Run, tasks []task, n int, defWatchdog time.Duration) {
	// A case that exceeds the default watchdog is not reported at once: the
	// margin over the normal duration of the slowest cases (in-circuit BW6-761
	// pairing: 2 minutes on a busy machine) is small and the expiry depends on
	// the load of the machine (seen once: load average 160, 16 cores).  Such
	// cases run a second time when the pool has drained, with four times the
	// watchdog; only a second expiry is reported as non-termination.  Cases with
	// their own (short) watchdog are the ones expected to hang and are final.
	var retryMu sync.Mutex
	var retry []task
	runPoolOnce(r, tasks, n, defWatchdog, func(t task) bool {
		if t.watchdog != 0 {
			return false
		}
		retryMu.Lock()
		defer retryMu.Unlock()
		t.watchdog = 4 * defWatchdog
		retry = append(retry, t)
		cnt(r, "pool.watchdog-expired-once(case-repeated-with-4x-watchdog)")
		return true
	})
	if len(retry) > 0 {
		runPoolOnce(r, retry, n, defWatchdog, func(task) bool { return false })
	}
}

// runPoolOnce: see runPool; deferHang may take over a case whose watchdog expired.
func runPoolOnce(r *vcore.Run, tasks []task, n int, defWatchdog time.Duration, deferHang func(task) bool) {
	// longest first
	for i := 1; i < len(tasks); i++ {
		for j := i; j > 0 && tasks[j].cost > tasks[j-1].cost; j-- {
			tasks[j], tasks[j-1] = tasks[j-1], tasks[j]
		}
	}
	ch := make(chan task)
	var wg sync.WaitGroup
	for i := 0; i < n; i++ {
		wg.Add(1)
		go func() {
			defer wg.Done()
			var w *worker
			defer func() { w.kill() }()
			for t := range ch {
				if w == nil {
					var err error
					if w, err = startWorker(); err != nil {
						cnt(r, "pool.worker-start-failed")
						t.done(outcome{Crash: "cannot start worker: " + err.Error()})
						w = nil
						continue
					}
					cnt(r, "pool.workers-started")
				}
				b, err := json.Marshal(t.data)
				if err != nil {
					t.done(outcome{Crash: "marshal: " + err.Error()})
					continue
				}
				mb, _ := json.Marshal(caseMsg{F: t.fam, D: b})
				if _, err := w.stdin.Write(append(mb, '\n')); err != nil {
					tail := w.errb.String()
					w.kill()
					w = nil
					t.done(outcome{Crash: "worker died before the case: " + err.Error() + "\n" + tail})
					continue
				}
				wd := t.watchdog
				if wd == 0 {
					wd = defWatchdog
				}
				select {
				case l, ok := <-w.lines:
					if !ok {
						tail := w.errb.String()
						w.kill()
						w = nil
						t.done(outcome{Crash: "worker died during the case\n" + tail})
						continue
					}
					var o outcome
					if err := json.Unmarshal([]byte(l), &o); err != nil {
						o = outcome{Crash: "bad worker answer: " + err.Error()}
					}
					if r != nil {
						f := t.fam
						if i := strings.IndexByte(f, '/'); i > 0 && !strings.HasPrefix(f, "pair/") {
							f = f[:i]
						}
						r.Count("pool.worker-ms."+f, int(o.Ms))
					}
					t.done(o)
					if (!o.Sat || strings.HasPrefix(o.Vals["note"], "first execution")) && (strings.HasPrefix(t.fam, "pair/") || t.fam == "ecpair") {
						// a failed execution leaves package-level circuit state
						// behind (sw_bw6761.thirdRootOne caches its evaluation at the
						// previous run's challenge): the next pairing case in this
						// process would be rejected for that reason alone
						w.kill()
						w = nil
						cnt(r, "pool.worker-retired-after-unsatisfiable-pairing-case")
					}
				case <-time.After(wd):
					w.kill()
					w = nil
					cnt(r, "pool.watchdog-kills")
					if deferHang(t) {
						continue
					}
					t.done(outcome{Hang: true, Err: fmt.Sprintf("no answer within %s", wd)})
				}
			}
		}()
	}
	for _, t := range tasks {
		ch <- t
	}
	close(ch)
	wg.Wait()
}

func cnt(r *vcore.Run, name string) {
	if r != nil {
		r.Count(name, 1)
	}
}
