//go:build verif

package c16

// Emulated short-Weierstrass gadgets (std/algebra/emulated/sw_emulated).

import (
	"errors"
	"fmt"
	"math/big"

	"github.com/consensys/gnark/constraint/solver"
	"github.com/consensys/gnark/frontend"
	"github.com/consensys/gnark/std/algebra/algopts"
	"github.com/consensys/gnark/std/algebra/emulated/sw_emulated"
	"github.com/consensys/gnark/std/evmprecompiles"
	"github.com/consensys/gnark/std/math/emulated"
)

func init() {
	solver.RegisterHint(captureHint)
}

// captureHint is the compiled-circuit placeholder of the capture point: the
// adversarial runs replace it per Solve call with a closure
// (solver.OverrideHint) that records the values the solver computed.
func captureHint(_ *big.Int, in, out []*big.Int) error {
	out[0].SetUint64(0)
	return nil
}

// sink receives the limb values of a result inside Define (test engine: the
// closure is called directly by the engine's NewHint; compiled: via override).
type sink struct {
	bitsPerLimb uint
	mod         *big.Int
	got         [][2]*big.Int // captured (x,y) per capture point, reduced mod p
	calls       int
}

func (s *sink) hint() solver.Hint {
	return func(_ *big.Int, in, out []*big.Int) error {
		s.calls++
		n := int(in[0].Int64())
		x := recompose(in[1:1+n], s.bitsPerLimb)
		y := recompose(in[1+n:], s.bitsPerLimb)
		if s.mod != nil {
			x.Mod(x, s.mod)
			y.Mod(y, s.mod)
		}
		s.got = append(s.got, [2]*big.Int{x, y})
		out[0].SetUint64(0)
		return nil
	}
}

func recompose(limbs []*big.Int, w uint) *big.Int {
	r := new(big.Int)
	for i := len(limbs) - 1; i >= 0; i-- {
		r.Lsh(r, w)
		r.Add(r, limbs[i])
	}
	return r
}

type emuCfg struct {
	op       string
	complete bool
	n        int   // number of points/scalars for msm
	sink     *sink // nil when compiling (placeholder hint is used)
}

const maxMSM = 4

// emuCircuit runs one sw_emulated method and hands the result to the sink.
type emuCircuit[B, S emulated.FieldParams] struct {
	P   [maxMSM]sw_emulated.AffinePoint[B]
	K   [maxMSM]emulated.Element[S]
	cfg *emuCfg
}

func capturePoint[B emulated.FieldParams](api frontend.API, cfg *emuCfg, x, y *emulated.Element[B]) error {
	in := []frontend.Variable{len(x.Limbs)}
	in = append(in, x.Limbs...)
	in = append(in, y.Limbs...)
	h := solver.Hint(captureHint)
	if cfg.sink != nil {
		h = cfg.sink.hint()
	}
	_, err := api.Compiler().NewHint(h, 1, in...)
	return err
}

func (c *emuCircuit[B, S]) Define(api frontend.API) error {
	cr, err := sw_emulated.New[B, S](api, sw_emulated.GetCurveParams[B]())
	if err != nil {
		return err
	}
	var opts []algopts.AlgebraOption
	if c.cfg.complete {
		opts = append(opts, algopts.WithCompleteArithmetic())
	}
	var res *sw_emulated.AffinePoint[B]
	switch c.cfg.op {
	case "AddUnified":
		res = cr.AddUnified(&c.P[0], &c.P[1])
	case "Add":
		res = cr.Add(&c.P[0], &c.P[1])
	case "Neg":
		res = cr.Neg(&c.P[0])
	case "ScalarMul":
		res = cr.ScalarMul(&c.P[0], &c.K[0], opts...)
	case "ScalarMulBase":
		res = cr.ScalarMulBase(&c.K[0], opts...)
	case "JointScalarMulBase":
		// [K1]G + [K0]P0
		res = cr.JointScalarMulBase(&c.P[0], &c.K[0], &c.K[1], opts...)
	case "MultiScalarMul":
		ps := make([]*sw_emulated.AffinePoint[B], c.cfg.n)
		ks := make([]*emulated.Element[S], c.cfg.n)
		for i := range ps {
			ps[i] = &c.P[i]
			ks[i] = &c.K[i]
		}
		res, err = cr.MultiScalarMul(ps, ks, opts...)
		if err != nil {
			return err
		}
	case "MultiScalarMulFold":
		ps := make([]*sw_emulated.AffinePoint[B], c.cfg.n)
		for i := range ps {
			ps[i] = &c.P[i]
		}
		res, err = cr.MultiScalarMul(ps, []*emulated.Element[S]{&c.K[0]}, append(opts, algopts.WithFoldingScalarMul())...)
		if err != nil {
			return err
		}
	case "AssertIsOnCurve":
		cr.AssertIsOnCurve(&c.P[0])
		res = &c.P[0]
	case "ECAdd", "ECMul":
		// the EVM precompile wrappers (BN254 only)
		p0, ok0 := any(&c.P[0]).(*sw_emulated.AffinePoint[emulated.BN254Fp])
		p1, ok1 := any(&c.P[1]).(*sw_emulated.AffinePoint[emulated.BN254Fp])
		k0, ok2 := any(&c.K[0]).(*emulated.Element[emulated.BN254Fr])
		if !ok0 || !ok1 || !ok2 {
			return errors.New("ECAdd/ECMul are BN254 gadgets")
		}
		var rr *sw_emulated.AffinePoint[emulated.BN254Fp]
		if c.cfg.op == "ECAdd" {
			rr = evmprecompiles.ECAdd(api, p0, p1)
		} else {
			rr = evmprecompiles.ECMul(api, p0, k0)
		}
		res = any(rr).(*sw_emulated.AffinePoint[B])
	default:
		return errors.New("unknown op " + c.cfg.op)
	}
	return capturePoint[B](api, c.cfg, &res.X, &res.Y)
}

// scalarElem builds a witness element from an integer that may exceed the
// modulus: the limbs are the plain base-2^w digits (a representation every
// caller can supply, since witness elements are only width-checked per limb).
// ok=false when the value does not fit the limbs.
func scalarElem[S emulated.FieldParams](v *big.Int) (emulated.Element[S], bool) {
	return scalarElemW[S](v, false)
}

// scalarElemW: with allowWide the value may use all the bits of the limbs.  Such
// a value is not an element of the type (see below); it is only built for the
// cases that are executed without a verdict (emuCase.Wide).
func scalarElemW[S emulated.FieldParams](v *big.Int, allowWide bool) (emulated.Element[S], bool) {
	var fp S
	w := fp.BitsPerLimb()
	n := int(fp.NbLimbs())
	// emulated.Field range-checks a witness element to the width of the modulus
	// (top limb: ((bits(modulus)-1) mod w)+1 bits, enforceWidth(a, true)); the
	// test engine only looks at the width of the single limbs, so a wider value
	// would be an input that no compiled circuit accepts
	if v.Sign() < 0 || v.BitLen() > n*int(w) || (!allowWide && v.BitLen() > fp.Modulus().BitLen()) {
		return emulated.Element[S]{}, false
	}
	mask := new(big.Int).Sub(new(big.Int).Lsh(big.NewInt(1), w), big.NewInt(1))
	t := new(big.Int).Set(v)
	limbs := make([]frontend.Variable, n)
	for i := 0; i < n; i++ {
		limbs[i] = new(big.Int).And(t, mask)
		t.Rsh(t, w)
	}
	return emulated.Element[S]{Limbs: limbs}, true
}

func pointElem[B emulated.FieldParams](p wpt) sw_emulated.AffinePoint[B] {
	x, y := p.xy()
	return sw_emulated.AffinePoint[B]{X: emulated.ValueOf[B](x), Y: emulated.ValueOf[B](y)}
}

// emuCase is one executed case of the emulated family.
type emuCase struct {
	Pkg      string
	Curve    string
	Op       string
	Complete bool
	Pts      []wpt
	Ks       []*big.Int
	Class    string // input class label (for counters and samples)
	InDomain bool   // documented domain => must be satisfiable and correct
	Wide     bool   // a scalar is wider than the modulus: not an element of the type, executed without verdict
	Want     wpt    // oracle result (for AssertIsOnCurve: unused)
	WantSat  bool   // for predicate ops
	Native   *big.Int
}

func (c *emuCase) key() string {
	s := fmt.Sprintf("%s|%s|%v|%s", c.Curve, c.Op, c.Complete, c.Class)
	for _, p := range c.Pts {
		s += "|" + p.String()
	}
	for _, k := range c.Ks {
		s += "|" + k.String()
	}
	return s
}

func (c *emuCase) replay() map[string]any {
	pts := make([]string, len(c.Pts))
	for i, p := range c.Pts {
		pts[i] = p.String()
	}
	ks := make([]string, len(c.Ks))
	for i, k := range c.Ks {
		ks[i] = k.String()
	}
	return map[string]any{"gadget": c.Pkg + "." + c.Op, "curve": c.Curve, "complete_arithmetic": c.Complete,
		"class": c.Class, "points": pts, "scalars": ks, "oracle": c.Want.String(), "in_documented_domain": c.InDomain,
		"native_field": c.Native.String(), "engine": "test.IsSolved"}
}

// buildEmu returns (placeholder circuit, assignment, sink) for a case.
func buildEmu[B, S emulated.FieldParams](c *emuCase, withSink bool) (frontend.Circuit, frontend.Circuit, *sink, bool) {
	var fp B
	cfg := &emuCfg{op: c.Op, complete: c.Complete, n: len(c.Pts)}
	var sk *sink
	if withSink {
		sk = &sink{bitsPerLimb: fp.BitsPerLimb(), mod: fp.Modulus()}
		cfg.sink = sk
	}
	circ := &emuCircuit[B, S]{cfg: cfg}
	asg := &emuCircuit[B, S]{cfg: cfg}
	for i := 0; i < maxMSM; i++ {
		p := winf()
		if i < len(c.Pts) {
			p = c.Pts[i]
		}
		asg.P[i] = pointElem[B](p)
		k := new(big.Int)
		if i < len(c.Ks) {
			k = c.Ks[i]
		}
		e, ok := scalarElemW[S](k, c.Wide)
		if !ok {
			return nil, nil, nil, false
		}
		asg.K[i] = e
	}
	return circ, asg, sk, true
}
