//go:build verif

package c16

// Cross-check of the big.Int oracle against gnark-crypto / crypto/elliptic:
// an oracle error must surface here as a broken check, never as a verdict.

import (
	"crypto/elliptic"
	"fmt"
	"math/big"

	bls12381 "github.com/consensys/gnark-crypto/ecc/bls12-381"
	"github.com/consensys/gnark-crypto/ecc/bn254"
	bw6761 "github.com/consensys/gnark-crypto/ecc/bw6-761"
	"github.com/consensys/gnark-crypto/ecc/secp256k1"

	"github.com/consensys/gnark/verifharness/internal/vcore"
)

func selfCheck(r *vcore.Run) {
	rng := r.Rand("selfcheck")
	bad := func(what string) {
		r.T.Errorf("BROKEN-CHECK property=C16: oracle self-check failed: %s", what)
	}
	for _, d := range emuCurves() {
		c := d.c
		if !c.onCurve(c.G()) {
			bad(c.Name + ": generator not on curve")
		}
		if !c.mul(c.G(), c.R).Inf {
			bad(c.Name + ": [r]G != inf")
		}
		for i := 0; i < 3; i++ {
			k := randNonzero(rng, c.R)
			k2 := randNonzero(rng, c.R)
			got := c.add(c.mul(c.G(), k), c.mul(c.G(), k2))
			var wx, wy big.Int
			switch c.Name {
			case "secp256k1":
				_, g := secp256k1.Generators()
				var a, b secp256k1.G1Affine
				a.ScalarMultiplication(&g, k)
				b.ScalarMultiplication(&g, k2)
				a.Add(&a, &b)
				a.X.BigInt(&wx)
				a.Y.BigInt(&wy)
			case "BN254":
				_, _, g, _ := bn254.Generators()
				var a, b bn254.G1Affine
				a.ScalarMultiplication(&g, k)
				b.ScalarMultiplication(&g, k2)
				a.Add(&a, &b)
				a.X.BigInt(&wx)
				a.Y.BigInt(&wy)
			case "BLS12-381":
				_, _, g, _ := bls12381.Generators()
				var a, b bls12381.G1Affine
				a.ScalarMultiplication(&g, k)
				b.ScalarMultiplication(&g, k2)
				a.Add(&a, &b)
				a.X.BigInt(&wx)
				a.Y.BigInt(&wy)
			case "BW6-761":
				_, _, g, _ := bw6761.Generators()
				var a, b bw6761.G1Affine
				a.ScalarMultiplication(&g, k)
				b.ScalarMultiplication(&g, k2)
				a.Add(&a, &b)
				a.X.BigInt(&wx)
				a.Y.BigInt(&wy)
			case "P-256", "P-384":
				cv := elliptic.P256()
				if c.Name == "P-384" {
					cv = elliptic.P384()
				}
				ax, ay := cv.ScalarBaseMult(k.Bytes())
				bx, by := cv.ScalarBaseMult(k2.Bytes())
				x, y := cv.Add(ax, ay, bx, by)
				wx.Set(x)
				wy.Set(y)
			default:
				continue
			}
			if got.Inf || got.X.Cmp(&wx) != 0 || got.Y.Cmp(&wy) != 0 {
				bad(fmt.Sprintf("%s: [k]G+[k2]G differs from the reference library (k=%s k2=%s)", c.Name, k, k2))
			}
			r.Count("selfcheck.oracle-vs-reference-library.agree", 1)
		}
	}
}
