//go:build verif

// C03 — Every satisfying assignment yields a proof that verifies (completeness),
// and a non-satisfying one makes Prove return an error (no proof, no panic, no hang).
// Reference-model monitor around the real Setup / Prove / Verify, one child
// process per (curve, back-end) so that a panic inside one of the provers'
// goroutines or a hang is observed instead of killing the monitor.
package c03

import (
	"crypto/sha256"
	"fmt"
	"hash"
	"math/big"
	"math/rand/v2"
	"os"
	"strings"
	"testing"
	"time"

	"github.com/consensys/gnark-crypto/ecc"
	gchash "github.com/consensys/gnark-crypto/hash"
	"github.com/consensys/gnark/backend"
	"github.com/consensys/gnark/backend/groth16"
	"github.com/consensys/gnark/backend/plonk"
	"github.com/consensys/gnark/backend/witness"
	"github.com/consensys/gnark/constraint"
	"github.com/consensys/gnark/constraint/solver"
	"github.com/consensys/gnark/frontend"
	"github.com/consensys/gnark/frontend/cs/r1cs"
	"github.com/consensys/gnark/frontend/cs/scs"
	"github.com/consensys/gnark/test/unsafekzg"
	"golang.org/x/crypto/sha3"

	"github.com/consensys/gnark/verifharness/internal/c06mon"
	"github.com/consensys/gnark/verifharness/internal/circuits"
	"github.com/consensys/gnark/verifharness/internal/progs"
	"github.com/consensys/gnark/verifharness/internal/scen"
	"github.com/consensys/gnark/verifharness/internal/vcore"
)

var allCurves = []ecc.ID{ecc.BN254, ecc.BLS12_377, ecc.BW6_761, ecc.BLS12_381, ecc.BLS24_315, ecc.BLS24_317, ecc.BW6_633}

func TestC03(t *testing.T) {
	if vcore.IsChild() {
		t.Skip("child mode")
	}
	r := vcore.Start(t, "C03")
	cvs := allCurves // both tiers: every curve's back-end is a separate generated copy
	type batch struct {
		c       ecc.ID
		backend string
	}
	var bs []batch
	for _, c := range cvs {
		bs = append(bs, batch{c, "groth16"}, batch{c, "plonk"})
	}
	vcore.Parallel(len(bs), 6, func(i int) {
		b := bs[i]
		tag := b.c.String() + "-" + b.backend
		res := r.RunChild("TestC03Child", tag, []string{"VERIF_C03_CURVE=" + b.c.String(), "VERIF_C03_BACKEND=" + b.backend}, 20*time.Minute)
		if res.OK {
			r.Count("children.completed", 1)
			return
		}
		r.Eval("child|"+tag, true)
		if res.TimedOut {
			if strings.Contains(res.Output, "/repo/") && !strings.Contains(res.Output, "[running]") && !strings.Contains(res.Output, "[runnable]") {
				r.Violation("prover-hang/"+b.backend, "watchdog fired; nothing running, goroutines blocked inside gnark: "+firstLine(res.LastCase), map[string]any{"curve": b.c.String(), "last_case": res.LastCase, "output": res.Output})
			} else {
				r.Inconclusive("child-watchdog:" + tag)
			}
			return
		}
		r.Count("children.CRASHED", 1)
		r.Violation("process-crash/"+b.backend, "child died during Setup/Prove/Verify: "+firstLine(res.LastCase), map[string]any{"curve": b.c.String(), "last_case": res.LastCase, "output": res.Output, "log": res.LogPath})
	})
	r.Require("sat.proof-verified", 100)
	r.Require("unsat.prove-error", 50)
	r.Require("c06.solutions-revalidated", 50)
	r.Finish("exploration",
		"per curve (3 quick / 7 thorough) and back-end: generated circuits — random API programs (incl. shapes without secret input, without public input, everything constant-folded), arithmetic circuits with 0..5 commitments over public / secret / earlier commitments, and (thorough) lookup/range-check/hint scenarios — each with satisfying assignments from the reference interpreter and non-satisfying ones (flipped public output, flipped secret), proved under option sets set consistently on both sides (default; SHA-256 / Keccak / SHA3 / challenge, folding and hash-to-field functions; statistical zero-knowledge; solver task counts). Oracle: satisfiable => Setup, Prove, Verify all nil; unsatisfiable => Prove returns a non-nil error and no proof; documented refusals (PLONK Setup below 2 rows) are not violations; child crash = violation; watchdog without deadlock evidence = inconclusive. distinct = (curve, back-end, circuit, assignment, options)",
		[]string{"SRS from test/unsafekzg", "hash.Hash option objects are created per call"})
}

func firstLine(s string) string {
	if i := strings.IndexByte(s, '\n'); i >= 0 {
		return s[:i]
	}
	return s
}

// ------------------------------------------------------------------ child

type optset struct {
	name string
	p    func() []backend.ProverOption
	v    func() []backend.VerifierOption
}

func hashOpts(name string, chal, fold, h2f func() hash.Hash, extraP ...backend.ProverOption) optset {
	return optset{name,
		func() []backend.ProverOption {
			var o []backend.ProverOption
			if chal != nil {
				o = append(o, backend.WithProverChallengeHashFunction(chal()))
			}
			if fold != nil {
				o = append(o, backend.WithProverKZGFoldingHashFunction(fold()))
			}
			if h2f != nil {
				o = append(o, backend.WithProverHashToFieldFunction(h2f()))
			}
			return append(o, extraP...)
		},
		func() []backend.VerifierOption {
			var o []backend.VerifierOption
			if chal != nil {
				o = append(o, backend.WithVerifierChallengeHashFunction(chal()))
			}
			if fold != nil {
				o = append(o, backend.WithVerifierKZGFoldingHashFunction(fold()))
			}
			if h2f != nil {
				o = append(o, backend.WithVerifierHashToFieldFunction(h2f()))
			}
			return o
		}}
}

func mimcOf(c ecc.ID) func() hash.Hash {
	m := map[ecc.ID]gchash.Hash{ecc.BN254: gchash.MIMC_BN254, ecc.BLS12_377: gchash.MIMC_BLS12_377, ecc.BLS12_381: gchash.MIMC_BLS12_381,
		ecc.BW6_761: gchash.MIMC_BW6_761, ecc.BLS24_315: gchash.MIMC_BLS24_315, ecc.BLS24_317: gchash.MIMC_BLS24_317, ecc.BW6_633: gchash.MIMC_BW6_633}
	h := m[c]
	return func() hash.Hash { return h.New() }
}

func optionSets(c ecc.ID) []optset {
	return []optset{
		hashOpts("default", nil, nil, nil),
		hashOpts("sha256/sha256/sha256", sha256.New, sha256.New, sha256.New),
		hashOpts("keccak/keccak/keccak", sha3.NewLegacyKeccak256, sha3.NewLegacyKeccak256, sha3.NewLegacyKeccak256),
		hashOpts("sha3-512/sha3-256/sha3-384", sha3.New512, sha3.New256, sha3.New384),
		hashOpts("statistical-zk", nil, nil, nil, backend.WithStatisticalZeroKnowledge()),
		hashOpts("tasks=1", nil, nil, nil, backend.WithSolverOptions(solver.WithNbTasks(1))),
		hashOpts("tasks=3", nil, nil, nil, backend.WithSolverOptions(solver.WithNbTasks(3))),
		hashOpts("tasks=512+keccak-challenge", sha3.NewLegacyKeccak256, nil, nil, backend.WithSolverOptions(solver.WithNbTasks(512))),
	}
}

type tcirc struct {
	name    string
	circuit func() frontend.Circuit
	sat     []frontend.Circuit // satisfying assignments
	unsat   []frontend.Circuit
	unsatN  []string
}

type child struct {
	r       *vcore.Run
	curve   ecc.ID
	backend string
	field   *big.Int
	rng     *rand.Rand
}

func TestC03Child(t *testing.T) {
	if !vcore.IsChild() {
		t.Skip("parent mode")
	}
	r := vcore.Start(t, "C03")
	mon := c06mon.Install(r, 2)
	defer mon.Uninstall()
	var curve ecc.ID
	for _, c := range allCurves {
		if c.String() == os.Getenv("VERIF_C03_CURVE") {
			curve = c
		}
	}
	c := &child{r: r, curve: curve, backend: os.Getenv("VERIF_C03_BACKEND"), field: curve.ScalarField()}
	c.rng = r.Rand(curve.String() + "/" + c.backend)
	var cs []tcirc
	cs = append(cs, c.programCircuits(r.Pick(8, 70))...)
	cs = append(cs, c.specCircuits(r.Pick(5, 40))...)
	if r.Thorough() {
		cs = append(cs, c.scenarioCircuits()...)
	}
	sets := optionSets(curve)
	for ci, tc := range cs {
		c.run(ci, tc, sets)
	}
	r.ExportPartial()
}

func (c *child) programCircuits(n int) []tcirc {
	var out []tcirc
	for i := 0; i < n; i++ {
		nIn := 1 + c.rng.IntN(4)
		prog := progs.Random(c.rng, nIn, 2+c.rng.IntN(18), c.field.BitLen())
		switch i % 7 {
		case 1: // no secret input
			for k := range prog.Inputs {
				prog.Inputs[k] = progs.Pub
			}
		case 2: // no public input, nothing exposed
			for k := range prog.Inputs {
				prog.Inputs[k] = progs.Sec
			}
			prog.Exposed = nil
		case 3: // only constants: everything folds
			for k := range prog.Inputs {
				prog.Inputs[k] = progs.Const
			}
		}
		var consts []*big.Int
		for k, kd := range prog.Inputs {
			if kd == progs.Const {
				if consts == nil {
					consts = make([]*big.Int, len(prog.Inputs))
				}
				consts[k] = progs.EdgeValue(c.rng, c.field)
			}
		}
		tc := tcirc{name: "prog:" + prog.String(), circuit: func() frontend.Circuit { return progs.NewCircuit(prog, consts) }}
		mk := func(in, outs []*big.Int) frontend.Circuit {
			pub, sec := prog.Split(in, outs)
			a := progs.NewCircuit(prog, consts)
			for k := range pub {
				a.Pub[k] = pub[k]
			}
			for k := range sec {
				a.Sec[k] = sec[k]
			}
			return a
		}
		for try := 0; try < 40 && len(tc.sat) < 3; try++ {
			in := make([]*big.Int, nIn)
			for k := range in {
				if consts != nil && consts[k] != nil {
					in[k] = consts[k]
				} else {
					in[k] = progs.EdgeValue(c.rng, c.field)
				}
			}
			ref := prog.Eval(in, c.field)
			if !ref.Sat {
				continue
			}
			outs := prog.Outs(ref)
			tc.sat = append(tc.sat, mk(in, outs))
			if len(outs) > 0 && len(tc.unsat) < 2 {
				bad := append([]*big.Int{}, outs...)
				free := false
				for _, f := range ref.Free {
					if f == prog.Exposed[0] {
						free = true
					}
				}
				if !free {
					bad[0] = new(big.Int).Mod(new(big.Int).Add(outs[0], big.NewInt(1)), c.field)
					tc.unsat = append(tc.unsat, mk(in, bad))
					tc.unsatN = append(tc.unsatN, "flipped-public-output")
				}
			}
		}
		if len(tc.sat) > 0 {
			out = append(out, tc)
		} else {
			c.r.Count("circuits.skipped(no-satisfying-assignment-found)", 1)
		}
	}
	return out
}

func (c *child) specCircuits(n int) []tcirc {
	var out []tcirc
	for i := 0; i < n; i++ {
		spec := circuits.RandSpec(c.rng, 5)
		if i%5 == 4 { // commitments only over public data
			spec.Commits = []circuits.CommitSpec{{Pub: []int{0}}}
		}
		tc := tcirc{name: "spec:" + spec.String(), circuit: func() frontend.Circuit { return spec.New() }}
		for k := 0; k < 3; k++ {
			pub, sec := spec.Assign(c.rng, c.field)
			tc.sat = append(tc.sat, spec.Assignment(pub, sec))
			if k == 0 && spec.NPub > 0 {
				bp := append([]*big.Int{}, pub...)
				bp[0] = new(big.Int).Mod(new(big.Int).Add(pub[0], big.NewInt(1)), c.field)
				tc.unsat = append(tc.unsat, spec.Assignment(bp, sec))
				tc.unsatN = append(tc.unsatN, "flipped-public-output")
			}
			if k == 1 && spec.NSec > 0 && spec.NPub > 0 {
				bs := append([]*big.Int{}, sec...)
				bs[0] = new(big.Int).Mod(new(big.Int).Add(sec[0], big.NewInt(1)), c.field)
				// flipping a secret changes the output unless the secret is unused; check with the reference
				if spec.Eval(pub, bs, c.field).Cmp(pub[0]) != 0 {
					tc.unsat = append(tc.unsat, spec.Assignment(pub, bs))
					tc.unsatN = append(tc.unsatN, "flipped-secret")
				}
			}
		}
		out = append(out, tc)
	}
	return out
}

func (c *child) scenarioCircuits() []tcirc {
	var out []tcirc
	for _, sc := range scen.Scenarios() {
		sc := sc
		tc := tcirc{name: "scenario:" + sc.Name, circuit: sc.Circuit}
		for _, w := range sc.Witnesses(c.rng, c.field, 8) {
			if w.Valid && len(tc.sat) < 3 {
				tc.sat = append(tc.sat, w.Assign)
			} else if !w.Valid && len(tc.unsat) < 2 {
				tc.unsat = append(tc.unsat, w.Assign)
				tc.unsatN = append(tc.unsatN, w.Name)
			}
		}
		out = append(out, tc)
	}
	return out
}

func short(s string) string {
	if len(s) > 300 {
		return s[:300] + "…"
	}
	return s
}

func (c *child) run(ci int, tc tcirc, sets []optset) {
	r := c.r
	var nb frontend.NewBuilder = r1cs.NewBuilder
	if c.backend == "plonk" {
		nb = scs.NewBuilder
	}
	rep := func(extra map[string]any) map[string]any {
		m := map[string]any{"curve": c.curve.String(), "backend": c.backend, "circuit": short(tc.name)}
		for k, v := range extra {
			m[k] = v
		}
		return m
	}
	vcore.ChildCaseStart(fmt.Sprintf("%s %s compile+setup %s", c.curve, c.backend, short(tc.name)), nil)
	ccs, err := frontend.Compile(c.field, nb, tc.circuit())
	if err != nil {
		r.Count("compile.refused", 1)
		return
	}
	var prove func(w witness.Witness, o []backend.ProverOption) (any, error)
	var verify func(p any, pw witness.Witness, o []backend.VerifierOption) error
	rows := ccs.GetNbConstraints() + ccs.GetNbPublicVariables()
	if c.backend == "groth16" {
		pk, vk, err := groth16.Setup(ccs)
		if err != nil {
			r.Eval("setup|"+tc.name, true)
			r.Violation("setup-failed/groth16", "Setup failed on a compiled circuit: "+err.Error(), rep(nil))
			return
		}
		prove = func(w witness.Witness, o []backend.ProverOption) (any, error) {
			p, err := groth16.Prove(ccs, pk, w, o...)
			if p == nil || fmt.Sprint(p) == "<nil>" {
				return nil, err
			}
			return p, err
		}
		verify = func(p any, pw witness.Witness, o []backend.VerifierOption) error {
			return groth16.Verify(p.(groth16.Proof), vk, pw, o...)
		}
	} else {
		srs, srsL, err := unsafekzg.NewSRS(ccs)
		if err != nil {
			r.Inconclusive("srs:" + err.Error())
			return
		}
		pk, vk, err := plonk.Setup(ccs, srs, srsL)
		if err != nil {
			if rows < 2 {
				r.Count("setup.documented-refusal(plonk,domain<2)", 1)
				return
			}
			r.Eval("setup|"+tc.name, true)
			r.Violation("setup-failed/plonk", "Setup failed on a compiled circuit: "+err.Error(), rep(map[string]any{"rows": rows}))
			return
		}
		prove = func(w witness.Witness, o []backend.ProverOption) (any, error) {
			p, err := plonk.Prove(ccs, pk, w, o...)
			if p == nil || fmt.Sprint(p) == "<nil>" {
				return nil, err
			}
			return p, err
		}
		verify = func(p any, pw witness.Witness, o []backend.VerifierOption) error {
			return plonk.Verify(p.(plonk.Proof), vk, pw, o...)
		}
	}
	r.Count("circuits", 1)
	r.Count(fmt.Sprintf("circuits.commitments=%d", nbCommit(ccs)), 1)
	for ai, a := range tc.sat {
		full, err := frontend.NewWitness(a, c.field)
		if err != nil {
			r.Inconclusive("witness:" + err.Error())
			continue
		}
		pw, _ := full.Public()
		// every assignment under the default options; the others round-robin
		use := []optset{sets[0], sets[1+(ci+ai)%(len(sets)-1)]}
		if r.Thorough() {
			use = append(use, sets[1+(ci+ai+3)%(len(sets)-1)])
		}
		for _, os := range use {
			key := fmt.Sprintf("%s|%s|%s|sat%d|%s", c.curve, c.backend, tc.name, ai, os.name)
			vcore.ChildCaseStart("prove "+short(key), nil)
			r.Eval(key, true)
			var proof any
			var perr error
			pan, stack := vcore.Catch(func() { proof, perr = prove(full, os.p()) })
			if pan != nil {
				r.Violation("prove-panic/"+c.backend, fmt.Sprintf("%v\n%s", pan, stack), rep(map[string]any{"options": os.name}))
				continue
			}
			if perr != nil {
				r.Count("sat.PROVE-FAILED", 1)
				r.Violation("prove-failed-on-satisfying-assignment/"+c.backend+"/"+os.name, "Prove returned an error for a satisfying assignment: "+firstLine(perr.Error()), rep(map[string]any{"options": os.name}))
				continue
			}
			var verr error
			pan, stack = vcore.Catch(func() { verr = verify(proof, pw, os.v()) })
			if pan != nil {
				r.Violation("verify-panic/"+c.backend, fmt.Sprintf("%v\n%s", pan, stack), rep(map[string]any{"options": os.name}))
				continue
			}
			if verr != nil {
				r.Count("sat.VERIFY-FAILED", 1)
				r.Violation("genuine-proof-rejected/"+c.backend+"/"+os.name, "Verify rejected the proof of a satisfying assignment: "+verr.Error(), rep(map[string]any{"options": os.name}))
				continue
			}
			r.Count("sat.proof-verified", 1)
			r.Count("sat.proof-verified.options="+os.name, 1)
			r.SampleClass(c.backend+"/"+os.name, rep(map[string]any{"options": os.name, "assignment": ai}))
		}
	}
	for ai, a := range tc.unsat {
		full, err := frontend.NewWitness(a, c.field)
		if err != nil {
			continue
		}
		key := fmt.Sprintf("%s|%s|%s|unsat%d", c.curve, c.backend, tc.name, ai)
		vcore.ChildCaseStart("prove "+short(key), nil)
		r.Eval(key, true)
		var proof any
		var perr error
		pan, stack := vcore.Catch(func() { proof, perr = prove(full, nil) })
		switch {
		case pan != nil:
			r.Violation("prove-panic-on-violating-assignment/"+c.backend, fmt.Sprintf("%v\n%s", pan, stack), rep(map[string]any{"kind": tc.unsatN[ai]}))
		case perr == nil:
			r.Count("unsat.PROOF-PRODUCED", 1)
			r.Violation("proof-produced-for-violating-assignment/"+c.backend, "Prove returned no error for an assignment that violates the circuit ("+tc.unsatN[ai]+")", rep(map[string]any{"kind": tc.unsatN[ai]}))
		case proof != nil:
			r.Violation("proof-and-error/"+c.backend, "Prove returned both a proof and an error", rep(nil))
		default:
			r.Count("unsat.prove-error", 1)
		}
	}
}

func nbCommit(ccs constraint.ConstraintSystem) int {
	switch ci := ccs.GetCommitments().(type) {
	case constraint.Groth16Commitments:
		return len(ci)
	case constraint.PlonkCommitments:
		return len(ci)
	}
	return 0
}
