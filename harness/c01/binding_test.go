//go:build verif

package c01

import (
	"crypto/sha256"
	"fmt"
	"math/big"
	"math/rand/v2"
	"strings"
	"sync"

	"github.com/consensys/gnark-crypto/ecc"
	"github.com/consensys/gnark/constraint"
	"github.com/consensys/gnark/constraint/solver"
	"github.com/consensys/gnark/frontend"
	fcs "github.com/consensys/gnark/frontend/cs"
	"github.com/consensys/gnark/frontend/cs/r1cs"
	"github.com/consensys/gnark/frontend/cs/scs"

	"github.com/consensys/gnark/verifharness/internal/vcore"
)

// ---- commitment-binding audit -------------------------------------------------
//
// A Groth16 / PLONK commitment is what the verifier hashes into the challenge that the circuit
// receives from Commit(v1..vn): the statement "the proof was produced from a satisfying
// assignment" is only as strong as the binding of that challenge to v1..vn.  The R1CS builder does
// not commit twice to a private wire: when a later Commit call names a wire that an earlier
// commitment already holds, it commits to that earlier *commitment wire* instead.  The audit
// watches what the solver really feeds into each commitment (the inputs of the commitment
// placeholder hint — exactly the wires listed in the key's commitment info) and demands that every
// argument of every Commit call is bound by the challenge it returns: directly, or through an
// earlier commitment that (transitively) binds it.
//
// Circuits: PRNG-drawn sequences of 2..6 Commit calls over public inputs, secret inputs, internal
// wires created before / between the calls, and earlier commitments, with arguments repeated across
// calls so that every "already committed by commitment j" redirect happens for j = 0 and j > 0,
// before and after unrelated commitment wires.

type bindArg struct {
	kind string // pub sec int prev
	idx  int
}

type bindSpec struct {
	nPub, nSec int
	// events in program order: "int" creates internal wire number idx (product of two inputs),
	// "commit" issues call number idx
	events []bindEvent
}

type bindEvent struct {
	commit bool
	idx    int
	args   []bindArg // for commits
	a, b   int       // for internal wires: Sec[a] * Sec[b]
}

func (s *bindSpec) String() string {
	var sb strings.Builder
	fmt.Fprintf(&sb, "pub=%d sec=%d:", s.nPub, s.nSec)
	for _, e := range s.events {
		if !e.commit {
			fmt.Fprintf(&sb, " w%d=S%d*S%d;", e.idx, e.a, e.b)
			continue
		}
		fmt.Fprintf(&sb, " c%d=Commit(", e.idx)
		for i, a := range e.args {
			if i > 0 {
				sb.WriteString(",")
			}
			fmt.Fprintf(&sb, "%s%d", a.kind, a.idx)
		}
		sb.WriteString(");")
	}
	return sb.String()
}

type bindCircuit struct {
	Pub  []frontend.Variable `gnark:",public"`
	Sec  []frontend.Variable `gnark:",secret"`
	spec *bindSpec
}

func (c *bindCircuit) Define(api frontend.API) error {
	cm := api.(frontend.Committer)
	var ints, cms []frontend.Variable
	acc := frontend.Variable(0)
	for _, e := range c.spec.events {
		if !e.commit {
			ints = append(ints, api.Mul(c.Sec[e.a], c.Sec[e.b])) // a single wire with coefficient 1: Commit commits to wires, value identity is wire identity
			continue
		}
		var vars []frontend.Variable
		for _, a := range e.args {
			switch a.kind {
			case "pub":
				vars = append(vars, c.Pub[a.idx])
			case "sec":
				vars = append(vars, c.Sec[a.idx])
			case "int":
				vars = append(vars, ints[a.idx])
			case "prev":
				vars = append(vars, cms[a.idx])
			}
		}
		x, err := cm.Commit(vars...)
		if err != nil {
			return err
		}
		cms = append(cms, x)
		acc = api.Add(acc, api.Mul(x, x))
	}
	for _, w := range ints {
		acc = api.Add(acc, w)
	}
	// one genuine constraint on everything so that no input is dangling
	for i := range c.Sec {
		acc = api.Add(acc, api.Mul(c.Sec[i], i+3))
	}
	api.AssertIsDifferent(acc, c.Pub[0])
	return nil
}

func genBindSpec(rng *rand.Rand) *bindSpec {
	s := &bindSpec{nPub: 1 + rng.IntN(3), nSec: 2 + rng.IntN(4)}
	nCommits := 2 + rng.IntN(5)
	nInts := 0
	var pool []bindArg // everything named by some earlier call: re-commits are drawn from here
	for k := 0; k < nCommits; k++ {
		// internal wires created between the calls
		for rng.IntN(2) == 0 && nInts < 6 {
			s.events = append(s.events, bindEvent{idx: nInts, a: rng.IntN(s.nSec), b: rng.IntN(s.nSec)})
			nInts++
		}
		var args []bindArg
		n := 1 + rng.IntN(4)
		for len(args) < n {
			var a bindArg
			switch x := rng.IntN(10); {
			case x < 4 && len(pool) > 0: // something an earlier call already named
				a = pool[rng.IntN(len(pool))]
			case x < 5:
				a = bindArg{"pub", rng.IntN(s.nPub)}
			case x < 7:
				a = bindArg{"sec", rng.IntN(s.nSec)}
			case x < 9 && nInts > 0:
				a = bindArg{"int", rng.IntN(nInts)}
			case k > 0:
				a = bindArg{"prev", rng.IntN(k)}
			default:
				a = bindArg{"sec", rng.IntN(s.nSec)}
			}
			args = append(args, a)
		}
		pool = append(pool, args...)
		s.events = append(s.events, bindEvent{commit: true, idx: k, args: args})
	}
	return s
}

// bindRecorder is the commitment placeholder hint as the audit installs it: it records what the
// solver feeds into each commitment and returns a hash of it (so that distinct commitments have
// distinct, recognisable values).
type bindRecorder struct {
	mu    sync.Mutex
	calls []bindCall
}

type bindCall struct {
	depth int
	ins   []string
	out   string
}

func (b *bindRecorder) hint(m *big.Int, in, out []*big.Int) error {
	h := sha256.New()
	c := bindCall{depth: -1}
	for i, v := range in {
		bs := v.Bytes()
		h.Write([]byte{byte(len(bs))})
		h.Write(bs)
		if i == 0 {
			c.depth = int(v.Int64())
			continue
		}
		c.ins = append(c.ins, v.String())
	}
	x := new(big.Int).SetBytes(h.Sum(nil))
	out[0].Mod(x, m)
	c.out = out[0].String()
	b.mu.Lock()
	b.calls = append(b.calls, c)
	b.mu.Unlock()
	return nil
}

func randElem(rng *rand.Rand, p *big.Int) *big.Int {
	b := make([]byte, (p.BitLen()+7)/8+8)
	for i := range b {
		b[i] = byte(rng.Uint32())
	}
	x := new(big.Int).SetBytes(b)
	return x.Mod(x, p)
}

// bindingAudit runs the audit for one field on both builders.
func bindingAudit(r *vcore.Run, curve ecc.ID, nSpecs int) {
	field := curve.ScalarField()
	rng := r.Rand("binding/" + curve.String())
	for si := 0; si < nSpecs; si++ {
		spec := genBindSpec(rng)
		asg := &bindCircuit{Pub: make([]frontend.Variable, spec.nPub), Sec: make([]frontend.Variable, spec.nSec)}
		pub := make([]*big.Int, spec.nPub)
		sec := make([]*big.Int, spec.nSec)
		for i := range pub {
			pub[i] = randElem(rng, field)
			asg.Pub[i] = pub[i]
		}
		for i := range sec {
			sec[i] = randElem(rng, field)
			asg.Sec[i] = sec[i]
		}
		// reference values of the internal wires
		var ints []*big.Int
		for _, e := range spec.events {
			if !e.commit {
				w := new(big.Int).Mul(sec[e.a], sec[e.b])
				w.Mod(w, field)
				ints = append(ints, w)
			}
		}
		for _, bld := range []string{"r1cs", "scs"} {
			key := fmt.Sprintf("binding|%s|%s|%d", curve, bld, si)
			rep := map[string]any{"curve": curve.String(), "builder": bld, "circuit": spec.String(), "pub": vecStr(pub), "sec": vecStr(sec)}
			var ccs constraint.ConstraintSystem
			var err error
			pan, stack := vcore.Catch(func() {
				if bld == "r1cs" {
					ccs, err = frontend.Compile(field, r1cs.NewBuilder, &bindCircuit{Pub: make([]frontend.Variable, spec.nPub), Sec: make([]frontend.Variable, spec.nSec), spec: spec})
				} else {
					ccs, err = frontend.Compile(field, scs.NewBuilder, &bindCircuit{Pub: make([]frontend.Variable, spec.nPub), Sec: make([]frontend.Variable, spec.nSec), spec: spec})
				}
			})
			r.Eval(key, true)
			if pan != nil || (err != nil && strings.Contains(err.Error(), "runtime error")) {
				msg := fmt.Sprint(pan, stack)
				if err != nil {
					msg = err.Error()
				}
				rep["error"] = msg
				r.Violation("commit-binding/compile-panics/"+bld, "compiling a circuit that commits again to an already committed variable panics: "+firstLineOf(msg), rep)
				continue
			}
			if err != nil {
				r.Inconclusive("binding-compile-error:" + firstLineOf(err.Error()))
				continue
			}
			w, err := frontend.NewWitness(asg, field)
			if err != nil {
				r.Inconclusive("binding-witness:" + err.Error())
				continue
			}
			rec := &bindRecorder{}
			_, err = ccs.Solve(w, solver.OverrideHint(solver.GetHintID(fcs.Bsb22CommitmentComputePlaceholder), rec.hint))
			if err != nil && !strings.Contains(err.Error(), "is not satisfied") && !strings.Contains(err.Error(), "[assertIsDifferent]") {
				// AssertIsDifferent(acc, Pub[0]) fails with probability 1/p only
				rep["error"] = err.Error()
				r.Violation("commit-binding/solve-fails/"+bld, "solving the circuit failed: "+firstLineOf(err.Error()), rep)
				continue
			}
			// the recorded calls, by depth
			byDepth := map[int]bindCall{}
			for _, c := range rec.calls {
				byDepth[c.depth] = c
			}
			nCommits := 0
			for _, e := range spec.events {
				if e.commit {
					nCommits++
				}
			}
			if len(byDepth) != nCommits {
				rep["recorded"] = len(byDepth)
				r.Violation("commit-binding/commitment-count/"+bld, fmt.Sprintf("%d Commit calls but %d commitment hints solved", nCommits, len(byDepth)), rep)
				continue
			}
			// closure[k]: every value bound by the challenge of call k
			closure := make([]map[string]bool, nCommits)
			outs := make([]string, nCommits)
			for k := 0; k < nCommits; k++ {
				outs[k] = byDepth[k].out
			}
			for k := 0; k < nCommits; k++ {
				cl := map[string]bool{}
				for _, v := range byDepth[k].ins {
					cl[v] = true
					for j := 0; j < k; j++ {
						if outs[j] == v {
							for u := range closure[j] {
								cl[u] = true
							}
						}
					}
				}
				closure[k] = cl
			}
			for _, e := range spec.events {
				if !e.commit {
					continue
				}
				r.Count("binding.commit-calls-audited", 1)
				for _, a := range e.args {
					var v string
					switch a.kind {
					case "pub":
						v = pub[a.idx].String()
					case "sec":
						v = sec[a.idx].String()
					case "int":
						v = ints[a.idx].String()
					case "prev":
						v = outs[a.idx]
					}
					r.Count("binding.arguments-audited", 1)
					direct := false
					for _, u := range byDepth[e.idx].ins {
						if u == v {
							direct = true
						}
					}
					if direct {
						r.Count("binding.bound-directly", 1)
						continue
					}
					if closure[e.idx][v] {
						r.Count("binding.bound-through-an-earlier-commitment", 1)
						continue
					}
					rep["call"] = e.idx
					rep["argument"] = fmt.Sprintf("%s%d", a.kind, a.idx)
					rep["hint_inputs"] = byDepth[e.idx].ins
					r.Violation("commit-binding/argument-not-bound/"+bld+"/"+a.kind,
						fmt.Sprintf("the challenge returned by Commit call %d does not depend on its argument %s%d: the value is neither among the wires hashed into that commitment nor bound by an earlier commitment that is", e.idx, a.kind, a.idx), rep)
				}
			}
		}
	}
}

func firstLineOf(s string) string {
	if i := strings.IndexByte(s, '\n'); i >= 0 {
		return s[:i]
	}
	return s
}
