//go:build verif

// C01 — Groth16 verification accepts only proofs of the stated public inputs.
// Adversarial-execution monitor: the real Setup/Prove/Verify run against a
// dishonest counter-party (replayed inputs, enumerated single-element edits,
// commitment-list edits incl. the surplus-commitment forgery, a dishonest
// prover driven through the PostSolve hook, byte-level edits).
package c01

import (
	"bytes"
	"crypto/sha256"
	"fmt"
	"math/big"
	"math/rand/v2"
	"strings"
	"sync"
	"testing"

	"github.com/consensys/gnark/backend"
	"github.com/consensys/gnark/backend/groth16"
	"github.com/consensys/gnark/backend/witness"
	"github.com/consensys/gnark/constraint"
	"github.com/consensys/gnark/frontend"
	"github.com/consensys/gnark/frontend/cs/r1cs"

	"github.com/consensys/gnark/verifharness/curves"
	"github.com/consensys/gnark/verifharness/internal/adversary"
	"github.com/consensys/gnark/verifharness/internal/ceval"
	"github.com/consensys/gnark/verifharness/internal/circuits"
	"github.com/consensys/gnark/verifharness/internal/cvapi"
	"github.com/consensys/gnark/verifharness/internal/hooks"
	"github.com/consensys/gnark/verifharness/internal/vcore"
)

type caseCtx struct {
	r     *vcore.Run
	ops   *cvapi.Ops
	spec  *circuits.Spec
	label string
	ccs   constraint.ConstraintSystem
	vk    groth16.VerifyingKey
	field *big.Int
}

// verify runs the real verifier, converting panics to a distinct outcome.
func verify(proof groth16.Proof, vk groth16.VerifyingKey, pw witness.Witness) (err error, panicked string) {
	pan, stack := vcore.Catch(func() { err = groth16.Verify(proof, vk, pw) })
	if pan != nil {
		return fmt.Errorf("panic: %v", pan), fmt.Sprintf("%v\n%s", pan, stack)
	}
	return err, ""
}

func hexOf(p groth16.Proof) string {
	var b bytes.Buffer
	if _, err := p.WriteTo(&b); err != nil {
		return "unencodable:" + err.Error()
	}
	return fmt.Sprintf("%x", b.Bytes())
}

func vecStr(v []*big.Int) []string {
	s := make([]string, len(v))
	for i := range v {
		s[i] = v[i].String()
	}
	return s
}

// expectReject records one must-reject triple.
func (c *caseCtx) expectReject(class, name string, proof groth16.Proof, pub []*big.Int) {
	pw, err := circuits.MakeWitness(c.field, pub, nil)
	if err != nil {
		c.r.Inconclusive("witness-build")
		return
	}
	c.r.Eval(c.label+"|"+class+"|"+name, true)
	err, pan := verify(proof, c.vk, pw)
	rep := map[string]any{"curve": c.ops.Name, "circuit": c.spec.String(), "class": class, "edit": name, "public": vecStr(pub), "proof_hex": hexOf(proof)}
	switch {
	case pan != "":
		c.r.Count("verify.panic", 1)
		rep["panic"] = pan
		c.r.Violation("verify-panic/"+class, "Verify panicked on "+name+": "+pan, rep)
	case err == nil:
		c.r.Count("verify.ACCEPTED-must-reject", 1)
		c.r.Violation("accepted/"+class+"/"+editKind(name), fmt.Sprintf("Verify accepted a must-reject triple: %s on %s %s", name, c.ops.Name, c.spec), rep)
	default:
		c.r.Count("rejected."+class, 1)
		c.r.SampleClass(class, map[string]any{"curve": c.ops.Name, "circuit": c.spec.String(), "edit": name, "verifier_said": err.Error()})
	}
	// the same object pushed through bytes (an object "reachable by decoding bytes")
	var b bytes.Buffer
	if _, werr := proof.WriteTo(&b); werr == nil {
		q := groth16.NewProof(c.ops.ID)
		var derr error
		if p, _ := vcore.Catch(func() { _, derr = q.ReadFrom(bytes.NewReader(b.Bytes())) }); p != nil {
			c.r.Count("decode.panic", 1)
			rep["decode_panic"] = fmt.Sprint(p)
			c.r.Violation("decode-panic/"+class, fmt.Sprintf("ReadFrom panicked on re-encoded %s: %v", name, p), rep)
		} else if derr != nil {
			c.r.Count("roundtrip.decode-rejected."+class, 1)
		} else {
			err2, pan2 := verify(q, c.vk, pw)
			if pan2 != "" {
				c.r.Violation("verify-panic/"+class, "Verify panicked on decoded "+name+": "+pan2, rep)
			} else if err2 == nil {
				c.r.Count("verify.ACCEPTED-must-reject", 1)
				c.r.Violation("accepted-after-roundtrip/"+class+"/"+editKind(name), "Verify accepted a must-reject triple after a byte round trip: "+name, rep)
			} else {
				c.r.Count("roundtrip.rejected."+class, 1)
			}
		}
	}
}

// editKind strips indices so that violation classes are stable.
func editKind(name string) string {
	out := make([]byte, 0, len(name))
	for i := 0; i < len(name); i++ {
		if name[i] >= '0' && name[i] <= '9' {
			if len(out) > 0 && out[len(out)-1] == '#' {
				continue
			}
			out = append(out, '#')
			continue
		}
		out = append(out, name[i])
	}
	return string(out)
}

func TestC01(t *testing.T) {
	r := vcore.Start(t, "C01")
	cvs := curves.Tier(r.Quick())
	nCirc := r.Pick(4, 40)
	type job struct {
		ops *cvapi.Ops
		idx int
	}
	var jobs []job
	for _, o := range cvs {
		for i := 0; i < nCirc; i++ {
			jobs = append(jobs, job{o, i})
		}
	}
	var hookMu sync.Mutex // one dishonest-prover run at a time per process is not needed: handlers are per system
	_ = &hookMu
	vcore.Parallel(len(jobs), 12, func(k int) {
		j := jobs[k]
		runCircuit(r, j.ops, j.idx)
	})
	// commitment-binding audit (frontend side of the commitments: what each challenge depends on)
	vcore.Parallel(len(cvs), 7, func(k int) {
		bindingAudit(r, cvs[k].ID, r.Pick(40, 400))
	})
	r.Require("binding.bound-through-an-earlier-commitment", 20)
	r.Require("binding.bound-directly", 100)
	r.Require("commitment-keys.pairs-audited", int64(9*len(cvs)))
	r.Require("rejected.replay", 10)
	r.Require("rejected.single-edit", 100)
	r.Require("rejected.list-edit", 10)
	r.Require("rejected.dishonest-prover", 5)
	r.Require("rejected.byte-flip", 10)
	r.Require("genuine.accepted", 10)
	r.Finish("fault_enumeration",
		"per curve and generated circuit (0..3 commitments over public/secret/earlier-commitment variables, unused public inputs): real Setup+Prove of 3 satisfying witnesses, then hostile triples: replayed public vectors, the complete enumeration of single-leaf edits of the proof (neg/double/identity/generator/+generator/other leaf/donor proofs/vk points), commitment-list edits incl. surplus-commitment forgery, proofs made by the real prover from a non-satisfying wire vector (PostSolve hook; W only and W with A,B,C recomputed), bit flips of the encodings. distinct = (curve,circuit,class,edit) ; non-trivial = the edited triple differs from the genuine one and the oracle says must-reject",
		[]string{"soundness error of hash challenges / pairing equation (~2^-250) treated as never",
			"Groth16 re-randomisation malleability is outside the property and never constructed",
			"CommitmentPok of a key with zero commitments is ignored by the verification equations; edits of it are counted as 'component absent', not as must-reject",
			"an unconstrained (K_i = infinity) public input may be changed without rejection"})
}

func runCircuit(r *vcore.Run, ops *cvapi.Ops, idx int) {
	rng := r.Rand(fmt.Sprintf("%s/%d", ops.Name, idx))
	maxC := 3
	if idx%3 == 0 {
		maxC = 0
	}
	spec := circuits.RandSpec(rng, maxC)
	if spec.NPub == 0 {
		spec.NPub = 1
	}
	if idx == 1 {
		// one fixed rich circuit per curve, so that every family meets several commitments
		// (public, secret, overlapping, over an earlier commitment) on every curve in both tiers
		spec = &circuits.Spec{NPub: 2, NSec: 3, Muls: 3, Commits: []circuits.CommitSpec{
			{Pub: []int{0}, Sec: []int{0, 1}}, {Sec: []int{1, 2}, Prev: []int{0}}, {Sec: []int{2}}}}
	}
	field := ops.ID.ScalarField()
	label := fmt.Sprintf("%s/%d", ops.Name, idx)
	ccs, err := frontend.Compile(field, r1cs.NewBuilder, spec.New())
	if err != nil {
		r.Inconclusive("compile:" + err.Error())
		return
	}
	pk, vk, err := groth16.Setup(ccs)
	if err != nil {
		r.Inconclusive("setup:" + err.Error())
		return
	}
	pk2, _, err := groth16.Setup(ccs)
	if err != nil {
		r.Inconclusive("setup2")
		return
	}
	c := &caseCtx{r: r, ops: ops, spec: spec, label: label, ccs: ccs, vk: vk, field: field}
	r.Count("circuits", 1)

	// ---- family 0: the keys Setup produced bind every commitment to its own basis: a proof of
	// knowledge assembled from another commitment's proving-key material must not verify
	if audit, ok := ops.Ext["G16CrossCommitmentKeys"].(func(pk, vk any) (int, []string)); ok {
		n, bad := audit(pk, vk)
		if n > 0 {
			r.Eval(label+"|cross-commitment-keys", true)
			r.Count("commitment-keys.pairs-audited", n)
		}
		for _, b := range bad {
			r.Violation("commitment-keys/"+strings.SplitN(b, ":", 2)[0], b, map[string]any{"curve": ops.Name, "circuit": spec.String()})
		}
	}
	r.Count(fmt.Sprintf("circuits.commitments=%d", ops.G16NbCommitments(vk)), 1)

	// genuine proofs
	type gen struct {
		pub, sec []*big.Int
		proof    groth16.Proof
		full     witness.Witness
	}
	var gens []gen
	for w := 0; w < 3; w++ {
		pub, sec := spec.Assign(rng, field)
		full, err := circuits.MakeWitness(field, pub, sec)
		if err != nil {
			r.Inconclusive("witness")
			return
		}
		proof, err := groth16.Prove(ccs, pk, full)
		if err != nil {
			r.Inconclusive("prove-genuine:" + err.Error())
			return
		}
		pw, _ := full.Public()
		if err, pan := verify(proof, vk, pw); err != nil || pan != "" {
			r.Inconclusive("genuine-rejected") // completeness is C03's business
			r.Count("genuine.REJECTED", 1)
			return
		}
		r.Count("genuine.accepted", 1)
		gens = append(gens, gen{pub, sec, proof, full})
	}
	// donor under a second setup of the same circuit
	var donors []any
	donors = append(donors, gens[1].proof, gens[2].proof)
	if p2, err := groth16.Prove(ccs, pk2, gens[0].full); err == nil {
		donors = append(donors, p2)
	}
	g := gens[0]
	kInf := ops.G16KInfinity(vk)

	// ---- family 1: replay against other public vectors
	for j := 0; j < len(g.pub); j++ {
		for _, mode := range []string{"+1", "random", "zero"} {
			np := clonev(g.pub)
			switch mode {
			case "+1":
				np[j].Add(np[j], big.NewInt(1)).Mod(np[j], field)
			case "random":
				np[j] = circuits.RandFieldElem(rng, field)
			case "zero":
				np[j] = new(big.Int)
			}
			if np[j].Cmp(g.pub[j]) == 0 {
				continue
			}
			if kInf[j+1] && !publicCommitted(ccs, j+1) {
				// unconstrained public input: a satisfying assignment with this public part exists
				r.Eval(label+"|replay-unconstrained|"+fmt.Sprint(j, mode), false)
				r.Count("replay.unconstrained-input-skipped", 1)
				continue
			}
			c.expectReject("replay", fmt.Sprintf("pub[%d]%s", j, mode), g.proof, np)
		}
	}
	if len(g.pub) >= 2 && g.pub[0].Cmp(g.pub[1]) != 0 && !kInf[1] && !kInf[2] {
		np := clonev(g.pub)
		np[0], np[1] = np[1], np[0]
		c.expectReject("replay", "swap(pub[0],pub[1])", g.proof, np)
	}
	// proof of witness 1 against public of witness 0 (when they differ on a constrained coordinate)
	for j := range g.pub {
		if g.pub[j].Cmp(gens[1].pub[j]) != 0 && !kInf[j+1] {
			c.expectReject("replay", "other-witness-proof", gens[1].proof, g.pub)
			break
		}
	}
	// wrong length: must be an error
	c.expectReject("replay-length", "append-element", g.proof, append(clonev(g.pub), big.NewInt(0)))
	c.expectReject("replay-length", "drop-element", g.proof, clonev(g.pub)[:len(g.pub)-1])

	// ---- family 2: single-element edits (complete enumeration)
	nbCommit := ops.G16NbCommitments(vk)
	for _, e := range ops.G16SingleEdits(g.proof, donors, vk) {
		if !e.Changed {
			r.Eval(label+"|single-edit-trivial|"+e.Name, false)
			r.Count("single-edit.trivial-unchanged", 1)
			continue
		}
		if nbCommit == 0 && len(e.Name) >= 13 && e.Name[:13] == "CommitmentPok" {
			r.Eval(label+"|pok-absent|"+e.Name, false)
			r.Count("single-edit.component-absent(CommitmentPok,no-commitment-key)", 1)
			continue
		}
		c.expectReject("single-edit", e.Name, e.Obj.(groth16.Proof), g.pub)
	}

	// ---- family 2b: elements moved out of the prime-order subgroup by a small-order point
	if te, ok := ops.Ext["G16TorsionEdits"].(func(any) []cvapi.Edit); ok {
		for _, e := range te(g.proof) {
			if !e.Changed {
				continue
			}
			if nbCommit == 0 && strings.HasPrefix(e.Name, "CommitmentPok") {
				continue
			}
			c.expectReject("torsion-edit", e.Name, e.Obj.(groth16.Proof), g.pub)
		}
	}

	// ---- family 3: commitment-list edits
	for _, e := range ops.G16ListEdits(g.proof, donors) {
		if !e.Changed {
			r.Count("list-edit.trivial-unchanged", 1)
			continue
		}
		c.expectReject("list-edit", e.Name, e.Obj.(groth16.Proof), g.pub)
	}
	// surplus-commitment forgery: proof for pub, verified against pub' with C = sum (x-x')K appended
	for j := range g.pub {
		if kInf[j+1] {
			continue
		}
		np := clonev(g.pub)
		np[j].Add(np[j], big.NewInt(7)).Mod(np[j], field)
		forged := ops.G16Surplus(g.proof, vk, g.pub, np).(groth16.Proof)
		c.expectReject("surplus-commitment-forgery", fmt.Sprintf("pub[%d]+7,append(sum(x-x')K)", j), forged, np)
		break
	}

	// ---- transcript binding: every commitment and committed public input reaches the hash-to-field function
	if nbCommit > 0 {
		rec := adversary.NewRecordingHash(sha256.New())
		pw, _ := g.full.Public()
		p2, err := groth16.Prove(ccs, pk, g.full, backend.WithProverHashToFieldFunction(sha256.New()))
		if err == nil && groth16.Verify(p2, vk, pw, backend.WithVerifierHashToFieldFunction(rec)) == nil {
			for _, it := range ops.G16BoundItems(p2, vk, g.pub) {
				r.Eval(label+"|hash-binding|"+it.Name, true)
				if !bytes.Contains(rec.Stream, it.Bytes) {
					r.Violation("not-bound-into-commitment-hash/"+editKind(it.Name), it.Name+" is never written to the verifier's hash-to-field function",
						map[string]any{"curve": ops.Name, "circuit": spec.String(), "item": it.Name})
				} else {
					r.Count("commitment-hash.items-bound", 1)
				}
			}
		} else {
			r.Inconclusive("recording-hash-run")
		}
	}

	// ---- family 4: dishonest prover (PostSolve hook)
	dishonest(c, pk, g.pub, g.sec, rng)

	// ---- family 5: byte-level flips of the genuine encodings
	var enc bytes.Buffer
	g.proof.WriteTo(&enc)
	var raw bytes.Buffer
	g.proof.WriteRawTo(&raw)
	pw, _ := g.full.Public()
	for _, src := range []struct {
		name string
		b    []byte
	}{{"compressed", enc.Bytes()}, {"raw", raw.Bytes()}} {
		nflip := r.Pick(24, 120)
		for f := 0; f < nflip; f++ {
			b := append([]byte{}, src.b...)
			bit := rng.IntN(len(b) * 8)
			b[bit/8] ^= 1 << (bit % 8)
			q := groth16.NewProof(ops.ID)
			var derr error
			name := fmt.Sprintf("%s-bit%d", src.name, bit)
			if !cvapi.LensOK(ops.G16DeclaredLens(b)) {
				r.Count("byte-flip.excluded(declared-length>cap)", 1)
				continue
			}
			r.Eval(label+"|byte-flip|"+name, true)
			if p, st := vcore.Catch(func() { _, derr = q.ReadFrom(bytes.NewReader(b)) }); p != nil {
				r.Violation("decode-panic/byte-flip", fmt.Sprintf("Proof.ReadFrom panicked: %v", p), map[string]any{"curve": ops.Name, "bytes_hex": fmt.Sprintf("%x", b), "stack": st})
				continue
			}
			if derr != nil {
				r.Count("byte-flip.decode-error", 1)
				continue
			}
			if ops.G16ProofEqual(q, g.proof) {
				r.Count("byte-flip.decodes-to-same-proof", 1)
				continue
			}
			if eq, ok := ops.Ext["G16ProofEqualButPok"].(func(a, b any) bool); ok && nbCommit == 0 && eq(q, g.proof) {
				// same rule as for the single edits: the key prescribes no commitment, so
				// the proof of knowledge is not a component of the statement being verified
				r.Count("byte-flip.component-absent(CommitmentPok,no-commitment-key)", 1)
				continue
			}
			err, pan := verify(q, vk, pw)
			if pan != "" {
				r.Violation("verify-panic/byte-flip", pan, map[string]any{"curve": ops.Name, "bytes_hex": fmt.Sprintf("%x", b)})
			} else if err == nil {
				r.Count("verify.ACCEPTED-must-reject", 1)
				r.Violation("accepted/byte-flip", "Verify accepted a bit-flipped proof that decodes to a different object: "+name,
					map[string]any{"curve": ops.Name, "circuit": spec.String(), "bytes_hex": fmt.Sprintf("%x", b), "public": vecStr(g.pub)})
			} else {
				r.Count("rejected.byte-flip", 1)
			}
		}
	}
}

func clonev(v []*big.Int) []*big.Int {
	o := make([]*big.Int, len(v))
	for i := range v {
		o[i] = new(big.Int).Set(v[i])
	}
	return o
}

// publicCommitted reports whether public wire id is hashed into some commitment challenge.
func publicCommitted(ccs constraint.ConstraintSystem, wire int) bool {
	ci, ok := ccs.GetCommitments().(constraint.Groth16Commitments)
	if !ok {
		return false
	}
	for _, c := range ci {
		for _, w := range c.PublicAndCommitmentCommitted {
			if w == wire {
				return true
			}
		}
	}
	return false
}

// dishonest lets the real prover finish on a wire vector that violates a row.
func dishonest(c *caseCtx, pk groth16.ProvingKey, pub, sec []*big.Int, rng *rand.Rand) {
	r := c.r
	full, _ := circuits.MakeWitness(c.field, pub, sec)
	nbPub := c.ccs.GetNbPublicVariables() // includes the ONE wire
	nbSec := c.ccs.GetNbSecretVariables()
	nbInt := c.ccs.GetNbInternalVariables()
	type target struct {
		class string
		wire  int
	}
	var targets []target
	if nbPub > 1 {
		targets = append(targets, target{"public", 1 + rng.IntN(nbPub-1)})
	}
	if nbSec > 0 {
		targets = append(targets, target{"secret", nbPub + rng.IntN(nbSec)})
	}
	if nbInt > 0 {
		targets = append(targets, target{"internal", nbPub + nbSec + rng.IntN(nbInt)})
		targets = append(targets, target{"internal", nbPub + nbSec + rng.IntN(nbInt)})
	}
	privCommitted := map[int]bool{}
	if ci, ok := c.ccs.GetCommitments().(constraint.Groth16Commitments); ok {
		for _, cm := range ci {
			for _, w := range cm.PrivateCommitted {
				privCommitted[w] = true
			}
			targets = append(targets, target{"commitment-wire", cm.CommitmentIndex})
			if len(cm.PrivateCommitted) > 0 {
				targets = append(targets, target{"private-committed", cm.PrivateCommitted[rng.IntN(len(cm.PrivateCommitted))]})
			}
		}
	}
	for _, tg := range targets {
		for _, recompute := range []bool{false, true} {
			name := fmt.Sprintf("wire[%d](%s)+=1,recomputeABC=%v", tg.wire, tg.class, recompute)
			var badRows int
			var abChanged, cChanged bool
			var newPub []*big.Int
			var hookErr error
			fired := false
			hooks.OnSystem(c.ccs, func(ev *hooks.Event) {
				fired = true
				v := ev.Values.Get(tg.wire)
				v.Add(v, big.NewInt(1)).Mod(v, c.field)
				ev.Values.Set(tg.wire, v)
				w := make([]*big.Int, ev.Values.Len())
				for i := range w {
					w[i] = ev.Values.Get(i)
				}
				res, err := ceval.EvalR1CS[constraint.U64](c.ccs.(ceval.R1CSSys[constraint.U64]), w)
				if err != nil {
					hookErr = err
					return
				}
				badRows = len(res.BadRows)
				// does the prover read the edited value at all?  Without recomputed
				// row evaluations it enters the proof only through the MSMs over the
				// wire vector: Ar (wire occurs in an A column), Bs (B column) and Krs
				// (any column, and only for wires whose K element is in the proving
				// key: not public, not a commitment wire, not privately committed —
				// the commitment itself was computed before the hook fired).
				for i := range res.A {
					if res.A[i].Cmp(ev.A.Get(i)) != 0 || res.B[i].Cmp(ev.B.Get(i)) != 0 {
						abChanged = true
					}
					if res.C[i].Cmp(ev.C.Get(i)) != 0 {
						cChanged = true
					}
				}
				if recompute {
					for i := range res.A {
						ev.A.Set(i, res.A[i])
						ev.B.Set(i, res.B[i])
						ev.C.Set(i, res.C[i])
					}
				}
				newPub = w[1:nbPub]
			})
			var proof groth16.Proof
			var err error
			pan, stack := vcore.Catch(func() { proof, err = groth16.Prove(c.ccs, pk, full) })
			hooks.OffSystem(c.ccs)
			if !fired {
				r.Inconclusive("postsolve-hook-not-reached")
				continue
			}
			r.Count("dishonest-prover.hook-events", 1)
			if hookErr != nil {
				r.Inconclusive("ceval:" + hookErr.Error())
				continue
			}
			if pan != nil {
				r.Inconclusive("prover-panicked-on-edited-wires")
				r.Count("dishonest-prover.prover-panic", 1)
				_ = stack
				continue
			}
			if err != nil {
				r.Count("dishonest-prover.prover-error", 1)
				continue
			}
			if badRows == 0 {
				r.Eval(c.label+"|dishonest-trivial|"+name, false)
				r.Count("dishonest-prover.edit-left-all-rows-satisfied(skipped)", 1)
				continue
			}
			inKrs := tg.class == "internal" || (tg.class == "secret" && !privCommitted[tg.wire])
			if !recompute && !abChanged && !(cChanged && inKrs) {
				// e.g. a privately committed wire that only occurs in C columns: the
				// proof is the honest one, accepting it is correct
				r.Eval(c.label+"|dishonest-unread|"+name, false)
				r.Count("dishonest-prover.edited-value-never-read-by-the-prover(skipped)", 1)
				continue
			}
			c.expectReject("dishonest-prover", name+"|vs-original-public", proof, pub)
			if tg.class == "public" {
				c.expectReject("dishonest-prover", name+"|vs-edited-public", proof, newPub)
			}
		}
	}
}
