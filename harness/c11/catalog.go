//go:build verif

package c11

import (
	"fmt"
	"math/big"

	"github.com/consensys/gnark-crypto/ecc"
	"github.com/consensys/gnark/constraint/solver"
	"github.com/consensys/gnark/frontend"
	"github.com/consensys/gnark/std/algebra/emulated/sw_bls12381"
	"github.com/consensys/gnark/std/hash/mimc"
	"github.com/consensys/gnark/std/hash/sha2"
	"github.com/consensys/gnark/std/lookup/logderivlookup"
	"github.com/consensys/gnark/std/math/cmp"
	"github.com/consensys/gnark/std/math/emulated"
	"github.com/consensys/gnark/std/math/emulated/emparams"
	"github.com/consensys/gnark/std/math/uints"
	"github.com/consensys/gnark/std/multicommit"
	gkrposeidon2 "github.com/consensys/gnark/std/permutation/poseidon2/gkr-poseidon2"
	"github.com/consensys/gnark/std/rangecheck"
	"github.com/consensys/gnark/std/selector"

	"github.com/consensys/gnark/verifharness/internal/circuits"
)

// entry is one circuit of the catalogue: a constructor of fresh circuit values
// (Compile must never see a value that a previous compilation touched).
type entry struct {
	name    string
	field   ecc.ID
	r1cs    bool
	scs     bool
	newCirc func() frontend.Circuit
	opts    []frontend.CompileOption
	heavy   bool // compiled fewer times (constant factor), because one compilation costs ~1 s
	storm   bool // compiled in dedicated rounds of simultaneous compilations (gadgets with package-level state)
}

func twoOutHint(_ *big.Int, in, out []*big.Int) error {
	out[0].Add(in[0], in[1])
	out[1].Mul(in[0], in[1])
	return nil
}

func init() { solver.RegisterHint(twoOutHint) }

// ---- hints
type hintCircuit struct {
	A, B frontend.Variable
	C    frontend.Variable `gnark:",public"`
}

func (c *hintCircuit) Define(api frontend.API) error {
	outs, err := api.Compiler().NewHint(twoOutHint, 2, c.A, c.B)
	if err != nil {
		return err
	}
	api.AssertIsEqual(outs[0], api.Add(c.A, c.B))
	api.AssertIsEqual(outs[1], api.Mul(c.A, c.B))
	bits := api.ToBinary(c.A, 16)
	api.AssertIsEqual(api.FromBinary(bits...), c.A)
	api.AssertIsEqual(c.C, api.Select(api.IsZero(c.B), outs[0], outs[1]))
	api.Println("c is", c.C, "and a is", c.A)
	return nil
}

// ---- range checks only: two circuits with the same number of checks and the same total width
// but a different distribution of widths (what a gadget derives from aggregate figures must not
// be remembered from one compilation to the next)
type rcCircuit struct {
	V      []frontend.Variable
	widths []int
}

func newRc(widths []int) *rcCircuit {
	return &rcCircuit{V: make([]frontend.Variable, len(widths)), widths: widths}
}

func (c *rcCircuit) Define(api frontend.API) error {
	rc := rangecheck.New(api)
	for i := range c.V {
		rc.Check(c.V[i], c.widths[i])
	}
	return nil
}

func rcWidths(uniform bool) []int {
	w := make([]int, 200)
	for i := range w {
		switch {
		case uniform:
			w[i] = 16
		case i < 100:
			w[i] = 15
		default:
			w[i] = 17
		}
	}
	return w
}

// ---- lookup + rangecheck + cmp + selector
type gadgetCircuit struct {
	Idx  [5]frontend.Variable
	Vals [7]frontend.Variable
	Out  frontend.Variable `gnark:",public"`
}

func (c *gadgetCircuit) Define(api frontend.API) error {
	t := logderivlookup.New(api)
	for i := range c.Vals {
		t.Insert(c.Vals[i])
	}
	for i := 0; i < 9; i++ {
		t.Insert(i * 3)
	}
	res := t.Lookup(c.Idx[:]...)
	rc := rangecheck.New(api)
	widths := []int{3, 8, 13, 16, 33, 64}
	for i, r := range res {
		rc.Check(r, widths[i%len(widths)]+40)
	}
	for i := range c.Idx {
		rc.Check(c.Idx[i], widths[i%len(widths)])
	}
	s := selector.Mux(api, c.Idx[0], c.Vals[0], c.Vals[1], c.Vals[2], c.Vals[3], c.Vals[4], c.Vals[5], c.Vals[6], 7)
	l := cmp.IsLess(api, c.Idx[1], c.Idx[2])
	acc := api.Add(s, l)
	for _, r := range res {
		acc = api.Add(acc, r)
	}
	api.AssertIsEqual(c.Out, acc)
	return nil
}

// ---- emulated arithmetic (deferred mul checks) + multicommit
type emuCircuit struct {
	A, B emulated.Element[emulated.Secp256k1Fp]
	X    frontend.Variable
	Out  emulated.Element[emulated.Secp256k1Fp] `gnark:",public"`
}

func (c *emuCircuit) Define(api frontend.API) error {
	f, err := emulated.NewField[emulated.Secp256k1Fp](api)
	if err != nil {
		return err
	}
	x := f.Mul(&c.A, &c.B)
	for i := 0; i < 3; i++ {
		x = f.Add(f.Mul(x, &c.A), &c.B)
		x = f.Sub(x, f.MulConst(&c.A, big.NewInt(5)))
	}
	inv := f.Inverse(&c.B)
	x = f.Mul(x, inv)
	f.AssertIsEqual(x, &c.Out)
	multicommit.WithCommitment(api, func(api frontend.API, cm frontend.Variable) error {
		api.AssertIsDifferent(cm, c.X)
		return nil
	}, c.X)
	multicommit.WithCommitment(api, func(api frontend.API, cm2 frontend.Variable) error {
		api.AssertIsDifferent(cm2, api.Mul(c.X, c.X))
		return nil
	}, c.X, api.Mul(c.X, 3))
	return nil
}

// ---- Defer callbacks that defer
type deferCircuit struct {
	A [4]frontend.Variable
	S frontend.Variable `gnark:",public"`
}

func (c *deferCircuit) Define(api frontend.API) error {
	sum := frontend.Variable(0)
	for i := range c.A {
		i := i
		api.Compiler().Defer(func(api frontend.API) error {
			t := api.Mul(c.A[i], c.A[(i+1)%4])
			api.AssertIsDifferent(t, 12345)
			if i%2 == 0 {
				api.Compiler().Defer(func(api frontend.API) error {
					api.AssertIsBoolean(api.IsZero(api.Sub(t, c.A[i])))
					return nil
				})
			}
			return nil
		})
		sum = api.Add(sum, c.A[i])
	}
	api.AssertIsEqual(sum, c.S)
	return nil
}

// ---- the compiler's wire-to-constraint query interface (sparse builder)
type wireQueryCircuit struct {
	Used   [3]frontend.Variable
	Unused [9]frontend.Variable // appear in no constraint: addMissing must add one each
	Out    frontend.Variable    `gnark:",public"`
	exact  bool
}

type wireQuerier interface {
	GetWireConstraints(wires []frontend.Variable, addMissing bool) ([][2]int, error)
	GetWiresConstraintExact(wires []frontend.Variable, addMissing bool) ([][2]int, error)
}

func (c *wireQueryCircuit) Define(api frontend.API) error {
	api.AssertIsEqual(c.Out, api.Mul(api.Add(c.Used[0], c.Used[1]), c.Used[2]))
	q, ok := api.Compiler().(wireQuerier)
	if !ok {
		return fmt.Errorf("compiler does not offer the wire query interface")
	}
	wires := []frontend.Variable{c.Used[0]}
	for i := range c.Unused {
		wires = append(wires, c.Unused[i])
	}
	wires = append(wires, c.Used[2])
	var pos [][2]int
	var err error
	if c.exact {
		wires = append(wires, 7, 7, 11, c.Unused[3], c.Used[0])
		pos, err = q.GetWiresConstraintExact(wires, true)
	} else {
		pos, err = q.GetWireConstraints(wires, true)
	}
	if err != nil {
		return err
	}
	// make the returned positions part of the compiled system
	acc := frontend.Variable(0)
	for _, p := range pos {
		acc = api.Add(acc, p[0]*3+p[1])
	}
	api.AssertIsDifferent(api.Add(acc, c.Used[1]), -1)
	return nil
}

// ---- hashes / uints
type hashCircuit struct {
	In  [40]uints.U8
	M   [3]frontend.Variable
	Out frontend.Variable `gnark:",public"`
}

func (c *hashCircuit) Define(api frontend.API) error {
	h, err := sha2.New(api)
	if err != nil {
		return err
	}
	h.Write(c.In[:])
	d := h.Sum()
	m, err := mimc.NewMiMC(api)
	if err != nil {
		return err
	}
	m.Write(c.M[:]...)
	for i := 0; i < 4; i++ {
		m.Write(d[i].Val)
	}
	api.AssertIsEqual(c.Out, m.Sum())
	return nil
}

// ---- GKR sub-circuit (poseidon2 compression over GKR, bls12-377)
type gkrCircuit struct {
	Ins  [4][2]frontend.Variable
	Outs [4]frontend.Variable `gnark:",public"`
}

func (c *gkrCircuit) Define(api frontend.API) error {
	p := gkrposeidon2.NewGkrCompressions(api)
	for i := range c.Ins {
		api.AssertIsEqual(c.Outs[i], p.Compress(c.Ins[i][0], c.Ins[i][1]))
	}
	return nil
}

// ---- variable-modulus emulated arithmetic (the modulus is an Element of the circuit value)
type varModCircuit struct {
	A, B, M emulated.Element[emparams.Mod1e512]
	Out     emulated.Element[emparams.Mod1e512] `gnark:",public"`
}

func (c *varModCircuit) Define(api frontend.API) error {
	f, err := emulated.NewField[emparams.Mod1e512](api)
	if err != nil {
		return err
	}
	x := f.ModMul(&c.A, &c.B, &c.M)
	x = f.ModAdd(x, &c.A, &c.M)
	x = f.ModMul(x, x, &c.M)
	f.ModAssertIsEqual(x, &c.Out, &c.M)
	return nil
}

// ---- emulated BLS12-381 G1 gadget (package-level constants of the curve packages)
type g1Circuit struct {
	P sw_bls12381.G1Affine
	k int
}

func (c *g1Circuit) Define(api frontend.API) error {
	g, err := sw_bls12381.NewG1(api)
	if err != nil {
		return err
	}
	for i := 0; i <= c.k; i++ { // k differs between variants: different wire numbering
		g.AssertIsOnG1(&c.P)
	}
	return nil
}

func catalog(nSpecs int, specSeed func(i int) *circuits.Spec) []entry {
	var es []entry
	for i := 0; i < nSpecs; i++ {
		s := specSeed(i)
		field := []ecc.ID{ecc.BN254, ecc.BLS12_377, ecc.BW6_761}[i%3]
		var opts []frontend.CompileOption
		if i%4 == 1 {
			opts = append(opts, frontend.WithCompressThreshold(2))
		}
		if i%4 == 2 {
			opts = append(opts, frontend.WithCompressThreshold(5), frontend.IgnoreUnconstrainedInputs())
		}
		es = append(es, entry{name: fmt.Sprintf("spec%d%s", i, s), field: field, r1cs: true, scs: true, newCirc: func() frontend.Circuit { return s.New() }, opts: opts})
	}
	es = append(es,
		entry{name: "hints+println", field: ecc.BN254, r1cs: true, scs: true, newCirc: func() frontend.Circuit { return &hintCircuit{} }},
		entry{name: "lookup+rangecheck+cmp+mux", field: ecc.BN254, r1cs: true, scs: true, newCirc: func() frontend.Circuit { return &gadgetCircuit{} }},
		entry{name: "lookup+rangecheck+cmp+mux/bls12-377", field: ecc.BLS12_377, r1cs: true, scs: true, newCirc: func() frontend.Circuit { return &gadgetCircuit{} }},
		entry{name: "rangecheck/200x16", field: ecc.BN254, r1cs: true, scs: true, newCirc: func() frontend.Circuit { return newRc(rcWidths(true)) }},
		entry{name: "rangecheck/100x15+100x17", field: ecc.BN254, r1cs: true, scs: true, newCirc: func() frontend.Circuit { return newRc(rcWidths(false)) }},
		entry{name: "emulated+multicommit", field: ecc.BN254, r1cs: true, scs: true, heavy: true, newCirc: func() frontend.Circuit { return &emuCircuit{} }},
		entry{name: "defer-in-defer", field: ecc.BN254, r1cs: true, scs: true, newCirc: func() frontend.Circuit { return &deferCircuit{} }},
		entry{name: "wire-query/GetWireConstraints(addMissing)", field: ecc.BN254, scs: true, newCirc: func() frontend.Circuit { return &wireQueryCircuit{} }},
		entry{name: "wire-query/GetWiresConstraintExact(addMissing)", field: ecc.BN254, scs: true, newCirc: func() frontend.Circuit { return &wireQueryCircuit{exact: true} }},
		entry{name: "sha2+mimc", field: ecc.BN254, r1cs: true, scs: true, heavy: true, newCirc: func() frontend.Circuit { return &hashCircuit{} }},
		entry{name: "emulated-variable-modulus", field: ecc.BN254, r1cs: true, scs: true, newCirc: func() frontend.Circuit { return &varModCircuit{} }},
		entry{name: "sw_bls12381-G1/k=0", field: ecc.BN254, scs: true, heavy: true, storm: true, newCirc: func() frontend.Circuit { return &g1Circuit{k: 0} }},
		entry{name: "sw_bls12381-G1/k=1", field: ecc.BN254, scs: true, heavy: true, storm: true, newCirc: func() frontend.Circuit { return &g1Circuit{k: 1} }},
		entry{name: "gkr-poseidon2", field: ecc.BLS12_377, scs: true, heavy: true, newCirc: func() frontend.Circuit { return &gkrCircuit{} }},
	)
	return es
}

// Exported is one catalogue entry as seen by other monitors (C09).
type Exported struct {
	Name      string
	Field     ecc.ID
	R1CS      bool
	SCS       bool
	New       func() frontend.Circuit
	Opts      []frontend.CompileOption
	Heavy     bool
	Generated bool
}

// Catalog returns the gadget circuits of the catalogue (without the generated arithmetic family).
func Catalog() []Exported {
	var out []Exported
	for _, e := range catalog(0, nil) {
		out = append(out, Exported{Name: e.name, Field: e.field, R1CS: e.r1cs, SCS: e.scs, New: e.newCirc, Opts: e.opts, Heavy: e.heavy})
	}
	return out
}
