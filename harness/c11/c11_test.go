//go:build verif

// C11 — Compilation is deterministic. History monitor: the same circuit value
// is compiled repeatedly, in parallel, after other compilations, and in fresh
// child processes; the serialized bytes of every compilation must be identical.
package c11

import (
	"bytes"
	"crypto/sha256"
	"encoding/json"
	"fmt"
	"os"
	"sort"
	"strconv"
	"sync"
	"testing"
	"time"

	"github.com/consensys/gnark/backend/groth16"
	"github.com/consensys/gnark/constraint"
	"github.com/consensys/gnark/frontend"
	"github.com/consensys/gnark/frontend/cs/r1cs"
	"github.com/consensys/gnark/frontend/cs/scs"

	"github.com/consensys/gnark/verifharness/internal/circuits"
	"github.com/consensys/gnark/verifharness/internal/vcore"
)

type variant struct {
	e       entry
	builder string
}

func (v variant) key() string { return v.e.name + "|" + v.builder }

func variants(r *vcore.Run) []variant {
	n := r.Pick(6, 24)
	es := catalog(n, func(i int) *circuits.Spec { return circuits.RandSpec(r.Rand(fmt.Sprintf("spec/%d", i)), 3) })
	var vs []variant
	for _, e := range es {
		if e.r1cs {
			vs = append(vs, variant{e, "r1cs"})
		}
		if e.scs {
			vs = append(vs, variant{e, "scs"})
		}
	}
	return vs
}

func compile(v variant) (constraint.ConstraintSystem, []byte, error) {
	var nb frontend.NewBuilder = r1cs.NewBuilder
	if v.builder == "scs" {
		nb = scs.NewBuilder
	}
	ccs, err := frontend.Compile(v.e.field.ScalarField(), nb, v.e.newCirc(), v.e.opts...)
	if err != nil {
		return nil, nil, err
	}
	var b bytes.Buffer
	if _, err := ccs.WriteTo(&b); err != nil {
		return nil, nil, err
	}
	return ccs, b.Bytes(), nil
}

type digests struct {
	mu sync.Mutex
	m  map[string]map[string]int // variant -> digest -> count
	by map[string]map[string][]byte
}

func (d *digests) add(key string, b []byte) {
	h := fmt.Sprintf("%x", sha256.Sum256(b))
	d.mu.Lock()
	defer d.mu.Unlock()
	if d.m[key] == nil {
		d.m[key] = map[string]int{}
		d.by[key] = map[string][]byte{}
	}
	d.m[key][h]++
	if _, ok := d.by[key][h]; !ok && len(d.by[key]) < 2 {
		d.by[key][h] = b
	}
}

func TestC11(t *testing.T) {
	if vcore.IsChild() {
		t.Skip("child mode")
	}
	r := vcore.Start(t, "C11")
	vs := variants(r)
	d := &digests{m: map[string]map[string]int{}, by: map[string]map[string][]byte{}}
	compileErr := map[string]string{}
	var emu sync.Mutex

	run := func(v variant, mode string) {
		_, b, err := compile(v)
		r.Count("compilations."+mode, 1)
		if err != nil {
			emu.Lock()
			compileErr[v.key()] = firstLine(err.Error())
			emu.Unlock()
			r.Count("compile-errors", 1)
			return
		}
		d.add(v.key(), b)
	}

	// (1) repeated sequential compilation in one process
	nSeq := r.Pick(10, 60)
	for _, v := range vs {
		n := nSeq
		if v.e.heavy {
			n = 2
		}
		t0 := time.Now()
		for i := 0; i < n; i++ {
			run(v, "sequential")
		}
		t.Logf("variant %-60s %d compilations %.2fs", v.key(), n, time.Since(t0).Seconds())
	}
	// (1b) the same circuit VALUE compiled again and again (state cached inside the circuit's own
	// elements must not leak from one compilation into the next)
	for _, v := range vs {
		persistent := v.e.newCirc()
		n := 3
		if v.e.heavy {
			n = 2
		}
		for i := 0; i < n; i++ {
			var nb frontend.NewBuilder = r1cs.NewBuilder
			if v.builder == "scs" {
				nb = scs.NewBuilder
			}
			ccs, err := frontend.Compile(v.e.field.ScalarField(), nb, persistent, v.e.opts...)
			r.Count("compilations.same-circuit-value", 1)
			if err != nil {
				continue
			}
			var b bytes.Buffer
			ccs.WriteTo(&b)
			d.add(v.key(), b.Bytes())
		}
	}
	// (2) history: compile -> other circuits -> compile again (interleaved order)
	for round := 0; round < r.Pick(2, 6); round++ {
		for _, v := range vs {
			if v.e.heavy && round > 0 {
				continue
			}
			run(v, "interleaved")
		}
	}
	// (3) parallel compilation of the same and of different circuits
	for round := 0; round < r.Pick(2, 8); round++ {
		var wg sync.WaitGroup
		for _, v := range vs {
			for k := 0; k < 2; k++ {
				if v.e.heavy && round > 0 {
					continue
				}
				wg.Add(1)
				go func(v variant) {
					defer wg.Done()
					run(v, "parallel")
				}(v)
			}
		}
		wg.Wait()
	}
	// (3b) storms: rounds of simultaneous compilations of the gadget circuits that share
	// package-level objects (different circuits at once: different wire numberings)
	{
		var sv []variant
		for _, v := range vs {
			if v.e.storm {
				sv = append(sv, v)
			}
		}
		for round := 0; round < r.Pick(4, 10) && len(sv) > 0; round++ {
			var wg sync.WaitGroup
			for k := 0; k < 6; k++ {
				wg.Add(1)
				go func(v variant) {
					defer wg.Done()
					run(v, "storm")
				}(sv[k%len(sv)])
			}
			wg.Wait()
		}
	}
	// (4) fresh processes (per-process map hash seeds)
	nChild := r.Pick(2, 6)
	var cmu sync.Mutex
	childDigests := map[string]map[string]int{}
	vcore.Parallel(nChild, 3, func(i int) {
		out := fmt.Sprintf("%s/work/C11-children/digests-%s-seed%d-%d.json", vcore.Root(), r.Tier, r.Seed, i)
		os.Remove(out)
		res := r.RunChild("TestC11Child", fmt.Sprintf("proc%d", i), []string{"VERIF_C11_OUT=" + out, fmt.Sprintf("VERIF_C11_CHILD=%d", i)}, 30*time.Minute)
		if !res.OK {
			if res.TimedOut {
				r.Inconclusive("child-watchdog")
			} else {
				r.Violation("child-crash", "compiling in a fresh process crashed", map[string]any{"output": res.Output})
			}
			return
		}
		b, err := os.ReadFile(out)
		if err != nil {
			r.Inconclusive("child-digests-missing")
			return
		}
		var m map[string][]string
		json.Unmarshal(b, &m)
		cmu.Lock()
		for k, hs := range m {
			if childDigests[k] == nil {
				childDigests[k] = map[string]int{}
			}
			for _, h := range hs {
				childDigests[k][h]++
			}
		}
		cmu.Unlock()
		r.Count("child-processes", 1)
	})

	// verdicts
	keys := make([]string, 0, len(vs))
	for _, v := range vs {
		keys = append(keys, v.key())
	}
	sort.Strings(keys)
	for _, k := range keys {
		if e, bad := compileErr[k]; bad {
			r.Inconclusive("compile-error:" + k + ":" + e)
			continue
		}
		all := map[string]int{}
		for h, n := range d.m[k] {
			all[h] += n
		}
		for h, n := range childDigests[k] {
			all[h] += n
			r.Count("compilations.fresh-process", n)
		}
		total := 0
		for _, n := range all {
			total += n
		}
		r.Eval(k, true)
		r.Count("variants", 1)
		if len(all) == 1 {
			r.Count("variants.single-digest", 1)
			for h := range all {
				r.SampleClass("variant", map[string]any{"circuit": k, "compilations": total, "sha256": h})
			}
			continue
		}
		// locate the first differing offset between two in-process serializations
		detail := fmt.Sprintf("%d distinct serializations in %d compilations of %s", len(all), total, k)
		rep := map[string]any{"circuit": k, "digests": all}
		var two [][]byte
		for _, b := range d.by[k] {
			two = append(two, b)
		}
		if len(two) == 2 {
			off := 0
			for off < len(two[0]) && off < len(two[1]) && two[0][off] == two[1][off] {
				off++
			}
			rep["first_differing_offset"] = off
			rep["len_a"], rep["len_b"] = len(two[0]), len(two[1])
			detail += fmt.Sprintf("; first differing byte at offset %d", off)
		} else {
			detail += "; in-process compilations agree, a fresh process differs"
		}
		r.Violation("nondeterministic-compile/"+sigName(k), detail, rep)
	}

	// (5) keys clause: a key made for compilation #1 works with compilation #k
	keysClause(r, vs)

	r.Require("variants", 10)
	r.Require("compilations.parallel", 20)
	r.Require("child-processes", 2)
	r.Finish("exploration",
		"catalogue of circuits reaching every mechanism of the anchors (generated arithmetic circuits with commitments and compile options, hints+logs, lookup tables, range checks, comparators, mux, emulated arithmetic with deferred checks, multicommit nesting, Defer-in-Defer, the wire-to-constraint query interface with addMissing on unused wires and repeated constants, sha2+mimc, a GKR sub-circuit) x {r1cs, scs}; each variant compiled repeatedly in sequence, interleaved with the others, in parallel goroutines, and in fresh child processes; oracle: all WriteTo byte strings of a variant have one SHA-256. distinct = variant; every variant is non-trivial",
		[]string{"determinism is observed over the runs made (map iteration order and goroutine scheduling are sampled, not enumerated)"})
}

func sigName(k string) string {
	// strip generated spec parameters so the class is stable
	for i := 0; i < len(k); i++ {
		if k[i] == '{' {
			j := i
			for j < len(k) && k[j] != '|' {
				j++
			}
			return "generated-spec" + k[j:]
		}
	}
	return k
}

func keysClause(r *vcore.Run, vs []variant) {
	n := 0
	for _, v := range vs {
		if v.builder != "r1cs" || len(v.e.name) < 4 || v.e.name[:4] != "spec" {
			continue
		}
		if n >= r.Pick(3, 10) {
			break
		}
		n++
		ccs1, _, err := compile(v)
		if err != nil {
			continue
		}
		pk, vk, err := groth16.Setup(ccs1)
		if err != nil {
			r.Inconclusive("keys-setup")
			continue
		}
		ccs2, _, _ := compile(v)
		// a satisfying witness: the spec is recoverable through the closure only; draw it again
		c := v.e.newCirc().(*circuits.Circuit)
		spec := circuits.SpecOf(c)
		pub, sec := spec.Assign(r.Rand("keys/"+v.key()), v.e.field.ScalarField())
		full, _ := circuits.MakeWitness(v.e.field.ScalarField(), pub, sec)
		proof, err := groth16.Prove(ccs2, pk, full)
		r.Eval("keys|"+v.key(), true)
		if err != nil {
			r.Violation("keys-unusable-with-recompilation", "Prove with a recompiled system and the earlier key failed: "+err.Error(), map[string]any{"circuit": v.key()})
			continue
		}
		pw, _ := full.Public()
		if err := groth16.Verify(proof, vk, pw); err != nil {
			r.Violation("keys-unusable-with-recompilation", "proof made with a recompiled system does not verify under the earlier key: "+err.Error(), map[string]any{"circuit": v.key()})
			continue
		}
		r.Count("keys.reused-with-recompilation", 1)
	}
}

// TestC11Child compiles every variant twice in a fresh process and reports the digests.
func TestC11Child(t *testing.T) {
	if !vcore.IsChild() {
		t.Skip("parent mode")
	}
	r := vcore.Start(t, "C11")
	vs := variants(r)
	// every process compiles the variants in another order: what a compilation produces must not
	// depend on what the process compiled before (child 0: the parent's order; odd children:
	// reversed; the others: rotated)
	if ci, _ := strconv.Atoi(os.Getenv("VERIF_C11_CHILD")); ci > 0 && len(vs) > 1 {
		if ci%2 == 1 {
			for a, b := 0, len(vs)-1; a < b; a, b = a+1, b-1 {
				vs[a], vs[b] = vs[b], vs[a]
			}
		} else {
			k := (ci * 7) % len(vs)
			vs = append(append(vs[:0:0], vs[k:]...), vs[:k]...)
		}
	}
	out := map[string][]string{}
	for _, v := range vs {
		for i := 0; i < 2; i++ {
			if v.e.heavy && i > 0 {
				continue
			}
			_, b, err := compile(v)
			if err != nil {
				continue
			}
			out[v.key()] = append(out[v.key()], fmt.Sprintf("%x", sha256.Sum256(b)))
			r.Eval(v.key()+fmt.Sprint(i), true)
		}
	}
	b, _ := json.Marshal(out)
	if err := os.WriteFile(os.Getenv("VERIF_C11_OUT"), b, 0o644); err != nil {
		t.Fatal(err)
	}
	r.ExportPartial()
}

func firstLine(s string) string {
	for i := 0; i < len(s); i++ {
		if s[i] == '\n' {
			return s[:i]
		}
	}
	return s
}
