//go:build verif

// C08 — Verifiers and decoders of untrusted data return errors, never crash.
// Each (curve, back-end) batch runs in a child process: a panic in one of the
// goroutines gnark spawns, a runtime fatal error or an out-of-memory abort
// cannot be recovered in-process. Every case's input is on disk before it runs.
package c08

import (
	"bytes"
	"encoding/binary"
	"fmt"
	"io"
	"math/big"
	"math/rand/v2"
	"os"
	"strings"
	"testing"
	"time"

	"github.com/consensys/gnark-crypto/ecc"
	"github.com/consensys/gnark/backend/groth16"
	"github.com/consensys/gnark/backend/plonk"
	"github.com/consensys/gnark/backend/witness"
	"github.com/consensys/gnark/frontend"
	"github.com/consensys/gnark/frontend/cs/r1cs"
	"github.com/consensys/gnark/frontend/cs/scs"
	"github.com/consensys/gnark/test/unsafekzg"

	"github.com/consensys/gnark/verifharness/curves"
	"github.com/consensys/gnark/verifharness/internal/circuits"
	"github.com/consensys/gnark/verifharness/internal/cvapi"
	"github.com/consensys/gnark/verifharness/internal/vcore"
)

func TestC08(t *testing.T) {
	if vcore.IsChild() {
		t.Skip("child mode")
	}
	r := vcore.Start(t, "C08")
	type batch struct {
		ops     *cvapi.Ops
		backend string
	}
	var batches []batch
	for _, o := range curves.Tier(r.Quick()) {
		batches = append(batches, batch{o, "groth16"}, batch{o, "plonk"})
	}
	vcore.Parallel(len(batches), 6, func(i int) {
		b := batches[i]
		tag := b.ops.Name + "-" + b.backend
		res := r.RunChild("TestC08Child", tag, []string{"VERIF_C08_CURVE=" + b.ops.Name, "VERIF_C08_BACKEND=" + b.backend}, 40*time.Minute)
		if res.OK {
			r.Count("children.completed", 1)
			return
		}
		if res.TimedOut {
			r.Inconclusive("child-watchdog:" + tag)
			return
		}
		r.Count("children.CRASHED", 1)
		r.Eval("crash|"+tag, true)
		r.Violation("process-crash/"+b.backend+"/"+crashClass(res.Output),
			"child process died while decoding/verifying untrusted data; last case: "+firstLine(res.LastCase),
			map[string]any{"curve": b.ops.Name, "backend": b.backend, "last_case": res.LastCase, "output": res.Output, "log": res.LogPath})
	})
	r.Require("decode.error", 1000)
	r.Require("verify.error", 100)
	r.Require("witness.decode.error", 50)
	r.Finish("exploration",
		"per curve and back-end, from genuine (proof, vk, witness) triples with 0..2 commitments: every truncation length and 1..64-byte extensions of the compressed and raw proof encodings; every length prefix rewritten to 0,1,len-1,len+1,255,65535; PRNG bit flips; object-level shape edits (Commitments / Bsb22Commitments / ClaimedValues of length 0..len+3, nil vs empty); public witnesses of every length 0..n+3; witness encodings with every truncation, header (nbPublic,nbSecret) in {0,n-1,n,n+1,2^31}^2 and vector-length prefix edits; a witness of another curve through the façade. Oracle: no panic / fatal error / process death ever; structurally inconsistent input (wrong counts, header != payload) yields a non-nil error from some stage of ReadFrom -> Public() -> Verify. distinct = input bytes hash; non-trivial = differs from the genuine encoding/object",
		[]string{"declared slice lengths above 2^16 are excluded: gnark-crypto's decoders allocate the declared length before reading (dependency outside /repo; an allocation-size abort, not a panic or index error)",
			"verifying keys and proving keys are trusted inputs (not fuzzed)"})
}

func firstLine(s string) string {
	if i := strings.IndexByte(s, '\n'); i >= 0 {
		return s[:i]
	}
	return s
}

func crashClass(out string) string {
	switch {
	case strings.Contains(out, "out of memory") || strings.Contains(out, "cannot allocate"):
		return "out-of-memory"
	case strings.Contains(out, "index out of range"):
		return "index-out-of-range"
	case strings.Contains(out, "slice bounds out of range"):
		return "slice-bounds"
	case strings.Contains(out, "nil pointer"):
		return "nil-pointer"
	case strings.Contains(out, "fatal error"):
		return "fatal-error"
	case strings.Contains(out, "panic:"):
		return "panic"
	}
	return "died"
}

// ---------------------------------------------------------------- child

type triple struct {
	spec    *circuits.Spec
	proof   io.WriterTo // groth16.Proof or plonk.Proof
	vk      any
	pub     []*big.Int
	sec     []*big.Int
	full    witness.Witness
	public  witness.Witness
	backend string
}

type child struct {
	r     *vcore.Run
	ops   *cvapi.Ops
	field *big.Int
	rng   *rand.Rand
}

func TestC08Child(t *testing.T) {
	if !vcore.IsChild() {
		t.Skip("parent mode")
	}
	r := vcore.Start(t, "C08")
	var ops *cvapi.Ops
	for _, o := range curves.All {
		if o.Name == os.Getenv("VERIF_C08_CURVE") {
			ops = o
		}
	}
	backend := os.Getenv("VERIF_C08_BACKEND")
	c := &child{r: r, ops: ops, field: ops.ID.ScalarField(), rng: r.Rand(ops.Name + "/" + backend)}
	nTriples := r.Pick(3, 9)
	for i := 0; i < nTriples; i++ {
		spec := circuits.RandSpec(c.rng, 0)
		if i%3 == 1 {
			spec.Commits = []circuits.CommitSpec{{Sec: []int{0}}}
		}
		if i%3 == 2 {
			spec.Commits = []circuits.CommitSpec{{Pub: []int{0}, Sec: []int{0}}, {Sec: []int{0}, Prev: []int{0}}}
		}
		if spec.NSec == 0 {
			spec.NSec = 1
		}
		if i%3 == 0 {
			// a trailing public input that no constraint uses and whose value is 0: a decoder that
			// pads a short vector with zeros reproduces exactly this witness
			spec.NPub++
			spec.UnusedPub = append(spec.UnusedPub, spec.NPub-1)
			spec.ZeroPub = []int{spec.NPub - 1}
		}
		tr := c.build(spec, backend)
		if tr == nil {
			continue
		}
		r.Count("genuine-triples", 1)
		c.proofBytes(tr)
		c.shapeEdits(tr)
		c.publicLengths(tr)
		c.witnessBytes(tr)
		c.otherCurveWitness(tr)
	}
	r.ExportPartial()
}

func (c *child) build(spec *circuits.Spec, backend string) *triple {
	pub, sec := spec.Assign(c.rng, c.field)
	full, err := circuits.MakeWitness(c.field, pub, sec)
	if err != nil {
		c.r.Inconclusive("witness")
		return nil
	}
	public, _ := full.Public()
	tr := &triple{spec: spec, pub: pub, sec: sec, full: full, public: public, backend: backend}
	if backend == "groth16" {
		ccs, err := frontend.Compile(c.field, r1cs.NewBuilder, spec.New())
		if err != nil {
			c.r.Inconclusive("compile")
			return nil
		}
		pk, vk, err := groth16.Setup(ccs)
		if err != nil {
			c.r.Inconclusive("setup")
			return nil
		}
		p, err := groth16.Prove(ccs, pk, full)
		if err != nil {
			c.r.Inconclusive("prove")
			return nil
		}
		tr.proof, tr.vk = p, vk
	} else {
		ccs, err := frontend.Compile(c.field, scs.NewBuilder, spec.New())
		if err != nil {
			c.r.Inconclusive("compile")
			return nil
		}
		srs, srsL, err := unsafekzg.NewSRS(ccs)
		if err != nil {
			c.r.Inconclusive("srs")
			return nil
		}
		pk, vk, err := plonk.Setup(ccs, srs, srsL)
		if err != nil {
			c.r.Inconclusive("setup")
			return nil
		}
		p, err := plonk.Prove(ccs, pk, full)
		if err != nil {
			c.r.Inconclusive("prove")
			return nil
		}
		tr.proof, tr.vk = p, vk
	}
	if err := c.verifyObj(tr, tr.proof, tr.public); err != nil {
		c.r.Inconclusive("genuine-rejected")
		return nil
	}
	return tr
}

func (c *child) newProof(tr *triple) io.ReaderFrom {
	if tr.backend == "groth16" {
		return groth16.NewProof(c.ops.ID)
	}
	return plonk.NewProof(c.ops.ID)
}

func (c *child) verifyObj(tr *triple, proof any, pw witness.Witness) error {
	if tr.backend == "groth16" {
		return groth16.Verify(proof.(groth16.Proof), tr.vk.(groth16.VerifyingKey), pw)
	}
	return plonk.Verify(proof.(plonk.Proof), tr.vk.(plonk.VerifyingKey), pw)
}

func (c *child) equal(tr *triple, a, b any) bool {
	if tr.backend == "groth16" {
		return c.ops.G16ProofEqual(a, b)
	}
	return c.ops.PlonkProofEqual(a, b)
}

func (c *child) lensOK(tr *triple, b []byte) bool {
	if tr.backend == "groth16" {
		return cvapi.LensOK(c.ops.G16DeclaredLens(b))
	}
	return cvapi.LensOK(c.ops.PlonkDeclaredLens(b))
}

// decodeAndVerify is the pipeline ReadFrom -> Verify on hostile bytes.
// mustErr: the input is structurally inconsistent, some stage must say so.
func (c *child) decodeAndVerify(tr *triple, class, desc string, b []byte, mustErr bool) {
	r := c.r
	if !c.lensOK(tr, b) {
		r.Count(class+".excluded(declared-length>cap)", 1)
		return
	}
	vcore.ChildCaseStart(fmt.Sprintf("%s %s %s %s", c.ops.Name, tr.backend, class, desc), b)
	r.Eval(fmt.Sprintf("%s|%s|%x", tr.backend, class, b), true)
	q := c.newProof(tr)
	var derr error
	if p, st := vcore.Catch(func() { _, derr = q.ReadFrom(bytes.NewReader(b)) }); p != nil {
		r.Count("decode.PANIC", 1)
		r.Violation("decode-panic/"+tr.backend+"/"+class, fmt.Sprintf("Proof.ReadFrom panicked (%s): %v", desc, p),
			map[string]any{"curve": c.ops.Name, "backend": tr.backend, "desc": desc, "bytes_hex": fmt.Sprintf("%x", b), "stack": st})
		return
	}
	if derr != nil {
		r.Count("decode.error", 1)
		r.Count("decode.error."+class, 1)
		r.SampleClass(tr.backend+"/"+class+"/decode-error", map[string]any{"curve": c.ops.Name, "desc": desc, "decoder_said": derr.Error(), "len": len(b)})
		return
	}
	r.Count("decode.ok."+class, 1)
	same := c.equal(tr, q, tr.proof)
	var verr error
	if p, st := vcore.Catch(func() { verr = c.verifyObj(tr, q, tr.public) }); p != nil {
		r.Count("verify.PANIC", 1)
		r.Violation("verify-panic/"+tr.backend+"/"+class, fmt.Sprintf("Verify panicked on a decodable proof (%s): %v", desc, p),
			map[string]any{"curve": c.ops.Name, "backend": tr.backend, "desc": desc, "bytes_hex": fmt.Sprintf("%x", b), "stack": st})
		return
	}
	if verr != nil {
		r.Count("verify.error", 1)
		r.SampleClass(tr.backend+"/"+class+"/verify-error", map[string]any{"curve": c.ops.Name, "desc": desc, "verifier_said": verr.Error()})
		return
	}
	if same {
		r.Count("verify.accepted(decodes-to-genuine)", 1)
		return
	}
	// accepted and different from genuine: soundness is C01/C02's business, but an
	// inconsistent structure must have been reported
	if mustErr {
		r.Violation("inconsistent-structure-accepted/"+tr.backend+"/"+class, "no stage reported the inconsistency: "+desc,
			map[string]any{"curve": c.ops.Name, "backend": tr.backend, "desc": desc, "bytes_hex": fmt.Sprintf("%x", b)})
	} else {
		r.Count("verify.accepted-different-object(see C01/C02)", 1)
		r.Violation("accepted-different-object/"+tr.backend+"/"+class, "Verify accepted hostile bytes decoding to a different proof: "+desc,
			map[string]any{"curve": c.ops.Name, "backend": tr.backend, "desc": desc, "bytes_hex": fmt.Sprintf("%x", b)})
	}
}

func (c *child) encodings(tr *triple) map[string][]byte {
	var a, b bytes.Buffer
	tr.proof.WriteTo(&a)
	tr.proof.(interface {
		WriteRawTo(io.Writer) (int64, error)
	}).WriteRawTo(&b)
	return map[string][]byte{"compressed": a.Bytes(), "raw": b.Bytes()}
}

func (c *child) prefixOffsets(tr *triple, b []byte) []int {
	if tr.backend == "groth16" {
		return c.ops.G16PrefixOffsets(b)
	}
	return c.ops.PlonkPrefixOffsets(b)
}

func (c *child) proofBytes(tr *triple) {
	for _, name := range []string{"compressed", "raw"} {
		enc := c.encodings(tr)[name]
		// (i) every truncation length
		for k := 0; k < len(enc); k++ {
			c.decodeAndVerify(tr, "truncate", fmt.Sprintf("%s[:%d] of %d", name, k, len(enc)), enc[:k], true)
		}
		// extensions
		for _, ext := range []int{1, 2, 7, 31, 32, 33, 64} {
			b := append(append([]byte{}, enc...), make([]byte, ext)...)
			for i := len(enc); i < len(b); i++ {
				b[i] = byte(c.rng.UintN(256))
			}
			c.decodeAndVerify(tr, "extend", fmt.Sprintf("%s+%d bytes", name, ext), b, false)
		}
		// (ii) length prefixes
		for pi, off := range c.prefixOffsets(tr, enc) {
			cur := binary.BigEndian.Uint32(enc[off:])
			for _, v := range []uint32{0, 1, cur - 1, cur + 1, cur + 2, 255, 65535} {
				if v == cur || v > cvapi.MaxDeclaredLen {
					continue
				}
				b := append([]byte{}, enc...)
				binary.BigEndian.PutUint32(b[off:], v)
				c.decodeAndVerify(tr, "length-prefix", fmt.Sprintf("%s prefix#%d %d->%d", name, pi, cur, v), b, true)
			}
		}
		// (iii) bit flips
		n := c.r.Pick(300, 20000)
		for f := 0; f < n; f++ {
			b := append([]byte{}, enc...)
			nb := 1 + c.rng.IntN(3)
			var bits []int
			for i := 0; i < nb; i++ {
				bit := c.rng.IntN(len(b) * 8)
				b[bit/8] ^= 1 << (bit % 8)
				bits = append(bits, bit)
			}
			c.decodeAndVerify(tr, "bit-flip", fmt.Sprintf("%s bits %v", name, bits), b, false)
		}
		// byte-level: random byte strings of assorted lengths
		for f := 0; f < c.r.Pick(100, 2000); f++ {
			b := make([]byte, c.rng.IntN(len(enc)+40))
			for i := range b {
				b[i] = byte(c.rng.UintN(256))
			}
			c.decodeAndVerify(tr, "random-bytes", fmt.Sprintf("%d random bytes", len(b)), b, false)
		}
	}
}

// shapeEdits: object-level edits of the variable-length parts.
func (c *child) shapeEdits(tr *triple) {
	r := c.r
	var edits []cvapi.Edit
	if tr.backend == "groth16" {
		edits = c.ops.G16ListEdits(tr.proof, nil)
	} else {
		edits = c.ops.PlonkListEdits(tr.proof, nil)
	}
	for _, e := range edits {
		if !e.Changed {
			continue
		}
		var b bytes.Buffer
		e.Obj.(io.WriterTo).WriteTo(&b)
		vcore.ChildCaseStart(fmt.Sprintf("%s %s shape-edit %s", c.ops.Name, tr.backend, e.Name), b.Bytes())
		r.Eval(fmt.Sprintf("%s|shape|%s|%x", tr.backend, e.Name, b.Bytes()), true)
		var verr error
		if p, st := vcore.Catch(func() { verr = c.verifyObj(tr, e.Obj, tr.public) }); p != nil {
			r.Count("verify.PANIC", 1)
			r.Violation("verify-panic/"+tr.backend+"/shape-edit", fmt.Sprintf("Verify panicked on %s: %v", e.Name, p),
				map[string]any{"curve": c.ops.Name, "edit": e.Name, "proof_hex": fmt.Sprintf("%x", b.Bytes()), "stack": st})
			continue
		}
		if verr == nil {
			r.Violation("inconsistent-structure-accepted/"+tr.backend+"/shape-edit", "Verify returned nil for "+e.Name,
				map[string]any{"curve": c.ops.Name, "edit": e.Name, "proof_hex": fmt.Sprintf("%x", b.Bytes())})
			continue
		}
		r.Count("verify.error", 1)
		r.Count("verify.error.shape-edit", 1)
		r.SampleClass(tr.backend+"/shape-edit", map[string]any{"curve": c.ops.Name, "edit": e.Name, "verifier_said": verr.Error()})
	}
	// cross product: every list edit of the proof together with every wrong public-vector length
	// (two inconsistencies that may cancel in a verifier's size arithmetic, e.g. k commitments
	// fewer and k public values more)
	n := len(tr.pub)
	for _, e := range edits {
		if !e.Changed {
			continue
		}
		for l := 0; l <= n+3; l++ {
			if l == n {
				continue
			}
			pub := make([]*big.Int, l)
			for i := range pub {
				if i < n {
					pub[i] = tr.pub[i]
				} else {
					pub[i] = big.NewInt(int64(i))
				}
			}
			pw, err := circuits.MakeWitness(c.field, pub, nil)
			if err != nil {
				continue
			}
			name := fmt.Sprintf("%s + public-length %d (want %d)", e.Name, l, n)
			vcore.ChildCaseStart(fmt.Sprintf("%s %s shape-edit x public-length: %s", c.ops.Name, tr.backend, name), nil)
			r.Eval(fmt.Sprintf("%s|%s|shape-x-publen|%s|%d|%d", c.ops.Name, tr.backend, e.Name, l, n), true)
			var verr error
			if p, st := vcore.Catch(func() { verr = c.verifyObj(tr, e.Obj, pw) }); p != nil {
				r.Count("verify.PANIC", 1)
				r.Violation("verify-panic/"+tr.backend+"/shape-edit+public-length", fmt.Sprintf("Verify panicked on %s: %v", name, p),
					map[string]any{"curve": c.ops.Name, "edit": e.Name, "public_length": l, "want": n, "stack": st})
			} else if verr == nil {
				r.Violation("inconsistent-structure-accepted/"+tr.backend+"/shape-edit+public-length", "Verify returned nil for "+name,
					map[string]any{"curve": c.ops.Name, "edit": e.Name, "public_length": l, "want": n})
			} else {
				r.Count("verify.error", 1)
				r.Count("verify.error.shape-edit+public-length", 1)
			}
		}
	}
}

func (c *child) publicLengths(tr *triple) {
	r := c.r
	n := len(tr.pub)
	for l := 0; l <= n+3; l++ {
		if l == n {
			continue
		}
		pub := make([]*big.Int, l)
		for i := range pub {
			if i < n {
				pub[i] = tr.pub[i]
			} else {
				pub[i] = big.NewInt(int64(i))
			}
		}
		pw, err := circuits.MakeWitness(c.field, pub, nil)
		if err != nil {
			continue
		}
		vcore.ChildCaseStart(fmt.Sprintf("%s %s public-length %d (want %d)", c.ops.Name, tr.backend, l, n), nil)
		r.Eval(fmt.Sprintf("%s|%s|publen|%d|%d", c.ops.Name, tr.backend, l, n), true)
		var verr error
		if p, st := vcore.Catch(func() { verr = c.verifyObj(tr, tr.proof, pw) }); p != nil {
			r.Violation("verify-panic/"+tr.backend+"/public-length", fmt.Sprintf("Verify panicked on a public witness of length %d (want %d): %v", l, n, p), map[string]any{"curve": c.ops.Name, "stack": st})
		} else if verr == nil {
			r.Violation("inconsistent-structure-accepted/"+tr.backend+"/public-length", fmt.Sprintf("public witness of length %d accepted (want %d)", l, n), map[string]any{"curve": c.ops.Name})
		} else {
			r.Count("verify.error", 1)
			r.Count("verify.error.public-length", 1)
		}
	}
}

// witnessBytes: hostile witness encodings through UnmarshalBinary -> Public() -> Verify.
func (c *child) witnessBytes(tr *triple) {
	r := c.r
	try := func(class, desc string, b []byte, inconsistent bool) {
		// cap the vector length prefix (offset 8) as for the other decoders
		if len(b) >= 12 && binary.BigEndian.Uint32(b[8:]) > cvapi.MaxDeclaredLen {
			r.Count("witness."+class+".excluded(declared-length>cap)", 1)
			return
		}
		vcore.ChildCaseStart(fmt.Sprintf("%s %s witness %s %s", c.ops.Name, tr.backend, class, desc), b)
		r.Eval(fmt.Sprintf("witness|%s|%x", class, b), true)
		w, _ := witness.New(c.field)
		var derr error
		if p, st := vcore.Catch(func() { derr = w.UnmarshalBinary(b) }); p != nil {
			r.Violation("decode-panic/witness/"+class, fmt.Sprintf("Witness.UnmarshalBinary panicked (%s): %v", desc, p), map[string]any{"curve": c.ops.Name, "bytes_hex": fmt.Sprintf("%x", b), "stack": st})
			return
		}
		if derr != nil {
			r.Count("witness.decode.error", 1)
			r.SampleClass("witness/"+class+"/decode-error", map[string]any{"curve": c.ops.Name, "desc": desc, "decoder_said": derr.Error()})
			return
		}
		r.Count("witness.decode.ok."+class, 1)
		var pw witness.Witness
		var perr, verr error
		if p, st := vcore.Catch(func() {
			pw, perr = w.Public()
			if perr == nil {
				verr = c.verifyObj(tr, tr.proof, pw)
			}
		}); p != nil {
			r.Violation("verify-panic/witness/"+class, fmt.Sprintf("Public()/Verify panicked on a decodable witness (%s): %v", desc, p), map[string]any{"curve": c.ops.Name, "bytes_hex": fmt.Sprintf("%x", b), "stack": st})
			return
		}
		switch {
		case perr != nil:
			r.Count("witness.public.error", 1)
		case verr != nil:
			r.Count("witness.verify.error", 1)
			r.Count("verify.error", 1)
		default:
			if inconsistent {
				r.Violation("inconsistent-structure-accepted/witness/"+class, "a witness whose header disagrees with its payload was decoded, projected and accepted: "+desc,
					map[string]any{"curve": c.ops.Name, "backend": tr.backend, "desc": desc, "bytes_hex": fmt.Sprintf("%x", b)})
			} else {
				r.Count("witness.accepted(consistent)", 1)
			}
		}
	}
	for _, src := range []struct {
		name string
		w    witness.Witness
		np   int
		ns   int
	}{{"public", tr.public, len(tr.pub), 0}, {"full", tr.full, len(tr.pub), len(tr.sec)}} {
		enc, _ := src.w.MarshalBinary()
		nvec := src.np + src.ns
		for k := 0; k < len(enc); k++ {
			try("truncate", fmt.Sprintf("%s[:%d] of %d", src.name, k, len(enc)), enc[:k], true)
		}
		vals := func(n int) []uint32 {
			out := []uint32{0, uint32(n), uint32(n + 1), 1 << 31, 0xffffffff}
			if n > 0 {
				out = append(out, uint32(n-1))
			}
			return out
		}
		for _, hp := range vals(src.np) {
			for _, hs := range append(vals(src.ns), uint32(nvec)) {
				b := append([]byte{}, enc...)
				binary.BigEndian.PutUint32(b[0:], hp)
				binary.BigEndian.PutUint32(b[4:], hs)
				inconsistent := uint64(hp)+uint64(hs) != uint64(nvec)
				try("header", fmt.Sprintf("%s header (%d,%d)->(%d,%d), vector holds %d", src.name, src.np, src.ns, hp, hs, nvec), b, inconsistent)
			}
		}
		// header sums that wrap modulo 2^32 around a payload shortened by k elements
		for k := 1; k <= 2 && k < nvec; k++ {
			b := append([]byte{}, enc[:len(enc)-k*elemSize(enc, nvec)]...)
			binary.BigEndian.PutUint32(b[8:], uint32(nvec-k))
			binary.BigEndian.PutUint32(b[0:], uint32(src.np))
			binary.BigEndian.PutUint32(b[4:], uint32(src.ns)-uint32(k)) // wraps when ns < k
			hs := uint32(src.ns) - uint32(k)
			try("header-wrap", fmt.Sprintf("%s header (%d,%d)->(%d,%d), vector holds %d", src.name, src.np, src.ns, src.np, hs, nvec-k), b, uint64(src.np)+uint64(hs) != uint64(nvec-k))
			b2 := append([]byte{}, b...)
			binary.BigEndian.PutUint32(b2[0:], uint32(src.np)-uint32(k))
			binary.BigEndian.PutUint32(b2[4:], uint32(src.ns))
			try("header-short", fmt.Sprintf("%s header (%d,%d) with a vector of %d", src.name, src.np-k, src.ns, nvec-k), b2, false)
		}
		for _, vl := range []uint32{0, uint32(nvec + 1), uint32(nvec + 2), 255, 65535} {
			if nvec > 0 {
				b := append([]byte{}, enc...)
				binary.BigEndian.PutUint32(b[8:], uint32(nvec-1))
				try("vector-prefix", fmt.Sprintf("%s vector prefix %d->%d", src.name, nvec, nvec-1), b, true)
			}
			b := append([]byte{}, enc...)
			binary.BigEndian.PutUint32(b[8:], vl)
			try("vector-prefix", fmt.Sprintf("%s vector prefix %d->%d", src.name, nvec, vl), b, true)
		}
		for f := 0; f < c.r.Pick(150, 5000); f++ {
			b := append([]byte{}, enc...)
			bit := c.rng.IntN(len(b) * 8)
			b[bit/8] ^= 1 << (bit % 8)
			inconsistent := bit < 96 // a flip in the header or the vector prefix breaks consistency
			try("bit-flip", fmt.Sprintf("%s bit %d", src.name, bit), b, inconsistent && false)
		}
	}
}

func (c *child) otherCurveWitness(tr *triple) {
	r := c.r
	other := ecc.BLS12_381
	if c.ops.ID == other {
		other = ecc.BN254
	}
	pw, err := circuits.MakeWitness(other.ScalarField(), tr.pub, nil)
	if err != nil {
		return
	}
	r.Eval(fmt.Sprintf("%s|%s|other-curve-witness|%s", c.ops.Name, tr.backend, tr.spec), true)
	var verr error
	if p, st := vcore.Catch(func() { verr = c.verifyObj(tr, tr.proof, pw) }); p != nil {
		r.Violation("verify-panic/"+tr.backend+"/other-curve-witness", fmt.Sprintf("Verify panicked on a witness of another curve: %v", p), map[string]any{"curve": c.ops.Name, "stack": st})
	} else if verr == nil {
		r.Violation("inconsistent-structure-accepted/"+tr.backend+"/other-curve-witness", "witness of another curve accepted", map[string]any{"curve": c.ops.Name})
	} else {
		r.Count("verify.error", 1)
		r.Count("verify.error.other-curve-witness", 1)
	}
}

// elemSize returns the byte size of one vector element of a witness encoding (header 8 + prefix 4 + n elements).
func elemSize(enc []byte, n int) int {
	if n == 0 {
		return 0
	}
	return (len(enc) - 12) / n
}
