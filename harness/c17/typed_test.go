//go:build verif

package c17

// Curve-typed pieces: torsion-shifted proofs (on the curve, outside the prime
// order subgroup), detection of exceptional PLONK keys, and the screen for
// scalars on which the emulated scalar-multiplication hint does not terminate.

import (
	"fmt"
	"math/big"

	"github.com/consensys/gnark-crypto/ecc"
	bls12377 "github.com/consensys/gnark-crypto/ecc/bls12-377"
	fr377 "github.com/consensys/gnark-crypto/ecc/bls12-377/fr"
	"github.com/consensys/gnark-crypto/ecc/bn254"
	frbn "github.com/consensys/gnark-crypto/ecc/bn254/fr"
	"github.com/consensys/gnark-crypto/field/eisenstein"
	"github.com/consensys/gnark/backend/groth16"
	g16_377 "github.com/consensys/gnark/backend/groth16/bls12-377"
	g16_bn "github.com/consensys/gnark/backend/groth16/bn254"
	"github.com/consensys/gnark/backend/plonk"
	plk_377 "github.com/consensys/gnark/backend/plonk/bls12-377"
	plk_bn "github.com/consensys/gnark/backend/plonk/bn254"
	"github.com/consensys/gnark/std/algebra/emulated/sw_emulated"

	"github.com/consensys/gnark/verifharness/internal/cvapi"
)

// ---- torsion points

// torsionG1_377 returns a point of the BLS12-377 G1 curve of order dividing the
// cofactor (nonzero): [r]P for a curve point P found by trial.
func torsionG1_377() bls12377.G1Affine {
	_, _, g, _ := bls12377.Generators()
	x := g.X // type carrier
	var b = g.Y
	// b = y^2 - x^3 for the generator
	var x3 = g.X
	x3.Square(&g.X).Mul(&x3, &g.X)
	b.Square(&g.Y).Sub(&b, &x3)
	for k := uint64(2); ; k++ {
		x.SetUint64(k)
		rhs := x
		rhs.Square(&x).Mul(&rhs, &x).Add(&rhs, &b)
		if rhs.Legendre() != 1 {
			continue
		}
		y := rhs
		y.Sqrt(&rhs)
		p := bls12377.G1Affine{X: x, Y: y}
		if !p.IsOnCurve() {
			continue
		}
		var j bls12377.G1Jac
		j.FromAffine(&p)
		j.ScalarMultiplication(&j, fr377.Modulus())
		var t bls12377.G1Affine
		t.FromJacobian(&j)
		if t.IsInfinity() || !t.IsOnCurve() || t.IsInSubGroup() {
			continue
		}
		return t
	}
}

func torsionG2_377() bls12377.G2Affine {
	_, _, _, g := bls12377.Generators()
	x := g.X
	b := g.Y
	x3 := g.X
	x3.Square(&g.X).Mul(&x3, &g.X)
	b.Square(&g.Y).Sub(&b, &x3)
	for k := uint64(2); ; k++ {
		x.A0.SetUint64(k)
		x.A1.SetUint64(1)
		rhs := x
		rhs.Square(&x).Mul(&rhs, &x).Add(&rhs, &b)
		if rhs.Legendre() != 1 {
			continue
		}
		y := rhs
		y.Sqrt(&rhs)
		p := bls12377.G2Affine{X: x, Y: y}
		if !p.IsOnCurve() {
			continue
		}
		var j bls12377.G2Jac
		j.FromAffine(&p)
		j.ScalarMultiplication(&j, fr377.Modulus())
		var t bls12377.G2Affine
		t.FromJacobian(&j)
		if t.IsInfinity() || !t.IsOnCurve() || t.IsInSubGroup() {
			continue
		}
		return t
	}
}

func torsionG2_bn254() bn254.G2Affine {
	_, _, _, g := bn254.Generators()
	x := g.X
	b := g.Y
	x3 := g.X
	x3.Square(&g.X).Mul(&x3, &g.X)
	b.Square(&g.Y).Sub(&b, &x3)
	for k := uint64(2); ; k++ {
		x.A0.SetUint64(k)
		x.A1.SetUint64(1)
		rhs := x
		rhs.Square(&x).Mul(&rhs, &x).Add(&rhs, &b)
		if rhs.Legendre() != 1 {
			continue
		}
		y := rhs
		y.Sqrt(&rhs)
		p := bn254.G2Affine{X: x, Y: y}
		if !p.IsOnCurve() {
			continue
		}
		var j bn254.G2Jac
		j.FromAffine(&p)
		j.ScalarMultiplication(&j, frbn.Modulus())
		var t bn254.G2Affine
		t.FromJacobian(&j)
		if t.IsInfinity() || !t.IsOnCurve() || t.IsInSubGroup() {
			continue
		}
		return t
	}
}

// g16TorsionEdits returns copies of the proof with one point shifted by a
// torsion point: the pairing equations are unchanged, the subgroup membership
// is not.
func g16TorsionEdits(id ecc.ID, proof groth16.Proof) []cvapi.Edit {
	var out []cvapi.Edit
	switch p := proof.(type) {
	case *g16_377.Proof:
		t1, t2 := torsionG1_377(), torsionG2_377()
		cl := func() *g16_377.Proof {
			q := *p
			q.Commitments = append([]bls12377.G1Affine{}, p.Commitments...)
			return &q
		}
		q := cl()
		q.Ar.Add(&q.Ar, &t1)
		out = append(out, cvapi.Edit{Name: "Ar:+=torsion(G1)", Obj: q, Changed: true})
		q = cl()
		q.Krs.Add(&q.Krs, &t1)
		out = append(out, cvapi.Edit{Name: "Krs:+=torsion(G1)", Obj: q, Changed: true})
		q = cl()
		q.Bs.Add(&q.Bs, &t2)
		out = append(out, cvapi.Edit{Name: "Bs:+=torsion(G2)", Obj: q, Changed: true})
		if len(p.Commitments) > 0 {
			q = cl()
			q.CommitmentPok.Add(&q.CommitmentPok, &t1)
			out = append(out, cvapi.Edit{Name: "CommitmentPok:+=torsion(G1)", Obj: q, Changed: true})
		}
	case *g16_bn.Proof:
		t2 := torsionG2_bn254()
		q := *p
		q.Commitments = append([]bn254.G1Affine{}, p.Commitments...)
		q.Bs.Add(&q.Bs, &t2)
		out = append(out, cvapi.Edit{Name: "Bs:+=torsion(G2)", Obj: &q, Changed: true})
	default:
		panic(fmt.Sprintf("g16TorsionEdits: %T", proof))
	}
	return out
}

// plkTorsionEdits: only BLS12-377 has a non-trivial G1 cofactor.
func plkTorsionEdits(proof plonk.Proof) []cvapi.Edit {
	p, ok := proof.(*plk_377.Proof)
	if !ok {
		return nil
	}
	t1 := torsionG1_377()
	cl := func() *plk_377.Proof {
		q := *p
		q.Bsb22Commitments = append([]bls12377.G1Affine{}, p.Bsb22Commitments...)
		q.BatchedProof.ClaimedValues = append([]fr377.Element{}, p.BatchedProof.ClaimedValues...)
		return &q
	}
	var out []cvapi.Edit
	q := cl()
	q.LRO[0].Add(&q.LRO[0], &t1)
	out = append(out, cvapi.Edit{Name: "LRO[0]:+=torsion(G1)", Obj: q, Changed: true})
	q = cl()
	q.Z.Add(&q.Z, &t1)
	out = append(out, cvapi.Edit{Name: "Z:+=torsion(G1)", Obj: q, Changed: true})
	q = cl()
	q.H[1].Add(&q.H[1], &t1)
	out = append(out, cvapi.Edit{Name: "H[1]:+=torsion(G1)", Obj: q, Changed: true})
	q = cl()
	q.BatchedProof.H.Add(&q.BatchedProof.H, &t1)
	out = append(out, cvapi.Edit{Name: "BatchedProof.H:+=torsion(G1)", Obj: q, Changed: true})
	q = cl()
	q.ZShiftedOpening.H.Add(&q.ZShiftedOpening.H, &t1)
	out = append(out, cvapi.Edit{Name: "ZShiftedOpening.H:+=torsion(G1)", Obj: q, Changed: true})
	if len(p.Bsb22Commitments) > 0 {
		q = cl()
		q.Bsb22Commitments[0].Add(&q.Bsb22Commitments[0], &t1)
		out = append(out, cvapi.Edit{Name: "Bsb22Commitments[0]:+=torsion(G1)", Obj: q, Changed: true})
	}
	return out
}

// ---- exceptional keys (documented domain of the incomplete formulas)

// plkVKExceptional reports whether a point of the key that enters the
// in-circuit multi scalar multiplications is the point at infinity or whether
// two of them share an x coordinate (P = +-Q): the cases the incomplete formulas
// exclude (std/recursion/plonk WithCompleteArithmetic doc comment).
func plkVKExceptional(vk plonk.VerifyingKey) bool {
	type pt struct {
		inf bool
		x   string
	}
	var pts []pt
	switch k := vk.(type) {
	case *plk_bn.VerifyingKey:
		all := []bn254.G1Affine{k.Ql, k.Qr, k.Qm, k.Qo, k.Qk, k.S[0], k.S[1], k.S[2]}
		all = append(all, k.Qcp...)
		for i := range all {
			pts = append(pts, pt{all[i].IsInfinity(), all[i].X.String()})
		}
	case *plk_377.VerifyingKey:
		all := []bls12377.G1Affine{k.Ql, k.Qr, k.Qm, k.Qo, k.Qk, k.S[0], k.S[1], k.S[2]}
		all = append(all, k.Qcp...)
		for i := range all {
			pts = append(pts, pt{all[i].IsInfinity(), all[i].X.String()})
		}
	default:
		panic(fmt.Sprintf("plkVKExceptional: %T", vk))
	}
	seen := map[string]bool{}
	for _, p := range pts {
		if p.inf || seen[p.x] {
			return true
		}
		seen[p.x] = true
	}
	return false
}

// ---- scalar screen for the emulated chain

// hintTerminates reproduces the loop of gnark-crypto's eisenstein.HalfGCD as it
// is driven by gnark's halfGCDEisenstein hint (sw_emulated/hints.go) for the
// BN254 scalar field, with an iteration cap: honest runs need < 300 rounds.
func hintTerminates(s *big.Int) bool {
	p := ecc.BN254.ScalarField()
	lambda := sw_emulated.GetBN254Params().Eigenvalue
	var glv ecc.Lattice
	ecc.PrecomputeLattice(p, lambda, &glv)
	a := eisenstein.ComplexNumber{A0: new(big.Int).Set(&glv.V1[0]), A1: new(big.Int).Set(&glv.V1[1])}
	sp := ecc.SplitScalar(new(big.Int).Mod(s, p), &glv)
	b := eisenstein.ComplexNumber{A0: &sp[0], A1: &sp[1]}
	b.Neg(&b)
	var aRun, bRun, quotient, remainder eisenstein.ComplexNumber
	var sqrt big.Int
	aRun.Set(&a)
	bRun.Set(&b)
	sqrt.Sqrt(a.Norm())
	for n := 0; bRun.Norm().Cmp(&sqrt) >= 0; n++ {
		if n >= 5000 {
			return false
		}
		quotient.QuoRem(&aRun, &bRun, &remainder)
		aRun.Set(&bRun)
		bRun.Set(&remainder)
	}
	return true
}

// ---- off-curve points: a coordinate changed so that the point satisfies no curve equation

func g16OffCurveEdits(proof groth16.Proof) []cvapi.Edit {
	var out []cvapi.Edit
	switch p := proof.(type) {
	case *g16_377.Proof:
		cl := func() *g16_377.Proof {
			q := *p
			q.Commitments = append([]bls12377.G1Affine{}, p.Commitments...)
			return &q
		}
		q := cl()
		q.Ar.Y.Add(&q.Ar.Y, &q.Ar.X)
		out = append(out, cvapi.Edit{Name: "Ar.Y:+=Ar.X(off-curve)", Obj: q, Changed: !q.Ar.IsOnCurve()})
		q = cl()
		q.Krs.X.Double(&q.Krs.X)
		out = append(out, cvapi.Edit{Name: "Krs.X:=double(off-curve)", Obj: q, Changed: !q.Krs.IsOnCurve()})
		q = cl()
		q.Bs.Y.A0.Add(&q.Bs.Y.A0, &q.Bs.X.A1)
		out = append(out, cvapi.Edit{Name: "Bs.Y.A0:+=Bs.X.A1(off-curve)", Obj: q, Changed: !q.Bs.IsOnCurve()})
	case *g16_bn.Proof:
		cl := func() *g16_bn.Proof {
			q := *p
			q.Commitments = append([]bn254.G1Affine{}, p.Commitments...)
			return &q
		}
		q := cl()
		q.Ar.Y.Add(&q.Ar.Y, &q.Ar.X)
		out = append(out, cvapi.Edit{Name: "Ar.Y:+=Ar.X(off-curve)", Obj: q, Changed: !q.Ar.IsOnCurve()})
		q = cl()
		q.Krs.X.Double(&q.Krs.X)
		out = append(out, cvapi.Edit{Name: "Krs.X:=double(off-curve)", Obj: q, Changed: !q.Krs.IsOnCurve()})
		q = cl()
		q.Bs.Y.A0.Add(&q.Bs.Y.A0, &q.Bs.X.A1)
		out = append(out, cvapi.Edit{Name: "Bs.Y.A0:+=Bs.X.A1(off-curve)", Obj: q, Changed: !q.Bs.IsOnCurve()})
	default:
		panic(fmt.Sprintf("g16OffCurveEdits: %T", proof))
	}
	return out
}

func plkOffCurveEdits(proof plonk.Proof) []cvapi.Edit {
	var out []cvapi.Edit
	switch p := proof.(type) {
	case *plk_377.Proof:
		cl := func() *plk_377.Proof {
			q := *p
			q.Bsb22Commitments = append([]bls12377.G1Affine{}, p.Bsb22Commitments...)
			q.BatchedProof.ClaimedValues = append([]fr377.Element{}, p.BatchedProof.ClaimedValues...)
			return &q
		}
		q := cl()
		q.BatchedProof.H.Y.Add(&q.BatchedProof.H.Y, &q.BatchedProof.H.X)
		out = append(out, cvapi.Edit{Name: "BatchedProof.H.Y:+=X(off-curve)", Obj: q, Changed: !q.BatchedProof.H.IsOnCurve()})
		q = cl()
		q.ZShiftedOpening.H.X.Double(&q.ZShiftedOpening.H.X)
		out = append(out, cvapi.Edit{Name: "ZShiftedOpening.H.X:=double(off-curve)", Obj: q, Changed: !q.ZShiftedOpening.H.IsOnCurve()})
		q = cl()
		q.Z.Y.Add(&q.Z.Y, &q.Z.X)
		out = append(out, cvapi.Edit{Name: "Z.Y:+=X(off-curve)", Obj: q, Changed: !q.Z.IsOnCurve()})
	case *plk_bn.Proof:
		cl := func() *plk_bn.Proof {
			q := *p
			q.Bsb22Commitments = append([]bn254.G1Affine{}, p.Bsb22Commitments...)
			q.BatchedProof.ClaimedValues = append([]frbn.Element{}, p.BatchedProof.ClaimedValues...)
			return &q
		}
		q := cl()
		q.BatchedProof.H.Y.Add(&q.BatchedProof.H.Y, &q.BatchedProof.H.X)
		out = append(out, cvapi.Edit{Name: "BatchedProof.H.Y:+=X(off-curve)", Obj: q, Changed: !q.BatchedProof.H.IsOnCurve()})
		q = cl()
		q.ZShiftedOpening.H.X.Double(&q.ZShiftedOpening.H.X)
		out = append(out, cvapi.Edit{Name: "ZShiftedOpening.H.X:=double(off-curve)", Obj: q, Changed: !q.ZShiftedOpening.H.IsOnCurve()})
		q = cl()
		q.Z.Y.Add(&q.Z.Y, &q.Z.X)
		out = append(out, cvapi.Edit{Name: "Z.Y:+=X(off-curve)", Obj: q, Changed: !q.Z.IsOnCurve()})
	default:
		panic(fmt.Sprintf("plkOffCurveEdits: %T", proof))
	}
	return out
}
