//go:build verif

package c17

// Outer circuits (the in-circuit verifiers under observation) and the generic
// runner that evaluates one (proof, key(s), public witness) triple in them.

import (
	"fmt"
	"math/big"
	"strings"
	"sync"

	"github.com/consensys/gnark-crypto/ecc"
	"github.com/consensys/gnark/backend/groth16"
	"github.com/consensys/gnark/backend/plonk"
	"github.com/consensys/gnark/backend/witness"
	"github.com/consensys/gnark/constraint"
	"github.com/consensys/gnark/frontend"
	"github.com/consensys/gnark/frontend/cs/r1cs"
	"github.com/consensys/gnark/frontend/cs/scs"
	"github.com/consensys/gnark/std/algebra"
	"github.com/consensys/gnark/std/commitments/kzg"
	"github.com/consensys/gnark/std/commitments/pedersen"
	"github.com/consensys/gnark/std/math/emulated"
	rg16 "github.com/consensys/gnark/std/recursion/groth16"
	rplonk "github.com/consensys/gnark/std/recursion/plonk"
	"github.com/consensys/gnark/test"

	"github.com/consensys/gnark/verifharness/internal/vcore"
)

// ---------------------------------------------------------------- Groth16

type g16Witness[FR emulated.FieldParams, G1 algebra.G1ElementT, G2 algebra.G2ElementT, GT algebra.GtElementT] struct {
	Proof        rg16.Proof[G1, G2]
	VerifyingKey rg16.VerifyingKey[G1, G2, GT]
	InnerWitness rg16.Witness[FR] `gnark:",public"`
	opts         []rg16.VerifierOption
}

func (c *g16Witness[FR, G1, G2, GT]) Define(api frontend.API) error {
	v, err := rg16.NewVerifier[FR, G1, G2, GT](api)
	if err != nil {
		return err
	}
	return v.AssertProof(c.VerifyingKey, c.Proof, c.InnerWitness, c.opts...)
}

type g16Fixed[FR emulated.FieldParams, G1 algebra.G1ElementT, G2 algebra.G2ElementT, GT algebra.GtElementT] struct {
	Proof        rg16.Proof[G1, G2]
	vk           rg16.VerifyingKey[G1, G2, GT] `gnark:"-"`
	InnerWitness rg16.Witness[FR]              `gnark:",public"`
	opts         []rg16.VerifierOption
}

func (c *g16Fixed[FR, G1, G2, GT]) Define(api frontend.API) error {
	v, err := rg16.NewVerifier[FR, G1, G2, GT](api)
	if err != nil {
		return err
	}
	return v.AssertProof(c.vk, c.Proof, c.InnerWitness, c.opts...)
}

type g16Switch[FR emulated.FieldParams, G1 algebra.G1ElementT, G2 algebra.G2ElementT, GT algebra.GtElementT] struct {
	Selector     frontend.Variable
	Proof        rg16.Proof[G1, G2]
	vks          []rg16.VerifyingKey[G1, G2, GT] `gnark:"-"`
	InnerWitness rg16.Witness[FR]                `gnark:",public"`
	opts         []rg16.VerifierOption
}

func (c *g16Switch[FR, G1, G2, GT]) Define(api frontend.API) error {
	v, err := rg16.NewVerifier[FR, G1, G2, GT](api)
	if err != nil {
		return err
	}
	vk, err := v.SwitchVerificationKey(c.Selector, c.vks)
	if err != nil {
		return fmt.Errorf("switch: %w", err)
	}
	return v.AssertProof(vk, c.Proof, c.InnerWitness, c.opts...)
}

// ---------------------------------------------------------------- PLONK

type plkFixed[FR emulated.FieldParams, G1 algebra.G1ElementT, G2 algebra.G2ElementT, GT algebra.GtElementT] struct {
	Proof        rplonk.Proof[FR, G1, G2]
	vk           rplonk.VerifyingKey[FR, G1, G2] `gnark:"-"`
	InnerWitness rplonk.Witness[FR]              `gnark:",public"`
	opts         []rplonk.VerifierOption
}

func (c *plkFixed[FR, G1, G2, GT]) Define(api frontend.API) error {
	v, err := rplonk.NewVerifier[FR, G1, G2, GT](api)
	if err != nil {
		return err
	}
	return v.AssertProof(c.vk, c.Proof, c.InnerWitness, c.opts...)
}

type plkWitness[FR emulated.FieldParams, G1 algebra.G1ElementT, G2 algebra.G2ElementT, GT algebra.GtElementT] struct {
	Proof        rplonk.Proof[FR, G1, G2]
	VerifyingKey rplonk.VerifyingKey[FR, G1, G2]
	InnerWitness rplonk.Witness[FR] `gnark:",public"`
	opts         []rplonk.VerifierOption
}

func (c *plkWitness[FR, G1, G2, GT]) Define(api frontend.API) error {
	v, err := rplonk.NewVerifier[FR, G1, G2, GT](api)
	if err != nil {
		return err
	}
	return v.AssertProof(c.VerifyingKey, c.Proof, c.InnerWitness, c.opts...)
}

// plkSwitch: AssertDifferentProofs over len(Proofs) proofs, base key constant,
// circuit keys as witness, one selector per proof.
type plkSwitch[FR emulated.FieldParams, G1 algebra.G1ElementT, G2 algebra.G2ElementT, GT algebra.GtElementT] struct {
	base        rplonk.BaseVerifyingKey[FR, G1, G2] `gnark:"-"`
	CircuitKeys []rplonk.CircuitVerifyingKey[FR, G1]
	Selectors   []frontend.Variable
	Proofs      []rplonk.Proof[FR, G1, G2]
	Witnesses   []rplonk.Witness[FR] `gnark:",public"`
	opts        []rplonk.VerifierOption
}

func (c *plkSwitch[FR, G1, G2, GT]) Define(api frontend.API) error {
	v, err := rplonk.NewVerifier[FR, G1, G2, GT](api)
	if err != nil {
		return err
	}
	return v.AssertDifferentProofs(c.base, c.CircuitKeys, c.Selectors, c.Proofs, c.Witnesses, c.opts...)
}

// plkSame: AssertSameProofs over several proofs of one key (key constant).
type plkSame[FR emulated.FieldParams, G1 algebra.G1ElementT, G2 algebra.G2ElementT, GT algebra.GtElementT] struct {
	vk        rplonk.VerifyingKey[FR, G1, G2] `gnark:"-"`
	Proofs    []rplonk.Proof[FR, G1, G2]
	Witnesses []rplonk.Witness[FR] `gnark:",public"`
	opts      []rplonk.VerifierOption
}

func (c *plkSame[FR, G1, G2, GT]) Define(api frontend.API) error {
	v, err := rplonk.NewVerifier[FR, G1, G2, GT](api)
	if err != nil {
		return err
	}
	return v.AssertSameProofs(c.vk, c.Proofs, c.Witnesses, c.opts...)
}

// ---------------------------------------------------------------- runner

// chain is one inner/outer curve pairing with its gadget type parameters.
type chain[FR emulated.FieldParams, G1 algebra.G1ElementT, G2 algebra.G2ElementT, GT algebra.GtElementT] struct {
	name         string // "2chain" | "emulated"
	inner, outer ecc.ID

	mu       sync.Mutex
	compiled map[string]*compiledOuter
}

type compiledOuter struct {
	once sync.Once
	ccs  constraint.ConstraintSystem
	err  error
}

type runner interface {
	Name() string
	Inner() ecc.ID
	Outer() ecc.ID
	RunG16(c *g16Case) outcome
	RunPlonk(c *plkCase) outcome
}

func (ch *chain[FR, G1, G2, GT]) Name() string  { return ch.name }
func (ch *chain[FR, G1, G2, GT]) Inner() ecc.ID { return ch.inner }
func (ch *chain[FR, G1, G2, GT]) Outer() ecc.ID { return ch.outer }

// outcome of evaluating one outer circuit on one assignment.
type outcome struct {
	sat      bool
	stage    string // "" (ran) | "convert" | "compile" | "witness"
	err      string
	panicked bool
}

func (o outcome) bucket() string {
	if o.sat {
		return "satisfied"
	}
	e := o.err
	switch {
	case o.panicked:
		return "unsat:panic-in-define"
	case o.stage != "":
		return "unsat:" + o.stage
	case strings.Contains(e, "invalid number of commitments"):
		return "unsat:define-error(commitment count)"
	case strings.Contains(e, "BSB22 commitment number mismatch"):
		return "unsat:define-error(bsb22 count)"
	case strings.Contains(e, "length mismatch for digests and claimed values"):
		return "unsat:define-error(claimed values count)"
	case strings.Contains(e, "define:"):
		return "unsat:define-error(other)"
	default:
		return "unsat:constraint"
	}
}

type g16Case struct {
	mode     string // "witness" | "fixed" | "switch"
	complete bool
	subgroup bool
	engine   string // "test" | "r1cs" | "scs"
	// keys: exactly one for witness/fixed, >= 1 for switch
	vks    []groth16.VerifyingKey
	vkCcs  []constraint.ConstraintSystem // the inner systems the keys belong to (placeholder sizing)
	sel    int
	proof  groth16.Proof
	pub    witness.Witness
	shapeK string // cache key for compiled circuits (identity of the constants baked in)
}

func (c *g16Case) opts() []rg16.VerifierOption {
	var o []rg16.VerifierOption
	if c.complete {
		o = append(o, rg16.WithCompleteArithmetic())
	}
	if c.subgroup {
		o = append(o, rg16.WithSubgroupCheck())
	}
	return o
}

// evaluate runs circuit/assignment in the requested engine.
func (ch *chain[FR, G1, G2, GT]) evaluate(engine, key string, circuit, assignment frontend.Circuit) outcome {
	field := ch.outer.ScalarField()
	if engine == "test" {
		var err error
		pan, stack := vcore.Catch(func() { err = test.IsSolved(circuit, assignment, field) })
		if pan != nil {
			return outcome{err: fmt.Sprintf("panic: %v\n%s", pan, firstLines(stack, 12)), panicked: true}
		}
		if err != nil {
			es := err.Error()
			// IsSolved recovers panics of Define itself and returns them with a stack
			if strings.Contains(es, "goroutine ") && !strings.HasPrefix(es, "define:") && !strings.HasPrefix(es, "deferred:") {
				return outcome{err: firstLines(es, 6), panicked: true}
			}
			return outcome{err: firstLines(es, 4)}
		}
		return outcome{sat: true}
	}
	ch.mu.Lock()
	if ch.compiled == nil {
		ch.compiled = map[string]*compiledOuter{}
	}
	co := ch.compiled[engine+"|"+key]
	if co == nil {
		co = &compiledOuter{}
		ch.compiled[engine+"|"+key] = co
	}
	ch.mu.Unlock()
	co.once.Do(func() {
		pan, _ := vcore.Catch(func() {
			if engine == "r1cs" {
				co.ccs, co.err = frontend.Compile(field, r1cs.NewBuilder, circuit)
			} else {
				co.ccs, co.err = frontend.Compile(field, scs.NewBuilder, circuit)
			}
		})
		if pan != nil {
			co.err = fmt.Errorf("compile panic: %v", pan)
		}
	})
	if co.err != nil {
		return outcome{stage: "compile", err: firstLines(co.err.Error(), 4)}
	}
	w, err := frontend.NewWitness(assignment, field)
	if err != nil {
		return outcome{stage: "witness", err: err.Error()}
	}
	var serr error
	pan, stack := vcore.Catch(func() { _, serr = co.ccs.Solve(w) })
	if pan != nil {
		return outcome{err: fmt.Sprintf("solve panic: %v\n%s", pan, firstLines(stack, 12)), panicked: true}
	}
	if serr != nil {
		return outcome{err: firstLines(serr.Error(), 4)}
	}
	return outcome{sat: true}
}

var errLinesBoost = 0

func firstLines(s string, n int) string {
	n += errLinesBoost
	ls := strings.Split(s, "\n")
	if len(ls) > n {
		ls = ls[:n]
	}
	out := strings.Join(ls, " | ")
	if len(out) > 700 && errLinesBoost == 0 {
		out = out[:700] + "…"
	}
	return out
}

func (ch *chain[FR, G1, G2, GT]) RunG16(c *g16Case) outcome {
	proof, err := rg16.ValueOfProof[G1, G2](c.proof)
	if err != nil {
		return outcome{stage: "convert", err: err.Error()}
	}
	wit, err := rg16.ValueOfWitness[FR](c.pub)
	if err != nil {
		return outcome{stage: "convert", err: err.Error()}
	}
	// placeholders: sized from the inner system, as the package documents
	phProof := rg16.PlaceholderProof[G1, G2](c.vkCcs[0])
	phWit := rg16.PlaceholderWitness[FR](c.vkCcs[0])
	// a hostile triple may carry another number of commitments / public inputs than
	// the inner system: the outer circuit is then shaped after the triple (the
	// verifier's Go-level length checks are what is being observed)
	if len(phProof.Commitments) != len(proof.Commitments) {
		phProof.Commitments = make([]pedersen.Commitment[G1], len(proof.Commitments))
	}
	if len(phWit.Public) != len(wit.Public) {
		phWit.Public = make([]emulated.Element[FR], len(wit.Public))
	}
	key := fmt.Sprintf("g16|%s|c=%v|s=%v|nc=%d|np=%d|%s", c.mode, c.complete, c.subgroup, len(proof.Commitments), len(wit.Public), c.shapeK)
	switch c.mode {
	case "witness":
		vk, err := rg16.ValueOfVerifyingKey[G1, G2, GT](c.vks[0])
		if err != nil {
			return outcome{stage: "convert", err: err.Error()}
		}
		circuit := &g16Witness[FR, G1, G2, GT]{Proof: phProof, InnerWitness: phWit,
			VerifyingKey: rg16.PlaceholderVerifyingKey[G1, G2, GT](c.vkCcs[0]), opts: c.opts()}
		assign := &g16Witness[FR, G1, G2, GT]{Proof: proof, InnerWitness: wit, VerifyingKey: vk}
		return ch.evaluate(c.engine, key, circuit, assign)
	case "fixed":
		vk, err := rg16.ValueOfVerifyingKeyFixed[G1, G2, GT](c.vks[0])
		if err != nil {
			return outcome{stage: "convert", err: err.Error()}
		}
		circuit := &g16Fixed[FR, G1, G2, GT]{Proof: phProof, InnerWitness: phWit, vk: vk, opts: c.opts()}
		assign := &g16Fixed[FR, G1, G2, GT]{Proof: proof, InnerWitness: wit}
		return ch.evaluate(c.engine, key, circuit, assign)
	case "switch":
		vks := make([]rg16.VerifyingKey[G1, G2, GT], len(c.vks))
		for i := range c.vks {
			vks[i], err = rg16.ValueOfVerifyingKey[G1, G2, GT](c.vks[i])
			if err != nil {
				return outcome{stage: "convert", err: err.Error()}
			}
		}
		circuit := &g16Switch[FR, G1, G2, GT]{Proof: phProof, InnerWitness: phWit, vks: vks, opts: c.opts()}
		assign := &g16Switch[FR, G1, G2, GT]{Selector: c.sel, Proof: proof, InnerWitness: wit}
		return ch.evaluate(c.engine, key, circuit, assign)
	}
	panic("bad mode " + c.mode)
}

type plkCase struct {
	mode     string // "fixed" | "witness" | "switch" | "same"
	complete bool
	engine   string
	vks      []plonk.VerifyingKey
	vkCcs    []constraint.ConstraintSystem
	base     plonk.VerifyingKey // switch mode: the key whose SRS part is the constant base key (default vks[0])
	// one entry per verified proof (1 for fixed/witness; >= 1 for switch/same)
	sels   []int
	proofs []plonk.Proof
	pubs   []witness.Witness
	shapeK string
}

func (c *plkCase) opts() []rplonk.VerifierOption {
	if c.complete {
		return []rplonk.VerifierOption{rplonk.WithCompleteArithmetic()}
	}
	return nil
}

func (ch *chain[FR, G1, G2, GT]) RunPlonk(c *plkCase) outcome {
	n := len(c.proofs)
	proofs := make([]rplonk.Proof[FR, G1, G2], n)
	wits := make([]rplonk.Witness[FR], n)
	phProofs := make([]rplonk.Proof[FR, G1, G2], n)
	phWits := make([]rplonk.Witness[FR], n)
	shape := ""
	for i := 0; i < n; i++ {
		var err error
		proofs[i], err = rplonk.ValueOfProof[FR, G1, G2](c.proofs[i])
		if err != nil {
			return outcome{stage: "convert", err: err.Error()}
		}
		wits[i], err = rplonk.ValueOfWitness[FR](c.pubs[i])
		if err != nil {
			return outcome{stage: "convert", err: err.Error()}
		}
		phProofs[i] = rplonk.PlaceholderProof[FR, G1, G2](c.vkCcs[0])
		phWits[i] = rplonk.PlaceholderWitness[FR](c.vkCcs[0])
		if len(phProofs[i].Bsb22Commitments) != len(proofs[i].Bsb22Commitments) {
			phProofs[i].Bsb22Commitments = make([]kzg.Commitment[G1], len(proofs[i].Bsb22Commitments))
		}
		if len(phProofs[i].BatchedProof.ClaimedValues) != len(proofs[i].BatchedProof.ClaimedValues) {
			phProofs[i].BatchedProof.ClaimedValues = make([]emulated.Element[FR], len(proofs[i].BatchedProof.ClaimedValues))
		}
		if len(phWits[i].Public) != len(wits[i].Public) {
			phWits[i].Public = make([]emulated.Element[FR], len(wits[i].Public))
		}
		shape += fmt.Sprintf("(%d,%d,%d)", len(proofs[i].Bsb22Commitments), len(proofs[i].BatchedProof.ClaimedValues), len(wits[i].Public))
	}
	key := fmt.Sprintf("plonk|%s|c=%v|%s|%s", c.mode, c.complete, shape, c.shapeK)
	switch c.mode {
	case "fixed":
		vk, err := rplonk.ValueOfVerifyingKey[FR, G1, G2](c.vks[0])
		if err != nil {
			return outcome{stage: "convert", err: err.Error()}
		}
		circuit := &plkFixed[FR, G1, G2, GT]{Proof: phProofs[0], InnerWitness: phWits[0], vk: vk, opts: c.opts()}
		assign := &plkFixed[FR, G1, G2, GT]{Proof: proofs[0], InnerWitness: wits[0]}
		return ch.evaluate(c.engine, key, circuit, assign)
	case "witness":
		vk, err := rplonk.ValueOfVerifyingKey[FR, G1, G2](c.vks[0])
		if err != nil {
			return outcome{stage: "convert", err: err.Error()}
		}
		circuit := &plkWitness[FR, G1, G2, GT]{Proof: phProofs[0], InnerWitness: phWits[0],
			VerifyingKey: rplonk.PlaceholderVerifyingKey[FR, G1, G2](c.vkCcs[0]), opts: c.opts()}
		assign := &plkWitness[FR, G1, G2, GT]{Proof: proofs[0], InnerWitness: wits[0], VerifyingKey: vk}
		return ch.evaluate(c.engine, key, circuit, assign)
	case "same":
		vk, err := rplonk.ValueOfVerifyingKey[FR, G1, G2](c.vks[0])
		if err != nil {
			return outcome{stage: "convert", err: err.Error()}
		}
		circuit := &plkSame[FR, G1, G2, GT]{Proofs: phProofs, Witnesses: phWits, vk: vk, opts: c.opts()}
		assign := &plkSame[FR, G1, G2, GT]{Proofs: proofs, Witnesses: wits}
		return ch.evaluate(c.engine, key, circuit, assign)
	case "switch":
		baseVK := c.base
		if baseVK == nil {
			baseVK = c.vks[0]
		}
		base, err := rplonk.ValueOfBaseVerifyingKey[FR, G1, G2](baseVK)
		if err != nil {
			return outcome{stage: "convert", err: err.Error()}
		}
		cvks := make([]rplonk.CircuitVerifyingKey[FR, G1], len(c.vks))
		phCvks := make([]rplonk.CircuitVerifyingKey[FR, G1], len(c.vks))
		for i := range c.vks {
			cvks[i], err = rplonk.ValueOfCircuitVerifyingKey[FR, G1](c.vks[i])
			if err != nil {
				return outcome{stage: "convert", err: err.Error()}
			}
			phCvks[i] = rplonk.PlaceholderCircuitVerifyingKey[FR, G1](c.vkCcs[i])
		}
		sels := make([]frontend.Variable, n)
		for i := range sels {
			sels[i] = c.sels[i]
		}
		circuit := &plkSwitch[FR, G1, G2, GT]{base: base, CircuitKeys: phCvks, Selectors: make([]frontend.Variable, n),
			Proofs: phProofs, Witnesses: phWits, opts: c.opts()}
		assign := &plkSwitch[FR, G1, G2, GT]{CircuitKeys: cvks, Selectors: sels, Proofs: proofs, Witnesses: wits}
		return ch.evaluate(c.engine, key, circuit, assign)
	}
	panic("bad mode " + c.mode)
}

var _ = big.NewInt
