//go:build verif

package c17

import (
	"fmt"
	"math/rand/v2"
	"os"
	"testing"
	"time"

	"github.com/consensys/gnark-crypto/ecc"
	"github.com/consensys/gnark/constraint"
	"github.com/consensys/gnark/backend/groth16"
	"github.com/consensys/gnark/backend/plonk"
	"github.com/consensys/gnark/backend/witness"
	"github.com/consensys/gnark/std/algebra/emulated/sw_bn254"
	"github.com/consensys/gnark/std/algebra/native/sw_bls12377"
)

func chains() []runner {
	return []runner{
		&chain[sw_bls12377.ScalarField, sw_bls12377.G1Affine, sw_bls12377.G2Affine, sw_bls12377.GT]{name: "2chain", inner: ecc.BLS12_377, outer: ecc.BW6_761},
		&chain[sw_bn254.ScalarField, sw_bn254.G1Affine, sw_bn254.G2Affine, sw_bn254.GTEl]{name: "emulated", inner: ecc.BN254, outer: ecc.BN254},
	}
}

// development probe: timings of the engines (C17_PROBE=1)
func TestC17Probe(t *testing.T) {
	if os.Getenv("C17_PROBE") == "" {
		t.Skip()
	}
	rng := rand.New(rand.NewPCG(1, 2))
	for _, rn := range chains() {
		for _, commit := range []string{commitNone, commitMixed} {
			s := makeSpec(rng, commit)
			in, err := newG16Inner(rn, s)
			if err != nil {
				t.Fatal(err)
			}
			pub, sec := assignFor(rng, s, rn.Inner().ScalarField(), -1, rn.Name() == "2chain")
			proof, err := in.prove(rn, pub, sec)
			if err != nil {
				t.Fatal(err)
			}
			pw := pubWitness(rn, pub)
			nerr, _ := nativeG16(rn, proof, in.vk, pw)
			for _, mode := range []string{"witness", "fixed", "switch"} {
				for _, eng := range []string{"test", "r1cs", "scs"} {
					if eng != "test" && (mode != "witness" || os.Getenv("C17_PROBE") != "2") {
						continue
					}
					t0 := time.Now()
					o := rn.RunG16(&g16Case{mode: mode, engine: eng, vks: []groth16.VerifyingKey{in.vk}, vkCcs: []constraint.ConstraintSystem{in.ccs}, proof: proof, pub: pw})
					d1 := time.Since(t0)
					t0 = time.Now()
					o2 := rn.RunG16(&g16Case{mode: mode, engine: eng, vks: []groth16.VerifyingKey{in.vk}, vkCcs: []constraint.ConstraintSystem{in.ccs}, proof: proof, pub: pw})
					fmt.Printf("g16 %s %s %s %s native=%v sat=%v (%s) %v / %v\n", rn.Name(), commit, mode, eng, nerr, o.sat, o.err, d1, time.Since(t0))
					_ = o2
				}
			}
			// PLONK
			pin, err := newPlkInner(rn, s, randTau(rng, rn.Inner().ScalarField()))
			if err != nil {
				t.Fatal(err)
			}
			pproof, err := pin.prove(rn, pub, sec)
			if err != nil {
				t.Fatal(err)
			}
			perr, _ := nativePlonk(rn, pproof, pin.vk, pw)
			for _, mode := range []string{"fixed", "witness", "switch", "same"} {
				for _, complete := range []bool{true, false} {
					for _, eng := range []string{"test", "r1cs", "scs"} {
						if eng != "test" && (mode != "witness" || !complete || os.Getenv("C17_PROBE") != "2") {
							continue
						}
						t0 := time.Now()
						o := rn.RunPlonk(&plkCase{mode: mode, complete: complete, engine: eng, vks: []plonk.VerifyingKey{pin.vk}, vkCcs: []constraint.ConstraintSystem{pin.ccs},
							sels: []int{0}, proofs: []plonk.Proof{pproof}, pubs: []witness.Witness{pw}})
						d1 := time.Since(t0)
						t0 = time.Now()
						if eng != "test" {
							rn.RunPlonk(&plkCase{mode: mode, complete: complete, engine: eng, vks: []plonk.VerifyingKey{pin.vk}, vkCcs: []constraint.ConstraintSystem{pin.ccs},
								sels: []int{0}, proofs: []plonk.Proof{pproof}, pubs: []witness.Witness{pw}})
						}
						fmt.Printf("plonk %s %s %s complete=%v %s native=%v sat=%v (%s) %v / %v\n", rn.Name(), commit, mode, complete, eng, perr, o.sat, o.err, d1, time.Since(t0))
					}
				}
			}
		}
	}
}
